// Package namex holds the parts of the C14 harness that are independent of go-sfnt:
// structural walkers for emitted "name", "post" and GSUB/GPOS script-list bytes, hand
// written builders for the same structures (used to feed the decoders of the library
// with bytes the library did not write), and a minimal TrueType container that
// golang.org/x/image/font/sfnt accepts (the independent reader of the property).
//
// Nothing in this package imports seehuhn.de/go/sfnt and nothing in it compares
// anything: walkers only turn bytes into integers, the verdicts are TLC's.
package namex

import "fmt"

func u16(b []byte, p int) int { return int(b[p])<<8 | int(b[p+1]) }

// NameRec is one name record as found in the bytes.
type NameRec struct {
	Platform, Encoding, Language, NameID, Length, Offset int
}

// NameWalk is the result of walking a "name" table.
type NameWalk struct {
	OK            bool // the header and record array are inside the table
	Version       int
	Count         int
	StorageOffset int
	HeaderEnd     int // end of the record array (and of the language-tag records of version 1)
	Total         int
	Recs          []NameRec
	Storage       []byte // bytes from StorageOffset to the end of the table
}

// WalkName reads the header, the record array and the storage area of a "name" table
// (OpenType "Naming table", versions 0 and 1).
func WalkName(data []byte) NameWalk {
	w := NameWalk{Total: len(data), Recs: []NameRec{}, Storage: []byte{}}
	if len(data) < 6 {
		return w
	}
	w.Version = u16(data, 0)
	w.Count = u16(data, 2)
	w.StorageOffset = u16(data, 4)
	end := 6 + 12*w.Count
	if end > len(data) {
		return w
	}
	for i := 0; i < w.Count; i++ {
		p := 6 + 12*i
		w.Recs = append(w.Recs, NameRec{
			Platform: u16(data, p), Encoding: u16(data, p+2), Language: u16(data, p+4),
			NameID: u16(data, p+6), Length: u16(data, p+8), Offset: u16(data, p+10),
		})
	}
	if w.Version >= 1 {
		if end+2 > len(data) {
			return w
		}
		end += 2 + 4*u16(data, end)
	}
	w.HeaderEnd = end
	if w.StorageOffset > len(data) {
		return w
	}
	w.Storage = data[w.StorageOffset:]
	w.OK = true
	return w
}

// PostWalk is the result of walking a "post" table.
type PostWalk struct {
	OK        bool
	Version   [2]int // 16.16 version as two halves: {1,0} {2,0} {3,0}
	Total     int
	NumGlyphs int      // format 2 only
	Index     []int    // format 2: glyphNameIndex
	Strings   [][]byte // format 2: the Pascal strings in order
	Trailing  int      // format 2: bytes after the last complete Pascal string
}

// WalkPost reads the structure of a "post" table (OpenType "PostScript table").
func WalkPost(data []byte) PostWalk {
	w := PostWalk{Total: len(data), Index: []int{}, Strings: [][]byte{}}
	if len(data) < 32 {
		return w
	}
	w.Version = [2]int{u16(data, 0), u16(data, 2)}
	if w.Version != [2]int{2, 0} {
		w.OK = true
		return w
	}
	if len(data) < 34 {
		return w
	}
	w.NumGlyphs = u16(data, 32)
	p := 34
	if p+2*w.NumGlyphs > len(data) {
		return w
	}
	for i := 0; i < w.NumGlyphs; i++ {
		w.Index = append(w.Index, u16(data, p))
		p += 2
	}
	for p < len(data) {
		l := int(data[p])
		if p+1+l > len(data) {
			break
		}
		w.Strings = append(w.Strings, data[p+1:p+1+l])
		p += 1 + l
	}
	w.Trailing = len(data) - p
	w.OK = true
	return w
}

// LangSys is one language system found in a ScriptList.
type LangSys struct {
	Script   []byte // 4 bytes
	Lang     []byte // 4 bytes, or empty for the default language system
	Required int
	Features []int
}

// WalkScriptList walks the ScriptList of a GSUB/GPOS table (OpenType "Layout common table
// formats": ScriptList, Script, LangSys).  The order is the order of the records in the file.
func WalkScriptList(tbl []byte) (res []LangSys, err error) {
	defer func() {
		if r := recover(); r != nil {
			err = fmt.Errorf("script list leaves the table: %v", r)
		}
	}()
	res = []LangSys{}
	if len(tbl) < 10 {
		return nil, fmt.Errorf("short table")
	}
	sl := u16(tbl, 4)
	if sl == 0 {
		return res, nil
	}
	n := u16(tbl, sl)
	for i := 0; i < n; i++ {
		rec := sl + 2 + 6*i
		script := tbl[rec : rec+4]
		st := sl + u16(tbl, rec+4)
		def := u16(tbl, st)
		cnt := u16(tbl, st+2)
		one := func(lang []byte, at int) {
			ls := LangSys{Script: script, Lang: lang, Required: u16(tbl, at+2), Features: []int{}}
			fc := u16(tbl, at+4)
			for k := 0; k < fc; k++ {
				ls.Features = append(ls.Features, u16(tbl, at+6+2*k))
			}
			res = append(res, ls)
		}
		if def != 0 {
			one([]byte{}, st+def)
		}
		for k := 0; k < cnt; k++ {
			lr := st + 4 + 6*k
			one(tbl[lr:lr+4], st+u16(tbl, lr+4))
		}
	}
	return res, nil
}
