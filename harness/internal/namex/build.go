package namex

import "sort"

func put16(b []byte, v int) []byte { return append(b, byte(v>>8), byte(v)) }
func put32(b []byte, v uint32) []byte {
	return append(b, byte(v>>24), byte(v>>16), byte(v>>8), byte(v))
}

// RawRec is a name record with its payload, for BuildName.
type RawRec struct {
	Platform, Encoding, Language, NameID int
	Payload                              []byte
}

// BuildName writes a version-0 "name" table holding the given records in the given
// order, every payload stored separately (no sharing), pad unused bytes in front of
// the storage area (the format allows a gap between the records and the storage).
func BuildName(recs []RawRec, pad int) []byte {
	so := 6 + 12*len(recs) + pad
	b := put16(nil, 0)
	b = put16(b, len(recs))
	b = put16(b, so)
	off := 0
	for _, r := range recs {
		b = put16(b, r.Platform)
		b = put16(b, r.Encoding)
		b = put16(b, r.Language)
		b = put16(b, r.NameID)
		b = put16(b, len(r.Payload))
		b = put16(b, off)
		off += len(r.Payload)
	}
	for i := 0; i < pad; i++ {
		b = append(b, 0xAA)
	}
	for _, r := range recs {
		b = append(b, r.Payload...)
	}
	return b
}

// LangSpec / ScriptSpec describe a ScriptList to build.
type LangSpec struct {
	Lang     string // 4 bytes; "" = default language system
	Required int
	Features []int
}
type ScriptSpec struct {
	Script string // 4 bytes
	Langs  []LangSpec
}

// BuildLayout writes a GSUB/GPOS table (version 1.0) with the given ScriptList, a
// FeatureList of numFeatures features without lookups and an empty LookupList.
// Records are sorted by tag as the format requires.
func BuildLayout(scripts []ScriptSpec, numFeatures int) []byte {
	scripts = append([]ScriptSpec(nil), scripts...)
	sort.SliceStable(scripts, func(i, j int) bool { return scripts[i].Script < scripts[j].Script })

	// script tables
	var tables [][]byte
	for _, s := range scripts {
		var def *LangSpec
		var named []LangSpec
		for i := range s.Langs {
			if s.Langs[i].Lang == "" {
				def = &s.Langs[i]
			} else {
				named = append(named, s.Langs[i])
			}
		}
		sort.SliceStable(named, func(i, j int) bool { return named[i].Lang < named[j].Lang })
		ls := func(l LangSpec) []byte {
			b := put16(nil, 0)
			b = put16(b, l.Required)
			b = put16(b, len(l.Features))
			for _, f := range l.Features {
				b = put16(b, f)
			}
			return b
		}
		pos := 4 + 6*len(named)
		var body []byte
		head := []byte{}
		if def != nil {
			head = put16(head, pos)
			x := ls(*def)
			body = append(body, x...)
			pos += len(x)
		} else {
			head = put16(head, 0)
		}
		head = put16(head, len(named))
		for _, l := range named {
			head = append(head, []byte(l.Lang)...)
			head = put16(head, pos)
			x := ls(l)
			body = append(body, x...)
			pos += len(x)
		}
		tables = append(tables, append(head, body...))
	}
	sl := put16(nil, len(scripts))
	pos := 2 + 6*len(scripts)
	for i, s := range scripts {
		sl = append(sl, []byte(s.Script)...)
		sl = put16(sl, pos)
		pos += len(tables[i])
	}
	for _, t := range tables {
		sl = append(sl, t...)
	}

	fl := put16(nil, numFeatures)
	for i := 0; i < numFeatures; i++ {
		fl = append(fl, 't', 'e', 's', 't')
		fl = put16(fl, 2+6*numFeatures+4*i)
	}
	for i := 0; i < numFeatures; i++ {
		fl = put16(fl, 0)
		fl = put16(fl, 0)
	}
	ll := put16(nil, 0)

	b := put16(nil, 1)
	b = put16(b, 0)
	b = put16(b, 10)
	b = put16(b, 10+len(sl))
	b = put16(b, 10+len(sl)+len(fl))
	b = append(b, sl...)
	b = append(b, fl...)
	b = append(b, ll...)
	return b
}

// BuildFont writes a minimal TrueType container with numGlyphs empty glyphs, the given
// "post" and "name" tables and just enough other tables for golang.org/x/image/font/sfnt.
func BuildFont(numGlyphs int, post, name []byte) []byte {
	head := make([]byte, 54)
	head[1] = 1                                     // version 1.0
	copy(head[12:], []byte{0x5F, 0x0F, 0x3C, 0xF5}) // magic
	head[18], head[19] = 0x03, 0xE8                 // unitsPerEm 1000
	head[51] = 0                                    // short loca
	maxp := make([]byte, 32)
	maxp[1] = 1
	maxp[4], maxp[5] = byte(numGlyphs>>8), byte(numGlyphs)
	hhea := make([]byte, 36)
	hhea[1] = 1
	hhea[35] = 1 // one long metric
	hmtx := make([]byte, 4+2*(numGlyphs-1))
	loca := make([]byte, 2*(numGlyphs+1))
	glyf := []byte{0, 0, 0, 0}
	// cmap: one format-4 subtable (3,1) mapping nothing
	cm := []byte{0, 0, 0, 1, 0, 3, 0, 1, 0, 0, 0, 12}
	sub := []byte{0, 4, 0, 24, 0, 0, 0, 2, 0, 2, 0, 0, 0, 0,
		0xFF, 0xFF, 0, 0, 0xFF, 0xFF, 0, 1, 0, 0}
	cm = append(cm, sub...)

	type tab struct {
		tag  string
		data []byte
	}
	tabs := []tab{{"cmap", cm}, {"glyf", glyf}, {"head", head}, {"hhea", hhea}, {"hmtx", hmtx},
		{"loca", loca}, {"maxp", maxp}}
	if name != nil {
		tabs = append(tabs, tab{"name", name})
	}
	if post != nil {
		tabs = append(tabs, tab{"post", post})
	}
	sort.Slice(tabs, func(i, j int) bool { return tabs[i].tag < tabs[j].tag })
	n := len(tabs)
	b := put32(nil, 0x00010000)
	b = put16(b, n)
	b = put16(b, 0)
	b = put16(b, 0)
	b = put16(b, 0)
	pos := 12 + 16*n
	for _, t := range tabs {
		b = append(b, []byte(t.tag)...)
		b = put32(b, 0)
		b = put32(b, uint32(pos))
		b = put32(b, uint32(len(t.data)))
		pos += (len(t.data) + 3) &^ 3
	}
	for _, t := range tabs {
		b = append(b, t.data...)
		for len(b)%4 != 0 {
			b = append(b, 0)
		}
	}
	return b
}

// LayoutOpts selects freedoms of the ScriptList format that writers rarely use.
type LayoutOpts struct {
	ShareScript  bool // every script record points to the Script table of the first script
	ShareLangSys bool // language systems of one script with equal content share one LangSys table
	Reverse      bool // tables are laid out in the reverse order of their records
}

// BuildLayoutX is BuildLayout with LayoutOpts.  With ShareScript all scripts get the language
// systems of the first one (the caller lists them once per script).
func BuildLayoutX(scripts []ScriptSpec, numFeatures int, o LayoutOpts) []byte {
	scripts = append([]ScriptSpec(nil), scripts...)
	sort.SliceStable(scripts, func(i, j int) bool { return scripts[i].Script < scripts[j].Script })

	lsBytes := func(l LangSpec) []byte {
		b := put16(nil, 0)
		b = put16(b, l.Required)
		b = put16(b, len(l.Features))
		for _, f := range l.Features {
			b = put16(b, f)
		}
		return b
	}
	scriptTable := func(s ScriptSpec) []byte {
		var def *LangSpec
		var named []LangSpec
		for i := range s.Langs {
			if s.Langs[i].Lang == "" {
				def = &s.Langs[i]
			} else {
				named = append(named, s.Langs[i])
			}
		}
		sort.SliceStable(named, func(i, j int) bool { return named[i].Lang < named[j].Lang })
		// the LangSys tables in record order: default first
		var recs []LangSpec
		if def != nil {
			recs = append(recs, *def)
		}
		recs = append(recs, named...)
		bodies := make([][]byte, len(recs))
		owner := make([]int, len(recs)) // index of the record whose table this one uses
		for i, r := range recs {
			bodies[i] = lsBytes(r)
			owner[i] = i
			if o.ShareLangSys {
				for j := 0; j < i; j++ {
					if string(bodies[j]) == string(bodies[i]) {
						owner[i] = owner[j]
						break
					}
				}
			}
		}
		order := []int{}
		for i := range recs {
			if owner[i] == i {
				order = append(order, i)
			}
		}
		if o.Reverse {
			for a, b := 0, len(order)-1; a < b; a, b = a+1, b-1 {
				order[a], order[b] = order[b], order[a]
			}
		}
		offs := make([]int, len(recs))
		pos := 4 + 6*len(named)
		var body []byte
		for _, i := range order {
			offs[i] = pos
			body = append(body, bodies[i]...)
			pos += len(bodies[i])
		}
		head := []byte{}
		k := 0
		if def != nil {
			head = put16(head, offs[owner[0]])
			k = 1
		} else {
			head = put16(head, 0)
		}
		head = put16(head, len(named))
		for i, l := range named {
			head = append(head, []byte(l.Lang)...)
			head = put16(head, offs[owner[k+i]])
		}
		return append(head, body...)
	}

	n := len(scripts)
	tables := make([][]byte, n)
	owner := make([]int, n)
	for i, s := range scripts {
		owner[i] = i
		if o.ShareScript && i > 0 {
			owner[i] = 0
			continue
		}
		tables[i] = scriptTable(s)
	}
	order := []int{}
	for i := range scripts {
		if owner[i] == i {
			order = append(order, i)
		}
	}
	if o.Reverse {
		for a, b := 0, len(order)-1; a < b; a, b = a+1, b-1 {
			order[a], order[b] = order[b], order[a]
		}
	}
	offs := make([]int, n)
	pos := 2 + 6*n
	var body []byte
	for _, i := range order {
		offs[i] = pos
		body = append(body, tables[i]...)
		pos += len(tables[i])
	}
	sl := put16(nil, n)
	for i, s := range scripts {
		sl = append(sl, []byte(s.Script)...)
		sl = put16(sl, offs[owner[i]])
	}
	sl = append(sl, body...)

	fl := put16(nil, numFeatures)
	for i := 0; i < numFeatures; i++ {
		fl = append(fl, 't', 'e', 's', 't')
		fl = put16(fl, 2+6*numFeatures+4*i)
	}
	for i := 0; i < numFeatures; i++ {
		fl = put16(fl, 0)
		fl = put16(fl, 0)
	}
	b := put16(nil, 1)
	b = put16(b, 0)
	b = put16(b, 10)
	b = put16(b, 10+len(sl))
	b = put16(b, 10+len(sl)+len(fl))
	b = append(b, sl...)
	b = append(b, fl...)
	b = put16(b, 0)
	return b
}
