// Package gtabwalk is an independent structural walker of OpenType layout tables
// (GSUB, GPOS, GDEF and the coverage / class definition tables they contain), written from
// the OpenType specification and sharing no code with go-sfnt.  It follows every offset
// field that is written in the bytes, marks every byte that belongs to a structure, and
// reports facts: where each offset field is, what it holds, where the structure it refers to
// starts and ends, the declared counts, bytes claimed by no structure (gaps) and by more
// than one (overlaps).  It never judges: the facts are judged by spec/LookupLayoutTrace.tla.
package gtabwalk

import (
	"fmt"
	"math/bits"
)

// Sub is one subtable slot of a Lookup table.
type Sub struct {
	Off   int    `json:"off"`   // the Offset16 as written
	Pos   int    `json:"pos"`   // lookup position + Off
	Ext   bool   `json:"ext"`   // the slot holds an extension record
	EType int    `json:"etype"` // extensionLookupType (0 if !Ext)
	EOff  [2]int `json:"eoff"`  // Offset32 of the extension record as two 16-bit halves
	TPos  int    `json:"tpos"`  // start of the real subtable
	TEnd  int    `json:"tend"`  // end of the last structure reachable from the real subtable
	Fmt   int    `json:"fmt"`   // format word of the real subtable
}

// Lookup is one Lookup table.
type Lookup struct {
	Off    int   `json:"off"`
	Pos    int   `json:"pos"`
	End    int   `json:"end"` // end of the Lookup table proper (without subtables)
	Type   int   `json:"type"`
	Flags  int   `json:"flags"`
	Mfs    bool  `json:"mfs"`
	MfsVal int   `json:"mfsval"`
	NSub   int   `json:"nsub"`
	Subs   []Sub `json:"subs"`
}

// Result holds the facts found by a walk.
type Result struct {
	OK       bool     `json:"ok"`
	Err      string   `json:"err"`
	Len      int      `json:"len"`
	Hdr      [3]int   `json:"hdr"` // scriptList, featureList, lookupList offsets as written
	SL       [2]int   `json:"sl"`  // extent of the script list
	FL       [2]int   `json:"fl"`  // extent of the feature list
	LL       [2]int   `json:"ll"`  // extent of the lookup list (with everything reachable)
	N        int      `json:"n"`   // lookupCount as written
	Lookups  []Lookup `json:"lookups"`
	Gaps     int      `json:"gaps"`     // bytes that belong to no structure
	Overlaps int      `json:"overlaps"` // bytes that belong to more than one structure
	Covs     [][4]int `json:"covs"`     // per coverage table: format, glyphs, maximal runs, size
	CDefs    [][4]int `json:"cdefs"`    // per class definition: format, span, maximal segments, size
	CovBad   int      `json:"covbad"`   // coverage tables not ascending / indices not 0..n-1
	CntBad   int      `json:"cntbad"`   // arrays whose declared count differs from the coverage count
	NOffs    int      `json:"noffs"`    // offset fields followed
	Scripts  []string `json:"scripts"`  // "scriptTag/langTag:required:count" in file order
	Features []string `json:"features"` // "tag:count" in file order
}

type walkErr struct{ msg string }

type walker struct {
	d      []byte
	cnt    []uint8
	lo, hi int // extent of the bytes marked since resetExtent
	res    *Result
}

func (w *walker) fail(pos int, format string, a ...any) {
	panic(walkErr{fmt.Sprintf("at %d: ", pos) + fmt.Sprintf(format, a...)})
}

func (w *walker) mark(pos, n int, what string) {
	if pos < 0 || n < 0 || pos+n > len(w.d) {
		w.fail(pos, "%s of %d bytes extends beyond the end (%d)", what, n, len(w.d))
	}
	for i := pos; i < pos+n; i++ {
		if w.cnt[i] < 200 {
			w.cnt[i]++
		}
	}
	if n > 0 {
		if pos < w.lo {
			w.lo = pos
		}
		if pos+n > w.hi {
			w.hi = pos + n
		}
	}
}

func (w *walker) resetExtent() { w.lo, w.hi = len(w.d)+1, -1 }

// u16 reads a big-endian word and marks it.
func (w *walker) u16(pos int, what string) int {
	w.mark(pos, 2, what)
	return int(w.d[pos])<<8 | int(w.d[pos+1])
}

func (w *walker) peek16(pos int, what string) int {
	if pos < 0 || pos+2 > len(w.d) {
		w.fail(pos, "%s beyond the end (%d)", what, len(w.d))
	}
	return int(w.d[pos])<<8 | int(w.d[pos+1])
}

// off16 reads an offset field relative to base and returns the target.
func (w *walker) off16(pos, base int, what string) int {
	v := w.u16(pos, what)
	w.res.NOffs++
	t := base + v
	if t >= len(w.d) {
		w.fail(pos, "%s %d from %d points beyond the end (%d)", what, v, base, len(w.d))
	}
	return t
}

// words marks n 16-bit words and returns them.
func (w *walker) words(pos, n int, what string) []int {
	w.mark(pos, 2*n, what)
	r := make([]int, n)
	for i := range r {
		r[i] = int(w.d[pos+2*i])<<8 | int(w.d[pos+2*i+1])
	}
	return r
}

func runs(g []int) int {
	r := 0
	for i, x := range g {
		if i == 0 || x != g[i-1]+1 {
			r++
		}
	}
	return r
}

// coverage parses a Coverage table and returns its glyphs in coverage-index order.
func (w *walker) coverage(pos int) []int {
	start := pos
	format := w.u16(pos, "coverage format")
	var glyphs []int
	bad := false
	size := 0
	switch format {
	case 1:
		n := w.u16(pos+2, "coverage glyphCount")
		glyphs = w.words(pos+4, n, "coverage glyph array")
		for i := 1; i < n; i++ {
			if glyphs[i] <= glyphs[i-1] {
				bad = true
			}
		}
		size = 4 + 2*n
	case 2:
		n := w.u16(pos+2, "coverage rangeCount")
		rec := w.words(pos+4, 3*n, "coverage range records")
		idx := 0
		prev := -1
		for i := 0; i < n; i++ {
			s, e, ci := rec[3*i], rec[3*i+1], rec[3*i+2]
			if s <= prev || e < s || ci != idx {
				bad = true
			}
			if e < s || e-s > 65535 {
				w.fail(start, "coverage range %d..%d", s, e)
			}
			for g := s; g <= e; g++ {
				glyphs = append(glyphs, g)
			}
			idx += e - s + 1
			prev = e
		}
		size = 4 + 6*n
	default:
		w.fail(pos, "coverage format %d", format)
	}
	if bad {
		w.res.CovBad++
	}
	if len(w.res.Covs) < 400 {
		w.res.Covs = append(w.res.Covs, [4]int{format, len(glyphs), runs(glyphs), size})
	}
	return glyphs
}

// classdef parses a ClassDef table; it returns the number of classes (max class + 1).
func (w *walker) classdef(pos int) int {
	format := w.u16(pos, "classdef format")
	cls := map[int]int{}
	size := 0
	switch format {
	case 1:
		s := w.u16(pos+2, "classdef startGlyphID")
		n := w.u16(pos+4, "classdef glyphCount")
		v := w.words(pos+6, n, "classdef classValueArray")
		if n > 0 && s+n-1 > 0xFFFF {
			w.fail(pos, "classdef format 1 runs past glyph 0xFFFF")
		}
		for i, c := range v {
			if c != 0 {
				cls[s+i] = c
			}
		}
		size = 6 + 2*n
	case 2:
		n := w.u16(pos+2, "classdef classRangeCount")
		rec := w.words(pos+4, 3*n, "classdef range records")
		prev := -1
		for i := 0; i < n; i++ {
			s, e, c := rec[3*i], rec[3*i+1], rec[3*i+2]
			if s <= prev || e < s {
				w.fail(pos, "classdef ranges not ascending (%d..%d after %d)", s, e, prev)
			}
			if c != 0 {
				for g := s; g <= e; g++ {
					cls[g] = c
				}
			}
			prev = e
		}
		size = 4 + 6*n
	default:
		w.fail(pos, "classdef format %d", format)
	}
	span, segs, maxc := 0, 0, 0
	if len(cls) > 0 {
		mn, mx := 1<<20, -1
		for g, c := range cls {
			if g < mn {
				mn = g
			}
			if g > mx {
				mx = g
			}
			if c > maxc {
				maxc = c
			}
		}
		span = mx - mn + 1
		pc := 0
		for g := mn; g <= mx; g++ {
			c := cls[g]
			if c != 0 && c != pc {
				segs++
			}
			pc = c
		}
	}
	if len(w.res.CDefs) < 400 {
		w.res.CDefs = append(w.res.CDefs, [4]int{format, span, segs, size})
	}
	return maxc + 1
}

func (w *walker) anchor(pos int) {
	format := w.u16(pos, "anchor format")
	switch format {
	case 1:
		w.mark(pos+2, 4, "anchor")
	case 2:
		w.mark(pos+2, 6, "anchor")
	default:
		w.fail(pos, "anchor format %d", format)
	}
}

func vrLen(format int) int { return 2 * bits.OnesCount16(uint16(format)) }

func (w *walker) countCheck(declared, covered int) {
	if declared != covered {
		w.res.CntBad++
	}
}

// seqRuleSets parses the rule sets of (chained) sequence context formats 1 and 2.
func (w *walker) seqRuleSets(pos, at, n int, chained bool) {
	for i := 0; i < n; i++ {
		if w.peek16(at+2*i, "rule set offset") == 0 {
			w.mark(at+2*i, 2, "null rule set offset")
			continue
		}
		set := w.off16(at+2*i, pos, "rule set offset")
		rc := w.u16(set, "rule count")
		for j := 0; j < rc; j++ {
			r := w.off16(set+2+2*j, set, "rule offset")
			if !chained {
				gc := w.u16(r, "glyphCount")
				sc := w.u16(r+2, "seqLookupCount")
				if gc == 0 {
					w.fail(r, "glyphCount 0")
				}
				w.mark(r+4, 2*(gc-1), "input sequence")
				w.mark(r+4+2*(gc-1), 4*sc, "seqLookupRecords")
				continue
			}
			p := r
			bc := w.u16(p, "backtrackGlyphCount")
			w.mark(p+2, 2*bc, "backtrack sequence")
			p += 2 + 2*bc
			ic := w.u16(p, "inputGlyphCount")
			if ic == 0 {
				w.fail(p, "inputGlyphCount 0")
			}
			w.mark(p+2, 2*(ic-1), "input sequence")
			p += 2 + 2*(ic-1)
			lc := w.u16(p, "lookaheadGlyphCount")
			w.mark(p+2, 2*lc, "lookahead sequence")
			p += 2 + 2*lc
			sc := w.u16(p, "seqLookupCount")
			w.mark(p+2, 4*sc, "seqLookupRecords")
		}
	}
}

// context parses sequence context (chained = false) and chained sequence context subtables.
func (w *walker) context(pos, format int, chained bool) {
	switch {
	case format == 1:
		cov := w.coverage(w.off16(pos+2, pos, "coverageOffset"))
		n := w.u16(pos+4, "ruleSetCount")
		w.countCheck(n, len(cov))
		w.seqRuleSets(pos, pos+6, n, chained)
	case format == 2 && !chained:
		w.coverage(w.off16(pos+2, pos, "coverageOffset"))
		w.classdef(w.off16(pos+4, pos, "classDefOffset"))
		n := w.u16(pos+6, "classSeqRuleSetCount")
		w.seqRuleSets(pos, pos+8, n, false)
	case format == 2 && chained:
		w.coverage(w.off16(pos+2, pos, "coverageOffset"))
		w.classdef(w.off16(pos+4, pos, "backtrackClassDefOffset"))
		w.classdef(w.off16(pos+6, pos, "inputClassDefOffset"))
		w.classdef(w.off16(pos+8, pos, "lookaheadClassDefOffset"))
		n := w.u16(pos+10, "chainedClassSeqRuleSetCount")
		w.seqRuleSets(pos, pos+12, n, true)
	case format == 3 && !chained:
		gc := w.u16(pos+2, "glyphCount")
		sc := w.u16(pos+4, "seqLookupCount")
		for i := 0; i < gc; i++ {
			w.coverage(w.off16(pos+6+2*i, pos, "coverageOffset"))
		}
		w.mark(pos+6+2*gc, 4*sc, "seqLookupRecords")
	case format == 3 && chained:
		p := pos + 2
		for k := 0; k < 3; k++ {
			c := w.u16(p, "coverage count")
			for i := 0; i < c; i++ {
				w.coverage(w.off16(p+2+2*i, pos, "coverageOffset"))
			}
			p += 2 + 2*c
		}
		sc := w.u16(p, "seqLookupCount")
		w.mark(p+2, 4*sc, "seqLookupRecords")
	default:
		w.fail(pos, "context format %d", format)
	}
}

func (w *walker) gsub(tp, pos int) int {
	format := w.u16(pos, "subtable format")
	switch {
	case tp == 1 && format == 1:
		w.coverage(w.off16(pos+2, pos, "coverageOffset"))
		w.mark(pos+4, 2, "deltaGlyphID")
	case tp == 1 && format == 2:
		cov := w.coverage(w.off16(pos+2, pos, "coverageOffset"))
		n := w.u16(pos+4, "glyphCount")
		w.mark(pos+6, 2*n, "substituteGlyphIDs")
		w.countCheck(n, len(cov))
	case (tp == 2 || tp == 3) && format == 1:
		cov := w.coverage(w.off16(pos+2, pos, "coverageOffset"))
		n := w.u16(pos+4, "sequenceCount")
		w.countCheck(n, len(cov))
		for i := 0; i < n; i++ {
			s := w.off16(pos+6+2*i, pos, "sequenceOffset")
			c := w.u16(s, "glyphCount")
			w.mark(s+2, 2*c, "glyph array")
		}
	case tp == 4 && format == 1:
		cov := w.coverage(w.off16(pos+2, pos, "coverageOffset"))
		n := w.u16(pos+4, "ligatureSetCount")
		w.countCheck(n, len(cov))
		for i := 0; i < n; i++ {
			set := w.off16(pos+6+2*i, pos, "ligatureSetOffset")
			lc := w.u16(set, "ligatureCount")
			for j := 0; j < lc; j++ {
				l := w.off16(set+2+2*j, set, "ligatureOffset")
				w.mark(l, 2, "ligatureGlyph")
				cc := w.u16(l+2, "componentCount")
				if cc == 0 {
					w.fail(l, "componentCount 0")
				}
				w.mark(l+4, 2*(cc-1), "componentGlyphIDs")
			}
		}
	case tp == 5:
		w.context(pos, format, false)
	case tp == 6:
		w.context(pos, format, true)
	case tp == 8 && format == 1:
		cov := w.coverage(w.off16(pos+2, pos, "coverageOffset"))
		p := pos + 4
		for k := 0; k < 2; k++ {
			c := w.u16(p, "coverage count")
			for i := 0; i < c; i++ {
				w.coverage(w.off16(p+2+2*i, pos, "coverageOffset"))
			}
			p += 2 + 2*c
		}
		n := w.u16(p, "glyphCount")
		w.mark(p+2, 2*n, "substituteGlyphIDs")
		w.countCheck(n, len(cov))
	default:
		w.fail(pos, "GSUB subtable type %d format %d", tp, format)
	}
	return format
}

func (w *walker) markArray(pos int) int {
	n := w.u16(pos, "markCount")
	for i := 0; i < n; i++ {
		w.mark(pos+2+4*i, 2, "markClass")
		w.anchor(w.off16(pos+4+4*i, pos, "markAnchorOffset"))
	}
	return n
}

func (w *walker) gpos(tp, pos int) int {
	format := w.u16(pos, "subtable format")
	switch {
	case tp == 1 && format == 1:
		w.coverage(w.off16(pos+2, pos, "coverageOffset"))
		vf := w.u16(pos+4, "valueFormat")
		w.mark(pos+6, vrLen(vf), "valueRecord")
	case tp == 1 && format == 2:
		cov := w.coverage(w.off16(pos+2, pos, "coverageOffset"))
		vf := w.u16(pos+4, "valueFormat")
		n := w.u16(pos+6, "valueCount")
		w.mark(pos+8, n*vrLen(vf), "valueRecords")
		w.countCheck(n, len(cov))
	case tp == 2 && format == 1:
		cov := w.coverage(w.off16(pos+2, pos, "coverageOffset"))
		vf1 := w.u16(pos+4, "valueFormat1")
		vf2 := w.u16(pos+6, "valueFormat2")
		n := w.u16(pos+8, "pairSetCount")
		w.countCheck(n, len(cov))
		for i := 0; i < n; i++ {
			ps := w.off16(pos+10+2*i, pos, "pairSetOffset")
			c := w.u16(ps, "pairValueCount")
			w.mark(ps+2, c*(2+vrLen(vf1)+vrLen(vf2)), "pairValueRecords")
		}
	case tp == 2 && format == 2:
		w.coverage(w.off16(pos+2, pos, "coverageOffset"))
		vf1 := w.u16(pos+4, "valueFormat1")
		vf2 := w.u16(pos+6, "valueFormat2")
		w.classdef(w.off16(pos+8, pos, "classDef1Offset"))
		w.classdef(w.off16(pos+10, pos, "classDef2Offset"))
		c1 := w.u16(pos+12, "class1Count")
		c2 := w.u16(pos+14, "class2Count")
		w.mark(pos+16, c1*c2*(vrLen(vf1)+vrLen(vf2)), "class records")
	case tp == 3 && format == 1:
		cov := w.coverage(w.off16(pos+2, pos, "coverageOffset"))
		n := w.u16(pos+4, "entryExitCount")
		w.countCheck(n, len(cov))
		for i := 0; i < 2*n; i++ {
			if w.peek16(pos+6+2*i, "anchor offset") == 0 {
				w.mark(pos+6+2*i, 2, "null anchor offset")
				continue
			}
			w.anchor(w.off16(pos+6+2*i, pos, "entry/exit anchor offset"))
		}
	case (tp == 4 || tp == 6) && format == 1:
		mcov := w.coverage(w.off16(pos+2, pos, "markCoverageOffset"))
		bcov := w.coverage(w.off16(pos+4, pos, "baseCoverageOffset"))
		cc := w.u16(pos+6, "markClassCount")
		w.countCheck(w.markArray(w.off16(pos+8, pos, "markArrayOffset")), len(mcov))
		ba := w.off16(pos+10, pos, "baseArrayOffset")
		bc := w.u16(ba, "baseCount")
		w.countCheck(bc, len(bcov))
		for i := 0; i < bc*cc; i++ {
			if w.peek16(ba+2+2*i, "anchor offset") == 0 {
				w.mark(ba+2+2*i, 2, "null anchor offset")
				continue
			}
			w.anchor(w.off16(ba+2+2*i, ba, "base anchor offset"))
		}
	case tp == 7:
		w.context(pos, format, false)
	case tp == 8:
		w.context(pos, format, true)
	default:
		w.fail(pos, "GPOS subtable type %d format %d", tp, format)
	}
	return format
}

func (w *walker) scriptList(pos int) {
	n := w.u16(pos, "scriptCount")
	for i := 0; i < n; i++ {
		rec := pos + 2 + 6*i
		w.mark(rec, 4, "scriptTag")
		stag := string(w.d[rec : rec+4])
		st := w.off16(rec+4, pos, "scriptOffset")
		type ls struct {
			tag string
			at  int
		}
		var lss []ls
		if w.peek16(st, "defaultLangSysOffset") == 0 {
			w.mark(st, 2, "null defaultLangSysOffset")
		} else {
			lss = append(lss, ls{"", w.off16(st, st, "defaultLangSysOffset")})
		}
		lc := w.u16(st+2, "langSysCount")
		for j := 0; j < lc; j++ {
			r := st + 4 + 6*j
			w.mark(r, 4, "langSysTag")
			lss = append(lss, ls{string(w.d[r : r+4]), w.off16(r+4, st, "langSysOffset")})
		}
		for _, l := range lss {
			w.mark(l.at, 2, "lookupOrderOffset")
			req := w.u16(l.at+2, "requiredFeatureIndex")
			fc := w.u16(l.at+4, "featureIndexCount")
			w.mark(l.at+6, 2*fc, "featureIndices")
			if len(w.res.Scripts) < 2000 {
				w.res.Scripts = append(w.res.Scripts, fmt.Sprintf("%s/%s:%d:%d", stag, l.tag, req, fc))
			}
		}
	}
}

func (w *walker) featureList(pos int) {
	n := w.u16(pos, "featureCount")
	for i := 0; i < n; i++ {
		rec := pos + 2 + 6*i
		w.mark(rec, 4, "featureTag")
		ft := w.off16(rec+4, pos, "featureOffset")
		w.mark(ft, 2, "featureParamsOffset")
		lc := w.u16(ft+2, "lookupIndexCount")
		w.mark(ft+4, 2*lc, "lookupListIndices")
		if len(w.res.Features) < 2000 {
			w.res.Features = append(w.res.Features, fmt.Sprintf("%s:%d", string(w.d[rec:rec+4]), lc))
		}
	}
}

func (w *walker) lookupList(pos int, gpos bool) {
	extType := 7
	if gpos {
		extType = 9
	}
	n := w.u16(pos, "lookupCount")
	w.res.N = n
	for i := 0; i < n; i++ {
		var lk Lookup
		lk.Off = w.peek16(pos+2+2*i, "lookupOffset")
		lk.Pos = w.off16(pos+2+2*i, pos, "lookupOffset")
		lk.Type = w.u16(lk.Pos, "lookupType")
		lk.Flags = w.u16(lk.Pos+2, "lookupFlag")
		lk.NSub = w.u16(lk.Pos+4, "subTableCount")
		lk.End = lk.Pos + 6 + 2*lk.NSub
		lk.Mfs = lk.Flags&0x10 != 0
		if lk.Mfs {
			lk.MfsVal = w.u16(lk.End, "markFilteringSet")
			lk.End += 2
		}
		for j := 0; j < lk.NSub; j++ {
			var s Sub
			s.Off = w.peek16(lk.Pos+6+2*j, "subtableOffset")
			s.Pos = w.off16(lk.Pos+6+2*j, lk.Pos, "subtableOffset")
			s.TPos = s.Pos
			tp := lk.Type
			if lk.Type == extType {
				s.Ext = true
				if f := w.u16(s.Pos, "extension format"); f != 1 {
					w.fail(s.Pos, "extension format %d", f)
				}
				s.EType = w.u16(s.Pos+2, "extensionLookupType")
				hi := w.u16(s.Pos+4, "extensionOffset (high)")
				lo := w.u16(s.Pos+6, "extensionOffset (low)")
				w.res.NOffs++
				s.EOff = [2]int{hi, lo}
				if hi >= 0x4000 || s.Pos+hi<<16+lo >= len(w.d) {
					w.fail(s.Pos, "extensionOffset 0x%04x%04x points beyond the end (%d)", hi, lo, len(w.d))
				}
				s.TPos = s.Pos + hi<<16 + lo
				tp = s.EType
				if tp == extType {
					w.fail(s.Pos, "extension record refers to an extension record")
				}
			}
			w.resetExtent()
			if gpos {
				s.Fmt = w.gpos(tp, s.TPos)
			} else {
				s.Fmt = w.gsub(tp, s.TPos)
			}
			if w.lo != s.TPos {
				w.fail(s.TPos, "subtable data starts at %d, before the subtable", w.lo)
			}
			s.TEnd = w.hi
			lk.Subs = append(lk.Subs, s)
		}
		w.res.Lookups = append(w.res.Lookups, lk)
	}
}

func newWalker(data []byte) *walker {
	res := &Result{Len: len(data), Lookups: []Lookup{}, Covs: [][4]int{}, CDefs: [][4]int{},
		Scripts: []string{}, Features: []string{}}
	w := &walker{d: data, cnt: make([]uint8, len(data)), res: res}
	w.resetExtent()
	return w
}

func (w *walker) finish() {
	for _, c := range w.cnt {
		if c == 0 {
			w.res.Gaps++
		} else if c > 1 {
			w.res.Overlaps++
		}
	}
}

func (w *walker) run(f func()) {
	defer func() {
		if x := recover(); x != nil {
			if e, ok := x.(walkErr); ok {
				w.res.OK = false
				w.res.Err = e.msg
				for i := range w.res.Lookups {
					if w.res.Lookups[i].Subs == nil {
						w.res.Lookups[i].Subs = []Sub{}
					}
				}
				return
			}
			panic(x)
		}
	}()
	f()
	w.finish()
	w.res.OK = true
	for i := range w.res.Lookups {
		if w.res.Lookups[i].Subs == nil {
			w.res.Lookups[i].Subs = []Sub{}
		}
	}
}

// Gtab walks a complete GSUB (gpos = false) or GPOS table.
func Gtab(data []byte, gpos bool) *Result {
	w := newWalker(data)
	w.run(func() {
		maj := w.u16(0, "majorVersion")
		min := w.u16(2, "minorVersion")
		if maj != 1 || min > 1 {
			w.fail(0, "version %d.%d", maj, min)
		}
		hl := 10
		if min == 1 {
			w.mark(10, 4, "featureVariationsOffset")
			hl = 14
		}
		for k := 0; k < 3; k++ {
			w.res.Hdr[k] = w.u16(4+2*k, "header offset")
			if o := w.res.Hdr[k]; o != 0 && (o < hl || o >= len(data)) {
				w.fail(4+2*k, "header offset %d outside the table (%d)", o, len(data))
			}
		}
		if o := w.res.Hdr[0]; o != 0 {
			w.resetExtent()
			w.scriptList(o)
			w.res.SL = [2]int{w.lo, w.hi}
		}
		if o := w.res.Hdr[1]; o != 0 {
			w.resetExtent()
			w.featureList(o)
			w.res.FL = [2]int{w.lo, w.hi}
		}
		if o := w.res.Hdr[2]; o != 0 {
			w.lookupList(o, gpos)
			end := o + 2 + 2*w.res.N
			for _, l := range w.res.Lookups {
				if l.End > end {
					end = l.End
				}
				for _, s := range l.Subs {
					if s.TEnd > end {
						end = s.TEnd
					}
					if s.Ext && s.Pos+8 > end {
						end = s.Pos + 8
					}
				}
			}
			w.res.LL = [2]int{o, end}
		}
	})
	return w.res
}

// GDEF walks a GDEF table (glyph classes, mark attachment classes, mark glyph sets).
func GDEF(data []byte) *Result {
	w := newWalker(data)
	w.run(func() {
		maj := w.u16(0, "majorVersion")
		min := w.u16(2, "minorVersion")
		if maj != 1 || (min != 0 && min != 2 && min != 3) {
			w.fail(0, "version %d.%d", maj, min)
		}
		if o := w.u16(4, "glyphClassDefOffset"); o != 0 {
			w.res.NOffs++
			w.res.Hdr[0] = o
			w.classdef(o)
		}
		if w.u16(6, "attachListOffset") != 0 || w.u16(8, "ligCaretListOffset") != 0 {
			w.fail(6, "attachment point / ligature caret lists are not walked")
		}
		if o := w.u16(10, "markAttachClassDefOffset"); o != 0 {
			w.res.NOffs++
			w.res.Hdr[1] = o
			w.classdef(o)
		}
		if min >= 2 {
			if o := w.u16(12, "markGlyphSetsDefOffset"); o != 0 {
				w.res.NOffs++
				w.res.Hdr[2] = o
				if f := w.u16(o, "markGlyphSets format"); f != 1 {
					w.fail(o, "markGlyphSets format %d", f)
				}
				n := w.u16(o+2, "markGlyphSetCount")
				w.res.N = n
				for i := 0; i < n; i++ {
					hi := w.u16(o+4+4*i, "coverageOffset (high)")
					lo := w.u16(o+6+4*i, "coverageOffset (low)")
					w.res.NOffs++
					if hi >= 0x4000 || o+hi<<16+lo >= len(data) {
						w.fail(o+4+4*i, "mark glyph set coverage offset beyond the end")
					}
					w.coverage(o + hi<<16 + lo)
				}
			}
		}
		if min >= 3 {
			if w.u16(14, "itemVarStoreOffset") != 0 || w.u16(16, "itemVarStoreOffset") != 0 {
				w.fail(14, "item variation store is not walked")
			}
		}
	})
	return w.res
}

// Coverage walks a stand-alone coverage table and returns its glyphs.
func Coverage(data []byte) (*Result, []int) {
	w := newWalker(data)
	var g []int
	w.run(func() { g = w.coverage(0) })
	return w.res, g
}

// ClassDef walks a stand-alone class definition table.
func ClassDef(data []byte) *Result {
	w := newWalker(data)
	w.run(func() { w.classdef(0) })
	return w.res
}
