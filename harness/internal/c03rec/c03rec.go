// Package c03rec records what C03 observes about bytes produced by the real writers: the directory as
// the independent walker reads it, the result of header.Read + ReadTableBytes, and for whole fonts what
// the written font value says next to what golang.org/x/image/font/sfnt reads from the file.  It
// decides nothing: the events are judged by spec/ContainerTrace.tla.  (Shared by harness/cmd/c03 and
// the "c03fonts" mode of harness/cmd/c01, which realises the font configurations of C01's cover.)
package c03rec

import (
	"bytes"
	"fmt"
	"math"
	"sort"

	"golang.org/x/image/font"
	xsfnt "golang.org/x/image/font/sfnt"
	"golang.org/x/image/math/fixed"

	"seehuhn.de/go/sfnt"
	"seehuhn.de/go/sfnt/cff"
	"seehuhn.de/go/sfnt/cmap"
	"seehuhn.de/go/sfnt/glyf"
	"seehuhn.de/go/sfnt/glyph"
	"seehuhn.de/go/sfnt/header"

	"verif.local/harness/internal/fonts"
	"verif.local/harness/internal/sfntwalk"
	"verif.local/harness/internal/vio"
)

// Ev is one trace event.
type Ev = map[string]any

type ev = Ev

func Ints(b []byte) []int {
	res := make([]int, len(b))
	for i, x := range b {
		res[i] = int(x)
	}
	return res
}

// writtenEvent describes the produced bytes through the independent walker.
func WrittenEvent(id int, file []byte, n int64, err error, pmsg string) ev {
	e := ev{"ev": "written", "id": id, "ok": err == nil && pmsg == "", "panic": pmsg != "", "msg": pmsg, "n": int(n)}
	if err != nil {
		e["msg"] = err.Error()
	}
	d := sfntwalk.Walk(file)
	e["file"] = Ints(file)
	e["walkok"] = d.OK
	e["nt"], e["sr"], e["es"], e["rs"] = d.NumTables, d.SearchRange, d.EntrySelector, d.RangeShift
	recs := []ev{}
	for _, r := range d.Recs {
		recs = append(recs, ev{"tag": Ints(r.Tag[:]), "sum": sfntwalk.Halves(r.Sum), "off": sfntwalk.Halves(r.Off),
			"len": sfntwalk.Halves(r.Len), "inside": r.Inside, "calc": sfntwalk.Halves(r.Calc)})
	}
	e["recs"] = recs
	e["fsum"] = sfntwalk.Halves(d.FileSum)
	return e
}

// readbackEvent reads the container with the library under test.
func ReadbackEvent(id int, file []byte) ev {
	e := ev{"ev": "readback", "id": id, "ok": false, "panic": false, "msg": "", "scaler": [2]int{0, 0}, "tabs": []ev{}}
	func() {
		defer func() {
			if x := recover(); x != nil {
				e["panic"], e["msg"] = true, fmt.Sprint(x)
			}
		}()
		r := bytes.NewReader(file)
		info, err := header.Read(r)
		if err != nil {
			e["msg"] = err.Error()
			return
		}
		names := make([]string, 0, len(info.Toc))
		for name := range info.Toc {
			names = append(names, name)
		}
		sort.Strings(names)
		tabs := []ev{}
		for _, name := range names {
			data, err := info.ReadTableBytes(r, name)
			if err != nil {
				e["msg"] = name + ": " + err.Error()
				return
			}
			tabs = append(tabs, ev{"tag": Ints([]byte(name)), "data": Ints(data)})
		}
		e["ok"], e["scaler"], e["tabs"] = true, sfntwalk.Halves(info.ScalerType), tabs
	}()
	return e
}

var probes = []rune{0, 0x20, 0x41, 0x42, 0x61, 0x7E, 0xFF, 0x300, 0x301, 0xFB01, 0xFB02, 0x4E00, 0x4E01, 0x4E1F, 0xFFFD, 0xFFFF,
	0x10000, 0x1F600, 0x1F607, 0x10FFFF}

func probeRunes(f *sfnt.Font) []rune {
	n := f.NumGlyphs()
	seen := map[rune]bool{}
	var res []rune
	add := func(r rune) {
		if r >= 0 && r <= 0x10FFFF && !seen[r] {
			seen[r] = true
			res = append(res, r)
		}
	}
	for _, r := range probes {
		add(r)
	}
	for i := 0; i < n && i < 400; i++ {
		add(fonts.CodeOf(i, false))
		add(fonts.CodeOf(i, true))
		add(fonts.CodeOf(i, true) + 1)
	}
	for r := rune(0x21); r < 0x7F; r++ {
		add(r)
	}
	// the codes the font's own subtables map (a stride of them for big maps), and their neighbours
	var codes []rune
	for key := range f.CMapTable {
		st, err := f.CMapTable.Get(key)
		if err != nil || key.PlatformID == 1 {
			continue
		}
		switch m := st.(type) {
		case cmap.Format4:
			for c := range m {
				codes = append(codes, rune(c))
			}
		case cmap.Format12:
			for c := range m {
				codes = append(codes, rune(c))
			}
		}
	}
	sort.Slice(codes, func(i, j int) bool { return codes[i] < codes[j] })
	stride := len(codes)/1500 + 1
	for i := 0; i < len(codes); i += stride {
		add(codes[i])
		add(codes[i] + 1)
	}
	return res
}

func emptyObs(id int, src string) ev {
	return ev{"ev": "obs", "id": id, "src": src, "ok": false, "msg": "", "ng": 0, "upem": 0, "runes": []int{},
		"gids": []int{}, "advlo": []int{}, "advhi": []int{}, "names": []string{},
		"oskip": []bool{}, "oseq": [][]int{}, "ooff": [][]int{}, "oon": [][][2]int{}}
}

// ---- outlines ------------------------------------------------------------------------------
//
// CFF glyphs are compared as the sequence of path operators (1 moveto, 2 lineto, 3 curveto, each
// followed by its absolute integer coordinates) after removing a lineto that closes a subpath
// (x/image closes subpaths explicitly, the font value need not).  TrueType glyphs are compared as
// point sets in font units: the off-curve (control) points must be the same multiset, and every
// on-curve point of the font value must be an end point of a segment x/image produces (x/image
// adds the implied on-curve points).  Composite glyphs and non-integer CFF coordinates are skipped.

type outline struct {
	skip bool
	seq  []int    // CFF
	off  []int    // TrueType: sorted off-curve points, flattened
	on   [][2]int // TrueType: on-curve points
}

func sortPoints(p [][2]int) {
	sort.Slice(p, func(i, j int) bool {
		if p[i][0] != p[j][0] {
			return p[i][0] < p[j][0]
		}
		return p[i][1] < p[j][1]
	})
}

func flatten(p [][2]int) []int {
	res := []int{}
	for _, q := range p {
		res = append(res, q[0], q[1])
	}
	return res
}

// dropClosing removes linetos that return to the start of their subpath at its end.
func dropClosing(ops [][]int) []int {
	res := []int{}
	var out [][]int
	start := -1 // index in out of the current moveto
	closeSub := func() {
		if start >= 0 && len(out) > start+1 {
			last := out[len(out)-1]
			if last[0] == 2 && last[1] == out[start][1] && last[2] == out[start][2] {
				out = out[:len(out)-1]
			}
		}
	}
	for _, op := range ops {
		if op[0] == 1 {
			closeSub()
			start = len(out)
		}
		out = append(out, op)
	}
	closeSub()
	for _, op := range out {
		res = append(res, op...)
	}
	return res
}

func libOutlines(f *sfnt.Font) []outline {
	ng := f.NumGlyphs()
	res := make([]outline, ng)
	switch o := f.Outlines.(type) {
	case *cff.Outlines:
		for i, g := range o.Glyphs {
			var ops [][]int
			for _, c := range g.Cmds {
				var code int
				switch c.Op {
				case cff.OpMoveTo:
					code = 1
				case cff.OpLineTo:
					code = 2
				case cff.OpCurveTo:
					code = 3
				default:
					continue
				}
				op := []int{code}
				for _, a := range c.Args {
					if a != math.Trunc(a) || math.Abs(a) > 30000 {
						res[i].skip = true
					}
					op = append(op, int(a))
				}
				ops = append(ops, op)
			}
			res[i].seq = dropClosing(ops)
		}
	case *glyf.Outlines:
		for i, g := range o.Glyphs {
			if g == nil {
				continue
			}
			sg, ok := g.Data.(glyf.SimpleGlyph)
			if !ok {
				res[i].skip = true
				continue
			}
			if sg.NumContours <= 0 {
				continue
			}
			func() {
				defer func() {
					if recover() != nil {
						res[i].skip = true
					}
				}()
				info, err := sg.Decode()
				if err != nil {
					res[i].skip = true
					return
				}
				var off [][2]int
				for _, c := range info.Contours {
					for _, p := range c {
						q := [2]int{int(p.X), int(p.Y)}
						if p.OnCurve {
							res[i].on = append(res[i].on, q)
						} else {
							off = append(off, q)
						}
					}
				}
				sortPoints(off)
				res[i].off = flatten(off)
			}()
		}
	}
	return res
}

func putOutlines(e ev, ol []outline) {
	skip, seq, off, on := []bool{}, [][]int{}, [][]int{}, [][][2]int{}
	for _, o := range ol {
		skip = append(skip, o.skip)
		if o.seq == nil {
			o.seq = []int{}
		}
		if o.off == nil {
			o.off = []int{}
		}
		if o.on == nil {
			o.on = [][2]int{}
		}
		seq, off, on = append(seq, o.seq), append(off, o.off), append(on, o.on)
	}
	e["oskip"], e["oseq"], e["ooff"], e["oon"] = skip, seq, off, on
}

// xOutline loads glyph i with x/image at ppem = unitsPerEm/64 pixels: the raw 26.6 results are then
// font units (exact: every intermediate product stays below 2^31 for coordinates up to 32767 and
// unitsPerEm up to 16384).
func xOutline(xf *xsfnt.Font, b *xsfnt.Buffer, i, upem int, isCFF bool) (outline, error) {
	var o outline
	segs, err := xf.LoadGlyph(b, xsfnt.GlyphIndex(i), fixed.Int26_6(upem), nil)
	if err != nil {
		return o, err
	}
	var ops [][]int
	var off [][2]int
	for _, s := range segs {
		n := map[xsfnt.SegmentOp]int{xsfnt.SegmentOpMoveTo: 1, xsfnt.SegmentOpLineTo: 1, xsfnt.SegmentOpQuadTo: 2, xsfnt.SegmentOpCubeTo: 3}[s.Op]
		if isCFF {
			code := map[xsfnt.SegmentOp]int{xsfnt.SegmentOpMoveTo: 1, xsfnt.SegmentOpLineTo: 2, xsfnt.SegmentOpQuadTo: 4, xsfnt.SegmentOpCubeTo: 3}[s.Op]
			op := []int{code}
			for k := 0; k < n; k++ {
				op = append(op, int(s.Args[k].X), -int(s.Args[k].Y))
			}
			ops = append(ops, op)
			continue
		}
		for k := 0; k < n; k++ {
			q := [2]int{int(s.Args[k].X), -int(s.Args[k].Y)}
			if s.Op == xsfnt.SegmentOpQuadTo && k == 0 {
				off = append(off, q)
			} else if s.Op == xsfnt.SegmentOpCubeTo {
				return o, fmt.Errorf("glyph %d: cubic segment in a TrueType glyph", i)
			} else {
				o.on = append(o.on, q)
			}
		}
	}
	if isCFF {
		o.seq = dropClosing(ops)
	} else {
		sortPoints(off)
		o.off = flatten(off)
	}
	return o, nil
}

// lookup is the character mapping a subtable value stands for.  Format4.Lookup truncates its
// argument to 16 bits (Lookup(0x10000) answers for U+0000; that is a matter of C09), so the
// map types are consulted directly.
func lookup(best cmap.Subtable, r rune) int {
	switch m := best.(type) {
	case nil:
		return 0
	case cmap.Format4:
		if r < 0 || r > 0xFFFF {
			return 0
		}
		return int(m[uint16(r)])
	case cmap.Format12:
		return int(m[uint32(r)])
	default:
		return int(best.Lookup(r))
	}
}

// libObs: what the font value that was written says (the abstract font).
func libObs(id int, f *sfnt.Font, runes []rune) ev {
	e := emptyObs(id, "lib")
	ng := f.NumGlyphs()
	e["ng"], e["upem"] = ng, int(f.UnitsPerEm)
	var rr, gids []int
	best, _ := f.CMapTable.GetBest()
	for _, r := range runes {
		rr = append(rr, int(r))
		gids = append(gids, lookup(best, r))
	}
	lo, hi, names := []int{}, []int{}, []string{}
	widths := f.Widths()
	for i := 0; i < ng; i++ {
		w := widths[i] // Font.Widths: missing entries of a TrueType Widths slice count as 0
		lo = append(lo, int(math.Floor(w)))
		hi = append(hi, int(math.Ceil(w)))
		names = append(names, f.GlyphName(glyph.ID(i)))
	}
	e["runes"], e["gids"], e["advlo"], e["advhi"], e["names"], e["ok"] = rr, gids, lo, hi, names, true
	putOutlines(e, libOutlines(f))
	return e
}

// xObs: what golang.org/x/image/font/sfnt reads from the file.
func xObs(id int, file []byte, runes []rune, isCFF bool, skip []bool) ev {
	e := emptyObs(id, "ximage")
	func() {
		defer func() {
			if x := recover(); x != nil {
				e["msg"] = "panic in x/image: " + fmt.Sprint(x)
			}
		}()
		xf, err := xsfnt.Parse(file)
		if err != nil {
			e["msg"] = err.Error()
			return
		}
		var b xsfnt.Buffer
		ng := xf.NumGlyphs()
		upem := int(xf.UnitsPerEm())
		e["ng"], e["upem"] = ng, upem
		var rr, gids []int
		for _, r := range runes {
			g, err := xf.GlyphIndex(&b, r)
			if err != nil {
				e["msg"] = "GlyphIndex: " + err.Error()
				return
			}
			rr = append(rr, int(r))
			gids = append(gids, int(g))
		}
		adv, names := []int{}, []string{}
		for i := 0; i < ng; i++ {
			a, err := xf.GlyphAdvance(&b, xsfnt.GlyphIndex(i), fixed.Int26_6(upem), font.HintingNone)
			if err != nil {
				e["msg"] = "GlyphAdvance: " + err.Error()
				return
			}
			adv = append(adv, int(a))
			nm, err := xf.GlyphName(&b, xsfnt.GlyphIndex(i))
			if err != nil {
				e["msg"] = "GlyphName: " + err.Error()
				return
			}
			names = append(names, nm)
		}
		ol := make([]outline, ng)
		for i := 0; i < ng; i++ {
			if i < len(skip) && skip[i] {
				ol[i].skip = true
				continue
			}
			ol[i], err = xOutline(xf, &b, i, upem, isCFF)
			if err != nil {
				e["msg"] = "LoadGlyph: " + err.Error()
				return
			}
		}
		putOutlines(e, ol)
		e["runes"], e["gids"], e["advlo"], e["advhi"], e["names"], e["ok"] = rr, gids, adv, adv, names, true
	}()
	return e
}

// RecordFont writes f with (*sfnt.Font).Write and emits the events of one whole-font case.
func RecordFont(out *vio.Out, id int, name string, f *sfnt.Font) {
	okind := "cff"
	if f.IsGlyf() {
		okind = "ttf"
	}
	out.Emit(Ev{"ev": "case", "id": id, "kind": "font", "scaler": [2]int{0, 0}, "tabs": []int{}, "name": name,
		"law": false, "okind": okind, "hascmap": f.CMapTable != nil})
	var buf bytes.Buffer
	var n int64
	var err error
	pmsg := ""
	func() {
		defer func() {
			if x := recover(); x != nil {
				pmsg = "panic: " + fmt.Sprint(x)
			}
		}()
		n, err = f.Write(&buf)
	}()
	file := buf.Bytes()
	out.Emit(WrittenEvent(id, file, n, err, pmsg))
	out.Emit(ReadbackEvent(id, file))
	// the font value is observed after writing (Write must not have changed what it says)
	runes := probeRunes(f)
	lo := libObs(id, f, runes)
	out.Emit(lo)
	out.Emit(xObs(id, file, runes, f.IsCFF(), lo["oskip"].([]bool)))
}
