// Package vio holds the small I/O helpers shared by the conformance harnesses:
// ndjson event output, case input, seeds.
package vio

import (
	"bufio"
	"encoding/json"
	"fmt"
	"math/rand"
	"os"
	"strconv"
)

// Seed returns VERIF_SEED (default 1).
func Seed() int64 {
	s, err := strconv.ParseInt(os.Getenv("VERIF_SEED"), 10, 64)
	if err != nil {
		return 1
	}
	return s
}

// Rand returns a deterministic generator derived from VERIF_SEED and a stream id.
func Rand(stream int64) *rand.Rand {
	return rand.New(rand.NewSource(Seed()*1000003 + stream))
}

// Thorough reports whether VERIF_TIER=thorough.
func Thorough() bool { return os.Getenv("VERIF_TIER") == "thorough" }

// Out is a buffered ndjson writer.
type Out struct {
	w *bufio.Writer
	f *os.File
	N int
}

// NewOut opens path for writing ("-" = stdout).
func NewOut(path string) *Out {
	f := os.Stdout
	if path != "-" && path != "" {
		var err error
		f, err = os.Create(path)
		if err != nil {
			Fatal(err)
		}
	}
	return &Out{w: bufio.NewWriterSize(f, 1<<20), f: f}
}

// Emit writes one event.
func (o *Out) Emit(ev any) {
	b, err := json.Marshal(ev)
	if err != nil {
		Fatal(err)
	}
	o.w.Write(b)
	o.w.WriteByte('\n')
	o.N++
}

// Close flushes the stream.
func (o *Out) Close() {
	o.w.Flush()
	if o.f != os.Stdout {
		o.f.Close()
	}
}

// ReadLines reads a file of JSON lines into out (a pointer to a slice).
func ReadLines[T any](path string) []T {
	f, err := os.Open(path)
	if err != nil {
		Fatal(err)
	}
	defer f.Close()
	sc := bufio.NewScanner(f)
	sc.Buffer(make([]byte, 1<<20), 1<<28)
	var res []T
	for sc.Scan() {
		if len(sc.Bytes()) == 0 {
			continue
		}
		var v T
		if err := json.Unmarshal(sc.Bytes(), &v); err != nil {
			Fatal(fmt.Errorf("bad case line: %v", err))
		}
		res = append(res, v)
	}
	return res
}

// Fatal reports an infrastructure failure (exit status 3: never a verdict).
func Fatal(err any) {
	fmt.Fprintln(os.Stderr, "harness failure:", err)
	os.Exit(3)
}
