// Package metricsx holds the independent byte walkers of the C12 harness: sfnt table
// directory, big-endian words, TrueType simple-glyph points, boxes, run-length forms and
// 64-bit numbers as 16-bit limbs.  Nothing here calls into go-sfnt.
package metricsx

import (
	"errors"
	"math"
)

// Words returns the big-endian 16-bit words of b (a trailing odd byte is padded with 0).
func Words(b []byte) []int {
	res := make([]int, 0, (len(b)+1)/2)
	for i := 0; i+1 < len(b); i += 2 {
		res = append(res, int(b[i])<<8|int(b[i+1]))
	}
	if len(b)%2 == 1 {
		res = append(res, int(b[len(b)-1])<<8)
	}
	return res
}

// S16 reads a word as a signed number.
func S16(u int) int {
	if u >= 32768 {
		return u - 65536
	}
	return u
}

// Limbs splits a 64-bit two's-complement number into four 16-bit limbs, least significant first.
func Limbs(x int64) []int {
	u := uint64(x)
	return []int{int(u & 0xFFFF), int(u >> 16 & 0xFFFF), int(u >> 32 & 0xFFFF), int(u >> 48 & 0xFFFF)}
}

// FromLimbs is the inverse of Limbs.
func FromLimbs(l []int) int64 {
	var u uint64
	for i := 3; i >= 0; i-- {
		u = u<<16 | uint64(l[i]&0xFFFF)
	}
	return int64(u)
}

// ParseSFNT walks the table directory of an sfnt file and returns the table bodies.
func ParseSFNT(data []byte) (map[string][]byte, error) {
	if len(data) < 12 {
		return nil, errors.New("sfnt: short header")
	}
	n := int(data[4])<<8 | int(data[5])
	if len(data) < 12+16*n {
		return nil, errors.New("sfnt: short directory")
	}
	res := make(map[string][]byte, n)
	for i := 0; i < n; i++ {
		rec := data[12+16*i : 28+16*i]
		off := int(rec[8])<<24 | int(rec[9])<<16 | int(rec[10])<<8 | int(rec[11])
		l := int(rec[12])<<24 | int(rec[13])<<16 | int(rec[14])<<8 | int(rec[15])
		if off < 0 || l < 0 || off+l > len(data) {
			return nil, errors.New("sfnt: table outside the file")
		}
		res[string(rec[0:4])] = data[off : off+l]
	}
	return res, nil
}

// Pt is an outline point.
type Pt struct {
	X, Y float64
	On   bool
}

// Box is <<xMin, yMin, xMax, yMax>>.
type Box [4]int

// Boxes of a point set: On = on-curve points rounded outward, OnIn = on-curve points rounded
// inward, All = all points rounded outward.  N = number of points.
type Boxes struct {
	On, OnIn, All Box
	N             int
}

// BoxesOf computes the three boxes of a point list (all zero for an empty list).
func BoxesOf(pts []Pt) Boxes {
	var b Boxes
	b.N = len(pts)
	firstOn, firstAll := true, true
	var on, all [4]float64
	upd := func(r *[4]float64, first *bool, p Pt) {
		if *first {
			*r = [4]float64{p.X, p.Y, p.X, p.Y}
			*first = false
			return
		}
		r[0] = math.Min(r[0], p.X)
		r[1] = math.Min(r[1], p.Y)
		r[2] = math.Max(r[2], p.X)
		r[3] = math.Max(r[3], p.Y)
	}
	for _, p := range pts {
		upd(&all, &firstAll, p)
		if p.On {
			upd(&on, &firstOn, p)
		}
	}
	if !firstAll {
		b.All = Box{int(math.Floor(all[0])), int(math.Floor(all[1])), int(math.Ceil(all[2])), int(math.Ceil(all[3]))}
	}
	if !firstOn {
		b.On = Box{int(math.Floor(on[0])), int(math.Floor(on[1])), int(math.Ceil(on[2])), int(math.Ceil(on[3]))}
		b.OnIn = Box{int(math.Ceil(on[0])), int(math.Ceil(on[1])), int(math.Floor(on[2])), int(math.Floor(on[3]))}
	} else {
		// no on-curve point at all: the inner constraint is void
		b.On = Box{b.All[2], b.All[3], b.All[0], b.All[1]}
		b.OnIn = b.On
	}
	return b
}

// SimplePoints decodes the body of a TrueType simple glyph (the bytes after the 10-byte
// header: endPtsOfContours, instructions, flags, x and y coordinates) following the glyf
// chapter of the OpenType specification.
func SimplePoints(body []byte, numContours int) ([]Pt, error) {
	bad := errors.New("glyf: malformed simple glyph")
	if numContours <= 0 {
		return nil, nil
	}
	if len(body) < 2*numContours+2 {
		return nil, bad
	}
	numPoints := (int(body[2*numContours-2])<<8 | int(body[2*numContours-1])) + 1
	p := 2 * numContours
	il := int(body[p])<<8 | int(body[p+1])
	p += 2 + il
	flags := make([]byte, 0, numPoints)
	for len(flags) < numPoints {
		if p >= len(body) {
			return nil, bad
		}
		f := body[p]
		p++
		flags = append(flags, f)
		if f&0x08 != 0 {
			if p >= len(body) {
				return nil, bad
			}
			rep := int(body[p])
			p++
			for k := 0; k < rep && len(flags) < numPoints; k++ {
				flags = append(flags, f)
			}
		}
	}
	coord := func(short, same byte) ([]int, error) {
		res := make([]int, numPoints)
		v := 0
		for i, f := range flags {
			switch {
			case f&short != 0:
				if p >= len(body) {
					return nil, bad
				}
				d := int(body[p])
				p++
				if f&same == 0 {
					d = -d
				}
				v += d
			case f&same != 0:
				// same as previous
			default:
				if p+1 >= len(body) {
					return nil, bad
				}
				v += S16(int(body[p])<<8 | int(body[p+1]))
				p += 2
			}
			res[i] = v
		}
		return res, nil
	}
	xs, err := coord(0x02, 0x10)
	if err != nil {
		return nil, err
	}
	ys, err := coord(0x04, 0x20)
	if err != nil {
		return nil, err
	}
	pts := make([]Pt, numPoints)
	for i := range pts {
		pts[i] = Pt{X: float64(xs[i]), Y: float64(ys[i]), On: flags[i]&1 != 0}
	}
	return pts, nil
}

// GlyfEntry is what the glyf table of a file says about one glyph.
type GlyfEntry struct {
	Empty       bool
	NumContours int
	Box         Box
	Body        []byte
}

// WalkGlyf walks loca/glyf of a written file.
func WalkGlyf(glyf, loca []byte, locaFormat, n int) ([]GlyfEntry, error) {
	offs := make([]int, n+1)
	for i := range offs {
		if locaFormat == 0 {
			if 2*i+1 >= len(loca) {
				return nil, errors.New("loca too short")
			}
			offs[i] = 2 * (int(loca[2*i])<<8 | int(loca[2*i+1]))
		} else {
			if 4*i+3 >= len(loca) {
				return nil, errors.New("loca too short")
			}
			offs[i] = int(loca[4*i])<<24 | int(loca[4*i+1])<<16 | int(loca[4*i+2])<<8 | int(loca[4*i+3])
		}
	}
	res := make([]GlyfEntry, n)
	for i := 0; i < n; i++ {
		a, b := offs[i], offs[i+1]
		if a > b || b > len(glyf) {
			return nil, errors.New("loca offsets out of order")
		}
		if a == b {
			res[i].Empty = true
			continue
		}
		if b-a < 10 {
			return nil, errors.New("glyph shorter than its header")
		}
		w := Words(glyf[a : a+10])
		res[i] = GlyfEntry{NumContours: S16(w[0]), Box: Box{S16(w[1]), S16(w[2]), S16(w[3]), S16(w[4])}, Body: glyf[a+10 : b]}
	}
	return res, nil
}

// Run is <<value, count>>.
type Run [2]int

// RLE returns the canonical run-length form of v.
func RLE(v []int) []Run {
	res := []Run{}
	for _, x := range v {
		if len(res) > 0 && res[len(res)-1][0] == x {
			res[len(res)-1][1]++
		} else {
			res = append(res, Run{x, 1})
		}
	}
	return res
}

// Expand is the inverse of RLE.
func Expand(r []Run) []int {
	var res []int
	for _, x := range r {
		for i := 0; i < x[1]; i++ {
			res = append(res, x[0])
		}
	}
	return res
}

// Clamp keeps a logged number inside the range TLC's JSON reader can represent.
func Clamp(x float64) int {
	const lim = 2000000000
	if math.IsNaN(x) {
		return lim
	}
	if x > lim {
		return lim
	}
	if x < -lim {
		return -lim
	}
	return int(math.Round(x))
}

// CmapCodes walks a written cmap table (formats 0, 4, 6 and 12) and returns the character codes
// which the best Unicode subtable maps to a glyph other than 0.  The subtable is chosen in the
// order (3,10), (0,4), (3,1), (0,3), (0,*), (1,0).  ok is false when the table cannot be walked.
func CmapCodes(t []byte) (codes []int, ok bool) {
	u16 := func(p int) int { return int(t[p])<<8 | int(t[p+1]) }
	u32 := func(p int) int { return u16(p)<<16 | u16(p+2) }
	if len(t) < 4 {
		return nil, false
	}
	n := u16(2)
	if len(t) < 4+8*n {
		return nil, false
	}
	best, bestRank := -1, 99
	for i := 0; i < n; i++ {
		pid, eid, off := u16(4+8*i), u16(6+8*i), u32(8+8*i)
		rank := 99
		switch {
		case pid == 3 && eid == 10:
			rank = 0
		case pid == 0 && eid == 4:
			rank = 1
		case pid == 3 && eid == 1:
			rank = 2
		case pid == 0 && eid == 3:
			rank = 3
		case pid == 0:
			rank = 4
		case pid == 1 && eid == 0:
			rank = 5
		}
		if rank < bestRank && off+4 <= len(t) {
			best, bestRank = off, rank
		}
	}
	if best < 0 {
		return nil, false
	}
	codes = []int{}
	p := best
	switch u16(p) {
	case 0:
		if p+262 > len(t) {
			return nil, false
		}
		for c := 0; c < 256; c++ {
			if t[p+6+c] != 0 {
				codes = append(codes, c)
			}
		}
	case 4:
		if p+14 > len(t) {
			return nil, false
		}
		segX2 := u16(p + 6)
		endP, startP := p+14, p+16+segX2
		deltaP, rangeP := startP+segX2, startP+2*segX2
		if rangeP+segX2 > len(t) {
			return nil, false
		}
		for s := 0; s < segX2/2; s++ {
			end, start := u16(endP+2*s), u16(startP+2*s)
			delta, ro := u16(deltaP+2*s), u16(rangeP+2*s)
			for c := start; c <= end && c <= 0xFFFF; c++ {
				gid := 0
				if ro == 0 {
					gid = (c + delta) & 0xFFFF
				} else {
					q := rangeP + 2*s + ro + 2*(c-start)
					if q+2 > len(t) {
						return nil, false
					}
					gid = u16(q)
					if gid != 0 {
						gid = (gid + delta) & 0xFFFF
					}
				}
				if gid != 0 {
					codes = append(codes, c)
				}
			}
		}
	case 6:
		if p+10 > len(t) {
			return nil, false
		}
		first, cnt := u16(p+6), u16(p+8)
		if p+10+2*cnt > len(t) {
			return nil, false
		}
		for i := 0; i < cnt; i++ {
			if u16(p+10+2*i) != 0 {
				codes = append(codes, first+i)
			}
		}
	case 12:
		if p+16 > len(t) {
			return nil, false
		}
		ng := u32(p + 12)
		if ng < 0 || p+16+12*ng > len(t) {
			return nil, false
		}
		for g := 0; g < ng; g++ {
			start, end, gid := u32(p+16+12*g), u32(p+20+12*g), u32(p+24+12*g)
			if end-start > 70000 {
				return nil, false
			}
			for c := start; c <= end; c++ {
				if gid+(c-start) != 0 {
					codes = append(codes, c)
				}
			}
		}
	default:
		return nil, false
	}
	return codes, true
}
