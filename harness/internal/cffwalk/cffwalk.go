// Package cffwalk is a minimal, independent reader of the CFF container (Adobe TN5176),
// written for the C13 conformance check.  It does not interpret anything: it finds the
// sections of a CFF file by following the offsets stored in it and returns their raw
// bytes and positions.  All decoding that decides a verdict (DICT operands, charset,
// encoding and FDSelect formats, the width prefix of charstrings) is done by the TLA+
// operators of spec/CFFLayoutOps.tla on the bytes returned from here.
//
// It shares no code with seehuhn.de/go/sfnt/cff.
package cffwalk

import (
	"errors"
	"fmt"
)

// Index describes an INDEX structure found in the file.
type Index struct {
	At      int   `json:"at"`      // position of the count field
	Count   int   `json:"count"`   // number of objects
	OffSize int   `json:"offSize"` // 0 for an empty INDEX
	Offs    []int `json:"offs"`    // count+1 offsets as stored (first is 1); empty for an empty INDEX
	End     int   `json:"end"`     // position of the first byte after the INDEX
}

// Item returns the bytes of object i (0-based).
func (ix *Index) Item(data []byte, i int) []byte {
	base := ix.At + 3 + (ix.Count+1)*ix.OffSize - 1
	return data[base+ix.Offs[i] : base+ix.Offs[i+1]]
}

// Priv is a Private DICT and the local subroutine INDEX it points to.
type Priv struct {
	Size     int   `json:"size"`     // size operand of the Private operator
	Off      int   `json:"off"`      // offset operand of the Private operator
	Bytes    []int `json:"bytes"`    // the DICT data
	HasSubrs bool  `json:"hasSubrs"` // a Subrs operator is present
	SubrsRel int   `json:"subrsRel"` // its operand (relative to Off)
	Subrs    Index `json:"subrs"`    // the INDEX at Off+SubrsRel (zero value if absent)
}

// Raw is the raw structure of a CFF file containing one font.
type Raw struct {
	Len      int      `json:"len"`
	Hdr      []int    `json:"hdr"` // major, minor, hdrSize, offSize
	Name     Index    `json:"name"`
	Names    []string `json:"names"`
	Top      Index    `json:"top"`
	TopDict  []int    `json:"topDict"`
	Str      Index    `json:"str"`
	Strings  []string `json:"strings"`
	GSubr    Index    `json:"gsubr"`
	IsCID    bool     `json:"isCID"`
	CSOff    int      `json:"csOff"`
	CS       Index    `json:"cs"`
	CSHead   [][]int  `json:"csHead"` // per glyph: the bytes up to and including the first operator
	ChsOff   int      `json:"chsOff"` // charset operand (0 if absent)
	Chs      []int    `json:"chs"`    // charset table bytes (empty for a predefined charset)
	EncOff   int      `json:"encOff"` // Encoding operand (0 if absent)
	Enc      []int    `json:"enc"`    // encoding table bytes (empty for a predefined encoding)
	FDSelOff int      `json:"fdselOff"`
	FDSel    []int    `json:"fdsel"`
	FDAOff   int      `json:"fdaOff"`
	FDA      Index    `json:"fda"`
	FDDicts  [][]int  `json:"fdDicts"`
	Privs    []Priv   `json:"privs"`
}

type walker struct {
	d []byte
}

var errShort = errors.New("cffwalk: data ends inside a structure")

func (w *walker) u(pos, n int) (int, error) {
	if pos < 0 || n < 0 || pos+n > len(w.d) {
		return 0, errShort
	}
	v := 0
	for i := 0; i < n; i++ {
		v = v<<8 | int(w.d[pos+i])
	}
	return v, nil
}

func (w *walker) index(at int) (Index, error) {
	ix := Index{At: at, Offs: []int{}}
	c, err := w.u(at, 2)
	if err != nil {
		return ix, err
	}
	ix.Count = c
	if c == 0 {
		ix.End = at + 2
		return ix, nil
	}
	os, err := w.u(at+2, 1)
	if err != nil {
		return ix, err
	}
	if os < 1 || os > 4 {
		return ix, fmt.Errorf("cffwalk: INDEX at %d has offSize %d", at, os)
	}
	ix.OffSize = os
	for i := 0; i <= c; i++ {
		o, err := w.u(at+3+i*os, os)
		if err != nil {
			return ix, err
		}
		if o < 1 || (i > 0 && o < ix.Offs[i-1]) {
			return ix, fmt.Errorf("cffwalk: INDEX at %d has a decreasing offset", at)
		}
		ix.Offs = append(ix.Offs, o)
	}
	ix.End = at + 3 + (c+1)*os + ix.Offs[c] - 1
	if ix.End > len(w.d) {
		return ix, errShort
	}
	return ix, nil
}

// entry is one DICT entry as far as navigation needs it: integer operands only
// (a real operand is recorded as notInt).
type entry struct {
	op     int // two-byte operators 12 x are numbered 1200+x
	args   []int
	notInt []bool
}

// dict splits DICT data into entries.  Only what is needed to find offsets is decoded.
func dict(b []byte) ([]entry, error) {
	var res []entry
	var args []int
	var notInt []bool
	i := 0
	for i < len(b) {
		b0 := int(b[i])
		switch {
		case b0 == 12:
			if i+1 >= len(b) {
				return nil, errShort
			}
			res = append(res, entry{1200 + int(b[i+1]), args, notInt})
			args, notInt = nil, nil
			i += 2
		case b0 <= 21:
			res = append(res, entry{b0, args, notInt})
			args, notInt = nil, nil
			i++
		case b0 == 28:
			if i+2 >= len(b) {
				return nil, errShort
			}
			args = append(args, int(int16(uint16(b[i+1])<<8|uint16(b[i+2]))))
			notInt = append(notInt, false)
			i += 3
		case b0 == 29:
			if i+4 >= len(b) {
				return nil, errShort
			}
			args = append(args, int(int32(uint32(b[i+1])<<24|uint32(b[i+2])<<16|uint32(b[i+3])<<8|uint32(b[i+4]))))
			notInt = append(notInt, false)
			i += 5
		case b0 == 30:
			i++
			for {
				if i >= len(b) {
					return nil, errShort
				}
				x := b[i]
				i++
				if x>>4 == 15 || x&15 == 15 {
					break
				}
			}
			args = append(args, 0)
			notInt = append(notInt, true)
		case b0 >= 32 && b0 <= 246:
			args = append(args, b0-139)
			notInt = append(notInt, false)
			i++
		case b0 >= 247 && b0 <= 250:
			if i+1 >= len(b) {
				return nil, errShort
			}
			args = append(args, (b0-247)*256+int(b[i+1])+108)
			notInt = append(notInt, false)
			i += 2
		case b0 >= 251 && b0 <= 254:
			if i+1 >= len(b) {
				return nil, errShort
			}
			args = append(args, -(b0-251)*256-int(b[i+1])-108)
			notInt = append(notInt, false)
			i += 2
		default:
			return nil, fmt.Errorf("cffwalk: reserved DICT byte %d", b0)
		}
	}
	return res, nil
}

func find(es []entry, op int) *entry {
	var r *entry
	for i := range es {
		if es[i].op == op {
			r = &es[i]
		}
	}
	return r
}

// intArg returns operand k of op, or def if the operator is absent.
func intArg(es []entry, op, k, n, def int) (int, bool, error) {
	e := find(es, op)
	if e == nil {
		return def, false, nil
	}
	if len(e.args) != n || e.notInt[k] {
		return 0, true, fmt.Errorf("cffwalk: operator %d has unusable operands", op)
	}
	return e.args[k], true, nil
}

func ints(b []byte) []int {
	r := make([]int, len(b))
	for i, x := range b {
		r[i] = int(x)
	}
	return r
}

func (w *walker) slice(pos, n int) ([]byte, error) {
	if pos < 0 || n < 0 || pos+n > len(w.d) {
		return nil, errShort
	}
	return w.d[pos : pos+n], nil
}

// csHead returns the bytes of a charstring up to and including its first operator.
func csHead(b []byte) []int {
	i := 0
	for i < len(b) {
		b0 := b[i]
		switch {
		case b0 == 28:
			i += 3
		case b0 == 255:
			i += 5
		case b0 >= 247:
			i += 2
		case b0 >= 32:
			i++
		case b0 == 12:
			i += 2
			if i > len(b) {
				i = len(b)
			}
			return ints(b[:i])
		default:
			return ints(b[:i+1])
		}
	}
	return ints(b)
}

func (w *walker) private(size, off int) (Priv, error) {
	p := Priv{Size: size, Off: off, Bytes: []int{}, Subrs: Index{Offs: []int{}}}
	b, err := w.slice(off, size)
	if err != nil {
		return p, fmt.Errorf("private DICT (%d bytes at %d): %w", size, off, err)
	}
	p.Bytes = ints(b)
	es, err := dict(b)
	if err != nil {
		return p, err
	}
	rel, has, err := intArg(es, 19, 0, 1, 0)
	if err != nil {
		return p, err
	}
	p.HasSubrs, p.SubrsRel = has, rel
	if has {
		p.Subrs, err = w.index(off + rel)
		if err != nil {
			return p, fmt.Errorf("local subrs at %d+%d: %w", off, rel, err)
		}
	}
	return p, nil
}

// Walk finds the sections of a CFF file.  A structural problem that stops the walk is
// returned as an error together with what was found up to that point.
func Walk(data []byte) (*Raw, error) {
	w := &walker{d: data}
	r := &Raw{Len: len(data), Hdr: []int{}, Names: []string{}, TopDict: []int{}, Strings: []string{},
		CSHead: [][]int{}, Chs: []int{}, Enc: []int{}, FDSel: []int{}, FDDicts: [][]int{}, Privs: []Priv{}}
	for _, ix := range []*Index{&r.Name, &r.Top, &r.Str, &r.GSubr, &r.CS, &r.FDA} {
		ix.Offs = []int{}
	}
	if len(data) < 4 {
		return r, errShort
	}
	r.Hdr = ints(data[:4])
	var err error
	if r.Name, err = w.index(int(data[2])); err != nil {
		return r, fmt.Errorf("name INDEX: %w", err)
	}
	for i := 0; i < r.Name.Count; i++ {
		r.Names = append(r.Names, string(r.Name.Item(data, i)))
	}
	if r.Top, err = w.index(r.Name.End); err != nil {
		return r, fmt.Errorf("top DICT INDEX: %w", err)
	}
	if r.Str, err = w.index(r.Top.End); err != nil {
		return r, fmt.Errorf("string INDEX: %w", err)
	}
	for i := 0; i < r.Str.Count; i++ {
		r.Strings = append(r.Strings, string(r.Str.Item(data, i)))
	}
	if r.GSubr, err = w.index(r.Str.End); err != nil {
		return r, fmt.Errorf("global subr INDEX: %w", err)
	}
	if r.Top.Count != 1 || r.Name.Count != 1 {
		return r, errors.New("cffwalk: not exactly one font")
	}
	td := r.Top.Item(data, 0)
	r.TopDict = ints(td)
	es, err := dict(td)
	if err != nil {
		return r, fmt.Errorf("top DICT: %w", err)
	}
	r.IsCID = find(es, 1230) != nil

	// CharStrings
	if r.CSOff, _, err = intArg(es, 17, 0, 1, 0); err != nil {
		return r, err
	}
	if r.CS, err = w.index(r.CSOff); err != nil {
		return r, fmt.Errorf("CharStrings INDEX at %d: %w", r.CSOff, err)
	}
	n := r.CS.Count
	for i := 0; i < n; i++ {
		r.CSHead = append(r.CSHead, csHead(r.CS.Item(data, i)))
	}

	// charset
	if r.ChsOff, _, err = intArg(es, 15, 0, 1, 0); err != nil {
		return r, err
	}
	if r.ChsOff > 2 {
		f, err := w.u(r.ChsOff, 1)
		if err != nil {
			return r, fmt.Errorf("charset at %d: %w", r.ChsOff, err)
		}
		size := 0
		switch f {
		case 0:
			size = 1 + 2*(n-1)
		case 1, 2:
			rec := 3
			if f == 2 {
				rec = 4
			}
			pos, have := r.ChsOff+1, 1
			for have < n {
				left, err := w.u(pos+2, rec-2)
				if err != nil {
					return r, fmt.Errorf("charset at %d: %w", r.ChsOff, err)
				}
				have += left + 1
				pos += rec
			}
			size = pos - r.ChsOff
		default:
			return r, fmt.Errorf("cffwalk: charset format %d", f)
		}
		b, err := w.slice(r.ChsOff, size)
		if err != nil {
			return r, fmt.Errorf("charset at %d: %w", r.ChsOff, err)
		}
		r.Chs = ints(b)
	}

	// encoding (simple fonts)
	if r.EncOff, _, err = intArg(es, 16, 0, 1, 0); err != nil {
		return r, err
	}
	if !r.IsCID && r.EncOff > 1 {
		f, err := w.u(r.EncOff, 1)
		if err != nil {
			return r, fmt.Errorf("encoding at %d: %w", r.EncOff, err)
		}
		cnt, err := w.u(r.EncOff+1, 1)
		if err != nil {
			return r, err
		}
		size := 0
		switch f & 127 {
		case 0:
			size = 2 + cnt
		case 1:
			size = 2 + 2*cnt
		default:
			return r, fmt.Errorf("cffwalk: encoding format %d", f)
		}
		if f&128 != 0 {
			ns, err := w.u(r.EncOff+size, 1)
			if err != nil {
				return r, err
			}
			size += 1 + 3*ns
		}
		b, err := w.slice(r.EncOff, size)
		if err != nil {
			return r, fmt.Errorf("encoding at %d: %w", r.EncOff, err)
		}
		r.Enc = ints(b)
	}

	if r.IsCID {
		if r.FDSelOff, _, err = intArg(es, 1237, 0, 1, 0); err != nil {
			return r, err
		}
		f, err := w.u(r.FDSelOff, 1)
		if err != nil {
			return r, fmt.Errorf("FDSelect at %d: %w", r.FDSelOff, err)
		}
		size := 0
		switch f {
		case 0:
			size = 1 + n
		case 3:
			nr, err := w.u(r.FDSelOff+1, 2)
			if err != nil {
				return r, err
			}
			size = 3 + 3*nr + 2
		default:
			return r, fmt.Errorf("cffwalk: FDSelect format %d", f)
		}
		b, err := w.slice(r.FDSelOff, size)
		if err != nil {
			return r, fmt.Errorf("FDSelect at %d: %w", r.FDSelOff, err)
		}
		r.FDSel = ints(b)

		if r.FDAOff, _, err = intArg(es, 1236, 0, 1, 0); err != nil {
			return r, err
		}
		if r.FDA, err = w.index(r.FDAOff); err != nil {
			return r, fmt.Errorf("Font DICT INDEX at %d: %w", r.FDAOff, err)
		}
		for i := 0; i < r.FDA.Count; i++ {
			fd := r.FDA.Item(data, i)
			r.FDDicts = append(r.FDDicts, ints(fd))
			fes, err := dict(fd)
			if err != nil {
				return r, fmt.Errorf("font DICT %d: %w", i, err)
			}
			e := find(fes, 18)
			if e == nil || len(e.args) != 2 || e.notInt[0] || e.notInt[1] {
				return r, fmt.Errorf("cffwalk: font DICT %d has no usable Private entry", i)
			}
			p, err := w.private(e.args[0], e.args[1])
			r.Privs = append(r.Privs, p)
			if err != nil {
				return r, fmt.Errorf("font DICT %d: %w", i, err)
			}
		}
	} else {
		e := find(es, 18)
		if e == nil || len(e.args) != 2 || e.notInt[0] || e.notInt[1] {
			return r, errors.New("cffwalk: top DICT has no usable Private entry")
		}
		p, err := w.private(e.args[0], e.args[1])
		r.Privs = append(r.Privs, p)
		if err != nil {
			return r, err
		}
	}
	return r, nil
}
