// Package fprint computes deep fingerprints of Go values by reflection.
//
// A fingerprint covers everything reachable from a value: exported and unexported
// struct fields, the elements of arrays and slices (for slices also the spare capacity
// between len and cap, where an `append` to a shared slice would write), map keys and
// values (in an order that does not depend on map iteration), pointers and interfaces
// (followed; a cycle is cut where it returns to an object on the current path, so the
// result does not depend on the order in which a map happens to be iterated; objects
// shared between siblings are simply visited once per reference).
//
// Two hashes are produced in one walk:
//
//   - Content: depends only on the values stored.  It is stable across processes and
//     is what result digests use.
//   - Shape:   additionally mixes in the addresses of every pointer, slice base, map
//     and function met.  The Go heap does not move objects, so within one process
//     Shape(before) = Shape(after) says that no reachable reference was replaced, even
//     by an equal copy (a lazily rebuilt cache, a re-sorted copy of a slice, ...).
//
// *time.Location is followed by identity only (see opaque).  Closures are opaque to reflection: a func value contributes nil/non-nil to Content
// and its code pointer to Shape; captured variables are not visited.
package fprint

import (
	"crypto/sha256"
	"encoding/binary"
	"encoding/hex"
	"hash"
	"math"
	"reflect"
	"sort"
	"time"
)

// opaque lists types that are followed by identity only: objects of the standard library
// that synchronise their own lazily initialised state (time.Local is filled in under a
// sync.Once by the first conversion of a local time) and are not part of the value.
var opaque = map[reflect.Type]bool{
	reflect.TypeOf(time.Location{}): true,
}

// FP is the fingerprint of one value.
type FP struct {
	Content string // hex, content only
	Shape   string // hex, content + identities
	Nodes   int    // number of values visited (a measure of how much was covered)
}

type visitKey struct {
	p uintptr
	t reflect.Type
	n int
}

// spareRec is the unused capacity of one byte slice: where an append would write.
type spareRec struct {
	start uintptr
	b     []byte
}

type walker struct {
	spare   *[]spareRec
	c, s    hash.Hash
	path    map[visitKey]int // objects on the current path -> depth
	depth   int
	nodes   int
	scratch [9]byte
}

// Of fingerprints the given values (as one tuple).
func Of(vals ...any) FP {
	w := &walker{c: sha256.New(), s: sha256.New(), path: map[visitKey]int{}, spare: new([]spareRec)}
	for _, v := range vals {
		w.tag('V')
		if v == nil {
			w.tag('0')
			continue
		}
		w.walk(reflect.ValueOf(v))
	}
	// The spare capacity of byte slices.  Sub-slices of one big buffer (the glyphs of a
	// "glyf" table) all extend to the end of that buffer, so the union of the regions is
	// hashed once, in address order (identities: shape hash only).
	sp := *w.spare
	sort.Slice(sp, func(i, j int) bool {
		if sp[i].start != sp[j].start {
			return sp[i].start < sp[j].start
		}
		return len(sp[i].b) > len(sp[j].b)
	})
	var covered uintptr
	for _, r := range sp {
		end := r.start + uintptr(len(r.b))
		if end <= covered {
			continue
		}
		from := r.start
		if covered > from {
			from = covered
		}
		w.addr(from)
		w.s.Write(r.b[from-r.start:])
		w.nodes += int(end - from)
		covered = end
	}
	return FP{
		Content: hex.EncodeToString(w.c.Sum(nil)[:12]),
		Shape:   hex.EncodeToString(w.s.Sum(nil)[:12]),
		Nodes:   w.nodes,
	}
}

// Content is a shorthand for Of(vals...).Content.
func Content(vals ...any) string { return Of(vals...).Content }

func (w *walker) both(b []byte) {
	w.c.Write(b)
	w.s.Write(b)
}

func (w *walker) tag(t byte) {
	w.scratch[0] = t
	w.both(w.scratch[:1])
}

func (w *walker) u64(t byte, x uint64) {
	w.scratch[0] = t
	binary.LittleEndian.PutUint64(w.scratch[1:], x)
	w.both(w.scratch[:9])
}

// addr mixes an identity into the shape hash only.
func (w *walker) addr(p uintptr) {
	w.scratch[0] = '@'
	binary.LittleEndian.PutUint64(w.scratch[1:], uint64(p))
	w.s.Write(w.scratch[:9])
}

func (w *walker) str(s string) {
	w.u64('s', uint64(len(s)))
	w.both([]byte(s))
}

// enter puts an object on the path; if it already is there it returns the distance to
// it (a cycle) and true.
func (w *walker) enter(k visitKey) (int, bool) {
	if d, ok := w.path[k]; ok {
		return w.depth - d, true
	}
	w.depth++
	w.path[k] = w.depth
	return 0, false
}

func (w *walker) leave(k visitKey) {
	delete(w.path, k)
	w.depth--
}

func scalar(k reflect.Kind) bool {
	return k >= reflect.Bool && k <= reflect.Complex128 || k == reflect.String
}

func (w *walker) walk(v reflect.Value) {
	w.nodes++
	switch v.Kind() {
	case reflect.Bool:
		if v.Bool() {
			w.u64('b', 1)
		} else {
			w.u64('b', 0)
		}
	case reflect.Int, reflect.Int8, reflect.Int16, reflect.Int32, reflect.Int64:
		w.u64('i', uint64(v.Int()))
	case reflect.Uint, reflect.Uint8, reflect.Uint16, reflect.Uint32, reflect.Uint64, reflect.Uintptr:
		w.u64('u', v.Uint())
	case reflect.Float32, reflect.Float64:
		w.u64('f', math.Float64bits(v.Float()))
	case reflect.Complex64, reflect.Complex128:
		c := v.Complex()
		w.u64('c', math.Float64bits(real(c)))
		w.u64('c', math.Float64bits(imag(c)))
	case reflect.String:
		w.str(v.String())
	case reflect.Array:
		w.u64('A', uint64(v.Len()))
		for i := 0; i < v.Len(); i++ {
			w.walk(v.Index(i))
		}
	case reflect.Slice:
		if v.IsNil() {
			w.tag('n')
			return
		}
		n, c := v.Len(), v.Cap()
		w.u64('S', uint64(n))
		w.addr(v.Pointer())
		if v.Type().Elem().Kind() == reflect.Uint8 {
			w.nodes += n
			w.both(v.Bytes())
			if c > n {
				w.s.Write([]byte{'C'})
				*w.spare = append(*w.spare, spareRec{v.Pointer() + uintptr(n), v.Slice(n, c).Bytes()})
			}
			return
		}
		elems := func() {
			for i := 0; i < n; i++ {
				w.walk(v.Index(i))
			}
			if c > n {
				// spare capacity is part of the footprint of an append: shape hash only
				full := v.Slice(0, c)
				sub := &walker{c: sha256.New(), s: sha256.New(), path: w.path, depth: w.depth, spare: w.spare}
				for i := n; i < c; i++ {
					sub.walk(full.Index(i))
				}
				w.nodes += sub.nodes
				w.s.Write([]byte{'C'})
				w.s.Write(sub.s.Sum(nil))
			}
		}
		if scalar(v.Type().Elem().Kind()) {
			elems()
			return
		}
		k := visitKey{v.Pointer(), v.Type(), c}
		if d, cyc := w.enter(k); cyc {
			w.u64('R', uint64(d))
			return
		}
		elems()
		w.leave(k)
	case reflect.Map:
		if v.IsNil() {
			w.tag('n')
			return
		}
		w.u64('M', uint64(v.Len()))
		w.addr(v.Pointer())
		k := visitKey{v.Pointer(), v.Type(), 0}
		if d, cyc := w.enter(k); cyc {
			w.u64('R', uint64(d))
			return
		}
		// order-independent: fingerprint every entry on its own, sort, feed
		type ent struct{ c, s [32]byte }
		ents := make([]ent, 0, v.Len())
		it := v.MapRange()
		for it.Next() {
			sub := &walker{c: sha256.New(), s: sha256.New(), path: w.path, depth: w.depth, spare: w.spare}
			sub.walk(it.Key())
			sub.walk(it.Value())
			w.nodes += sub.nodes
			var e ent
			copy(e.c[:], sub.c.Sum(nil))
			copy(e.s[:], sub.s.Sum(nil))
			ents = append(ents, e)
		}
		sort.Slice(ents, func(i, j int) bool { return string(ents[i].c[:]) < string(ents[j].c[:]) })
		for _, e := range ents {
			w.c.Write(e.c[:])
		}
		sort.Slice(ents, func(i, j int) bool { return string(ents[i].s[:]) < string(ents[j].s[:]) })
		for _, e := range ents {
			w.s.Write(e.s[:])
		}
		w.leave(k)
	case reflect.Pointer:
		if v.IsNil() {
			w.tag('n')
			return
		}
		w.tag('P')
		w.addr(v.Pointer())
		if opaque[v.Type().Elem()] {
			return
		}
		k := visitKey{v.Pointer(), v.Type(), 0}
		if d, cyc := w.enter(k); cyc {
			w.u64('R', uint64(d))
			return
		}
		w.walk(v.Elem())
		w.leave(k)
	case reflect.Interface:
		if v.IsNil() {
			w.tag('n')
			return
		}
		w.tag('I')
		w.str(v.Elem().Type().String())
		w.walk(v.Elem())
	case reflect.Struct:
		t := v.Type()
		w.u64('T', uint64(v.NumField()))
		for i := 0; i < v.NumField(); i++ {
			w.str(t.Field(i).Name)
			w.walk(v.Field(i))
		}
	case reflect.Func:
		if v.IsNil() {
			w.tag('n')
			return
		}
		w.tag('F')
		w.addr(v.Pointer())
	case reflect.Chan, reflect.UnsafePointer:
		if v.IsNil() {
			w.tag('n')
			return
		}
		w.tag('X')
		w.addr(v.Pointer())
	default:
		w.tag('?')
	}
}
