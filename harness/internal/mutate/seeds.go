package mutate

import (
	"bytes"
	"crypto/sha256"
	"encoding/binary"
	"fmt"
	"sort"

	"golang.org/x/image/font/gofont/goregular"
	"golang.org/x/text/language"

	"seehuhn.de/go/postscript/cid"

	"seehuhn.de/go/sfnt/cff"
	"seehuhn.de/go/sfnt/cmap"
	"seehuhn.de/go/sfnt/glyph"
	"seehuhn.de/go/sfnt/head"
	"seehuhn.de/go/sfnt/header"
	"seehuhn.de/go/sfnt/kern"
	"seehuhn.de/go/sfnt/opentype/anchor"
	"seehuhn.de/go/sfnt/opentype/classdef"
	"seehuhn.de/go/sfnt/opentype/coverage"
	"seehuhn.de/go/sfnt/opentype/gdef"
	"seehuhn.de/go/sfnt/opentype/gtab"
	"seehuhn.de/go/sfnt/opentype/markarray"

	"verif.local/harness/internal/fonts"
	"verif.local/harness/internal/vio"
)

// tableDecoder maps sfnt table tags to decoder names of the plan.
var tableDecoder = map[string]string{
	"head": "head", "maxp": "maxp", "OS/2": "os2", "name": "name", "cmap": "cmap", "post": "post",
	"CFF ": "cff", "GSUB": "GSUB", "GPOS": "GPOS", "GDEF": "GDEF", "kern": "kern",
}

// Limits of the quick tier (the thorough tier mutates every byte of every seed).
type Limits struct {
	Thorough bool
	MaxMLen  int // seeds longer than this are mutated only below this offset (0 = no limit)
	// BigMLen (0 = no extra limit) applies to whole-font seeds of more than 32 KiB, whose every
	// mutant costs milliseconds (Go Regular: 650 glyphs decoded, probed and re-encoded)
	BigMLen int
}

type seedSet struct {
	list []*Seed
	seen map[[32]byte]bool
	lim  Limits
}

func (ss *seedSet) add(name, dec string, data []byte, ntab int) {
	if len(data) == 0 {
		return
	}
	h := sha256.Sum256(append([]byte(dec+"\x00"), data...))
	if ss.seen[h] {
		return
	}
	ss.seen[h] = true
	mlen := len(data)
	if ss.lim.MaxMLen > 0 && mlen > ss.lim.MaxMLen {
		mlen = ss.lim.MaxMLen
	}
	if dec == "sfnt" && len(data) > 32768 && ss.lim.BigMLen > 0 && mlen > ss.lim.BigMLen {
		mlen = ss.lim.BigMLen
	}
	if dec == "header" {
		// only the directory (and a little more) is ever looked at
		n := int(binary.BigEndian.Uint16(data[4:]))
		if m := 12 + 16*n + 16; m < mlen {
			mlen = m
		}
		ntab = 0
	}
	ngid := 0
	if dec == "sfnt" {
		w, _ := GidWords(data)
		ngid = len(w)
	}
	cw := CountWords(dec, data)
	ndict := 0
	if dec == "cff" {
		ndict = len(DictSlots(data))
	}
	ss.list = append(ss.list, &Seed{ID: len(ss.list) + 1, Name: name, Dec: dec, Len: len(data), MLen: mlen,
		NTab: ntab, NGid: ngid, NDict: ndict, NCnt: len(cw), NCPair: len(CountPairs(cw)), Data: data, Formats: FormatsOf(dec, data)})
}

// addFont adds a whole font file, its directory and every table that has a stand-alone decoder.
func (ss *seedSet) addFont(name string, data []byte) error {
	rd := bytes.NewReader(data)
	dir, err := header.Read(rd)
	if err != nil {
		return fmt.Errorf("seed font %s: %v", name, err)
	}
	ss.add(name, "sfnt", data, len(dir.Toc))
	ss.add(name+"/directory", "header", data, 0)
	tags := make([]string, 0, len(dir.Toc))
	for t := range dir.Toc {
		tags = append(tags, t)
	}
	sort.Strings(tags)
	get := func(tag string) []byte {
		if _, ok := dir.Toc[tag]; !ok {
			return nil
		}
		b, err := dir.ReadTableBytes(rd, tag)
		if err != nil {
			return nil
		}
		return b
	}
	for _, t := range tags {
		if dec, ok := tableDecoder[t]; ok {
			ss.add(name+"/"+t, dec, get(t), 0)
		}
	}
	if hhea, hm := get("hhea"), get("hmtx"); len(hhea) == 36 && hm != nil {
		ss.add(name+"/hhea+hmtx", "hmtx", append(append([]byte(nil), hhea...), hm...), 0)
	}
	if loca, gl, hd := get("loca"), get("glyf"), get("head"); loca != nil && gl != nil && hd != nil {
		hi, err := head.Read(bytes.NewReader(hd))
		if err == nil {
			ss.add(name+"/loca+glyf", "glyf", JoinGlyf(hi.LocaFormat, loca, gl), 0)
		}
	}
	return nil
}

// BuildSeeds constructs the seed list: whole fonts of both outline kinds from the shared font
// builders, Go Regular, every stand-alone table extracted from them, and hand-made tables for
// the decoders and formats the constructed fonts do not contain.
func BuildSeeds(lim Limits) ([]*Seed, error) {
	ss := &seedSet{seen: map[[32]byte]bool{}, lim: lim}
	for i, o := range fonts.Corpus(lim.Thorough) {
		if o.N > 60 {
			continue // the 300-glyph fonts add bytes, not structure
		}
		f := fonts.Make(vio.Rand(int64(100+i)), o)
		var buf bytes.Buffer
		if _, err := f.Write(&buf); err != nil {
			return nil, fmt.Errorf("cannot write seed font %v: %v", o, err)
		}
		if err := ss.addFont(o.String(), buf.Bytes()); err != nil {
			return nil, err
		}
	}
	if err := ss.addFont("goregular", goregular.TTF); err != nil {
		return nil, err
	}
	{
		// CID-keyed font whose FD index changes block-wise (FD = gid/8): the writer chooses FDSelect
		// format 3 (14 bytes against 25 for format 0); consecutive CIDs give a range-coded charset
		o := fonts.Opts{Kind: "cid", N: 24, Cmap: "4", FDs: 3}
		f := fonts.Make(vio.Rand(199), o)
		out := f.Outlines.(*cff.Outlines)
		out.FDSelect = func(g glyph.ID) int { return int(g) / 8 }
		for i := range out.GIDToCID {
			out.GIDToCID[i] = cid.CID(i)
		}
		var buf bytes.Buffer
		if _, err := f.Write(&buf); err != nil {
			return nil, fmt.Errorf("cannot write the FDSelect-3 seed font: %v", err)
		}
		if err := ss.addFont("cid-n24-fd3-blockwise", buf.Bytes()); err != nil {
			return nil, err
		}
	}
	{
		// a TrueType font whose cmap maps the characters the reader looks up itself ('x', 'H')
		o := fonts.Opts{Kind: "ttf", N: 12, Cmap: "4"}
		f := fonts.Make(vio.Rand(198), o)
		m := cmap.Format4{'x': 5, 'H': 6, ' ': 1, 'f': 7, 'i': 8, 'l': 9}
		for i := 2; i < 5; i++ {
			m[uint16(fonts.CodeOf(i, false))] = glyph.ID(i)
		}
		f.InstallCMap(m)
		var buf bytes.Buffer
		if _, err := f.Write(&buf); err != nil {
			return nil, fmt.Errorf("cannot write the x/H seed font: %v", err)
		}
		if err := ss.addFont("ttf-n12-cmap-xH", buf.Bytes()); err != nil {
			return nil, err
		}
	}
	// Type 2 charstrings: every operator of the decoder in a valid program
	ss.add("hand/cff-t2-all-operators", "cff", T2AllOperators(), 0)
	// hand-made CFF fonts for the structures the library's writer never produces
	ss.add("hand/cff-charset0-enc0-off1", "cff", handCFF(cffOpt{charset: 0, enc: 0, offSize: [6]int{1, 1, 1, 1, 1, 1}}), 0)
	ss.add("hand/cff-charset1-enc1supp-off2-subrs", "cff", handCFF(cffOpt{charset: 1, enc: 1, supp: true, subrs: true, offSize: [6]int{2, 2, 2, 2, 2, 2}}), 0)
	ss.add("hand/cff-charset2-enc0supp-off3/4-subrs", "cff", handCFF(cffOpt{charset: 2, enc: 0, supp: true, subrs: true, offSize: [6]int{4, 3, 3, 4, 3, 3}}), 0)
	ss.add("hand/cff-predefined", "cff", handCFF(cffOpt{charset: -1, enc: -1, offSize: [6]int{1, 1, 1, 1, 1, 1}}), 0)
	ss.add("hand/cff-cid-5byte-operands", "cff", HandCIDCFF(), 0)
	ss.add("hand/cff-expertsubset-87", "cff", CFFPredef(87, 2, 1), 0)
	ss.add("hand/cff-expert", "cff", handCFF(cffOpt{charset: -2, enc: -2, offSize: [6]int{1, 1, 1, 1, 1, 1}}), 0)
	// long loca: the short-offset glyf seed of the first TrueType font, re-expressed with 32-bit offsets
	for _, sd := range ss.list {
		if sd.Dec == "glyf" && len(sd.Data) >= 6 && sd.Data[1] == 0 && len(sd.Data) < 4096 {
			ll := int(binary.BigEndian.Uint32(sd.Data[2:]))
			loca, gl := sd.Data[6:6+ll], sd.Data[6+ll:]
			long := make([]byte, 0, 2*ll)
			for i := 0; i+1 < len(loca); i += 2 {
				v := 2 * uint32(binary.BigEndian.Uint16(loca[i:]))
				long = append(long, byte(v>>24), byte(v>>16), byte(v>>8), byte(v))
			}
			ss.add("hand/loca-long+glyf", "glyf", JoinGlyf(1, long, gl), 0)
			break
		}
	}
	ss.add("hand/post-format1", "post", []byte{0, 1, 0, 0, 0, 0, 0, 0, 0xFF, 0x9C, 0, 50, 0, 0, 0, 0,
		0, 0, 0, 0, 0, 0, 0, 0, 0, 0, 0, 0, 0, 0, 0, 0}, 0)
	ss.add("hand/GSUB-extension", "GSUB", handExtension(7, []int{1, 6, 2, 1, 1, 2}), 0)     // 1.1: coverage at 6, delta 2
	ss.add("hand/GPOS-extension", "GPOS", handExtension(9, []int{1, 8, 4, 10, 1, 1, 2}), 0) // 1.1: coverage at 8, XAdvance 10

	// cmap: one table with formats 0, 4 (with glyphIdArray), 6, 12 and a shared subtable
	ss.add("hand/cmap-mixed", "cmap", handCmap(), 0)
	ss.add("hand/kern", "kern", kern.Info{{Left: 2, Right: 3}: -50, {Left: 3, Right: 2}: 20, {Left: 4, Right: 4}: 7}.Encode(), 0)
	ss.add("hand/kern-2sub", "kern", handKern(), 0)

	// coverage / classdef in both formats
	cov1 := []byte{0, 1, 0, 4, 0, 2, 0, 5, 0, 9, 0, 40}
	cov2 := []byte{0, 2, 0, 2, 0, 3, 0, 7, 0, 0, 0, 20, 0, 30, 0, 5}
	for _, d := range []string{"coverage", "coverset"} {
		ss.add("hand/coverage-f1", d, cov1, 0)
		ss.add("hand/coverage-f2", d, cov2, 0)
	}
	ss.add("hand/classdef-f1", "classdef", []byte{0, 1, 0, 10, 0, 4, 0, 1, 0, 0, 0, 2, 0, 1}, 0)
	ss.add("hand/classdef-f2", "classdef", []byte{0, 2, 0, 2, 0, 3, 0, 7, 0, 1, 0, 20, 0, 30, 0, 2}, 0)

	// GDEF with glyph classes, mark attachment classes and mark glyph sets
	gd := &gdef.Table{
		GlyphClass:      classdef.Table{2: gdef.GlyphClassBase, 3: gdef.GlyphClassBase, 9: gdef.GlyphClassLigature, 11: gdef.GlyphClassMark, 12: gdef.GlyphClassMark},
		MarkAttachClass: classdef.Table{11: 1, 12: 2},
		MarkGlyphSets:   []coverage.Set{{11: true}, {11: true, 12: true}},
	}
	ss.add("hand/GDEF-full", "GDEF", gd.Encode(), 0)

	gs, err := richGsub()
	if err != nil {
		return nil, err
	}
	ss.add("hand/GSUB-all-types", "GSUB", gs, 0)
	gp, err := richGpos()
	if err != nil {
		return nil, err
	}
	ss.add("hand/GPOS-all-types", "GPOS", gp, 0)
	ss.add("hand/GPOS-type5", "GPOS", handGpos5(), 0)
	return ss.list, nil
}

func handCmap() []byte {
	f4 := cmap.Format4{}
	for c := 0x41; c < 0x5B; c++ {
		f4[uint16(c)] = glyph.ID(c - 0x3F)
	}
	for i, c := range []uint16{0x61, 0x63, 0x64, 0x62, 0x66, 0x65} { // irregular: needs glyphIdArray
		f4[c] = glyph.ID(40 + 7*i%11)
	}
	f4[0x4E00] = 50
	f4[0xFB01] = 9
	f12 := cmap.Format12{}
	for c := uint32(0x1F600); c < 0x1F610; c++ {
		f12[c] = glyph.ID(c - 0x1F600 + 60)
	}
	f12[0x41] = 2
	f0 := &cmap.Format0{}
	for i := 32; i < 127; i++ {
		f0.Data[i] = byte(i - 30)
	}
	f6 := []byte{0, 6, 0, 18, 0, 0, 0, 0x30, 0, 4, 0, 20, 0, 21, 0, 0, 0, 23}
	b4 := f4.Encode(0)
	t := cmap.Table{
		{PlatformID: 3, EncodingID: 1}:  b4,
		{PlatformID: 0, EncodingID: 3}:  b4, // shared subtable
		{PlatformID: 3, EncodingID: 10}: f12.Encode(0),
		{PlatformID: 1, EncodingID: 0}:  f0.Encode(0),
		{PlatformID: 0, EncodingID: 4}:  f6,
	}
	return t.Encode()
}

func handKern() []byte {
	sub := func(flags byte, pairs [][3]int) []byte {
		b := []byte{0, 0, 0, 0, 0, flags}
		b = append(b, byte(len(pairs)>>8), byte(len(pairs)), 0, 0, 0, 0, 0, 0)
		for _, p := range pairs {
			b = append(b, byte(p[0]>>8), byte(p[0]), byte(p[1]>>8), byte(p[1]), byte(uint16(p[2])>>8), byte(p[2]))
		}
		binary.BigEndian.PutUint16(b[2:], uint16(len(b)))
		return b
	}
	out := []byte{0, 0, 0, 2}
	out = append(out, sub(1, [][3]int{{2, 3, -40}, {2, 4, 10}})...)
	out = append(out, sub(1|8, [][3]int{{2, 3, -10}})...)
	return out
}

func scriptsAndFeatures(tag string, n int) (gtab.ScriptListInfo, gtab.FeatureListInfo) {
	all := make([]gtab.LookupIndex, n)
	for i := range all {
		all[i] = gtab.LookupIndex(i)
	}
	return gtab.ScriptListInfo{
			language.MustParse("und-Zyyy"): {Required: 0xFFFF, Optional: []gtab.FeatureIndex{0, 1}},
			language.MustParse("und-Latn"): {Required: 0, Optional: []gtab.FeatureIndex{1}},
		}, gtab.FeatureListInfo{
			{Tag: tag, Lookups: all},
			{Tag: "ccmp", Lookups: []gtab.LookupIndex{0}},
		}
}

func encodeGtab(info *gtab.Info) (out []byte, err error) {
	defer func() {
		if r := recover(); r != nil {
			err = fmt.Errorf("cannot encode hand-made layout table: %v", r)
		}
	}()
	return info.Encode(), nil
}

// richGsub is a GSUB table with one lookup of every subtable format the library can write.
func richGsub() ([]byte, error) {
	act := []gtab.SeqLookup{{SequenceIndex: 0, LookupListIndex: 0}, {SequenceIndex: 1, LookupListIndex: 1}}
	mk := func(tp uint16, flags gtab.LookupFlags, st ...gtab.Subtable) *gtab.LookupTable {
		return &gtab.LookupTable{Meta: &gtab.LookupMetaInfo{LookupType: tp, LookupFlags: flags}, Subtables: st}
	}
	ll := gtab.LookupList{
		mk(1, 0, &gtab.Gsub1_1{Cov: coverage.Set{2: true, 3: true}, Delta: 2}),
		mk(1, gtab.IgnoreMarks, &gtab.Gsub1_2{Cov: coverage.Table{2: 0, 5: 1}, SubstituteGlyphIDs: []glyph.ID{7, 8}}),
		mk(2, 0, &gtab.Gsub2_1{Cov: coverage.Table{6: 0, 7: 1}, Repl: [][]glyph.ID{{7, 8}, {2, 3, 4}}}),
		mk(3, 0, &gtab.Gsub3_1{Cov: coverage.Table{2: 0}, Alternates: [][]glyph.ID{{3, 4, 5}}}),
		mk(4, gtab.IgnoreLigatures, &gtab.Gsub4_1{Cov: coverage.Table{6: 0}, Repl: [][]gtab.Ligature{{
			{In: []glyph.ID{7}, Out: 9}, {In: []glyph.ID{8, 8}, Out: 10}}}}),
		mk(5, 0, &gtab.SeqContext1{Cov: coverage.Table{2: 0}, Rules: [][]*gtab.SeqRule{{
			{Input: []glyph.ID{3}, Actions: act}, {Input: []glyph.ID{4, 5}, Actions: act[:1]}}}}),
		mk(5, 0, &gtab.SeqContext2{Cov: coverage.Table{2: 0, 3: 1}, Input: classdef.Table{2: 1, 3: 2, 4: 2},
			Rules: [][]*gtab.ClassSeqRule{nil, {{Input: []uint16{2}, Actions: act}}, {{Input: []uint16{1, 2}, Actions: act[:1]}}}}),
		mk(5, 0, &gtab.SeqContext3{Input: []coverage.Set{{2: true}, {3: true, 4: true}}, Actions: act}),
		mk(6, 0, &gtab.ChainedSeqContext1{Cov: coverage.Table{3: 0}, Rules: [][]*gtab.ChainedSeqRule{{
			{Backtrack: []glyph.ID{2}, Input: []glyph.ID{4}, Lookahead: []glyph.ID{5, 6}, Actions: act}}}}),
		mk(6, 0, &gtab.ChainedSeqContext2{Cov: coverage.Table{3: 0}, Backtrack: classdef.Table{2: 1},
			Input: classdef.Table{3: 1, 4: 2}, Lookahead: classdef.Table{5: 1},
			Rules: [][]*gtab.ChainedClassSeqRule{nil, {{Backtrack: []uint16{1}, Input: []uint16{2}, Lookahead: []uint16{1}, Actions: act}}, nil}}),
		mk(6, 0, &gtab.ChainedSeqContext3{Backtrack: []coverage.Set{{2: true}}, Input: []coverage.Set{{3: true}, {4: true}},
			Lookahead: []coverage.Set{{5: true}}, Actions: act}),
		mk(8, 0, &gtab.Gsub8_1{Input: coverage.Table{4: 0, 5: 1}, Backtrack: []coverage.Table{{2: 0}},
			Lookahead: []coverage.Table{{6: 0}}, SubstituteGlyphIDs: []glyph.ID{9, 10}}),
	}
	ll[2].Meta.LookupFlags = gtab.UseMarkFilteringSet
	ll[2].Meta.MarkFilteringSet = 1
	sl, fl := scriptsAndFeatures("liga", len(ll))
	return encodeGtab(&gtab.Info{ScriptList: sl, FeatureList: fl, LookupList: ll})
}

// richGpos is a GPOS table with one lookup of every subtable format the library can write.
func richGpos() ([]byte, error) {
	act := []gtab.SeqLookup{{SequenceIndex: 0, LookupListIndex: 0}}
	mk := func(tp uint16, st ...gtab.Subtable) *gtab.LookupTable {
		return &gtab.LookupTable{Meta: &gtab.LookupMetaInfo{LookupType: tp}, Subtables: st}
	}
	ll := gtab.LookupList{
		mk(1, &gtab.Gpos1_1{Cov: coverage.Table{2: 0, 3: 1}, Adjust: &gtab.GposValueRecord{XAdvance: 10, YPlacement: -5}}),
		mk(1, &gtab.Gpos1_2{Cov: coverage.Table{2: 0, 4: 1}, Adjust: []*gtab.GposValueRecord{{XAdvance: 10}, {XPlacement: 3}}}),
		mk(2, gtab.Gpos2_1{
			{Left: 2, Right: 3}: {First: &gtab.GposValueRecord{XAdvance: -50}},
			{Left: 2, Right: 4}: {First: &gtab.GposValueRecord{XAdvance: -30}, Second: &gtab.GposValueRecord{XPlacement: 5}},
			{Left: 3, Right: 2}: {First: &gtab.GposValueRecord{XAdvance: 25}}}),
		mk(2, &gtab.Gpos2_2{Cov: coverage.Set{2: true, 3: true}, Class1: classdef.Table{3: 1}, Class2: classdef.Table{4: 1, 5: 1},
			Adjust: [][]*gtab.PairAdjust{
				{{First: &gtab.GposValueRecord{}}, {First: &gtab.GposValueRecord{XAdvance: -20}}},
				{{First: &gtab.GposValueRecord{}}, {First: &gtab.GposValueRecord{XAdvance: -40}}}}}),
		mk(3, &gtab.Gpos3_1{Cov: coverage.Table{2: 0, 3: 1}, Records: []gtab.EntryExitRecord{
			{Entry: anchor.Table{X: 1, Y: 2}, Exit: anchor.Table{X: 100, Y: 50}}, {Entry: anchor.Table{X: 10, Y: 10}}}}),
		mk(4, &gtab.Gpos4_1{MarkCov: coverage.Table{11: 0, 12: 1}, BaseCov: coverage.Table{2: 0, 3: 1},
			MarkArray: []markarray.Record{{Class: 0, Table: anchor.Table{X: 5, Y: 5}}, {Class: 1, Table: anchor.Table{X: 6, Y: 6}}},
			BaseArray: [][]anchor.Table{{{X: 100, Y: 700}, {X: 120, Y: -20}}, {{X: 90, Y: 690}, {X: 110, Y: -30}}}}),
		mk(6, &gtab.Gpos6_1{Mark1Cov: coverage.Table{11: 0}, Mark2Cov: coverage.Table{12: 0},
			Mark1Array: []markarray.Record{{Class: 0, Table: anchor.Table{X: 5, Y: 5}}},
			Mark2Array: [][]anchor.Table{{{X: 50, Y: 800}}}}),
		mk(7, &gtab.SeqContext1{Cov: coverage.Table{2: 0}, Rules: [][]*gtab.SeqRule{{{Input: []glyph.ID{3}, Actions: act}}}}),
		mk(7, &gtab.SeqContext2{Cov: coverage.Table{2: 0}, Input: classdef.Table{2: 1, 3: 2},
			Rules: [][]*gtab.ClassSeqRule{nil, {{Input: []uint16{2}, Actions: act}}, nil}}),
		mk(8, &gtab.ChainedSeqContext3{Backtrack: []coverage.Set{{2: true}}, Input: []coverage.Set{{3: true}},
			Lookahead: []coverage.Set{{4: true}}, Actions: act}),
		mk(7, &gtab.SeqContext3{Input: []coverage.Set{{2: true}, {3: true, 4: true}}, Actions: act}),
		mk(8, &gtab.ChainedSeqContext1{Cov: coverage.Table{3: 0}, Rules: [][]*gtab.ChainedSeqRule{{
			{Backtrack: []glyph.ID{2}, Input: []glyph.ID{4}, Lookahead: []glyph.ID{5}, Actions: act}}}}),
		mk(8, &gtab.ChainedSeqContext2{Cov: coverage.Table{3: 0}, Backtrack: classdef.Table{2: 1},
			Input: classdef.Table{3: 1, 4: 2}, Lookahead: classdef.Table{5: 1},
			Rules: [][]*gtab.ChainedClassSeqRule{nil, {{Backtrack: []uint16{1}, Input: []uint16{2}, Lookahead: []uint16{1}, Actions: act}}, nil}}),
	}
	sl, fl := scriptsAndFeatures("kern", len(ll))
	return encodeGtab(&gtab.Info{ScriptList: sl, FeatureList: fl, LookupList: ll})
}

// handGpos5 is a GPOS table, laid out by hand after the OpenType specification, whose only
// lookup is a mark-to-ligature attachment subtable (the library cannot write this type).
func handGpos5() []byte {
	var b []byte
	u16 := func(v ...int) {
		for _, x := range v {
			b = append(b, byte(x>>8), byte(x))
		}
	}
	tag := func(s string) { b = append(b, s...) }
	u16(1, 0, 10, 30, 44) // header: version 1.0, ScriptList, FeatureList, LookupList
	u16(1)                // ScriptList @10
	tag("DFLT")
	u16(8)
	u16(4, 0)            // Script @18: defaultLangSys, langSysCount
	u16(0, 0xFFFF, 1, 0) // LangSys @22
	u16(1)               // FeatureList @30
	tag("mark")
	u16(8)
	u16(0, 1, 0)    // Feature @38
	u16(1, 4)       // LookupList @44
	u16(5, 0, 1, 8) // Lookup @48: type 5, flags, one subtable
	// MarkLigPosFormat1 @56 (offsets from here): format, markCoverage, ligatureCoverage,
	// markClassCount, markArray, ligatureArray
	u16(1, 12, 18, 2, 24, 36)
	u16(1, 1, 11) // mark coverage @12
	u16(1, 1, 9)  // ligature coverage @18
	u16(1, 1, 6)  // MarkArray @24: one record (class 1, anchor at 6)
	u16(1, 5, 5)  // anchor @30
	// LigatureArray @36: one ligature with two components and two mark classes
	u16(1, 4)
	u16(2, 10, 16, 0, 22) // LigatureAttach @4: componentCount, 2x2 anchor offsets (from LigatureAttach)
	u16(1, 100, 700)      // anchor @10
	u16(1, 100, -50)      // anchor @16
	u16(1, 300, 700)      // anchor @22
	return b
}

// handExtension is a GSUB (ext = 7) or GPOS (ext = 9) table, laid out by hand, whose only lookup
// is an extension lookup wrapping the given type-1 subtable (16-bit words).
func handExtension(ext int, inner []int) []byte {
	var b []byte
	u16 := func(v ...int) {
		for _, x := range v {
			b = append(b, byte(x>>8), byte(x))
		}
	}
	u16(1, 0, 10, 30, 44)
	u16(1)
	b = append(b, "DFLT"...)
	u16(8, 4, 0, 0, 0xFFFF, 1, 0)
	u16(1)
	b = append(b, "test"...)
	u16(8, 0, 1, 0)
	u16(1, 4)         // LookupList @44
	u16(ext, 0, 1, 8) // Lookup @48
	u16(1, 1, 0, 8)   // extension subtable @56: format 1, extensionLookupType 1, extensionOffset 8
	u16(inner...)     // wrapped subtable @64
	return b
}

// cffOpt selects the alternative structures of a hand-made simple CFF font.
type cffOpt struct {
	charset int    // 0, 1, 2: custom charset of that format; -1: predefined ISOAdobe; -2: predefined Expert
	enc     int    // 0, 1: custom encoding of that format; -1: Standard; -2: Expert
	supp    bool   // encoding supplement
	subrs   bool   // one global and one local subroutine, both called by glyph 1
	offSize [6]int // offSize of the Name, Top DICT, String, Global Subr, CharStrings, Local Subr INDEX
}

func cffIndexBytes(offSize int, items ...[]byte) []byte {
	if len(items) == 0 {
		return []byte{0, 0}
	}
	out := []byte{byte(len(items) >> 8), byte(len(items)), byte(offSize)}
	pos := 1
	put := func(v int) {
		for k := offSize - 1; k >= 0; k-- {
			out = append(out, byte(v>>(8*k)))
		}
	}
	put(pos)
	for _, it := range items {
		pos += len(it)
		put(pos)
	}
	for _, it := range items {
		out = append(out, it...)
	}
	return out
}

// handCFF lays out a three-glyph simple CFF font (Adobe TN5176) with the chosen structures.
func handCFF(o cffOpt) []byte {
	num := func(v int) []byte { return []byte{29, byte(v >> 24), byte(v >> 16), byte(v >> 8), byte(v)} }
	g1 := []byte{14}
	if o.subrs {
		g1 = []byte{32, 29, 32, 10, 14} // -107 callgsubr, -107 callsubr, endchar
	}
	g2 := []byte{239, 239, 21, 189, 6, 14} // 100 100 rmoveto 50 hlineto endchar
	name := cffIndexBytes(o.offSize[0], []byte("Hand"))
	strs := cffIndexBytes(o.offSize[2], []byte("aa"), []byte("bb"))
	gsub := cffIndexBytes(o.offSize[3])
	if o.subrs {
		gsub = cffIndexBytes(o.offSize[3], []byte{11})
	}
	chars := cffIndexBytes(o.offSize[4], []byte{14}, g1, g2)
	var charset, enc []byte
	switch o.charset {
	case 0:
		charset = []byte{0, 1, 0x87, 1, 0x88}
	case 1:
		charset = []byte{1, 1, 0x87, 1}
	case 2:
		charset = []byte{2, 1, 0x87, 0, 1}
	}
	sup := byte(0)
	if o.supp {
		sup = 0x80
	}
	switch o.enc {
	case 0:
		enc = []byte{sup, 2, 65, 66}
	case 1:
		enc = []byte{1 | sup, 1, 65, 1}
	}
	if o.supp && enc != nil {
		enc = append(enc, 1, 97, 1, 0x87)
	}
	var priv, lsub []byte
	if o.subrs {
		priv = append(num(6), 19) // Subrs: the local subr INDEX follows the Private DICT
		lsub = cffIndexBytes(o.offSize[5], []byte{11})
	}
	topLen := 6 + 11
	if o.charset != -1 {
		topLen += 6
	}
	if o.enc != -1 {
		topLen += 6
	}
	topIdxLen := 3 + 2*o.offSize[1] + topLen
	pos := 4 + len(name) + topIdxLen + len(strs) + len(gsub)
	var top []byte
	switch {
	case o.charset >= 0:
		top = append(top, append(num(pos), 15)...)
		pos += len(charset)
	case o.charset == -2:
		top = append(top, append(num(1), 15)...)
	}
	switch {
	case o.enc >= 0:
		top = append(top, append(num(pos), 16)...)
		pos += len(enc)
	case o.enc == -2:
		top = append(top, append(num(1), 16)...)
	}
	top = append(top, append(num(pos), 17)...)
	pos += len(chars)
	top = append(top, num(len(priv))...)
	top = append(top, append(num(pos), 18)...)
	if len(top) != topLen {
		panic("handCFF: top DICT layout")
	}
	out := []byte{1, 0, 4, 4}
	out = append(out, name...)
	out = append(out, cffIndexBytes(o.offSize[1], top)...)
	out = append(out, strs...)
	out = append(out, gsub...)
	out = append(out, charset...)
	out = append(out, enc...)
	out = append(out, chars...)
	out = append(out, priv...)
	out = append(out, lsub...)
	return out
}

// CFFWithCharstrings lays out a minimal simple CFF font (predefined charset and encoding) with
// the given glyph programs after .notdef, global subroutines and local subroutines.
func CFFWithCharstrings(glyphs, gsubrs, lsubrs [][]byte) []byte {
	num := func(v int) []byte { return []byte{29, byte(v >> 24), byte(v >> 16), byte(v >> 8), byte(v)} }
	name := cffIndexBytes(1, []byte("T2"))
	gsub := cffIndexBytes(2, gsubrs...)
	chars := cffIndexBytes(2, append([][]byte{{14}}, glyphs...)...)
	var priv, lsub []byte
	if len(lsubrs) > 0 {
		priv = append(num(6), 19)
		lsub = cffIndexBytes(2, lsubrs...)
	}
	const topLen = 17
	pos := 4 + len(name) + (3 + 2 + topLen) + 2 + len(gsub)
	top := append(num(pos), 17)
	pos += len(chars)
	top = append(top, num(len(priv))...)
	top = append(top, append(num(pos), 18)...)
	out := []byte{1, 0, 4, 2}
	out = append(out, name...)
	out = append(out, cffIndexBytes(1, top)...)
	out = append(out, 0, 0)
	out = append(out, gsub...)
	out = append(out, chars...)
	out = append(out, priv...)
	return append(out, lsub...)
}

// T2Num encodes an integer operand of a Type 2 charstring in its shortest form.
func T2Num(v int) []byte {
	switch {
	case v >= -107 && v <= 107:
		return []byte{byte(v + 139)}
	case v >= 108 && v <= 1131:
		return []byte{byte(247 + (v-108)>>8), byte(v - 108)}
	case v <= -108 && v >= -1131:
		return []byte{byte(251 + (-v-108)>>8), byte(-v - 108)}
	}
	return []byte{28, byte(v >> 8), byte(v)}
}

// t2 assembles a program: ints are operands, []byte are copied, negative-free opcodes are given
// as op(n) values.
type op int

func t2(items ...any) []byte {
	var b []byte
	for _, it := range items {
		switch v := it.(type) {
		case int:
			b = append(b, T2Num(v)...)
		case op:
			if v >= 1200 {
				b = append(b, 12, byte(v-1200))
			} else {
				b = append(b, byte(v))
			}
		case []byte:
			b = append(b, v...)
		}
	}
	return b
}

// T2AllOperators is a CFF font whose six glyphs use every operator of cff/t2decode.go once in
// a valid program (hints and masks, all path operators, the four flex forms, arithmetic,
// put/get, index/roll, conditionals, both subroutine calls, every number encoding).
func T2AllOperators() []byte {
	a := t2(10, 20, op(1), 30, 40, op(3), op(19), []byte{0xC0}, op(20), []byte{0xC0}, 100, 100, op(21),
		10, 10, op(5), 20, op(6), 20, op(7), 1, 2, 3, 4, 5, 6, op(8), op(14))
	b := t2(10, 20, op(18), 30, 40, op(23), 50, op(22), 1, 2, 3, 4, 5, 6, 7, 8, op(24), 1, 2, 3, 4, 5, 6, 7, 8, op(25),
		1, 2, 3, 4, op(26), 1, 2, 3, 4, op(27), 1, 2, 3, 4, op(30), 1, 2, 3, 4, op(31), 60, op(4), 5, op(6), op(14))
	c := t2(0, 0, op(21), 1, 2, 3, 4, 5, 6, 7, 8, 9, 10, 11, 12, 50, op(1235), 1, 2, 3, 4, 5, 6, 7, op(1234),
		1, 2, 3, 4, 5, 6, 7, 8, 9, op(1236), 1, 2, 3, 4, 5, 6, 7, 8, 9, 10, 11, op(1237), op(14))
	d := t2(5, op(1209), 3, op(1210), 2, op(1211), 2, op(1212), op(1214), 4, op(1224), 16, op(1226), op(1218),
		op(1223), op(1218), 7, op(1228), 1, op(1229), 3, 1, op(1230), op(1227), 5, op(1220), 5, op(1221),
		op(1203), op(1204), op(1205), op(1215), 1, 2, 3, 4, op(1222), op(21), 10, op(6), op(1200), op(14))
	e := t2(-107, op(29), -107, op(10), op(14))
	f := t2([]byte{28, 1, 44}, []byte{255, 0, 10, 128, 0}, op(21), []byte{247, 10}, []byte{251, 10}, op(5), op(14))
	gs := t2(10, 20, op(21), op(11))
	ls := t2(5, op(6), op(11))
	return CFFWithCharstrings([][]byte{a, b, c, d, e, f}, [][]byte{gs}, [][]byte{ls})
}

// CFFPredef is a simple CFF font with n glyphs (all "endchar") that selects the predefined
// charset id (0 ISOAdobe, 1 Expert, 2 ExpertSubset) and the predefined encoding id (0, 1).
func CFFPredef(n, charset, enc int) []byte { return CFFCharset(n, charset, enc, nil) }

// CFFCharset is CFFPredef with an optional custom charset (the bytes of a charset structure);
// the charset operand then is its offset.
func CFFCharset(n, charset, enc int, custom []byte) []byte {
	num := func(v int) []byte { return []byte{29, byte(v >> 24), byte(v >> 16), byte(v >> 8), byte(v)} }
	name := cffIndexBytes(1, []byte("P"))
	glyphs := make([][]byte, n)
	for i := range glyphs {
		glyphs[i] = []byte{14}
	}
	chars := cffIndexBytes(2, glyphs...)
	topLen := 6 + 6 + 6 + 11
	pos := 4 + len(name) + (3 + 2 + topLen) + 2 + 2
	if custom != nil {
		charset = pos
		pos += len(custom)
	}
	top := append(num(charset), 15)
	top = append(top, append(num(enc), 16)...)
	top = append(top, append(num(pos), 17)...)
	pos += len(chars)
	top = append(top, num(0)...)
	top = append(top, append(num(pos), 18)...)
	out := []byte{1, 0, 4, 2}
	out = append(out, name...)
	out = append(out, cffIndexBytes(1, top)...)
	out = append(out, 0, 0, 0, 0)
	out = append(out, custom...)
	return append(out, chars...)
}

// HandCIDCFF is a CID-keyed CFF font laid out by hand (Adobe TN5176) in which every offset and
// size operand (charset, CharStrings, FDArray, FDSelect, Private size and offset, Subrs) is a
// 5-byte int32, so that the DICT plan can replace each of them in place.
func HandCIDCFF() []byte {
	num := func(v int) []byte { return []byte{29, byte(v >> 24), byte(v >> 16), byte(v >> 8), byte(v)} }
	name := cffIndexBytes(1, []byte("CID"))
	strs := cffIndexBytes(1, []byte("Adobe"), []byte("Identity"))
	charset := []byte{0, 0, 1, 0, 2}
	fdsel := []byte{0, 0, 0, 0}
	chars := cffIndexBytes(1, []byte{14}, []byte{32, 10, 14}, []byte{239, 239, 21, 189, 6, 14})
	priv := append(num(6), 19)
	lsub := cffIndexBytes(1, []byte{11})
	const topLen = 7 + 6 + 6 + 7 + 7
	pos := 4 + len(name) + (3 + 2 + topLen) + len(strs) + 2
	top := []byte{248, 27, 248, 28, 139, 12, 30} // ROS: SID 391, SID 392, 0
	top = append(top, append(num(pos), 15)...)
	pos += len(charset)
	top = append(top, append(num(pos), 12, 37)...)
	pos += len(fdsel)
	top = append(top, append(num(pos), 17)...)
	pos += len(chars)
	top = append(top, append(num(pos), 12, 36)...)
	fdLen := 3 + 2 + 11
	fd := append(num(len(priv)), num(pos+fdLen)...)
	fd = append(fd, 18)
	if len(top) != topLen {
		panic("HandCIDCFF: top DICT layout")
	}
	out := []byte{1, 0, 4, 1}
	out = append(out, name...)
	out = append(out, cffIndexBytes(1, top)...)
	out = append(out, strs...)
	out = append(out, 0, 0)
	out = append(out, charset...)
	out = append(out, fdsel...)
	out = append(out, chars...)
	out = append(out, cffIndexBytes(1, fd)...)
	out = append(out, priv...)
	return append(out, lsub...)
}

// CFFWithSubrsOffset is a one-glyph CFF font whose Private DICT carries the given Subrs operand.
func CFFWithSubrsOffset(subrs int32) []byte {
	num := func(v int32) []byte { return []byte{29, byte(v >> 24), byte(v >> 16), byte(v >> 8), byte(v)} }
	name := cffIndexBytes(1, []byte("S"))
	chars := cffIndexBytes(1, []byte{14})
	priv := append(num(subrs), 19)
	const topLen = 17
	pos := 4 + len(name) + (3 + 2 + topLen) + 2 + 2
	top := append(num(int32(pos)), 17)
	pos += len(chars)
	top = append(top, num(int32(len(priv)))...)
	top = append(top, append(num(int32(pos)), 18)...)
	out := []byte{1, 0, 4, 1}
	out = append(out, name...)
	out = append(out, cffIndexBytes(1, top)...)
	out = append(out, 0, 0, 0, 0)
	out = append(out, chars...)
	out = append(out, priv...)
	return append(out, cffIndexBytes(1, []byte{11})...)
}
