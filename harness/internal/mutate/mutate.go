// Package mutate implements the fault-enumeration side of check C02: seeds (whole fonts and
// stand-alone tables), the mutation plan (truncation, 16-bit word replacement, byte flips,
// table deletion), and the guarded execution of every decoder of go-sfnt together with the
// lazy accessors that a successful decode may be handed to.
//
// Nothing in this package judges an outcome: it records (value | error | panic), the panic
// site, and the allocation delta.  The verdict is the contract in spec/Decoder.tla.
package mutate

import (
	"encoding/binary"
	"fmt"
)

// Seed is one starting point of the fault plan.
type Seed struct {
	ID    int    `json:"id"`
	Name  string `json:"name"`
	Dec   string `json:"dec"`   // decoder the mutants are handed to
	Len   int    `json:"len"`   // length of the seed in bytes
	MLen  int    `json:"mlen"`  // mutations and truncations are applied below this offset
	NTab  int    `json:"ntab"`  // whole fonts: number of tables (plan kind "drop"), else 0
	NGid  int    `json:"ngid"`  // whole fonts: number of glyph-id-valued words (plan kind "pair"), else 0
	NDict int    `json:"ndict"` // CFF seeds: number of 5-byte offset/size DICT operands (plan kind "dict"), else 0
	// Formats lists the alternative structures (table formats, lookup types, offset sizes ...)
	// found in the seed by the independent walker of formats.go.
	NCnt    int      `json:"ncnt"`   // number of 16-bit count fields found by the structure walker (plan kind "count")
	NCPair  int      `json:"ncpair"` // number of pairs of count fields of the same structure
	Formats []string `json:"formats"`
	Data    []byte   `json:"-"`
}

// Kinds of mutation; the order is the order of the plan (spec/Decoder.tla, Kinds).
var Kinds = []string{"orig", "trunc", "word", "flip", "ff", "inc", "dec", "pair", "dict", "count", "drop"}

// NumValues is the number of replacement value classes of kind "word".
const NumValues = 10

// WordValue returns the replacement value of class v (1..10) for a seed of length n:
// 0, 1, 2, 0x7FFF, 0x8000, 0xFFFE, 0xFFFF, len-1, len, len+1 (mod 2^16).
func WordValue(v int, n int) uint16 {
	switch v {
	case 1:
		return 0
	case 2:
		return 1
	case 3:
		return 2
	case 4:
		return 0x7FFF
	case 5:
		return 0x8000
	case 6:
		return 0xFFFE
	case 7:
		return 0xFFFF
	case 8:
		return uint16(n - 1)
	case 9:
		return uint16(n)
	case 10:
		return uint16(n + 1)
	}
	panic("bad value class")
}

// Mutant identifies one planned mutant.
type Mutant struct {
	Seed int    `json:"seed"`
	Kind string `json:"kind"`
	V    int    `json:"v"`   // value class of kind "word" (1..10), else 0
	Idx  int    `json:"idx"` // trunc: new length; word: word index; flip/ff/inc/dec: byte offset; drop: table index
}

// Apply returns the mutant's bytes (a fresh slice).
func Apply(s *Seed, m Mutant) ([]byte, error) {
	d := s.Data
	switch m.Kind {
	case "orig":
		return append([]byte(nil), d...), nil
	case "trunc":
		if m.Idx < 0 || m.Idx >= s.MLen {
			return nil, fmt.Errorf("trunc index %d out of plan", m.Idx)
		}
		return append([]byte(nil), d[:m.Idx]...), nil
	case "word":
		if m.Idx < 0 || m.Idx >= s.MLen/2 || 2*m.Idx+1 >= len(d) || m.V < 1 || m.V > NumValues {
			return nil, fmt.Errorf("word index %d out of plan", m.Idx)
		}
		out := append([]byte(nil), d...)
		binary.BigEndian.PutUint16(out[2*m.Idx:], WordValue(m.V, len(d)))
		return out, nil
	case "flip", "ff", "inc", "dec":
		if m.Idx < 0 || m.Idx >= s.MLen {
			return nil, fmt.Errorf("byte index %d out of plan", m.Idx)
		}
		out := append([]byte(nil), d...)
		switch m.Kind {
		case "flip":
			out[m.Idx] ^= 0x80
		case "ff":
			out[m.Idx] = 0xFF
		case "inc":
			out[m.Idx]++ // mod 256: a count or index byte becomes "one too many"
		case "dec":
			out[m.Idx]--
		}
		return out, nil
	case "drop":
		return dropTable(d, m.Idx)
	case "count":
		if m.Idx >= (s.NCnt+s.NCPair)*NumCountValues {
			return nil, fmt.Errorf("count index %d out of plan", m.Idx)
		}
		return applyCount(s.Dec, d, m.Idx)
	case "dict":
		if m.Idx >= s.NDict*NumDictValues {
			return nil, fmt.Errorf("dict index %d out of plan", m.Idx)
		}
		return applyDict(d, m.Idx)
	case "pair":
		if m.Idx >= s.NGid*NumGidValues*NumTriggers {
			return nil, fmt.Errorf("pair index %d out of plan", m.Idx)
		}
		return applyPair(d, m.Idx)
	}
	return nil, fmt.Errorf("unknown mutation kind %q", m.Kind)
}

// Count returns the number of mutants in cell (kind, v) of a seed -- the harness-side copy of
// Planned() in spec/Decoder.tla; the trace specification recomputes it and rejects a mismatch.
func Count(s *Seed, kind string) int {
	switch kind {
	case "orig":
		return 1
	case "trunc", "flip", "ff", "inc", "dec":
		return s.MLen
	case "word":
		return s.MLen / 2
	case "drop":
		return s.NTab
	case "pair":
		return s.NGid * NumGidValues * NumTriggers
	case "dict":
		return s.NDict * NumDictValues
	case "count":
		return (s.NCnt + s.NCPair) * NumCountValues
	}
	return 0
}

// dropTable removes directory record i of a well-formed sfnt file: the remaining records are
// moved up, the count is decremented and the freed 16 bytes are zeroed (table data stays put).
func dropTable(d []byte, i int) ([]byte, error) {
	if len(d) < 12 {
		return nil, fmt.Errorf("drop: not an sfnt file")
	}
	n := int(binary.BigEndian.Uint16(d[4:]))
	if i < 0 || i >= n || len(d) < 12+16*n {
		return nil, fmt.Errorf("drop: table index %d out of range", i)
	}
	out := append([]byte(nil), d...)
	copy(out[12+16*i:12+16*n], d[12+16*(i+1):12+16*n])
	for k := 12 + 16*(n-1); k < 12+16*n; k++ {
		out[k] = 0
	}
	binary.BigEndian.PutUint16(out[4:], uint16(n-1))
	return out, nil
}
