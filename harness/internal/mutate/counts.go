package mutate

import (
	"encoding/binary"
	"fmt"
	"sort"
)

// Count plan ("count"): allocation before validation.  A structure walker (independent of
// go-sfnt) lists every 16-bit COUNT field of a seed together with the structure it belongs
// to (one group per lookup subtable with everything below it, one group for the header lists,
// one group per other table).  Mutants: every count alone set to 0x7FFF and to 0xFFFF, and every
// pair of counts of the same group both set to 0x7FFF and both to 0xFFFF (the combination that
// maximises every product of two counts) -- while the table keeps its length.

// CountWord is the offset of a 16-bit count field and the structure group it belongs to.
type CountWord struct {
	Off   int
	Group int
}

// NumCountValues is the constant of the same name in spec/Decoder.tla.
const NumCountValues = 2

var countValues = [NumCountValues]uint16{0x7FFF, 0xFFFF}

type cwalk struct {
	w     *walker
	words []CountWord
	seen  map[int]bool
	group int
	steps int
}

func (c *cwalk) add(o int) {
	if o >= 0 && o+2 <= len(c.w.b) && !c.seen[o] {
		c.seen[o] = true
		c.words = append(c.words, CountWord{Off: o, Group: c.group})
	}
}

// arr visits the structures whose 16-bit offsets (relative to base) form an array of
// count(at cnt) entries starting at arr, each entry stride bytes wide with the offset at +skip.
func (c *cwalk) arr(base, cnt, arr, stride, skip int, f func(o int)) {
	n := c.w.u16(cnt)
	for i := 0; i < n && i < 64; i++ {
		off := c.w.u16(arr + i*stride + skip)
		c.steps++
		if off > 0 && c.steps < 20000 {
			f(base + off)
		}
	}
}

func (c *cwalk) coverage(o int) {
	if f := c.w.u16(o); f == 1 || f == 2 {
		c.add(o + 2)
	}
}

func (c *cwalk) classdef(o int) {
	switch c.w.u16(o) {
	case 1:
		c.add(o + 4)
	case 2:
		c.add(o + 2)
	}
}

// u16arr is a structure that starts with a count of 16-bit items.
func (c *cwalk) u16arr(o int) { c.add(o) }

func (c *cwalk) ruleSet(o int, chained bool) {
	c.add(o)
	c.arr(o, o, o+2, 2, 0, func(r int) {
		if !chained {
			c.add(r)
			c.add(r + 2)
			return
		}
		p := r
		bc := c.w.u16(p)
		c.add(p)
		p += 2 + 2*max(bc, 0)
		ic := c.w.u16(p)
		c.add(p)
		p += 2 + 2*max(ic-1, 0)
		lc := c.w.u16(p)
		c.add(p)
		p += 2 + 2*max(lc, 0)
		c.add(p)
	})
}

func (c *cwalk) context(so, f int, chained bool) {
	switch {
	case f == 1:
		c.coverage(so + c.w.u16(so+2))
		c.add(so + 4)
		c.arr(so, so+4, so+6, 2, 0, func(o int) { c.ruleSet(o, chained) })
	case f == 2 && !chained:
		c.coverage(so + c.w.u16(so+2))
		c.classdef(so + c.w.u16(so+4))
		c.add(so + 6)
		c.arr(so, so+6, so+8, 2, 0, func(o int) { c.ruleSet(o, false) })
	case f == 2:
		c.coverage(so + c.w.u16(so+2))
		for k := 4; k <= 8; k += 2 {
			if v := c.w.u16(so + k); v > 0 {
				c.classdef(so + v)
			}
		}
		c.add(so + 10)
		c.arr(so, so+10, so+12, 2, 0, func(o int) { c.ruleSet(o, true) })
	case f == 3 && !chained:
		c.add(so + 2)
		c.add(so + 4)
		c.arr(so, so+2, so+6, 2, 0, c.coverage)
	case f == 3:
		p := so + 2
		for k := 0; k < 3; k++ {
			n := c.w.u16(p)
			c.add(p)
			c.arr(so, p, p+2, 2, 0, c.coverage)
			p += 2 + 2*max(n, 0)
		}
		c.add(p)
	}
}

func (c *cwalk) subtable(tag string, tp, so int) {
	f := c.w.u16(so)
	if tag == "GSUB" {
		switch tp {
		case 1:
			c.coverage(so + c.w.u16(so+2))
			if f == 2 {
				c.add(so + 4)
			}
		case 2, 3:
			c.coverage(so + c.w.u16(so+2))
			c.add(so + 4)
			c.arr(so, so+4, so+6, 2, 0, c.u16arr)
		case 4:
			c.coverage(so + c.w.u16(so+2))
			c.add(so + 4)
			c.arr(so, so+4, so+6, 2, 0, func(ls int) {
				c.add(ls)
				c.arr(ls, ls, ls+2, 2, 0, func(l int) { c.add(l + 2) })
			})
		case 5:
			c.context(so, f, false)
		case 6:
			c.context(so, f, true)
		case 7:
			c.subtable(tag, c.w.u16(so+2), so+c.w.u32(so+4))
		case 8:
			c.coverage(so + c.w.u16(so+2))
			p := so + 4
			for k := 0; k < 2; k++ {
				n := c.w.u16(p)
				c.add(p)
				c.arr(so, p, p+2, 2, 0, c.coverage)
				p += 2 + 2*max(n, 0)
			}
			c.add(p)
		}
		return
	}
	switch tp {
	case 1:
		c.coverage(so + c.w.u16(so+2))
		if f == 2 {
			c.add(so + 6)
		}
	case 2:
		c.coverage(so + c.w.u16(so+2))
		if f == 1 {
			c.add(so + 8)
			c.arr(so, so+8, so+10, 2, 0, c.u16arr)
		} else {
			c.classdef(so + c.w.u16(so+8))
			c.classdef(so + c.w.u16(so+10))
			c.add(so + 12)
			c.add(so + 14)
		}
	case 3:
		c.coverage(so + c.w.u16(so+2))
		c.add(so + 4)
	case 4, 5, 6:
		c.coverage(so + c.w.u16(so+2))
		c.coverage(so + c.w.u16(so+4))
		c.add(so + 6) // markClassCount
		c.u16arr(so + c.w.u16(so+8))
		second := so + c.w.u16(so+10)
		c.add(second) // baseCount / ligatureCount / mark2Count
		if tp == 5 {
			c.arr(second, second, second+2, 2, 0, c.u16arr) // LigatureAttach: componentCount
		}
	case 7:
		c.context(so, f, false)
	case 8:
		c.context(so, f, true)
	case 9:
		c.subtable(tag, c.w.u16(so+2), so+c.w.u32(so+4))
	}
}

func (c *cwalk) gtab(tag string) {
	w := c.w
	c.group = 0
	sl, fl, ll := w.u16(4), w.u16(6), w.u16(8)
	if sl > 0 {
		c.add(sl)
		c.arr(sl, sl, sl+2, 6, 4, func(s int) {
			c.add(s + 2)
			if d := w.u16(s); d > 0 {
				c.add(s + d + 4)
			}
			c.arr(s, s+2, s+4, 6, 4, func(l int) { c.add(l + 4) })
		})
	}
	if fl > 0 {
		c.add(fl)
		c.arr(fl, fl, fl+2, 6, 4, func(f int) { c.add(f + 2) })
	}
	if ll <= 0 {
		return
	}
	c.add(ll)
	g := 0
	c.arr(ll, ll, ll+2, 2, 0, func(lo int) {
		c.group = 0
		c.add(lo + 4)
		tp := w.u16(lo)
		c.arr(lo, lo+4, lo+6, 2, 0, func(so int) {
			g++
			c.group = g
			c.subtable(tag, tp, so)
		})
	})
}

func (c *cwalk) cffIndexCount(o int) int {
	idx, ok := c.w.index(o)
	if !ok {
		return -1
	}
	if len(idx.items) > 0 {
		c.add(o)
	}
	return idx.end
}

// CountWords lists the count fields of a seed handed to decoder dec.
func CountWords(dec string, data []byte) []CountWord {
	w := &walker{b: data, set: map[string]bool{}}
	c := &cwalk{w: w, seen: map[int]bool{}}
	switch dec {
	case "GSUB", "GPOS":
		c.gtab(dec)
	case "GDEF":
		for _, k := range []int{4, 10} {
			if v := w.u16(k); v > 0 {
				c.classdef(v)
			}
		}
		if w.u16(2) >= 2 {
			if m := w.u16(12); m > 0 {
				c.add(m + 2)
				for i := 0; i < w.u16(m+2) && i < 16; i++ {
					c.coverage(m + w.u32(m+4+4*i))
				}
			}
		}
	case "coverage", "coverset":
		c.coverage(0)
	case "classdef":
		c.classdef(0)
	case "cmap":
		c.add(2)
		for i := 0; i < w.u16(2) && i < 16; i++ {
			o := w.u32(8 + 8*i)
			switch w.u16(o) {
			case 4:
				c.add(o + 6)
			case 6:
				c.add(o + 8)
			case 12:
				c.add(o + 12)
				c.add(o + 14)
			}
		}
	case "kern":
		c.add(2)
		o := 4
		for i := 0; i < w.u16(2) && i < 16 && w.u16(o+2) >= 6; i++ {
			c.add(o + 6)
			o += w.u16(o + 2)
		}
	case "name":
		c.add(2)
	case "post":
		if w.u32(0) == 0x00020000 {
			c.add(32)
		}
	case "hmtx":
		c.add(34)
	case "maxp":
		c.add(4)
	case "glyf":
		// numberOfContours and instructionLength of the first glyphs
		ll := w.u32(2)
		if ll >= 4 && w.u16(0) == 0 {
			for i := 0; i+1 < ll/2 && i < 8; i++ {
				a, b := 2*w.u16(6+2*i), 2*w.u16(6+2*i+2)
				if g := 6 + ll + a; b-a >= 12 {
					c.add(g)
					if nc := w.u16(g); nc > 0 && nc < 64 {
						c.add(g + 10 + 2*nc)
					}
				}
			}
		}
	case "cff":
		o := c.cffIndexCount(w.u8(2))
		top, ok := w.index(o)
		for k := 0; k < 3 && o > 0; k++ {
			o = c.cffIndexCount(o)
		}
		if ok && len(top.items) > 0 {
			td := dictOf(data[top.items[0][0]:top.items[0][1]])
			for _, op := range []int{17, 1236} {
				if v := td[op]; len(v) == 1 && v[0] > 0 {
					c.cffIndexCount(v[0])
				}
			}
			if v := td[1237]; len(v) == 1 && v[0] > 0 && w.u8(v[0]) == 3 {
				c.add(v[0] + 1)
			}
		}
	}
	sort.Slice(c.words, func(i, j int) bool { return c.words[i].Off < c.words[j].Off })
	return c.words
}

// CountPairs lists the pairs of count words of the same structure group (indices into words);
// groups with more than 16 counts pair only counts at most 8 positions apart.
func CountPairs(words []CountWord) [][2]int {
	var res [][2]int
	byGroup := map[int][]int{}
	var groups []int
	for i, cw := range words {
		if _, ok := byGroup[cw.Group]; !ok {
			groups = append(groups, cw.Group)
		}
		byGroup[cw.Group] = append(byGroup[cw.Group], i)
	}
	sort.Ints(groups)
	for _, g := range groups {
		idx := byGroup[g]
		for a := 0; a < len(idx); a++ {
			for b := a + 1; b < len(idx); b++ {
				if len(idx) <= 16 || b-a <= 8 {
					res = append(res, [2]int{idx[a], idx[b]})
				}
			}
		}
	}
	return res
}

// applyCount builds mutant idx of the count plan: first the single counts (word*NumCountValues +
// value), then the pairs (pair*NumCountValues + value).
func applyCount(dec string, data []byte, idx int) ([]byte, error) {
	words := CountWords(dec, data)
	pairs := CountPairs(words)
	out := append([]byte(nil), data...)
	set := func(w int, v uint16) { binary.BigEndian.PutUint16(out[words[w].Off:], v) }
	switch {
	case idx < 0:
	case idx < len(words)*NumCountValues:
		set(idx/NumCountValues, countValues[idx%NumCountValues])
		return out, nil
	case idx < (len(words)+len(pairs))*NumCountValues:
		k := idx - len(words)*NumCountValues
		p := pairs[k/NumCountValues]
		set(p[0], countValues[k%NumCountValues])
		set(p[1], countValues[k%NumCountValues])
		return out, nil
	}
	return nil, fmt.Errorf("count index %d out of plan", idx)
}
