package mutate

import (
	"bytes"
	"fmt"
	"io"
	"path"
	"runtime"
	"runtime/metrics"
	"sort"
	"strings"

	"golang.org/x/text/language"

	"seehuhn.de/go/sfnt"
	"seehuhn.de/go/sfnt/cff"
	"seehuhn.de/go/sfnt/cmap"
	"seehuhn.de/go/sfnt/glyf"
	"seehuhn.de/go/sfnt/glyph"
	"seehuhn.de/go/sfnt/head"
	"seehuhn.de/go/sfnt/header"
	"seehuhn.de/go/sfnt/hmtx"
	"seehuhn.de/go/sfnt/kern"
	"seehuhn.de/go/sfnt/maxp"
	"seehuhn.de/go/sfnt/name"
	"seehuhn.de/go/sfnt/opentype/classdef"
	"seehuhn.de/go/sfnt/opentype/coverage"
	"seehuhn.de/go/sfnt/opentype/gdef"
	"seehuhn.de/go/sfnt/opentype/gtab"
	"seehuhn.de/go/sfnt/os2"
	"seehuhn.de/go/sfnt/parser"
	"seehuhn.de/go/sfnt/post"
)

// Decoders lists the decoder names of the plan (the set D of the property's quantifier).
var Decoders = []string{"sfnt", "header", "cff", "cmap", "glyf", "GSUB", "GPOS", "GDEF", "coverage",
	"coverset", "classdef", "name", "head", "hmtx", "maxp", "os2", "post", "kern"}

// Acc is the outcome of one lazy accessor that did not return normally.
type Acc struct {
	Name    string `json:"name"`
	Outcome string `json:"outcome"` // "panic"
	Site    string `json:"site"`
	Msg     string `json:"msg"`
}

// Result is what was observed for one mutant.
type Result struct {
	Outcome  string // value | error | panic   (timeout is decided by the watchdog of the worker)
	Site     string // panic: innermost frame inside go-sfnt, "pkgdir/file.go:line"
	Msg      string
	AllocKiB int64 // bytes allocated by the decoder call alone (runtime/metrics delta), in KiB
	NAccOK   int   // lazy accessors that returned normally
	BadAcc   []Acc // lazy accessors that panicked
	Diag     []Acc // panics of operations the property does not list (Layout, lookup application)
}

// Stage is updated before every guarded call so that a watchdog can tell where a mutant hangs.
var Stage func(name string) = func(string) {}

const modPath = "seehuhn.de/go/sfnt"

// panicSite returns the innermost frame of the panicking stack that lies inside go-sfnt.
func panicSite() string {
	pcs := make([]uintptr, 96)
	n := runtime.Callers(3, pcs)
	frames := runtime.CallersFrames(pcs[:n])
	first := ""
	for {
		fr, more := frames.Next()
		fn := fr.Function
		if strings.HasPrefix(fn, modPath+"/") || strings.HasPrefix(fn, modPath+".") {
			return siteOf(fn, fr.File, fr.Line)
		}
		if first == "" && fn != "" && !strings.HasPrefix(fn, "runtime.") {
			first = fmt.Sprintf("%s:%d", fn, fr.Line)
		}
		if !more {
			break
		}
	}
	return "outside:" + first
}

func siteOf(fn, file string, line int) string {
	// package path = everything up to the first '.' after the last '/'
	pkg := fn
	slash := strings.LastIndex(fn, "/")
	if dot := strings.Index(fn[slash+1:], "."); dot >= 0 {
		pkg = fn[:slash+1+dot]
	}
	rel := strings.TrimPrefix(strings.TrimPrefix(pkg, modPath), "/")
	if rel != "" {
		rel += "/"
	}
	return fmt.Sprintf("%s%s:%d", rel, path.Base(file), line)
}

// SiteOfStack extracts the innermost go-sfnt frame of the first goroutine in a textual
// stack dump (used for hangs and fatal errors, where no recover is possible).
func SiteOfStack(dump string) string {
	lines := strings.Split(dump, "\n")
	for i := 0; i+1 < len(lines); i++ {
		fn := strings.TrimSpace(lines[i])
		if strings.HasPrefix(fn, modPath+"/") || strings.HasPrefix(fn, modPath+".") {
			if p := strings.LastIndex(fn, "("); p > 0 {
				fn = fn[:p]
			}
			loc := strings.TrimSpace(lines[i+1])
			if sp := strings.Index(loc, " "); sp > 0 {
				loc = loc[:sp]
			}
			file, ln := loc, 0
			if c := strings.LastIndex(loc, ":"); c > 0 {
				file = loc[:c]
				fmt.Sscanf(loc[c+1:], "%d", &ln)
			}
			return siteOf(fn, file, ln)
		}
	}
	return "unknown"
}

func guard(fn func()) (site, msg string, panicked bool) {
	defer func() {
		if r := recover(); r != nil {
			panicked = true
			msg = fmt.Sprint(r)
			if len(msg) > 160 {
				msg = msg[:160]
			}
			site = panicSite()
		}
	}()
	fn()
	return
}

var allocSample = []metrics.Sample{{Name: "/gc/heap/allocs:bytes"}}

func allocated() uint64 {
	metrics.Read(allocSample)
	return allocSample[0].Value.Uint64()
}

type runner struct {
	res *Result
}

// acc runs one lazy accessor of the property's list.
func (r *runner) acc(name string, fn func()) {
	Stage(name)
	site, msg, p := guard(fn)
	if p {
		r.res.BadAcc = append(r.res.BadAcc, Acc{Name: name, Outcome: "panic", Site: site, Msg: msg})
	} else {
		r.res.NAccOK++
	}
}

// diag runs an operation outside the property's list; a panic is reported as a diagnostic.
func (r *runner) diag(name string, fn func()) {
	Stage(name)
	site, msg, p := guard(fn)
	if p {
		r.res.Diag = append(r.res.Diag, Acc{Name: name, Outcome: "panic", Site: site, Msg: msg})
	}
}

// Run hands data to decoder dec and, on success, the decoded value to the lazy accessors.
func Run(dec string, data []byte) *Result {
	res := &Result{}
	r := &runner{res: res}
	var after func()
	var err error
	Stage("decode")
	a0 := allocated()
	site, msg, p := guard(func() { after, err = decode(r, dec, data) })
	a1 := allocated()
	res.AllocKiB = int64((a1 - a0 + 1023) / 1024)
	switch {
	case p:
		res.Outcome, res.Site, res.Msg = "panic", site, msg
		return res
	case err != nil:
		res.Outcome = "error"
		res.Msg = err.Error()
		if len(res.Msg) > 120 {
			res.Msg = res.Msg[:120]
		}
		return res
	}
	res.Outcome = "value"
	if after != nil {
		after()
	}
	return res
}

var boundaryRunes = []rune{0, 1, 0x1F, 0x20, 'A', 'f', 0x7E, 0x7F, 0x80, 0xFF, 0x100, 0x0301, 0x4E00, 0x7FFF, 0x8000,
	0xD800, 0xFB01, 0xFFFE, 0xFFFF, 0x10000, 0x1F600, 0x10FFFF, 0x110000, 0x7FFFFFFF}

func probeSubtable(sub cmap.Subtable) {
	for _, c := range boundaryRunes {
		sub.Lookup(c)
	}
	lo, hi := sub.CodeRange()
	for _, c := range []rune{lo - 1, lo, lo + 1, hi - 1, hi, hi + 1} {
		if c >= 0 { // negative runes are probed as a diagnostic only
			sub.Lookup(c)
		}
	}
}

func sortedKeys(t cmap.Table) []cmap.Key {
	keys := make([]cmap.Key, 0, len(t))
	for k := range t {
		keys = append(keys, k)
	}
	sort.Slice(keys, func(i, j int) bool {
		a, b := keys[i], keys[j]
		if a.PlatformID != b.PlatformID {
			return a.PlatformID < b.PlatformID
		}
		if a.EncodingID != b.EncodingID {
			return a.EncodingID < b.EncodingID
		}
		return a.Language < b.Language
	})
	return keys
}

func (r *runner) cmapAccessors(t cmap.Table, reencode bool) {
	for _, k := range sortedKeys(t) {
		k := k
		var sub cmap.Subtable
		r.acc("cmap.Get", func() { sub, _ = t.Get(k) })
		if sub != nil {
			r.acc("cmap.Lookup", func() { probeSubtable(sub) })
			if reencode {
				r.acc("cmap.Subtable.Encode", func() { sub.Encode(k.Language) })
			}
		}
		r.acc("cmap.GetNoLang", func() { t.GetNoLang(k.PlatformID, k.EncodingID) })
	}
	r.acc("cmap.GetBest", func() {
		if best, err := t.GetBest(); err == nil && best != nil {
			probeSubtable(best)
		}
	})
	// a negative rune is not a character: outside the property, reported as a diagnostic
	r.diag("cmap.Lookup(-1)", func() {
		for _, k := range sortedKeys(t) {
			if sub, err := t.Get(k); err == nil && sub != nil {
				sub.Lookup(-1)
			}
		}
	})
	if reencode {
		r.acc("cmap.Table.Encode", func() { t.Encode() })
	}
}

func (r *runner) glyphAccessors(gg glyf.Glyphs) {
	r.acc("SimpleGlyph.Decode", func() {
		for _, g := range gg {
			if g == nil {
				continue
			}
			if s, ok := g.Data.(glyf.SimpleGlyph); ok {
				s.Decode()
			}
			g.Components()
		}
	})
}

var und = language.Und

const sampleText = "AB fi fĺAV. oT"

func splitGlyf(b []byte) *glyf.Encoded {
	if len(b) < 6 {
		return &glyf.Encoded{LocaData: b}
	}
	lf := int16(uint16(b[0])<<8 | uint16(b[1]))
	ll := int(uint32(b[2])<<24 | uint32(b[3])<<16 | uint32(b[4])<<8 | uint32(b[5]))
	rest := b[6:]
	if ll < 0 || ll > len(rest) {
		ll = len(rest)
	}
	return &glyf.Encoded{LocaFormat: lf, LocaData: rest[:ll], GlyfData: rest[ll:]}
}

// JoinGlyf builds the stand-alone "glyf" seed format: locaFormat(2) locaLen(4) loca glyf.
func JoinGlyf(locaFormat int16, loca, glyfData []byte) []byte {
	out := []byte{byte(uint16(locaFormat) >> 8), byte(locaFormat), byte(len(loca) >> 24), byte(len(loca) >> 16),
		byte(len(loca) >> 8), byte(len(loca))}
	out = append(out, loca...)
	return append(out, glyfData...)
}

func decode(r *runner, dec string, data []byte) (after func(), err error) {
	switch dec {
	case "sfnt":
		f, err := sfnt.Read(bytes.NewReader(data))
		if err != nil {
			return nil, err
		}
		return func() { r.fontAccessors(f) }, nil

	case "header":
		rd := bytes.NewReader(data)
		h, err := header.Read(rd)
		if err != nil {
			return nil, err
		}
		// the decoder is "header.Read + ReadTableBytes of every table": fetching the tables the directory
		// announces is part of the time/allocation-bounded decode (a ReadTableBytes error is an ordinary result)
		names := make([]string, 0, len(h.Toc))
		for n := range h.Toc {
			names = append(names, n)
		}
		sort.Strings(names)
		for _, n := range names {
			h.Has(n)
			h.ReadTableBytes(rd, n)
		}
		return func() {
			r.acc("header.ReadTableBytes", func() {
				for _, n := range names {
					h.ReadTableBytes(rd, n)
				}
			})
		}, nil

	case "cff":
		f, err := cff.Read(bytes.NewReader(data))
		if err != nil {
			return nil, err
		}
		return func() { r.cffAccessors(f) }, nil

	case "cmap":
		// the property's decoder is "cmap.Decode+Get": selecting and decoding the subtables is
		// part of the time/allocation-bounded decode (a Get error is an ordinary result)
		t, err := cmap.Decode(data)
		if err != nil {
			return nil, err
		}
		for _, k := range sortedKeys(t) {
			t.Get(k)
		}
		return func() { r.cmapAccessors(t, true) }, nil

	case "glyf":
		// the property's decoder is "glyf.Decode+SimpleGlyph.Decode"
		gg, err := glyf.Decode(splitGlyf(data))
		if err != nil {
			return nil, err
		}
		for _, g := range gg {
			if g != nil {
				if sg, ok := g.Data.(glyf.SimpleGlyph); ok {
					sg.Decode()
				}
			}
		}
		return func() {
			r.glyphAccessors(gg)
			r.acc("glyf.Encode", func() { gg.Encode() })
		}, nil

	case "GSUB", "GPOS":
		tp := gtab.Type(gtab.TypeGsub)
		feat := gtab.GsubDefaultFeatures
		if dec == "GPOS" {
			tp = gtab.TypeGpos
			feat = gtab.GposDefaultFeatures
		}
		info, err := gtab.Read(bytes.NewReader(data), tp)
		if err != nil {
			return nil, err
		}
		return func() {
			var ll []gtab.LookupIndex
			r.acc("gtab.FindLookups", func() {
				ll = info.FindLookups(und, feat)
				info.FindLookups(language.AmericanEnglish, nil)
			})
			r.acc("gtab.Encode", func() { info.Encode() })
			r.diag("gtab.Apply", func() {
				all := make([]gtab.LookupIndex, len(info.LookupList))
				for i := range all {
					all[i] = gtab.LookupIndex(i)
				}
				for _, sel := range [][]gtab.LookupIndex{ll, all} {
					ctx := gtab.NewContext(info.LookupList, nil, sel)
					seq := make([]glyph.Info, 0, 12)
					for i := 0; i < 12; i++ {
						seq = append(seq, glyph.Info{GID: glyph.ID(2 + i%9), Text: []rune{rune('A' + i)}})
					}
					ctx.Apply(seq)
				}
			})
		}, nil

	case "GDEF":
		t, err := gdef.Read(bytes.NewReader(data))
		if err != nil {
			return nil, err
		}
		return func() {
			r.acc("gdef.IsMark", func() {
				for _, g := range []glyph.ID{0, 1, 11, 12, 0x7FFF, 0xFFFF} {
					t.IsMark(g)
				}
			})
			r.acc("gdef.Encode", func() { t.Encode() })
		}, nil

	case "coverage":
		t, err := coverage.Read(parser.New(bytes.NewReader(data)), 0)
		if err != nil {
			return nil, err
		}
		return func() {
			r.acc("coverage.Glyphs", func() { t.Glyphs(); t.Contains(0); t.ToSet() })
			r.acc("coverage.Encode", func() { t.EncodeLen(); t.Encode() })
		}, nil

	case "coverset":
		s, err := coverage.ReadSet(parser.New(bytes.NewReader(data)), 0)
		if err != nil {
			return nil, err
		}
		return func() {
			r.acc("coverage.Set.Glyphs", func() { s.Glyphs() })
			r.acc("coverage.Set.Encode", func() { s.ToTable().Encode() })
		}, nil

	case "classdef":
		t, err := classdef.Read(parser.New(bytes.NewReader(data)), 0)
		if err != nil {
			return nil, err
		}
		return func() {
			r.acc("classdef.Glyphs", func() { t.NumClasses(); t.Glyphs() })
			r.acc("classdef.Append", func() { t.Append(nil) })
		}, nil

	case "name":
		info, err := name.Decode(data)
		if err != nil {
			return nil, err
		}
		return func() {
			r.acc("name.Choose", func() {
				info.Windows.Choose(language.AmericanEnglish)
				info.Mac.Choose(language.AmericanEnglish)
			})
			r.acc("name.Encode", func() { info.Encode(1) })
		}, nil

	case "head":
		info, err := head.Read(bytes.NewReader(data))
		if err != nil {
			return nil, err
		}
		return func() { r.acc("head.Encode", func() { info.Encode(); _ = info.FontRevision.String() }) }, nil

	case "hmtx":
		k := len(data)
		if k > 36 {
			k = 36
		}
		var hm []byte
		if len(data) > 36 {
			hm = data[36:]
		}
		info, err := hmtx.Decode(data[:k], hm)
		if err != nil {
			return nil, err
		}
		return func() { r.acc("hmtx.Encode", func() { info.Encode() }) }, nil

	case "maxp":
		info, err := maxp.Read(bytes.NewReader(data))
		if err != nil {
			return nil, err
		}
		return func() { r.acc("maxp.Encode", func() { info.Encode() }) }, nil

	case "os2":
		info, err := os2.Read(bytes.NewReader(data))
		if err != nil {
			return nil, err
		}
		return func() { r.acc("os2.Encode", func() { info.Encode() }) }, nil

	case "post":
		info, err := post.Read(bytes.NewReader(data))
		if err != nil {
			return nil, err
		}
		return func() { r.acc("post.Encode", func() { info.Encode() }) }, nil

	case "kern":
		info, err := kern.Read(bytes.NewReader(data))
		if err != nil {
			return nil, err
		}
		return func() { r.acc("kern.Encode", func() { info.Encode() }) }, nil
	}
	panic("harness: unknown decoder " + dec)
}

func (r *runner) cffAccessors(f *cff.Font) {
	var n int
	r.acc("cff.NumGlyphs", func() { n = f.NumGlyphs() })
	r.acc("cff.Widths", func() { f.Widths(); f.WidthsPDF(); f.WidthsMapPDF() })
	r.acc("cff.BBox", func() {
		f.BBox()
		f.FontBBoxPDF()
		for i := 0; i < n; i++ {
			f.Glyphs[i].Extent()
			f.GlyphBBoxPDF(f.FontInfo.FontMatrix, glyph.ID(i))
			f.GlyphWidthPDF(glyph.ID(i))
		}
	})
	r.acc("cff.BuiltinEncoding", func() { f.IsCIDKeyed(); f.BuiltinEncoding() })
	r.acc("cff.Write", func() { f.Write(io.Discard) })
}

func (r *runner) fontAccessors(f *sfnt.Font) {
	var n int
	r.acc("Font.NumGlyphs", func() { n = f.NumGlyphs() })
	r.acc("Font.Widths", func() { f.Widths() })
	r.acc("Font.WidthsPDF", func() { f.WidthsPDF(); f.WidthsMapPDF() })
	r.acc("Font.GlyphBBoxes", func() { f.GlyphBBoxes() })
	r.acc("Font.FontBBox", func() { f.FontBBox(); f.FontBBoxPDF() })
	r.acc("Font.PerGlyph", func() {
		for i := 0; i < n; i++ {
			g := glyph.ID(i)
			f.GlyphWidth(g)
			f.GlyphWidthPDF(g)
			f.GlyphBBox(g)
			f.GlyphName(g)
			f.Outlines.GlyphBBoxPDF(f.FontMatrix, g)
		}
	})
	r.acc("Font.IsFixedPitch", func() { f.IsFixedPitch() })
	r.acc("Font.Info", func() {
		f.IsGlyf()
		f.IsCFF()
		f.FullName()
		f.Subfamily()
		f.PostScriptName()
		f.GetFontInfo()
		f.BuiltinEncoding()
	})
	if o, ok := f.Outlines.(*glyf.Outlines); ok && o != nil {
		r.glyphAccessors(o.Glyphs)
	}
	if f.CMapTable != nil {
		r.cmapAccessors(f.CMapTable, false)
	} else {
		r.acc("cmap.GetBest", func() { f.CMapTable.GetBest() })
	}
	r.acc("Font.Write", func() { f.Write(io.Discard) })
	r.diag("Font.Layout", func() {
		l, err := f.NewLayouter(und, nil, nil)
		if err == nil && l != nil {
			l.Layout(sampleText)
			l.Layout("")
		}
	})
}

// AllocSite re-runs fn with allocation profiling of every object and returns the innermost
// go-sfnt frame of the allocation site that allocated the most bytes (used to name the site of
// an over-budget allocation; a diagnostic aid, not a verdict).
func AllocSite(fn func()) string {
	old := runtime.MemProfileRate
	runtime.MemProfileRate = 1
	defer func() { runtime.MemProfileRate = old }()
	snap := func() map[[32]uintptr]int64 {
		runtime.GC()
		runtime.GC()
		n, _ := runtime.MemProfile(nil, true)
		recs := make([]runtime.MemProfileRecord, n+200)
		n, ok := runtime.MemProfile(recs, true)
		res := map[[32]uintptr]int64{}
		if !ok {
			return res
		}
		for _, r := range recs[:n] {
			res[r.Stack0] += r.AllocBytes
		}
		return res
	}
	before := snap()
	guard(fn)
	after := snap()
	var best [32]uintptr
	var bestBytes int64
	for k, v := range after {
		if d := v - before[k]; d > bestBytes {
			bestBytes, best = d, k
		}
	}
	if bestBytes == 0 {
		return "alloc:unknown"
	}
	n := 0
	for n < len(best) && best[n] != 0 {
		n++
	}
	frames := runtime.CallersFrames(best[:n])
	for {
		fr, more := frames.Next()
		if strings.HasPrefix(fr.Function, modPath+"/") || strings.HasPrefix(fr.Function, modPath+".") {
			return siteOf(fr.Function, fr.File, fr.Line)
		}
		if !more {
			break
		}
	}
	return "alloc:outside"
}
