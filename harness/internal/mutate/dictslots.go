package mutate

import (
	"encoding/binary"
	"fmt"
)

// DICT plan ("dict"): every offset- or size-bearing DICT operand of a CFF seed that is stored as
// a 5-byte int32 (operand prefix 29) is replaced in place by the boundary values of 32-bit
// arithmetic.  The operands are found by walking the bytes of the seed (formats.go), never by
// asking go-sfnt.  Operators: charset (15), Encoding (16), CharStrings (17), Private (18: size
// and offset), Subrs (19), FDArray (12 36), FDSelect (12 37) in the Top DICT, every Font DICT and
// every Private DICT.

// DictSlot is one 5-byte int32 operand: Off is the offset of its four value bytes; Partner is
// the value it is added to by the decoder (Private size <-> Private offset, Subrs offset <->
// offset of its Private DICT; 0 otherwise).
type DictSlot struct {
	Off     int
	Partner int
	Op      int
}

// NumDictValues is the constant of the same name in spec/Decoder.tla.
const NumDictValues = 6

// DictValue returns replacement v (0..5) for a slot: 0x7FFFFFFF, 0x7FFFFFF0, -2^31, -1, and the two
// values that make operand + partner equal to 2^31-1 (the largest sum that does not wrap in int32)
// and to 2^31 (the smallest that does).
func DictValue(v int, partner int) uint32 {
	switch v {
	case 0:
		return 0x7FFFFFFF
	case 1:
		return 0x7FFFFFF0
	case 2:
		return 0x80000000
	case 3:
		return 0xFFFFFFFF
	case 4:
		return uint32(0x7FFFFFFF - int64(partner))
	case 5:
		return uint32(0x80000000 - int64(partner))
	}
	panic("bad dict value class")
}

type dictEntry struct {
	op   int
	vals []int
	offs []int // offset of the value bytes of each operand if it is a 5-byte int, else -1
}

// scanDict parses the DICT at b[a:e] keeping operand positions.
func scanDict(b []byte, a, e int) []dictEntry {
	var res []dictEntry
	var vals, offs []int
	for i := a; i < e; {
		c := int(b[i])
		switch {
		case c <= 21:
			op := c
			i++
			if c == 12 && i < e {
				op = 1200 + int(b[i])
				i++
			}
			res = append(res, dictEntry{op: op, vals: vals, offs: offs})
			vals, offs = nil, nil
		case c == 28 && i+2 < e:
			vals, offs = append(vals, int(int16(binary.BigEndian.Uint16(b[i+1:])))), append(offs, -1)
			i += 3
		case c == 29 && i+4 < e:
			vals, offs = append(vals, int(int32(binary.BigEndian.Uint32(b[i+1:])))), append(offs, i+1)
			i += 5
		case c == 30:
			i++
			for i < e && b[i]&0x0F != 0x0F && b[i]>>4 != 0x0F {
				i++
			}
			i++
			vals, offs = append(vals, 0), append(offs, -1)
		case c >= 32 && c <= 246:
			vals, offs = append(vals, c-139), append(offs, -1)
			i++
		case c >= 247 && c <= 250 && i+1 < e:
			vals, offs = append(vals, (c-247)*256+int(b[i+1])+108), append(offs, -1)
			i += 2
		case c >= 251 && c <= 254 && i+1 < e:
			vals, offs = append(vals, -(c-251)*256-int(b[i+1])-108), append(offs, -1)
			i += 2
		default:
			return res
		}
	}
	return res
}

// DictSlots lists the 5-byte offset/size operands of a well-formed CFF font.
func DictSlots(cff []byte) []DictSlot {
	w := &walker{b: cff, set: map[string]bool{}}
	names, ok := w.index(w.u8(2))
	if !ok {
		return nil
	}
	top, ok := w.index(names.end)
	if !ok || len(top.items) == 0 {
		return nil
	}
	var slots []DictSlot
	var private func(es []dictEntry)
	private = func(es []dictEntry) {
		for _, e := range es {
			if e.op != 18 || len(e.vals) != 2 {
				continue
			}
			size, offs := e.vals[0], e.vals[1]
			if e.offs[0] >= 0 {
				slots = append(slots, DictSlot{Off: e.offs[0], Partner: offs, Op: 18})
			}
			if e.offs[1] >= 0 {
				slots = append(slots, DictSlot{Off: e.offs[1], Partner: size, Op: 18})
			}
			if size >= 0 && offs > 0 && offs+size <= len(cff) {
				for _, pe := range scanDict(cff, offs, offs+size) {
					if pe.op == 19 && len(pe.vals) == 1 && pe.offs[0] >= 0 {
						slots = append(slots, DictSlot{Off: pe.offs[0], Partner: offs, Op: 19})
					}
				}
			}
		}
	}
	td := scanDict(cff, top.items[0][0], top.items[0][1])
	for _, e := range td {
		switch e.op {
		case 15, 16, 17, 1236, 1237:
			if len(e.vals) == 1 && e.offs[0] >= 0 {
				slots = append(slots, DictSlot{Off: e.offs[0], Op: e.op})
			}
			if e.op == 1236 && len(e.vals) == 1 {
				if fa, ok := w.index(e.vals[0]); ok {
					for _, it := range fa.items {
						private(scanDict(cff, it[0], it[1]))
					}
				}
			}
		}
	}
	private(td)
	return slots
}

// applyDict builds mutant idx of the DICT plan: idx = slot*NumDictValues + value class.
func applyDict(cff []byte, idx int) ([]byte, error) {
	slots := DictSlots(cff)
	si, vi := idx/NumDictValues, idx%NumDictValues
	if idx < 0 || si >= len(slots) {
		return nil, fmt.Errorf("dict index %d out of plan", idx)
	}
	out := append([]byte(nil), cff...)
	binary.BigEndian.PutUint32(out[slots[si].Off:], DictValue(vi, slots[si].Partner))
	return out, nil
}
