package mutate

import (
	"encoding/binary"
	"fmt"
	"sort"
)

// This file is an independent structural walker: it looks at the bytes of a seed (never at the
// values go-sfnt decoded from them) and names the alternative structures it finds, so that the
// check can *measure* which formats the fault plan starts from (evidence coverage.formats_present).

type walker struct {
	b   []byte
	set map[string]bool
}

func (w *walker) u8(o int) int {
	if o < 0 || o >= len(w.b) {
		return -1
	}
	return int(w.b[o])
}
func (w *walker) u16(o int) int {
	if o < 0 || o+2 > len(w.b) {
		return -1
	}
	return int(binary.BigEndian.Uint16(w.b[o:]))
}
func (w *walker) u32(o int) int {
	if o < 0 || o+4 > len(w.b) {
		return -1
	}
	return int(binary.BigEndian.Uint32(w.b[o:]))
}
func (w *walker) add(f string, a ...any) { w.set[fmt.Sprintf(f, a...)] = true }

// FormatsOf names the structures present in a seed handed to decoder dec.
func FormatsOf(dec string, data []byte) []string {
	w := &walker{b: data, set: map[string]bool{}}
	switch dec {
	case "sfnt":
		w.sfnt()
	case "cff":
		w.cff()
	case "cmap":
		w.cmap()
	case "glyf":
		if len(data) >= 2 {
			w.add("loca:%s", map[int]string{0: "short", 1: "long"}[w.u16(0)])
			w.glyf()
		}
	case "GSUB", "GPOS":
		w.gtab(dec)
	case "GDEF":
		w.add("GDEF:v%d.%d", w.u16(0), w.u16(2))
		if w.u16(4) > 0 {
			w.add("GDEF:glyphClassDef")
			w.add("classdef:%d(in GDEF)", w.u16(w.u16(4)))
		}
		if w.u16(10) > 0 {
			w.add("GDEF:markAttachClassDef")
		}
		if w.u16(2) >= 2 && w.u16(12) > 0 {
			w.add("GDEF:markGlyphSets")
		}
	case "coverage", "coverset":
		w.add("coverage:%d", w.u16(0))
	case "classdef":
		w.add("classdef:%d", w.u16(0))
	case "post":
		w.add("post:%d.%d", w.u16(0), w.u16(2)>>12)
	case "kern":
		w.add("kern:v%d", w.u16(0))
		o := 4
		for i := 0; i < w.u16(2) && w.u16(o+2) >= 6; i++ {
			w.add("kern:subtable-format%d", w.u8(o+4))
			o += w.u16(o + 2)
		}
	case "maxp":
		w.add("maxp:%d.%d", w.u16(0), w.u16(2)>>12)
	case "os2":
		w.add("OS/2:v%d", w.u16(0))
	case "name":
		w.add("name:format%d", w.u16(0))
		for i := 0; i < w.u16(2); i++ {
			w.add("name:platform%d", w.u16(6+12*i))
		}
	case "hmtx":
		n := w.u16(34)
		if n >= 0 && len(data) > 36+4*n {
			w.add("hmtx:trailing-lsb-only")
		}
		w.add("hmtx:long-metrics")
	case "head":
		w.add("head:locaFormat%d", w.u16(50))
	case "header":
		w.add("sfnt:scaler-%08x", w.u32(0))
	}
	res := make([]string, 0, len(w.set))
	for k := range w.set {
		res = append(res, k)
	}
	sort.Strings(res)
	return res
}

func (w *walker) sfnt() {
	w.add("sfnt:scaler-%08x", w.u32(0))
	for i := 0; i < w.u16(4); i++ {
		o := 12 + 16*i
		if o+16 > len(w.b) {
			break
		}
		w.add("sfnt:table-%s", string(w.b[o:o+4]))
	}
}

func (w *walker) cmap() {
	for i := 0; i < w.u16(2); i++ {
		o := w.u32(8 + 8*i)
		f := w.u16(o)
		w.add("cmap:format%d", f)
		if f == 4 {
			sc := w.u16(o+6) / 2
			for k := 0; k < sc; k++ {
				if w.u16(o+16+6*sc+2*k) > 0 {
					w.add("cmap:format4-glyphIdArray")
				}
			}
		}
	}
}

func (w *walker) glyf() {
	lf, ll := w.u16(0), w.u32(2)
	if ll < 0 || 6+ll > len(w.b) {
		return
	}
	loca, gl := w.b[6:6+ll], w.b[6+ll:]
	n := len(loca) / 2
	at := func(i int) int { return 2 * int(binary.BigEndian.Uint16(loca[2*i:])) }
	if lf == 1 {
		n = len(loca) / 4
		at = func(i int) int { return int(binary.BigEndian.Uint32(loca[4*i:])) }
	}
	for i := 0; i+1 < n; i++ {
		a, b := at(i), at(i+1)
		switch {
		case a == b:
			w.add("glyf:empty")
		case a+2 <= len(gl) && int16(binary.BigEndian.Uint16(gl[a:])) < 0:
			w.add("glyf:composite")
		case a+2 <= len(gl):
			w.add("glyf:simple")
		}
	}
}

// gtab walks header -> LookupList -> lookups -> subtables (and through extension subtables).
func (w *walker) gtab(tag string) {
	w.add("%s:v%d.%d", tag, w.u16(0), w.u16(2))
	ll := w.u16(8)
	ext := 7
	if tag == "GPOS" {
		ext = 9
	}
	for i := 0; i < w.u16(ll); i++ {
		lo := ll + w.u16(ll+2+2*i)
		tp, flags := w.u16(lo), w.u16(lo+2)
		if flags&0x10 != 0 {
			w.add("%s:useMarkFilteringSet", tag)
		}
		for k := 0; k < w.u16(lo+4); k++ {
			so := lo + w.u16(lo+6+2*k)
			if tp == ext {
				inner := so + w.u32(so+4)
				w.add("%s:%d.%d(extension->%d.%d)", tag, tp, w.u16(so), w.u16(so+2), w.u16(inner))
				continue
			}
			w.add("%s:%d.%d", tag, tp, w.u16(so))
		}
	}
}

// ---- CFF

type cffIdx struct {
	offSize int
	items   [][2]int // start, end of every object
	end     int
}

func (w *walker) index(o int) (cffIdx, bool) {
	n := w.u16(o)
	if n < 0 {
		return cffIdx{}, false
	}
	if n == 0 {
		return cffIdx{end: o + 2}, true
	}
	sz := w.u8(o + 2)
	if sz < 1 || sz > 4 {
		return cffIdx{}, false
	}
	off := func(i int) int {
		v := 0
		for k := 0; k < sz; k++ {
			b := w.u8(o + 3 + i*sz + k)
			if b < 0 {
				return -1
			}
			v = v<<8 | b
		}
		return v
	}
	base := o + 3 + (n+1)*sz - 1
	res := cffIdx{offSize: sz}
	for i := 0; i < n; i++ {
		a, b := off(i), off(i+1)
		if a < 1 || b < a || base+b > len(w.b) {
			return cffIdx{}, false
		}
		res.items = append(res.items, [2]int{base + a, base + b})
	}
	res.end = base + off(n)
	return res, true
}

// dict parses a CFF DICT into operator -> integer operands (reals are skipped as 0).
func dictOf(b []byte) map[int][]int {
	res := map[int][]int{}
	var st []int
	for i := 0; i < len(b); {
		c := int(b[i])
		switch {
		case c <= 21:
			op := c
			i++
			if c == 12 && i < len(b) {
				op = 1200 + int(b[i])
				i++
			}
			res[op] = st
			st = nil
		case c == 28 && i+2 < len(b):
			st = append(st, int(int16(binary.BigEndian.Uint16(b[i+1:]))))
			i += 3
		case c == 29 && i+4 < len(b):
			st = append(st, int(int32(binary.BigEndian.Uint32(b[i+1:]))))
			i += 5
		case c == 30:
			i++
			for i < len(b) && b[i]&0x0F != 0x0F && b[i]>>4 != 0x0F {
				i++
			}
			i++
			st = append(st, 0)
		case c >= 32 && c <= 246:
			st = append(st, c-139)
			i++
		case c >= 247 && c <= 250 && i+1 < len(b):
			st = append(st, (c-247)*256+int(b[i+1])+108)
			i += 2
		case c >= 251 && c <= 254 && i+1 < len(b):
			st = append(st, -(c-251)*256-int(b[i+1])-108)
			i += 2
		default:
			return res
		}
	}
	return res
}

func (w *walker) cff() {
	names, ok := w.index(w.u8(2))
	if !ok {
		return
	}
	w.add("cff:INDEX-offSize%d", names.offSize)
	top, ok := w.index(names.end)
	if !ok || len(top.items) == 0 {
		return
	}
	w.add("cff:INDEX-offSize%d", top.offSize)
	strs, ok := w.index(top.end)
	if !ok {
		return
	}
	if strs.offSize > 0 {
		w.add("cff:INDEX-offSize%d", strs.offSize)
		w.add("cff:custom-strings")
	}
	gs, ok := w.index(strs.end)
	if !ok {
		return
	}
	if len(gs.items) > 0 {
		w.add("cff:INDEX-offSize%d", gs.offSize)
		w.add("cff:global-subrs")
	}
	td := dictOf(w.b[top.items[0][0]:top.items[0][1]])
	_, cid := td[1230]
	if cid {
		w.add("cff:CID-keyed")
	} else {
		w.add("cff:simple")
	}
	one := func(op int) int {
		if v := td[op]; len(v) == 1 {
			return v[0]
		}
		return 0
	}
	if cs, ok := w.index(one(17)); ok && one(17) > 0 {
		w.add("cff:INDEX-offSize%d", cs.offSize)
		for _, it := range cs.items {
			w.t2ops(w.b[it[0]:it[1]])
		}
	}
	for _, it := range gs.items {
		w.t2ops(w.b[it[0]:it[1]])
	}
	switch c := one(15); {
	case c <= 2 && !cid:
		w.add("cff:charset-predefined%d", c)
	case c > 2:
		w.add("cff:charset-format%d", w.u8(c))
	}
	if !cid {
		switch e := one(16); {
		case e <= 1:
			w.add("cff:encoding-predefined%d", e)
		default:
			f := w.u8(e)
			w.add("cff:encoding-format%d", f&127)
			if f&128 != 0 {
				w.add("cff:encoding-supplement")
			}
		}
	}
	private := func(d map[int][]int) {
		if p := d[18]; len(p) == 2 && p[0] >= 0 && p[1] > 0 && p[1]+p[0] <= len(w.b) {
			pd := dictOf(w.b[p[1] : p[1]+p[0]])
			if s := pd[19]; len(s) == 1 && s[0] > 0 {
				if li, ok := w.index(p[1] + s[0]); ok && len(li.items) > 0 {
					for _, it := range li.items {
						w.t2ops(w.b[it[0]:it[1]])
					}
					w.add("cff:local-subrs")
					w.add("cff:INDEX-offSize%d", li.offSize)
				}
			}
		}
	}
	if cid {
		if fs := one(1237); fs > 0 {
			w.add("cff:FDSelect-format%d", w.u8(fs))
		}
		if fa, ok := w.index(one(1236)); ok {
			w.add("cff:FDArray-%d-dicts", len(fa.items))
			for _, it := range fa.items {
				private(dictOf(w.b[it[0]:it[1]]))
			}
		}
	} else {
		private(td)
	}
}

// t2ops tokenises a Type 2 charstring (TN5177) and records the operators and number forms used.
// Stem counting (for the length of hintmask data) is local to one charstring.
func (w *walker) t2ops(code []byte) {
	depth, stems := 0, 0
	for i := 0; i < len(code); {
		c := int(code[i])
		switch {
		case c >= 32 && c <= 246:
			i, depth = i+1, depth+1
		case c >= 247 && c <= 254:
			w.add("cff:t2-num-2byte")
			i, depth = i+2, depth+1
		case c == 28:
			w.add("cff:t2-num-shortint")
			i, depth = i+3, depth+1
		case c == 255:
			w.add("cff:t2-num-fixed")
			i, depth = i+5, depth+1
		case c == 12:
			if i+1 < len(code) {
				w.add("cff:t2-op-12.%d", code[i+1])
			}
			i, depth = i+2, 0
		default:
			w.add("cff:t2-op-%d", c)
			i++
			switch c {
			case 1, 3, 18, 23:
				stems += depth / 2
			case 19, 20:
				stems += depth / 2
				i += (stems + 7) / 8
			}
			depth = 0
		}
	}
}
