package mutate

import (
	"encoding/binary"
	"fmt"
)

// Cross-table plan ("pair"): in a whole font, a word that holds a glyph id (or a glyph count)
// is set to numGlyphs, numGlyphs+1, 0xFFFF, 0, 1 or numGlyphs-1, combined with a trigger that switches the
// reader's fall-backs on (OS/2 xHeight and capHeight zeroed; one of OS/2, maxp, hhea, hmtx, post, head,
// name removed).  The words
// are found by walking the bytes of the seed (never by asking go-sfnt).

// GidWord is the offset of a glyph-id-valued word; the stored word is (gid - Base) mod 2^16
// (Base = start code of a cmap format 4 segment for its idDelta, else 0).
type GidWord struct {
	Off  int
	Base int
}

// NumGidValues and NumTriggers are the constants of the same name in spec/Decoder.tla.
const (
	NumGidValues = 6
	NumTriggers  = 9
)

// triggerDrops[t-2] is the table removed by trigger t >= 2: sfnt.Read falls back to other tables (or to
// defaults) for each of them, so a count in one of the remaining tables becomes the only witness.
var triggerDrops = []string{"OS/2", "maxp", "hhea", "hmtx", "post", "head", "name"}

type sfntDir struct {
	b    []byte
	tabs map[string][2]int
	tags []string
}

func parseDir(b []byte) *sfntDir {
	if len(b) < 12 {
		return nil
	}
	n := int(binary.BigEndian.Uint16(b[4:]))
	if len(b) < 12+16*n {
		return nil
	}
	d := &sfntDir{b: b, tabs: map[string][2]int{}}
	for i := 0; i < n; i++ {
		r := b[12+16*i:]
		off, ln := int(binary.BigEndian.Uint32(r[8:])), int(binary.BigEndian.Uint32(r[12:]))
		if off+ln > len(b) {
			return nil
		}
		tag := string(r[:4])
		d.tabs[tag] = [2]int{off, ln}
		d.tags = append(d.tags, tag)
	}
	return d
}

func (d *sfntDir) u16(tag string, o int) int {
	t, ok := d.tabs[tag]
	if !ok || o < 0 || o+2 > t[1] {
		return -1
	}
	return int(binary.BigEndian.Uint16(d.b[t[0]+o:]))
}

func (d *sfntDir) u32(tag string, o int) int {
	hi, lo := d.u16(tag, o), d.u16(tag, o+2)
	if hi < 0 || lo < 0 {
		return -1
	}
	return hi<<16 | lo
}

// GidWords lists the glyph-id-valued words of a well-formed font and its glyph count.
func GidWords(font []byte) (words []GidWord, numGlyphs int) {
	d := parseDir(font)
	if d == nil {
		return nil, 0
	}
	numGlyphs = d.u16("maxp", 4)
	if numGlyphs < 0 {
		return nil, 0
	}
	add := func(tag string, o, base int) {
		if d.u16(tag, o) >= 0 {
			words = append(words, GidWord{Off: d.tabs[tag][0] + o, Base: base})
		}
	}
	add("maxp", 4, 0)  // numGlyphs itself (loca / hmtx / CFF count vs maxp)
	add("hhea", 34, 0) // numberOfHMetrics
	if d.u32("post", 0) == 0x00020000 {
		add("post", 32, 0) // number of glyph names
	}
	// cmap
	seen := map[int]bool{}
	for i := 0; i < d.u16("cmap", 2); i++ {
		o := d.u32("cmap", 8+8*i)
		if o < 0 || seen[o] {
			continue
		}
		seen[o] = true
		switch d.u16("cmap", o) {
		case 4:
			sc := d.u16("cmap", o+6) / 2
			end := o + d.u16("cmap", o+2)
			for k := 0; k < sc; k++ {
				if d.u16("cmap", o+16+6*sc+2*k) == 0 {
					add("cmap", o+16+4*sc+2*k, d.u16("cmap", o+16+2*sc+2*k))
				}
			}
			for p, n := o+16+8*sc, 0; p+2 <= end && n < 48; p, n = p+2, n+1 {
				add("cmap", p, 0)
			}
		case 6:
			for k := 0; k < d.u16("cmap", o+8) && k < 48; k++ {
				add("cmap", o+10+2*k, 0)
			}
		case 12:
			for k := 0; k < d.u32("cmap", o+12) && k < 48; k++ {
				add("cmap", o+16+12*k+10, 0)
			}
		}
	}
	// kern format 0
	if d.u16("kern", 0) == 0 {
		o := 4
		for i := 0; i < d.u16("kern", 2) && d.u16("kern", o+2) >= 14; i++ {
			if d.u16("kern", o+4)>>8 == 0 {
				for k := 0; k < d.u16("kern", o+6) && k < 24; k++ {
					add("kern", o+14+6*k, 0)
					add("kern", o+14+6*k+2, 0)
				}
			}
			o += d.u16("kern", o+2)
		}
	}
	// component glyph ids of composite glyphs
	if lf := d.u16("head", 50); lf == 0 || lf == 1 {
		loc := func(i int) int {
			if lf == 0 {
				v := d.u16("loca", 2*i)
				if v < 0 {
					return -1
				}
				return 2 * v
			}
			return d.u32("loca", 4*i)
		}
		nc := 0
		for g := 0; g < numGlyphs && nc < 24; g++ {
			a, b := loc(g), loc(g+1)
			if a < 0 || b-a < 12 || d.u16("glyf", a) < 0x8000 {
				continue
			}
			for p := a + 10; p+4 <= b && nc < 24; {
				fl := d.u16("glyf", p)
				add("glyf", p+2, 0)
				nc++
				p += 6
				if fl&1 != 0 {
					p += 2
				}
				switch {
				case fl&0x08 != 0:
					p += 2
				case fl&0x40 != 0:
					p += 4
				case fl&0x80 != 0:
					p += 8
				}
				if fl&0x20 == 0 {
					break
				}
			}
		}
	}
	// glyph ids in the first coverage table of every GSUB / GPOS subtable
	for _, tag := range []string{"GSUB", "GPOS"} {
		ll := d.u16(tag, 8)
		if ll <= 0 {
			continue
		}
		ext := map[string]int{"GSUB": 7, "GPOS": 9}[tag]
		ctx3 := map[string][2]int{"GSUB": {5, 6}, "GPOS": {7, 8}}[tag]
		for i := 0; i < d.u16(tag, ll); i++ {
			lo := ll + d.u16(tag, ll+2+2*i)
			tp := d.u16(tag, lo)
			for k := 0; k < d.u16(tag, lo+4); k++ {
				so := lo + d.u16(tag, lo+6+2*k)
				f := d.u16(tag, so)
				if tp == ext || ((tp == ctx3[0] || tp == ctx3[1]) && f == 3) {
					continue
				}
				co := so + d.u16(tag, so+2)
				switch d.u16(tag, co) {
				case 1:
					for j := 0; j < d.u16(tag, co+2) && j < 12; j++ {
						add(tag, co+4+2*j, 0)
					}
				case 2:
					for j := 0; j < d.u16(tag, co+2) && j < 6; j++ {
						add(tag, co+4+6*j, 0)
						add(tag, co+4+6*j+2, 0)
					}
				}
			}
		}
	}
	return words, numGlyphs
}

// applyPair builds mutant idx of the cross-table plan: idx = (word*NumGidValues + value)*NumTriggers + trigger.
func applyPair(font []byte, idx int) ([]byte, error) {
	words, n := GidWords(font)
	wi, vi, ti := idx/(NumGidValues*NumTriggers), idx/NumTriggers%NumGidValues, idx%NumTriggers
	if idx < 0 || wi >= len(words) {
		return nil, fmt.Errorf("pair index %d out of plan", idx)
	}
	out := append([]byte(nil), font...)
	val := []int{n, n + 1, 0xFFFF, 0, 1, n - 1}[vi]
	if val < 0 {
		val = 0
	}
	binary.BigEndian.PutUint16(out[words[wi].Off:], uint16(val-words[wi].Base))
	d := parseDir(font)
	switch ti {
	case 1: // OS/2 sxHeight and sCapHeight := 0 (switches the glyph-derived fall-backs on)
		if t, ok := d.tabs["OS/2"]; ok && t[1] >= 90 {
			for k := 86; k < 90; k++ {
				out[t[0]+k] = 0
			}
		}
	case 2, 3, 4, 5, 6, 7, 8: // one of the tables the reader has a fall-back for is absent altogether
		drop := triggerDrops[ti-2]
		for i, tag := range d.tags {
			if tag == drop {
				return dropTable(out, i)
			}
		}
	}
	return out, nil
}
