// Package dsl holds the helpers of the C19 harness: small fonts with and without glyph
// names and character mappings, instantiation of lookup-list shapes enumerated by TLC
// (spec/Dsl.tla), a canonical projection of lookup lists, an independent tokenizer used to
// mutate descriptions, and the goroutine probe.
package dsl

import (
	"fmt"

	"seehuhn.de/go/sfnt"
	"seehuhn.de/go/sfnt/cmap"
	"seehuhn.de/go/sfnt/glyf"
	"seehuhn.de/go/sfnt/glyph"
)

// NumGlyphs is the size of the constructed fonts; shapes use the glyphs 1..MaxUsed.  The large
// fonts "L" (names) and "Lx" (no names) have LargeGlyphs glyphs: room for glyph id differences
// of -1, -255, -256 and their wrap-around modulo 65536.
const (
	NumGlyphs   = 48
	MaxUsed     = 44
	LargeGlyphs = 600
)

// Font is a constructed font together with the harness' own view of its names and
// character map (used by the meaning cases and by the mutations).
type Font struct {
	ID    string
	F     *sfnt.Font
	Names []string        // "" = no name
	Rune  []rune          // rune mapped to the glyph, 0 = unmapped
	ByRn  map[rune]uint16 // inverse of Rune
}

// NameOf is the glyph name used in fonts with names: identifiers of the description language.
func NameOf(i int) string {
	switch {
	case i == 0:
		return ".notdef"
	case i <= 26:
		return string(rune('A' + i - 1))
	case i <= 40:
		return string(rune('a' + i - 27))
	case i <= 47:
		return []string{"zero", "one", "two", "three", "four.alt", "five_x", "six", "seven"}[i-41]
	default:
		return fmt.Sprintf("g%d", i)
	}
}

// RuneOf is the character of glyph i in fonts with a full character map.
func RuneOf(i int) rune {
	switch {
	case i == 0:
		return 0
	case i <= 26:
		return rune('A' + i - 1)
	case i <= 40:
		return rune('a' + i - 27)
	default:
		return rune('0' + i - 41)
	}
}

// exotic characters (font "e"): quote, backslash, space, non-ASCII letter, combining mark,
// punctuation that is a token of the language
var exotic = map[int]rune{3: '"', 4: '\\', 5: ' ', 6: 'é', 7: 0x0301, 8: '-', 9: '>', 10: '|', 11: ']', 12: '#', 13: 0x4E2D}

// FontIDs lists the font variants: names x character map.
//
//	nc  names, every glyph mapped          c   no names, every glyph mapped
//	np  names, odd glyphs mapped           cp  no names, odd glyphs mapped
//	n   names, no used glyph mapped        x   no names, no used glyph mapped
//	e   names, exotic characters (quote, backslash, space, non-ASCII, punctuation)
var FontIDs = []string{"nc", "c", "np", "cp", "n", "x", "e"}

// MakeFont constructs a font variant.  Only what builder.Parse/Explain look at is filled in:
// the number of glyphs, the glyph names and the cmap.
func MakeFont(id string) *Font {
	names, full, partial, exo, nocmap := false, false, false, false, false
	switch id {
	case "0": // names, no cmap table at all: Parse refuses every text (early return)
		names, nocmap = true, true
	case "00": // names, a cmap table without any subtable Parse can use
		names, nocmap = true, true
	case "L":
		names, partial = true, true
	case "Lx":
		partial = true
	case "nc":
		names, full = true, true
	case "c":
		full = true
	case "np":
		names, partial = true, true
	case "cp":
		partial = true
	case "n":
		names = true
	case "x":
	case "e":
		names, full, exo = true, true, true
	default:
		panic("unknown font " + id)
	}
	ng := NumGlyphs
	if id == "L" || id == "Lx" {
		ng = LargeGlyphs
	}
	o := &glyf.Outlines{Glyphs: make(glyf.Glyphs, ng)}
	res := &Font{ID: id, Names: make([]string, ng), Rune: make([]rune, ng), ByRn: map[rune]uint16{}}
	if names {
		o.Names = make([]string, ng)
		for i := range o.Names {
			o.Names[i] = NameOf(i)
			res.Names[i] = o.Names[i]
		}
	}
	m := cmap.Format4{}
	for i := 1; i < ng && i < NumGlyphs; i++ {
		var r rune
		switch {
		case full:
			r = RuneOf(i)
		case partial && i%2 == 1:
			r = RuneOf(i)
		}
		if exo {
			if x, ok := exotic[i]; ok {
				r = x
			}
		}
		if i > MaxUsed {
			r = rune('0' + i - 41) // the glyphs above MaxUsed are always mapped, so the cmap is never empty
		}
		if r != 0 && !nocmap {
			m[uint16(r)] = glyph.ID(i)
			res.Rune[i] = r
			res.ByRn[r] = uint16(i)
		}
	}
	f := &sfnt.Font{Outlines: o, FamilyName: "C19 " + id}
	if !nocmap {
		f.InstallCMap(m)
	}
	if id == "00" {
		f.CMapTable = cmap.Table{{PlatformID: 2, EncodingID: 0}: cmap.Format4{65: 1}.Encode(0)}
	}
	res.F = f
	return res
}

// Spell returns one way to write glyph i in a description for this font.
func (f *Font) Spell(i int) string {
	if f.Names[i] != "" {
		return f.Names[i]
	}
	return fmt.Sprint(i)
}
