package dsl

import (
	"math/rand"
	"strings"
	"unicode"
	"unicode/utf8"
)

// Token is a lexical element of a description, found by the harness' own tokenizer
// (written from the lexical syntax of the language, not shared with the library).
type Token struct {
	Kind       string // ident | string | int | punct | eol
	Start, End int    // byte offsets
}

// Tokenize splits a description; whitespace and comments are skipped.  Text that is not
// lexically valid ends the token list.
func Tokenize(s string) []Token {
	var res []Token
	i := 0
	for i < len(s) {
		r, w := utf8.DecodeRuneInString(s[i:])
		switch {
		case r == '\n':
			res = append(res, Token{"eol", i, i + 1})
			i++
		case unicode.IsSpace(r):
			i += w
		case r == '#':
			for i < len(s) && s[i] != '\n' {
				i++
			}
		case unicode.IsLetter(r) || r == '.' || r == '_':
			j := i + w
			for j < len(s) {
				r2, w2 := utf8.DecodeRuneInString(s[j:])
				if !(unicode.IsLetter(r2) || unicode.IsDigit(r2) || r2 == '.' || r2 == '_') {
					break
				}
				j += w2
			}
			res = append(res, Token{"ident", i, j})
			i = j
		case r == '"':
			j := i + 1
			esc := false
			closed := false
			for j < len(s) {
				c := s[j]
				j++
				if c == '\n' {
					break
				}
				if esc {
					esc = false
					continue
				}
				if c == '\\' {
					esc = true
					continue
				}
				if c == '"' {
					closed = true
					break
				}
			}
			if !closed {
				return res
			}
			res = append(res, Token{"string", i, j})
			i = j
		case r >= '0' && r <= '9' || r == '+' || (r == '-' && i+1 < len(s) && s[i+1] >= '0' && s[i+1] <= '9'):
			j := i + 1
			for j < len(s) && s[j] >= '0' && s[j] <= '9' {
				j++
			}
			res = append(res, Token{"int", i, j})
			i = j
		case r == '-' && i+1 < len(s) && s[i+1] == '>':
			res = append(res, Token{"punct", i, i + 2})
			i += 2
		case r == '|' && i+1 < len(s) && s[i+1] == '|':
			res = append(res, Token{"punct", i, i + 2})
			i += 2
		case strings.ContainsRune(",;:[]@/&=-|", r):
			res = append(res, Token{"punct", i, i + 1})
			i++
		default:
			return res
		}
	}
	return res
}

// StringRunes returns the byte ranges of the runes inside a string token (escape sequences
// count as one rune).
func StringRunes(s string, t Token) [][2]int {
	var res [][2]int
	i := t.Start + 1
	for i < t.End-1 {
		j := i
		if s[j] == '\\' {
			j++
		}
		_, w := utf8.DecodeRuneInString(s[j:])
		res = append(res, [2]int{i, j + w})
		i = j + w
	}
	return res
}

// neighbours returns the spellings of the glyphs before and after a glyph written as a one-letter name of
// the constructed fonts or as a glyph number.
func neighbours(x, kind string) (lo, hi string, ok bool) {
	switch {
	case kind == "ident" && len(x) == 1 && (x[0] > 'A' && x[0] < 'Z' || x[0] > 'a' && x[0] < 'n'):
		return string(x[0] - 1), string(x[0] + 1), true
	case kind == "int" && len(x) <= 2 && x[0] >= '0' && x[0] <= '9':
		n := 0
		for _, c := range x {
			if c < '0' || c > '9' {
				return "", "", false
			}
			n = 10*n + int(c-'0')
		}
		if n < 2 || n > 40 {
			return "", "", false
		}
		return itoa(n - 1), itoa(n + 1), true
	}
	return "", "", false
}

func itoa(n int) string {
	if n >= 10 {
		return string(rune('0'+n/10)) + string(rune('0'+n%10))
	}
	return string(rune('0' + n))
}

// Unmapped is a rune no constructed font maps; Illegal is a character the language has no use for.
const (
	Unmapped = "☃"
	Illegal  = "!"
)

// MutationKinds are the single-token mutations of a valid description.
var MutationKinds = []string{"delete", "wrong", "unterminated", "illegal", "trunc", "dup", "swap", "unmapped",
	"dupfar", "widen", "reverse", "selfrange"}

// Numbers are boundary literals put in place of every number of a description (mutation "number").
var Numbers = []string{"0", "255", "256", "32767", "32768", "65535", "65536", "65537", "2147483648", "4294967296",
	"1234567890123456789012345", "-1", "-32768", "-32769", "-65536", "+5"}

func wrongKind(s string, t Token) string {
	switch t.Kind {
	case "ident":
		return "]"
	case "string":
		return ";"
	case "int":
		return "["
	case "eol":
		return " @ "
	default:
		if s[t.Start:t.End] == "->" {
			return "|"
		}
		return " zzz "
	}
}

// Mutate applies mutation kind at token index i (rune index j for "unmapped"; j < 0 = every
// rune).  ok = false when the mutation does not apply to that token.
func Mutate(s string, toks []Token, kind string, i, j int) (string, bool) {
	if i < 0 || i >= len(toks) {
		return "", false
	}
	t := toks[i]
	switch kind {
	case "delete":
		return s[:t.Start] + " " + s[t.End:], true
	case "wrong":
		return s[:t.Start] + wrongKind(s, t) + s[t.End:], true
	case "unterminated":
		if t.Kind == "string" {
			return s[:t.End-1] + s[t.End:], true
		}
		return s[:t.Start] + "\"" + s[t.Start:], true
	case "illegal":
		return s[:t.Start] + Illegal + " " + s[t.Start:], true
	case "trunc":
		return s[:t.Start], true
	case "dup":
		return s[:t.End] + " " + s[t.Start:], true
	case "swap":
		if i+1 >= len(toks) {
			return "", false
		}
		u := toks[i+1]
		return s[:t.Start] + s[u.Start:u.End] + s[t.End:u.Start] + s[t.Start:t.End] + s[u.End:], true
	case "dupfar": // the glyph once more, two tokens later (a set with a repeated glyph)
		if (t.Kind != "ident" && t.Kind != "int" && t.Kind != "string") || i+2 >= len(toks) {
			return "", false
		}
		u := toks[i+2]
		return s[:u.Start] + s[t.Start:t.End] + " " + s[u.Start:], true
	case "widen", "reverse", "selfrange":
		// a glyph written as a range that contains it, followed by the glyph itself (overlap); the same
		// with the range reversed; the glyph as the range from itself to itself
		lo, hi, ok := neighbours(s[t.Start:t.End], t.Kind)
		if !ok {
			return "", false
		}
		x := s[t.Start:t.End]
		var repl string
		switch kind {
		case "widen":
			repl = lo + " - " + hi + " " + x
		case "reverse":
			repl = hi + " - " + lo + " " + x + " " + x
		default:
			repl = x + " - " + x
		}
		return s[:t.Start] + repl + s[t.End:], true
	case "unmapped":
		if t.Kind != "string" {
			return "", false
		}
		rr := StringRunes(s, t)
		if j < 0 || j >= len(rr) {
			return "", false
		}
		return s[:rr[j][0]] + Unmapped + s[rr[j][1]:], true
	}
	return "", false
}

// WriteString writes a quoted string whose runes are written as kinds says (p plain, e escape
// sequence, b escaped backslash); the rune at index bad is one that no font maps, the others are
// mapped by font "e".  variant varies the escapes used.
func WriteString(kinds []string, bad, variant int) string {
	var b strings.Builder
	b.WriteByte('"')
	for i, k := range kinds {
		switch {
		case i == bad && k == "p":
			b.WriteString(Unmapped)
		case i == bad: // an escape sequence that decodes to an unmapped rune
			b.WriteString([]string{"\\" + Unmapped, "\\n", "\\t", "\\r"}[(variant+i)%4])
		case k == "p":
			b.WriteByte(byte('A' + (i+variant)%20))
		case k == "e": // decodes to a mapped rune: the quote (font e), or an escaped letter
			b.WriteString([]string{"\\\"", "\\B", "\\\""}[(variant+i)%3])
		default:
			b.WriteString("\\\\")
		}
	}
	b.WriteByte('"')
	return b.String()
}

// EscapeStrings lists quoted strings with 0..3 escape sequences before and after an unmapped rune,
// for every escape the lexer accepts (backslash followed by any character; n, r, t are special).
func EscapeStrings() []string {
	var res []string
	for _, esc := range []string{"\\\\", "\\\"", "\\n", "\\t", "\\r", "\\A", "\\" + Unmapped} {
		for a := 0; a <= 3; a++ {
			for c := 0; c <= 3; c++ {
				if a+c == 0 {
					continue
				}
				res = append(res, "\""+strings.Repeat(esc, a)+Unmapped+strings.Repeat(esc, c)+"\"")
				if esc == "\\\\" || esc == "\\\"" {
					res = append(res, "\""+strings.Repeat(esc, a)+"A"+strings.Repeat(esc, c)+"\"")
				}
			}
		}
	}
	res = append(res, "\"\\\\\\\"\\n"+Unmapped+"\\\\\\\"\\\\\"", "\"A\\\\B\\\\C\\\\"+Unmapped+"\\\\\\\\\"")
	return res
}

// EOFTexts lists inputs that end, without a line break, in each lexical construct of the language, cut
// at every character position, alone and after a valid lookup; plus CR/LF variants and inputs that consist
// of comments and white space only.
func EOFTexts() []string {
	constructs := []string{"# comment", "#", "#c", "# \t", "\"AB\"", "\"A\\\"B\"", "\"A\\\\\"", "ABC", "g_1.x", "12", "+5", "-7", ":c1:", "::", "->", "||", "|",
		"@", "1@0", "-", "-marks", "[A B]", "[A-C]", "/A/", "x+1 & y-2", ",", ";", "=", "A#c", "A #c", "1#", "\"A\"#x", "->#", "# a # b",
		"#\r", "# c\r\n# d", "#\n#", "\r\n#", "\t# x", " ", "\t", "\r", "\n", "\r\n", "\n\n#", "#é", "# \"unterminated", "#!", "\u00a0#"}
	prefixes := []string{"", "GSUB1: A -> B ", "GSUB1: A -> B\n", "GSUB5: A B -> 1@0\r\n", "# first line\nGPOS1: A -> x+1 "}
	seen := map[string]bool{}
	var res []string
	for _, p := range prefixes {
		for _, c := range constructs {
			for i := 0; i <= len(c); i++ {
				t := p + c[:i]
				if !seen[t] {
					seen[t] = true
					res = append(res, t)
				}
			}
		}
	}
	return res
}

var soupWords = []string{"GSUB1", "GSUB2", "GSUB3", "GSUB4", "GSUB5", "GSUB6", "GPOS1", "GPOS2", "GPOS3", "GPOS4",
	"GSUB7", "class", "inputclass", "backtrackclass", "lookaheadclass", "first", "second", "mark", "base", "to",
	"x", "y", "dx", "dy", "_", "marks", "ligs", "lig", "rtl", "A", "B", "C", "X", "Y", "Z", "a", "zero", "nosuchglyph",
	"\"\\\\\\\\\"", "\"\\\\\\\\\\\\\"", "\"" + Unmapped + "\\\\\\\\\"", "\"\\\"\\\"\\n\\t\"", "\"A\\\\\\\\B\"",
	"\"AB\"", "\"A\"", "\"\"", "\"XYZabc\"", "\"A" + Unmapped + "BC\"", "\"" + Unmapped + "\"", "\"a\\\"b\"", "\"A\\nB\"", "\"unterminated",
	"0", "1", "2", "3", "47", "48", "65535", "65536", "-1", "+5", "-32768", "32768", "99999999999999999999",
	"->", "-", "|", "||", ",", ";", ":", "[", "]", "@", "/", "&", "=", "\n", "\n", "\t", "# comment", "#", "!", "$", "\\", "'",
	"\x00", "\xff\xfe", "é", "::", ":c1:", "1@0", "2@1", "[A B]", "[A-C]", "A-C", "-marks", "-base", "-ligs"}

// Soup is a grammar-derived random text: words of the language in random order.
func Soup(r *rand.Rand) string {
	var b strings.Builder
	n := 1 + r.Intn(30)
	if r.Intn(3) == 0 {
		b.WriteString(soupWords[r.Intn(10)])
		b.WriteString(": ")
	}
	for i := 0; i < n; i++ {
		b.WriteString(soupWords[r.Intn(len(soupWords))])
		if r.Intn(5) > 0 {
			b.WriteByte(' ')
		}
	}
	return b.String()
}

// RandomBytes is a random byte string (arbitrary text, not necessarily valid UTF-8).
func RandomBytes(r *rand.Rand) string {
	n := r.Intn(40)
	b := make([]byte, n)
	for i := range b {
		switch r.Intn(4) {
		case 0:
			b[i] = byte(r.Intn(256))
		case 1:
			b[i] = "\"\n-|>:@[]"[r.Intn(9)]
		default:
			b[i] = byte(32 + r.Intn(95))
		}
	}
	return string(b)
}
