package dsl

import (
	"bytes"
	"fmt"
	"regexp"
	"runtime"
	"strconv"
	"strings"
	"sync/atomic"
	"time"

	"seehuhn.de/go/sfnt"
	"seehuhn.de/go/sfnt/opentype/gtab"
	"seehuhn.de/go/sfnt/opentype/gtab/builder"
)

// Outcome is what can be observed of one call of builder.Parse from outside.
type Outcome struct {
	Returned bool // false: the call did not come back within the watchdog time
	Panicked bool
	OK       bool   // lookups returned
	Line     int    // line number carried by the error (0 = none)
	Err      string // error text
	PanicMsg string
	Leaked   int      // goroutines with builder frames that still exist after the call
	Stacks   []string // their stacks
	Lookups  gtab.LookupList
}

const builderPkg = "seehuhn.de/go/sfnt/opentype/gtab/builder."

var (
	reGoroutine = regexp.MustCompile(`^goroutine (\d+) \[([^\],]+)`)
	reLine      = regexp.MustCompile(`^(\d+):`)
	// known holds the ids of goroutines already reported as leaked (or belonging to a blocked
	// call), so that every leak is attributed to the call that caused it.
	known = map[int]bool{}
)

type gor struct {
	id    int
	state string
	text  string
}

// stackBuf is reused between dumps (the dump grows with every goroutine the library leaks).
var stackBuf = make([]byte, 1<<16)

// builderGoroutines lists the goroutines that have a frame of the builder package and are not
// known yet.  The text of a known goroutine is skipped without being copied.
func builderGoroutines() []gor {
	var buf []byte
	for {
		n := runtime.Stack(stackBuf, true)
		if n < len(stackBuf) {
			buf = stackBuf[:n]
			break
		}
		stackBuf = make([]byte, 2*len(stackBuf))
	}
	var res []gor
	for len(buf) > 0 {
		var block []byte
		if i := bytes.Index(buf, []byte("\n\n")); i >= 0 {
			block, buf = buf[:i], buf[i+2:]
		} else {
			block, buf = buf, nil
		}
		if !bytes.Contains(block, []byte(builderPkg)) {
			continue
		}
		m := reGoroutine.FindSubmatch(block)
		if m == nil {
			continue
		}
		id, _ := strconv.Atoi(string(m[1]))
		if known[id] {
			continue
		}
		res = append(res, gor{id, string(m[2]), string(block)})
	}
	return res
}

// Noise keeps n goroutines that yield the processor in a loop while switched on, to perturb
// the interleaving of lexer, parser and decoder.  The goroutines exist for the whole run (parked
// when off), so that the goroutine count used by RunParse is not disturbed.
type Noise struct {
	on   atomic.Bool
	wake chan struct{}
	n    int
}

// NewNoise starts n parked noise goroutines.
func NewNoise(n int) *Noise {
	z := &Noise{wake: make(chan struct{}, n), n: n}
	for i := 0; i < n; i++ {
		go func() {
			for {
				if z.on.Load() {
					runtime.Gosched()
				} else {
					<-z.wake
				}
			}
		}()
	}
	return z
}

// Set switches the noise on or off.
func (z *Noise) Set(on bool) {
	if on == z.on.Load() {
		return
	}
	z.on.Store(on)
	if on {
		for i := 0; i < z.n; i++ {
			select {
			case z.wake <- struct{}{}:
			default:
			}
		}
	}
}

func blockedState(s string) bool {
	return s == "chan send" || s == "chan receive" || s == "select" || strings.HasPrefix(s, "chan send") ||
		strings.HasPrefix(s, "chan receive") || strings.HasPrefix(s, "sync.") || s == "semacquire"
}

// ErrLine extracts the line number an error carries ("<line>:<item>: <message>").
func ErrLine(err error) int {
	if err == nil {
		return 0
	}
	return ErrLineOf(err.Error())
}

// ErrLineItem splits an error text "<line>:<token>: <message>" into the line and the token the parser
// names: the token text (unquoted; "EOF" at the end of the input; "" after it), or "*" when the text in
// that place is not a token (the lexer's own message for an illegal character).  Line 0, "*" = no such form.
func ErrLineItem(text string) (int, string) {
	m := reLine.FindStringSubmatch(text)
	if m == nil {
		return 0, "*"
	}
	line := ErrLineOf(text)
	rest := text[len(m[0]):]
	switch {
	case strings.HasPrefix(rest, "EOF: "):
		return line, "EOF"
	case strings.HasPrefix(rest, ": "):
		return line, ""
	case strings.HasPrefix(rest, "\""):
		if q, err := strconv.QuotedPrefix(rest); err == nil {
			if s, err := strconv.Unquote(q); err == nil {
				return line, s
			}
		}
	}
	return line, "*"
}

// ErrLineOf is ErrLine on the error text.
func ErrLineOf(text string) int {
	m := reLine.FindStringSubmatch(text)
	if m == nil {
		return 0
	}
	n, e := strconv.Atoi(m[1])
	if e != nil || n < 0 || n > 1<<30 {
		return 0
	}
	return n
}

type parseResult struct {
	ll       gtab.LookupList
	err      error
	panicked bool
	msg      string
}

// RunParse calls builder.Parse under a watchdog and then looks for goroutines it left behind.
// A goroutine counts as leaked when it still has builder frames after the call has returned and
// it is blocked on a channel operation (nobody else holds its channel: it can never run again),
// or when it still exists after the settle time.
func RunParse(f *sfnt.Font, text string, watchdog, settle time.Duration) Outcome {
	base := runtime.NumGoroutine()
	done := make(chan parseResult, 1)
	go func() {
		var r parseResult
		defer func() {
			if x := recover(); x != nil {
				r.panicked = true
				r.msg = fmt.Sprint(x)
			}
			done <- r
		}()
		r.ll, r.err = builder.Parse(f, text)
	}()
	var out Outcome
	timer := time.NewTimer(watchdog)
	select {
	case r := <-done:
		timer.Stop()
		out.Returned = true
		out.Panicked = r.panicked
		out.PanicMsg = r.msg
		out.OK = !r.panicked && r.err == nil
		out.Lookups = r.ll
		if r.err != nil {
			out.Err = r.err.Error()
			out.Line = ErrLine(r.err)
		}
	case <-timer.C:
		// the caller is stuck; everything it holds stays behind
		for _, g := range builderGoroutines() {
			if !known[g.id] {
				known[g.id] = true
				out.Stacks = append(out.Stacks, g.text)
			}
		}
		return out
	}
	// settle: the lexer may still be on its way to close(l.items)
	start := time.Now()
	for spins := 0; ; spins++ {
		if runtime.NumGoroutine() <= base {
			return out
		}
		if spins < 30 {
			runtime.Gosched()
			continue
		}
		left := builderGoroutines()
		if len(left) == 0 {
			return out // the extra goroutine is not ours (runtime helper, exiting caller)
		}
		allBlocked := true
		for _, g := range left {
			if !blockedState(g.state) {
				allBlocked = false
			}
		}
		if allBlocked || time.Since(start) > settle {
			for _, g := range left {
				known[g.id] = true
				out.Stacks = append(out.Stacks, g.text)
			}
			out.Leaked = len(left)
			return out
		}
		time.Sleep(200 * time.Microsecond)
	}
}
