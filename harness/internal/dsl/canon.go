package dsl

import (
	"fmt"
	"sort"

	"seehuhn.de/go/sfnt/glyph"
	"seehuhn.de/go/sfnt/opentype/anchor"
	"seehuhn.de/go/sfnt/opentype/classdef"
	"seehuhn.de/go/sfnt/opentype/coverage"
	"seehuhn.de/go/sfnt/opentype/gtab"
)

// Canonical projection of a lookup list: what a lookup list *means*, independent of the
// choices an encoder is free to make (Gsub1_1 vs Gsub1_2 for the same mapping, nil vs all-zero
// value records, nil vs empty slices, order of map iteration).  Everything is rendered with
// sorted keys as nested arrays/objects of small integers and strings, so that TLC can compare
// two projections structurally (spec/DslTrace.tla).
//
// lookup:  {"typ": n, "flags": bits, "mfs": markFilteringSet, "subs": [sub ...]}
// sub:     {"k": kind, ...}; see the cases below.

type obj = map[string]any

func ints[T ~uint16 | ~int | ~int16](xs []T) []int {
	res := make([]int, len(xs))
	for i, x := range xs {
		res[i] = int(x)
	}
	return res
}

func covList(c coverage.Table) []int { return ints(c.Glyphs()) }
func setList(c coverage.Set) []int   { return ints(c.Glyphs()) }
func sortedKeys[V any](m map[glyph.ID]V) []glyph.ID {
	keys := make([]glyph.ID, 0, len(m))
	for k := range m {
		keys = append(keys, k)
	}
	sort.Slice(keys, func(i, j int) bool { return keys[i] < keys[j] })
	return keys
}

// coverage index consistency: a coverage table must number its glyphs 0..n-1 in glyph order.
func covOK(c coverage.Table) bool {
	for i, g := range c.Glyphs() {
		if c[g] != i {
			return false
		}
	}
	return true
}

func classPairs(c classdef.Table) [][]int {
	res := [][]int{}
	for _, g := range sortedKeys(c) {
		if c[g] != 0 {
			res = append(res, []int{int(g), int(c[g])})
		}
	}
	return res
}

func vr(v *gtab.GposValueRecord) []int {
	if v == nil {
		return []int{0, 0, 0, 0}
	}
	return []int{int(v.XPlacement), int(v.YPlacement), int(v.XAdvance), int(v.YAdvance)}
}

func vrDev(v *gtab.GposValueRecord) bool {
	return v != nil && (v.XPlacementDevOffs|v.YPlacementDevOffs|v.XAdvanceDevOffs|v.YAdvanceDevOffs) != 0
}

func pa(p *gtab.PairAdjust) []any {
	if p == nil {
		return []any{vr(nil), vr(nil)}
	}
	return []any{vr(p.First), vr(p.Second)}
}

func acts(a []gtab.SeqLookup) [][]int {
	res := [][]int{}
	for _, x := range a {
		res = append(res, []int{int(x.LookupListIndex), int(x.SequenceIndex)})
	}
	return res
}

func anch(a anchor.Table) []int { return []int{int(a.X), int(a.Y)} }

func sets(ss []coverage.Set) [][]int {
	res := [][]int{}
	for _, s := range ss {
		res = append(res, setList(s))
	}
	return res
}

// CanonSub projects one subtable.  The second result is a note about a representation
// problem (coverage indices out of order, device offsets) that the projection cannot show.
func CanonSub(st gtab.Subtable) (obj, string) {
	note := ""
	bad := func(c coverage.Table) {
		if !covOK(c) {
			note = "coverage indices not in glyph order"
		}
	}
	switch l := st.(type) {
	case *gtab.Gsub1_1:
		m := [][]int{}
		for _, g := range l.Cov.Glyphs() {
			m = append(m, []int{int(g), int(g + l.Delta)})
		}
		return obj{"k": "single", "map": m}, note
	case *gtab.Gsub1_2:
		bad(l.Cov)
		m := [][]int{}
		for _, g := range l.Cov.Glyphs() {
			m = append(m, []int{int(g), int(l.SubstituteGlyphIDs[l.Cov[g]])})
		}
		return obj{"k": "single", "map": m}, note
	case *gtab.Gsub2_1:
		bad(l.Cov)
		m := []any{}
		for _, g := range l.Cov.Glyphs() {
			m = append(m, []any{int(g), ints(l.Repl[l.Cov[g]])})
		}
		return obj{"k": "multiple", "map": m}, note
	case *gtab.Gsub3_1:
		bad(l.Cov)
		m := []any{}
		for _, g := range l.Cov.Glyphs() {
			m = append(m, []any{int(g), ints(l.Alternates[l.Cov[g]])})
		}
		return obj{"k": "alternate", "map": m}, note
	case *gtab.Gsub4_1:
		bad(l.Cov)
		m := []any{}
		for _, g := range l.Cov.Glyphs() {
			ligs := []any{}
			for _, lig := range l.Repl[l.Cov[g]] {
				ligs = append(ligs, []any{ints(lig.In), int(lig.Out)})
			}
			m = append(m, []any{int(g), ligs})
		}
		return obj{"k": "ligature", "map": m}, note
	case *gtab.SeqContext1:
		bad(l.Cov)
		m := []any{}
		for _, g := range l.Cov.Glyphs() {
			rules := []any{}
			for _, r := range l.Rules[l.Cov[g]] {
				rules = append(rules, obj{"in": ints(r.Input), "act": acts(r.Actions)})
			}
			m = append(m, []any{int(g), rules})
		}
		return obj{"k": "ctx1", "map": m}, note
	case *gtab.SeqContext2:
		rr := []any{}
		for _, rules := range l.Rules {
			x := []any{}
			for _, r := range rules {
				x = append(x, obj{"in": ints(r.Input), "act": acts(r.Actions)})
			}
			rr = append(rr, x)
		}
		return obj{"k": "ctx2", "cov": covList(l.Cov), "cls": classPairs(l.Input), "rules": rr}, note
	case *gtab.SeqContext3:
		return obj{"k": "ctx3", "in": sets(l.Input), "act": acts(l.Actions)}, note
	case *gtab.ChainedSeqContext1:
		bad(l.Cov)
		m := []any{}
		for _, g := range l.Cov.Glyphs() {
			rules := []any{}
			for _, r := range l.Rules[l.Cov[g]] {
				rules = append(rules, obj{"back": ints(r.Backtrack), "in": ints(r.Input),
					"ahead": ints(r.Lookahead), "act": acts(r.Actions)})
			}
			m = append(m, []any{int(g), rules})
		}
		return obj{"k": "cc1", "map": m}, note
	case *gtab.ChainedSeqContext2:
		rr := []any{}
		for _, rules := range l.Rules {
			x := []any{}
			for _, r := range rules {
				x = append(x, obj{"back": ints(r.Backtrack), "in": ints(r.Input),
					"ahead": ints(r.Lookahead), "act": acts(r.Actions)})
			}
			rr = append(rr, x)
		}
		return obj{"k": "cc2", "cov": covList(l.Cov), "bcls": classPairs(l.Backtrack),
			"cls": classPairs(l.Input), "acls": classPairs(l.Lookahead), "rules": rr}, note
	case *gtab.ChainedSeqContext3:
		return obj{"k": "cc3", "back": sets(l.Backtrack), "in": sets(l.Input),
			"ahead": sets(l.Lookahead), "act": acts(l.Actions)}, note
	case *gtab.Gpos1_1:
		if vrDev(l.Adjust) {
			note = "device offsets"
		}
		return obj{"k": "pos1set", "cov": covList(l.Cov), "adj": vr(l.Adjust)}, note
	case *gtab.Gpos1_2:
		bad(l.Cov)
		m := []any{}
		for _, g := range l.Cov.Glyphs() {
			m = append(m, []any{int(g), vr(l.Adjust[l.Cov[g]])})
		}
		return obj{"k": "pos1each", "map": m}, note
	case gtab.Gpos2_1:
		pairs := make([]glyph.Pair, 0, len(l))
		for p := range l {
			pairs = append(pairs, p)
		}
		sort.Slice(pairs, func(i, j int) bool {
			if pairs[i].Left != pairs[j].Left {
				return pairs[i].Left < pairs[j].Left
			}
			return pairs[i].Right < pairs[j].Right
		})
		m := []any{}
		for _, p := range pairs {
			m = append(m, []any{int(p.Left), int(p.Right), pa(l[p])})
		}
		return obj{"k": "pair", "map": m}, note
	case *gtab.Gpos2_2:
		rows := []any{}
		for _, row := range l.Adjust {
			x := []any{}
			for _, p := range row {
				x = append(x, pa(p))
			}
			rows = append(rows, x)
		}
		return obj{"k": "pairclass", "cov": setList(l.Cov), "c1": classPairs(l.Class1),
			"c2": classPairs(l.Class2), "adj": rows}, note
	case *gtab.Gpos3_1:
		bad(l.Cov)
		m := []any{}
		for _, g := range l.Cov.Glyphs() {
			r := l.Records[l.Cov[g]]
			m = append(m, []any{int(g), anch(r.Entry), anch(r.Exit)})
		}
		return obj{"k": "cursive", "map": m}, note
	case *gtab.Gpos4_1:
		bad(l.MarkCov)
		bad(l.BaseCov)
		marks := []any{}
		for _, g := range l.MarkCov.Glyphs() {
			r := l.MarkArray[l.MarkCov[g]]
			marks = append(marks, []any{int(g), int(r.Class), anch(r.Table)})
		}
		bases := []any{}
		for _, g := range l.BaseCov.Glyphs() {
			aa := [][]int{}
			for _, a := range l.BaseArray[l.BaseCov[g]] {
				aa = append(aa, anch(a))
			}
			bases = append(bases, []any{int(g), aa})
		}
		return obj{"k": "markbase", "marks": marks, "bases": bases}, note
	default:
		return obj{"k": fmt.Sprintf("other:%T", st)}, note
	}
}

// Formats lists, per lookup and subtable, the format number of those subtables whose alternative
// formats the projection identifies (Gsub1_1 = 1, Gsub1_2 = 2); 0 for all others, whose formats are
// distinct kinds of the projection already.
func Formats(ll gtab.LookupList) [][]int {
	res := [][]int{}
	for _, l := range ll {
		ff := []int{}
		for _, st := range l.Subtables {
			switch st.(type) {
			case *gtab.Gsub1_1:
				ff = append(ff, 1)
			case *gtab.Gsub1_2:
				ff = append(ff, 2)
			default:
				ff = append(ff, 0)
			}
		}
		res = append(res, ff)
	}
	return res
}

// CovIndices lists, per lookup and subtable, the coverage indices of every coverage table of the
// subtable in glyph order (a well-formed table numbers its glyphs 0, 1, 2, ... in increasing glyph order);
// the glyph lists of the projection do not show them.
func CovIndices(ll gtab.LookupList) [][][][]int {
	idx := func(c coverage.Table) []int {
		res := []int{}
		for _, g := range c.Glyphs() {
			res = append(res, c[g])
		}
		return res
	}
	res := [][][][]int{}
	for _, l := range ll {
		per := [][][]int{}
		for _, st := range l.Subtables {
			tt := [][]int{}
			switch t := st.(type) {
			case *gtab.Gsub1_2:
				tt = append(tt, idx(t.Cov))
			case *gtab.Gsub2_1:
				tt = append(tt, idx(t.Cov))
			case *gtab.Gsub3_1:
				tt = append(tt, idx(t.Cov))
			case *gtab.Gsub4_1:
				tt = append(tt, idx(t.Cov))
			case *gtab.SeqContext1:
				tt = append(tt, idx(t.Cov))
			case *gtab.SeqContext2:
				tt = append(tt, idx(t.Cov))
			case *gtab.ChainedSeqContext1:
				tt = append(tt, idx(t.Cov))
			case *gtab.ChainedSeqContext2:
				tt = append(tt, idx(t.Cov))
			case *gtab.Gpos1_1:
				tt = append(tt, idx(t.Cov))
			case *gtab.Gpos1_2:
				tt = append(tt, idx(t.Cov))
			case *gtab.Gpos3_1:
				tt = append(tt, idx(t.Cov))
			case *gtab.Gpos4_1:
				tt = append(tt, idx(t.MarkCov), idx(t.BaseCov))
			}
			per = append(per, tt)
		}
		res = append(res, per)
	}
	return res
}

// Canon projects a lookup list.  A panic inside the projection (index out of range in an
// inconsistent table) is reported in the note, not propagated.
func Canon(ll gtab.LookupList) (res []any, note string) {
	defer func() {
		if r := recover(); r != nil {
			res = []any{obj{"typ": -1, "flags": 0, "mfs": 0, "subs": []any{}}}
			note = fmt.Sprint("inconsistent lookup list: ", r)
		}
	}()
	res = []any{}
	for _, l := range ll {
		subs := []any{}
		for _, st := range l.Subtables {
			s, n := CanonSub(st)
			if n != "" {
				note = n
			}
			subs = append(subs, s)
		}
		o := obj{"typ": -1, "flags": 0, "mfs": 0, "subs": subs}
		if l.Meta != nil {
			o["typ"] = int(l.Meta.LookupType)
			o["flags"] = int(l.Meta.LookupFlags)
			o["mfs"] = int(l.Meta.MarkFilteringSet)
		}
		res = append(res, o)
	}
	return res, note
}
