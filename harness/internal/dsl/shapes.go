package dsl

import (
	"encoding/json"
	"fmt"
	"hash/fnv"
	"math/rand"
	"sort"

	"seehuhn.de/go/postscript/funit"

	"seehuhn.de/go/sfnt/glyph"
	"seehuhn.de/go/sfnt/opentype/anchor"
	"seehuhn.de/go/sfnt/opentype/classdef"
	"seehuhn.de/go/sfnt/opentype/coverage"
	"seehuhn.de/go/sfnt/opentype/gtab"
	"seehuhn.de/go/sfnt/opentype/markarray"
)

// Shape is a lookup-list shape as enumerated by TLC from spec/Dsl.tla.  The meaning of the
// parameters a..e depends on the form (see Dsl.tla); the harness only chooses glyph ids and
// numbers, deterministically from (shape, seed).
type Shape struct {
	Font  string   `json:"font"`
	Tab   string   `json:"tab"`   // GSUB | GPOS
	Typ   int      `json:"typ"`   // lookup type
	Flags []string `json:"flags"` // subset of marks, ligs, base
	Forms []string `json:"forms"` // one form per subtable
	A     int      `json:"a"`
	B     int      `json:"b"`
	C     int      `json:"c"`
	D     int      `json:"d"`
	E     int      `json:"e"`
	Lst   string   `json:"lst"` // single | middle (a filler lookup before and after)
}

// Key is a stable identification of the shape.
func (s Shape) Key() string {
	b, _ := json.Marshal(s)
	return string(b)
}

func (s Shape) rng(seed int64) *rand.Rand {
	h := fnv.New64a()
	h.Write([]byte(s.Key()))
	return rand.New(rand.NewSource(int64(h.Sum64()>>1) ^ seed*7919))
}

// FlagBits maps the flag names of the language to OpenType lookup flags.
func FlagBits(names []string) gtab.LookupFlags {
	var f gtab.LookupFlags
	for _, n := range names {
		switch n {
		case "marks":
			f |= gtab.IgnoreMarks
		case "ligs":
			f |= gtab.IgnoreLigatures
		case "base":
			f |= gtab.IgnoreBaseGlyphs
		default:
			panic("unknown flag " + n)
		}
	}
	return f
}

type inst struct {
	r *rand.Rand
}

func (in *inst) gid() glyph.ID { return glyph.ID(1 + in.r.Intn(MaxUsed)) }

// distinct returns k distinct glyphs in increasing order.
func (in *inst) distinct(k int) []glyph.ID {
	seen := map[glyph.ID]bool{}
	for len(seen) < k {
		seen[in.gid()] = true
	}
	res := make([]glyph.ID, 0, k)
	for g := range seen {
		res = append(res, g)
	}
	sort.Slice(res, func(i, j int) bool { return res[i] < res[j] })
	return res
}

func (in *inst) list(k int) []glyph.ID {
	res := make([]glyph.ID, k)
	for i := range res {
		res[i] = in.gid()
	}
	return res
}

func (in *inst) set(k int) coverage.Set {
	s := coverage.Set{}
	for _, g := range in.distinct(k) {
		s[g] = true
	}
	return s
}

// cov builds the coverage table of the sorted glyphs gg; the map is filled in random order (the
// iteration order of small Go maps depends on the insertion order).
func (in *inst) cov(gg []glyph.ID) coverage.Table {
	c := coverage.Table{}
	for _, i := range in.r.Perm(len(gg)) {
		c[gg[i]] = i
	}
	return c
}

// Deltas are the glyph id differences of the "rund" form (index = parameter b).
var Deltas = []int{-1, -255, -256, -257, 255, 256, -500, 1}

var vals = []int{-32768, -1000, -50, -1, 1, 7, 120, 999, 32767}

func (in *inst) val() funit.Int16 { return funit.Int16(vals[in.r.Intn(len(vals))]) }
func (in *inst) coord() funit.Int16 {
	if in.r.Intn(4) == 0 {
		return 0
	}
	return in.val()
}

// vr builds a value record with the fields of mask set (1 = x, 2 = y, 4 = dx); 0 = nil.
func (in *inst) vr(mask int) *gtab.GposValueRecord {
	if mask == 0 {
		return nil
	}
	v := &gtab.GposValueRecord{}
	if mask&1 != 0 {
		v.XPlacement = in.val()
	}
	if mask&2 != 0 {
		v.YPlacement = in.val()
	}
	if mask&4 != 0 {
		v.XAdvance = in.val()
	}
	return v
}

func (in *inst) actions(n, inputLen int) []gtab.SeqLookup {
	var res []gtab.SeqLookup
	for i := 0; i < n; i++ {
		res = append(res, gtab.SeqLookup{
			SequenceIndex:   uint16(in.r.Intn(inputLen)),
			LookupListIndex: gtab.LookupIndex(in.r.Intn(7)),
		})
	}
	return res
}

// classes builds a class table with exactly n non-zero classes (all used) and returns it.
func (in *inst) classes(n int) classdef.Table {
	c := classdef.Table{}
	if n == 0 {
		return c
	}
	gg := in.distinct(n + in.r.Intn(3))
	for i, g := range gg {
		c[g] = uint16(i%n) + 1
	}
	return c
}

func (in *inst) classSeq(k, n int) []uint16 {
	res := make([]uint16, k)
	for i := range res {
		res[i] = uint16(in.r.Intn(n + 1))
	}
	return res
}

func (in *inst) sets(k int) []coverage.Set {
	res := make([]coverage.Set, k)
	for i := range res {
		res[i] = in.set(1 + in.r.Intn(3))
	}
	return res
}

// firsts is the number of distinct first glyphs for a rules: for large a more than 12 rules
// share a first glyph.
func (in *inst) firsts(a int) int {
	if a >= 13 {
		return a / 13
	}
	return 1 + in.r.Intn(a)
}

// subtable instantiates one subtable form.
func (in *inst) subtable(s *Shape, form string) gtab.Subtable {
	a, b, c, d, e := s.A, s.B, s.C, s.D, s.E
	switch form {
	case "run": // a consecutive glyphs with a constant non-zero delta
		start := 1 + in.r.Intn(MaxUsed-a)
		var delta int
		for delta == 0 || start+delta < 1 || start+a-1+delta > MaxUsed {
			delta = in.r.Intn(2*MaxUsed) - MaxUsed
		}
		if in.r.Intn(2) == 0 {
			cov := coverage.Set{}
			for i := 0; i < a; i++ {
				cov[glyph.ID(start+i)] = true
			}
			return &gtab.Gsub1_1{Cov: cov, Delta: glyph.ID(delta)}
		}
		var from, to []glyph.ID
		for i := 0; i < a; i++ {
			from = append(from, glyph.ID(start+i))
			to = append(to, glyph.ID(start+i+delta))
		}
		return &gtab.Gsub1_2{Cov: in.cov(from), SubstituteGlyphIDs: to}
	case "rund": // Gsub1_1 with a glyphs (not consecutive) and the constant delta Deltas[b] (fonts L, Lx)
		delta := Deltas[b]
		lo, hi := 1, LargeGlyphs-1
		if delta < 0 {
			lo = 1 - delta
		} else {
			hi = LargeGlyphs - 1 - delta
		}
		cov := coverage.Set{}
		for len(cov) < a {
			cov[glyph.ID(lo+in.r.Intn(hi-lo+1))] = true
		}
		return &gtab.Gsub1_1{Cov: cov, Delta: glyph.ID(delta)} // negative deltas wrap modulo 65536
	case "map": // a glyphs, no constant delta
		from := in.distinct(a)
		for {
			to := in.list(a)
			cd := true
			for i := range to {
				if to[i]-from[i] != to[0]-from[0] {
					cd = false
				}
			}
			if !cd {
				return &gtab.Gsub1_2{Cov: in.cov(from), SubstituteGlyphIDs: to}
			}
		}
	case "mult":
		from := in.distinct(a)
		repl := make([][]glyph.ID, a)
		for i := range repl {
			repl[i] = in.list(b)
		}
		return &gtab.Gsub2_1{Cov: in.cov(from), Repl: repl}
	case "alt":
		from := in.distinct(a)
		alts := make([][]glyph.ID, a)
		for i := range alts {
			alts[i] = in.distinct(b)
			if b == 0 {
				alts[i] = []glyph.ID{}
			}
		}
		return &gtab.Gsub3_1{Cov: in.cov(from), Alternates: alts}
	case "lig": // a first glyphs, b ligatures each, c components
		from := in.distinct(a)
		repl := make([][]gtab.Ligature, a)
		for i := range repl {
			n := b
			if c == 1 {
				n = 1
			}
			for j := 0; j < n; j++ {
				repl[i] = append(repl[i], gtab.Ligature{In: in.list(c - 1), Out: in.gid()})
			}
		}
		return &gtab.Gsub4_1{Cov: in.cov(from), Repl: repl}
	case "ligrun": // a consecutive one-component ligatures with a constant delta
		start := 1 + in.r.Intn(MaxUsed-a-1)
		delta := 1
		var from []glyph.ID
		repl := make([][]gtab.Ligature, a)
		for i := 0; i < a; i++ {
			from = append(from, glyph.ID(start+i))
			repl[i] = []gtab.Ligature{{In: nil, Out: glyph.ID(start + i + delta)}}
		}
		return &gtab.Gsub4_1{Cov: in.cov(from), Repl: repl}
	case "ctx1": // a rules, input length b, c actions
		firsts := in.distinct(in.firsts(a))
		rules := make([][]*gtab.SeqRule, len(firsts))
		for i := 0; i < a; i++ {
			k := i % len(firsts)
			rules[k] = append(rules[k], &gtab.SeqRule{Input: in.list(b - 1), Actions: in.actions(c, b)})
		}
		return &gtab.SeqContext1{Cov: in.cov(firsts), Rules: rules}
	case "ctx2": // d classes, a rules, input length b, c actions
		cls := in.classes(d)
		rules := make([][]*gtab.ClassSeqRule, d+1)
		for i := 0; i < a; i++ {
			k := in.r.Intn(d + 1)
			rules[k] = append(rules[k], &gtab.ClassSeqRule{Input: in.classSeq(b-1, d), Actions: in.actions(c, b)})
		}
		return &gtab.SeqContext2{Cov: in.cov(in.distinct(1 + in.r.Intn(3))), Input: cls, Rules: rules}
	case "ctx3": // input length b, c actions
		return &gtab.SeqContext3{Input: in.sets(b), Actions: in.actions(c, b)}
	case "cc1": // a rules, backtrack d, input b, lookahead e, c actions
		firsts := in.distinct(in.firsts(a))
		rules := make([][]*gtab.ChainedSeqRule, len(firsts))
		for i := 0; i < a; i++ {
			k := i % len(firsts)
			rules[k] = append(rules[k], &gtab.ChainedSeqRule{Backtrack: in.list(d), Input: in.list(b - 1),
				Lookahead: in.list(e), Actions: in.actions(c, b)})
		}
		return &gtab.ChainedSeqContext1{Cov: in.cov(firsts), Rules: rules}
	case "cc2":
		nb, ni, na := in.r.Intn(3), 1+in.r.Intn(2), in.r.Intn(3)
		if d == 0 {
			nb = 0
		}
		if e == 0 {
			na = 0
		}
		rules := make([][]*gtab.ChainedClassSeqRule, ni+1)
		for i := 0; i < a; i++ {
			k := in.r.Intn(ni + 1)
			rules[k] = append(rules[k], &gtab.ChainedClassSeqRule{Backtrack: in.classSeq(d, nb),
				Input: in.classSeq(b-1, ni), Lookahead: in.classSeq(e, na), Actions: in.actions(c, b)})
		}
		return &gtab.ChainedSeqContext2{Cov: in.cov(in.distinct(1 + in.r.Intn(3))), Backtrack: in.classes(nb),
			Input: in.classes(ni), Lookahead: in.classes(na), Rules: rules}
	case "cc3":
		return &gtab.ChainedSeqContext3{Backtrack: in.sets(d), Input: in.sets(b), Lookahead: in.sets(e),
			Actions: in.actions(c, b)}
	case "pos1set": // a glyphs, value record mask b
		return &gtab.Gpos1_1{Cov: in.cov(in.distinct(a)), Adjust: in.vr(b)}
	case "pos1each":
		gg := in.distinct(a)
		adj := make([]*gtab.GposValueRecord, a)
		for i := range adj {
			adj[i] = in.vr(b)
		}
		return &gtab.Gpos1_2{Cov: in.cov(gg), Adjust: adj}
	case "pair": // a pairs, first mask b, second mask c (0 = absent)
		res := gtab.Gpos2_1{}
		lefts := in.distinct(in.firsts(a))
		for len(res) < a {
			l := in.gid()
			if a >= 13 { // many pairs share their first glyph
				l = lefts[in.r.Intn(len(lefts))]
			}
			res[glyph.Pair{Left: l, Right: in.gid()}] = &gtab.PairAdjust{First: in.vr(b), Second: in.vr(c)}
		}
		return res
	case "pairclass": // a first classes, d second classes, masks b and c
		c1, c2 := in.classes(a), in.classes(d)
		cov := coverage.Set{}
		for g := range c1 {
			cov[g] = true
		}
		for _, g := range in.distinct(1 + in.r.Intn(2)) {
			cov[g] = true
		}
		adj := make([][]*gtab.PairAdjust, a+1)
		for i := range adj {
			for j := 0; j <= d; j++ {
				p := &gtab.PairAdjust{}
				if in.r.Intn(3) > 0 {
					p.First = in.vr(b)
					p.Second = in.vr(c)
				}
				adj[i] = append(adj[i], p)
			}
		}
		return &gtab.Gpos2_2{Cov: cov, Class1: c1, Class2: c2, Adjust: adj}
	case "curs": // a glyphs with entry and exit anchors
		gg := in.distinct(a)
		recs := make([]gtab.EntryExitRecord, a)
		for i := range recs {
			recs[i] = gtab.EntryExitRecord{Entry: anchor.Table{X: in.coord(), Y: in.coord()},
				Exit: anchor.Table{X: in.coord(), Y: in.coord()}}
		}
		return &gtab.Gpos3_1{Cov: in.cov(gg), Records: recs}
	case "markbase": // a marks in b classes (a >= b), c bases
		marks := in.distinct(a)
		ma := make([]markarray.Record, a)
		perm := in.r.Perm(a)
		for i := range ma {
			cl := perm[i] % b // every class 0..b-1 is used because a >= b
			ma[i] = markarray.Record{Class: uint16(cl), Table: anchor.Table{X: in.coord(), Y: in.coord()}}
		}
		bases := in.distinct(c)
		ba := make([][]anchor.Table, c)
		for i := range ba {
			for j := 0; j < b; j++ {
				ba[i] = append(ba[i], anchor.Table{X: in.coord(), Y: in.coord()})
			}
		}
		return &gtab.Gpos4_1{MarkCov: in.cov(marks), BaseCov: in.cov(bases), MarkArray: ma, BaseArray: ba}
	}
	panic(fmt.Sprintf("unknown form %q", form))
}

// Instantiate builds the lookup list of a shape.
func Instantiate(s *Shape, seed int64) gtab.LookupList {
	in := &inst{r: s.rng(seed)}
	l := &gtab.LookupTable{Meta: &gtab.LookupMetaInfo{LookupType: uint16(s.Typ), LookupFlags: FlagBits(s.Flags)}}
	for _, f := range s.Forms {
		l.Subtables = append(l.Subtables, in.subtable(s, f))
	}
	if s.Lst == "single" {
		return gtab.LookupList{l}
	}
	return gtab.LookupList{filler(s.Tab, 2), l, filler(s.Tab, 5)}
}

// filler is a small fixed lookup placed before and after the lookup under test.
func filler(tab string, g glyph.ID) *gtab.LookupTable {
	if tab == "GSUB" {
		return &gtab.LookupTable{Meta: &gtab.LookupMetaInfo{LookupType: 1},
			Subtables: []gtab.Subtable{&gtab.Gsub1_1{Cov: coverage.Set{g: true}, Delta: 3}}}
	}
	return &gtab.LookupTable{Meta: &gtab.LookupMetaInfo{LookupType: 1},
		Subtables: []gtab.Subtable{&gtab.Gpos1_1{Cov: coverage.Table{g: 0}, Adjust: &gtab.GposValueRecord{XAdvance: 5}}}}
}
