// Package t2 holds the helpers shared by the C05 and C04 harnesses: the token form of Type 2
// charstrings exchanged with TLC, a byte encoder for tokens, a minimal CFF assembler and an
// independent structural CFF / charstring walker.  Nothing here interprets charstrings:
// meaning is computed by TLC only (spec/Type2.tla).
package t2

import (
	"encoding/json"
	"fmt"
	"math/rand"
)

// Token is one charstring token: a number (in units of 1/Unit) or an operator; mask operators
// carry their data bytes.
type Token struct {
	IsNum bool
	V     int64
	Op    string
	Mask  []byte
}

// UnmarshalJSON accepts the mixed form printed by Type2.tla: 12, "rlineto", ["hintmask",[1,2]].
func (t *Token) UnmarshalJSON(b []byte) error {
	if len(b) == 0 {
		return fmt.Errorf("empty token")
	}
	switch b[0] {
	case '"':
		return json.Unmarshal(b, &t.Op)
	case '[':
		var parts []json.RawMessage
		if err := json.Unmarshal(b, &parts); err != nil || len(parts) != 2 {
			return fmt.Errorf("bad mask token %s", b)
		}
		if err := json.Unmarshal(parts[0], &t.Op); err != nil {
			return err
		}
		var m []int
		if err := json.Unmarshal(parts[1], &m); err != nil {
			return err
		}
		t.Mask = make([]byte, len(m))
		for i, x := range m {
			t.Mask[i] = byte(x)
		}
		return nil
	default:
		t.IsNum = true
		return json.Unmarshal(b, &t.V)
	}
}

// MarshalJSON writes the same mixed form.
func (t Token) MarshalJSON() ([]byte, error) {
	if t.IsNum {
		return json.Marshal(t.V)
	}
	if t.Op == "hintmask" || t.Op == "cntrmask" {
		m := make([]int, len(t.Mask))
		for i, x := range t.Mask {
			m[i] = int(x)
		}
		return json.Marshal([]any{t.Op, m})
	}
	return json.Marshal(t.Op)
}

// Opcode maps operator names to their Type 2 encoding (TN5177 appendix A).
var Opcode = map[string][]byte{
	"hstem": {1}, "vstem": {3}, "vmoveto": {4}, "rlineto": {5}, "hlineto": {6}, "vlineto": {7},
	"rrcurveto": {8}, "callsubr": {10}, "return": {11}, "endchar": {14}, "hstemhm": {18},
	"hintmask": {19}, "cntrmask": {20}, "rmoveto": {21}, "hmoveto": {22}, "vstemhm": {23},
	"rcurveline": {24}, "rlinecurve": {25}, "vvcurveto": {26}, "hhcurveto": {27},
	"callgsubr": {29}, "vhcurveto": {30}, "hvcurveto": {31},
	"and": {12, 3}, "or": {12, 4}, "not": {12, 5}, "abs": {12, 9}, "add": {12, 10}, "sub": {12, 11},
	"div": {12, 12}, "neg": {12, 14}, "eq": {12, 15}, "drop": {12, 18}, "put": {12, 20},
	"get": {12, 21}, "ifelse": {12, 22}, "random": {12, 23}, "mul": {12, 24}, "sqrt": {12, 26},
	"dup": {12, 27}, "exch": {12, 28}, "index": {12, 29}, "roll": {12, 30},
	"hflex": {12, 34}, "flex": {12, 35}, "hflex1": {12, 36}, "flex1": {12, 37},
}

// OpName is the inverse of Opcode (two-byte operators are keyed 0x0c00|b).
var OpName = map[int]string{}

func init() {
	for name, code := range Opcode {
		if len(code) == 1 {
			OpName[int(code[0])] = name
		} else {
			OpName[0x0c00|int(code[1])] = name
		}
	}
}

// EncodeNumber encodes v/unit.  Integers have up to three legal encodings (shortest form,
// the three-byte form 28, the 16.16 form 255); rng == nil picks the shortest one.
func EncodeNumber(v, unit int64, rng *rand.Rand) []byte {
	fixed := func() []byte {
		x := int32(v * (65536 / unit))
		return []byte{255, byte(x >> 24), byte(x >> 16), byte(x >> 8), byte(x)}
	}
	if v%unit != 0 {
		return fixed()
	}
	n := v / unit
	if n < -32768 || n > 32767 {
		return fixed()
	}
	choice := 0
	if rng != nil {
		switch r := rng.Intn(10); {
		case r == 0:
			choice = 1
		case r == 1:
			choice = 2
		}
	}
	switch {
	case choice == 2:
		return fixed()
	case choice == 1:
		return []byte{28, byte(n >> 8), byte(n)}
	case n >= -107 && n <= 107:
		return []byte{byte(n + 139)}
	case n >= 108 && n <= 1131:
		n -= 108
		return []byte{byte(n>>8) + 247, byte(n)}
	case n >= -1131 && n <= -108:
		n = -n - 108
		return []byte{byte(n>>8) + 251, byte(n)}
	default:
		return []byte{28, byte(n >> 8), byte(n)}
	}
}

// EncodeTokens turns tokens into charstring bytes.
func EncodeTokens(toks []Token, unit int64, rng *rand.Rand) ([]byte, error) {
	var out []byte
	for _, t := range toks {
		if t.IsNum {
			out = append(out, EncodeNumber(t.V, unit, rng)...)
			continue
		}
		code, ok := Opcode[t.Op]
		if !ok {
			return nil, fmt.Errorf("unknown operator %q", t.Op)
		}
		out = append(out, code...)
		out = append(out, t.Mask...)
	}
	return out, nil
}
