package t2

import (
	"strconv"
	"strings"
)

// Index encodes a CFF INDEX (TN5176 section 5) with the smallest offset size, or the given one.
func Index(items [][]byte, offSize int) []byte {
	if len(items) == 0 {
		return []byte{0, 0}
	}
	body := 0
	for _, it := range items {
		body += len(it)
	}
	min := 1
	for body+1 >= 1<<(8*min) {
		min++
	}
	if offSize < min {
		offSize = min
	}
	buf := make([]byte, 0, 3+(len(items)+1)*offSize+body)
	buf = append(buf, byte(len(items)>>8), byte(len(items)), byte(offSize))
	put := func(o int) {
		for j := offSize - 1; j >= 0; j-- {
			buf = append(buf, byte(o>>(8*j)))
		}
	}
	off := 1
	put(off)
	for _, it := range items {
		off += len(it)
		put(off)
	}
	for _, it := range items {
		buf = append(buf, it...)
	}
	return buf
}

// DictInt5 is the fixed-width (5 byte) DICT integer, used for offsets.
func DictInt5(x int) []byte { return []byte{29, byte(x >> 24), byte(x >> 16), byte(x >> 8), byte(x)} }

// DictInt is the shortest DICT integer encoding.
func DictInt(n int) []byte {
	switch {
	case n >= -107 && n <= 107:
		return []byte{byte(n + 139)}
	case n >= 108 && n <= 1131:
		n -= 108
		return []byte{byte(n>>8) + 247, byte(n)}
	case n >= -1131 && n <= -108:
		n = -n - 108
		return []byte{byte(n>>8) + 251, byte(n)}
	case n >= -32768 && n <= 32767:
		return []byte{28, byte(n >> 8), byte(n)}
	default:
		return DictInt5(n)
	}
}

// DictReal encodes a decimal string as a DICT real (operator 30, BCD nibbles).
func DictReal(s string) []byte {
	var nib []byte
	for i := 0; i < len(s); i++ {
		switch c := s[i]; {
		case c >= '0' && c <= '9':
			nib = append(nib, c-'0')
		case c == '.':
			nib = append(nib, 0xa)
		case c == '-':
			nib = append(nib, 0xe)
		case c == 'E' || c == 'e':
			if i+1 < len(s) && s[i+1] == '-' {
				nib = append(nib, 0xc)
				i++
			} else {
				nib = append(nib, 0xb)
			}
		}
	}
	nib = append(nib, 0xf)
	if len(nib)%2 == 1 {
		nib = append(nib, 0xf)
	}
	out := []byte{30}
	for i := 0; i < len(nib); i += 2 {
		out = append(out, nib[i]<<4|nib[i+1])
	}
	return out
}

// DictNumberForm encodes v/unit as a DICT operand in one of its legal forms: 0 shortest integer,
// 1 three-byte integer (28), 2 five-byte integer (29), 3 real with a fraction digit ("500.0"),
// 4 real ending in the decimal point ("500."), 5 real with exponent ("5E2" style).  Forms that
// cannot represent the value fall back: fractions are always reals, wide integers use form 2.
func DictNumberForm(v, unit int64, form int) []byte {
	if v%unit != 0 {
		return DictNumber(v, unit, true)
	}
	n := int(v / unit)
	switch form {
	case 1:
		if n >= -32768 && n <= 32767 {
			return []byte{28, byte(n >> 8), byte(n)}
		}
		return DictInt5(n)
	case 2:
		return DictInt5(n)
	case 3:
		return DictReal(strconv.Itoa(n) + ".0")
	case 4:
		return DictReal(strconv.Itoa(n) + ".")
	case 5:
		e := 0
		m := n
		for m != 0 && m%10 == 0 {
			m /= 10
			e++
		}
		if e == 0 {
			return DictReal(strconv.Itoa(n*10) + "E-1")
		}
		return DictReal(strconv.Itoa(m) + "E" + strconv.Itoa(e))
	default:
		return DictInt(n)
	}
}

// DictNumber encodes v/unit as a DICT operand: an integer when whole (asReal forces a real).
func DictNumber(v, unit int64, asReal bool) []byte {
	if v%unit == 0 && !asReal {
		return DictInt(int(v / unit))
	}
	s := strconv.FormatFloat(float64(v)/float64(unit), 'f', -1, 64)
	if !strings.Contains(s, ".") {
		s += ".0"
	}
	return DictReal(s)
}

// FD is one Private DICT with its local subroutines.
type FD struct {
	Subrs      [][]byte
	EmptySubrs bool   // with no subroutines: still write the Subrs key and an empty INDEX
	DW, NW     []byte // encoded operands of defaultWidthX / nominalWidthX (nil: absent)
}

// Font describes the CFF file to assemble.
type Font struct {
	CharStrings [][]byte
	GSubrs      [][]byte
	FDs         []FD  // one entry and CID == false: simple font
	CID         bool  // CID-keyed: FDArray + FDSelect
	FDSelect    []int // per glyph (CID only)
	FDSelect3   bool  // use FDSelect format 3
	WideIndex   bool  // use 4-byte offsets in the subroutine INDEXes
	HdrSize     int   // header size (0 = 4); bytes beyond the fourth are padding
	HdrOffSize  int   // the offSize field of the header (0 = 4); any of 1..4 is legal
	TopPerm     int   // order of the Top DICT operators (ROS stays first, TN5176 section 18)
}

func (f *FD) private(subrsOff int) []byte {
	var d []byte
	if f.DW != nil {
		d = append(d, f.DW...)
		d = append(d, 20)
	}
	if f.NW != nil {
		d = append(d, f.NW...)
		d = append(d, 21)
	}
	if len(f.Subrs) > 0 || f.EmptySubrs {
		d = append(d, DictInt5(subrsOff)...)
		d = append(d, 19)
	}
	return d
}

// Assemble lays out a CFF file: header, Name INDEX, Top DICT INDEX, String INDEX, Global Subr
// INDEX, [charset, FDSelect], CharStrings INDEX, [Font DICT INDEX], Private DICTs each followed
// by its local Subr INDEX.  Offsets use the fixed-width integer form, so one pass suffices.
func Assemble(f *Font) []byte {
	offSize := 0
	if f.WideIndex {
		offSize = 4
	}
	hdrSize, hdrOff := 4, 4
	if f.HdrSize > 4 {
		hdrSize = f.HdrSize
	}
	if f.HdrOffSize >= 1 && f.HdrOffSize <= 4 {
		hdrOff = f.HdrOffSize
	}
	header := []byte{1, 0, byte(hdrSize), byte(hdrOff)}
	for len(header) < hdrSize {
		header = append(header, 0xA5)
	}
	name := Index([][]byte{[]byte("Probe")}, 0)
	var strs []byte
	if f.CID {
		strs = Index([][]byte{[]byte("Adobe"), []byte("Identity")}, 0)
	} else {
		strs = Index(nil, 0)
	}
	gsubrs := Index(f.GSubrs, offSize)
	cs := Index(f.CharStrings, 0)
	n := len(f.CharStrings)

	var charset, fdsel []byte
	if f.CID {
		charset = []byte{0}
		for g := 1; g < n; g++ {
			charset = append(charset, byte(g>>8), byte(g))
		}
		if f.FDSelect3 {
			fdsel = []byte{3}
			var ranges []byte
			cnt := 0
			for g := 0; g < n; g++ {
				if g == 0 || f.FDSelect[g] != f.FDSelect[g-1] {
					ranges = append(ranges, byte(g>>8), byte(g), byte(f.FDSelect[g]))
					cnt++
				}
			}
			fdsel = append(fdsel, byte(cnt>>8), byte(cnt))
			fdsel = append(fdsel, ranges...)
			fdsel = append(fdsel, byte(n>>8), byte(n))
		} else {
			fdsel = []byte{0}
			for g := 0; g < n; g++ {
				fdsel = append(fdsel, byte(f.FDSelect[g]))
			}
		}
	}

	// private dicts and their subrs
	privs := make([][]byte, len(f.FDs))
	subrs := make([][]byte, len(f.FDs))
	for i := range f.FDs {
		privs[i] = f.FDs[i].private(0)
		if len(f.FDs[i].Subrs) > 0 || f.FDs[i].EmptySubrs {
			subrs[i] = Index(f.FDs[i].Subrs, offSize)
		}
		privs[i] = f.FDs[i].private(len(privs[i])) // Subrs offset is relative to the Private DICT
	}

	topLen := 0
	if f.CID {
		topLen = len(DictInt(391)) + len(DictInt(392)) + 1 + 2 // ROS
		topLen += 3 * 5                                        // charset, FDSelect, FDArray offsets
		topLen += 1 + 2 + 2                                    // operators 15, 12 37, 12 36
		topLen += 5 + 1                                        // CharStrings
	} else {
		topLen = 5 + 1 + 5 + 5 + 1
	}
	topIndexLen := 2 + 1 + 2 + topLen // count, offSize 1, two offsets
	if topLen+1 >= 256 {
		panic("top dict too long")
	}
	pos := len(header) + len(name) + topIndexLen + len(strs) + len(gsubrs)
	charsetOff, fdselOff := 0, 0
	if f.CID {
		charsetOff = pos
		pos += len(charset)
		fdselOff = pos
		pos += len(fdsel)
	}
	csOff := pos
	pos += len(cs)

	var fdarray []byte
	fdarrayOff := 0
	privOff := make([]int, len(f.FDs))
	if f.CID {
		fdarrayOff = pos
		// each font dict: size(5) off(5) 18
		fdLen := 11
		fdIndexLen := 2 + 1 + (len(f.FDs) + 1) + fdLen*len(f.FDs)
		if fdLen*len(f.FDs)+1 >= 256 {
			panic("too many FDs for this assembler")
		}
		p := pos + fdIndexLen
		var dicts [][]byte
		for i := range f.FDs {
			privOff[i] = p
			d := append(DictInt5(len(privs[i])), DictInt5(p)...)
			d = append(d, 18)
			dicts = append(dicts, d)
			p += len(privs[i]) + len(subrs[i])
		}
		fdarray = Index(dicts, 0)
		if len(fdarray) != fdIndexLen {
			panic("FDArray size mismatch")
		}
		pos += fdIndexLen
	} else {
		privOff[0] = pos
	}

	var top []byte
	entry := func(op []byte, vals ...int) []byte {
		var e []byte
		for _, v := range vals {
			e = append(e, DictInt5(v)...)
		}
		return append(e, op...)
	}
	var entries [][]byte
	if f.CID {
		top = append(top, DictInt(391)...)
		top = append(top, DictInt(392)...)
		top = append(top, DictInt(0)...)
		top = append(top, 12, 30)
		entries = [][]byte{entry([]byte{15}, charsetOff), entry([]byte{12, 37}, fdselOff),
			entry([]byte{12, 36}, fdarrayOff), entry([]byte{17}, csOff)}
	} else {
		entries = [][]byte{entry([]byte{17}, csOff), entry([]byte{18}, len(privs[0]), privOff[0])}
	}
	// the operators of a DICT may come in any order: rotate and optionally reverse
	k := len(entries)
	perm := f.TopPerm
	if perm < 0 {
		perm = -perm
	}
	for i := 0; i < k; i++ {
		idx := (i + perm) % k
		if (perm/k)%2 == 1 {
			idx = (k - 1 - i + perm) % k
		}
		top = append(top, entries[idx]...)
	}
	if len(top) != topLen {
		panic("top dict size mismatch")
	}
	topIndex := Index([][]byte{top}, 0)
	if len(topIndex) != topIndexLen {
		panic("top index size mismatch")
	}

	out := append([]byte{}, header...)
	out = append(out, name...)
	out = append(out, topIndex...)
	out = append(out, strs...)
	out = append(out, gsubrs...)
	out = append(out, charset...)
	out = append(out, fdsel...)
	out = append(out, cs...)
	out = append(out, fdarray...)
	for i := range f.FDs {
		out = append(out, privs[i]...)
		out = append(out, subrs[i]...)
	}
	out = append(out, 0, 0) // INDEX readers compare offsets with the file size
	return out
}
