package t2

import (
	"errors"
	"fmt"
	"math/big"
	"strings"
)

// Walked is what the structural walker extracts from a CFF file with one font.
type Walked struct {
	CharStrings [][]byte
	GSubrs      [][]byte
	Subrs       [][]byte
	DW, NW      *big.Rat // defaultWidthX, nominalWidthX of the (first) Private DICT
	CID         bool
}

type rd struct {
	b   []byte
	pos int
}

func (r *rd) u8() (int, error) {
	if r.pos >= len(r.b) {
		return 0, errors.New("walker: unexpected end of data")
	}
	r.pos++
	return int(r.b[r.pos-1]), nil
}

func (r *rd) uN(n int) (int, error) {
	v := 0
	for i := 0; i < n; i++ {
		x, err := r.u8()
		if err != nil {
			return 0, err
		}
		v = v<<8 | x
	}
	return v, nil
}

func (r *rd) index() ([][]byte, error) {
	count, err := r.uN(2)
	if err != nil || count == 0 {
		return nil, err
	}
	offSize, err := r.u8()
	if err != nil {
		return nil, err
	}
	if offSize < 1 || offSize > 4 {
		return nil, fmt.Errorf("walker: INDEX offSize %d", offSize)
	}
	offs := make([]int, count+1)
	for i := range offs {
		if offs[i], err = r.uN(offSize); err != nil {
			return nil, err
		}
		if offs[i] < 1 || (i > 0 && offs[i] < offs[i-1]) {
			return nil, errors.New("walker: INDEX offsets not increasing")
		}
	}
	if offs[0] != 1 {
		return nil, errors.New("walker: first INDEX offset is not 1")
	}
	base := r.pos - 1
	if base+offs[count] > len(r.b) {
		return nil, errors.New("walker: INDEX data beyond the end of the file")
	}
	res := make([][]byte, count)
	for i := range res {
		res[i] = r.b[base+offs[i] : base+offs[i+1]]
	}
	r.pos = base + offs[count]
	return res, nil
}

// DictEntry is one operator of a DICT with its operands (exact rationals).
type DictEntry struct {
	Op   int // two-byte operators: 0x0c00 | b
	Args []*big.Rat
}

// ParseDict decodes DICT data (TN5176 section 4).
func ParseDict(b []byte) ([]DictEntry, error) {
	var res []DictEntry
	var args []*big.Rat
	for i := 0; i < len(b); {
		c := int(b[i])
		switch {
		case c <= 21:
			op := c
			i++
			if c == 12 {
				if i >= len(b) {
					return nil, errors.New("walker: truncated DICT operator")
				}
				op = 0x0c00 | int(b[i])
				i++
			}
			res = append(res, DictEntry{Op: op, Args: args})
			args = nil
		case c == 28:
			if i+2 >= len(b) {
				return nil, errors.New("walker: truncated DICT number")
			}
			args = append(args, big.NewRat(int64(int16(uint16(b[i+1])<<8|uint16(b[i+2]))), 1))
			i += 3
		case c == 29:
			if i+4 >= len(b) {
				return nil, errors.New("walker: truncated DICT number")
			}
			v := int32(uint32(b[i+1])<<24 | uint32(b[i+2])<<16 | uint32(b[i+3])<<8 | uint32(b[i+4]))
			args = append(args, big.NewRat(int64(v), 1))
			i += 5
		case c == 30:
			i++
			var sb strings.Builder
			done := false
			for !done {
				if i >= len(b) {
					return nil, errors.New("walker: truncated DICT real")
				}
				for _, nib := range []byte{b[i] >> 4, b[i] & 15} {
					switch {
					case nib <= 9:
						sb.WriteByte('0' + nib)
					case nib == 0xa:
						sb.WriteByte('.')
					case nib == 0xb:
						sb.WriteByte('e')
					case nib == 0xc:
						sb.WriteString("e-")
					case nib == 0xe:
						sb.WriteByte('-')
					case nib == 0xf:
						done = true
					default:
						return nil, errors.New("walker: reserved nibble in DICT real")
					}
					if done {
						break
					}
				}
				i++
			}
			v, ok := new(big.Rat).SetString(sb.String())
			if !ok {
				return nil, fmt.Errorf("walker: bad DICT real %q", sb.String())
			}
			args = append(args, v)
		case c >= 32 && c <= 246:
			args = append(args, big.NewRat(int64(c-139), 1))
			i++
		case c >= 247 && c <= 250:
			if i+1 >= len(b) {
				return nil, errors.New("walker: truncated DICT number")
			}
			args = append(args, big.NewRat(int64((c-247)*256+int(b[i+1])+108), 1))
			i += 2
		case c >= 251 && c <= 254:
			if i+1 >= len(b) {
				return nil, errors.New("walker: truncated DICT number")
			}
			args = append(args, big.NewRat(int64(-(c-251)*256-int(b[i+1])-108), 1))
			i += 2
		default:
			return nil, fmt.Errorf("walker: reserved DICT byte %d", c)
		}
	}
	if len(args) != 0 {
		return nil, errors.New("walker: DICT operands without operator")
	}
	return res, nil
}

func find(d []DictEntry, op int) *DictEntry {
	for i := range d {
		if d[i].Op == op {
			return &d[i]
		}
	}
	return nil
}

func ratInt(r *big.Rat) (int, bool) {
	if !r.IsInt() || !r.Num().IsInt64() {
		return 0, false
	}
	return int(r.Num().Int64()), true
}

// Walk extracts the CharStrings, the subroutine INDEXes and the width defaults of the first
// Private DICT from a CFF file, following only the structure rules of TN5176.
func Walk(b []byte) (*Walked, error) {
	if len(b) < 4 || b[0] != 1 {
		return nil, errors.New("walker: bad header")
	}
	r := &rd{b: b, pos: int(b[2])}
	names, err := r.index()
	if err != nil {
		return nil, err
	}
	if len(names) != 1 {
		return nil, fmt.Errorf("walker: %d names", len(names))
	}
	tops, err := r.index()
	if err != nil {
		return nil, err
	}
	if len(tops) != 1 {
		return nil, fmt.Errorf("walker: %d top dicts", len(tops))
	}
	if _, err = r.index(); err != nil { // strings
		return nil, err
	}
	w := &Walked{DW: new(big.Rat), NW: new(big.Rat)}
	if w.GSubrs, err = r.index(); err != nil {
		return nil, err
	}
	top, err := ParseDict(tops[0])
	if err != nil {
		return nil, err
	}
	cs := find(top, 17)
	if cs == nil || len(cs.Args) != 1 {
		return nil, errors.New("walker: no CharStrings offset")
	}
	off, ok := ratInt(cs.Args[0])
	if !ok || off < 4 || off >= len(b) {
		return nil, errors.New("walker: bad CharStrings offset")
	}
	r2 := &rd{b: b, pos: off}
	if w.CharStrings, err = r2.index(); err != nil {
		return nil, err
	}
	priv := find(top, 18)
	if find(top, 0x0c1e) != nil { // ROS: take the first Font DICT
		w.CID = true
		fda := find(top, 0x0c24)
		if fda == nil || len(fda.Args) != 1 {
			return nil, errors.New("walker: no FDArray")
		}
		o, ok := ratInt(fda.Args[0])
		if !ok || o < 4 || o >= len(b) {
			return nil, errors.New("walker: bad FDArray offset")
		}
		r3 := &rd{b: b, pos: o}
		fds, err := r3.index()
		if err != nil || len(fds) == 0 {
			return nil, errors.New("walker: bad FDArray")
		}
		fd, err := ParseDict(fds[0])
		if err != nil {
			return nil, err
		}
		priv = find(fd, 18)
	}
	if priv == nil || len(priv.Args) != 2 {
		return nil, errors.New("walker: no Private DICT")
	}
	psize, ok1 := ratInt(priv.Args[0])
	poff, ok2 := ratInt(priv.Args[1])
	if !ok1 || !ok2 || psize < 0 || poff < 4 || poff+psize > len(b) {
		return nil, errors.New("walker: bad Private DICT location")
	}
	pd, err := ParseDict(b[poff : poff+psize])
	if err != nil {
		return nil, err
	}
	if e := find(pd, 20); e != nil {
		if len(e.Args) != 1 {
			return nil, errors.New("walker: defaultWidthX operand count")
		}
		w.DW = e.Args[0]
	}
	if e := find(pd, 21); e != nil {
		if len(e.Args) != 1 {
			return nil, errors.New("walker: nominalWidthX operand count")
		}
		w.NW = e.Args[0]
	}
	if e := find(pd, 19); e != nil && len(e.Args) == 1 {
		so, ok := ratInt(e.Args[0])
		if !ok || poff+so < 4 || poff+so >= len(b) {
			return nil, errors.New("walker: bad Subrs offset")
		}
		r4 := &rd{b: b, pos: poff + so}
		if w.Subrs, err = r4.index(); err != nil {
			return nil, err
		}
	}
	return w, nil
}

// stack effect (pops, pushes) of the non-clearing operators, for the mask-length bookkeeping
var stackEffect = map[string][2]int{
	"abs": {1, 1}, "neg": {1, 1}, "sqrt": {1, 1}, "not": {1, 1}, "get": {1, 1}, "index": {1, 1},
	"add": {2, 1}, "sub": {2, 1}, "mul": {2, 1}, "div": {2, 1}, "eq": {2, 1}, "and": {2, 1}, "or": {2, 1},
	"drop": {1, 0}, "exch": {2, 2}, "dup": {1, 2}, "put": {2, 0}, "roll": {2, 0}, "ifelse": {4, 1},
	"random": {0, 1},
}

// Tokenize splits charstring bytes into tokens; numbers are returned in units of 2^-16.
// The length of mask data follows from the number of stem operands seen so far.
func Tokenize(code []byte) ([]Token, error) {
	var toks []Token
	depth, stems := 0, 0
	for i := 0; i < len(code); {
		c := int(code[i])
		switch {
		case c >= 32 && c <= 246:
			toks = append(toks, Token{IsNum: true, V: int64(c-139) << 16})
			i++
			depth++
		case c >= 247 && c <= 250:
			if i+1 >= len(code) {
				return toks, errors.New("truncated number")
			}
			toks = append(toks, Token{IsNum: true, V: int64((c-247)*256+int(code[i+1])+108) << 16})
			i += 2
			depth++
		case c >= 251 && c <= 254:
			if i+1 >= len(code) {
				return toks, errors.New("truncated number")
			}
			toks = append(toks, Token{IsNum: true, V: -int64((c-251)*256+int(code[i+1])+108) << 16})
			i += 2
			depth++
		case c == 28:
			if i+2 >= len(code) {
				return toks, errors.New("truncated number")
			}
			toks = append(toks, Token{IsNum: true, V: int64(int16(uint16(code[i+1])<<8|uint16(code[i+2]))) << 16})
			i += 3
			depth++
		case c == 255:
			if i+4 >= len(code) {
				return toks, errors.New("truncated number")
			}
			v := int32(uint32(code[i+1])<<24 | uint32(code[i+2])<<16 | uint32(code[i+3])<<8 | uint32(code[i+4]))
			toks = append(toks, Token{IsNum: true, V: int64(v)})
			i += 5
			depth++
		default:
			key := c
			i++
			if c == 12 {
				if i >= len(code) {
					return toks, errors.New("truncated operator")
				}
				key = 0x0c00 | int(code[i])
				i++
			}
			name, ok := OpName[key]
			if !ok {
				return toks, fmt.Errorf("reserved operator %d", key)
			}
			t := Token{Op: name}
			switch name {
			case "hstem", "vstem", "hstemhm", "vstemhm":
				stems += depth / 2
				depth = 0
			case "hintmask", "cntrmask":
				stems += depth / 2
				depth = 0
				n := (stems + 7) / 8
				if i+n > len(code) {
					return toks, errors.New("truncated mask")
				}
				t.Mask = append([]byte{}, code[i:i+n]...)
				i += n
			case "callsubr", "callgsubr":
				depth--
			case "return":
			default:
				if e, ok := stackEffect[name]; ok {
					depth += e[1] - e[0]
				} else {
					depth = 0
				}
			}
			toks = append(toks, t)
		}
	}
	return toks, nil
}
