// Package subx binds the abstract font of spec/Subset.tla to go-sfnt: it builds a concrete
// sfnt.Font from the abstract record and projects concrete fonts back to the abstract
// observation (the record P of Subset.tla).  No expectation is computed here.
package subx

import (
	"bytes"
	"crypto/sha256"
	"fmt"
	"sort"
	"strconv"
	"strings"
	"time"

	"golang.org/x/text/language"

	"seehuhn.de/go/geom/matrix"
	"seehuhn.de/go/postscript/cid"
	"seehuhn.de/go/postscript/funit"
	"seehuhn.de/go/postscript/type1"

	"seehuhn.de/go/sfnt"
	"seehuhn.de/go/sfnt/cff"
	"seehuhn.de/go/sfnt/cmap"
	"seehuhn.de/go/sfnt/glyf"
	"seehuhn.de/go/sfnt/glyph"
	"seehuhn.de/go/sfnt/head"
	"seehuhn.de/go/sfnt/maxp"
	"seehuhn.de/go/sfnt/opentype/coverage"
	"seehuhn.de/go/sfnt/opentype/gtab"
	"seehuhn.de/go/sfnt/os2"
)

// Font is the abstract font F of Subset.tla (JSON as printed by TLC).
type Font struct {
	Kind     string  `json:"kind"`
	N        int     `json:"n"`
	Out      []int   `json:"out"`
	W        []int   `json:"w"`
	Name     []int   `json:"name"`
	Nameset  string  `json:"nameset"`
	CID      []int   `json:"cid"`
	FD       []int   `json:"fd"`
	Comp     [][]int `json:"comp"`
	CmapCfg  string  `json:"cmapcfg"`
	Cmap     [][]int `json:"cmap"`
	HasEnc   bool    `json:"hasenc"`
	Enc      [][]int `json:"enc"`
	Gsub     string  `json:"gsub"`
	Ligs     [][]int `json:"ligs"`
	Ligsplit int     `json:"ligsplit"`
	Subs     [][]int `json:"subs"`
	Subs2    [][]int `json:"subs2"`
	Gpos     bool    `json:"gpos"`
	Pairs    [][]int `json:"pairs"`
	Pairs2   [][]int `json:"pairs2"`
}

// Pad changes only the concrete realisation of a font, never its abstract content: it makes
// strings, glyph programs and instruction blocks longer, so that the tables of the written
// subset pass through the size boundaries of the file formats (INDEX offset sizes, short / long
// loca).  A [g, k] pair pads glyph g by k units.
type Pad struct {
	Copyright int     `json:"copyright"` // extra characters of the copyright notice (CFF String INDEX)
	Name      [][]int `json:"name"`      // extra characters of glyph names (simple CFF)
	CS        [][]int `json:"cs"`        // extra path segments / bytes of CFF glyph programs
	Instr     [][]int `json:"instr"`     // extra instruction bytes of simple TrueType glyphs
	GlyfTotal int     `json:"glyftotal"` // if > 0: grow the listed simple glyphs until the subset's glyf table has this size
}

func padOf(pp [][]int, g int) int {
	for _, e := range pp {
		if len(e) == 2 && e[0] == g {
			return e[1]
		}
	}
	return 0
}

// Glyph is one glyph of a projection.
type Glyph struct {
	Out   int   `json:"out"`
	W     int   `json:"w"`
	Name  int   `json:"name"`
	CID   int   `json:"cid"`
	PD    int   `json:"pd"`
	Mat   int   `json:"mat"`
	Comps []int `json:"comps"`
}

// Proj is the projection P of Subset.tla.
type Proj struct {
	OK     bool      `json:"ok"`
	Glyphs []Glyph   `json:"glyphs"`
	Cmaps  [][][]int `json:"cmaps"`
	HasEnc bool      `json:"hasenc"`
	Enc    [][]int   `json:"enc"`
	Ligs   [][]any   `json:"ligs"`
	Subs   [][]any   `json:"subs"`
	Pairs  [][]any   `json:"pairs"`
}

// Empty is the projection logged when there is nothing to project (panic, error).
func Empty() *Proj {
	return &Proj{Glyphs: []Glyph{}, Cmaps: [][][]int{}, Enc: [][]int{}, Ligs: [][]any{}, Subs: [][]any{}, Pairs: [][]any{}}
}

const numFD = 3

var expertNames = []string{"zerooldstyle", "oneoldstyle", "twooldstyle", "threeoldstyle", "fouroldstyle",
	"fiveoldstyle", "sixoldstyle", "sevenoldstyle", "eightoldstyle", "nineoldstyle"}

// nameOf / tokenOfName: glyph names of constructed fonts.  The name set decides how a name
// token is spelled: "plain" G<k>; "std" the StandardEncoding names A, B, C, ... (codes 65, ...);
// "expert" the ExpertEncoding names zerooldstyle, oneoldstyle, ... (codes 48, ...).
func nameOf(tok int, nameset string) string {
	if tok < 0 {
		return ""
	}
	if tok == 0 {
		return ".notdef"
	}
	switch {
	case nameset == "std" && tok <= 26:
		return string(rune(64 + tok))
	case nameset == "expert" && tok <= len(expertNames):
		return expertNames[tok-1]
	}
	return "G" + strconv.Itoa(tok)
}

func tokenOfName(s string) int {
	if s == ".notdef" {
		return 0
	}
	for i, e := range expertNames {
		if s == e {
			return i + 1
		}
	}
	if len(s) == 1 && s[0] >= 'A' && s[0] <= 'Z' {
		return int(s[0]) - 64
	}
	s = strings.TrimRight(s, "x") // name padding
	if strings.HasPrefix(s, "G") {
		if v, err := strconv.Atoi(s[1:]); err == nil && v > 0 {
			return v
		}
	}
	if s == "" {
		return -1
	}
	return -2
}

func fdMatrix(k int) matrix.Matrix {
	// font dictionaries 0 and 2 have the same matrix (and different private dictionaries, see stdHW)
	s := []float64{1, 0.5, 1, 0.25}[k%4]
	return matrix.Matrix{s, 0, 0, s, 0, 0}
}

// font dictionaries 2j and 2j+1 have private dictionaries with the same contents (distinct objects) and
// different matrices: a font dictionary is the pair, and equal parts do not make equal dictionaries
func stdHW(k int) float64 { return float64(40 + k/2) }

// Ident identifies the opaque tokens of a constructed font.
type Ident struct {
	outline map[string]int
}

func (id *Ident) add(digest string, tok int) {
	if old, ok := id.outline[digest]; ok && old != tok {
		panic(fmt.Sprintf("subx: outline digest collision between tokens %d and %d", old, tok))
	}
	id.outline[digest] = tok
}

func digestTT(g *glyf.Glyph) string {
	if g == nil {
		return "nil"
	}
	h := sha256.New()
	switch d := g.Data.(type) {
	case glyf.SimpleGlyph:
		fmt.Fprintf(h, "S%d|%x|%v", d.NumContours, d.Encoded, g.Rect16)
	case glyf.CompositeGlyph:
		fmt.Fprintf(h, "C%v|", g.Rect16)
		for _, c := range d.Components {
			fmt.Fprintf(h, "%d:%x;", c.Flags, c.Data)
		}
		fmt.Fprintf(h, "|%x", d.Instructions)
	default:
		return "?"
	}
	return fmt.Sprintf("%x", h.Sum(nil)[:12])
}

func digestCFF(g *cff.Glyph) string {
	if g == nil {
		return "nil"
	}
	h := sha256.New()
	for _, c := range g.Cmds {
		fmt.Fprintf(h, "%d", c.Op)
		for _, a := range c.Args {
			fmt.Fprintf(h, ",%.3f", a)
		}
		fmt.Fprint(h, ";")
	}
	fmt.Fprintf(h, "|%v|%v", g.HStem, g.VStem)
	return fmt.Sprintf("%x", h.Sum(nil)[:12])
}

func gid(x int) glyph.ID { return glyph.ID(uint16(x)) }

// Build constructs the concrete font of an abstract font.
//
// salt (VERIF_SEED mixed with a hash of the abstract font) selects the *concrete realisation*
// of what the model leaves open: the record form of every composite component (byte or word
// arguments, no / uniform / x-y / 2x2 scale, USE_MY_METRICS, ROUND_XY_TO_GRID), whether a
// composite carries no, an empty or a non-empty instruction block (WE_HAVE_INSTRUCTIONS), and
// the instruction bytes of simple glyphs (odd and even glyph lengths).
func Build(F *Font, salt uint32, pad *Pad) (*sfnt.Font, *Ident) {
	if pad == nil {
		pad = &Pad{}
	}
	f := &sfnt.Font{
		FamilyName:         "Verif Subset " + F.Kind,
		Width:              os2.WidthNormal,
		Weight:             os2.WeightNormal,
		IsRegular:          true,
		CodePageRange:      1 << os2.CP1252,
		Version:            head.Version(0x00010000),
		CreationTime:       time.Date(2020, 1, 2, 3, 4, 5, 0, time.UTC),
		ModificationTime:   time.Date(2021, 6, 7, 8, 9, 10, 0, time.UTC),
		UnitsPerEm:         1000,
		FontMatrix:         matrix.Matrix{0.001, 0, 0, 0.001, 0, 0},
		Ascent:             800,
		Descent:            -200,
		LineGap:            100,
		CapHeight:          700,
		XHeight:            500,
		UnderlinePosition:  -100,
		UnderlineThickness: 50,
	}
	if pad.Copyright > 0 {
		f.Copyright = strings.Repeat("c", pad.Copyright)
	}
	id := &Ident{outline: map[string]int{}}
	n := F.N
	switch F.Kind {
	case "ttf":
		out := &glyf.Outlines{
			Maxp: &maxp.TTFInfo{MaxPoints: 8, MaxContours: 2, MaxCompositePoints: 64, MaxCompositeContours: 16,
				MaxZones: 2, MaxComponentElements: 4, MaxComponentDepth: 8, MaxSizeOfInstructions: 65535},
			Tables: map[string][]byte{},
		}
		named := false
		for g := 0; g < n; g++ {
			var gl *glyf.Glyph
			switch {
			case len(F.Comp[g]) > 0:
				gl = compositeTT(F.Comp[g], g, salt)
			case F.Out[g] == -3:
				gl = nil
			default:
				gl = simpleTT(g, salt, padOf(pad.Instr, g))
			}
			out.Glyphs = append(out.Glyphs, gl)
			out.Widths = append(out.Widths, funit.Int16(F.W[g]))
			if F.Name[g] >= 0 {
				named = true
			}
			if gl != nil {
				id.add(digestTT(gl), F.Out[g])
			}
		}
		if named {
			for g := 0; g < n; g++ {
				out.Names = append(out.Names, nameOf(F.Name[g], F.Nameset))
			}
		}
		f.Outlines = out
	case "cff", "cid":
		out := &cff.Outlines{}
		for g := 0; g < n; g++ {
			name := nameOf(F.Name[g], F.Nameset)
			if k := padOf(pad.Name, g); k > 0 && name != "" {
				name += strings.Repeat("x", k)
			}
			gl := cff.NewGlyph(name, float64(F.W[g]))
			if F.Out[g] != -3 {
				x := float64(10 * g)
				gl.MoveTo(x, 0)
				gl.LineTo(100+float64(g), 50)
				gl.LineTo(30, 200+float64(g))
				if g%2 == 1 {
					gl.CurveTo(20, 150, 10, 100, x, 10)
				}
				// program padding: k/2 short zig-zag segments (two bytes each), plus one
				// long segment (three bytes) when k is odd
				if k := padOf(pad.CS, g); k > 0 {
					px, py := 30.0, 200+float64(g)
					if g%2 == 1 {
						px, py = x, 10
					}
					if k%2 == 1 {
						px += 300
						gl.LineTo(px, py+1)
						py++
					}
					for j := 0; j < k/2; j++ {
						dx := float64(1 + j%5)
						if j%2 == 1 {
							dx = -dx
						}
						px, py = px+dx, py+float64(1+j%3)*[]float64{1, -1}[(j/2)%2]
						gl.LineTo(px, py)
					}
				}
			}
			out.Glyphs = append(out.Glyphs, gl)
			id.add(digestCFF(gl), F.Out[g])
		}
		if F.Kind == "cid" {
			for k := 0; k < numFD; k++ {
				out.Private = append(out.Private, &type1.PrivateDict{
					BlueValues: []funit.Int16{-10, 0, 700, 710}, BlueScale: 0.039625, BlueShift: 7, BlueFuzz: 1,
					StdHW: stdHW(k), StdVW: float64(80 + k/2)})
				out.FontMatrices = append(out.FontMatrices, fdMatrix(k))
			}
			out.ROS = &cid.SystemInfo{Registry: "Adobe", Ordering: "Identity", Supplement: 0}
			out.GIDToCID = make([]cid.CID, n)
			for g := 0; g < n; g++ {
				out.GIDToCID[g] = cid.CID(F.CID[g])
			}
			fds := append([]int(nil), F.FD...)
			out.FDSelect = func(g glyph.ID) int { return fds[g] }
		} else {
			out.Private = []*type1.PrivateDict{{
				BlueValues: []funit.Int16{-10, 0, 700, 710}, BlueScale: 0.039625, BlueShift: 7, BlueFuzz: 1,
				StdHW: stdHW(0), StdVW: 80}}
			out.FDSelect = func(glyph.ID) int { return 0 }
			if F.HasEnc {
				out.Encoding = make([]glyph.ID, 256)
				for _, e := range F.Enc {
					out.Encoding[e[0]] = gid(e[1])
				}
			}
		}
		f.Outlines = out
	default:
		panic("subx: unknown kind " + F.Kind)
	}

	// character map
	// The subtables of the original font are encoded here, one segment / group per character,
	// not by the library's encoders: the original must be what the model says even when
	// the code under test encodes wrongly (the subset is encoded by the library).
	f4 := func(keep func(code int) bool) []byte {
		var ent [][2]int
		for _, e := range F.Cmap {
			if keep(e[0]) {
				ent = append(ent, [2]int{e[0], e[1]})
			}
		}
		return encodeFormat4(ent)
	}
	f12 := func() []byte {
		var ent [][2]int
		for _, e := range F.Cmap {
			ent = append(ent, [2]int{e[0], e[1]})
		}
		return encodeFormat12(ent)
	}
	all := func(int) bool { return true }
	switch F.CmapCfg {
	case "none":
	case "4":
		d := f4(all)
		f.CMapTable = cmap.Table{{PlatformID: 0, EncodingID: 3}: d, {PlatformID: 3, EncodingID: 1}: d}
	case "12":
		d := f12()
		f.CMapTable = cmap.Table{{PlatformID: 0, EncodingID: 4}: d, {PlatformID: 3, EncodingID: 10}: d}
	case "4+12":
		f.CMapTable = cmap.Table{
			{PlatformID: 3, EncodingID: 1}:  f4(func(c int) bool { return c < 0x10000 }),
			{PlatformID: 3, EncodingID: 10}: f12()}
	case "4|12": // BMP characters in the format 4 subtable only, astral characters in the format 12 subtable only
		var astral [][2]int
		for _, e := range F.Cmap {
			if e[0] >= 0x10000 {
				astral = append(astral, [2]int{e[0], e[1]})
			}
		}
		f.CMapTable = cmap.Table{
			{PlatformID: 3, EncodingID: 1}:  f4(func(c int) bool { return c < 0x10000 }),
			{PlatformID: 3, EncodingID: 10}: encodeFormat12(astral)}
	default:
		panic("subx: unknown cmapcfg " + F.CmapCfg)
	}

	// GSUB: lookup order given by F.Gsub ("l" = ligatures, "s" = single substitutions)
	if F.Gsub != "none" {
		info := &gtab.Info{ScriptList: gtab.ScriptListInfo{}}
		var opt []gtab.FeatureIndex
		for i, c := range F.Gsub {
			switch c {
			case 'l':
				// the first Ligsplit rules form the first subtable, the rest the second one
				var sts []gtab.Subtable
				for _, part := range [][][]int{F.Ligs[:F.Ligsplit], F.Ligs[F.Ligsplit:]} {
					if len(part) == 0 {
						continue
					}
					sts = append(sts, ligSubtable(part))
				}
				info.LookupList = append(info.LookupList, &gtab.LookupTable{
					Meta: &gtab.LookupMetaInfo{LookupType: 4}, Subtables: sts})
				info.FeatureList = append(info.FeatureList, &gtab.Feature{Tag: "liga", Lookups: []gtab.LookupIndex{gtab.LookupIndex(i)}})
			case 's':
				var sts []gtab.Subtable
				for _, part := range [][][]int{F.Subs, F.Subs2} {
					if len(part) == 0 {
						continue
					}
					st := &gtab.Gsub1_1{Cov: coverage.Set{}}
					for _, r := range part {
						st.Cov[gid(r[0])] = true
						st.Delta = gid(r[1] - r[0])
					}
					sts = append(sts, st)
				}
				info.LookupList = append(info.LookupList, &gtab.LookupTable{
					Meta: &gtab.LookupMetaInfo{LookupType: 1}, Subtables: sts})
				info.FeatureList = append(info.FeatureList, &gtab.Feature{Tag: "smcp", Lookups: []gtab.LookupIndex{gtab.LookupIndex(i)}})
			}
			opt = append(opt, gtab.FeatureIndex(i))
		}
		info.ScriptList[language.MustParse("und-Zyyy")] = &gtab.Features{Required: 0xFFFF, Optional: opt}
		f.Gsub = info
	}
	if F.Gpos {
		var sts []gtab.Subtable
		for k, part := range [][][]int{F.Pairs, F.Pairs2} {
			if len(part) == 0 && k > 0 {
				continue
			}
			st := gtab.Gpos2_1{}
			for _, p := range part {
				st[glyph.Pair{Left: gid(p[0]), Right: gid(p[1])}] = &gtab.PairAdjust{
					First: &gtab.GposValueRecord{XAdvance: funit.Int16(p[2])}}
			}
			sts = append(sts, st)
		}
		f.Gpos = &gtab.Info{
			ScriptList: gtab.ScriptListInfo{
				language.MustParse("und-Zyyy"): {Required: 0xFFFF, Optional: []gtab.FeatureIndex{0}}},
			FeatureList: gtab.FeatureListInfo{{Tag: "kern", Lookups: []gtab.LookupIndex{0}}},
			LookupList:  gtab.LookupList{{Meta: &gtab.LookupMetaInfo{LookupType: 2}, Subtables: sts}},
		}
	}
	return f, id
}

// ligSubtable builds one GSUB 4.1 subtable; coverage indices follow the glyph ids, the rules of
// one first glyph keep their order.
func ligSubtable(rules [][]int) *gtab.Gsub4_1 {
	byFirst := map[int][]gtab.Ligature{}
	var firsts []int
	for _, r := range rules {
		if _, ok := byFirst[r[0]]; !ok {
			firsts = append(firsts, r[0])
		}
		lig := gtab.Ligature{Out: gid(r[len(r)-1])}
		for _, x := range r[1 : len(r)-1] {
			lig.In = append(lig.In, gid(x))
		}
		byFirst[r[0]] = append(byFirst[r[0]], lig)
	}
	sort.Ints(firsts)
	st := &gtab.Gsub4_1{Cov: coverage.Table{}}
	for i, g := range firsts {
		st.Cov[gid(g)] = i
		st.Repl = append(st.Repl, byFirst[g])
	}
	return st
}

func mix(a, b uint32) uint32 {
	x := a*2654435761 + b*40503 + 0x9E3779B9
	x ^= x >> 15
	x *= 2246822519
	x ^= x >> 13
	return x
}

// compositeTT realises a composite glyph.  The bytes of every component record contain g, so
// the records (without the glyph indices) identify the glyph.
func compositeTT(comps []int, g int, salt uint32) *glyf.Glyph {
	cg := glyf.CompositeGlyph{}
	h := mix(salt, uint32(g))
	for k, c := range comps {
		hk := mix(h, uint32(k+1))
		flags := glyf.FlagArgsAreXYValues
		var data []byte
		if hk&1 == 0 {
			data = []byte{byte(10 + g), byte(20 + k)}
		} else {
			flags |= glyf.FlagArg1And2AreWords
			data = []byte{0, byte(10 + g), 0xFF, byte(200 - k)} // dx = 10+g, dy < 0
		}
		switch (hk >> 1) % 4 {
		case 1:
			flags |= glyf.FlagWeHaveAScale
			data = append(data, 0x40, byte(g))
		case 2:
			flags |= glyf.FlagWeHaveAnXAndYScale
			data = append(data, 0x40, 0x00, 0x20, byte(g))
		case 3:
			flags |= glyf.FlagWeHaveATwoByTwo
			data = append(data, 0x40, 0x00, 0x00, byte(g), 0x00, 0x00, 0x40, 0x00)
		}
		if (hk>>3)&1 == 1 {
			flags |= glyf.FlagUseMyMetrics
		}
		if (hk>>4)&1 == 1 {
			flags |= glyf.FlagRoundXYToGrid
		}
		if k+1 < len(comps) {
			flags |= glyf.FlagMoreComponents
		}
		cg.Components = append(cg.Components, glyf.GlyphComponent{Flags: flags, GlyphIndex: gid(c), Data: data})
	}
	// instruction block: absent, present and empty (count 0), present with 1..3 bytes
	switch (h >> 8) % 3 {
	case 1:
		cg.Instructions = []byte{}
	case 2:
		cg.Instructions = []byte{0x4B, 0x4B, 0x4B}[:1+int(h>>12)%3]
	}
	if cg.Instructions != nil {
		cg.Components[len(cg.Components)-1].Flags |= glyf.FlagWeHaveInstructions
	}
	return &glyf.Glyph{Rect16: funit.Rect16{LLx: 0, LLy: 0, URx: funit.Int16(400 + g), URy: 500}, Data: cg}
}

func be16(b []byte, x int) []byte { return append(b, byte(x>>8), byte(x)) }
func be32(b []byte, x int) []byte { return append(b, byte(x>>24), byte(x>>16), byte(x>>8), byte(x)) }

// encodeFormat4 writes a format 4 cmap subtable with one segment per character (codes < 0xFFFF).
func encodeFormat4(ent [][2]int) []byte {
	sort.Slice(ent, func(i, j int) bool { return ent[i][0] < ent[j][0] })
	if len(ent) == 0 || ent[len(ent)-1][0] != 0xFFFF {
		ent = append(ent, [2]int{0xFFFF, 0}) // final segment, maps 0xFFFF to glyph 0 (delta 1)
	}
	n := len(ent)
	sel := 0
	for 1<<(sel+1) <= n {
		sel++
	}
	b := be16(nil, 4)
	b = be16(b, 16+8*n)
	b = be16(b, 0)
	b = be16(b, 2*n)
	b = be16(b, 2<<sel)
	b = be16(b, sel)
	b = be16(b, 2*n-(2<<sel))
	for _, e := range ent {
		b = be16(b, e[0])
	}
	b = be16(b, 0)
	for _, e := range ent {
		b = be16(b, e[0])
	}
	for _, e := range ent {
		b = be16(b, (e[1]-e[0])&0xFFFF)
	}
	for range ent {
		b = be16(b, 0)
	}
	return b
}

// encodeFormat12 writes a format 12 cmap subtable with one group per character.
func encodeFormat12(ent [][2]int) []byte {
	sort.Slice(ent, func(i, j int) bool { return ent[i][0] < ent[j][0] })
	b := be16(nil, 12)
	b = be16(b, 0)
	b = be32(b, 16+12*len(ent))
	b = be32(b, 0)
	b = be32(b, len(ent))
	for _, e := range ent {
		b = be32(b, e[0])
		b = be32(b, e[0])
		b = be32(b, e[1])
	}
	return b
}

func simpleTT(g int, salt uint32, extra int) *glyf.Glyph {
	// one triangle, unique per glyph, 0..3 instruction bytes (odd and even glyph lengths)
	// plus `extra` padding bytes
	pts := [][2]int{{10 * g, 0}, {100 + g, 50}, {30, 200 + g}}
	ni := int(mix(salt, uint32(1000+g))%4) + extra
	body := []byte{0, 2, byte(ni >> 8), byte(ni)} // endPts = [2], instruction count
	body = append(body, bytes.Repeat([]byte{0x4B}, ni)...)
	var flags, xs, ys []byte
	px, py := 0, 0
	for _, p := range pts {
		dx, dy := p[0]-px, p[1]-py
		flags = append(flags, 0x01)
		xs = append(xs, byte(uint16(dx)>>8), byte(uint16(dx)))
		ys = append(ys, byte(uint16(dy)>>8), byte(uint16(dy)))
		px, py = p[0], p[1]
	}
	body = append(body, flags...)
	body = append(body, xs...)
	body = append(body, ys...)
	llx, urx := 10*g, 100+g
	if 30 < llx {
		llx = 30
	}
	if 30 > urx {
		urx = 30
	}
	return &glyf.Glyph{
		Rect16: funit.Rect16{LLx: funit.Int16(llx), LLy: 0, URx: funit.Int16(urx), URy: funit.Int16(200 + g)},
		Data:   glyf.SimpleGlyph{NumContours: 1, Encoded: body},
	}
}

// featureTags returns, per lookup index, the sorted "+"-joined tags of the features that list it.
func featureTags(info *gtab.Info) map[int]string {
	tags := map[int][]string{}
	for _, ft := range info.FeatureList {
		if ft == nil {
			continue
		}
		for _, l := range ft.Lookups {
			tags[int(l)] = append(tags[int(l)], ft.Tag)
		}
	}
	res := map[int]string{}
	for l, tt := range tags {
		sort.Strings(tt)
		res[l] = strings.Join(tt, "+")
	}
	return res
}

// Project computes the observation P of a concrete font.
func Project(f *sfnt.Font, id *Ident) *Proj {
	p := Empty()
	p.OK = true
	switch o := f.Outlines.(type) {
	case *glyf.Outlines:
		projectGlyf(p, o, id)
	case *cff.Outlines:
		ProjectCFF(p, o, id)
	default:
		panic("subx: unexpected outlines")
	}

	// character map: one list per subtable, in key order
	keys := make([]cmap.Key, 0, len(f.CMapTable))
	for k := range f.CMapTable {
		keys = append(keys, k)
	}
	sort.Slice(keys, func(i, j int) bool {
		a, b := keys[i], keys[j]
		if a.PlatformID != b.PlatformID {
			return a.PlatformID < b.PlatformID
		}
		if a.EncodingID != b.EncodingID {
			return a.EncodingID < b.EncodingID
		}
		return a.Language < b.Language
	})
	for _, k := range keys {
		st, err := f.CMapTable.Get(k)
		if err != nil {
			panic(fmt.Sprintf("subx: cmap subtable %v of the font cannot be decoded: %v", k, err))
		}
		ent := [][]int{}
		switch m := st.(type) {
		case cmap.Format4:
			for c, g := range m {
				if g != 0 {
					ent = append(ent, []int{int(c), int(g)})
				}
			}
		case cmap.Format12:
			for c, g := range m {
				if g != 0 {
					ent = append(ent, []int{int(c), int(g)})
				}
			}
		default:
			panic(fmt.Sprintf("subx: unexpected cmap subtable type %T", st))
		}
		sort.Slice(ent, func(i, j int) bool { return ent[i][0] < ent[j][0] })
		p.Cmaps = append(p.Cmaps, ent)
	}

	if f.Gsub != nil {
		tags := featureTags(f.Gsub)
		for li, lt := range f.Gsub.LookupList {
			if lt == nil {
				continue
			}
			tag := tags[li]
			seenSub := map[glyph.ID]bool{} // within one lookup the first subtable that covers a glyph wins
			for _, st := range lt.Subtables {
				switch s := st.(type) {
				case *gtab.Gsub4_1:
					firsts := make([]int, 0, len(s.Cov))
					for g := range s.Cov {
						firsts = append(firsts, int(g))
					}
					sort.Ints(firsts)
					for _, g := range firsts {
						idx := s.Cov[glyph.ID(g)]
						if idx < 0 || idx >= len(s.Repl) {
							continue
						}
						for _, lig := range s.Repl[idx] {
							r := []any{tag, g}
							for _, x := range lig.In {
								r = append(r, int(x))
							}
							r = append(r, int(lig.Out))
							p.Ligs = append(p.Ligs, r)
						}
					}
				case *gtab.Gsub1_1:
					for g := range s.Cov {
						if !seenSub[g] {
							p.Subs = append(p.Subs, []any{tag, int(g), int(g + s.Delta)})
						}
					}
					for g := range s.Cov {
						seenSub[g] = true
					}
				case *gtab.Gsub1_2:
					for g, idx := range s.Cov {
						if idx >= 0 && idx < len(s.SubstituteGlyphIDs) && !seenSub[g] {
							p.Subs = append(p.Subs, []any{tag, int(g), int(s.SubstituteGlyphIDs[idx])})
						}
					}
					for g := range s.Cov {
						seenSub[g] = true
					}
				default:
					panic(fmt.Sprintf("subx: unexpected GSUB subtable %T", st))
				}
			}
		}
		sort.SliceStable(p.Subs, func(i, j int) bool {
			a, b := p.Subs[i], p.Subs[j]
			if a[0].(string) != b[0].(string) {
				return a[0].(string) < b[0].(string)
			}
			return a[1].(int) < b[1].(int)
		})
		// ligature rules: stable by first glyph (the order within one first glyph is meaningful)
		sort.SliceStable(p.Ligs, func(i, j int) bool { return p.Ligs[i][1].(int) < p.Ligs[j][1].(int) })
	}
	if f.Gpos != nil {
		tags := featureTags(f.Gpos)
		for li, lt := range f.Gpos.LookupList {
			if lt == nil {
				continue
			}
			tag := tags[li]
			seenPair := map[glyph.Pair]bool{} // the first subtable that lists a pair wins
			for _, st := range lt.Subtables {
				switch s := st.(type) {
				case gtab.Gpos2_1:
					for pr, adj := range s {
						if seenPair[pr] {
							continue
						}
						v := 0
						if adj != nil && adj.First != nil {
							v = int(adj.First.XAdvance)
						}
						p.Pairs = append(p.Pairs, []any{tag, int(pr.Left), int(pr.Right), v})
					}
					for pr := range s {
						seenPair[pr] = true
					}
				default:
					panic(fmt.Sprintf("subx: unexpected GPOS subtable %T", st))
				}
			}
		}
		sort.Slice(p.Pairs, func(i, j int) bool {
			a, b := p.Pairs[i], p.Pairs[j]
			if a[0].(string) != b[0].(string) {
				return a[0].(string) < b[0].(string)
			}
			if a[1].(int) != b[1].(int) {
				return a[1].(int) < b[1].(int)
			}
			return a[2].(int) < b[2].(int)
		})
	}
	return p
}

// Learn records the outline digests of g, the font obtained by writing and reading the
// unsubsetted concrete font of F (glyph i of g is glyph i of F), so that outlines are also
// recognised in their file form.
func Learn(id *Ident, F *Font, g *sfnt.Font) {
	defer func() { recover() }()
	switch o := g.Outlines.(type) {
	case *glyf.Outlines:
		for i, gl := range o.Glyphs {
			if i < F.N && gl != nil {
				if _, ok := id.outline[digestTT(gl)]; !ok {
					id.outline[digestTT(gl)] = F.Out[i]
				}
			}
		}
	case *cff.Outlines:
		for i, gl := range o.Glyphs {
			if i < F.N && gl != nil {
				if _, ok := id.outline[digestCFF(gl)]; !ok {
					id.outline[digestCFF(gl)] = F.Out[i]
				}
			}
		}
	}
}

func (id *Ident) tok(digest string) int {
	if digest == "nil" {
		return -3
	}
	if t, ok := id.outline[digest]; ok {
		return t
	}
	return -1
}

func projectGlyf(p *Proj, o *glyf.Outlines, id *Ident) {
	for g, gl := range o.Glyphs {
		e := Glyph{Out: id.tok(digestTT(gl)), W: -1, Name: -1, CID: -1, PD: -1, Mat: -1, Comps: []int{}}
		if g < len(o.Widths) {
			e.W = int(o.Widths[g])
		}
		if o.Names != nil {
			if g < len(o.Names) {
				e.Name = tokenOfName(o.Names[g])
			} else {
				e.Name = -2
			}
		}
		for _, c := range gl.Components() {
			e.Comps = append(e.Comps, int(c))
		}
		p.Glyphs = append(p.Glyphs, e)
	}
}

// ProjectCFF adds the glyphs and the encoding of CFF outlines to p.
func ProjectCFF(p *Proj, o *cff.Outlines, id *Ident) {
	isCID := o.IsCIDKeyed()
	for g, gl := range o.Glyphs {
		e := Glyph{Out: id.tok(digestCFF(gl)), W: -1, Name: -1, CID: -1, PD: -1, Mat: -1, Comps: []int{}}
		if gl != nil {
			e.W = int(gl.Width)
			if float64(e.W) != gl.Width {
				e.W = -7
			}
			e.Name = tokenOfName(gl.Name)
		}
		fd := o.FDSelect(glyph.ID(g))
		if fd >= 0 && fd < len(o.Private) && o.Private[fd] != nil {
			e.PD = int(o.Private[fd].StdHW) - 40
		} else {
			e.PD = -2
		}
		if isCID {
			if g < len(o.GIDToCID) {
				e.CID = int(o.GIDToCID[g])
			} else {
				e.CID = -2
			}
			e.Mat = -2
			if fd >= 0 && fd < len(o.FontMatrices) {
				// a font dictionary is identified by the PAIR (private dictionary, matrix): dictionaries
				// 2j and 2j+1 have equal private dictionaries, 0 and 2 equal matrices
				e.Mat = -3
				for k := 0; k < numFD; k++ {
					if o.FontMatrices[fd] == fdMatrix(k) && e.PD >= 0 && float64(40+e.PD) == stdHW(k) {
						e.Mat = k
					}
				}
				if e.Mat >= 0 {
					e.PD = e.Mat
				} else if e.PD >= 0 {
					e.PD = -3
				}
			}
		}
		p.Glyphs = append(p.Glyphs, e)
	}
	if o.Encoding != nil {
		p.HasEnc = true
		for c, g := range o.Encoding {
			if g != 0 {
				p.Enc = append(p.Enc, []int{c, int(g)})
			}
		}
	}
}

// WriteRead writes the font and reads it back.
func WriteRead(f *sfnt.Font) (g *sfnt.Font, status string, msg string) {
	g, status, msg, _ = WriteReadBytes(f)
	return
}

// WriteReadBytes is WriteRead, also returning the written file (nil if Write failed).
func WriteReadBytes(f *sfnt.Font) (g *sfnt.Font, status string, msg string, file []byte) {
	defer func() {
		if r := recover(); r != nil {
			g, status, msg = nil, "panic", fmt.Sprint(r)
		}
	}()
	var buf bytes.Buffer
	if _, err := f.Write(&buf); err != nil {
		return nil, "write-error", err.Error(), nil
	}
	file = buf.Bytes()
	g, err := sfnt.Read(bytes.NewReader(file))
	if err != nil {
		return nil, "read-error", err.Error(), file
	}
	return g, "ok", "", file
}

// Measure walks a written sfnt file without the library and returns the sizes that the
// boundary sweeps aim at: "glyf" (length of the glyf table), "string" and "charstrings"
// (data length of the CFF String INDEX and CharStrings INDEX).  Missing or unparsable parts
// are simply absent.
func Measure(file []byte) (res map[string]int) {
	res = map[string]int{}
	defer func() { recover() }()
	u16 := func(b []byte, p int) int { return int(b[p])<<8 | int(b[p+1]) }
	u32 := func(b []byte, p int) int { return u16(b, p)<<16 | u16(b, p+2) }
	n := u16(file, 4)
	for i := 0; i < n; i++ {
		rec := 12 + 16*i
		tag := string(file[rec : rec+4])
		off, length := u32(file, rec+8), u32(file, rec+12)
		switch tag {
		case "glyf":
			res["glyf"] = length
		case "CFF ":
			measureCFF(file[off:off+length], res)
		}
	}
	return res
}

// cffIndex returns the start and the length of the data of the INDEX at pos, the offset of
// its first element's end, and the position behind the INDEX.
func cffIndex(b []byte, pos int) (dataStart, dataLen, firstEnd, end int) {
	count := int(b[pos])<<8 | int(b[pos+1])
	if count == 0 {
		return pos + 2, 0, 0, pos + 2
	}
	offSize := int(b[pos+2])
	rd := func(i int) int {
		v := 0
		for k := 0; k < offSize; k++ {
			v = v<<8 | int(b[pos+3+i*offSize+k])
		}
		return v
	}
	dataStart = pos + 3 + (count+1)*offSize
	dataLen = rd(count) - 1
	return dataStart, dataLen, rd(1) - 1, dataStart + dataLen
}

func measureCFF(b []byte, res map[string]int) {
	defer func() { recover() }()
	pos := int(b[2])
	_, _, _, pos = cffIndex(b, pos) // Name INDEX
	tdStart, _, tdLen, pos2 := cffIndex(b, pos)
	_, strLen, _, _ := cffIndex(b, pos2)
	res["string"] = strLen
	// Top DICT: operator 17 = CharStrings offset
	d := b[tdStart : tdStart+tdLen]
	var ops []int
	for i := 0; i < len(d); {
		c := int(d[i])
		switch {
		case c <= 21:
			if c == 12 {
				i++
			} else if c == 17 && len(ops) > 0 {
				_, csLen, _, _ := cffIndex(b, ops[len(ops)-1])
				res["charstrings"] = csLen
			}
			ops = ops[:0]
			i++
		case c == 28:
			ops = append(ops, int(int16(int(d[i+1])<<8|int(d[i+2]))))
			i += 3
		case c == 29:
			ops = append(ops, int(int32(uint32(d[i+1])<<24|uint32(d[i+2])<<16|uint32(d[i+3])<<8|uint32(d[i+4]))))
			i += 5
		case c == 30:
			i++
			for d[i]&0x0F != 0x0F && d[i]>>4 != 0x0F {
				i++
			}
			i++
			ops = append(ops, 0)
		case c >= 32 && c <= 246:
			ops = append(ops, c-139)
			i++
		case c >= 247 && c <= 250:
			ops = append(ops, (c-247)*256+int(d[i+1])+108)
			i += 2
		case c >= 251 && c <= 254:
			ops = append(ops, -(c-251)*256-int(d[i+1])-108)
			i += 2
		default:
			i++
		}
	}
}
