// Package fproj computes the canonical projection of an sfnt.Font used by the C01
// (whole-font cycle) check: every exported field of the font as a 32-bit-safe
// integer, a string, or the digest of a canonical serialisation of the bulk data.
//
// The projection does no comparison and computes no expected value.  It is a
// change of representation only; precision maps and equalities are decided by TLC
// (spec/FontCycleTrace.tla).
package fproj

import (
	"crypto/sha256"
	"encoding/hex"
	"fmt"
	"hash"
	"io"
	"math"
	"reflect"
	"sort"
	"strconv"
	"strings"
	"time"

	"golang.org/x/text/language"

	"seehuhn.de/go/sfnt"
	"seehuhn.de/go/sfnt/cff"
	"seehuhn.de/go/sfnt/glyf"
	"seehuhn.de/go/sfnt/glyph"
)

// StyleTags is the vocabulary of style words whose occurrence in the family name
// influences the generated sub-family name (font.go Subfamily) and the style flags
// derived by the reader.
var StyleTags = []string{"Thin", "Extra Light", "Light", "Normal", "Medium", "Semi Bold", "Bold",
	"Extra Bold", "Black", "Italic", "Oblique", "Regular"}

// ListLimit is the largest glyph count for which per-glyph lists are logged in full.
const ListLimit = 600

var (
	timeType = reflect.TypeOf(time.Time{})
	tagType  = reflect.TypeOf(language.Tag{})
)

// Canon writes a canonical text form of v: maps sorted by the canonical form of the
// key, nil and empty slices/maps identified, pointers followed, interfaces tagged
// with their dynamic type, functions skipped.
func Canon(w io.Writer, v reflect.Value) { canon(w, v, 0) }

func canon(w io.Writer, v reflect.Value, depth int) {
	if depth > 60 {
		io.WriteString(w, "<deep>")
		return
	}
	if !v.IsValid() {
		io.WriteString(w, "nil")
		return
	}
	if v.CanInterface() {
		switch v.Type() {
		case timeType:
			t := v.Interface().(time.Time)
			if t.IsZero() {
				io.WriteString(w, "T0")
			} else {
				fmt.Fprintf(w, "T%d.%09d", t.Unix(), t.Nanosecond())
			}
			return
		case tagType:
			fmt.Fprintf(w, "tag:%s", v.Interface().(language.Tag).String())
			return
		}
	}
	switch v.Kind() {
	case reflect.Bool:
		if v.Bool() {
			io.WriteString(w, "t")
		} else {
			io.WriteString(w, "f")
		}
	case reflect.Int, reflect.Int8, reflect.Int16, reflect.Int32, reflect.Int64:
		io.WriteString(w, strconv.FormatInt(v.Int(), 10))
	case reflect.Uint, reflect.Uint8, reflect.Uint16, reflect.Uint32, reflect.Uint64, reflect.Uintptr:
		io.WriteString(w, strconv.FormatUint(v.Uint(), 10))
	case reflect.Float32, reflect.Float64:
		io.WriteString(w, FloatString(v.Float()))
	case reflect.String:
		io.WriteString(w, strconv.Quote(v.String()))
	case reflect.Ptr:
		if v.IsNil() {
			io.WriteString(w, "nil")
			return
		}
		io.WriteString(w, "&")
		canon(w, v.Elem(), depth+1)
	case reflect.Interface:
		if v.IsNil() {
			io.WriteString(w, "nil")
			return
		}
		e := v.Elem()
		fmt.Fprintf(w, "(%s)", e.Type().String())
		canon(w, e, depth+1)
	case reflect.Slice, reflect.Array:
		if v.Kind() == reflect.Slice && v.Type().Elem().Kind() == reflect.Uint8 {
			fmt.Fprintf(w, "x%d:", v.Len())
			b := make([]byte, v.Len())
			reflect.Copy(reflect.ValueOf(b), v)
			io.WriteString(w, hex.EncodeToString(b))
			return
		}
		io.WriteString(w, "[")
		for i := 0; i < v.Len(); i++ {
			if i > 0 {
				io.WriteString(w, ",")
			}
			canon(w, v.Index(i), depth+1)
		}
		io.WriteString(w, "]")
	case reflect.Map:
		type kv struct {
			k string
			v reflect.Value
		}
		var items []kv
		it := v.MapRange()
		for it.Next() {
			var sb strings.Builder
			canon(&sb, it.Key(), depth+1)
			items = append(items, kv{sb.String(), it.Value()})
		}
		sort.Slice(items, func(i, j int) bool { return items[i].k < items[j].k })
		io.WriteString(w, "{")
		for i, it := range items {
			if i > 0 {
				io.WriteString(w, ",")
			}
			io.WriteString(w, it.k)
			io.WriteString(w, ":")
			canon(w, it.v, depth+1)
		}
		io.WriteString(w, "}")
	case reflect.Struct:
		t := v.Type()
		io.WriteString(w, "<")
		for i := 0; i < v.NumField(); i++ {
			if i > 0 {
				io.WriteString(w, ";")
			}
			io.WriteString(w, t.Field(i).Name)
			io.WriteString(w, "=")
			canon(w, v.Field(i), depth+1)
		}
		io.WriteString(w, ">")
	case reflect.Func:
		if v.IsNil() {
			io.WriteString(w, "nilfunc")
		} else {
			io.WriteString(w, "func")
		}
	default:
		fmt.Fprintf(w, "?%s", v.Kind())
	}
}

// FloatString is the shortest decimal string that identifies x.
func FloatString(x float64) string { return strconv.FormatFloat(x, 'g', -1, 64) }

type digester struct{ h hash.Hash }

func newDigester() *digester { return &digester{sha256.New()} }
func (d *digester) Write(p []byte) (int, error) {
	return d.h.Write(p)
}
func (d *digester) sum() string { return hex.EncodeToString(d.h.Sum(nil))[:32] }

// Digest returns the digest of the canonical form of v.
func Digest(v any) string {
	d := newDigester()
	Canon(d, reflect.ValueOf(v))
	return d.sum()
}

// CanonString returns the canonical form of v (for diagnostics).
func CanonString(v any) string {
	var sb strings.Builder
	Canon(&sb, reflect.ValueOf(v))
	return sb.String()
}

// scaled returns x*scale as an integer when that is exact and 32-bit safe.
func scaled(x float64, scale float64) (int, bool) {
	y := x * scale
	if math.IsNaN(y) || math.IsInf(y, 0) || y != math.Trunc(y) || math.Abs(y) > 2e9 {
		return 0, false
	}
	return int(y), true
}

// Scaled is a number logged as an exact multiple of 1/scale: ok=false means that the
// value is not such a multiple (s then identifies it).
type Scaled struct {
	Ok bool   `json:"ok"`
	V  int    `json:"v"`
	S  string `json:"s"`
}

func mkScaled(x float64, scale float64) Scaled {
	v, ok := scaled(x, scale)
	return Scaled{Ok: ok, V: v, S: FloatString(x)}
}

// Time is a time stamp as Unix seconds split in three parts plus nanoseconds.
type Time struct {
	Zero bool `json:"zero"`
	Hi   int  `json:"hi"`  // floor(unix / 2^48)
	Mid  int  `json:"mid"` // floor(unix / 2^24) mod 2^24
	Lo   int  `json:"lo"`  // unix mod 2^24
	Ns   int  `json:"ns"`
}

func mkTime(t time.Time) Time {
	if t.IsZero() {
		return Time{Zero: true}
	}
	u := t.Unix()
	return Time{Hi: int(u >> 48), Mid: int((u >> 24) & 0xFFFFFF), Lo: int(u & 0xFFFFFF), Ns: t.Nanosecond()}
}

// Real9 is a real number at the precision of CFF DICT reals: a 9-digit decimal mantissa
// (100000000..999999999, value = M * 10^E) and exponent; S is the exact value.
type Real9 struct {
	M int    `json:"m"`
	E int    `json:"e"`
	S string `json:"s"`
}

func mkReal9(x float64) Real9 {
	if x == 0 || math.IsNaN(x) || math.IsInf(x, 0) {
		return Real9{S: FloatString(x)}
	}
	s := strconv.FormatFloat(x, 'e', 8, 64) // d.dddddddde±xx
	mant, exp, _ := strings.Cut(s, "e")
	mant = strings.Replace(mant, ".", "", 1)
	m, _ := strconv.Atoi(mant)
	e, _ := strconv.Atoi(exp)
	return Real9{M: m, E: e - 8, S: FloatString(x)}
}

// Font is the projection of an sfnt.Font.  All fields are present in every value.
type Font struct {
	Family    string   `json:"family"`
	FamHas    []string `json:"fam_has"` // style tags occurring in the family name
	Width     int      `json:"width"`
	Weight    int      `json:"weight"`
	IsRegular bool     `json:"is_regular"`
	IsBold    bool     `json:"is_bold"`
	IsItalic  bool     `json:"is_italic"`
	IsOblique bool     `json:"is_oblique"`
	IsSerif   bool     `json:"is_serif"`
	IsScript  bool     `json:"is_script"`
	CodePages string   `json:"code_pages"`

	VerMajor int  `json:"ver_major"`
	VerMinor int  `json:"ver_minor"` // 1/65536
	Created  Time `json:"created"`
	Modified Time `json:"modified"`

	Description string `json:"description"`
	SampleText  string `json:"sample_text"`
	Copyright   string `json:"copyright"`
	Trademark   string `json:"trademark"`
	License     string `json:"license"`
	LicenseURL  string `json:"license_url"`
	PermUse     int    `json:"perm_use"`

	UnitsPerEm int     `json:"upm"`
	FontMatrix []Real9 `json:"font_matrix"`
	FMStd      bool    `json:"fm_std"` // FontMatrix == [1/upm 0 0 1/upm 0 0]

	Ascent    int `json:"ascent"`
	Descent   int `json:"descent"`
	LineGap   int `json:"line_gap"`
	CapHeight int `json:"cap_height"`
	XHeight   int `json:"x_height"`

	ItalicAngle        Scaled `json:"italic_angle"`        // multiples of 2^-20 degree
	UnderlinePosition  Scaled `json:"underline_position"`  // multiples of 1/4 unit
	UnderlineThickness Scaled `json:"underline_thickness"` // multiples of 1/4 unit

	Kind        string   `json:"kind"` // "glyf", "cff", "cid", "none"
	NumGlyphs   int      `json:"num_glyphs"`
	Glyphs      string   `json:"glyphs"`       // digest: outlines without advance widths
	GlyphList   []string `json:"glyph_list"`   // per-glyph digests (empty when more than ListLimit glyphs)
	Widths      string   `json:"widths"`       // digest of the advance widths
	WidthList   []int    `json:"width_list"`   // advance widths in 1/4 units (empty when more than ListLimit glyphs or not exact)
	WidthsExact bool     `json:"widths_exact"` // all widths are multiples of 1/4
	WidthsInt   bool     `json:"widths_int"`   // all widths are integers
	GlyphNames  string   `json:"glyph_names"`
	OutlineAux  string   `json:"outline_aux"` // everything else in Outlines (maxp, cvt/fpgm/prep/gasp, private dicts, FDSelect, ROS, encoding, ...)
	FixedPitch  bool     `json:"fixed_pitch"`

	Cmap    string `json:"cmap"`
	CmapNil bool   `json:"cmap_nil"`
	Gdef    string `json:"gdef"`
	Gsub    string `json:"gsub"`
	GsubNil bool   `json:"gsub_nil"`
	Gpos    string `json:"gpos"`
}

func orEmpty[T any](s []T) []T {
	if s == nil {
		return []T{}
	}
	return s
}

// Project computes the projection of f.
func Project(f *sfnt.Font) *Font {
	p := &Font{
		Family:    f.FamilyName,
		Width:     int(f.Width),
		Weight:    int(f.Weight),
		IsRegular: f.IsRegular,
		IsBold:    f.IsBold,
		IsItalic:  f.IsItalic,
		IsOblique: f.IsOblique,
		IsSerif:   f.IsSerif,
		IsScript:  f.IsScript,
		CodePages: fmt.Sprintf("%016x", uint64(f.CodePageRange)),

		VerMajor: int(uint32(f.Version) >> 16),
		VerMinor: int(uint32(f.Version) & 0xFFFF),
		Created:  mkTime(f.CreationTime),
		Modified: mkTime(f.ModificationTime),

		Description: f.Description,
		SampleText:  f.SampleText,
		Copyright:   f.Copyright,
		Trademark:   f.Trademark,
		License:     f.License,
		LicenseURL:  f.LicenseURL,
		PermUse:     int(f.PermUse),

		UnitsPerEm: int(f.UnitsPerEm),

		Ascent:    int(f.Ascent),
		Descent:   int(f.Descent),
		LineGap:   int(f.LineGap),
		CapHeight: int(f.CapHeight),
		XHeight:   int(f.XHeight),

		ItalicAngle:        mkScaled(f.ItalicAngle, 1<<20),
		UnderlinePosition:  mkScaled(float64(f.UnderlinePosition), 4),
		UnderlineThickness: mkScaled(float64(f.UnderlineThickness), 4),
	}
	p.FamHas = []string{}
	for _, t := range StyleTags {
		if strings.Contains(f.FamilyName, t) {
			p.FamHas = append(p.FamHas, t)
		}
	}
	for _, x := range f.FontMatrix {
		p.FontMatrix = append(p.FontMatrix, mkReal9(x))
	}
	if f.UnitsPerEm != 0 {
		q := 1 / float64(f.UnitsPerEm)
		p.FMStd = f.FontMatrix == [6]float64{q, 0, 0, q, 0, 0}
	}

	p.GlyphList = []string{}
	p.WidthList = []int{}
	switch o := f.Outlines.(type) {
	case *glyf.Outlines:
		p.Kind = "glyf"
		p.NumGlyphs = len(o.Glyphs)
		gd := newDigester()
		for i, g := range o.Glyphs {
			var s string
			if g == nil {
				s = "nil"
			} else {
				s = CanonString(*g)
			}
			fmt.Fprintf(gd, "%d:%s\n", i, s)
			if len(o.Glyphs) <= ListLimit {
				p.GlyphList = append(p.GlyphList, shortDigest(s))
			}
		}
		p.Glyphs = gd.sum()
		p.WidthsExact = true
		p.WidthsInt = true
		wd := newDigester()
		fmt.Fprintf(wd, "%d:", len(o.Widths))
		for _, w := range o.Widths {
			fmt.Fprintf(wd, "%d,", 4*int(w))
			if len(o.Widths) <= ListLimit {
				p.WidthList = append(p.WidthList, 4*int(w))
			}
		}
		p.Widths = wd.sum()
		p.GlyphNames = Digest(orEmpty(o.Names))
		aux := newDigester()
		fmt.Fprintf(aux, "maxp=%s;tables=%s", CanonString(o.Maxp), CanonString(o.Tables))
		p.OutlineAux = aux.sum()
		if o.Widths != nil && len(o.Widths) == len(o.Glyphs) {
			p.FixedPitch = f.IsFixedPitch()
		}
	case *cff.Outlines:
		p.Kind = "cff"
		if o.IsCIDKeyed() {
			p.Kind = "cid"
		}
		p.NumGlyphs = len(o.Glyphs)
		gd := newDigester()
		wd := newDigester()
		nd := newDigester()
		p.WidthsExact = true
		p.WidthsInt = true
		fmt.Fprintf(wd, "%d:", len(o.Glyphs))
		for i, g := range o.Glyphs {
			var s string
			w := 0.0
			name := ""
			if g == nil {
				s = "nil"
			} else {
				s = fmt.Sprintf("cmds=%s;h=%s;v=%s", CanonString(g.Cmds), CanonString(g.HStem), CanonString(g.VStem))
				w = g.Width
				name = g.Name
			}
			fmt.Fprintf(gd, "%d:%s\n", i, s)
			fmt.Fprintf(nd, "%q,", name)
			if w != math.Trunc(w) {
				p.WidthsInt = false
			}
			w4, ok := scaled(w, 4)
			if !ok {
				p.WidthsExact = false
				fmt.Fprintf(wd, "%s,", FloatString(w))
			} else {
				fmt.Fprintf(wd, "%d,", w4)
			}
			if len(o.Glyphs) <= ListLimit {
				p.GlyphList = append(p.GlyphList, shortDigest(s))
				p.WidthList = append(p.WidthList, w4)
			}
		}
		if !p.WidthsExact {
			p.WidthList = []int{}
		}
		p.Glyphs = gd.sum()
		p.Widths = wd.sum()
		p.GlyphNames = nd.sum()
		aux := newDigester()
		fmt.Fprintf(aux, "private=%s;encoding=%s;ros=%s;gid2cid=%s;fm=%s;fdsel=", CanonString(o.Private),
			CanonString(orEmpty(o.Encoding)), CanonString(o.ROS), CanonString(orEmpty(o.GIDToCID)), CanonString(orEmpty(o.FontMatrices)))
		if o.FDSelect != nil {
			for i := range o.Glyphs {
				fmt.Fprintf(aux, "%d,", o.FDSelect(glyph.ID(i)))
			}
		} else {
			fmt.Fprintf(aux, "nil")
		}
		p.OutlineAux = aux.sum()
		p.FixedPitch = f.IsFixedPitch()
	default:
		p.Kind = "none"
	}

	p.CmapNil = f.CMapTable == nil
	p.Cmap = Digest(f.CMapTable)
	p.Gdef = Digest(f.Gdef)
	p.GsubNil = f.Gsub == nil
	p.Gsub = Digest(f.Gsub)
	p.Gpos = Digest(f.Gpos)
	return p
}

func shortDigest(s string) string {
	h := sha256.Sum256([]byte(s))
	return hex.EncodeToString(h[:6])
}

// Explain returns the canonical strings of the bulk fields (for the message of a
// reproduced violation; never used for a verdict).
func Explain(f *sfnt.Font, field string) string {
	switch field {
	case "gsub":
		return CanonString(f.Gsub)
	case "gpos":
		return CanonString(f.Gpos)
	case "gdef":
		return CanonString(f.Gdef)
	case "cmap":
		return CanonString(f.CMapTable)
	}
	return ""
}
