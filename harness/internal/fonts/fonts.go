// Package fonts constructs sfnt.Font values through the public API of go-sfnt.
// There are no font files in the repository, so every whole-font check builds its
// fonts here (plus the Go fonts shipped inside golang.org/x/image).
package fonts

import (
	"bytes"
	"fmt"
	"math/rand"
	"time"

	"golang.org/x/image/font/gofont/goregular"
	"golang.org/x/text/language"

	"seehuhn.de/go/geom/matrix"
	"seehuhn.de/go/postscript/cid"
	"seehuhn.de/go/postscript/funit"
	"seehuhn.de/go/postscript/type1"

	"seehuhn.de/go/sfnt"
	"seehuhn.de/go/sfnt/cff"
	"seehuhn.de/go/sfnt/cmap"
	"seehuhn.de/go/sfnt/glyf"
	"seehuhn.de/go/sfnt/glyph"
	"seehuhn.de/go/sfnt/head"
	"seehuhn.de/go/sfnt/maxp"
	"seehuhn.de/go/sfnt/opentype/classdef"
	"seehuhn.de/go/sfnt/opentype/coverage"
	"seehuhn.de/go/sfnt/opentype/gdef"
	"seehuhn.de/go/sfnt/opentype/gtab"
	"seehuhn.de/go/sfnt/os2"
)

// Opts selects the shape of a constructed font.
type Opts struct {
	Kind       string // "ttf", "cff" (simple CFF), "cid" (CID-keyed CFF)
	N          int    // number of glyphs, >= 1 (glyph 0 is .notdef)
	Composites int    // ttf: nesting depth of composite glyphs appended at the end (0 = none)
	Cmap       string // "4", "12", "none"
	Gsub       bool   // single + ligature substitution lookups (GSUB 1.1, 4.1)
	Gpos       bool   // pair adjustment lookup (GPOS 2.1)
	Gdef       bool   // glyph classes (forces mark glyphs)
	Names      bool   // ttf: glyph names present
	FDs        int    // cid: number of private dictionaries (>= 1)
	FracWidths bool   // cff/cid: non-integer advance widths
}

func (o Opts) String() string {
	return fmt.Sprintf("%s-n%d-c%d-cmap%s-gsub%v-gpos%v-gdef%v-names%v-fd%d-frac%v",
		o.Kind, o.N, o.Composites, o.Cmap, o.Gsub, o.Gpos, o.Gdef, o.Names, o.FDs, o.FracWidths)
}

// GoRegular returns the Go Regular TrueType font read by the library.
func GoRegular() (*sfnt.Font, error) {
	return sfnt.Read(bytes.NewReader(goregular.TTF))
}

// EncodeSimple encodes TrueType contours as the body of a simple glyph (everything after
// the 10-byte glyph header), using the most compact flag/coordinate forms.
func EncodeSimple(contours [][]glyf.Point, instr []byte) (body []byte, bbox funit.Rect16) {
	var pts []glyf.Point
	for _, c := range contours {
		end := len(pts) + len(c) - 1
		body = append(body, byte(end>>8), byte(end))
		pts = append(pts, c...)
	}
	body = append(body, byte(len(instr)>>8), byte(len(instr)))
	body = append(body, instr...)
	var flags, xs, ys []byte
	var px, py funit.Int16
	for i, p := range pts {
		var f byte
		if p.OnCurve {
			f |= 0x01
		}
		dx, dy := int(p.X-px), int(p.Y-py)
		switch {
		case dx == 0:
			f |= 0x10
		case dx > 0 && dx < 256:
			f |= 0x02 | 0x10
			xs = append(xs, byte(dx))
		case dx < 0 && dx > -256:
			f |= 0x02
			xs = append(xs, byte(-dx))
		default:
			xs = append(xs, byte(uint16(dx)>>8), byte(uint16(dx)))
		}
		switch {
		case dy == 0:
			f |= 0x20
		case dy > 0 && dy < 256:
			f |= 0x04 | 0x20
			ys = append(ys, byte(dy))
		case dy < 0 && dy > -256:
			f |= 0x04
			ys = append(ys, byte(-dy))
		default:
			ys = append(ys, byte(uint16(dy)>>8), byte(uint16(dy)))
		}
		flags = append(flags, f)
		px, py = p.X, p.Y
		if i == 0 {
			bbox = funit.Rect16{LLx: p.X, LLy: p.Y, URx: p.X, URy: p.Y}
		} else {
			if p.X < bbox.LLx {
				bbox.LLx = p.X
			}
			if p.X > bbox.URx {
				bbox.URx = p.X
			}
			if p.Y < bbox.LLy {
				bbox.LLy = p.Y
			}
			if p.Y > bbox.URy {
				bbox.URy = p.Y
			}
		}
	}
	body = append(body, flags...)
	body = append(body, xs...)
	body = append(body, ys...)
	return body, bbox
}

// RandContours draws 1..3 small contours.
func RandContours(rng *rand.Rand) [][]glyf.Point {
	nc := 1 + rng.Intn(3)
	res := make([][]glyf.Point, nc)
	for i := range res {
		np := 3 + rng.Intn(5)
		x0, y0 := funit.Int16(rng.Intn(600)-100), funit.Int16(rng.Intn(900)-200)
		for j := 0; j < np; j++ {
			res[i] = append(res[i], glyf.Point{
				X:       x0 + funit.Int16(rng.Intn(700)-50),
				Y:       y0 + funit.Int16(rng.Intn(400)-50),
				OnCurve: j == 0 || rng.Intn(3) > 0,
			})
		}
	}
	return res
}

// SimpleTT builds a simple TrueType glyph.
func SimpleTT(contours [][]glyf.Point, instr []byte) *glyf.Glyph {
	body, bbox := EncodeSimple(contours, instr)
	return &glyf.Glyph{Rect16: bbox, Data: glyf.SimpleGlyph{NumContours: int16(len(contours)), Encoded: body}}
}

// CompositeTT builds a composite glyph of the given components with x/y offsets.
func CompositeTT(rng *rand.Rand, comps []glyph.ID, bbox funit.Rect16) *glyf.Glyph {
	cg := glyf.CompositeGlyph{}
	for i, c := range comps {
		flags := glyf.FlagArgsAreXYValues
		var data []byte
		if rng.Intn(2) == 0 {
			flags |= glyf.FlagArg1And2AreWords
			dx, dy := int16(rng.Intn(600)-300), int16(rng.Intn(600)-300)
			data = append(data, byte(uint16(dx)>>8), byte(dx), byte(uint16(dy)>>8), byte(dy))
		} else {
			data = append(data, byte(int8(rng.Intn(200)-100)), byte(int8(rng.Intn(200)-100)))
		}
		switch rng.Intn(4) {
		case 1:
			flags |= glyf.FlagWeHaveAScale
			data = append(data, 0x40, 0x00)
		case 2:
			flags |= glyf.FlagWeHaveAnXAndYScale
			data = append(data, 0x40, 0x00, 0x20, 0x00)
		case 3:
			flags |= glyf.FlagWeHaveATwoByTwo
			data = append(data, 0x40, 0x00, 0x00, 0x00, 0x00, 0x00, 0x40, 0x00)
		}
		if i+1 < len(comps) {
			flags |= glyf.FlagMoreComponents
		}
		cg.Components = append(cg.Components, glyf.GlyphComponent{Flags: flags, GlyphIndex: c, Data: data})
	}
	return &glyf.Glyph{Rect16: bbox, Data: cg}
}

var glyphNames = []string{".notdef", "space", "A", "B", "C", "D", "f", "i", "l", "fi", "fl", "acutecomb",
	"gravecomb", "a", "b", "c", "d", "e", "g", "h", "zero", "one", "two", "T", "V", "o", "period", "comma"}

// NameOf returns the glyph name used for glyph i of a constructed font.
func NameOf(i int) string {
	if i < len(glyphNames) {
		return glyphNames[i]
	}
	return fmt.Sprintf("g%05d", i)
}

var codeOf = map[string]rune{"space": ' ', "A": 'A', "B": 'B', "C": 'C', "D": 'D', "f": 'f', "i": 'i', "l": 'l',
	"fi": 0xFB01, "fl": 0xFB02, "acutecomb": 0x0301, "gravecomb": 0x0300, "a": 'a', "b": 'b', "c": 'c', "d": 'd',
	"e": 'e', "g": 'g', "h": 'h', "zero": '0', "one": '1', "two": '2', "T": 'T', "V": 'V', "o": 'o',
	"period": '.', "comma": ','}

// CodeOf returns the character mapped to glyph i (0 = unmapped).
func CodeOf(i int, wide bool) rune {
	if i == 0 {
		return 0
	}
	if i < len(glyphNames) {
		return codeOf[glyphNames[i]]
	}
	if wide && i%7 == 0 {
		return rune(0x1F600 + i)
	}
	return rune(0x4E00 + i)
}

// IsMarkGlyph tells which glyph indices are marks in fonts with a GDEF table.
func IsMarkGlyph(i int) bool { return i == 11 || i == 12 }

// Make constructs a font.
func Make(rng *rand.Rand, o Opts) *sfnt.Font {
	if o.N < 1 {
		o.N = 1
	}
	f := &sfnt.Font{
		FamilyName:         "Verif " + o.Kind,
		Width:              os2.WidthNormal,
		Weight:             os2.WeightNormal,
		IsRegular:          true,
		CodePageRange:      1 << os2.CP1252,
		Version:            head.Version(0x00010000 + uint32(rng.Intn(9))*0x1000),
		CreationTime:       time.Date(2020, 1, 2, 3, 4, 5, 0, time.UTC),
		ModificationTime:   time.Date(2021, 6, 7, 8, 9, 10, 0, time.UTC),
		Description:        "constructed by the verification harness",
		SampleText:         "ABC fi fl",
		Copyright:          "(c) nobody",
		Trademark:          "none",
		License:            "free",
		LicenseURL:         "https://example.com/license",
		UnitsPerEm:         1000,
		FontMatrix:         matrix.Matrix{0.001, 0, 0, 0.001, 0, 0},
		Ascent:             800,
		Descent:            -200,
		LineGap:            100,
		CapHeight:          700,
		XHeight:            500,
		UnderlinePosition:  -100,
		UnderlineThickness: 50,
	}
	total := o.N
	switch o.Kind {
	case "ttf":
		out := &glyf.Outlines{Maxp: &maxp.TTFInfo{MaxPoints: 40, MaxContours: 3, MaxCompositePoints: 80,
			MaxCompositeContours: 6, MaxZones: 2, MaxComponentElements: 3, MaxComponentDepth: uint16(o.Composites)},
			Tables: map[string][]byte{}}
		for i := 0; i < o.N; i++ {
			if i == 1 || (i > 3 && rng.Intn(9) == 0) {
				out.Glyphs = append(out.Glyphs, nil) // empty glyph (space)
			} else {
				out.Glyphs = append(out.Glyphs, SimpleTT(RandContours(rng), nil))
			}
			out.Widths = append(out.Widths, funit.Int16(200+rng.Intn(800)))
		}
		// composite glyphs, nested Composites deep; each level refers to the previous one
		firstSimple := -1
		for i, g := range out.Glyphs {
			if g != nil {
				firstSimple = i
				break
			}
		}
		for d := 0; d < o.Composites && firstSimple >= 0; d++ {
			comps := []glyph.ID{glyph.ID(len(out.Glyphs) - 1)}
			if out.Glyphs[len(out.Glyphs)-1] == nil {
				comps[0] = glyph.ID(firstSimple)
			}
			if rng.Intn(2) == 0 {
				comps = append(comps, glyph.ID(firstSimple))
			}
			out.Glyphs = append(out.Glyphs, CompositeTT(rng, comps, funit.Rect16{LLx: -300, LLy: -300, URx: 1200, URy: 1200}))
			out.Widths = append(out.Widths, funit.Int16(300+rng.Intn(500)))
		}
		total = len(out.Glyphs)
		if o.Names {
			for i := 0; i < total; i++ {
				out.Names = append(out.Names, NameOf(i))
			}
		}
		f.Outlines = out
	case "cff", "cid":
		out := &cff.Outlines{}
		for i := 0; i < o.N; i++ {
			w := float64(200 + rng.Intn(800))
			if o.FracWidths && i%3 == 1 {
				w += 0.5
			}
			name := NameOf(i)
			if o.Kind == "cid" {
				name = ""
			}
			g := cff.NewGlyph(name, w)
			if i != 1 {
				nsub := 1 + rng.Intn(2)
				for s := 0; s < nsub; s++ {
					x, y := float64(rng.Intn(500)), float64(rng.Intn(700))
					g.MoveTo(x, y)
					for k := 0; k < 2+rng.Intn(4); k++ {
						if rng.Intn(3) == 0 {
							g.CurveTo(x+10, y+20, x+50, y+80, x+100, y+float64(rng.Intn(90)))
							x += 100
						} else {
							x += float64(rng.Intn(200) - 50)
							y += float64(rng.Intn(200) - 80)
							g.LineTo(x, y)
						}
					}
				}
				if rng.Intn(2) == 0 {
					g.HStem = []float64{0, 50, 400, 450}
					g.VStem = []float64{20, 80}
				}
			}
			out.Glyphs = append(out.Glyphs, g)
		}
		nfd := 1
		if o.Kind == "cid" && o.FDs > 1 {
			nfd = o.FDs
		}
		for i := 0; i < nfd; i++ {
			out.Private = append(out.Private, &type1.PrivateDict{
				BlueValues: []funit.Int16{-10, 0, 700, 710},
				BlueScale:  0.039625, BlueShift: 7, BlueFuzz: 1,
				StdHW: float64(40 + i), StdVW: float64(80 + i),
			})
		}
		if o.Kind == "cid" {
			out.ROS = &cid.SystemInfo{Registry: "Adobe", Ordering: "Identity", Supplement: 0}
			out.GIDToCID = make([]cid.CID, o.N)
			for i := 1; i < o.N; i++ {
				out.GIDToCID[i] = cid.CID(2*i + 1)
			}
			n := nfd
			out.FDSelect = func(g glyph.ID) int { return int(g) % n }
			for i := 0; i < nfd; i++ {
				out.FontMatrices = append(out.FontMatrices, matrix.Identity)
			}
		} else {
			out.FDSelect = func(glyph.ID) int { return 0 }
			out.Encoding = make([]glyph.ID, 256)
			// the documented contiguity rule: the encoded glyphs are exactly 1..k
			k := o.N - 1
			if k > 180 {
				k = 180
			}
			for i := 1; i <= k; i++ {
				c := rune(32 + i)
				if cc := CodeOf(i, false); cc > 32 && cc < 128 && i < len(glyphNames) {
					c = cc
				}
				if out.Encoding[c] != 0 {
					c = rune(128 + i%100)
				}
				for out.Encoding[c] != 0 {
					c = (c+1)%200 + 33
				}
				out.Encoding[c] = glyph.ID(i)
			}
			if k >= 2 {
				out.Encoding[250] = 2 // a multiply-encoded glyph (encoding supplement)
			}
		}
		f.Outlines = out
	default:
		panic("unknown font kind " + o.Kind)
	}

	switch o.Cmap {
	case "4":
		m := cmap.Format4{}
		for i := 1; i < total; i++ {
			if c := CodeOf(i, false); c > 0 && c < 0x10000 {
				m[uint16(c)] = glyph.ID(i)
			}
		}
		f.InstallCMap(m)
	case "12":
		m := cmap.Format12{}
		for i := 1; i < total; i++ {
			if c := CodeOf(i, true); c > 0 {
				m[uint32(c)] = glyph.ID(i)
			}
		}
		f.InstallCMap(m)
	}

	latn := language.MustParse("und-Latn-x-latn")
	_ = latn
	if o.Gsub && total > 10 {
		f.Gsub = &gtab.Info{
			ScriptList: gtab.ScriptListInfo{
				language.MustParse("und-Zyyy"): {Required: 0xFFFF, Optional: []gtab.FeatureIndex{0, 1}},
			},
			FeatureList: gtab.FeatureListInfo{
				{Tag: "liga", Lookups: []gtab.LookupIndex{0}},
				{Tag: "smcp", Lookups: []gtab.LookupIndex{1}},
			},
			LookupList: gtab.LookupList{
				{Meta: &gtab.LookupMetaInfo{LookupType: 4}, Subtables: []gtab.Subtable{
					&gtab.Gsub4_1{Cov: coverage.Table{6: 0}, Repl: [][]gtab.Ligature{{
						{In: []glyph.ID{7}, Out: 9}, {In: []glyph.ID{8}, Out: 10}}}},
				}},
				{Meta: &gtab.LookupMetaInfo{LookupType: 1}, Subtables: []gtab.Subtable{
					&gtab.Gsub1_1{Cov: coverage.Set{2: true, 3: true}, Delta: 2},
				}},
			},
		}
	}
	if o.Gpos && total > 5 {
		f.Gpos = &gtab.Info{
			ScriptList: gtab.ScriptListInfo{
				language.MustParse("und-Zyyy"): {Required: 0xFFFF, Optional: []gtab.FeatureIndex{0}},
			},
			FeatureList: gtab.FeatureListInfo{{Tag: "kern", Lookups: []gtab.LookupIndex{0}}},
			LookupList: gtab.LookupList{
				{Meta: &gtab.LookupMetaInfo{LookupType: 2}, Subtables: []gtab.Subtable{
					gtab.Gpos2_1{
						{Left: 2, Right: 3}: {First: &gtab.GposValueRecord{XAdvance: -50}},
						{Left: 2, Right: 4}: {First: &gtab.GposValueRecord{XAdvance: -30}},
						{Left: 3, Right: 2}: {First: &gtab.GposValueRecord{XAdvance: 25}},
					},
				}},
			},
		}
	}
	if o.Gdef && total > 12 {
		gc := classdef.Table{}
		for i := 1; i < total; i++ {
			switch {
			case IsMarkGlyph(i):
				gc[glyph.ID(i)] = gdef.GlyphClassMark
			case i == 9 || i == 10:
				gc[glyph.ID(i)] = gdef.GlyphClassLigature
			case i < len(glyphNames):
				gc[glyph.ID(i)] = gdef.GlyphClassBase
			}
		}
		f.Gdef = &gdef.Table{GlyphClass: gc}
	}
	return f
}

// Corpus returns a deterministic list of option sets covering both outline kinds.
func Corpus(thorough bool) []Opts {
	res := []Opts{
		{Kind: "ttf", N: 30, Cmap: "4", Names: true, Gsub: true, Gpos: true},
		{Kind: "cff", N: 30, Cmap: "4", Gsub: true},
		{Kind: "cid", N: 12, Cmap: "4", FDs: 3},
		{Kind: "ttf", N: 5, Cmap: "4", Composites: 2},
	}
	if thorough {
		res = append(res,
			Opts{Kind: "ttf", N: 40, Cmap: "12", Composites: 3, Gdef: true, Gsub: true, Gpos: true, Names: true},
			Opts{Kind: "ttf", N: 1, Cmap: "none"},
			Opts{Kind: "ttf", N: 300, Cmap: "4"},
			Opts{Kind: "cff", N: 40, Cmap: "12", Gpos: true, Gdef: true, FracWidths: true},
			Opts{Kind: "cff", N: 1, Cmap: "none"},
			Opts{Kind: "cff", N: 300, Cmap: "4"},
			Opts{Kind: "cid", N: 40, Cmap: "12", FDs: 1, Gsub: true},
			Opts{Kind: "cid", N: 300, Cmap: "4", FDs: 7, FracWidths: true},
		)
	}
	return res
}
