// Package cmapx holds the helpers of the C09 harness: word/byte conversion, Lookup sweeps
// over the code space, a golang.org/x/image wrapper and the seeded big-map generators.
package cmapx

import (
	"bytes"
	"fmt"
	"math/rand"
	"sort"

	xsfnt "golang.org/x/image/font/sfnt"

	"seehuhn.de/go/sfnt"
	"seehuhn.de/go/sfnt/cmap"
	"verif.local/harness/internal/fonts"
)

// MaxCP is the last Unicode code point.
const MaxCP = 0x10FFFF

// Words splits an even-length byte slice into big-endian 16-bit words; odd reports a dangling byte.
func Words(b []byte) (w []int, odd int) {
	w = make([]int, 0, len(b)/2)
	for i := 0; i+1 < len(b); i += 2 {
		w = append(w, int(b[i])<<8|int(b[i+1]))
	}
	return w, len(b) % 2
}

// Bytes is the inverse of Words.
func Bytes(w []int) []byte {
	b := make([]byte, 0, 2*len(w))
	for _, x := range w {
		b = append(b, byte(x>>8), byte(x))
	}
	return b
}

// Ints converts bytes to a JSON-friendly int slice.
func Ints(b []byte) []int {
	r := make([]int, len(b))
	for i, x := range b {
		r[i] = int(x)
	}
	return r
}

// FromInts converts back.
func FromInts(a []int) []byte {
	b := make([]byte, len(a))
	for i, x := range a {
		b[i] = byte(x)
	}
	return b
}

// Probes returns the code points queried by a sampled sweep beyond plane 0 (which is always
// queried completely): the images of the given codes (and of the plane corners) in every other
// plane, the codes themselves with both neighbours, and 4096 seeded random code points.
func Probes(codes []int, rng *rand.Rand) []int32 {
	seen := make(map[int32]bool)
	var extra []int32
	add := func(c int) {
		if c < 0x10000 || c > MaxCP || seen[int32(c)] {
			return
		}
		seen[int32(c)] = true
		extra = append(extra, int32(c))
	}
	low := []int{0, 1, 0xFFFE, 0xFFFF}
	for _, c := range codes {
		low = append(low, c&0xFFFF)
		add(c - 1)
		add(c)
		add(c + 1)
	}
	for plane := 1; plane <= 16; plane++ {
		for _, c := range low {
			add(plane<<16 | c)
		}
	}
	for i := 0; i < 4096; i++ {
		add(0x10000 + rng.Intn(MaxCP+1-0x10000))
	}
	sort.Slice(extra, func(i, j int) bool { return extra[i] < extra[j] })
	return extra
}

// MaxHigh bounds the number of logged non-zero answers beyond plane 0 when the subtable is a
// 16-bit format (any such answer is already a disagreement; the log stays small).
const MaxHigh = 64

// Sweep queries lookup on 0..0x10FFFF (full) or on plane 0 plus extra, and returns the
// code points with a non-zero answer, ascending, with the answers.  wide = false: at most
// MaxHigh answers beyond 0xFFFF are logged.
func Sweep(lookup func(rune) int, full bool, extra []int32, wide bool) (cs, gs []int) {
	cs, gs = []int{}, []int{}
	high := 0
	probe := func(c int) {
		if g := lookup(rune(c)); g != 0 {
			if c > 0xFFFF && !wide {
				if high >= MaxHigh {
					return
				}
				high++
			}
			cs = append(cs, c)
			gs = append(gs, g)
		}
	}
	top := 0xFFFF
	if full {
		top = MaxCP
	}
	for c := 0; c <= top; c++ {
		probe(c)
	}
	if !full {
		for _, c := range extra {
			probe(int(c))
		}
	}
	return
}

// LibDecode hands one subtable to the library decoder under the given key (Table.Get) and
// sweeps Lookup.  ok = 0 when the library rejects the subtable or panics.
func LibDecode(key cmap.Key, sub []byte, full bool, extra []int32) (ok int, cs, gs []int, msg string) {
	cs, gs = []int{}, []int{}
	defer func() {
		if r := recover(); r != nil {
			ok, cs, gs, msg = 0, []int{}, []int{}, fmt.Sprint("panic: ", r)
		}
	}()
	st, err := cmap.Table{key: sub}.Get(key)
	if err != nil {
		return 0, cs, gs, err.Error()
	}
	wide := len(sub) >= 2 && (int(sub[0])<<8|int(sub[1])) >= 8
	cs, gs = Sweep(func(r rune) int { return int(st.Lookup(r)) }, full, extra, wide)
	return 1, cs, gs, ""
}

// XImage wraps the subtable into a small TrueType font written by the library, parses the
// file with golang.org/x/image/font/sfnt and sweeps GlyphIndex.
type XImage struct {
	base *sfnt.Font
}

// NewXImage prepares the carrier font.
func NewXImage() *XImage {
	f := fonts.Make(rand.New(rand.NewSource(7)), fonts.Opts{Kind: "ttf", N: 4, Cmap: "none"})
	return &XImage{base: f}
}

// Decode returns the x/image view of the subtable stored under key.
func (x *XImage) Decode(key cmap.Key, sub []byte, full bool, extra []int32) (ok int, cs, gs []int, msg string) {
	cs, gs = []int{}, []int{}
	defer func() {
		if r := recover(); r != nil {
			ok, cs, gs, msg = 0, []int{}, []int{}, fmt.Sprint("panic: ", r)
		}
	}()
	f := *x.base
	f.CMapTable = cmap.Table{key: sub}
	var buf bytes.Buffer
	if _, err := f.Write(&buf); err != nil {
		return 0, cs, gs, "write: " + err.Error()
	}
	xf, err := xsfnt.Parse(buf.Bytes())
	if err != nil {
		return 0, cs, gs, "x/image parse: " + err.Error()
	}
	var b xsfnt.Buffer
	var lerr error
	cs, gs = Sweep(func(r rune) int {
		g, err := xf.GlyphIndex(&b, r)
		if err != nil {
			lerr = err
			return 0
		}
		return int(g)
	}, full, extra, key.EncodingID == 10)
	if lerr != nil {
		return 0, []int{}, []int{}, "x/image GlyphIndex: " + lerr.Error()
	}
	return 1, cs, gs, ""
}

// BigMap is a seeded large map for the V binding.
type BigMap struct {
	Fmt   int    `json:"fmt"`
	Class string `json:"class"`
	Lang  int    `json:"lang"`
	IC    []int  `json:"ic"`
	IG    []int  `json:"ig"`
}

// RandomMap draws a map that certainly fits its format: format 4 maps have an encoding of at
// most 65535 bytes (one delta segment per mapped code, or one explicit array over the whole
// span), format 12 maps have at most 65536 entries and never an explicit 0 after glyph 65535.
func RandomMap(rng *rand.Rand, thorough bool, k int) BigMap {
	langs := []int{0, 0, 3, 65535}
	m := BigMap{Lang: langs[rng.Intn(len(langs))]}
	gid := func() int { return 1 + rng.Intn(65535) }
	classes4 := []string{"isolated", "window", "runs", "dense"}
	scale := 1
	if !thorough {
		scale = 8
	}
	if k%3 == 2 {
		m.Fmt = 12
		m.Class = "runs12"
		n := 1 + rng.Intn(65536/scale)
		if k%9 == 8 {
			n = 65536 - (k/9)%2 // the entry limit of the property's quantifier and the last count below it, in every tier
		}
		c := rng.Intn(64)
		if rng.Intn(3) == 0 {
			c = 0x10000 - rng.Intn(200)
		}
		for len(m.IC) < n && c <= MaxCP {
			run := 1 + rng.Intn(40)
			if rng.Intn(5) == 0 {
				run = 1 + rng.Intn(3000)
			}
			g := 1 + rng.Intn(65535)
			kind := rng.Intn(3)
			for j := 0; j < run && len(m.IC) < n && c <= MaxCP; j++ {
				v := g
				switch kind {
				case 0:
					v = g + j
				case 1:
					v = gid()
				}
				if v > 65535 {
					v = 65535
				}
				m.IC = append(m.IC, c)
				m.IG = append(m.IG, v)
				c++
			}
			gap := 1 + rng.Intn(30)
			if rng.Intn(8) == 0 {
				gap = rng.Intn(MaxCP / 20)
			}
			c += gap
		}
		if len(m.IC) > 0 && len(m.IC) < n && rng.Intn(2) == 0 && m.IC[len(m.IC)-1] < MaxCP {
			m.IC = append(m.IC, MaxCP)
			m.IG = append(m.IG, gid())
		}
		return m
	}
	m.Fmt = 4
	m.Class = classes4[(k-k/3)%len(classes4)]
	switch m.Class {
	case "isolated": // every mapped code its own segment: 16 + 8(n+1) <= 65535
		n := 1 + rng.Intn(8187/scale)
		if thorough && k%8 == 0 {
			n = 8187 - rng.Intn(3)
		}
		cs := rng.Perm(65536)[:n]
		sort.Ints(cs)
		for _, c := range cs {
			m.IC = append(m.IC, c)
			m.IG = append(m.IG, gid())
		}
	case "window": // one explicit array over the span: 32 + 2W <= 65535
		w := 1 + rng.Intn(32751/scale)
		if thorough && k%8 == 1 {
			w = 32751 - rng.Intn(4)
		}
		lo := rng.Intn(0x10000 - w)
		if rng.Intn(3) == 0 {
			lo = 0xFFFF - w // the window ends at 0xFFFE
		}
		hole := rng.Intn(4) * 10
		for c := lo; c < lo+w; c++ {
			if rng.Intn(100) < hole {
				continue
			}
			m.IC = append(m.IC, c)
			m.IG = append(m.IG, gid())
		}
	case "runs": // at most 8000 mapped codes
		n := 1 + rng.Intn(8000/scale)
		c := rng.Intn(300)
		for len(m.IC) < n && c <= 0xFFFF {
			run := 1 + rng.Intn(12)
			g := gid()
			kind := rng.Intn(4)
			for j := 0; j < run && len(m.IC) < n && c <= 0xFFFF; j++ {
				v := (g + j) & 0xFFFF
				switch kind {
				case 1:
					v = gid()
				case 2:
					v = g
				case 3:
					if j%3 == 1 {
						v = 0 // explicit zero entry
					}
				}
				m.IC = append(m.IC, c)
				m.IG = append(m.IG, v)
				c++
			}
			c += 1 + rng.Intn(9)
			if rng.Intn(20) == 0 {
				c += rng.Intn(3000)
			}
		}
		if rng.Intn(2) == 0 && (len(m.IC) == 0 || m.IC[len(m.IC)-1] < 0xFFFF) {
			m.IC = append(m.IC, 0xFFFF)
			m.IG = append(m.IG, gid())
		}
	case "dense": // (almost) every code mapped with one delta, a few exceptions
		delta := rng.Intn(65536)
		exc := map[int]int{}
		for i := rng.Intn(60 / scale * 2); i > 0; i-- {
			exc[rng.Intn(65536)] = rng.Intn(65536)
		}
		lo, hi := 0, 0xFFFF
		if rng.Intn(2) == 0 {
			lo, hi = rng.Intn(2000), 0xFFFF-rng.Intn(2000)
		}
		for c := lo; c <= hi; c++ {
			v := (c + delta) & 0xFFFF
			if e, ok := exc[c]; ok {
				v = e
			}
			if v == 0 && rng.Intn(2) == 0 {
				continue
			}
			m.IC = append(m.IC, c)
			m.IG = append(m.IG, v)
		}
	}
	if m.IC == nil {
		m.IC, m.IG = []int{}, []int{}
	}
	return m
}
