// Package sfntwalk is an independent reader of the sfnt container structure (offset table,
// table records, checksums).  It shares no code with seehuhn.de/go/sfnt/header and never
// rejects anything: it reports what the bytes say, as far as they can be read.
package sfntwalk

// Record is one table record of the directory.
type Record struct {
	Tag    [4]byte
	Sum    uint32 // checksum stored in the directory
	Off    uint32
	Len    uint32
	Inside bool   // Off+Len <= len(file)
	Calc   uint32 // checksum of the zero-padded table bytes (0 unless Inside)
}

// Dir is the decoded directory.
type Dir struct {
	OK            bool // offset table and all records are inside the file
	Scaler        uint32
	NumTables     int
	SearchRange   int
	EntrySelector int
	RangeShift    int
	Recs          []Record
	FileSum       uint32 // sum of all big-endian words of the zero-padded file
	FileLen       int
}

func be16(b []byte) int { return int(b[0])<<8 | int(b[1]) }
func be32(b []byte) uint32 {
	return uint32(b[0])<<24 | uint32(b[1])<<16 | uint32(b[2])<<8 | uint32(b[3])
}

// Checksum adds the big-endian 32-bit words of b, b being extended by zero bytes to a
// multiple of four, modulo 2^32.
func Checksum(b []byte) uint32 {
	var s uint32
	i := 0
	for ; i+4 <= len(b); i += 4 {
		s += be32(b[i:])
	}
	if i < len(b) {
		var last [4]byte
		copy(last[:], b[i:])
		s += be32(last[:])
	}
	return s
}

// Walk decodes the directory of file.
func Walk(file []byte) *Dir {
	d := &Dir{FileLen: len(file), FileSum: Checksum(file)}
	if len(file) < 12 {
		return d
	}
	d.Scaler = be32(file)
	d.NumTables = be16(file[4:])
	d.SearchRange = be16(file[6:])
	d.EntrySelector = be16(file[8:])
	d.RangeShift = be16(file[10:])
	if 12+16*d.NumTables > len(file) {
		return d
	}
	d.OK = true
	for i := 0; i < d.NumTables; i++ {
		b := file[12+16*i:]
		r := Record{Sum: be32(b[4:]), Off: be32(b[8:]), Len: be32(b[12:])}
		copy(r.Tag[:], b[:4])
		end := uint64(r.Off) + uint64(r.Len)
		if end <= uint64(len(file)) {
			r.Inside = true
			r.Calc = Checksum(file[r.Off:end])
		}
		d.Recs = append(d.Recs, r)
	}
	return d
}

// DataEnd is the end of the last byte of table data (0 if there is none): a file cut
// anywhere before DataEnd has lost table data, a file cut at or behind it only padding.
func (d *Dir) DataEnd() int {
	end := 0
	for _, r := range d.Recs {
		if r.Len > 0 && r.Inside && int(r.Off+r.Len) > end {
			end = int(r.Off + r.Len)
		}
	}
	return end
}

// Halves splits a 32-bit word into 16-bit halves (TLC integers are 32-bit signed).
func Halves(x uint32) [2]int { return [2]int{int(x >> 16), int(x & 0xFFFF)} }

// Table is a named table body.
type Table struct {
	Tag  string
	Data []byte
}

// Tables returns the tables of a file in physical order (by offset, then by tag).
func (d *Dir) Tables(file []byte) []Table {
	recs := append([]Record(nil), d.Recs...)
	for i := 1; i < len(recs); i++ { // insertion sort: few records
		for j := i; j > 0 && (recs[j].Off < recs[j-1].Off ||
			recs[j].Off == recs[j-1].Off && string(recs[j].Tag[:]) < string(recs[j-1].Tag[:])); j-- {
			recs[j], recs[j-1] = recs[j-1], recs[j]
		}
	}
	var res []Table
	for _, r := range recs {
		if r.Inside {
			res = append(res, Table{Tag: string(r.Tag[:]), Data: append([]byte{}, file[r.Off:r.Off+r.Len]...)})
		}
	}
	return res
}

func put16(b []byte, x int) { b[0], b[1] = byte(x>>8), byte(x) }
func put32(b []byte, x uint32) {
	b[0], b[1], b[2], b[3] = byte(x>>24), byte(x>>16), byte(x>>8), byte(x)
}

// Assemble builds an sfnt container whose tables lie in the given physical order (an
// independent writer: directory sorted by tag, zero padding, checksums, head adjustment).
// The last table is padded only if padLast is set.
func Assemble(scaler uint32, tabs []Table, padLast bool) []byte {
	n := len(tabs)
	e := 0
	for 1<<(e+1) <= n {
		e++
	}
	hdr := make([]byte, 12+16*n)
	put32(hdr, scaler)
	put16(hdr[4:], n)
	if n > 0 {
		put16(hdr[6:], 16<<e)
		put16(hdr[8:], e)
		put16(hdr[10:], 16*n-16<<e)
	}
	order := make([]int, n) // directory order: by tag
	for i := range order {
		order[i] = i
	}
	for i := 1; i < n; i++ {
		for j := i; j > 0 && tabs[order[j]].Tag < tabs[order[j-1]].Tag; j-- {
			order[j], order[j-1] = order[j-1], order[j]
		}
	}
	offs := make([]int, n)
	body := []byte{}
	headAt := -1
	for i, t := range tabs {
		offs[i] = len(hdr) + len(body)
		data := append([]byte{}, t.Data...)
		if t.Tag == "head" && len(data) >= 12 {
			put32(data[8:], 0)
			headAt = offs[i]
		}
		body = append(body, data...)
		if i < n-1 || padLast {
			for len(body)%4 != 0 {
				body = append(body, 0)
			}
		}
	}
	for q, i := range order {
		rec := hdr[12+16*q:]
		copy(rec, tabs[i].Tag)
		put32(rec[4:], Checksum(body[offs[i]-len(hdr):offs[i]-len(hdr)+len(tabs[i].Data)]))
		put32(rec[8:], uint32(offs[i]))
		put32(rec[12:], uint32(len(tabs[i].Data)))
	}
	file := append(hdr, body...)
	if headAt >= 0 {
		put32(file[headAt+8:], 0xB1B0AFBA-Checksum(file))
	}
	return file
}
