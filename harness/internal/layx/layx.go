// Package layx turns the font descriptions of spec/LayoutPipe*.tla (JSON cases) into real
// sfnt.Font values, in memory or as files that are read back, for the C15 harness.
//
// Nothing in here judges anything: the recorded calls are validated by LayoutPipeTrace.tla.
package layx

import (
	"bytes"
	"fmt"
	"math/bits"
	"math/rand"
	"sort"

	"golang.org/x/text/language"

	"seehuhn.de/go/postscript/funit"

	"seehuhn.de/go/sfnt"
	"seehuhn.de/go/sfnt/cff"
	"seehuhn.de/go/sfnt/cmap"
	"seehuhn.de/go/sfnt/glyf"
	"seehuhn.de/go/sfnt/glyph"
	"seehuhn.de/go/sfnt/header"
	"seehuhn.de/go/sfnt/opentype/classdef"
	"seehuhn.de/go/sfnt/opentype/coverage"
	"seehuhn.de/go/sfnt/opentype/gdef"
	"seehuhn.de/go/sfnt/opentype/gtab"

	"verif.local/harness/internal/fonts"
)

// Lang is a language tag with the OpenType script/language-system tags it stands for.
type Lang struct {
	Tag    string `json:"tag"`
	Script string `json:"script"`
	Lang   string `json:"lang"`
}

// LangSys is one entry of a script list.
type LangSys struct {
	Tag    string `json:"tag"`
	Script string `json:"script"`
	Lang   string `json:"lang"`
	Req    int    `json:"req"`
	Opt    []int  `json:"opt"`
}

// Feature is one entry of a feature list.
type Feature struct {
	Tag string `json:"tag"`
	Lk  []int  `json:"lk"`
}

// Lookup is a simple lookup: rules in priority order.
type Lookup struct {
	Ty    int     `json:"ty"`
	Rules [][]int `json:"rules"`
}

// Table is a GSUB or GPOS table.
type Table struct {
	Present bool      `json:"present"`
	SL      []LangSys `json:"sl"`
	FL      []Feature `json:"fl"`
	LL      []Lookup  `json:"ll"`
}

// KernSub is one format-0 subtable of a version-0 kern table.
type KernSub struct {
	Horiz bool    `json:"horiz"`
	Min   bool    `json:"min"`
	Cross bool    `json:"cross"`
	Over  bool    `json:"over"`
	Pairs [][]int `json:"pairs"`
}

// Kern is a kern table.
type Kern struct {
	Present bool      `json:"present"`
	Subs    []KernSub `json:"subs"`
}

// Font is the font file of a case.
type Font struct {
	HasFull bool    `json:"hasFull"`
	Full    [][]int `json:"full"`
	HasBmp  bool    `json:"hasBmp"`
	Bmp     [][]int `json:"bmp"`
	Widths  []int   `json:"widths"`
	Marks   []int   `json:"marks"`
	Gsub    Table   `json:"gsub"`
	Gpos    Table   `json:"gpos"`
	Kern    Kern    `json:"kern"`
	Read    bool    `json:"read"`
}

// Sw is a feature-switch map (Nil: the caller passes nil).
type Sw struct {
	Nil bool     `json:"nil"`
	On  []string `json:"on"`
	Off []string `json:"off,omitempty"` // tags explicitly switched off (same meaning as absent)
}

// Map returns the Go map for a switch description.
func (s Sw) Map() map[string]bool {
	if s.Nil {
		return nil
	}
	m := map[string]bool{}
	for _, t := range s.Off {
		m[t] = false
	}
	for _, t := range s.On {
		m[t] = true
	}
	return m
}

func ranks(keys []glyph.ID) coverage.Table {
	sort.Slice(keys, func(i, j int) bool { return keys[i] < keys[j] })
	cov := coverage.Table{}
	for i, k := range keys {
		cov[k] = i
	}
	return cov
}

// lookupTable realises a rule list as subtables that are tried in order; the flat priority
// order of the rules is preserved (a new subtable starts where a key would repeat).
// variant > 0 additionally splits ligature rule lists in two subtables.
func lookupTable(kind string, lk Lookup, variant int) (*gtab.LookupTable, error) {
	res := &gtab.LookupTable{Meta: &gtab.LookupMetaInfo{LookupType: uint16(lk.Ty)}}
	switch {
	case kind == "GSUB" && lk.Ty == 1:
		var cur [][]int
		flush := func() {
			if len(cur) == 0 {
				return
			}
			var keys []glyph.ID
			for _, r := range cur {
				keys = append(keys, glyph.ID(r[0]))
			}
			cov := ranks(keys)
			subst := make([]glyph.ID, len(cur))
			for _, r := range cur {
				subst[cov[glyph.ID(r[0])]] = glyph.ID(r[1])
			}
			res.Subtables = append(res.Subtables, &gtab.Gsub1_2{Cov: cov, SubstituteGlyphIDs: subst})
			cur = nil
		}
		seen := map[int]bool{}
		for _, r := range lk.Rules {
			if seen[r[0]] {
				flush()
				seen = map[int]bool{}
			}
			seen[r[0]] = true
			cur = append(cur, r)
		}
		flush()
	case kind == "GSUB" && lk.Ty == 2:
		var cur [][]int
		flush := func() {
			if len(cur) == 0 {
				return
			}
			var keys []glyph.ID
			for _, r := range cur {
				keys = append(keys, glyph.ID(r[0]))
			}
			cov := ranks(keys)
			repl := make([][]glyph.ID, len(cur))
			for _, r := range cur {
				for _, g := range r[1:] {
					repl[cov[glyph.ID(r[0])]] = append(repl[cov[glyph.ID(r[0])]], glyph.ID(g))
				}
			}
			res.Subtables = append(res.Subtables, &gtab.Gsub2_1{Cov: cov, Repl: repl})
			cur = nil
		}
		seen := map[int]bool{}
		for _, r := range lk.Rules {
			if len(r) < 2 {
				return nil, fmt.Errorf("empty multiple substitution")
			}
			if seen[r[0]] {
				flush()
				seen = map[int]bool{}
			}
			seen[r[0]] = true
			cur = append(cur, r)
		}
		flush()
	case kind == "GPOS" && lk.Ty == 1:
		var cur [][]int
		flush := func() {
			if len(cur) == 0 {
				return
			}
			var keys []glyph.ID
			same := true
			for _, r := range cur {
				keys = append(keys, glyph.ID(r[0]))
				same = same && r[1] == cur[0][1] && r[2] == cur[0][2]
			}
			cov := ranks(keys)
			if same && variant%2 == 0 {
				// format 1: one value record for all covered glyphs
				res.Subtables = append(res.Subtables, &gtab.Gpos1_1{Cov: cov,
					Adjust: &gtab.GposValueRecord{XAdvance: funit.Int16(cur[0][1]), XPlacement: funit.Int16(cur[0][2])}})
			} else {
				adj := make([]*gtab.GposValueRecord, len(cur))
				for _, r := range cur {
					adj[cov[glyph.ID(r[0])]] = &gtab.GposValueRecord{XAdvance: funit.Int16(r[1]), XPlacement: funit.Int16(r[2])}
				}
				res.Subtables = append(res.Subtables, &gtab.Gpos1_2{Cov: cov, Adjust: adj})
			}
			cur = nil
		}
		seen := map[int]bool{}
		for _, r := range lk.Rules {
			if seen[r[0]] {
				flush()
				seen = map[int]bool{}
			}
			seen[r[0]] = true
			cur = append(cur, r)
		}
		flush()
	case kind == "GSUB" && lk.Ty == 4:
		parts := [][][]int{lk.Rules}
		if variant > 0 && len(lk.Rules) >= 2 {
			k := 1 + variant%(len(lk.Rules)-1)
			parts = [][][]int{lk.Rules[:k], lk.Rules[k:]}
		}
		for _, part := range parts {
			if len(part) == 0 {
				continue
			}
			var keys []glyph.ID
			seen := map[int]bool{}
			for _, r := range part {
				if !seen[r[1]] {
					seen[r[1]] = true
					keys = append(keys, glyph.ID(r[1]))
				}
			}
			cov := ranks(keys)
			repl := make([][]gtab.Ligature, len(keys))
			for _, r := range part {
				in := make([]glyph.ID, 0, len(r)-2)
				for _, g := range r[2:] {
					in = append(in, glyph.ID(g))
				}
				i := cov[glyph.ID(r[1])]
				repl[i] = append(repl[i], gtab.Ligature{In: in, Out: glyph.ID(r[0])})
			}
			res.Subtables = append(res.Subtables, &gtab.Gsub4_1{Cov: cov, Repl: repl})
		}
	case kind == "GPOS" && lk.Ty == 2:
		cur := gtab.Gpos2_1{}
		curTwo := -1
		flush := func() {
			if len(cur) > 0 {
				res.Subtables = append(res.Subtables, cur)
			}
			cur = gtab.Gpos2_1{}
			curTwo = -1
		}
		for _, r := range lk.Rules {
			key := glyph.Pair{Left: glyph.ID(r[0]), Right: glyph.ID(r[1])}
			if _, dup := cur[key]; dup || (curTwo >= 0 && curTwo != r[4]) {
				flush()
			}
			curTwo = r[4]
			adj := &gtab.PairAdjust{First: &gtab.GposValueRecord{XAdvance: funit.Int16(r[2]), XPlacement: funit.Int16(r[3])}}
			if r[4] == 1 {
				adj.Second = &gtab.GposValueRecord{XAdvance: funit.Int16(r[5])}
			}
			cur[key] = adj
		}
		flush()
	default:
		return nil, fmt.Errorf("lookup type %d not supported in %s", lk.Ty, kind)
	}
	return res, nil
}

// Info builds the gtab.Info of a table description.
func Info(kind string, t Table, variant int) (*gtab.Info, error) {
	if !t.Present {
		return nil, nil
	}
	info := &gtab.Info{ScriptList: gtab.ScriptListInfo{}}
	for _, ls := range t.SL {
		tag, err := language.Parse(ls.Tag)
		if err != nil {
			return nil, fmt.Errorf("tag %q: %v", ls.Tag, err)
		}
		f := &gtab.Features{Required: gtab.FeatureIndex(ls.Req)}
		for _, o := range ls.Opt {
			f.Optional = append(f.Optional, gtab.FeatureIndex(o))
		}
		if _, dup := info.ScriptList[tag]; dup {
			return nil, fmt.Errorf("duplicate tag %q", ls.Tag)
		}
		info.ScriptList[tag] = f
	}
	for _, ft := range t.FL {
		f := &gtab.Feature{Tag: ft.Tag}
		for _, l := range ft.Lk {
			f.Lookups = append(f.Lookups, gtab.LookupIndex(l))
		}
		info.FeatureList = append(info.FeatureList, f)
	}
	for _, lk := range t.LL {
		lt, err := lookupTable(kind, lk, variant)
		if err != nil {
			return nil, err
		}
		info.LookupList = append(info.LookupList, lt)
	}
	return info, nil
}

// KernBytes assembles a version-0 kern table from format-0 subtables.
func KernBytes(k Kern) []byte {
	buf := []byte{0, 0, byte(len(k.Subs) >> 8), byte(len(k.Subs))}
	for _, st := range k.Subs {
		pairs := append([][]int(nil), st.Pairs...)
		sort.Slice(pairs, func(i, j int) bool {
			if pairs[i][0] != pairs[j][0] {
				return pairs[i][0] < pairs[j][0]
			}
			return pairs[i][1] < pairs[j][1]
		})
		n := len(pairs)
		length := 14 + 6*n
		var flags byte
		if st.Horiz {
			flags |= 1
		}
		if st.Min {
			flags |= 2
		}
		if st.Cross {
			flags |= 4
		}
		if st.Over {
			flags |= 8
		}
		var entrySelector, searchRange, rangeShift int
		if n > 0 {
			entrySelector = bits.Len(uint(n)) - 1
			searchRange = 6 * (1 << entrySelector)
			rangeShift = 6*n - searchRange
		}
		buf = append(buf, 0, 0, byte(length>>8), byte(length), 0 /* format */, flags,
			byte(n>>8), byte(n), byte(searchRange>>8), byte(searchRange),
			byte(entrySelector>>8), byte(entrySelector), byte(rangeShift>>8), byte(rangeShift))
		for _, p := range pairs {
			v := uint16(int16(p[2]))
			buf = append(buf, byte(p[0]>>8), byte(p[0]), byte(p[1]>>8), byte(p[1]), byte(v>>8), byte(v))
		}
	}
	return buf
}

// Built is a realised font.
type Built struct {
	Font *sfnt.Font
	File []byte // the file the font was read from (nil for in-memory fonts)
	Kind string
}

// Build realises a font description.  variant selects among equivalent realisations
// (outline kind, which cmap records carry the subtables, subtable splitting).
func Build(fd Font, variant int) (*Built, error) {
	kind := "ttf"
	if variant%2 == 1 {
		kind = "cff"
	}
	n := len(fd.Widths)
	rng := rand.New(rand.NewSource(int64(variant) + 7))
	f := fonts.Make(rng, fonts.Opts{Kind: kind, N: n, Cmap: "none"})
	switch o := f.Outlines.(type) {
	case *glyf.Outlines:
		if len(o.Widths) != n {
			return nil, fmt.Errorf("unexpected glyph count %d", len(o.Widths))
		}
		for i, w := range fd.Widths {
			o.Widths[i] = funit.Int16(w)
		}
	case *cff.Outlines:
		if len(o.Glyphs) != n {
			return nil, fmt.Errorf("unexpected glyph count %d", len(o.Glyphs))
		}
		for i, w := range fd.Widths {
			o.Glyphs[i].Width = float64(w)
		}
	}

	// cmap: full-Unicode subtables under (3,10) and/or (0,4), BMP ones under (3,1) and/or (0,3)
	tab := cmap.Table{}
	which := (variant / 2) % 3 // 0: both platforms, 1: Windows only, 2: Unicode only
	if fd.HasFull {
		m := cmap.Format12{}
		for _, p := range fd.Full {
			m[uint32(p[0])] = glyph.ID(p[1])
		}
		data := m.Encode(0)
		if which != 2 {
			tab[cmap.Key{PlatformID: 3, EncodingID: 10}] = data
		}
		if which != 1 {
			tab[cmap.Key{PlatformID: 0, EncodingID: 4}] = data
		}
	}
	if fd.HasBmp {
		m := cmap.Format4{}
		for _, p := range fd.Bmp {
			if p[0] > 0xFFFF {
				return nil, fmt.Errorf("character %d in a BMP subtable", p[0])
			}
			m[uint16(p[0])] = glyph.ID(p[1])
		}
		data := m.Encode(0)
		if which != 2 {
			tab[cmap.Key{PlatformID: 3, EncodingID: 1}] = data
		}
		if which != 1 {
			tab[cmap.Key{PlatformID: 0, EncodingID: 3}] = data
		}
	}
	f.CMapTable = tab

	f.Gdef = nil
	if len(fd.Marks) > 0 {
		gc := classdef.Table{}
		for i := 2; i < n; i++ {
			gc[glyph.ID(i)] = gdef.GlyphClassBase
		}
		for _, g := range []int{9, 10, 13, 14, 15} {
			if g < n {
				gc[glyph.ID(g)] = gdef.GlyphClassLigature
			}
		}
		for _, g := range fd.Marks {
			gc[glyph.ID(g)] = gdef.GlyphClassMark
		}
		f.Gdef = &gdef.Table{GlyphClass: gc}
	}

	var err error
	f.Gsub, err = Info("GSUB", fd.Gsub, variant/6)
	if err != nil {
		return nil, err
	}
	f.Gpos, err = Info("GPOS", fd.Gpos, variant/6)
	if err != nil {
		return nil, err
	}
	res := &Built{Font: f, Kind: kind}
	if !fd.Read {
		if fd.Kern.Present {
			return nil, fmt.Errorf("a kern table needs a file")
		}
		return res, nil
	}

	buf := &bytes.Buffer{}
	if _, err = f.Write(buf); err != nil {
		return nil, fmt.Errorf("Write: %v", err)
	}
	data := buf.Bytes()
	if fd.Kern.Present {
		// add a hand-built kern table to the file (the library never writes one)
		r := bytes.NewReader(data)
		hdr, err := header.Read(r)
		if err != nil {
			return nil, fmt.Errorf("header.Read: %v", err)
		}
		tables := map[string][]byte{}
		for name := range hdr.Toc {
			b, err := hdr.ReadTableBytes(r, name)
			if err != nil {
				return nil, fmt.Errorf("table %s: %v", name, err)
			}
			tables[name] = b
		}
		delete(tables, "GPOS")
		tables["kern"] = KernBytes(fd.Kern)
		out := &bytes.Buffer{}
		if _, err = header.Write(out, hdr.ScalerType, tables); err != nil {
			return nil, fmt.Errorf("header.Write: %v", err)
		}
		data = out.Bytes()
	}
	g, err := sfnt.Read(bytes.NewReader(data))
	if err != nil {
		return nil, fmt.Errorf("sfnt.Read: %v", err)
	}
	res.Font = g
	res.File = data
	return res, nil
}

// Item is one glyph of a layout result, as logged.
type Item struct {
	G int   `json:"g"`
	T []int `json:"t"`
	A int   `json:"a"`
	X int   `json:"x"`
	Y int   `json:"y"`
}

// Items converts a layout result.
func Items(seq []glyph.Info) []Item {
	res := make([]Item, len(seq))
	for i, g := range seq {
		t := make([]int, len(g.Text))
		for j, r := range g.Text {
			t[j] = int(r)
		}
		res[i] = Item{G: int(g.GID), T: t, A: int(g.Advance), X: int(g.XOffset), Y: int(g.YOffset)}
	}
	return res
}
