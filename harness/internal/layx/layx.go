// Package layx turns the font descriptions of spec/LayoutPipe*.tla (JSON cases) into real
// sfnt.Font values, in memory or as files that are read back, for the C15 harness.
//
// Nothing in here judges anything: the recorded calls are validated by LayoutPipeTrace.tla.
package layx

import (
	"bytes"
	"fmt"
	"math/bits"
	"math/rand"
	"sort"

	"golang.org/x/text/language"

	"seehuhn.de/go/postscript/funit"

	"seehuhn.de/go/sfnt"
	"seehuhn.de/go/sfnt/cff"
	"seehuhn.de/go/sfnt/cmap"
	"seehuhn.de/go/sfnt/glyf"
	"seehuhn.de/go/sfnt/glyph"
	"seehuhn.de/go/sfnt/header"
	"seehuhn.de/go/sfnt/opentype/anchor"
	"seehuhn.de/go/sfnt/opentype/classdef"
	"seehuhn.de/go/sfnt/opentype/coverage"
	"seehuhn.de/go/sfnt/opentype/gdef"
	"seehuhn.de/go/sfnt/opentype/gtab"
	"seehuhn.de/go/sfnt/opentype/markarray"

	"verif.local/harness/internal/fonts"
)

// Lang is a language tag with the OpenType script/language-system tags it stands for.
type Lang struct {
	Tag    string `json:"tag"`
	Script string `json:"script"`
	Lang   string `json:"lang"`
}

// LangSys is one entry of a script list.
type LangSys struct {
	Tag    string `json:"tag"`
	Script string `json:"script"`
	Lang   string `json:"lang"`
	Req    int    `json:"req"`
	Opt    []int  `json:"opt"`
}

// Feature is one entry of a feature list.
type Feature struct {
	Tag string `json:"tag"`
	Lk  []int  `json:"lk"`
}

// Lookup is a simple lookup: rules in priority order.
type Lookup struct {
	Ty    int      `json:"ty"`
	Flags []string `json:"flags"` // "base", "lig", "mark": IgnoreBaseGlyphs, IgnoreLigatures, IgnoreMarks
	Rules [][]int  `json:"rules"`
	Cls   []ClsSub `json:"cls"`   // GPOS 2: class-based subtables, tried before the glyph pairs
	Bases [][]int  `json:"bases"` // GPOS 4: base glyph, then one anchor (x, y) per mark class
}

// ClsSub is a class-based pair adjustment subtable: coverage, the two class definitions (glyphs
// left out have class 0), whether there are value records for the second glyph, and the matrix
// of <<dAdv1, dPlace1, dAdv2>>.
type ClsSub struct {
	CovG []int     `json:"cov"`
	C1   [][]int   `json:"c1"`
	C2   [][]int   `json:"c2"`
	Two  int       `json:"two"`
	M    [][][]int `json:"m"`
}

// Norm makes the optional parts of a lookup non-nil, so that they are logged as [] and not null.
func (lk *Lookup) Norm() {
	if lk.Flags == nil {
		lk.Flags = []string{}
	}
	if lk.Rules == nil {
		lk.Rules = [][]int{}
	}
	if lk.Cls == nil {
		lk.Cls = []ClsSub{}
	}
	if lk.Bases == nil {
		lk.Bases = [][]int{}
	}
}

// Table is a GSUB or GPOS table.
type Table struct {
	Present bool      `json:"present"`
	SL      []LangSys `json:"sl"`
	FL      []Feature `json:"fl"`
	LL      []Lookup  `json:"ll"`
}

// KernSub is one format-0 subtable of a version-0 kern table.
type KernSub struct {
	Horiz bool    `json:"horiz"`
	Min   bool    `json:"min"`
	Cross bool    `json:"cross"`
	Over  bool    `json:"over"`
	Pairs [][]int `json:"pairs"`
}

// Kern is a kern table.
type Kern struct {
	Present bool      `json:"present"`
	Subs    []KernSub `json:"subs"`
}

// CmSub is one subtable of the cmap table: platform and encoding id, whether it can be decoded,
// how it is stored ("f4", "f12", or the name of an undecodable form, see BadKinds; "bad" = let
// Realise pick one) and the mapping it means.
type CmSub struct {
	P    int     `json:"p"`
	E    int     `json:"e"`
	Ok   bool    `json:"ok"`
	Kind string  `json:"kind"`
	M    [][]int `json:"m"`
}

// BadKinds names the ways a cmap subtable can be present (accepted by the table directory of
// the cmap table: known format number, consistent length) and yet be unusable: the formats the
// library does not implement, and subtables of the implemented formats that break a rule of
// their format.
var BadKinds = []string{"f2", "f8", "f10", "f13", "f14",
	"f12-count", "f12-order", "f12-end", "f12-gid", "f12-short",
	"f4-oddseg", "f4-segs", "f4-overlap", "f4-endstart", "f4-range", "f4-oddlen",
	"f6-count", "f0-short"}

func be16(b []byte, v int) []byte { return append(b, byte(v>>8), byte(v)) }
func be32(b []byte, v int) []byte { return append(b, byte(v>>24), byte(v>>16), byte(v>>8), byte(v)) }

// fix16 / fix32 patch the length field of a subtable to its real length, so that the cmap table
// directory accepts the subtable.
func fix16(b []byte) []byte { b[2], b[3] = byte(len(b)>>8), byte(len(b)); return b }
func fix32(b []byte) []byte {
	b[4], b[5], b[6], b[7] = byte(len(b)>>24), byte(len(b)>>16), byte(len(b)>>8), byte(len(b))
	return b
}

func groups12(format int, groups [][3]int, count int) []byte {
	b := be16(nil, format)
	b = be16(b, 0)
	b = be32(b, 0) // length
	b = be32(b, 0) // language
	b = be32(b, count)
	for _, g := range groups {
		b = be32(be32(be32(b, g[0]), g[1]), g[2])
	}
	return fix32(b)
}

func seg4(segX2 int, end, start, delta, rangeOffs []int, gids []int) []byte {
	b := be16(nil, 4)
	b = be16(b, 0) // length
	b = be16(b, 0) // language
	b = be16(b, segX2)
	b = be16(be16(be16(b, 2), 0), 0) // searchRange, entrySelector, rangeShift (not looked at)
	for _, x := range end {
		b = be16(b, x)
	}
	b = be16(b, 0)
	for _, x := range start {
		b = be16(b, x)
	}
	for _, x := range delta {
		b = be16(b, x&0xFFFF)
	}
	for _, x := range rangeOffs {
		b = be16(b, x)
	}
	for _, x := range gids {
		b = be16(b, x)
	}
	return fix16(b)
}

// BadSubtable returns the bytes of an undecodable subtable.  Each one would map "A" to glyph 3
// (and more) if a reader made sense of it after all - never the mapping of a usable subtable.
func BadSubtable(kind string) ([]byte, error) {
	switch kind {
	case "f2": // high-byte mapping through table: not implemented
		b := be16(be16(be16(nil, 2), 0), 0)
		b = append(b, make([]byte, 512)...)             // subHeaderKeys: all 0
		b = be16(be16(be16(be16(b, 65), 1), 3-65+0), 2) // subheader 0: firstCode 65, count 1, delta, rangeOffset
		b = be16(b, 65)
		return fix16(b), nil
	case "f8": // mixed 16/32 bit: not implemented
		b := be16(be16(nil, 8), 0)
		b = be32(be32(b, 0), 0)
		b = append(b, make([]byte, 8192)...)
		b = be32(b, 1)
		b = be32(be32(be32(b, 65), 65), 3)
		return fix32(b), nil
	case "f10": // trimmed array: not implemented
		b := be16(be16(nil, 10), 0)
		b = be32(be32(b, 0), 0)
		b = be32(be32(b, 65), 1)
		b = be16(b, 3)
		return fix32(b), nil
	case "f13": // many-to-one: not implemented
		return groups12(13, [][3]int{{65, 70, 3}}, 1), nil
	case "f14": // variation sequences: not implemented (and no character map at all)
		b := be16(nil, 14)
		b = be32(b, 0)
		b = be32(b, 0)
		b[2], b[3], b[4], b[5] = 0, 0, 0, byte(len(b))
		return b, nil
	case "f12-count": // numGroups does not match the length
		return groups12(12, [][3]int{{65, 66, 3}}, 2), nil
	case "f12-order": // groups not in increasing order
		return groups12(12, [][3]int{{70, 71, 3}, {65, 66, 5}}, 2), nil
	case "f12-end": // endCharCode < startCharCode
		return groups12(12, [][3]int{{66, 65, 3}}, 1), nil
	case "f12-gid": // glyph ids beyond any font
		return groups12(12, [][3]int{{65, 66, 0x110000}}, 1), nil
	case "f12-short": // shorter than its fixed header says (length is consistent, 12 bytes of header)
		b := be16(be16(nil, 12), 0)
		b = be32(be32(b, 0), 0)
		return fix32(b), nil
	case "f4-oddseg": // segCountX2 odd
		return seg4(3, []int{66, 0xFFFF}, []int{65, 0xFFFF}, []int{3 - 65, 1}, []int{0, 0}, nil), nil
	case "f4-segs": // more segments than the subtable holds
		return seg4(40, []int{66, 0xFFFF}, []int{65, 0xFFFF}, []int{3 - 65, 1}, []int{0, 0}, nil), nil
	case "f4-overlap": // segments overlap
		return seg4(6, []int{70, 68, 0xFFFF}, []int{65, 67, 0xFFFF}, []int{3 - 65, 0, 1}, []int{0, 0, 0}, nil), nil
	case "f4-endstart": // endCode < startCode
		return seg4(4, []int{64, 0xFFFF}, []int{65, 0xFFFF}, []int{3 - 65, 1}, []int{0, 0}, nil), nil
	case "f4-range": // idRangeOffset points outside the subtable
		return seg4(4, []int{66, 0xFFFF}, []int{65, 0xFFFF}, []int{0, 1}, []int{400, 0}, []int{3, 4}), nil
	case "f4-oddlen": // odd length
		b := seg4(4, []int{66, 0xFFFF}, []int{65, 0xFFFF}, []int{3 - 65, 1}, []int{0, 0}, nil)
		return fix16(append(b, 0)), nil
	case "f6-count": // entryCount larger than the array
		b := be16(be16(be16(nil, 6), 0), 0)
		b = be16(be16(b, 65), 9)
		b = be16(b, 3)
		return fix16(b), nil
	case "f0-short": // byte encoding table without its 256 bytes
		b := be16(be16(be16(nil, 0), 0), 0)
		b = append(b, make([]byte, 100)...)
		b[6+65] = 3
		return fix16(b), nil
	}
	return nil, fmt.Errorf("unknown undecodable subtable kind %q", kind)
}

// Realise replaces the kind "bad" by a concrete undecodable form, chosen by variant.
func (fd *Font) Realise(variant int) {
	k := variant / 3
	for i := range fd.Cm {
		if fd.Cm[i].Kind == "bad" {
			fd.Cm[i].Kind = BadKinds[k%len(BadKinds)]
			k += 7
		}
	}
}

// Font is the font file of a case.
type Font struct {
	Cm     []CmSub `json:"cm"`
	Widths []int   `json:"widths"`
	Marks  []int   `json:"marks"`
	Ligs   []int   `json:"ligs"` // GDEF class ligature (the font has a GDEF table iff it has marks)
	Gsub   Table   `json:"gsub"`
	Gpos   Table   `json:"gpos"`
	Kern   Kern    `json:"kern"`
	Read   bool    `json:"read"`
}

// Sw is a feature-switch map (Nil: the caller passes nil).
type Sw struct {
	Nil bool     `json:"nil"`
	On  []string `json:"on"`
	Off []string `json:"off,omitempty"` // tags explicitly switched off (same meaning as absent)
}

// Map returns the Go map for a switch description.
func (s Sw) Map() map[string]bool {
	if s.Nil {
		return nil
	}
	m := map[string]bool{}
	for _, t := range s.Off {
		m[t] = false
	}
	for _, t := range s.On {
		m[t] = true
	}
	return m
}

func ranks(keys []glyph.ID) coverage.Table {
	sort.Slice(keys, func(i, j int) bool { return keys[i] < keys[j] })
	cov := coverage.Table{}
	for i, k := range keys {
		cov[k] = i
	}
	return cov
}

// lookupTable realises a rule list as subtables that are tried in order; the flat priority
// order of the rules is preserved (a new subtable starts where a key would repeat).
// variant > 0 additionally splits ligature rule lists in two subtables.
func lookupTable(kind string, lk Lookup, variant int) (*gtab.LookupTable, error) {
	res := &gtab.LookupTable{Meta: &gtab.LookupMetaInfo{LookupType: uint16(lk.Ty)}}
	for _, fl := range lk.Flags {
		switch fl {
		case "base":
			res.Meta.LookupFlags |= gtab.IgnoreBaseGlyphs
		case "lig":
			res.Meta.LookupFlags |= gtab.IgnoreLigatures
		case "mark":
			res.Meta.LookupFlags |= gtab.IgnoreMarks
		default:
			return nil, fmt.Errorf("lookup flag %q", fl)
		}
	}
	switch {
	case kind == "GSUB" && lk.Ty == 1:
		var cur [][]int
		flush := func() {
			if len(cur) == 0 {
				return
			}
			var keys []glyph.ID
			for _, r := range cur {
				keys = append(keys, glyph.ID(r[0]))
			}
			cov := ranks(keys)
			subst := make([]glyph.ID, len(cur))
			for _, r := range cur {
				subst[cov[glyph.ID(r[0])]] = glyph.ID(r[1])
			}
			res.Subtables = append(res.Subtables, &gtab.Gsub1_2{Cov: cov, SubstituteGlyphIDs: subst})
			cur = nil
		}
		seen := map[int]bool{}
		for _, r := range lk.Rules {
			if seen[r[0]] {
				flush()
				seen = map[int]bool{}
			}
			seen[r[0]] = true
			cur = append(cur, r)
		}
		flush()
	case kind == "GSUB" && lk.Ty == 2:
		var cur [][]int
		flush := func() {
			if len(cur) == 0 {
				return
			}
			var keys []glyph.ID
			for _, r := range cur {
				keys = append(keys, glyph.ID(r[0]))
			}
			cov := ranks(keys)
			repl := make([][]glyph.ID, len(cur))
			for _, r := range cur {
				for _, g := range r[1:] {
					repl[cov[glyph.ID(r[0])]] = append(repl[cov[glyph.ID(r[0])]], glyph.ID(g))
				}
			}
			res.Subtables = append(res.Subtables, &gtab.Gsub2_1{Cov: cov, Repl: repl})
			cur = nil
		}
		seen := map[int]bool{}
		for _, r := range lk.Rules {
			if len(r) < 2 {
				return nil, fmt.Errorf("empty multiple substitution")
			}
			if seen[r[0]] {
				flush()
				seen = map[int]bool{}
			}
			seen[r[0]] = true
			cur = append(cur, r)
		}
		flush()
	case kind == "GPOS" && lk.Ty == 1:
		var cur [][]int
		flush := func() {
			if len(cur) == 0 {
				return
			}
			var keys []glyph.ID
			same := true
			for _, r := range cur {
				keys = append(keys, glyph.ID(r[0]))
				same = same && r[1] == cur[0][1] && r[2] == cur[0][2]
			}
			cov := ranks(keys)
			if same && variant%2 == 0 {
				// format 1: one value record for all covered glyphs
				res.Subtables = append(res.Subtables, &gtab.Gpos1_1{Cov: cov,
					Adjust: &gtab.GposValueRecord{XAdvance: funit.Int16(cur[0][1]), XPlacement: funit.Int16(cur[0][2])}})
			} else {
				adj := make([]*gtab.GposValueRecord, len(cur))
				for _, r := range cur {
					adj[cov[glyph.ID(r[0])]] = &gtab.GposValueRecord{XAdvance: funit.Int16(r[1]), XPlacement: funit.Int16(r[2])}
				}
				res.Subtables = append(res.Subtables, &gtab.Gpos1_2{Cov: cov, Adjust: adj})
			}
			cur = nil
		}
		seen := map[int]bool{}
		for _, r := range lk.Rules {
			if seen[r[0]] {
				flush()
				seen = map[int]bool{}
			}
			seen[r[0]] = true
			cur = append(cur, r)
		}
		flush()
	case kind == "GSUB" && lk.Ty == 4:
		parts := [][][]int{lk.Rules}
		if variant > 0 && len(lk.Rules) >= 2 {
			k := 1 + variant%(len(lk.Rules)-1)
			parts = [][][]int{lk.Rules[:k], lk.Rules[k:]}
		}
		for _, part := range parts {
			if len(part) == 0 {
				continue
			}
			var keys []glyph.ID
			seen := map[int]bool{}
			for _, r := range part {
				if !seen[r[1]] {
					seen[r[1]] = true
					keys = append(keys, glyph.ID(r[1]))
				}
			}
			cov := ranks(keys)
			repl := make([][]gtab.Ligature, len(keys))
			for _, r := range part {
				in := make([]glyph.ID, 0, len(r)-2)
				for _, g := range r[2:] {
					in = append(in, glyph.ID(g))
				}
				i := cov[glyph.ID(r[1])]
				repl[i] = append(repl[i], gtab.Ligature{In: in, Out: glyph.ID(r[0])})
			}
			res.Subtables = append(res.Subtables, &gtab.Gsub4_1{Cov: cov, Repl: repl})
		}
	case kind == "GPOS" && lk.Ty == 4:
		var mk, bs []glyph.ID
		for _, r := range lk.Rules {
			mk = append(mk, glyph.ID(r[0]))
		}
		for _, r := range lk.Bases {
			bs = append(bs, glyph.ID(r[0]))
		}
		st := &gtab.Gpos4_1{MarkCov: ranks(mk), BaseCov: ranks(bs)}
		st.MarkArray = make([]markarray.Record, len(lk.Rules))
		for _, r := range lk.Rules {
			st.MarkArray[st.MarkCov[glyph.ID(r[0])]] = markarray.Record{Class: uint16(r[1]),
				Table: anchor.Table{X: funit.Int16(r[2]), Y: funit.Int16(r[3])}}
		}
		st.BaseArray = make([][]anchor.Table, len(lk.Bases))
		for _, r := range lk.Bases {
			var row []anchor.Table
			for i := 1; i+1 < len(r); i += 2 {
				row = append(row, anchor.Table{X: funit.Int16(r[i]), Y: funit.Int16(r[i+1])})
			}
			st.BaseArray[st.BaseCov[glyph.ID(r[0])]] = row
		}
		res.Subtables = append(res.Subtables, st)
	case kind == "GPOS" && lk.Ty == 2:
		for _, cs := range lk.Cls {
			st := &gtab.Gpos2_2{Cov: coverage.Set{}, Class1: classdef.Table{}, Class2: classdef.Table{}}
			for _, g := range cs.CovG {
				st.Cov[glyph.ID(g)] = true
			}
			for _, e := range cs.C1 {
				st.Class1[glyph.ID(e[0])] = uint16(e[1])
			}
			for _, e := range cs.C2 {
				st.Class2[glyph.ID(e[0])] = uint16(e[1])
			}
			for _, row := range cs.M {
				var r []*gtab.PairAdjust
				for _, e := range row {
					adj := &gtab.PairAdjust{First: &gtab.GposValueRecord{XAdvance: funit.Int16(e[0]), XPlacement: funit.Int16(e[1])}}
					if cs.Two == 1 {
						adj.Second = &gtab.GposValueRecord{XAdvance: funit.Int16(e[2])}
					}
					r = append(r, adj)
				}
				st.Adjust = append(st.Adjust, r)
			}
			res.Subtables = append(res.Subtables, st)
		}
		cur := gtab.Gpos2_1{}
		curTwo := -1
		flush := func() {
			if len(cur) > 0 {
				res.Subtables = append(res.Subtables, cur)
			}
			cur = gtab.Gpos2_1{}
			curTwo = -1
		}
		for _, r := range lk.Rules {
			key := glyph.Pair{Left: glyph.ID(r[0]), Right: glyph.ID(r[1])}
			if _, dup := cur[key]; dup || (curTwo >= 0 && curTwo != r[4]) {
				flush()
			}
			curTwo = r[4]
			adj := &gtab.PairAdjust{First: &gtab.GposValueRecord{XAdvance: funit.Int16(r[2]), XPlacement: funit.Int16(r[3])}}
			if r[4] == 1 {
				adj.Second = &gtab.GposValueRecord{XAdvance: funit.Int16(r[5])}
			}
			cur[key] = adj
		}
		flush()
	default:
		return nil, fmt.Errorf("lookup type %d not supported in %s", lk.Ty, kind)
	}
	return res, nil
}

// Info builds the gtab.Info of a table description.
func Info(kind string, t Table, variant int) (*gtab.Info, error) {
	if !t.Present {
		return nil, nil
	}
	info := &gtab.Info{ScriptList: gtab.ScriptListInfo{}}
	for _, ls := range t.SL {
		tag, err := language.Parse(ls.Tag)
		if err != nil {
			return nil, fmt.Errorf("tag %q: %v", ls.Tag, err)
		}
		f := &gtab.Features{Required: gtab.FeatureIndex(ls.Req)}
		for _, o := range ls.Opt {
			f.Optional = append(f.Optional, gtab.FeatureIndex(o))
		}
		if _, dup := info.ScriptList[tag]; dup {
			return nil, fmt.Errorf("duplicate tag %q", ls.Tag)
		}
		info.ScriptList[tag] = f
	}
	for _, ft := range t.FL {
		f := &gtab.Feature{Tag: ft.Tag}
		for _, l := range ft.Lk {
			f.Lookups = append(f.Lookups, gtab.LookupIndex(l))
		}
		info.FeatureList = append(info.FeatureList, f)
	}
	for _, lk := range t.LL {
		lt, err := lookupTable(kind, lk, variant)
		if err != nil {
			return nil, err
		}
		info.LookupList = append(info.LookupList, lt)
	}
	return info, nil
}

// KernBytes assembles a version-0 kern table from format-0 subtables.
func KernBytes(k Kern) []byte {
	buf := []byte{0, 0, byte(len(k.Subs) >> 8), byte(len(k.Subs))}
	for _, st := range k.Subs {
		pairs := append([][]int(nil), st.Pairs...)
		sort.Slice(pairs, func(i, j int) bool {
			if pairs[i][0] != pairs[j][0] {
				return pairs[i][0] < pairs[j][0]
			}
			return pairs[i][1] < pairs[j][1]
		})
		n := len(pairs)
		length := 14 + 6*n
		var flags byte
		if st.Horiz {
			flags |= 1
		}
		if st.Min {
			flags |= 2
		}
		if st.Cross {
			flags |= 4
		}
		if st.Over {
			flags |= 8
		}
		var entrySelector, searchRange, rangeShift int
		if n > 0 {
			entrySelector = bits.Len(uint(n)) - 1
			searchRange = 6 * (1 << entrySelector)
			rangeShift = 6*n - searchRange
		}
		buf = append(buf, 0, 0, byte(length>>8), byte(length), 0 /* format */, flags,
			byte(n>>8), byte(n), byte(searchRange>>8), byte(searchRange),
			byte(entrySelector>>8), byte(entrySelector), byte(rangeShift>>8), byte(rangeShift))
		for _, p := range pairs {
			v := uint16(int16(p[2]))
			buf = append(buf, byte(p[0]>>8), byte(p[0]), byte(p[1]>>8), byte(p[1]), byte(v>>8), byte(v))
		}
	}
	return buf
}

// Built is a realised font.
type Built struct {
	Font   *sfnt.Font
	File   []byte // the file the font was read from (nil for in-memory fonts)
	Kind   string
	Relaid bool   // GSUB/GPOS were re-stored by Relayout
	Hints  string // redundant fields of the file that were set against the facts
}

// Build realises a font description.  variant selects among equivalent realisations
// (outline kind, which cmap records carry the subtables, subtable splitting).
func Build(fd Font, variant int) (*Built, error) {
	kind := "ttf"
	if variant%2 == 1 {
		kind = "cff"
	}
	n := len(fd.Widths)
	rng := rand.New(rand.NewSource(int64(variant) + 7))
	f := fonts.Make(rng, fonts.Opts{Kind: kind, N: n, Cmap: "none"})
	switch o := f.Outlines.(type) {
	case *glyf.Outlines:
		if len(o.Widths) != n {
			return nil, fmt.Errorf("unexpected glyph count %d", len(o.Widths))
		}
		for i, w := range fd.Widths {
			o.Widths[i] = funit.Int16(w)
		}
	case *cff.Outlines:
		if len(o.Glyphs) != n {
			return nil, fmt.Errorf("unexpected glyph count %d", len(o.Glyphs))
		}
		for i, w := range fd.Widths {
			o.Glyphs[i].Width = float64(w)
		}
	}

	// cmap: the subtables as described, usable ones encoded by the library, the others by hand
	tab := cmap.Table{}
	for _, st := range fd.Cm {
		var data []byte
		switch {
		case st.Ok && st.Kind == "f12":
			m := cmap.Format12{}
			for _, p := range st.M {
				m[uint32(p[0])] = glyph.ID(p[1])
			}
			data = m.Encode(0)
		case st.Ok && st.Kind == "f4":
			m := cmap.Format4{}
			for _, p := range st.M {
				if p[0] > 0xFFFF {
					return nil, fmt.Errorf("character %d in a format 4 subtable", p[0])
				}
				m[uint16(p[0])] = glyph.ID(p[1])
			}
			data = m.Encode(0)
		case st.Ok && st.Kind == "f0mac":
			// byte encoding table of the Macintosh platform: the mapping is given in Unicode and stored under
			// the Mac OS Roman codes of its characters
			m := &cmap.Format0{}
			for _, p := range st.M {
				code, ok := macRomanCode[p[0]]
				if !ok && p[0] < 128 {
					code, ok = p[0], true
				}
				if !ok {
					return nil, fmt.Errorf("character %d has no Mac OS Roman code known to the harness", p[0])
				}
				m.Data[code] = byte(p[1])
			}
			data = m.Encode(0)
		case !st.Ok:
			var err error
			data, err = BadSubtable(st.Kind)
			if err != nil {
				return nil, err
			}
		default:
			return nil, fmt.Errorf("cmap subtable kind %q", st.Kind)
		}
		key := cmap.Key{PlatformID: uint16(st.P), EncodingID: uint16(st.E)}
		if _, dup := tab[key]; dup {
			return nil, fmt.Errorf("two cmap subtables for (%d,%d)", st.P, st.E)
		}
		tab[key] = data
	}
	f.CMapTable = tab

	f.Gdef = nil
	if len(fd.Marks) > 0 {
		gc := classdef.Table{}
		for i := 2; i < n; i++ {
			gc[glyph.ID(i)] = gdef.GlyphClassBase
		}
		for _, g := range fd.Ligs {
			if g < n {
				gc[glyph.ID(g)] = gdef.GlyphClassLigature
			}
		}
		for _, g := range fd.Marks {
			gc[glyph.ID(g)] = gdef.GlyphClassMark
		}
		f.Gdef = &gdef.Table{GlyphClass: gc}
	}

	var err error
	f.Gsub, err = Info("GSUB", fd.Gsub, variant/6)
	if err != nil {
		return nil, err
	}
	f.Gpos, err = Info("GPOS", fd.Gpos, variant/6)
	if err != nil {
		return nil, err
	}
	res := &Built{Font: f, Kind: kind}
	if !fd.Read {
		if fd.Kern.Present {
			return nil, fmt.Errorf("a kern table needs a file")
		}
		return res, nil
	}

	buf := &bytes.Buffer{}
	if _, err = f.Write(buf); err != nil {
		return nil, fmt.Errorf("Write: %v", err)
	}
	data := buf.Bytes()
	relayout := (variant>>8)&1 == 1 && (fd.Gsub.Present || fd.Gpos.Present)
	hints := 0
	if (variant>>14)&1 == 1 {
		hints = (variant >> 10) & 15
	}
	if fd.Kern.Present || relayout || hints != 0 {
		r := bytes.NewReader(data)
		hdr, err := header.Read(r)
		if err != nil {
			return nil, fmt.Errorf("header.Read: %v", err)
		}
		tables := map[string][]byte{}
		for name := range hdr.Toc {
			b, err := hdr.ReadTableBytes(r, name)
			if err != nil {
				return nil, fmt.Errorf("table %s: %v", name, err)
			}
			tables[name] = b
		}
		if fd.Kern.Present {
			// add a hand-built kern table to the file (the library never writes one)
			delete(tables, "GPOS")
			tables["kern"] = KernBytes(fd.Kern)
		}
		if relayout {
			// the same GSUB/GPOS tables, stored differently from the library's own encoder
			rr := rand.New(rand.NewSource(int64(variant)))
			for _, name := range []string{"GSUB", "GPOS"} {
				if b, ok := tables[name]; ok {
					nb, err := Relayout(b, rr)
					if err != nil {
						return nil, err
					}
					tables[name] = nb
					res.Relaid = true
				}
			}
		}
		if hints != 0 {
			res.Hints = patchHints(tables, hints)
		}
		out := &bytes.Buffer{}
		if _, err = header.Write(out, hdr.ScalerType, tables); err != nil {
			return nil, fmt.Errorf("header.Write: %v", err)
		}
		data = out.Bytes()
	}
	g, err := sfnt.Read(bytes.NewReader(data))
	if err != nil {
		return nil, fmt.Errorf("sfnt.Read: %v", err)
	}
	res.Font = g
	res.File = data
	return res, nil
}

// patchHints sets redundant fields of a written file both ways.  The advance widths (hmtx) are
// the facts; post.isFixedPitch, the PANOSE proportion digit of OS/2 and the compression of hmtx
// (numberOfHMetrics) repeat or abbreviate them and decide nothing:
//
//	bits 0-1: post.isFixedPitch  1 = set, 2 = cleared, 3 = the opposite of what the file says
//	bit 2:    OS/2 panose[3] (proportion) 9 = monospaced, or 3 if it was 9
//	bit 3:    hmtx written in full, one longHorMetric per glyph (numberOfHMetrics = numGlyphs)
func patchHints(tables map[string][]byte, hints int) string {
	desc := ""
	clone := func(name string) []byte {
		b := append([]byte(nil), tables[name]...)
		tables[name] = b
		return b
	}
	if post := tables["post"]; len(post) >= 16 && hints&3 != 0 {
		post = clone("post")
		was := post[12]|post[13]|post[14]|post[15] != 0
		set := hints&3 == 1 || (hints&3 == 3 && !was)
		post[12], post[13], post[14], post[15] = 0, 0, 0, 0
		if set {
			post[15] = 1
		}
		desc += fmt.Sprintf("post.isFixedPitch=%v(was %v) ", set, was)
	}
	if os2 := tables["OS/2"]; len(os2) >= 42 && hints&4 != 0 {
		os2 = clone("OS/2")
		if os2[35] == 9 {
			os2[35] = 3
		} else {
			os2[35] = 9
		}
		desc += fmt.Sprintf("panose.proportion=%d ", os2[35])
	}
	hhea, hm, maxp := tables["hhea"], tables["hmtx"], tables["maxp"]
	if hints&8 != 0 && len(hhea) >= 36 && len(maxp) >= 6 {
		n := int(maxp[4])<<8 | int(maxp[5])
		k := int(hhea[34])<<8 | int(hhea[35])
		if k >= 1 && k < n && len(hm) >= 4*k+2*(n-k) {
			full := append([]byte(nil), hm[:4*k]...)
			for i := k; i < n; i++ {
				full = append(full, hm[4*k-4], hm[4*k-3], hm[4*k+2*(i-k)], hm[4*k+2*(i-k)+1])
			}
			hhea = clone("hhea")
			hhea[34], hhea[35] = byte(n>>8), byte(n)
			tables["hmtx"] = full
			desc += fmt.Sprintf("numberOfHMetrics=%d(was %d) ", n, k)
		}
	}
	return desc
}

// Item is one glyph of a layout result, as logged.
type Item struct {
	G int   `json:"g"`
	T []int `json:"t"`
	A int   `json:"a"`
	X int   `json:"x"`
	Y int   `json:"y"`
}

// Items converts a layout result.
func Items(seq []glyph.Info) []Item {
	res := make([]Item, len(seq))
	for i, g := range seq {
		t := make([]int, len(g.Text))
		for j, r := range g.Text {
			t[j] = int(r)
		}
		res[i] = Item{G: int(g.GID), T: t, A: int(g.Advance), X: int(g.XOffset), Y: int(g.YOffset)}
	}
	return res
}

// macRomanCode: the Mac OS Roman codes of the non-ASCII characters the cases use (Unicode consortium mapping).
var macRomanCode = map[int]int{196: 0x80, 197: 0x81, 199: 0x82, 201: 0x83, 209: 0x84, 214: 0x85, 220: 0x86, 225: 0x87,
	224: 0x88, 226: 0x89, 228: 0x8A, 227: 0x8B, 229: 0x8C, 231: 0x8D, 233: 0x8E, 232: 0x8F}
