package layx

import (
	"fmt"
	"math/rand"
)

// Relayout stores a GSUB or GPOS table (version 1.0, as the library's encoder writes it) in a
// different way that means the same: the three lists in another order, script / language-system
// / feature tables and lookup headers in an order unrelated to the order of their records,
// identical tables stored once and shared by several records, unused bytes in between.  Record
// order (which carries the feature and lookup indices) is untouched.  Subtable data is not
// parsed: a copy of the whole original table travels at the end of the new lookup list and the
// new lookup headers point into it.
//
// The result is a different file for the same font; what the library reads from it must be what
// it reads from the original.
func Relayout(data []byte, rng *rand.Rand) ([]byte, error) {
	rd := &rdr{b: data}
	if rd.u16(0) != 1 || rd.u16(2) != 0 {
		return nil, fmt.Errorf("relayout: table version %d.%d", rd.u16(0), rd.u16(2))
	}
	slOff, flOff, llOff := rd.u16(4), rd.u16(6), rd.u16(8)
	if slOff == 0 || flOff == 0 || llOff == 0 {
		return nil, fmt.Errorf("relayout: missing list")
	}

	// ---- parse ----
	type langSys struct {
		req int
		idx []int
	}
	readLS := func(pos int) langSys {
		ls := langSys{req: rd.u16(pos + 2)}
		n := rd.u16(pos + 4)
		for i := 0; i < n; i++ {
			ls.idx = append(ls.idx, rd.u16(pos+6+2*i))
		}
		return ls
	}
	type lsRec struct {
		tag string
		ls  langSys
	}
	type script struct {
		tag    string
		hasDef bool
		def    langSys
		recs   []lsRec
	}
	var scripts []script
	for i, n := 0, rd.u16(slOff); i < n; i++ {
		rec := slOff + 2 + 6*i
		sc := script{tag: rd.tag(rec)}
		pos := slOff + rd.u16(rec+4)
		if d := rd.u16(pos); d != 0 {
			sc.hasDef, sc.def = true, readLS(pos+d)
		}
		for j, m := 0, rd.u16(pos+2); j < m; j++ {
			r := pos + 4 + 6*j
			sc.recs = append(sc.recs, lsRec{tag: rd.tag(r), ls: readLS(pos + rd.u16(r+4))})
		}
		scripts = append(scripts, sc)
	}
	type feature struct {
		tag string
		lk  []int
	}
	var features []feature
	for i, n := 0, rd.u16(flOff); i < n; i++ {
		rec := flOff + 2 + 6*i
		pos := flOff + rd.u16(rec+4)
		if rd.u16(pos) != 0 {
			return nil, fmt.Errorf("relayout: feature parameters")
		}
		f := feature{tag: rd.tag(rec)}
		for j, m := 0, rd.u16(pos+2); j < m; j++ {
			f.lk = append(f.lk, rd.u16(pos+4+2*j))
		}
		features = append(features, f)
	}
	type lookup struct {
		tp, flag int
		subs     []int // positions of the subtables in the original table
		hasMFS   bool
		mfs      int
	}
	var lookups []lookup
	for i, n := 0, rd.u16(llOff); i < n; i++ {
		pos := llOff + rd.u16(llOff+2+2*i)
		lk := lookup{tp: rd.u16(pos), flag: rd.u16(pos + 2)}
		m := rd.u16(pos + 4)
		for j := 0; j < m; j++ {
			lk.subs = append(lk.subs, pos+rd.u16(pos+6+2*j))
		}
		if lk.flag&0x0010 != 0 {
			lk.hasMFS, lk.mfs = true, rd.u16(pos+6+2*m)
		}
		lookups = append(lookups, lk)
	}
	if rd.err != nil {
		return nil, rd.err
	}

	gap := func(b []byte) []byte {
		for k := rng.Intn(4); k > 0; k-- {
			b = append(b, 0xEE, byte(rng.Intn(256)))
		}
		return b
	}
	put16 := func(b []byte, at, v int) error {
		if v < 0 || v > 0xFFFF {
			return fmt.Errorf("relayout: offset %d does not fit", v)
		}
		b[at], b[at+1] = byte(v>>8), byte(v)
		return nil
	}
	share := rng.Intn(3) > 0

	// ---- script list ----
	lsBytes := func(ls langSys) []byte {
		b := be16(be16(be16(nil, 0), ls.req), len(ls.idx))
		for _, x := range ls.idx {
			b = be16(b, x)
		}
		return b
	}
	scriptKey := func(sc script) string {
		k := fmt.Sprint(sc.hasDef, lsBytes(sc.def))
		for _, r := range sc.recs {
			k += fmt.Sprint(r.tag, lsBytes(r.ls))
		}
		return k
	}
	sl := be16(nil, len(scripts))
	for _, sc := range scripts {
		sl = append(sl, sc.tag...)
		sl = be16(sl, 0)
	}
	sl = gap(sl)
	type fix struct{ at, base, key int } // offset field at `at` = position of langsys `key` - base
	var fixes []fix
	var lsPool [][]byte
	lsIndex := map[string]int{}
	intern := func(ls langSys) int {
		b := lsBytes(ls)
		if i, ok := lsIndex[string(b)]; ok && share {
			return i
		}
		lsPool = append(lsPool, b)
		lsIndex[string(b)] = len(lsPool) - 1
		return len(lsPool) - 1
	}
	scriptPos := map[string]int{}
	for _, i := range rng.Perm(len(scripts)) {
		sc := scripts[i]
		key := scriptKey(sc)
		pos, ok := scriptPos[key]
		if !ok || !share {
			pos = len(sl)
			scriptPos[key] = pos
			sl = be16(be16(sl, 0), len(sc.recs))
			if sc.hasDef {
				fixes = append(fixes, fix{pos, pos, intern(sc.def)})
			}
			for _, r := range sc.recs {
				sl = append(sl, r.tag...)
				fixes = append(fixes, fix{len(sl), pos, intern(r.ls)})
				sl = be16(sl, 0)
			}
			sl = gap(sl)
		}
		if err := put16(sl, 2+6*i+4, pos); err != nil {
			return nil, err
		}
	}
	lsPos := make([]int, len(lsPool))
	for _, i := range rng.Perm(len(lsPool)) {
		lsPos[i] = len(sl)
		sl = gap(append(sl, lsPool[i]...))
	}
	for _, f := range fixes {
		if err := put16(sl, f.at, lsPos[f.key]-f.base); err != nil {
			return nil, err
		}
	}

	// ---- feature list ----
	fl := be16(nil, len(features))
	for _, f := range features {
		fl = append(fl, f.tag...)
		fl = be16(fl, 0)
	}
	fl = gap(fl)
	featPos := map[string]int{}
	for _, i := range rng.Perm(len(features)) {
		key := fmt.Sprint(features[i].lk)
		pos, ok := featPos[key]
		if !ok || !share {
			pos = len(fl)
			featPos[key] = pos
			fl = be16(be16(fl, 0), len(features[i].lk))
			for _, x := range features[i].lk {
				fl = be16(fl, x)
			}
			fl = gap(fl)
		}
		if err := put16(fl, 2+6*i+4, pos); err != nil {
			return nil, err
		}
	}

	// ---- lookup list: new headers, then the whole original table as the pool of subtables ----
	ll := be16(nil, len(lookups))
	for range lookups {
		ll = be16(ll, 0)
	}
	ll = gap(ll)
	hdrPos := make([]int, len(lookups))
	hdrAt := make([][]int, len(lookups)) // where the subtable offsets of lookup i are stored
	for _, i := range rng.Perm(len(lookups)) {
		lk := lookups[i]
		hdrPos[i] = len(ll)
		ll = be16(be16(be16(ll, lk.tp), lk.flag), len(lk.subs))
		for range lk.subs {
			hdrAt[i] = append(hdrAt[i], len(ll))
			ll = be16(ll, 0)
		}
		if lk.hasMFS {
			ll = be16(ll, lk.mfs)
		}
		ll = gap(ll)
		if err := put16(ll, 2+2*i, hdrPos[i]); err != nil {
			return nil, err
		}
	}
	pool := len(ll)
	ll = append(ll, data...)
	for i, lk := range lookups {
		for j, sub := range lk.subs {
			if err := put16(ll, hdrAt[i][j], pool+sub-hdrPos[i]); err != nil {
				return nil, err
			}
		}
	}

	// ---- the table ----
	out := gap([]byte{0, 1, 0, 0, 0, 0, 0, 0, 0, 0})
	lists := [][]byte{sl, fl, ll}
	for _, i := range rng.Perm(3) {
		if err := put16(out, 4+2*i, len(out)); err != nil {
			return nil, err
		}
		out = gap(append(out, lists[i]...))
	}
	return out, nil
}

type rdr struct {
	b   []byte
	err error
}

func (r *rdr) u16(pos int) int {
	if pos < 0 || pos+2 > len(r.b) {
		if r.err == nil {
			r.err = fmt.Errorf("relayout: read at %d beyond the table (%d bytes)", pos, len(r.b))
		}
		return 0
	}
	return int(r.b[pos])<<8 | int(r.b[pos+1])
}

func (r *rdr) tag(pos int) string {
	if pos < 0 || pos+4 > len(r.b) {
		if r.err == nil {
			r.err = fmt.Errorf("relayout: read at %d beyond the table (%d bytes)", pos, len(r.b))
		}
		return "????"
	}
	return string(r.b[pos : pos+4])
}
