// Package glyfx holds the helpers of the C11 harness: JSON projections of the in-memory
// glyph values of package glyf, panic-safe wrappers around its API, and builders of glyph
// sets through the library API.  Nothing here judges anything: verdicts are TLC's
// (spec/GlyfTrace.tla).
package glyfx

import (
	"fmt"
	"math/rand"

	"seehuhn.de/go/postscript/funit"

	"seehuhn.de/go/sfnt/glyf"
	"seehuhn.de/go/sfnt/glyph"
	"verif.local/harness/internal/fonts"
)

// Ints converts bytes to a (never nil) slice of ints.
func Ints(b []byte) []int {
	res := make([]int, len(b))
	for i, x := range b {
		res[i] = int(x)
	}
	return res
}

// Bytes converts ints (0..255) to bytes.
func Bytes(v []int) []byte {
	res := make([]byte, len(v))
	for i, x := range v {
		res[i] = byte(x)
	}
	return res
}

// Comp is the projection of one component record.
type Comp struct {
	Flags int   `json:"flags"`
	Gid   int   `json:"gid"`
	Data  []int `json:"data"`
}

// Glyph is the projection of a *glyf.Glyph; field names are those of the glyph values of
// spec/GlyfOps.tla.
type Glyph struct {
	K        string `json:"k"` // "nil" | "s" | "c"
	Nc       int    `json:"nc"`
	BBox     []int  `json:"bbox"`
	Body     []int  `json:"body"`
	Comps    []Comp `json:"comps"`
	Instr    []int  `json:"instr"`
	HasInstr bool   `json:"hasinstr"`
}

// Project maps a glyph to its projection.
func Project(g *glyf.Glyph) Glyph {
	res := Glyph{K: "nil", BBox: []int{0, 0, 0, 0}, Body: []int{}, Comps: []Comp{}, Instr: []int{}}
	if g == nil {
		return res
	}
	res.BBox = []int{int(g.LLx), int(g.LLy), int(g.URx), int(g.URy)}
	switch d := g.Data.(type) {
	case glyf.SimpleGlyph:
		res.K = "s"
		res.Nc = int(d.NumContours)
		res.Body = Ints(d.Encoded)
	case glyf.CompositeGlyph:
		res.K = "c"
		res.Nc = -1
		for _, c := range d.Components {
			res.Comps = append(res.Comps, Comp{Flags: int(c.Flags), Gid: int(c.GlyphIndex), Data: Ints(c.Data)})
		}
		res.Instr = Ints(d.Instructions)
		res.HasInstr = d.Instructions != nil
	default:
		res.K = fmt.Sprintf("?%T", g.Data)
	}
	return res
}

// ProjectAll maps a glyph set.
func ProjectAll(gg glyf.Glyphs) []Glyph {
	res := make([]Glyph, len(gg))
	for i, g := range gg {
		res[i] = Project(g)
	}
	return res
}

// Run is n consecutive equal glyph projections (transport encoding of large glyph sets).
type Run struct {
	N int   `json:"n"`
	G Glyph `json:"g"`
}

func sameInts(a, b []int) bool {
	if len(a) != len(b) {
		return false
	}
	for i := range a {
		if a[i] != b[i] {
			return false
		}
	}
	return true
}

func sameGlyph(a, b Glyph) bool {
	if a.K != b.K || a.Nc != b.Nc || a.HasInstr != b.HasInstr || !sameInts(a.BBox, b.BBox) ||
		!sameInts(a.Body, b.Body) || !sameInts(a.Instr, b.Instr) || len(a.Comps) != len(b.Comps) {
		return false
	}
	for i := range a.Comps {
		if a.Comps[i].Flags != b.Comps[i].Flags || a.Comps[i].Gid != b.Comps[i].Gid || !sameInts(a.Comps[i].Data, b.Comps[i].Data) {
			return false
		}
	}
	return true
}

// RLE run-length encodes a list of projections.
func RLE(gs []Glyph) []Run {
	res := []Run{}
	for _, g := range gs {
		if n := len(res); n > 0 && sameGlyph(res[n-1].G, g) {
			res[n-1].N++
		} else {
			res = append(res, Run{N: 1, G: g})
		}
	}
	return res
}

// Digest stands for a glyph whose bytes are too many to log.
type Digest struct {
	K    string `json:"k"`
	Nc   int    `json:"nc"`
	BBox []int  `json:"bbox"`
	BLen int    `json:"blen"` // length of the glyph description (record length minus header and padding)
	BSum int    `json:"bsum"` // position-dependent checksum of the description
}

// DigestOf computes the digest of a simple or empty glyph.
func DigestOf(g *glyf.Glyph) Digest {
	d := Digest{K: "nil", BBox: []int{0, 0, 0, 0}}
	if g == nil {
		return d
	}
	d.BBox = []int{int(g.LLx), int(g.LLy), int(g.URx), int(g.URy)}
	sg, ok := g.Data.(glyf.SimpleGlyph)
	if !ok {
		d.K = "c"
		return d
	}
	d.K = "s"
	d.Nc = int(sg.NumContours)
	d.BLen = len(sg.Encoded)
	s := 0
	for _, x := range sg.Encoded {
		s = (s*31 + int(x) + 1) % 1000003
	}
	d.BSum = s
	return d
}

// DigestAll maps a glyph set.
func DigestAll(gg glyf.Glyphs) []Digest {
	res := make([]Digest, len(gg))
	for i, g := range gg {
		res[i] = DigestOf(g)
	}
	return res
}

// Safe runs f and reports a panic as a string.
func Safe(f func()) (panicked bool, msg string) {
	defer func() {
		if r := recover(); r != nil {
			panicked = true
			msg = fmt.Sprint(r)
		}
	}()
	f()
	return false, ""
}

// LibSpec describes a glyph set built through the library API.
type LibSpec struct {
	N        int   `json:"n"`        // number of glyphs before fillers
	Target   int   `json:"target"`   // > 0: fillers are appended until the glyf table has this size
	Seed     int64 `json:"seed"`     // generator seed
	NilEvery int   `json:"nilevery"` // > 0: glyph i is empty unless i % NilEvery == 0
	CompOdds int   `json:"compodds"` // > 0: one glyph in CompOdds is composite
	ZeroBare int   `json:"zerobare"` // 1: glyph 1 is a zero-contour glyph without data; 2: zero-contour glyphs with instructionLength
	Sparse   int   `json:"sparse"`   // > 0: only this many glyphs (first, last, random ones) are not empty
	Huge     int   `json:"huge"`     // > 0: digest mode; this many one-point glyphs with 65535 bytes of instructions are added
}

func recLen(g *glyf.Glyph) int {
	if g == nil {
		return 0
	}
	n := 10
	switch d := g.Data.(type) {
	case glyf.SimpleGlyph:
		n += len(d.Encoded)
	case glyf.CompositeGlyph:
		for _, c := range d.Components {
			n += 4 + len(c.Data)
		}
		if d.Instructions != nil {
			n += 2 + len(d.Instructions)
		}
	}
	return n + n%2
}

// Build constructs the glyph set of a LibSpec with the shared font builders.
func Build(s LibSpec) glyf.Glyphs {
	rng := rand.New(rand.NewSource(s.Seed))
	var gg glyf.Glyphs
	total := 0
	withInstr := 0
	keep := map[int]bool{}
	if s.Sparse > 0 {
		keep[0], keep[s.N-1] = true, true
		for len(keep) < s.Sparse && len(keep) < s.N {
			keep[rng.Intn(s.N)] = true
		}
	}
	for i := 0; i < s.N; i++ {
		var g *glyf.Glyph
		switch {
		case s.Sparse > 0 && !keep[i]:
		case s.ZeroBare == 1 && i == 1:
			g = &glyf.Glyph{Data: glyf.SimpleGlyph{NumContours: 0}}
		case s.ZeroBare == 2 && i == 1:
			g = &glyf.Glyph{Data: glyf.SimpleGlyph{NumContours: 0, Encoded: []byte{0, 0}}}
		case s.ZeroBare == 2 && i == 3:
			g = &glyf.Glyph{Rect16: funit.Rect16{LLx: 1, LLy: 2, URx: 3, URy: 4},
				Data: glyf.SimpleGlyph{NumContours: 0, Encoded: []byte{0, 2, 0xB0, 0}}}
		case s.NilEvery > 0 && i%s.NilEvery != 0:
		case s.NilEvery == 0 && i > 0 && rng.Intn(11) == 0:
		case s.CompOdds > 0 && i >= 2 && rng.Intn(s.CompOdds) == 0:
			nc := 1 + rng.Intn(3)
			ids := make([]glyph.ID, nc)
			for j := range ids {
				ids[j] = glyph.ID(rng.Intn(i))
			}
			g = fonts.CompositeTT(rng, ids, funit.Rect16{LLx: -300, LLy: funit.Int16(-rng.Intn(500)), URx: 1200, URy: 1200})
			if rng.Intn(2) == 0 {
				// instructions; the flag goes alternately on the first record only, on the last
				// only, and on every record (a reader must find the block in all three cases)
				cg := g.Data.(glyf.CompositeGlyph)
				switch {
				case len(cg.Components) < 2:
					cg.Components[0].Flags |= glyf.FlagWeHaveInstructions
					withInstr-- // does not count: the three placements coincide
				case withInstr%3 == 0:
					cg.Components[0].Flags |= glyf.FlagWeHaveInstructions
				case withInstr%3 == 1:
					cg.Components[len(cg.Components)-1].Flags |= glyf.FlagWeHaveInstructions
				default:
					for j := range cg.Components {
						cg.Components[j].Flags |= glyf.FlagWeHaveInstructions
					}
				}
				withInstr++
				cg.Instructions = make([]byte, 1+rng.Intn(4))
				rng.Read(cg.Instructions)
				g.Data = cg
			}
		default:
			var instr []byte
			if rng.Intn(3) == 0 {
				instr = make([]byte, 1+rng.Intn(6))
				rng.Read(instr)
			}
			g = fonts.SimpleTT(fonts.RandContours(rng), instr)
		}
		gg = append(gg, g)
		total += recLen(g)
	}
	for j := 0; j < s.Huge; j++ {
		instr := make([]byte, 65535-j%3)
		for i := range instr {
			instr[i] = byte(i*(2*j+1) + j)
		}
		g := fonts.SimpleTT([][]glyf.Point{{{X: funit.Int16(j), Y: funit.Int16(-j), OnCurve: true}}}, instr)
		// spread them between the other glyphs
		pos := len(gg)
		if s.N > 0 {
			pos = (j * 7919) % (len(gg) + 1)
		}
		gg = append(gg, nil)
		copy(gg[pos+1:], gg[pos:])
		gg[pos] = g
		total += recLen(g)
	}
	for s.Target > 0 && s.Target-total >= 16 && (s.Target-total)%2 == 0 {
		gap := s.Target - total
		if gap > 60020 {
			gap = 60000
		}
		instr := make([]byte, gap-15)
		for i := range instr {
			instr[i] = byte(i*7 + int(s.Seed))
		}
		g := fonts.SimpleTT([][]glyf.Point{{{X: 0, Y: 0, OnCurve: true}}}, instr)
		gg = append(gg, g)
		total += recLen(g)
	}
	return gg
}
