// Package shapex turns the JSON lookup-list cases of lib/shaper_cat.py into real
// gtab.LookupList / gdef.Table values (through the public structs only) and runs
// the real shaping engine on them.
package shapex

import (
	"encoding/json"
	"fmt"
	"sort"

	"seehuhn.de/go/postscript/funit"

	"seehuhn.de/go/sfnt/glyph"
	"seehuhn.de/go/sfnt/opentype/anchor"
	"seehuhn.de/go/sfnt/opentype/classdef"
	"seehuhn.de/go/sfnt/opentype/coverage"
	"seehuhn.de/go/sfnt/opentype/gdef"
	"seehuhn.de/go/sfnt/opentype/gtab"
	"seehuhn.de/go/sfnt/opentype/markarray"
)

// VR is a value record (nil = absent).
type VR struct {
	Dx int `json:"dx"`
	Dy int `json:"dy"`
	Da int `json:"da"`
}

// Act is a nested action.
type Act struct {
	Idx int `json:"idx"`
	Lk  int `json:"lk"` // 1-based
}

// Rule is a (chained) contextual rule; In includes the first glyph.
type Rule struct {
	Back  [][]int `json:"back"`
	In    [][]int `json:"in"`
	Ahead [][]int `json:"ahead"`
	Acts  []Act   `json:"acts"`
}

// Sub is one subtable.
type Sub struct {
	K      string          `json:"k"`
	Fmt    int             `json:"fmt"`
	Chain  bool            `json:"chain"`
	M      json.RawMessage `json:"m"`
	Rules  []Rule          `json:"rules"`
	Trunc  []int           `json:"trunc"`
	// Zero (format 2 only): glyph sets which are to be encoded as class 0 of the backtrack /
	// input / lookahead class definition, i.e. by leaving their glyphs out of it
	Zero map[string][]int `json:"zero"`
	Back   [][]int         `json:"back"`
	Ahead  [][]int         `json:"ahead"`
	First  []int           `json:"first"`
	Adj    json.RawMessage `json:"adj"`
	Class1 [][2]int        `json:"class1"`
	Class2 [][2]int        `json:"class2"`
	Matrix [][]PairRec     `json:"matrix"`
	Marks  json.RawMessage `json:"marks"`
	Bases  json.RawMessage `json:"bases"`
	// Recs (kind "curs", GPOS 3): [[glyph, {entry: anchor|null, exit: anchor|null}]]; Short makes the
	// record array shorter than the coverage table by that many entries (a shape the reader never
	// delivers: it prunes the coverage table), only used with readers' output, see C07
	Recs json.RawMessage `json:"recs"`
}

// PairRec is one pair adjustment.
type PairRec struct {
	First  *VR `json:"first"`
	Second *VR `json:"second"`
}

// Lookup is one lookup table.
type Lookup struct {
	Flags   []string `json:"flags"`
	UseSet  bool     `json:"useSet"`
	MarkSet int      `json:"markSet"` // 1-based
	Attach  int      `json:"attach"`
	RTL     bool     `json:"rtl"`
	Gpos    bool     `json:"gpos"`
	Subs    []Sub    `json:"subs"`
}

// Gdef is the GDEF data of a case.
type Gdef struct {
	Present bool    `json:"present"`
	Class   [][]any `json:"class"`
	Att     [][2]int `json:"att"`
	Sets    [][]int `json:"sets"`
}

// Glyph is the projection of a glyph.Info used on both sides.
type Glyph struct {
	G   int   `json:"g"`
	T   []int `json:"t"`
	X   int   `json:"x"`
	Y   int   `json:"y"`
	Adv int   `json:"adv"`
}

// Case is one catalogue entry.
type Case struct {
	ID     int      `json:"id"`
	Family string   `json:"family"`
	Order  []int    `json:"order"`
	Gdef   Gdef     `json:"gdef"`
	LL     []Lookup `json:"ll"`
	Inputs [][]int  `json:"inputs"`
}

// Built holds the real tables of a case.
type Built struct {
	LL    gtab.LookupList
	Gdef  *gdef.Table
	Order []gtab.LookupIndex
}

func (v *VR) rec() *gtab.GposValueRecord {
	if v == nil {
		return nil
	}
	return &gtab.GposValueRecord{XPlacement: funit.Int16(v.Dx), YPlacement: funit.Int16(v.Dy), XAdvance: funit.Int16(v.Da)}
}

func set(xs []int) coverage.Set {
	s := coverage.Set{}
	for _, x := range xs {
		s[glyph.ID(x)] = true
	}
	return s
}

func table(xs []int) coverage.Table {
	ys := append([]int(nil), xs...)
	sort.Ints(ys)
	t := coverage.Table{}
	for _, x := range ys {
		if _, ok := t[glyph.ID(x)]; !ok {
			t[glyph.ID(x)] = len(t)
		}
	}
	return t
}

func gids(xs []int) []glyph.ID {
	res := make([]glyph.ID, len(xs))
	for i, x := range xs {
		res[i] = glyph.ID(x)
	}
	return res
}

func acts(as []Act) []gtab.SeqLookup {
	res := make([]gtab.SeqLookup, len(as))
	for i, a := range as {
		res[i] = gtab.SeqLookup{SequenceIndex: uint16(a.Idx), LookupListIndex: gtab.LookupIndex(a.Lk - 1)}
	}
	return res
}

// classer assigns class numbers 1..k to the distinct sets it sees (sets must be pairwise
// equal or disjoint); glyphs in no set have class 0.
type classer struct {
	keys []string
	def  classdef.Table
	zero string // key of the set which is class 0
}

func (c *classer) setZero(s []int) {
	if s == nil {
		return
	}
	ys := append([]int(nil), s...)
	sort.Ints(ys)
	c.zero = fmt.Sprint(ys)
}

func (c *classer) class(s []int) (uint16, error) {
	ys := append([]int(nil), s...)
	sort.Ints(ys)
	key := fmt.Sprint(ys)
	if c.zero != "" && key == c.zero {
		if c.def == nil {
			c.def = classdef.Table{}
		}
		for _, g := range ys {
			if _, ok := c.def[glyph.ID(g)]; ok {
				return 0, fmt.Errorf("class-0 set overlaps another class: %v", ys)
			}
		}
		return 0, nil
	}
	for i, k := range c.keys {
		if k == key {
			return uint16(i + 1), nil
		}
	}
	if c.def == nil {
		c.def = classdef.Table{}
	}
	for _, g := range ys {
		if _, ok := c.def[glyph.ID(g)]; ok {
			return 0, fmt.Errorf("sets are not a partition: %v", ys)
		}
	}
	c.keys = append(c.keys, key)
	for _, g := range ys {
		c.def[glyph.ID(g)] = uint16(len(c.keys))
	}
	return uint16(len(c.keys)), nil
}

func one(s []int) (glyph.ID, error) {
	if len(s) != 1 {
		return 0, fmt.Errorf("format 1 needs singleton sets, got %v", s)
	}
	return glyph.ID(s[0]), nil
}

func buildCtx(st *Sub) ([]gtab.Subtable, error) {
	switch st.Fmt {
	case 3:
		var res []gtab.Subtable
		for _, r := range st.Rules {
			in := make([]coverage.Set, len(r.In))
			for i, s := range r.In {
				in[i] = set(s)
			}
			if !st.Chain {
				res = append(res, &gtab.SeqContext3{Input: in, Actions: acts(r.Acts)})
				continue
			}
			c := &gtab.ChainedSeqContext3{Input: in, Actions: acts(r.Acts)}
			for _, s := range r.Back {
				c.Backtrack = append(c.Backtrack, set(s))
			}
			for _, s := range r.Ahead {
				c.Lookahead = append(c.Lookahead, set(s))
			}
			res = append(res, c)
		}
		return res, nil
	case 1:
		var firsts []int
		for _, r := range st.Rules {
			g, err := one(r.In[0])
			if err != nil {
				return nil, err
			}
			firsts = append(firsts, int(g))
		}
		cov := table(firsts)
		if !st.Chain {
			c := &gtab.SeqContext1{Cov: cov, Rules: make([][]*gtab.SeqRule, len(cov))}
			for _, r := range st.Rules {
				idx := cov[glyph.ID(r.In[0][0])]
				rule := &gtab.SeqRule{Actions: acts(r.Acts)}
				for _, s := range r.In[1:] {
					g, err := one(s)
					if err != nil {
						return nil, err
					}
					rule.Input = append(rule.Input, g)
				}
				c.Rules[idx] = append(c.Rules[idx], rule)
			}
			return []gtab.Subtable{c}, nil
		}
		c := &gtab.ChainedSeqContext1{Cov: cov, Rules: make([][]*gtab.ChainedSeqRule, len(cov))}
		for _, r := range st.Rules {
			idx := cov[glyph.ID(r.In[0][0])]
			rule := &gtab.ChainedSeqRule{Actions: acts(r.Acts)}
			for _, p := range []struct {
				src [][]int
				dst *[]glyph.ID
			}{{r.Back, &rule.Backtrack}, {r.In[1:], &rule.Input}, {r.Ahead, &rule.Lookahead}} {
				for _, s := range p.src {
					g, err := one(s)
					if err != nil {
						return nil, err
					}
					*p.dst = append(*p.dst, g)
				}
			}
			c.Rules[idx] = append(c.Rules[idx], rule)
		}
		return []gtab.Subtable{c}, nil
	case 2:
		var cin, cback, cahead classer
		cin.setZero(st.Zero["in"])
		cback.setZero(st.Zero["back"])
		cahead.setZero(st.Zero["ahead"])
		var firsts []int
		type crule struct {
			first            uint16
			back, in, ahead []uint16
			acts            []gtab.SeqLookup
		}
		var rules []crule
		for _, r := range st.Rules {
			var cr crule
			var err error
			if cr.first, err = cin.class(r.In[0]); err != nil {
				return nil, err
			}
			firsts = append(firsts, r.In[0]...)
			for _, s := range r.In[1:] {
				c, err := cin.class(s)
				if err != nil {
					return nil, err
				}
				cr.in = append(cr.in, c)
			}
			for _, s := range r.Back {
				c, err := cback.class(s)
				if err != nil {
					return nil, err
				}
				cr.back = append(cr.back, c)
			}
			for _, s := range r.Ahead {
				c, err := cahead.class(s)
				if err != nil {
					return nil, err
				}
				cr.ahead = append(cr.ahead, c)
			}
			cr.acts = acts(r.Acts)
			rules = append(rules, cr)
		}
		n := len(cin.keys) + 1
		cut := n
		if st.Trunc != nil {
			c, err := cin.class(st.Trunc)
			if err != nil || int(c) != n-1 {
				return nil, fmt.Errorf("trunc must name the highest input class")
			}
			cut = int(c)
		}
		if !st.Chain {
			c := &gtab.SeqContext2{Cov: table(firsts), Input: cin.def, Rules: make([][]*gtab.ClassSeqRule, n)}
			for _, r := range rules {
				c.Rules[r.first] = append(c.Rules[r.first], &gtab.ClassSeqRule{Input: r.in, Actions: r.acts})
			}
			c.Rules = c.Rules[:cut]
			return []gtab.Subtable{c}, nil
		}
		c := &gtab.ChainedSeqContext2{Cov: table(firsts), Backtrack: cback.def, Input: cin.def, Lookahead: cahead.def,
			Rules: make([][]*gtab.ChainedClassSeqRule, n)}
		if c.Backtrack == nil {
			c.Backtrack = classdef.Table{}
		}
		if c.Lookahead == nil {
			c.Lookahead = classdef.Table{}
		}
		for _, r := range rules {
			c.Rules[r.first] = append(c.Rules[r.first], &gtab.ChainedClassSeqRule{
				Backtrack: r.back, Input: r.in, Lookahead: r.ahead, Actions: r.acts})
		}
		c.Rules = c.Rules[:cut]
		return []gtab.Subtable{c}, nil
	}
	return nil, fmt.Errorf("unknown context format %d", st.Fmt)
}

type kv[T any] struct {
	K int
	V T
}

func pairs[T any](raw json.RawMessage) ([]kv[T], error) {
	var tmp [][2]json.RawMessage
	if len(raw) == 0 {
		return nil, nil
	}
	if err := json.Unmarshal(raw, &tmp); err != nil {
		return nil, err
	}
	res := make([]kv[T], len(tmp))
	for i, p := range tmp {
		if err := json.Unmarshal(p[0], &res[i].K); err != nil {
			return nil, err
		}
		if err := json.Unmarshal(p[1], &res[i].V); err != nil {
			return nil, err
		}
	}
	return res, nil
}

func buildSub(st *Sub) ([]gtab.Subtable, error) {
	switch st.K {
	case "single":
		m, err := pairs[int](st.M)
		if err != nil {
			return nil, err
		}
		if st.Fmt == 1 {
			if len(m) == 0 {
				return nil, fmt.Errorf("empty single 1.1")
			}
			delta := glyph.ID(m[0].V - m[0].K)
			cov := coverage.Set{}
			for _, p := range m {
				if glyph.ID(p.V-p.K) != delta {
					return nil, fmt.Errorf("single format 1 needs a uniform delta")
				}
				cov[glyph.ID(p.K)] = true
			}
			return []gtab.Subtable{&gtab.Gsub1_1{Cov: cov, Delta: delta}}, nil
		}
		var keys []int
		for _, p := range m {
			keys = append(keys, p.K)
		}
		cov := table(keys)
		out := make([]glyph.ID, len(cov))
		for _, p := range m {
			out[cov[glyph.ID(p.K)]] = glyph.ID(p.V)
		}
		return []gtab.Subtable{&gtab.Gsub1_2{Cov: cov, SubstituteGlyphIDs: out}}, nil
	case "multi", "alt":
		m, err := pairs[[]int](st.M)
		if err != nil {
			return nil, err
		}
		var keys []int
		for _, p := range m {
			keys = append(keys, p.K)
		}
		cov := table(keys)
		out := make([][]glyph.ID, len(cov))
		for _, p := range m {
			out[cov[glyph.ID(p.K)]] = gids(p.V)
		}
		if st.K == "multi" {
			return []gtab.Subtable{&gtab.Gsub2_1{Cov: cov, Repl: out}}, nil
		}
		return []gtab.Subtable{&gtab.Gsub3_1{Cov: cov, Alternates: out}}, nil
	case "lig":
		type lr struct {
			In  []int `json:"in"`
			Out int   `json:"out"`
		}
		m, err := pairs[[]lr](st.M)
		if err != nil {
			return nil, err
		}
		var keys []int
		for _, p := range m {
			keys = append(keys, p.K)
		}
		cov := table(keys)
		out := make([][]gtab.Ligature, len(cov))
		for _, p := range m {
			for _, l := range p.V {
				out[cov[glyph.ID(p.K)]] = append(out[cov[glyph.ID(p.K)]], gtab.Ligature{In: gids(l.In), Out: glyph.ID(l.Out)})
			}
		}
		return []gtab.Subtable{&gtab.Gsub4_1{Cov: cov, Repl: out}}, nil
	case "ctx":
		return buildCtx(st)
	case "rev":
		m, err := pairs[int](st.M)
		if err != nil {
			return nil, err
		}
		var keys []int
		for _, p := range m {
			keys = append(keys, p.K)
		}
		cov := table(keys)
		out := make([]glyph.ID, len(cov))
		for _, p := range m {
			out[cov[glyph.ID(p.K)]] = glyph.ID(p.V)
		}
		r := &gtab.Gsub8_1{Input: cov, SubstituteGlyphIDs: out}
		for _, s := range st.Back {
			r.Backtrack = append(r.Backtrack, table(s))
		}
		for _, s := range st.Ahead {
			r.Lookahead = append(r.Lookahead, table(s))
		}
		return []gtab.Subtable{r}, nil
	case "spos":
		m, err := pairs[*VR](st.M)
		if err != nil {
			return nil, err
		}
		var keys []int
		for _, p := range m {
			keys = append(keys, p.K)
		}
		cov := table(keys)
		if st.Fmt == 1 {
			if len(m) == 0 {
				return nil, fmt.Errorf("empty spos 1.1")
			}
			return []gtab.Subtable{&gtab.Gpos1_1{Cov: cov, Adjust: m[0].V.rec()}}, nil
		}
		adj := make([]*gtab.GposValueRecord, len(cov))
		for _, p := range m {
			adj[cov[glyph.ID(p.K)]] = p.V.rec()
		}
		return []gtab.Subtable{&gtab.Gpos1_2{Cov: cov, Adjust: adj}}, nil
	case "pair":
		if st.Fmt == 2 {
			p := &gtab.Gpos2_2{Cov: set(st.First), Class1: classdef.Table{}, Class2: classdef.Table{}}
			for _, c := range st.Class1 {
				if c[1] != 0 {
					p.Class1[glyph.ID(c[0])] = uint16(c[1])
				}
			}
			for _, c := range st.Class2 {
				if c[1] != 0 {
					p.Class2[glyph.ID(c[0])] = uint16(c[1])
				}
			}
			for _, row := range st.Matrix {
				var r []*gtab.PairAdjust
				for _, c := range row {
					r = append(r, &gtab.PairAdjust{First: c.First.rec(), Second: c.Second.rec()})
				}
				p.Adjust = append(p.Adjust, r)
			}
			return []gtab.Subtable{p}, nil
		}
		var tmp []struct {
			K [2]int
			V PairRec
		}
		var raw [][2]json.RawMessage
		if err := json.Unmarshal(st.Adj, &raw); err != nil {
			return nil, err
		}
		for _, r := range raw {
			var e struct {
				K [2]int
				V PairRec
			}
			if err := json.Unmarshal(r[0], &e.K); err != nil {
				return nil, err
			}
			if err := json.Unmarshal(r[1], &e.V); err != nil {
				return nil, err
			}
			tmp = append(tmp, e)
		}
		p := gtab.Gpos2_1{}
		for _, e := range tmp {
			p[glyph.Pair{Left: glyph.ID(e.K[0]), Right: glyph.ID(e.K[1])}] = &gtab.PairAdjust{First: e.V.First.rec(), Second: e.V.Second.rec()}
		}
		return []gtab.Subtable{p}, nil
	case "curs":
		type an struct {
			X int `json:"x"`
			Y int `json:"y"`
		}
		type ee struct {
			Entry *an `json:"entry"`
			Exit  *an `json:"exit"`
		}
		recs, err := pairs[ee](st.Recs)
		if err != nil {
			return nil, err
		}
		var keys []int
		for _, p := range recs {
			keys = append(keys, p.K)
		}
		cov := table(keys)
		arr := make([]gtab.EntryExitRecord, len(cov))
		for _, p := range recs {
			var r gtab.EntryExitRecord
			if p.V.Entry != nil {
				r.Entry = anchor.Table{X: funit.Int16(p.V.Entry.X), Y: funit.Int16(p.V.Entry.Y)}
			}
			if p.V.Exit != nil {
				r.Exit = anchor.Table{X: funit.Int16(p.V.Exit.X), Y: funit.Int16(p.V.Exit.Y)}
			}
			arr[cov[glyph.ID(p.K)]] = r
		}
		return []gtab.Subtable{&gtab.Gpos3_1{Cov: cov, Records: arr}}, nil
	case "mbase", "mmark":
		type mk struct {
			Cls int `json:"cls"`
			X   int `json:"x"`
			Y   int `json:"y"`
		}
		type an struct {
			X int `json:"x"`
			Y int `json:"y"`
		}
		marks, err := pairs[mk](st.Marks)
		if err != nil {
			return nil, err
		}
		bases, err := pairs[[]*an](st.Bases)
		if err != nil {
			return nil, err
		}
		var mkeys, bkeys []int
		for _, p := range marks {
			mkeys = append(mkeys, p.K)
		}
		for _, p := range bases {
			bkeys = append(bkeys, p.K)
		}
		mcov, bcov := table(mkeys), table(bkeys)
		marr := make([]markarray.Record, len(mcov))
		for _, p := range marks {
			marr[mcov[glyph.ID(p.K)]] = markarray.Record{Class: uint16(p.V.Cls),
				Table: anchor.Table{X: funit.Int16(p.V.X), Y: funit.Int16(p.V.Y)}}
		}
		barr := make([][]anchor.Table, len(bcov))
		for _, p := range bases {
			var row []anchor.Table
			for _, a := range p.V {
				if a == nil {
					row = append(row, anchor.Table{})
				} else {
					row = append(row, anchor.Table{X: funit.Int16(a.X), Y: funit.Int16(a.Y)})
				}
			}
			barr[bcov[glyph.ID(p.K)]] = row
		}
		if st.K == "mbase" {
			return []gtab.Subtable{&gtab.Gpos4_1{MarkCov: mcov, BaseCov: bcov, MarkArray: marr, BaseArray: barr}}, nil
		}
		return []gtab.Subtable{&gtab.Gpos6_1{Mark1Cov: mcov, Mark2Cov: bcov, Mark1Array: marr, Mark2Array: barr}}, nil
	}
	return nil, fmt.Errorf("unknown subtable kind %q", st.K)
}

var gsubType = map[string]uint16{"single": 1, "multi": 2, "alt": 3, "lig": 4, "ctx": 5, "rev": 8}
var gposType = map[string]uint16{"spos": 1, "pair": 2, "curs": 3, "mbase": 4, "mmark": 6, "ctx": 7}

// Build constructs the real tables of a case.
func Build(c *Case) (*Built, error) {
	b := &Built{}
	for _, L := range c.LL {
		meta := &gtab.LookupMetaInfo{}
		for _, f := range L.Flags {
			switch f {
			case "base":
				meta.LookupFlags |= gtab.IgnoreBaseGlyphs
			case "lig":
				meta.LookupFlags |= gtab.IgnoreLigatures
			case "mark":
				meta.LookupFlags |= gtab.IgnoreMarks
			}
		}
		if L.UseSet {
			meta.LookupFlags |= gtab.UseMarkFilteringSet
			meta.MarkFilteringSet = uint16(L.MarkSet - 1)
		}
		if L.RTL {
			meta.LookupFlags |= gtab.RightToLeft
		}
		meta.LookupFlags |= gtab.LookupFlags(L.Attach) << 8
		lt := &gtab.LookupTable{Meta: meta}
		for i := range L.Subs {
			st := &L.Subs[i]
			subs, err := buildSub(st)
			if err != nil {
				return nil, fmt.Errorf("case %d: %v", c.ID, err)
			}
			lt.Subtables = append(lt.Subtables, subs...)
			tp := gsubType[st.K]
			if L.Gpos {
				tp = gposType[st.K]
			}
			if st.K == "ctx" && st.Chain {
				tp++
			}
			meta.LookupType = tp
		}
		b.LL = append(b.LL, lt)
	}
	if c.Gdef.Present {
		g := &gdef.Table{GlyphClass: classdef.Table{}, MarkAttachClass: classdef.Table{}}
		for _, p := range c.Gdef.Class {
			gid := glyph.ID(p[0].(float64))
			switch p[1].(string) {
			case "base":
				g.GlyphClass[gid] = gdef.GlyphClassBase
			case "lig":
				g.GlyphClass[gid] = gdef.GlyphClassLigature
			case "mark":
				g.GlyphClass[gid] = gdef.GlyphClassMark
			case "comp":
				g.GlyphClass[gid] = gdef.GlyphClassComponent
			}
		}
		for _, p := range c.Gdef.Att {
			g.MarkAttachClass[glyph.ID(p[0])] = uint16(p[1])
		}
		for _, s := range c.Gdef.Sets {
			g.MarkGlyphSets = append(g.MarkGlyphSets, set(s))
		}
		b.Gdef = g
	}
	for _, o := range c.Order {
		b.Order = append(b.Order, gtab.LookupIndex(o-1))
	}
	return b, nil
}

// MkSeq builds the input glyph sequence exactly as Shaper.tla's MkSeq does.
func MkSeq(in []int) []glyph.Info {
	// The text of all glyphs lives in ONE array, as it does for a caller who slices []rune(s): an engine
	// that appends to a glyph's Text in place overwrites the text of the following glyphs.
	seq := make([]glyph.Info, len(in))
	all := make([]rune, len(in))
	for i := range all {
		all[i] = rune(i + 1)
	}
	for i, g := range in {
		seq[i] = glyph.Info{GID: glyph.ID(g), Text: all[i : i+1], Advance: funit.Int16(10 * (g % 300))}
	}
	return seq
}

// Project converts an output sequence.
func Project(out []glyph.Info) []Glyph {
	res := make([]Glyph, len(out))
	for i, g := range out {
		t := make([]int, len(g.Text))
		for j, r := range g.Text {
			t[j] = int(r)
		}
		res[i] = Glyph{G: int(g.GID), T: t, X: int(g.XOffset), Y: int(g.YOffset), Adv: int(g.Advance)}
	}
	return res
}

// Equal compares two projections.
func Equal(a, b []Glyph) bool {
	if len(a) != len(b) {
		return false
	}
	for i := range a {
		if a[i].G != b[i].G || a[i].X != b[i].X || a[i].Y != b[i].Y || a[i].Adv != b[i].Adv || len(a[i].T) != len(b[i].T) {
			return false
		}
		for j := range a[i].T {
			if a[i].T[j] != b[i].T[j] {
				return false
			}
		}
	}
	return true
}

// Conserved reports whether the text ids 1..n appear exactly once each in out.
func Conserved(n int, out []Glyph) bool {
	seen := make([]bool, n+1)
	cnt := 0
	for _, g := range out {
		for _, t := range g.T {
			if t < 1 || t > n || seen[t] {
				return false
			}
			seen[t] = true
			cnt++
		}
	}
	return cnt == n
}

// Run applies the lookups with a fresh context; a panic is reported as a string.
func Run(b *Built, in []int) (out []Glyph, panicMsg string) {
	return RunCtx(gtab.NewContext(b.LL, b.Gdef, b.Order), in)
}

// RunCtx applies the lookups with the given (possibly reused) context.
func RunCtx(ctx *gtab.Context, in []int) (out []Glyph, panicMsg string) {
	defer func() {
		if r := recover(); r != nil {
			out = nil
			panicMsg = fmt.Sprint(r)
			if panicMsg == "" {
				panicMsg = "panic"
			}
		}
	}()
	res := ctx.Apply(MkSeq(in))
	return Project(res), ""
}
