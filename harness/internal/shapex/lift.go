package shapex

import (
	"encoding/json"
	"fmt"
	"sort"

	"seehuhn.de/go/sfnt/glyph"
	"seehuhn.de/go/sfnt/opentype/anchor"
	"seehuhn.de/go/sfnt/opentype/classdef"
	"seehuhn.de/go/sfnt/opentype/coverage"
	"seehuhn.de/go/sfnt/opentype/gdef"
	"seehuhn.de/go/sfnt/opentype/gtab"
)

// Lift converts real lookup tables (as built by the DSL parser, or read from a font file) into
// the abstract case format understood by Shaper.tla.  Class-based formats are expanded over the
// finite glyph universe of the case (all glyphs mentioned in the tables or the inputs).
//
// The result is nil (with a reason) when the tables use something outside the model
// (GPOS 3/5, device tables, vertical advances).

// ErrOutside is returned for tables outside the model.
type ErrOutside struct{ Reason string }

func (e *ErrOutside) Error() string { return "outside the model: " + e.Reason }

type lifter struct {
	u   map[int]bool
	lst []int
}

func (l *lifter) add(gs ...glyph.ID) {
	for _, g := range gs {
		l.u[int(g)] = true
	}
}

func (l *lifter) universe() []int {
	if l.lst == nil {
		for g := range l.u {
			l.lst = append(l.lst, g)
		}
		sort.Ints(l.lst)
	}
	return l.lst
}

func raw(v any) json.RawMessage {
	b, err := json.Marshal(v)
	if err != nil {
		panic(err)
	}
	return b
}

func sorted(m map[int]bool) []int {
	res := make([]int, 0, len(m))
	for g := range m {
		res = append(res, g)
	}
	sort.Ints(res)
	return res
}

func setOf(s coverage.Set) []int {
	m := map[int]bool{}
	for g, ok := range s {
		if ok {
			m[int(g)] = true
		}
	}
	return sorted(m)
}

func tableOf(t coverage.Table) []int {
	m := map[int]bool{}
	for g := range t {
		m[int(g)] = true
	}
	return sorted(m)
}

func (l *lifter) classSet(cd classdef.Table, c uint16) []int {
	res := []int{}
	for _, g := range l.universe() {
		if cd[glyph.ID(g)] == c {
			res = append(res, g)
		}
	}
	return res
}

func liftActs(as []gtab.SeqLookup) []Act {
	res := make([]Act, len(as))
	for i, a := range as {
		res[i] = Act{Idx: int(a.SequenceIndex), Lk: int(a.LookupListIndex) + 1}
	}
	return res
}

func vrOf(v *gtab.GposValueRecord) (*VR, error) {
	if v == nil {
		return nil, nil
	}
	if v.YAdvance != 0 || v.XPlacementDevOffs != 0 || v.YPlacementDevOffs != 0 || v.XAdvanceDevOffs != 0 || v.YAdvanceDevOffs != 0 {
		return nil, &ErrOutside{"vertical advance or device table"}
	}
	return &VR{Dx: int(v.XPlacement), Dy: int(v.YPlacement), Da: int(v.XAdvance)}, nil
}

func invert(t coverage.Table) map[int]int {
	res := map[int]int{}
	for g, i := range t {
		res[i] = int(g)
	}
	return res
}

func ints(gs []glyph.ID) []int {
	res := make([]int, len(gs))
	for i, g := range gs {
		res[i] = int(g)
	}
	return res
}

func single1(g glyph.ID) [][]int { return [][]int{{int(g)}} }

func (l *lifter) collect(ll gtab.LookupList) {
	for _, lt := range ll {
		for _, st := range lt.Subtables {
			switch s := st.(type) {
			case *gtab.Gsub1_1:
				for g := range s.Cov {
					l.add(g, g+s.Delta)
				}
			case *gtab.Gsub1_2:
				for g := range s.Cov {
					l.add(g)
				}
				l.add(s.SubstituteGlyphIDs...)
			case *gtab.Gsub2_1:
				for g := range s.Cov {
					l.add(g)
				}
				for _, r := range s.Repl {
					l.add(r...)
				}
			case *gtab.Gsub3_1:
				for g := range s.Cov {
					l.add(g)
				}
				for _, r := range s.Alternates {
					l.add(r...)
				}
			case *gtab.Gsub4_1:
				for g := range s.Cov {
					l.add(g)
				}
				for _, rs := range s.Repl {
					for _, r := range rs {
						l.add(r.In...)
						l.add(r.Out)
					}
				}
			case *gtab.Gsub8_1:
				for g := range s.Input {
					l.add(g)
				}
				l.add(s.SubstituteGlyphIDs...)
				for _, c := range append(append([]coverage.Table{}, s.Backtrack...), s.Lookahead...) {
					for g := range c {
						l.add(g)
					}
				}
			case *gtab.SeqContext1:
				for g := range s.Cov {
					l.add(g)
				}
				for _, rs := range s.Rules {
					for _, r := range rs {
						l.add(r.Input...)
					}
				}
			case *gtab.SeqContext2:
				for g := range s.Cov {
					l.add(g)
				}
				for g := range s.Input {
					l.add(g)
				}
			case *gtab.SeqContext3:
				for _, c := range s.Input {
					for g := range c {
						l.add(g)
					}
				}
			case *gtab.ChainedSeqContext1:
				for g := range s.Cov {
					l.add(g)
				}
				for _, rs := range s.Rules {
					for _, r := range rs {
						l.add(r.Input...)
						l.add(r.Backtrack...)
						l.add(r.Lookahead...)
					}
				}
			case *gtab.ChainedSeqContext2:
				for g := range s.Cov {
					l.add(g)
				}
				for _, cd := range []classdef.Table{s.Input, s.Backtrack, s.Lookahead} {
					for g := range cd {
						l.add(g)
					}
				}
			case *gtab.ChainedSeqContext3:
				for _, cs := range [][]coverage.Set{s.Input, s.Backtrack, s.Lookahead} {
					for _, c := range cs {
						for g := range c {
							l.add(g)
						}
					}
				}
			case *gtab.Gpos1_1:
				for g := range s.Cov {
					l.add(g)
				}
			case *gtab.Gpos1_2:
				for g := range s.Cov {
					l.add(g)
				}
			case gtab.Gpos2_1:
				for p := range s {
					l.add(p.Left, p.Right)
				}
			case *gtab.Gpos2_2:
				for g := range s.Cov {
					l.add(g)
				}
				for g := range s.Class1 {
					l.add(g)
				}
				for g := range s.Class2 {
					l.add(g)
				}
			case *gtab.Gpos4_1:
				for g := range s.MarkCov {
					l.add(g)
				}
				for g := range s.BaseCov {
					l.add(g)
				}
			case *gtab.Gpos6_1:
				for g := range s.Mark1Cov {
					l.add(g)
				}
				for g := range s.Mark2Cov {
					l.add(g)
				}
			}
		}
	}
}

func (l *lifter) sub(st gtab.Subtable) ([]Sub, error) {
	switch s := st.(type) {
	case *gtab.Gsub1_1:
		var m [][2]int
		for g := range s.Cov {
			m = append(m, [2]int{int(g), int(g + s.Delta)})
		}
		sort.Slice(m, func(i, j int) bool { return m[i][0] < m[j][0] })
		return []Sub{{K: "single", Fmt: 2, M: raw(m)}}, nil
	case *gtab.Gsub1_2:
		var m [][2]int
		for g, i := range s.Cov {
			if i >= len(s.SubstituteGlyphIDs) {
				return nil, &ErrOutside{"coverage index beyond substitutes"}
			}
			m = append(m, [2]int{int(g), int(s.SubstituteGlyphIDs[i])})
		}
		sort.Slice(m, func(i, j int) bool { return m[i][0] < m[j][0] })
		return []Sub{{K: "single", Fmt: 2, M: raw(m)}}, nil
	case *gtab.Gsub2_1, *gtab.Gsub3_1:
		var cov coverage.Table
		var rows [][]glyph.ID
		k := "multi"
		if x, ok := s.(*gtab.Gsub2_1); ok {
			cov, rows = x.Cov, x.Repl
		} else {
			x := s.(*gtab.Gsub3_1)
			cov, rows, k = x.Cov, x.Alternates, "alt"
		}
		var m [][2]any
		for _, g := range tableOf(cov) {
			i := cov[glyph.ID(g)]
			if i >= len(rows) {
				return nil, &ErrOutside{"coverage index beyond rows"}
			}
			m = append(m, [2]any{g, ints(rows[i])})
		}
		return []Sub{{K: k, M: raw(m)}}, nil
	case *gtab.Gsub4_1:
		type lr struct {
			In  []int `json:"in"`
			Out int   `json:"out"`
		}
		var m [][2]any
		for _, g := range tableOf(s.Cov) {
			i := s.Cov[glyph.ID(g)]
			if i >= len(s.Repl) {
				return nil, &ErrOutside{"coverage index beyond ligature sets"}
			}
			rs := []lr{}
			for _, r := range s.Repl[i] {
				rs = append(rs, lr{In: ints(r.In), Out: int(r.Out)})
			}
			m = append(m, [2]any{g, rs})
		}
		return []Sub{{K: "lig", M: raw(m)}}, nil
	case *gtab.Gsub8_1:
		var m [][2]int
		for g, i := range s.Input {
			if i >= len(s.SubstituteGlyphIDs) {
				return nil, &ErrOutside{"coverage index beyond substitutes"}
			}
			m = append(m, [2]int{int(g), int(s.SubstituteGlyphIDs[i])})
		}
		sort.Slice(m, func(i, j int) bool { return m[i][0] < m[j][0] })
		r := Sub{K: "rev", M: raw(m), Back: [][]int{}, Ahead: [][]int{}}
		for _, c := range s.Backtrack {
			r.Back = append(r.Back, tableOf(c))
		}
		for _, c := range s.Lookahead {
			r.Ahead = append(r.Ahead, tableOf(c))
		}
		return []Sub{r}, nil
	case *gtab.SeqContext1:
		res := Sub{K: "ctx", Fmt: 3}
		inv := invert(s.Cov)
		for i := 0; i < len(s.Rules); i++ {
			g, ok := inv[i]
			if !ok {
				continue
			}
			for _, r := range s.Rules[i] {
				rl := Rule{In: [][]int{{g}}, Back: [][]int{}, Ahead: [][]int{}, Acts: liftActs(r.Actions)}
				for _, x := range r.Input {
					rl.In = append(rl.In, []int{int(x)})
				}
				res.Rules = append(res.Rules, rl)
			}
		}
		return []Sub{res}, nil
	case *gtab.SeqContext2:
		res := Sub{K: "ctx", Fmt: 3}
		for c := 0; c < len(s.Rules); c++ {
			first := []int{}
			for _, g := range l.classSet(s.Input, uint16(c)) {
				if _, ok := s.Cov[glyph.ID(g)]; ok {
					first = append(first, g)
				}
			}
			for _, r := range s.Rules[c] {
				rl := Rule{In: [][]int{first}, Back: [][]int{}, Ahead: [][]int{}, Acts: liftActs(r.Actions)}
				for _, x := range r.Input {
					rl.In = append(rl.In, l.classSet(s.Input, x))
				}
				res.Rules = append(res.Rules, rl)
			}
		}
		return []Sub{res}, nil
	case *gtab.SeqContext3:
		rl := Rule{Back: [][]int{}, Ahead: [][]int{}, Acts: liftActs(s.Actions)}
		for _, c := range s.Input {
			rl.In = append(rl.In, setOf(c))
		}
		if len(rl.In) == 0 {
			return nil, &ErrOutside{"empty input"}
		}
		return []Sub{{K: "ctx", Fmt: 3, Rules: []Rule{rl}}}, nil
	case *gtab.ChainedSeqContext1:
		res := Sub{K: "ctx", Fmt: 3, Chain: true}
		inv := invert(s.Cov)
		for i := 0; i < len(s.Rules); i++ {
			g, ok := inv[i]
			if !ok {
				continue
			}
			for _, r := range s.Rules[i] {
				rl := Rule{In: [][]int{{g}}, Back: [][]int{}, Ahead: [][]int{}, Acts: liftActs(r.Actions)}
				for _, x := range r.Input {
					rl.In = append(rl.In, []int{int(x)})
				}
				for _, x := range r.Backtrack {
					rl.Back = append(rl.Back, []int{int(x)})
				}
				for _, x := range r.Lookahead {
					rl.Ahead = append(rl.Ahead, []int{int(x)})
				}
				res.Rules = append(res.Rules, rl)
			}
		}
		return []Sub{res}, nil
	case *gtab.ChainedSeqContext2:
		res := Sub{K: "ctx", Fmt: 3, Chain: true}
		for c := 0; c < len(s.Rules); c++ {
			first := []int{}
			for _, g := range l.classSet(s.Input, uint16(c)) {
				if _, ok := s.Cov[glyph.ID(g)]; ok {
					first = append(first, g)
				}
			}
			for _, r := range s.Rules[c] {
				rl := Rule{In: [][]int{first}, Back: [][]int{}, Ahead: [][]int{}, Acts: liftActs(r.Actions)}
				for _, x := range r.Input {
					rl.In = append(rl.In, l.classSet(s.Input, x))
				}
				for _, x := range r.Backtrack {
					rl.Back = append(rl.Back, l.classSet(s.Backtrack, x))
				}
				for _, x := range r.Lookahead {
					rl.Ahead = append(rl.Ahead, l.classSet(s.Lookahead, x))
				}
				res.Rules = append(res.Rules, rl)
			}
		}
		return []Sub{res}, nil
	case *gtab.ChainedSeqContext3:
		rl := Rule{In: [][]int{}, Back: [][]int{}, Ahead: [][]int{}, Acts: liftActs(s.Actions)}
		for _, c := range s.Input {
			rl.In = append(rl.In, setOf(c))
		}
		for _, c := range s.Backtrack {
			rl.Back = append(rl.Back, setOf(c))
		}
		for _, c := range s.Lookahead {
			rl.Ahead = append(rl.Ahead, setOf(c))
		}
		if len(rl.In) == 0 {
			return nil, &ErrOutside{"empty input"}
		}
		return []Sub{{K: "ctx", Fmt: 3, Chain: true, Rules: []Rule{rl}}}, nil
	case *gtab.Gpos1_1:
		v, err := vrOf(s.Adjust)
		if err != nil {
			return nil, err
		}
		var m [][2]any
		for _, g := range tableOf(s.Cov) {
			m = append(m, [2]any{g, v})
		}
		return []Sub{{K: "spos", Fmt: 2, M: raw(m)}}, nil
	case *gtab.Gpos1_2:
		var m [][2]any
		for _, g := range tableOf(s.Cov) {
			i := s.Cov[glyph.ID(g)]
			if i >= len(s.Adjust) {
				return nil, &ErrOutside{"coverage index beyond adjustments"}
			}
			v, err := vrOf(s.Adjust[i])
			if err != nil {
				return nil, err
			}
			m = append(m, [2]any{g, v})
		}
		return []Sub{{K: "spos", Fmt: 2, M: raw(m)}}, nil
	case gtab.Gpos2_1:
		first := map[int]bool{}
		var adj [][2]any
		var keys []glyph.Pair
		for p := range s {
			keys = append(keys, p)
		}
		sort.Slice(keys, func(i, j int) bool {
			if keys[i].Left != keys[j].Left {
				return keys[i].Left < keys[j].Left
			}
			return keys[i].Right < keys[j].Right
		})
		for _, p := range keys {
			a := s[p]
			if a == nil {
				return nil, &ErrOutside{"nil pair adjustment"}
			}
			f, err := vrOf(a.First)
			if err != nil {
				return nil, err
			}
			sec, err := vrOf(a.Second)
			if err != nil {
				return nil, err
			}
			first[int(p.Left)] = true
			adj = append(adj, [2]any{[2]int{int(p.Left), int(p.Right)}, PairRec{First: f, Second: sec}})
		}
		return []Sub{{K: "pair", Fmt: 1, First: sorted(first), Adj: raw(adj)}}, nil
	case *gtab.Gpos2_2:
		var adj [][2]any
		for _, g1 := range setOf(s.Cov) {
			c1 := int(s.Class1[glyph.ID(g1)])
			if c1 >= len(s.Adjust) {
				continue
			}
			for _, g2 := range l.universe() {
				c2 := int(s.Class2[glyph.ID(g2)])
				if c2 >= len(s.Adjust[c1]) {
					continue
				}
				a := s.Adjust[c1][c2]
				if a == nil {
					return nil, &ErrOutside{"nil pair adjustment"}
				}
				f, err := vrOf(a.First)
				if err != nil {
					return nil, err
				}
				sec, err := vrOf(a.Second)
				if err != nil {
					return nil, err
				}
				adj = append(adj, [2]any{[2]int{g1, g2}, PairRec{First: f, Second: sec}})
			}
		}
		return []Sub{{K: "pair", Fmt: 1, First: setOf(s.Cov), Adj: raw(adj)}}, nil
	case *gtab.Gpos4_1:
		return liftAttach("mbase", s.MarkCov, s.BaseCov, func(i int) (int, anchor.Table) {
			return int(s.MarkArray[i].Class), s.MarkArray[i].Table
		}, len(s.MarkArray), s.BaseArray)
	case *gtab.Gpos6_1:
		return liftAttach("mmark", s.Mark1Cov, s.Mark2Cov, func(i int) (int, anchor.Table) {
			return int(s.Mark1Array[i].Class), s.Mark1Array[i].Table
		}, len(s.Mark1Array), s.Mark2Array)
	}
	return nil, &ErrOutside{fmt.Sprintf("subtable type %T", st)}
}

func liftAttach(kind string, mcov, bcov coverage.Table, mark func(int) (int, anchor.Table), nm int, barr [][]anchor.Table) ([]Sub, error) {
	type mk struct {
		Cls int `json:"cls"`
		X   int `json:"x"`
		Y   int `json:"y"`
	}
	type an struct {
		X int `json:"x"`
		Y int `json:"y"`
	}
	var marks, bases [][2]any
	for _, g := range tableOf(mcov) {
		i := mcov[glyph.ID(g)]
		if i >= nm {
			return nil, &ErrOutside{"coverage index beyond mark array"}
		}
		c, a := mark(i)
		marks = append(marks, [2]any{g, mk{Cls: c, X: int(a.X), Y: int(a.Y)}})
	}
	for _, g := range tableOf(bcov) {
		i := bcov[glyph.ID(g)]
		if i >= len(barr) {
			return nil, &ErrOutside{"coverage index beyond base array"}
		}
		row := []*an{}
		for _, a := range barr[i] {
			if a.IsEmpty() {
				row = append(row, nil)
			} else {
				row = append(row, &an{X: int(a.X), Y: int(a.Y)})
			}
		}
		bases = append(bases, [2]any{g, row})
	}
	return []Sub{{K: kind, Marks: raw(marks), Bases: raw(bases)}}, nil
}

// Lift converts tables and explicit inputs into a case.
func Lift(id int, family string, ll gtab.LookupList, gd *gdef.Table, order []gtab.LookupIndex, gpos bool, inputs [][]int) (*Case, error) {
	l := &lifter{u: map[int]bool{}}
	l.collect(ll)
	for _, in := range inputs {
		for _, g := range in {
			l.u[g] = true
		}
	}
	c := &Case{ID: id, Family: family, Inputs: inputs}
	for _, o := range order {
		c.Order = append(c.Order, int(o)+1)
	}
	for _, lt := range ll {
		L := Lookup{Flags: []string{}, MarkSet: 1, Gpos: gpos, Subs: []Sub{}}
		f := lt.Meta.LookupFlags
		if f&gtab.IgnoreBaseGlyphs != 0 {
			L.Flags = append(L.Flags, "base")
		}
		if f&gtab.IgnoreLigatures != 0 {
			L.Flags = append(L.Flags, "lig")
		}
		if f&gtab.IgnoreMarks != 0 {
			L.Flags = append(L.Flags, "mark")
		}
		if f&gtab.UseMarkFilteringSet != 0 {
			L.UseSet = true
			L.MarkSet = int(lt.Meta.MarkFilteringSet) + 1
		}
		L.RTL = f&gtab.RightToLeft != 0
		L.Attach = int(f&gtab.MarkAttachTypeMask) >> 8
		if f&0x00E0 != 0 {
			return nil, &ErrOutside{"reserved lookup flag bits"}
		}
		for _, st := range lt.Subtables {
			ss, err := l.sub(st)
			if err != nil {
				return nil, err
			}
			L.Subs = append(L.Subs, ss...)
		}
		c.LL = append(c.LL, L)
	}
	if gd != nil && gd.GlyphClass != nil {
		c.Gdef.Present = true
		c.Gdef.Class = [][]any{}
		c.Gdef.Att = [][2]int{}
		c.Gdef.Sets = [][]int{}
		for _, g := range l.universe() {
			switch gd.GlyphClass[glyph.ID(g)] {
			case gdef.GlyphClassBase:
				c.Gdef.Class = append(c.Gdef.Class, []any{g, "base"})
			case gdef.GlyphClassLigature:
				c.Gdef.Class = append(c.Gdef.Class, []any{g, "lig"})
			case gdef.GlyphClassMark:
				c.Gdef.Class = append(c.Gdef.Class, []any{g, "mark"})
			}
			if a := gd.MarkAttachClass[glyph.ID(g)]; a != 0 {
				c.Gdef.Att = append(c.Gdef.Att, [2]int{g, int(a)})
			}
		}
		for _, s := range gd.MarkGlyphSets {
			set := []int{}
			for _, g := range l.universe() {
				if s[glyph.ID(g)] {
					set = append(set, g)
				}
			}
			c.Gdef.Sets = append(c.Gdef.Sets, set)
		}
	} else {
		c.Gdef = Gdef{Class: [][]any{}, Att: [][2]int{}, Sets: [][]int{}}
	}
	return c, nil
}
