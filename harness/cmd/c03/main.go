// Command c03 drives the real container writer/reader and records what an independent
// walker sees (DESIGN.md, C03).  The recorded trace is judged by spec/ContainerTrace.tla.
//
//	c03 maps <cases.ndjson> <out.ndjson>   tag maps enumerated by TLC from Container.tla -> header.Write
//	c03 random <n> <out.ndjson>            seeded random tag maps (random tags, longer tables)
//	c03 fonts <out.ndjson>                 corpus fonts written with (*sfnt.Font).Write, parsed by x/image
//	c03 one <case.json> <out.ndjson>       a single harness-level case (replay)
//
// Every mode except "one" also writes <out.ndjson>.cases (one harness-level case per line).
package main

import (
	"bytes"
	"encoding/json"
	"fmt"
	"math"
	"math/rand"
	"os"
	"sort"
	"strconv"

	"golang.org/x/image/font"
	xsfnt "golang.org/x/image/font/sfnt"
	"golang.org/x/image/math/fixed"

	"seehuhn.de/go/sfnt"
	"seehuhn.de/go/sfnt/cff"
	"seehuhn.de/go/sfnt/cmap"
	"seehuhn.de/go/sfnt/glyf"
	"seehuhn.de/go/sfnt/glyph"
	"seehuhn.de/go/sfnt/header"

	"verif.local/harness/internal/fonts"
	"verif.local/harness/internal/sfntwalk"
	"verif.local/harness/internal/vio"
)

// Tab is one entry of the map given to header.Write.
type Tab struct {
	Tag  []int `json:"tag"`
	Nil  bool  `json:"nil"`
	Data []int `json:"data"`
}

// Case is a harness-level case.
type Case struct {
	ID     int         `json:"id"`
	Kind   string      `json:"kind"` // map | font
	Scaler [2]int      `json:"scaler"`
	Tabs   []Tab       `json:"tabs"`
	Name   string      `json:"name"`
	Opts   *fonts.Opts `json:"opts,omitempty"` // font: nil = Go Regular
	Stream int64       `json:"stream"`         // font: random stream of the builder
}

type ev map[string]any

func ints(b []byte) []int {
	res := make([]int, len(b))
	for i, x := range b {
		res[i] = int(x)
	}
	return res
}

func tobytes(a []int) []byte {
	res := make([]byte, len(a)) // non-nil also when empty
	for i, x := range a {
		res[i] = byte(x)
	}
	return res
}

var caseLog *vio.Out

// writtenEvent describes the produced bytes through the independent walker.
func writtenEvent(id int, file []byte, n int64, err error, pmsg string) ev {
	e := ev{"ev": "written", "id": id, "ok": err == nil && pmsg == "", "panic": pmsg != "", "msg": pmsg, "n": int(n)}
	if err != nil {
		e["msg"] = err.Error()
	}
	d := sfntwalk.Walk(file)
	e["file"] = ints(file)
	e["walkok"] = d.OK
	e["nt"], e["sr"], e["es"], e["rs"] = d.NumTables, d.SearchRange, d.EntrySelector, d.RangeShift
	recs := []ev{}
	for _, r := range d.Recs {
		recs = append(recs, ev{"tag": ints(r.Tag[:]), "sum": sfntwalk.Halves(r.Sum), "off": sfntwalk.Halves(r.Off),
			"len": sfntwalk.Halves(r.Len), "inside": r.Inside, "calc": sfntwalk.Halves(r.Calc)})
	}
	e["recs"] = recs
	e["fsum"] = sfntwalk.Halves(d.FileSum)
	return e
}

// readbackEvent reads the container with the library under test.
func readbackEvent(id int, file []byte) ev {
	e := ev{"ev": "readback", "id": id, "ok": false, "panic": false, "msg": "", "scaler": [2]int{0, 0}, "tabs": []ev{}}
	func() {
		defer func() {
			if x := recover(); x != nil {
				e["panic"], e["msg"] = true, fmt.Sprint(x)
			}
		}()
		r := bytes.NewReader(file)
		info, err := header.Read(r)
		if err != nil {
			e["msg"] = err.Error()
			return
		}
		names := make([]string, 0, len(info.Toc))
		for name := range info.Toc {
			names = append(names, name)
		}
		sort.Strings(names)
		tabs := []ev{}
		for _, name := range names {
			data, err := info.ReadTableBytes(r, name)
			if err != nil {
				e["msg"] = name + ": " + err.Error()
				return
			}
			tabs = append(tabs, ev{"tag": ints([]byte(name)), "data": ints(data)})
		}
		e["ok"], e["scaler"], e["tabs"] = true, sfntwalk.Halves(info.ScalerType), tabs
	}()
	return e
}

func runMap(c *Case, out *vio.Out) {
	if caseLog != nil {
		caseLog.Emit(c)
	}
	tabs := c.Tabs
	if tabs == nil {
		tabs = []Tab{}
	}
	out.Emit(ev{"ev": "case", "id": c.ID, "kind": "map", "scaler": c.Scaler, "tabs": tabs, "name": c.Name})
	tables := map[string][]byte{}
	for _, t := range c.Tabs {
		name := string(tobytes(t.Tag))
		if t.Nil {
			tables[name] = nil
		} else {
			tables[name] = tobytes(t.Data)
		}
	}
	var buf bytes.Buffer
	var n int64
	var err error
	pmsg := ""
	func() {
		defer func() {
			if x := recover(); x != nil {
				pmsg = "panic: " + fmt.Sprint(x)
			}
		}()
		n, err = header.Write(&buf, uint32(c.Scaler[0])<<16|uint32(c.Scaler[1]), tables)
	}()
	file := buf.Bytes()
	out.Emit(writtenEvent(c.ID, file, n, err, pmsg))
	out.Emit(readbackEvent(c.ID, file))
}

// ---- whole fonts ---------------------------------------------------------------------------

func makeFont(c *Case) (*sfnt.Font, error) {
	if c.Opts == nil {
		return fonts.GoRegular()
	}
	return fonts.Make(vio.Rand(c.Stream), *c.Opts), nil
}

var probes = []rune{0, 0x20, 0x41, 0x42, 0x61, 0x7E, 0xFF, 0x300, 0x301, 0xFB01, 0xFB02, 0x4E00, 0x4E01, 0x4E1F, 0xFFFD, 0xFFFF,
	0x10000, 0x1F600, 0x1F607, 0x10FFFF}

func probeRunes(n int) []rune {
	seen := map[rune]bool{}
	var res []rune
	add := func(r rune) {
		if !seen[r] {
			seen[r] = true
			res = append(res, r)
		}
	}
	for _, r := range probes {
		add(r)
	}
	for i := 0; i < n && i < 400; i++ {
		add(fonts.CodeOf(i, false))
		add(fonts.CodeOf(i, true))
		add(fonts.CodeOf(i, true) + 1)
	}
	for r := rune(0x21); r < 0x7F; r += 3 {
		add(r)
	}
	return res
}

func emptyObs(id int, src string) ev {
	return ev{"ev": "obs", "id": id, "src": src, "ok": false, "msg": "", "ng": 0, "upem": 0, "runes": []int{},
		"gids": []int{}, "advlo": []int{}, "advhi": []int{}, "names": []string{},
		"oskip": []bool{}, "oseq": [][]int{}, "ooff": [][]int{}, "oon": [][][2]int{}}
}

// ---- outlines ------------------------------------------------------------------------------
//
// CFF glyphs are compared as the sequence of path operators (1 moveto, 2 lineto, 3 curveto, each
// followed by its absolute integer coordinates) after removing a lineto that closes a subpath
// (x/image closes subpaths explicitly, the font value need not).  TrueType glyphs are compared as
// point sets in 1/64 units: the off-curve (control) points must be the same multiset, and every
// on-curve point of the font value must be an end point of a segment x/image produces (x/image
// adds the implied on-curve points).  Composite glyphs and non-integer CFF coordinates are skipped.

type outline struct {
	skip bool
	seq  []int    // CFF
	off  []int    // TrueType: sorted off-curve points, flattened
	on   [][2]int // TrueType: on-curve points
}

func sortPoints(p [][2]int) {
	sort.Slice(p, func(i, j int) bool {
		if p[i][0] != p[j][0] {
			return p[i][0] < p[j][0]
		}
		return p[i][1] < p[j][1]
	})
}

func flatten(p [][2]int) []int {
	res := []int{}
	for _, q := range p {
		res = append(res, q[0], q[1])
	}
	return res
}

// dropClosing removes linetos that return to the start of their subpath at its end.
func dropClosing(ops [][]int) []int {
	res := []int{}
	var out [][]int
	start := -1 // index in out of the current moveto
	closeSub := func() {
		if start >= 0 && len(out) > start+1 {
			last := out[len(out)-1]
			if last[0] == 2 && last[1] == out[start][1] && last[2] == out[start][2] {
				out = out[:len(out)-1]
			}
		}
	}
	for _, op := range ops {
		if op[0] == 1 {
			closeSub()
			start = len(out)
		}
		out = append(out, op)
	}
	closeSub()
	for _, op := range out {
		res = append(res, op...)
	}
	return res
}

func libOutlines(f *sfnt.Font) []outline {
	ng := f.NumGlyphs()
	res := make([]outline, ng)
	switch o := f.Outlines.(type) {
	case *cff.Outlines:
		for i, g := range o.Glyphs {
			var ops [][]int
			for _, c := range g.Cmds {
				var code int
				switch c.Op {
				case cff.OpMoveTo:
					code = 1
				case cff.OpLineTo:
					code = 2
				case cff.OpCurveTo:
					code = 3
				default:
					continue
				}
				op := []int{code}
				for _, a := range c.Args {
					if a != math.Trunc(a) || math.Abs(a) > 30000 {
						res[i].skip = true
					}
					op = append(op, int(a))
				}
				ops = append(ops, op)
			}
			res[i].seq = dropClosing(ops)
		}
	case *glyf.Outlines:
		for i, g := range o.Glyphs {
			if g == nil {
				continue
			}
			sg, ok := g.Data.(glyf.SimpleGlyph)
			if !ok {
				res[i].skip = true
				continue
			}
			if sg.NumContours <= 0 {
				continue
			}
			func() {
				defer func() {
					if recover() != nil {
						res[i].skip = true
					}
				}()
				info, err := sg.Decode()
				if err != nil {
					res[i].skip = true
					return
				}
				var off [][2]int
				for _, c := range info.Contours {
					for _, p := range c {
						q := [2]int{64 * int(p.X), 64 * int(p.Y)}
						if p.OnCurve {
							res[i].on = append(res[i].on, q)
						} else {
							off = append(off, q)
						}
					}
				}
				sortPoints(off)
				res[i].off = flatten(off)
			}()
		}
	}
	return res
}

func putOutlines(e ev, ol []outline) {
	skip, seq, off, on := []bool{}, [][]int{}, [][]int{}, [][][2]int{}
	for _, o := range ol {
		skip = append(skip, o.skip)
		if o.seq == nil {
			o.seq = []int{}
		}
		if o.off == nil {
			o.off = []int{}
		}
		if o.on == nil {
			o.on = [][2]int{}
		}
		seq, off, on = append(seq, o.seq), append(off, o.off), append(on, o.on)
	}
	e["oskip"], e["oseq"], e["ooff"], e["oon"] = skip, seq, off, on
}

// xOutline loads glyph i with x/image at ppem = unitsPerEm (no scaling, no hinting).
func xOutline(xf *xsfnt.Font, b *xsfnt.Buffer, i, upem int, isCFF bool) (outline, error) {
	var o outline
	segs, err := xf.LoadGlyph(b, xsfnt.GlyphIndex(i), fixed.I(upem), nil)
	if err != nil {
		return o, err
	}
	var ops [][]int
	var off [][2]int
	for _, s := range segs {
		n := map[xsfnt.SegmentOp]int{xsfnt.SegmentOpMoveTo: 1, xsfnt.SegmentOpLineTo: 1, xsfnt.SegmentOpQuadTo: 2, xsfnt.SegmentOpCubeTo: 3}[s.Op]
		if isCFF {
			code := map[xsfnt.SegmentOp]int{xsfnt.SegmentOpMoveTo: 1, xsfnt.SegmentOpLineTo: 2, xsfnt.SegmentOpQuadTo: 4, xsfnt.SegmentOpCubeTo: 3}[s.Op]
			op := []int{code}
			for k := 0; k < n; k++ {
				x, y := int(s.Args[k].X), -int(s.Args[k].Y)
				if x%64 != 0 || y%64 != 0 {
					return o, fmt.Errorf("glyph %d: coordinate not an integer number of units", i)
				}
				op = append(op, x/64, y/64)
			}
			ops = append(ops, op)
			continue
		}
		for k := 0; k < n; k++ {
			q := [2]int{int(s.Args[k].X), -int(s.Args[k].Y)}
			if s.Op == xsfnt.SegmentOpQuadTo && k == 0 {
				off = append(off, q)
			} else if s.Op == xsfnt.SegmentOpCubeTo {
				return o, fmt.Errorf("glyph %d: cubic segment in a TrueType glyph", i)
			} else {
				o.on = append(o.on, q)
			}
		}
	}
	if isCFF {
		o.seq = dropClosing(ops)
	} else {
		sortPoints(off)
		o.off = flatten(off)
	}
	return o, nil
}

// lookup is the character mapping a subtable value stands for.  Format4.Lookup truncates its
// argument to 16 bits (Lookup(0x10000) answers for U+0000; that is a matter of C09), so the
// map types are consulted directly.
func lookup(best cmap.Subtable, r rune) int {
	switch m := best.(type) {
	case nil:
		return 0
	case cmap.Format4:
		if r < 0 || r > 0xFFFF {
			return 0
		}
		return int(m[uint16(r)])
	case cmap.Format12:
		return int(m[uint32(r)])
	default:
		return int(best.Lookup(r))
	}
}

// libObs: what the font value that was written says (the abstract font).
func libObs(id int, f *sfnt.Font, runes []rune) ev {
	e := emptyObs(id, "lib")
	ng := f.NumGlyphs()
	e["ng"], e["upem"] = ng, int(f.UnitsPerEm)
	var rr, gids []int
	best, _ := f.CMapTable.GetBest()
	for _, r := range runes {
		rr = append(rr, int(r))
		gids = append(gids, lookup(best, r))
	}
	lo, hi, names := []int{}, []int{}, []string{}
	for i := 0; i < ng; i++ {
		w := f.GlyphWidth(glyph.ID(i))
		lo = append(lo, int(math.Floor(w)))
		hi = append(hi, int(math.Ceil(w)))
		names = append(names, f.GlyphName(glyph.ID(i)))
	}
	e["runes"], e["gids"], e["advlo"], e["advhi"], e["names"], e["ok"] = rr, gids, lo, hi, names, true
	putOutlines(e, libOutlines(f))
	return e
}

// xObs: what golang.org/x/image/font/sfnt reads from the file.
func xObs(id int, file []byte, runes []rune, isCFF bool, skip []bool) ev {
	e := emptyObs(id, "ximage")
	func() {
		defer func() {
			if x := recover(); x != nil {
				e["msg"] = "panic in x/image: " + fmt.Sprint(x)
			}
		}()
		xf, err := xsfnt.Parse(file)
		if err != nil {
			e["msg"] = err.Error()
			return
		}
		var b xsfnt.Buffer
		ng := xf.NumGlyphs()
		upem := int(xf.UnitsPerEm())
		e["ng"], e["upem"] = ng, upem
		var rr, gids []int
		for _, r := range runes {
			g, err := xf.GlyphIndex(&b, r)
			if err != nil {
				e["msg"] = "GlyphIndex: " + err.Error()
				return
			}
			rr = append(rr, int(r))
			gids = append(gids, int(g))
		}
		adv, names := []int{}, []string{}
		for i := 0; i < ng; i++ {
			a, err := xf.GlyphAdvance(&b, xsfnt.GlyphIndex(i), fixed.I(upem), font.HintingNone)
			if err != nil {
				e["msg"] = "GlyphAdvance: " + err.Error()
				return
			}
			if a%64 != 0 {
				e["msg"] = "GlyphAdvance: not an integer number of units"
				return
			}
			adv = append(adv, int(a)/64)
			nm, err := xf.GlyphName(&b, xsfnt.GlyphIndex(i))
			if err != nil {
				e["msg"] = "GlyphName: " + err.Error()
				return
			}
			names = append(names, nm)
		}
		ol := make([]outline, ng)
		for i := 0; i < ng; i++ {
			if i < len(skip) && skip[i] {
				ol[i].skip = true
				continue
			}
			ol[i], err = xOutline(xf, &b, i, upem, isCFF)
			if err != nil {
				e["msg"] = "LoadGlyph: " + err.Error()
				return
			}
		}
		putOutlines(e, ol)
		e["runes"], e["gids"], e["advlo"], e["advhi"], e["names"], e["ok"] = rr, gids, adv, adv, names, true
	}()
	return e
}

func runFont(c *Case, out *vio.Out) {
	if caseLog != nil {
		caseLog.Emit(c)
	}
	f, err := makeFont(c)
	if err != nil {
		vio.Fatal(fmt.Errorf("cannot build font %s: %v", c.Name, err))
	}
	out.Emit(ev{"ev": "case", "id": c.ID, "kind": "font", "scaler": [2]int{0, 0}, "tabs": []Tab{}, "name": c.Name})
	var buf bytes.Buffer
	var n int64
	pmsg := ""
	func() {
		defer func() {
			if x := recover(); x != nil {
				pmsg = "panic: " + fmt.Sprint(x)
			}
		}()
		n, err = f.Write(&buf)
	}()
	file := buf.Bytes()
	out.Emit(writtenEvent(c.ID, file, n, err, pmsg))
	out.Emit(readbackEvent(c.ID, file))
	// the font value is observed after writing (Write must not have changed what it says)
	runes := probeRunes(f.NumGlyphs())
	lo := libObs(c.ID, f, runes)
	out.Emit(lo)
	out.Emit(xObs(c.ID, file, runes, f.IsCFF(), lo["oskip"].([]bool)))
}

func fontCases() []*Case {
	var res []*Case
	id := 1
	res = append(res, &Case{ID: id, Kind: "font", Name: "goregular"})
	seeds := 1
	if vio.Thorough() {
		seeds = 3
	}
	for s := 0; s < seeds; s++ {
		for i, o := range fonts.Corpus(vio.Thorough()) {
			id++
			oo := o
			res = append(res, &Case{ID: id, Kind: "font", Name: o.String(), Opts: &oo, Stream: int64(1000*s + i)})
		}
	}
	return res
}

// ---- seeded random maps --------------------------------------------------------------------

var scalers = [][2]int{{1, 0}, {20308, 21583}, {29810, 30053}}
var knownTags = []string{"head", "hhea", "maxp", "OS/2", "hmtx", "cmap", "fpgm", "prep", "cvt ", "loca", "glyf", "kern", "name",
	"post", "gasp", "DSIG", "CFF ", "GSUB", "GPOS", "GDEF"}

func randomMap(rng *rand.Rand, id int) *Case {
	c := &Case{ID: id, Kind: "map", Scaler: scalers[rng.Intn(3)], Name: "random"}
	n := 1 + rng.Intn(6)
	switch rng.Intn(5) {
	case 0:
		n = 1 + rng.Intn(40)
	case 1:
		n = []int{1, 2, 3, 4, 7, 8, 9, 15, 16, 17, 31, 32, 33}[rng.Intn(13)]
	}
	seen := map[string]bool{}
	present := 0
	for len(c.Tabs) < n {
		var tag string
		if rng.Intn(3) == 0 {
			tag = knownTags[rng.Intn(len(knownTags))]
		} else {
			b := make([]byte, 4)
			for i := range b {
				b[i] = byte(0x20 + rng.Intn(0x7F-0x20))
			}
			tag = string(b)
		}
		if seen[tag] {
			continue
		}
		seen[tag] = true
		t := Tab{Tag: ints([]byte(tag)), Data: []int{}}
		if rng.Intn(7) == 0 && !(len(c.Tabs) == n-1 && present == 0) {
			t.Nil = true
		} else {
			present++
			l := rng.Intn(12)
			if rng.Intn(3) == 0 {
				l = rng.Intn(300)
			}
			if tag == "head" {
				l = 54
				if rng.Intn(3) == 0 {
					l = 12 + rng.Intn(70)
				}
			}
			style := rng.Intn(3)
			for i := 0; i < l; i++ {
				switch style {
				case 0:
					t.Data = append(t.Data, rng.Intn(256))
				case 1:
					t.Data = append(t.Data, 255-rng.Intn(3))
				default:
					t.Data = append(t.Data, []int{0, 0, 255, 128, 1}[rng.Intn(5)])
				}
			}
		}
		c.Tabs = append(c.Tabs, t)
	}
	return c
}

func main() {
	if len(os.Args) < 3 {
		vio.Fatal("usage: c03 maps|random|fonts|one ...")
	}
	mode := os.Args[1]
	outPath := os.Args[len(os.Args)-1]
	if mode != "one" {
		caseLog = vio.NewOut(outPath + ".cases")
		defer caseLog.Close()
	}
	out := vio.NewOut(outPath)
	defer out.Close()
	switch mode {
	case "maps":
		for i, c := range vio.ReadLines[Case](os.Args[2]) {
			c.ID, c.Kind, c.Name = i+1, "map", "tlc"
			runMap(&c, out)
		}
	case "random":
		n, _ := strconv.Atoi(os.Args[2])
		rng := vio.Rand(303)
		for i := 0; i < n; i++ {
			runMap(randomMap(rng, i+1), out)
		}
	case "fonts":
		for _, c := range fontCases() {
			runFont(c, out)
		}
	case "one":
		b, err := os.ReadFile(os.Args[2])
		if err != nil {
			vio.Fatal(err)
		}
		var c Case
		if err := json.Unmarshal(b, &c); err != nil {
			vio.Fatal(err)
		}
		if c.Kind == "font" {
			runFont(&c, out)
		} else {
			runMap(&c, out)
		}
	default:
		vio.Fatal("unknown mode " + mode)
	}
}
