// Command c19 drives builder.Parse / builder.ExplainGsub / builder.ExplainGpos of the real
// library (DESIGN.md, C19).  Everything it records is judged by TLC against spec/DslTrace.tla.
//
//	c19 rt     <shapes.ndjson> <out.ndjson>               (b) Explain -> Parse round trips of the lookup-list
//	                                                      shapes enumerated by TLC from spec/Dsl.tla
//	c19 mean   <cases.ndjson> <out.ndjson>                (b) hand-specified descriptions of spec/Dsl.tla: parse, log the
//	                                                      canonical lookup list (TLC compares with the meaning it computed)
//	c19 faults <cases.ndjson> <shapes.ndjson> <out.ndjson> (a) fault cases enumerated by TLC from spec/DslConc.tla, mapped
//	                                                      onto mutated valid descriptions
//	c19 sweep  <shapes.ndjson> <out.ndjson>               (a) every single-token mutation of valid descriptions, random texts
//	c19 one    <case.json> <out.ndjson>                   replay of one harness-level case
//
// Environment: VERIF_SEED, C19_PROCS (default 1,2,4,16), C19_REPS, C19_REAL (realisations per fault case),
// C19_SHARD=i/n (process only the cases with index = i mod n).
package main

import (
	"encoding/json"
	"fmt"
	"math/rand"
	"os"
	"runtime"
	"strconv"
	"strings"
	"time"

	"seehuhn.de/go/sfnt"
	"seehuhn.de/go/sfnt/glyf"
	"seehuhn.de/go/sfnt/opentype/gtab"
	"seehuhn.de/go/sfnt/opentype/gtab/builder"

	"verif.local/harness/internal/dsl"
	"verif.local/harness/internal/vio"
)

// Case is a harness-level case (written to <out>.cases; the unit of replay).
type Case struct {
	ID     int        `json:"id"`
	Kind   string     `json:"kind"` // parse | rt | mean
	Font   string     `json:"font"`
	Text   string     `json:"text"`
	Procs  []int      `json:"procs,omitempty"`
	Reps   int        `json:"reps,omitempty"`
	Origin string     `json:"origin,omitempty"` // where the text comes from (fault case, mutation)
	Shape  *dsl.Shape `json:"shape,omitempty"`
	Seed   int64      `json:"seed,omitempty"`
	Mid    int        `json:"mid,omitempty"` // index of the description in Dsl.tla (meaning cases)
	Idx    []int      `json:"idx,omitempty"` // num cases: kind, literal; errline cases: template, prefix, suffix
}

type ev map[string]any

var (
	fontCache = map[string]*dsl.Font{}
	// a Parse of these texts takes microseconds; a call that has not returned after the watchdog time is
	// recorded as not returned (the verdict "hang" needs two reproductions in isolation)
	watchdog = 5 * time.Second
	settle   = 3 * time.Second

	// Hang protocol.  A call that does not return keeps its goroutines -- possibly spinning -- for ever, so on
	// the first such call the process records the observation, flushes its output, prints a summary with
	// "hung": true and exits; the driver starts a fresh process for the remaining cases with
	//   C19_SKIP   = keys not to run again ("c<case id>", "d<index of a catalogue shape>"), comma separated
	//   C19_RESUME = "<gomaxprocs>:<case id>": everything up to there has been recorded already
	skipKeys         = map[string]bool{}
	resumeP, resumeC int
	openOuts         []*vio.Out
)

func newOut(path string) *vio.Out {
	o := vio.NewOut(path)
	openOuts = append(openOuts, o)
	return o
}

func readHangEnv() {
	for _, k := range strings.Split(os.Getenv("C19_SKIP"), ",") {
		if k != "" {
			skipKeys[k] = true
		}
	}
	if r := os.Getenv("C19_RESUME"); r != "" {
		if _, err := fmt.Sscanf(r, "%d:%d", &resumeP, &resumeC); err != nil {
			vio.Fatal("bad C19_RESUME")
		}
	}
}

// hangExit ends the process after a call that did not return.
func hangExit(key string, p, id int) {
	for _, o := range openOuts {
		o.Close()
	}
	fmt.Printf("{\"hung\":true,\"skip\":%q,\"resume\":\"%d:%d\",\"cases\":0}\n", key, p, id)
	os.Exit(0)
}

// done tells whether the pair (gomaxprocs, case) was recorded by an earlier process of this run.
func done(p, id int) bool {
	return p < resumeP || (p == resumeP && id <= resumeC)
}

func font(id string) *dsl.Font {
	if f, ok := fontCache[id]; ok {
		return f
	}
	f := dsl.MakeFont(id)
	fontCache[id] = f
	return f
}

func envInts(name string, def []int) []int {
	s := os.Getenv(name)
	if s == "" {
		return def
	}
	var res []int
	for _, p := range strings.Split(s, ",") {
		n, err := strconv.Atoi(strings.TrimSpace(p))
		if err != nil || n < 1 {
			vio.Fatal("bad " + name)
		}
		res = append(res, n)
	}
	return res
}

func envInt(name string, def int) int {
	s := os.Getenv(name)
	if s == "" {
		return def
	}
	n, err := strconv.Atoi(s)
	if err != nil {
		vio.Fatal("bad " + name)
	}
	return n
}

func shard() (int, int) {
	s := os.Getenv("C19_SHARD")
	if s == "" {
		return 0, 1
	}
	var i, n int
	if _, err := fmt.Sscanf(s, "%d/%d", &i, &n); err != nil || n < 1 || i < 0 || i >= n {
		vio.Fatal("bad C19_SHARD")
	}
	return i, n
}

func trim(s string, n int) string {
	if len(s) > n {
		return s[:n] + "..."
	}
	return s
}

// ---- (a) parse cases ---------------------------------------------------------------------

type agg struct {
	runs, returned, oks, errs, panics, leaks, noline int
	minline, maxline                                 int
	err, stack, pmsg                                 string
}

var noise *dsl.Noise

func runParseCases(all []*Case, out *vio.Out, caseLog *vio.Out) {
	var cases []*Case
	for _, c := range all {
		if !skipKeys[fmt.Sprint("c", c.ID)] {
			cases = append(cases, c)
		}
	}
	for _, c := range cases {
		if caseLog != nil {
			caseLog.Emit(c)
		}
	}
	procsSet := map[int]bool{}
	for _, c := range cases {
		for _, p := range c.Procs {
			procsSet[p] = true
		}
	}
	res := map[[2]int]*agg{}
	if noise == nil {
		noise = dsl.NewNoise(2)
	}
	old := runtime.GOMAXPROCS(0)
	hung := false
	hungP, hungC := 0, 0
	for _, p := range []int{1, 2, 3, 4, 8, 16, 32} {
		if !procsSet[p] || hung {
			continue
		}
		runtime.GOMAXPROCS(p)
		for _, c := range cases {
			if hung {
				// a call that does not return keeps its goroutines (possibly spinning) for ever: the
				// observation is recorded and this process runs no further case
				break
			}
			has := false
			for _, q := range c.Procs {
				has = has || q == p
			}
			if !has || done(p, c.ID) {
				continue
			}
			f := font(c.Font)
			a := &agg{}
			res[[2]int{c.ID, p}] = a
			markCurrent(p, c.ID)
			for r := 0; r < c.Reps; r++ {
				noise.Set(r%2 == 1) // every other repetition runs against two yielding goroutines
				o := dsl.RunParse(f.F, c.Text, watchdog, settle)
				a.runs++
				if o.Returned {
					a.returned++
				}
				a.leaks += o.Leaked
				if len(o.Stacks) > 0 && a.stack == "" {
					a.stack = trim(o.Stacks[0], 900)
				}
				switch {
				case !o.Returned:
				case o.Panicked:
					a.panics++
					if a.pmsg == "" {
						a.pmsg = trim(o.PanicMsg, 300)
					}
				case o.OK:
					a.oks++
				default:
					a.errs++
					if o.Line == 0 {
						a.noline++
					}
					if a.errs == 1 || o.Line < a.minline {
						a.minline = o.Line
					}
					if o.Line > a.maxline {
						a.maxline = o.Line
					}
					if a.err == "" || (o.Line == 0 && dsl.ErrLineOf(a.err) != 0) {
						a.err = trim(o.Err, 300)
					}
				}
				if !o.Returned {
					hung, hungP, hungC = true, p, c.ID
				}
				if !o.Returned || o.Leaked > 0 {
					// do not pile up stuck calls or leaked goroutines: one observation decides,
					// and every goroutine left behind makes the following stack dumps slower
					break
				}
			}
		}
	}
	noise.Set(false)
	runtime.GOMAXPROCS(old)
	for _, c := range cases {
		for _, p := range c.Procs {
			a := res[[2]int{c.ID, p}]
			if a == nil {
				continue
			}
			pre := "ok"
			if c.Font == "0" || c.Font == "00" {
				pre = "nocmap" // the font has no usable character map: Parse refuses before it looks at the text
			}
			out.Emit(ev{"ev": "parse", "case": c.ID, "procs": p, "pre": pre, "runs": a.runs, "returned": a.returned,
				"oks": a.oks, "errs": a.errs, "panics": a.panics, "leaks": a.leaks, "noline": a.noline,
				"minline": a.minline, "maxline": a.maxline, "nlines": 1 + strings.Count(c.Text, "\n"),
				"err": a.err, "pmsg": a.pmsg, "stack": a.stack})
		}
	}
	if hung {
		hangExit(fmt.Sprint("c", hungC), hungP, hungC)
	}
}

// ---- catalogue of valid descriptions -----------------------------------------------------

type desc struct {
	font string
	text string
	toks []dsl.Token
	strs []int // indices of string tokens
}

// explain calls ExplainGsub/ExplainGpos under the watchdog; hung = it did not return.
func explain(f *dsl.Font, tab string, ll gtab.LookupList) (text string, pmsg string, hung bool) {
	type res struct{ text, pmsg string }
	ch := make(chan res, 1)
	go func() {
		t, p := explainCall(f, tab, ll)
		ch <- res{t, p}
	}()
	timer := time.NewTimer(watchdog)
	defer timer.Stop()
	select {
	case r := <-ch:
		return r.text, r.pmsg, false
	case <-timer.C:
		return "", "", true
	}
}

func explainCall(f *dsl.Font, tab string, ll gtab.LookupList) (text string, pmsg string) {
	defer func() {
		if r := recover(); r != nil {
			pmsg = fmt.Sprint(r)
		}
	}()
	ff := *f.F
	if tab == "GSUB" {
		ff.Gsub = &gtab.Info{LookupList: ll}
		return builder.ExplainGsub(&ff), ""
	}
	ff.Gpos = &gtab.Info{LookupList: ll}
	return strings.Join(builder.ExplainGpos(&ff), "\n"), ""
}

// catalogue explains the shapes and keeps the descriptions the library itself parses back
// without error (valid descriptions).  skipped counts the others.
func catalogue(shapes []dsl.Shape) (res []*desc, skipped int) {
	seen := map[string]bool{}
	for i := range shapes {
		s := &shapes[i]
		key := fmt.Sprint("d", i)
		if skipKeys[key] {
			skipped++
			continue
		}
		f := font(s.Font)
		text, pmsg, hung := explain(f, s.Tab, dsl.Instantiate(s, vio.Seed()))
		if hung {
			hangExit(key, resumeP, resumeC) // the round-trip mode records this shape; here it is only left out
		}
		if pmsg != "" || seen[s.Font+text] {
			skipped++
			continue
		}
		seen[s.Font+text] = true
		o := dsl.RunParse(f.F, text, watchdog, settle)
		if !o.Returned {
			hangExit(key, resumeP, resumeC)
		}
		if !o.OK {
			skipped++
			continue
		}
		d := &desc{font: s.Font, text: text, toks: dsl.Tokenize(text)}
		for j, t := range d.toks {
			if t.Kind == "string" {
				d.strs = append(d.strs, j)
			}
		}
		res = append(res, d)
	}
	return res, skipped
}

// ---- (a) fault cases of DslConc.tla ------------------------------------------------------

type tlcTok struct {
	K string   `json:"k"`
	N int      `json:"n"`
	R []string `json:"r"` // how each rune of a string is written: p plain, e escape sequence, b escaped backslash
}

func (t tlcTok) escaped() bool {
	for _, k := range t.R {
		if k != "p" {
			return true
		}
	}
	return false
}

type faultCase struct {
	Toks   []tlcTok `json:"toks"`
	Pre    string   `json:"pre"` // "ok", or the precondition of Parse that fails
	Lexerr bool     `json:"lexerr"`
	Fat    struct {
		At   int `json:"at"`
		Str  int `json:"str"`
		Rune int `json:"rune"`
	} `json:"fat"`
	Result string `json:"result"`
}

// keep returns the text of d up to the end of token index last (clamped).
func (d *desc) upTo(last int) string {
	if last >= len(d.toks)-1 {
		return d.text
	}
	if last < 0 {
		return ""
	}
	return d.text[:d.toks[last].End]
}

// realise maps one TLC fault case onto mutated descriptions (see the C19 section of the report):
// the fault strikes when `at` items have been received, `after` items (including the final EOF
// or error item) are still to come; inside a string the rune index and the number of runes are kept.
func realise(fc *faultCase, cat []*desc, rng *rand.Rand, nreal int) (texts []string, fonts []string, origins []string) {
	n := len(fc.Toks)
	at := fc.Fat.At
	nl := 0
	for i, t := range fc.Toks {
		if t.K == "nl" && (at == 0 || i < at) {
			nl++
		}
	}
	pre := strings.Repeat("\n", nl)
	tail := ""
	if fc.Lexerr {
		tail = " " + dsl.Illegal
	}
	add := func(d *desc, text, how string) {
		texts = append(texts, pre+text+tail)
		fonts = append(fonts, d.font)
		origins = append(origins, how)
	}
	if fc.Pre == "nocmap" { // early return: any text, over the fonts without a usable character map
		for k, f := range []string{"0", "00"} {
			d := cat[rng.Intn(len(cat))]
			texts = append(texts, []string{d.text, d.upTo(len(fc.Toks))}[k]+tail)
			fonts = append(fonts, f)
			origins = append(origins, "precondition fails: no usable cmap")
		}
		return
	}
	for k := 0; k < nreal; k++ {
		d := cat[rng.Intn(len(cat))]
		m := len(d.toks)
		if m == 0 {
			continue
		}
		switch {
		case at == 0: // no parse error decided: the description as it is
			add(d, d.text, "unchanged")
		case fc.Fat.Str > 0 && fc.Toks[fc.Fat.Str-1].escaped():
			// a string with escape sequences: the token is written exactly as the model says (one rune per
			// element, escapes where the model has them) into a description over font "e", which maps the
			// backslash and the quote; rune j is replaced by a rune the font does not map
			tk, j := fc.Toks[fc.Fat.Str-1], fc.Fat.Rune
			after := n + 1 - at
			var hosts []*desc
			for _, x := range cat {
				if x.font == "e" && len(x.strs) > 0 {
					hosts = append(hosts, x)
				}
			}
			if len(hosts) == 0 {
				continue
			}
			d = hosts[rng.Intn(len(hosts))]
			si := d.strs[rng.Intn(len(d.strs))]
			lit := dsl.WriteString(tk.R, j-1, k)
			cut := d.upTo(si + after - 1)
			t := d.toks[si]
			add(d, cut[:t.Start]+lit+cut[t.End:], fmt.Sprintf("string %s with unmapped rune %d of %d, %d items after", lit, j, tk.N, after))
		case fc.Fat.Str > 0: // unmapped rune j of a string with nr runes
			nr, j := fc.Toks[fc.Fat.Str-1].N, fc.Fat.Rune
			after := n + 1 - at
			var cands []int
			for _, si := range d.strs {
				if len(dsl.StringRunes(d.text, d.toks[si])) == nr {
					cands = append(cands, si)
				}
			}
			if len(cands) == 0 {
				for tries := 0; tries < 50 && len(cands) == 0; tries++ {
					d = cat[rng.Intn(len(cat))]
					for _, si := range d.strs {
						if len(dsl.StringRunes(d.text, d.toks[si])) == nr {
							cands = append(cands, si)
						}
					}
				}
				if len(cands) == 0 {
					continue
				}
			}
			si := cands[rng.Intn(len(cands))]
			cut := d.upTo(si + after - 1)
			toks := dsl.Tokenize(cut)
			if t, ok := dsl.Mutate(cut, toks, "unmapped", si, j-1); ok {
				add(d, t, fmt.Sprintf("unmapped rune %d of %d, %d items after", j, nr, after))
			}
		default: // the parser gives up when `at` items have arrived
			after := n + 1 - at
			positions := []int{at - 1}
			if k > 0 {
				positions = []int{rng.Intn(m + 1)}
			}
			for _, f := range positions {
				if f >= m || at == n+1 {
					// the final item itself is the offending one: truncation (or the error item)
					cutAt := f
					if cutAt > m {
						cutAt = m
					}
					add(d, d.upTo(cutAt-1), fmt.Sprintf("truncated after %d tokens", cutAt))
					continue
				}
				cut := d.upTo(f + after - 1)
				toks := dsl.Tokenize(cut)
				kind := []string{"wrong", "delete", "dup"}[rng.Intn(3)]
				if t, ok := dsl.Mutate(cut, toks, kind, f, 0); ok {
					add(d, t, fmt.Sprintf("%s at token %d, %d items after", kind, f, after))
				}
			}
		}
	}
	return
}

func faults(casesPath, shapesPath, outPath string) {
	fcs := vio.ReadLines[faultCase](casesPath)
	cat, skipped := catalogue(vio.ReadLines[dsl.Shape](shapesPath))
	if len(cat) < 5 {
		vio.Fatal(fmt.Sprintf("catalogue too small: %d valid descriptions, %d skipped", len(cat), skipped))
	}
	procs := envInts("C19_PROCS", []int{1, 2, 4, 16})
	reps := envInt("C19_REPS", 3)
	nreal := envInt("C19_REAL", 2)
	si, sn := shard()
	rng := vio.Rand(191)
	var cases []*Case
	id := 0
	for i := range fcs {
		texts, fonts, origins := realise(&fcs[i], cat, rng, nreal)
		for k := range texts {
			id++
			if id%sn != si {
				continue
			}
			fcj, _ := json.Marshal(fcs[i])
			cases = append(cases, &Case{ID: id, Kind: "parse", Font: fonts[k], Text: texts[k], Procs: procs, Reps: reps,
				Origin: "fault case " + string(fcj) + ": " + origins[k]})
		}
	}
	out := newOut(outPath)
	caseLog := newOut(outPath + ".cases")
	runParseCases(cases, out, caseLog)
	out.Close()
	caseLog.Close()
	fmt.Printf("{\"catalogue\":%d,\"skipped\":%d,\"cases\":%d}\n", len(cat), skipped, len(cases))
}

// ---- (a) sweep: all single-token mutations, random texts ---------------------------------

func sweep(shapesPath, outPath string) {
	cat, skipped := catalogue(vio.ReadLines[dsl.Shape](shapesPath))
	procs := envInts("C19_PROCS", []int{1, 2, 4, 16})
	reps := envInt("C19_REPS", 3)
	nrand := envInt("C19_RANDOM", 500)
	nesc := envInt("C19_ESCSTR", 1) // string tokens per description that are replaced by escape-dense strings
	si, sn := shard()
	var cases []*Case
	id := 0
	add := func(fontID, text, origin string) {
		id++
		if id%sn != si {
			return
		}
		cases = append(cases, &Case{ID: id, Kind: "parse", Font: fontID, Text: text, Procs: procs, Reps: reps, Origin: origin})
	}
	seen := map[string]bool{}
	for di, d := range cat {
		for i := range d.toks {
			for _, kind := range dsl.MutationKinds {
				if kind == "unmapped" {
					if d.toks[i].Kind != "string" {
						continue
					}
					for j := range dsl.StringRunes(d.text, d.toks[i]) {
						if t, ok := dsl.Mutate(d.text, d.toks, kind, i, j); ok && !seen[d.font+t] {
							seen[d.font+t] = true
							add(d.font, t, fmt.Sprintf("description %d: unmapped rune %d of token %d", di, j, i))
						}
					}
					continue
				}
				if t, ok := dsl.Mutate(d.text, d.toks, kind, i, 0); ok && !seen[d.font+t] {
					seen[d.font+t] = true
					add(d.font, t, fmt.Sprintf("description %d: %s at token %d", di, kind, i))
				}
			}
		}
		// boundary numbers in place of every number
		for i, t := range d.toks {
			if t.Kind != "int" || di%2 != 0 {
				continue
			}
			for _, lit := range dsl.Numbers {
				x := d.text[:t.Start] + lit + d.text[t.End:]
				if !seen[d.font+x] {
					seen[d.font+x] = true
					add(d.font, x, fmt.Sprintf("description %d: number token %d replaced by %s", di, i, lit))
				}
			}
		}
		// escape-dense strings: 0..3 escape sequences before and after a rune that is not mapped, for every
		// escape the lexer accepts, in place of the first two strings of the description
		for k, si := range d.strs {
			if k >= nesc {
				break
			}
			t := d.toks[si]
			for _, lit := range dsl.EscapeStrings() {
				x := d.text[:t.Start] + lit + d.text[t.End:]
				if !seen[d.font+x] {
					seen[d.font+x] = true
					add(d.font, x, fmt.Sprintf("description %d: string token %d replaced by %s", di, si, lit))
				}
			}
		}
	}
	// every lexical construct at the END OF THE INPUT without a line break, cut at every character, alone
	// and after a valid lookup; line-break variants; inputs that are only comments or white space
	for _, t := range dsl.EOFTexts() {
		if !seen["nc"+t] {
			seen["nc"+t] = true
			add("nc", t, "lexical construct at the end of the input")
		}
	}
	// quoted strings with every kind of backslash sequence, complete and cut short, at the start, in the middle
	// and at the end of the string (the lexer accepts a backslash followed by any character)
	for _, esc := range []string{`\\`, `\"`, `\n`, `\t`, `\x`, `\x4`, `\x41`, `\u`, `\u1`, `\u12`, `\u123`, `\u0041`, `\U`, `\U0001`,
		`\U00000041`, `\0`, `\101`, `\q`, `\ `, `\{`} {
		for _, str := range []string{esc, "A" + esc, esc + "B", "A" + esc + "B", esc + esc} {
			for _, f := range []string{"nc", "c"} {
				for _, tmpl := range []string{"GSUB4: \"%s\" -> A", "GSUB1: \"%s\" -> B\nGSUB1: A -> B", "GSUB6: \"%s\" | A | B -> 1@0\nGSUB1: A -> B"} {
					t := fmt.Sprintf(tmpl, str)
					if !seen[f+t] {
						seen[f+t] = true
						add(f, t, "backslash sequence "+esc+" in a quoted string")
					}
				}
			}
		}
	}
	// fonts without a usable character map (Parse returns early): valid descriptions, end-of-input texts
	for _, f := range []string{"0", "00"} {
		for di, d := range cat {
			if di%4 == 0 {
				add(f, d.text, fmt.Sprintf("description %d over a font without usable cmap", di))
			}
		}
		for i, t := range dsl.EOFTexts() {
			if i%7 == 0 {
				add(f, t, "end-of-input text over a font without usable cmap")
			}
		}
		add(f, "", "empty input over a font without usable cmap")
	}
	nmut := id
	rng := vio.Rand(192)
	fontsAll := []string{"nc", "c", "n", "x", "0", "00"}
	for i := 0; i < nrand; i++ {
		f := fontsAll[rng.Intn(len(fontsAll))]
		switch rng.Intn(3) {
		case 0:
			add(f, dsl.RandomBytes(rng), "random bytes")
		default:
			add(f, dsl.Soup(rng), "random words of the language")
		}
	}
	out := newOut(outPath)
	caseLog := newOut(outPath + ".cases")
	runParseCases(cases, out, caseLog)
	nre := 0
	for _, c := range cases {
		if !skipKeys[fmt.Sprint("c", c.ID)] && reparse(c, out) {
			nre++
		}
	}
	out.Close()
	caseLog.Close()
	fmt.Printf("{\"catalogue\":%d,\"skipped\":%d,\"mutations\":%d,\"random\":%d,\"cases\":%d,\"reparsed\":%d}\n", len(cat), skipped, nmut, nrand, len(cases), nre)
}

// reparse: a text the parser accepts denotes a lookup list the language can express, so describing that list
// and parsing the description must give it back.  Mutated descriptions supply the redundant spellings
// (repeated glyphs, overlapping and reversed ranges) that Explain itself never writes.
func reparse(c *Case, out *vio.Out) bool {
	if c.Font == "0" || c.Font == "00" {
		return false
	}
	gsub, gpos := strings.Contains(c.Text, "GSUB"), strings.Contains(c.Text, "GPOS")
	if gsub == gpos {
		return false
	}
	tab := "GSUB"
	if gpos {
		tab = "GPOS"
	}
	f := font(c.Font)
	o := parseOnce(f.F, c.Text)
	if !o.Returned {
		hangExit(fmt.Sprint("c", c.ID), resumeP, resumeC)
	}
	if !o.OK || len(o.Lookups) == 0 {
		return false
	}
	l1, _ := dsl.Canon(o.Lookups)
	e := ev{"ev": "reparse", "case": c.ID, "font": c.Font, "text": c.Text, "l1": l1, "f1": dsl.Formats(o.Lookups),
		"ci1": dsl.CovIndices(o.Lookups), "text2": "", "xpanic": "", "ppanic": "", "perr2": "", "returned": true, "leaks": 0,
		"l2": []any{}, "f2": [][]int{}, "ci2": [][][][]int{}}
	text2, xpanic, xhung := explain(f, tab, o.Lookups)
	e["text2"], e["xpanic"] = text2, trim(xpanic, 300)
	if xhung {
		e["returned"] = false
		out.Emit(e)
		hangExit(fmt.Sprint("c", c.ID), resumeP, resumeC)
	}
	if xpanic == "" {
		o2 := parseOnce(f.F, text2)
		e["returned"], e["leaks"], e["perr2"], e["ppanic"] = o2.Returned, o2.Leaked, trim(o2.Err, 300), trim(o2.PanicMsg, 300)
		if o2.Panicked && o2.PanicMsg == "" {
			e["ppanic"] = "panic"
		}
		if o2.OK {
			l2, _ := dsl.Canon(o2.Lookups)
			e["l2"], e["f2"], e["ci2"] = l2, dsl.Formats(o2.Lookups), dsl.CovIndices(o2.Lookups)
		}
		if !o2.Returned {
			out.Emit(e)
			hangExit(fmt.Sprint("c", c.ID), resumeP, resumeC)
		}
	}
	out.Emit(e)
	return true
}

// ---- (b) round trips ---------------------------------------------------------------------

func parseOnce(f *sfnt.Font, text string) dsl.Outcome {
	return dsl.RunParse(f, text, watchdog, settle)
}

// Explain iterates over Go maps, so one shape is explained and parsed back several times (more often
// for the large shapes); the first repetition that is not a faithful round trip is the one recorded.
func runRT(c *Case, out *vio.Out) (hung bool) {
	s := c.Shape
	f := font(s.Font)
	ll := dsl.Instantiate(s, c.Seed)
	before, note := dsl.Canon(ll)
	bfmt := dsl.Formats(ll)
	bj, _ := json.Marshal(before)
	reps := 3
	if s.A >= 13 || s.B >= 13 || len(s.Forms) >= 13 {
		reps = 25
	}
	var e ev
	// the same font OBJECT with other glyph names in the second and later repetitions (a font may be edited between
	// two calls; Explain and Parse are handed the font as it is at the time of the call)
	restore := renameGlyphs(f.F, 0)
	defer restore()
	for r := 0; r < reps; r++ {
		renameGlyphs(f.F, r)
		text, xpanic, xhung := explain(f, s.Tab, ll)
		e = ev{"ev": "rt", "case": c.ID, "shape": s, "text": text, "xpanic": trim(xpanic, 300), "note": note,
			"before": before, "after": []any{}, "perr": "", "ppanic": "", "returned": !xhung, "leaks": 0, "rep": r,
			"bfmt": bfmt, "afmt": [][]int{}, "bci": dsl.CovIndices(ll), "aci": [][][][]int{}}
		if xhung {
			hung = true
			break
		}
		if xpanic != "" {
			break
		}
		o := parseOnce(f.F, text)
		hung = !o.Returned
		e["returned"] = o.Returned
		e["leaks"] = o.Leaked
		e["ppanic"] = trim(o.PanicMsg, 300)
		if o.Panicked && o.PanicMsg == "" {
			e["ppanic"] = "panic"
		}
		e["perr"] = trim(o.Err, 300)
		good := o.OK && o.Returned && o.Leaked == 0
		if o.OK {
			after, note2 := dsl.Canon(o.Lookups)
			e["after"] = after
			afmt := dsl.Formats(o.Lookups)
			e["afmt"] = afmt
			e["aci"] = dsl.CovIndices(o.Lookups)
			if note2 != "" {
				e["note"] = note2
			}
			aj, _ := json.Marshal(after)
			fj, _ := json.Marshal(afmt)
			gj, _ := json.Marshal(bfmt)
			// (a Gsub1_2 with a constant delta comes back as Gsub1_1: such a repetition is recorded early,
			// which is harmless -- the verdict is TLC's)
			good = good && string(aj) == string(bj) && string(fj) == string(gj)
		}
		if !good {
			break
		}
	}
	out.Emit(e)
	return hung
}

func rt(shapesPath, outPath string) {
	shapes := vio.ReadLines[dsl.Shape](shapesPath)
	out := newOut(outPath)
	caseLog := newOut(outPath + ".cases")
	si, sn := shard()
	n := 0
	for i := range shapes {
		if (i+1)%sn != si {
			continue
		}
		if done(0, i+1) {
			continue
		}
		c := &Case{ID: i + 1, Kind: "rt", Font: shapes[i].Font, Shape: &shapes[i], Seed: vio.Seed()}
		caseLog.Emit(c)
		if runRT(c, out) {
			hangExit("", 0, c.ID)
		}
		n++
	}
	out.Close()
	caseLog.Close()
	fmt.Printf("{\"cases\":%d}\n", n)
}

// ---- (b) meaning of hand-specified descriptions ------------------------------------------

type meanCase struct {
	Mid  int    `json:"mid"`
	Font string `json:"font"`
	Text string `json:"text"`
	Nk   int    `json:"nk"` // number cases of DslLang.tla: place of the number, literal
	Nl   int    `json:"nl"`
	Et   int    `json:"et"` // error-line cases: erroneous lookup, what stands before, what stands after
	Ep   int    `json:"ep"`
	Ex   int    `json:"ex"`
}

// runNum parses a text with a boundary number at some place of the grammar and records the canonical result.
func runNum(c *Case, out *vio.Out) (hung bool) {
	f := font(c.Font)
	o := parseOnce(f.F, c.Text)
	got := []any{}
	if o.OK {
		got, _ = dsl.Canon(o.Lookups)
	}
	pp := trim(o.PanicMsg, 300)
	if o.Panicked && pp == "" {
		pp = "panic"
	}
	out.Emit(ev{"ev": "num", "case": c.ID, "nk": c.Idx[0], "nl": c.Idx[1], "font": c.Font, "text": c.Text,
		"returned": o.Returned, "leaks": o.Leaked, "perr": trim(o.Err, 300), "ppanic": pp, "got": got,
		"gci": dsl.CovIndices(o.Lookups)})
	return !o.Returned
}

// runErrLine parses an erroneous text and records the line and the token the error names.
func runErrLine(c *Case, out *vio.Out) (hung bool) {
	f := font(c.Font)
	o := parseOnce(f.F, c.Text)
	pp := trim(o.PanicMsg, 300)
	if o.Panicked && pp == "" {
		pp = "panic"
	}
	line, item := dsl.ErrLineItem(o.Err)
	out.Emit(ev{"ev": "errline", "case": c.ID, "et": c.Idx[0], "ep": c.Idx[1], "ex": c.Idx[2], "font": c.Font,
		"text": c.Text, "returned": o.Returned, "leaks": o.Leaked, "perr": trim(o.Err, 300), "ppanic": pp,
		"line": line, "item": item})
	return !o.Returned
}

func runMean(c *Case, out *vio.Out) (hung bool) {
	f := font(c.Font)
	o := parseOnce(f.F, c.Text)
	got := []any{}
	note := ""
	if o.OK {
		got, note = dsl.Canon(o.Lookups)
	}
	pp := trim(o.PanicMsg, 300)
	if o.Panicked && pp == "" {
		pp = "panic"
	}
	out.Emit(ev{"ev": "mean", "case": c.ID, "mid": c.Mid, "font": c.Font, "text": c.Text, "returned": o.Returned,
		"leaks": o.Leaked, "perr": trim(o.Err, 300), "ppanic": pp, "got": got, "note": note,
		"gci": dsl.CovIndices(o.Lookups)})
	return !o.Returned
}

func runText(c *Case, out *vio.Out) bool {
	switch c.Kind {
	case "num":
		return runNum(c, out)
	case "errline":
		return runErrLine(c, out)
	default:
		return runMean(c, out)
	}
}

func mean(casesPath, outPath string) {
	mcs := vio.ReadLines[meanCase](casesPath)
	out := newOut(outPath)
	caseLog := newOut(outPath + ".cases")
	for i, m := range mcs {
		c := &Case{ID: i + 1, Kind: "mean", Font: m.Font, Text: m.Text, Mid: m.Mid}
		switch {
		case m.Nk > 0:
			c.Kind, c.Idx = "num", []int{m.Nk, m.Nl}
		case m.Et > 0:
			c.Kind, c.Idx = "errline", []int{m.Et, m.Ep, m.Ex}
		}
		if done(0, c.ID) {
			continue
		}
		caseLog.Emit(c)
		if runText(c, out) {
			hangExit("", 0, c.ID)
		}
	}
	out.Close()
	caseLog.Close()
	fmt.Printf("{\"cases\":%d}\n", len(mcs))
}

// failedPast gives a process that records ONE case the past every case has in a sweep: calls of Parse that
// failed (at an end of line, in the middle of a line with tokens left unread, inside a string, at a number).
// Parse has no memory, so this changes nothing about the case that follows -- unless a failed call leaves
// something behind inside the package (a pooled parser that is not empty), which a rejection observed in a
// sweep may depend on; the isolated re-recording then reproduces it.
func failedPast() {
	f := font("c")
	for r := 0; r < 3; r++ {
		for _, text := range []string{
			"GSUB1: A B, M -> N\n", "GSUB2: A -> \n", "GSUB7: A -> B\n", "GSUB1: \"AB -> C\n", "GSUB4: A B -> \n",
			"GPOS1: A -> x+99999999999\n", "GSUB5: A B -> 1@9 9@", "GSUB1: -flag A -> B\n", "GPOS2: A B -> , ,\n",
			"GSUB6: A | B | -> 1@0 ||\n", "nonsense here\n", "GSUB3: A -> [B C\n",
		} {
			func() {
				defer func() { recover() }()
				dsl.RunParse(f.F, text, watchdog, settle)
			}()
		}
	}
}

func one(casePath, outPath string) {
	b, err := os.ReadFile(casePath)
	if err != nil {
		vio.Fatal(err)
	}
	var c Case
	if err := json.Unmarshal(b, &c); err != nil {
		vio.Fatal(err)
	}
	out := newOut(outPath)
	failedPast()
	switch c.Kind {
	case "parse":
		runParseCases([]*Case{&c}, out, nil)
		reparse(&c, out)
	case "rt":
		runRT(&c, out)
	case "mean", "num", "errline":
		runText(&c, out)
	default:
		vio.Fatal("unknown case kind " + c.Kind)
	}
	out.Close()
}

func main() {
	if len(os.Args) < 4 {
		vio.Fatal("usage: c19 rt|mean|faults|sweep|one ...")
	}
	readHangEnv()
	if ms := envInt("C19_WATCHDOG_MS", 0); ms > 0 {
		watchdog = time.Duration(ms) * time.Millisecond
	}
	switch os.Args[1] {
	case "rt":
		rt(os.Args[2], os.Args[3])
	case "mean":
		mean(os.Args[2], os.Args[3])
	case "faults":
		if len(os.Args) < 5 {
			vio.Fatal("usage: c19 faults <cases> <shapes> <out>")
		}
		faults(os.Args[2], os.Args[3], os.Args[4])
	case "sweep":
		sweep(os.Args[2], os.Args[3])
	case "one":
		one(os.Args[2], os.Args[3])
	default:
		vio.Fatal("unknown mode " + os.Args[1])
	}
}

// renameGlyphs gives the named glyphs of a TrueType font the names of their r-th neighbours (r = 0: the names
// the font was built with, remembered at the first call); it returns a function that restores those.
var builtNames = map[*sfnt.Font][]string{}

func renameGlyphs(f *sfnt.Font, r int) func() {
	o, ok := f.Outlines.(*glyf.Outlines)
	if !ok || len(o.Names) < 3 {
		return func() {}
	}
	orig, seen := builtNames[f]
	if !seen {
		orig = append([]string(nil), o.Names...)
		builtNames[f] = orig
	}
	n := len(orig) - 1
	for i := 1; i <= n; i++ {
		o.Names[i] = orig[1+(i-1+7*r)%n]
	}
	return func() { copy(o.Names, orig) }
}

// markCurrent notes which case is about to run (file $C19_CUR): a panic in a goroutine the library started cannot
// be recovered and ends the process; the orchestrator then knows the case, reproduces it and goes on behind it.
func markCurrent(p, id int) {
	if path := os.Getenv("C19_CUR"); path != "" {
		os.WriteFile(path, []byte(fmt.Sprintf("%d:%d", p, id)), 0o644)
	}
}
