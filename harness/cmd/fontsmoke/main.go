// Command fontsmoke writes and re-reads every corpus font once (harness self-test).
package main

import (
	"bytes"
	"fmt"
	"os"

	"seehuhn.de/go/sfnt"
	"verif.local/harness/internal/fonts"
	"verif.local/harness/internal/vio"
)

func main() {
	bad := 0
	for _, o := range fonts.Corpus(true) {
		f := fonts.Make(vio.Rand(1), o)
		var buf bytes.Buffer
		n, err := f.Write(&buf)
		if err != nil {
			fmt.Println(o, "write:", err)
			bad++
			continue
		}
		g, err := sfnt.Read(bytes.NewReader(buf.Bytes()))
		if err != nil {
			fmt.Println(o, "read:", err)
			bad++
			continue
		}
		fmt.Println(o, "ok", n, g.NumGlyphs())
	}
	if bad > 0 {
		os.Exit(1)
	}
}
