package main

// Construction of real go-sfnt subtables: "realisers" build a subtable of an exact encoded
// size (computed here from the OpenType formats, independently of the library's encodeLen),
// "shapes" build a subtable from the small parameter vector enumerated by TLC
// (spec/LookupLayoutShapes.tla).

import (
	"fmt"
	"math/rand"
	"strings"

	"seehuhn.de/go/postscript/funit"
	"seehuhn.de/go/sfnt/glyph"
	"seehuhn.de/go/sfnt/opentype/anchor"
	"seehuhn.de/go/sfnt/opentype/classdef"
	"seehuhn.de/go/sfnt/opentype/coverage"
	"seehuhn.de/go/sfnt/opentype/gtab"
	"seehuhn.de/go/sfnt/opentype/markarray"
)

// spread returns n glyphs 0, 2, 4, ... : as a coverage table this is format 1, 4+2n bytes.
func spread(n int) []glyph.ID {
	g := make([]glyph.ID, n)
	for i := range g {
		g[i] = glyph.ID(2 * i)
	}
	return g
}

func covTable(g []glyph.ID) coverage.Table {
	t := make(coverage.Table, len(g))
	for i, x := range g {
		t[x] = i
	}
	return t
}

func covSet(g []glyph.ID) coverage.Set {
	t := make(coverage.Set, len(g))
	for _, x := range g {
		t[x] = true
	}
	return t
}

func gids(n int, base int) []glyph.ID {
	g := make([]glyph.ID, n)
	for i := range g {
		g[i] = glyph.ID((base + 7*i) % 65521)
	}
	return g
}

// realiser builds a subtable whose encoding has exactly s bytes, or returns nil.
type realiser struct {
	name  string
	gpos  bool
	ltype int
	make  func(s int) gtab.Subtable
}

var realisers = []realiser{
	{"gsub1_1", false, 1, func(s int) gtab.Subtable { // 6 + (4+2n)
		n := (s - 10) / 2
		if s%2 != 0 || n < 0 || n > 32768 {
			return nil
		}
		return &gtab.Gsub1_1{Cov: covSet(spread(n)), Delta: 1}
	}},
	{"gsub1_2", false, 1, func(s int) gtab.Subtable { // 6 + 2n + (4+2n)
		n := (s - 10) / 4
		if (s-10)%4 != 0 || n < 0 || n > 32000 {
			return nil
		}
		return &gtab.Gsub1_2{Cov: covTable(spread(n)), SubstituteGlyphIDs: gids(n, 3)}
	}},
	{"gsub2_1", false, 2, func(s int) gtab.Subtable {
		g, k := seqSplit(s)
		if g == 0 {
			return nil
		}
		return &gtab.Gsub2_1{Cov: covTable(spread(g)), Repl: seqs(g, k)}
	}},
	{"gsub3_1", false, 3, func(s int) gtab.Subtable {
		g, k := seqSplit(s)
		if g == 0 {
			return nil
		}
		return &gtab.Gsub3_1{Cov: covTable(spread(g)), Alternates: seqs(g, k)}
	}},
	{"gsub4_1", false, 4, func(s int) gtab.Subtable { // 6+2 + (2+2 + 4+2m) + (4+2)
		m := (s - 22) / 2
		if s%2 != 0 || m < 0 || 16+2*m > 65535 {
			return nil
		}
		return &gtab.Gsub4_1{Cov: covTable(spread(1)),
			Repl: [][]gtab.Ligature{{{In: gids(m, 5), Out: 9}}}}
	}},
	{"gsub5_1", false, 5, func(s int) gtab.Subtable { return ctx1(s) }},
	{"gsub6_3", false, 6, func(s int) gtab.Subtable { return chain3(s) }},
	{"gsub8_1", false, 8, func(s int) gtab.Subtable { // 10 + 2n + (4+2n)
		n := (s - 14) / 4
		if (s-14)%4 != 0 || n < 0 || n > 32000 {
			return nil
		}
		return &gtab.Gsub8_1{Input: covTable(spread(n)), SubstituteGlyphIDs: gids(n, 11)}
	}},
	{"gpos1_1", true, 1, func(s int) gtab.Subtable { // 6 + 0 + (4+2n), valueFormat 0
		n := (s - 10) / 2
		if s%2 != 0 || n < 0 || n > 32768 {
			return nil
		}
		return &gtab.Gpos1_1{Cov: covTable(spread(n))}
	}},
	{"gpos1_1v", true, 1, func(s int) gtab.Subtable { // 6 + 2 + (4+2n)
		n := (s - 12) / 2
		if s%2 != 0 || n < 0 || n > 32768 {
			return nil
		}
		return &gtab.Gpos1_1{Cov: covTable(spread(n)), Adjust: &gtab.GposValueRecord{XAdvance: -7}}
	}},
	{"gpos1_2", true, 1, func(s int) gtab.Subtable { // 8 + 2n + (4+2n)
		n := (s - 12) / 4
		if (s-12)%4 != 0 || n < 1 || n > 32000 {
			return nil
		}
		adj := make([]*gtab.GposValueRecord, n)
		for i := range adj {
			adj[i] = &gtab.GposValueRecord{XAdvance: funit.Int16(i%200 + 1)}
		}
		return &gtab.Gpos1_2{Cov: covTable(spread(n)), Adjust: adj}
	}},
	{"gpos2_2", true, 2, func(s int) gtab.Subtable { // 16 + 2*c1*10 + (4+2n) + 4 + 4
		// the second class definition is the last 4 bytes: its offset s-4 must fit 16 bits
		if s%2 != 0 || s < 28 || s-4 > 65535 {
			return nil
		}
		c1 := (s - 28) / 20
		if c1 > 1000 {
			c1 = 1000
		}
		n := (s - 28 - 20*c1) / 2
		if n > 32768 {
			return nil
		}
		var rows [][]*gtab.PairAdjust
		for i := 0; i < c1; i++ {
			row := make([]*gtab.PairAdjust, 10)
			for j := range row {
				row[j] = &gtab.PairAdjust{First: &gtab.GposValueRecord{XAdvance: funit.Int16(i + j + 1)}}
			}
			rows = append(rows, row)
		}
		return &gtab.Gpos2_2{Cov: covSet(spread(n)), Class1: classdef.Table{}, Class2: classdef.Table{}, Adjust: rows}
	}},
	{"gpos3_1", true, 3, func(s int) gtab.Subtable { // 6 + 4n + 6*2n + (4+2n) = 10 + 18n
		n := (s - 10) / 18
		if (s-10)%18 != 0 || n < 1 || 6+16*n > 65535 {
			return nil
		}
		rec := make([]gtab.EntryExitRecord, n)
		for i := range rec {
			rec[i] = gtab.EntryExitRecord{Entry: anch(true, i%50), Exit: anch(true, i%70)}
		}
		return &gtab.Gpos3_1{Cov: covTable(spread(n)), Records: rec}
	}},
	{"gpos4_1", true, 4, func(s int) gtab.Subtable { return markBase(s, false) }},
	{"gpos6_1", true, 6, func(s int) gtab.Subtable { return markBase(s, true) }},
	{"gpos7_1", true, 7, func(s int) gtab.Subtable { return ctx1(s) }},
	{"gpos8_3", true, 8, func(s int) gtab.Subtable { return chain3(s) }},
}

// seqSplit: 6 + 2g + sum(2+2k_i) + (4+2g) = 10 + 6g + 2K with the coverage offset
// 6 + 4g + 2K <= 65534.
func seqSplit(s int) (g, k int) {
	if s%2 != 0 || s < 18 {
		return 0, 0
	}
	g = 1
	if s > 65540 {
		g = (s-65538)/2 + 1
	}
	k = (s - 10 - 6*g) / 2
	if k < g || 6+4*g+2*k > 65534 || k-(g-1) > 65535 {
		return 0, 0
	}
	return g, k
}

func seqs(g, k int) [][]glyph.ID {
	r := make([][]glyph.ID, g)
	r[0] = gids(k-(g-1), 1)
	for i := 1; i < g; i++ {
		r[i] = []glyph.ID{glyph.ID(i)}
	}
	return r
}

// ctx1: 6+2 + (2+2 + 4+2m+4) + (4+2) = 26 + 2m, coverage offset 20+2m
func ctx1(s int) gtab.Subtable {
	m := (s - 26) / 2
	if s%2 != 0 || m < 0 || 20+2*m > 65535 {
		return nil
	}
	return &gtab.SeqContext1{Cov: covTable(spread(1)),
		Rules: [][]*gtab.SeqRule{{{Input: gids(m, 2), Actions: []gtab.SeqLookup{{SequenceIndex: 0, LookupListIndex: 0}}}}}}
}

// chain3: 10 + 2 + 4 + (4+2n) = 20 + 2n
func chain3(s int) gtab.Subtable {
	n := (s - 20) / 2
	if s%2 != 0 || n < 0 || n > 32768 {
		return nil
	}
	return &gtab.ChainedSeqContext3{Input: []coverage.Set{covSet(spread(n))},
		Actions: []gtab.SeqLookup{{SequenceIndex: 0, LookupListIndex: 0}}}
}

func realiserByName(name string) *realiser {
	for i := range realisers {
		if realisers[i].name == name {
			return &realisers[i]
		}
	}
	return nil
}

// chooseKinds picks, for a lookup with the given subtable sizes, a lookup type and one
// realiser per subtable.  pref: "any" or "ctx" (contextual lookup types only).
func chooseKinds(rng *rand.Rand, gpos bool, sizes []int, pref string) (int, []string, error) {
	var types []int
	if gpos {
		types = []int{1, 2, 7, 8}
		if pref == "ctx" {
			types = []int{7, 8}
		}
	} else {
		types = []int{1, 2, 3, 4, 5, 6, 8}
		if pref == "ctx" {
			types = []int{5, 6}
		}
	}
	rng.Shuffle(len(types), func(i, j int) { types[i], types[j] = types[j], types[i] })
	for _, t := range types {
		var cand []int
		for i, r := range realisers {
			if r.gpos == gpos && r.ltype == t {
				cand = append(cand, i)
			}
		}
		names := make([]string, len(sizes))
		ok := true
		for j, s := range sizes {
			rng.Shuffle(len(cand), func(a, b int) { cand[a], cand[b] = cand[b], cand[a] })
			names[j] = ""
			for _, c := range cand {
				if realisers[c].make(s) != nil {
					names[j] = realisers[c].name
					break
				}
			}
			if names[j] == "" {
				ok = false
				break
			}
		}
		if ok {
			return t, names, nil
		}
	}
	return 0, nil, fmt.Errorf("no lookup type realises the sizes %v (gpos=%v, pref=%s)", sizes, gpos, pref)
}

// ---- shapes -------------------------------------------------------------------------------

// shapeGlyphs returns n glyphs laid out as: 0 spread (format 1 is smaller), 1 one run
// (format 2 is smaller from 3 glyphs on), 2 pairs (tie / format 1), 3 edges of the range.
func shapeGlyphs(n, c, salt int) []glyph.ID {
	g := make([]glyph.ID, 0, n)
	switch c {
	case 0:
		for i := 0; i < n; i++ {
			g = append(g, glyph.ID(10+salt+3*i))
		}
	case 1:
		for i := 0; i < n; i++ {
			g = append(g, glyph.ID(200+10*salt+i))
		}
	case 2:
		for i := 0; i < n; i++ {
			g = append(g, glyph.ID(1000+100*salt+10*(i/2)+i%2))
		}
	default:
		lo := (n + 1) / 2
		if n == 1 {
			lo = 0
		}
		for i := 0; i < lo; i++ {
			g = append(g, glyph.ID(i))
		}
		for i := n - lo; i > 0; i-- {
			g = append(g, glyph.ID(0x10000-i))
		}
	}
	return g
}

func vr(v, i int) *gtab.GposValueRecord {
	switch v {
	case 0:
		return nil
	case 1:
		return &gtab.GposValueRecord{}
	case 2:
		return &gtab.GposValueRecord{XAdvance: funit.Int16(-5 - i)}
	default:
		return &gtab.GposValueRecord{XPlacement: funit.Int16(1 + i), YPlacement: -2, XAdvance: 3, YAdvance: -32768,
			XPlacementDevOffs: 5, YPlacementDevOffs: 6, XAdvanceDevOffs: 7, YAdvanceDevOffs: 0xFFFF}
	}
}

func anch(present bool, i int) anchor.Table {
	if !present {
		return anchor.Table{}
	}
	return anchor.Table{X: funit.Int16(10 + i), Y: funit.Int16(-20 - i)}
}

func actions(k int) []gtab.SeqLookup {
	a := make([]gtab.SeqLookup, k)
	for i := range a {
		a[i] = gtab.SeqLookup{SequenceIndex: uint16(i), LookupListIndex: gtab.LookupIndex(i % 2)}
	}
	return a
}

func classTable(n, c, k int) classdef.Table {
	t := classdef.Table{}
	for i, g := range shapeGlyphs(n, c, 5) {
		t[g] = uint16(1 + i%k)
	}
	return t
}

func u16s(n, base int) []uint16 {
	r := make([]uint16, n)
	for i := range r {
		r[i] = uint16((base + i) % 3)
	}
	return r
}

// Shape is the parameter vector enumerated by TLC.
type Shape struct {
	K   string `json:"k"`
	N   int    `json:"n"`
	M   int    `json:"m"`
	C   int    `json:"c"`
	V   int    `json:"v"`
	T   string `json:"t,omitempty"`   // k = "off" / "leaf": the subtable format, e.g. "gsub5_2"
	Big string `json:"big,omitempty"` // k = "off": the component that is made >= 64 KiB
	// k = "leaf": the scalar leaf Field of the middle record is Val, the other leaves are non-zero (Oth = 1) or zero
	Field string `json:"field,omitempty"`
	Val   int    `json:"val"`
	Oth   int    `json:"oth"`
}

// buildShape returns the lookup type and the subtable of a shape.
func buildShape(sh Shape, gpos bool) (int, gtab.Subtable, error) {
	if sh.K == "off" {
		return buildOff(sh.T, sh.Big)
	}
	if sh.K == "leaf" {
		return buildLeaf(sh, gpos)
	}
	if strings.HasSuffix(sh.K, "z") {
		base := sh
		base.K = strings.TrimSuffix(sh.K, "z")
		t, st, err := buildShape(base, gpos)
		if err != nil {
			return 0, nil, err
		}
		// explicit class-0 entries below the lowest and above the highest glyph of every class
		// definition; one class definition is replaced by an all-zero table
		zero := func(cd classdef.Table) {
			lo, hi := 70000, -1
			for g := range cd {
				if int(g) < lo {
					lo = int(g)
				}
				if int(g) > hi {
					hi = int(g)
				}
			}
			if hi < 0 {
				cd[7] = 0
				return
			}
			if lo > 0 {
				cd[glyph.ID(lo-1)] = 0
			}
			if hi < 0xFFFF {
				cd[glyph.ID(hi+1)] = 0
			}
			if sh.V%2 == 1 && lo > 1 {
				cd[0] = 0
			}
		}
		switch l := st.(type) {
		case *gtab.SeqContext2:
			zero(l.Input)
		case *gtab.ChainedSeqContext2:
			zero(l.Input)
			zero(l.Lookahead)
			l.Backtrack = classdef.Table{7: 0, 9: 0}
		case *gtab.Gpos2_2:
			zero(l.Class1)
			l.Class2 = classdef.Table{7: 0}
		default:
			return 0, nil, fmt.Errorf("kind %s has no class definitions", sh.K)
		}
		return t, st, nil
	}
	n, m, c, v := sh.N, sh.M, sh.C, sh.V
	g := shapeGlyphs(n, c, 0)
	ctxType := func(base int) int {
		if gpos {
			return base + 2
		}
		return base
	}
	switch sh.K {
	case "gsub1_1":
		d := glyph.ID(1)
		if v%2 == 1 {
			d = 0xFFFF
		}
		return 1, &gtab.Gsub1_1{Cov: covSet(g), Delta: d}, nil
	case "gsub1_2":
		return 1, &gtab.Gsub1_2{Cov: covTable(g), SubstituteGlyphIDs: gids(n, 40+v)}, nil
	case "gsub2_1", "gsub3_1":
		r := make([][]glyph.ID, n)
		for i := range r {
			r[i] = gids(m+(i*v)%2, 50+i)
		}
		if sh.K == "gsub2_1" {
			return 2, &gtab.Gsub2_1{Cov: covTable(g), Repl: r}, nil
		}
		return 3, &gtab.Gsub3_1{Cov: covTable(g), Alternates: r}, nil
	case "gsub4_1":
		r := make([][]gtab.Ligature, n)
		for i := range r {
			r[i] = make([]gtab.Ligature, m)
			for j := range r[i] {
				r[i][j] = gtab.Ligature{In: gids((j+v)%3, 60+j), Out: glyph.ID(500 + i + j)}
			}
		}
		return 4, &gtab.Gsub4_1{Cov: covTable(g), Repl: r}, nil
	case "gsub8_1":
		l := &gtab.Gsub8_1{Input: covTable(g), SubstituteGlyphIDs: gids(n, 70)}
		for i := 0; i < m; i++ {
			l.Backtrack = append(l.Backtrack, covTable(shapeGlyphs(1+i, (c+i)%4, 1)))
		}
		for i := 0; i < v; i++ {
			l.Lookahead = append(l.Lookahead, covTable(shapeGlyphs(2+i, (c+1+i)%4, 2)))
		}
		return 8, l, nil
	case "ctx1":
		r := make([][]*gtab.SeqRule, n)
		for i := range r {
			if v == 1 && i%2 == 1 {
				continue // a NULL rule set offset
			}
			r[i] = make([]*gtab.SeqRule, m)
			for j := range r[i] {
				r[i][j] = &gtab.SeqRule{Input: gids((j+v)%3, 80+j), Actions: actions((j + 1 + v) % 3)}
			}
		}
		return ctxType(5), &gtab.SeqContext1{Cov: covTable(g), Rules: r}, nil
	case "ctx2":
		k := 1 + v%3
		cd := classTable(n, c, k)
		nc := cd.NumClasses()
		r := make([][]*gtab.ClassSeqRule, 0)
		for i := 0; i < nc && i < 3; i++ {
			if v == 1 && i == 0 {
				r = append(r, nil)
				continue
			}
			set := make([]*gtab.ClassSeqRule, m)
			for j := range set {
				set[j] = &gtab.ClassSeqRule{Input: u16s((j+v)%3, j), Actions: actions((j + v) % 3)}
			}
			r = append(r, set)
		}
		return ctxType(5), &gtab.SeqContext2{Cov: covTable(g), Input: cd, Rules: r}, nil
	case "ctx3":
		cnt := n
		if cnt < 1 {
			cnt = 1
		}
		l := &gtab.SeqContext3{Actions: actions(v)}
		for i := 0; i < cnt; i++ {
			l.Input = append(l.Input, covSet(shapeGlyphs(m+i%2, (c+i)%4, i)))
		}
		return ctxType(5), l, nil
	case "chain1":
		r := make([][]*gtab.ChainedSeqRule, n)
		for i := range r {
			if v == 1 && i%2 == 1 {
				continue
			}
			r[i] = make([]*gtab.ChainedSeqRule, m)
			for j := range r[i] {
				r[i][j] = &gtab.ChainedSeqRule{Backtrack: gids((j+v)%3, 90), Input: gids((j+1)%3, 91),
					Lookahead: gids((j+2+v)%3, 92), Actions: actions((j + v) % 3)}
			}
		}
		return ctxType(6), &gtab.ChainedSeqContext1{Cov: covTable(g), Rules: r}, nil
	case "chain2":
		k := 1 + v%3
		in := classTable(n, c, k)
		nc := in.NumClasses()
		r := make([][]*gtab.ChainedClassSeqRule, 0)
		for i := 0; i < nc && i < 3; i++ {
			if v == 1 && i == 0 {
				r = append(r, nil)
				continue
			}
			set := make([]*gtab.ChainedClassSeqRule, m)
			for j := range set {
				set[j] = &gtab.ChainedClassSeqRule{Backtrack: u16s((j+v)%3, 1), Input: u16s((j+1)%3, 2),
					Lookahead: u16s((j+2)%3, 0), Actions: actions((j + v) % 3)}
			}
			r = append(r, set)
		}
		return ctxType(6), &gtab.ChainedSeqContext2{Cov: covTable(g), Backtrack: classTable(m, (c+1)%4, 2),
			Input: in, Lookahead: classTable(v, (c+2)%4, 1), Rules: r}, nil
	case "chain3":
		l := &gtab.ChainedSeqContext3{Actions: actions(v)}
		for i := 0; i < m; i++ {
			l.Backtrack = append(l.Backtrack, covSet(shapeGlyphs(1+i, (c+i)%4, 1)))
		}
		cnt := n
		if cnt < 1 {
			cnt = 1
		}
		for i := 0; i < cnt && i < 3; i++ {
			l.Input = append(l.Input, covSet(shapeGlyphs(n+i, (c+i)%4, 2)))
		}
		for i := 0; i < v; i++ {
			l.Lookahead = append(l.Lookahead, covSet(shapeGlyphs(i, (c+2+i)%4, 3)))
		}
		return ctxType(6), l, nil
	case "gpos1_1":
		return 1, &gtab.Gpos1_1{Cov: covTable(g), Adjust: vr(v, m)}, nil
	case "gpos1_2":
		adj := make([]*gtab.GposValueRecord, n)
		for i := range adj {
			switch v {
			case 0, 1:
				adj[i] = vr(v, i)
			case 2:
				adj[i] = vr(2+i%2, i) // different field sets: the format is the union
			default:
				adj[i] = vr(1+(i+m)%3, i) // zero-value records among non-zero ones
			}
		}
		return 1, &gtab.Gpos1_2{Cov: covTable(g), Adjust: adj}, nil
	case "gpos2_1":
		l := gtab.Gpos2_1{}
		seconds := shapeGlyphs(m, (c+1)%4, 3)
		for i, a := range g {
			for j, b := range seconds {
				if (i+j)%3 == 2 && m > 2 {
					continue // ragged pair sets
				}
				pa := &gtab.PairAdjust{}
				switch v {
				case 0:
					pa.First = vr(2, i+j)
				case 1:
					pa.First, pa.Second = vr(2, i), vr(3, j)
				case 2:
					pa.First = vr(1, 0)
				default:
					pa.Second = vr(2, i+j)
				}
				l[glyph.Pair{Left: a, Right: b}] = pa
			}
		}
		return 2, l, nil
	case "gpos2_2":
		k1, k2 := 1+n%3, 1+m%3
		rows := make([][]*gtab.PairAdjust, k1)
		for i := range rows {
			rows[i] = make([]*gtab.PairAdjust, k2)
			for j := range rows[i] {
				pa := &gtab.PairAdjust{}
				switch v {
				case 0:
					pa.First = vr(2, i+j)
				case 1:
					pa.First, pa.Second = vr(3, i), vr(2, j)
				case 2:
					pa.First = vr(1, 0)
				default:
					pa.First, pa.Second = vr(1+(i+j)%3, i), vr(1+(i*j)%3, j)
				}
				rows[i][j] = pa
			}
		}
		return 2, &gtab.Gpos2_2{Cov: covSet(g), Class1: classTable(n, c, k1), Class2: classTable(m+1, (c+1)%4, k2), Adjust: rows}, nil
	case "gpos3_1":
		rec := make([]gtab.EntryExitRecord, n)
		for i := range rec {
			p := (v + i*m) % 4
			rec[i] = gtab.EntryExitRecord{Entry: anch(p&1 != 0, i), Exit: anch(p&2 != 0, i+1)}
		}
		return 3, &gtab.Gpos3_1{Cov: covTable(g), Records: rec}, nil
	case "gpos4_1", "gpos6_1":
		k := 1 + v%2
		marks := make([]markarray.Record, n)
		for i := range marks {
			marks[i] = markarray.Record{Class: uint16(i % k), Table: anch(v < 2 || i%2 == 0, i)}
		}
		bases := shapeGlyphs(m, (c+1)%4, 4)
		arr := make([][]anchor.Table, m)
		for i := range arr {
			arr[i] = make([]anchor.Table, k)
			for j := range arr[i] {
				arr[i][j] = anch((i+j+v)%3 != 0, i+j)
			}
		}
		if sh.K == "gpos4_1" {
			return 4, &gtab.Gpos4_1{MarkCov: covTable(g), BaseCov: covTable(bases), MarkArray: marks, BaseArray: arr}, nil
		}
		return 6, &gtab.Gpos6_1{Mark1Cov: covTable(g), Mark2Cov: covTable(bases), Mark1Array: marks, Mark2Array: arr}, nil
	case "huge1_2": // GSUB 1.2 with 6+2n beyond 16 bits: the coverage offset cannot be written
		k := 33000 + 100*n
		return 1, &gtab.Gsub1_2{Cov: covTable(spreadFull(k)), SubstituteGlyphIDs: gids(k, 1)}, nil
	case "huge2_1": // GSUB 2.1 whose sequences push the coverage offset beyond 16 bits
		return 2, &gtab.Gsub2_1{Cov: covTable(spread(2)), Repl: [][]glyph.ID{gids(20000+n, 1), gids(20000+m, 2)}}, nil
	case "huge3_1":
		return 3, &gtab.Gsub3_1{Cov: covTable(spread(2)), Alternates: [][]glyph.ID{gids(20000+n, 1), gids(20000+m, 2)}}, nil
	case "hugep1_2": // GPOS 1.2 with 8 + 2*count beyond 16 bits
		k := 33000 + 100*n
		adj := make([]*gtab.GposValueRecord, k)
		for i := range adj {
			adj[i] = &gtab.GposValueRecord{XAdvance: funit.Int16(1 + i%100)}
		}
		return 1, &gtab.Gpos1_2{Cov: covTable(spreadFull(k)), Adjust: adj}, nil
	}
	return 0, nil, fmt.Errorf("unknown shape kind %q", sh.K)
}

// spreadFull returns n <= 65536 distinct ascending glyphs (step 1 once step 2 does not fit).
func spreadFull(n int) []glyph.ID {
	if n <= 32768 {
		return spread(n)
	}
	g := make([]glyph.ID, n)
	for i := range g {
		g[i] = glyph.ID(i)
	}
	return g
}

// ---- one component beyond 64 KiB ----------------------------------------------------------

const bigN = 32768 // glyphs 0, 2, ..., 65534: a format-1 coverage table of 4 + 65536 bytes

// bigClassDef: alternating classes over 32800 consecutive glyphs: format 1, 6 + 65600 bytes.
func bigClassDef() classdef.Table {
	t := classdef.Table{}
	for i := 0; i < 32800; i++ {
		t[glyph.ID(100+i)] = uint16(1 + i%2)
	}
	return t
}

func smallClassDef() classdef.Table { return classdef.Table{5: 1, 6: 2, 9: 1} }

func fullVR(i int) *gtab.GposValueRecord {
	return &gtab.GposValueRecord{XPlacement: funit.Int16(1 + i%100), YPlacement: 2, XAdvance: 3, YAdvance: 4,
		XPlacementDevOffs: 5, YPlacementDevOffs: 6, XAdvanceDevOffs: 7, YAdvanceDevOffs: 8}
}

func u16seq(n int) []uint16 {
	r := make([]uint16, n)
	for i := range r {
		r[i] = uint16(i % 2)
	}
	return r
}

// buildOff builds a subtable of format t in which the component big has at least 64 KiB and
// everything else is small (spec/LookupLayoutShapes.tla, OffCases).
func buildOff(t, big string) (int, gtab.Subtable, error) {
	bad := fmt.Errorf("no builder for format %s with big %s", t, big)
	small := covTable(spread(2))
	act := actions(1)
	lt := map[string]int{"gsub1_2": 1, "gsub2_1": 2, "gsub3_1": 3, "gsub4_1": 4, "gsub5_1": 5, "gsub5_2": 5, "gsub5_3": 5,
		"gsub6_1": 6, "gsub6_2": 6, "gsub6_3": 6, "gsub8_1": 8, "gpos1_2": 1, "gpos2_1": 2, "gpos2_2": 2, "gpos3_1": 3,
		"gpos4_1": 4, "gpos6_1": 6, "gpos7_1": 7, "gpos7_2": 7, "gpos7_3": 7, "gpos8_1": 8, "gpos8_2": 8, "gpos8_3": 8}[t]
	if lt == 0 {
		return 0, nil, bad
	}
	nullSets := strings.HasSuffix(big, ",nullSets")
	big = strings.TrimSuffix(big, ",nullSets")
	ctx := t
	if len(t) == 7 && (t[:5] == "gpos7" || t[:5] == "gpos8") {
		ctx = "gsub" + string(rune(t[4]-2)) + t[5:]
	}
	switch ctx {
	case "gsub1_2":
		return lt, &gtab.Gsub1_2{Cov: covTable(spread(bigN)), SubstituteGlyphIDs: gids(bigN, 1)}, nil
	case "gsub2_1", "gsub3_1":
		var cov coverage.Table
		var seq [][]glyph.ID
		switch big {
		case "coverage":
			cov = covTable(spread(bigN))
			seq = make([][]glyph.ID, bigN)
			for i := range seq {
				seq[i] = []glyph.ID{glyph.ID(i)}
			}
		case "sequences":
			cov, seq = small, [][]glyph.ID{gids(bigN, 1), gids(3, 2)}
		default:
			return 0, nil, bad
		}
		if ctx == "gsub2_1" {
			return lt, &gtab.Gsub2_1{Cov: cov, Repl: seq}, nil
		}
		return lt, &gtab.Gsub3_1{Cov: cov, Alternates: seq}, nil
	case "gsub4_1":
		switch big {
		case "coverage":
			return lt, &gtab.Gsub4_1{Cov: covTable(spread(bigN)), Repl: make([][]gtab.Ligature, bigN)}, nil
		case "ligatureSets":
			return lt, &gtab.Gsub4_1{Cov: small, Repl: [][]gtab.Ligature{{{In: gids(bigN, 1), Out: 7}}, {{In: gids(1, 2), Out: 8}}}}, nil
		case "ligatures":
			return lt, &gtab.Gsub4_1{Cov: covTable(spread(1)), Repl: [][]gtab.Ligature{{{In: gids(bigN, 1), Out: 7}, {In: gids(1, 2), Out: 8}}}}, nil
		}
	case "gsub5_1":
		switch big {
		case "coverage":
			return lt, &gtab.SeqContext1{Cov: covTable(spread(bigN)), Rules: make([][]*gtab.SeqRule, bigN)}, nil
		case "ruleSets":
			return lt, &gtab.SeqContext1{Cov: small, Rules: [][]*gtab.SeqRule{{{Input: gids(bigN, 1), Actions: act}}, {{Input: gids(1, 2), Actions: act}}}}, nil
		case "rules":
			return lt, &gtab.SeqContext1{Cov: covTable(spread(1)), Rules: [][]*gtab.SeqRule{{{Input: gids(bigN, 1), Actions: act}, {Input: gids(1, 2), Actions: act}}}}, nil
		}
	case "gsub5_2":
		l := &gtab.SeqContext2{Cov: small, Input: smallClassDef(),
			Rules: [][]*gtab.ClassSeqRule{{{Input: u16seq(1), Actions: act}}, {{Input: u16seq(2), Actions: act}}}}
		switch big {
		case "coverage":
			l.Cov = covTable(spread(bigN))
		case "classDef":
			l.Input = bigClassDef()
		case "ruleSets":
			l.Rules[0][0].Input = u16seq(bigN)
		case "rules":
			l.Rules = [][]*gtab.ClassSeqRule{{{Input: u16seq(bigN), Actions: act}, {Input: u16seq(2), Actions: act}}}
		default:
			return 0, nil, bad
		}
		if nullSets {
			l.Rules = [][]*gtab.ClassSeqRule{nil, nil}
		}
		return lt, l, nil
	case "gsub5_3":
		switch big {
		case "coverages":
			return lt, &gtab.SeqContext3{Input: []coverage.Set{covSet(spread(bigN)), covSet(spread(3))}, Actions: act}, nil
		case "seqLookupRecords":
			return lt, &gtab.SeqContext3{Input: []coverage.Set{covSet(spread(2)), covSet(spread(3))}, Actions: actions(16384)}, nil
		}
	case "gsub6_1":
		rule := func(n int) *gtab.ChainedSeqRule {
			return &gtab.ChainedSeqRule{Backtrack: gids(n, 1), Input: gids(1, 2), Lookahead: gids(1, 3), Actions: act}
		}
		switch big {
		case "coverage":
			return lt, &gtab.ChainedSeqContext1{Cov: covTable(spread(bigN)), Rules: make([][]*gtab.ChainedSeqRule, bigN)}, nil
		case "ruleSets":
			return lt, &gtab.ChainedSeqContext1{Cov: small, Rules: [][]*gtab.ChainedSeqRule{{rule(bigN)}, {rule(1)}}}, nil
		case "rules":
			return lt, &gtab.ChainedSeqContext1{Cov: covTable(spread(1)), Rules: [][]*gtab.ChainedSeqRule{{rule(bigN), rule(1)}}}, nil
		}
	case "gsub6_2":
		rule := func(n int) *gtab.ChainedClassSeqRule {
			return &gtab.ChainedClassSeqRule{Backtrack: u16seq(1), Input: u16seq(1), Lookahead: u16seq(n), Actions: act}
		}
		l := &gtab.ChainedSeqContext2{Cov: small, Backtrack: smallClassDef(), Input: smallClassDef(), Lookahead: smallClassDef(),
			Rules: [][]*gtab.ChainedClassSeqRule{{rule(1)}, {rule(2)}}}
		switch big {
		case "coverage":
			l.Cov = covTable(spread(bigN))
		case "backtrackClassDef":
			l.Backtrack = bigClassDef()
		case "inputClassDef":
			l.Input = bigClassDef()
		case "lookaheadClassDef":
			l.Lookahead = bigClassDef()
		case "ruleSets":
			l.Rules[0][0] = rule(bigN)
		case "rules":
			l.Rules = [][]*gtab.ChainedClassSeqRule{{rule(bigN), rule(2)}}
		default:
			return 0, nil, bad
		}
		if nullSets {
			l.Rules = [][]*gtab.ChainedClassSeqRule{nil, nil}
		}
		return lt, l, nil
	case "gsub6_3":
		pair := func(b bool) []coverage.Set {
			if b {
				return []coverage.Set{covSet(spread(bigN)), covSet(spread(3))}
			}
			return []coverage.Set{covSet(spread(2))}
		}
		l := &gtab.ChainedSeqContext3{Backtrack: pair(big == "backtrackCoverages"), Input: pair(big == "inputCoverages"),
			Lookahead: pair(big == "lookaheadCoverages"), Actions: act}
		if big == "seqLookupRecords" {
			l.Actions = actions(16384)
		}
		return lt, l, nil
	case "gsub8_1":
		pair := func(b bool) []coverage.Table {
			if b {
				return []coverage.Table{covTable(spread(bigN)), covTable(spread(3))}
			}
			return []coverage.Table{covTable(spread(2))}
		}
		l := &gtab.Gsub8_1{Input: small, SubstituteGlyphIDs: gids(2, 1), Backtrack: pair(big == "backtrackCoverages"),
			Lookahead: pair(big == "lookaheadCoverages")}
		if big == "coverage" {
			l.Input, l.SubstituteGlyphIDs = covTable(spread(bigN)), gids(bigN, 1)
		}
		return lt, l, nil
	case "gpos1_2":
		n := 4200
		if big == "coverage" {
			n = bigN
		}
		adj := make([]*gtab.GposValueRecord, n)
		for i := range adj {
			if big == "coverage" {
				adj[i] = &gtab.GposValueRecord{XAdvance: funit.Int16(1 + i%50)}
			} else {
				adj[i] = fullVR(i)
			}
		}
		return lt, &gtab.Gpos1_2{Cov: covTable(spread(n)), Adjust: adj}, nil
	case "gpos2_1":
		l := gtab.Gpos2_1{}
		switch big {
		case "coverage":
			for i := 0; i < bigN; i++ {
				l[glyph.Pair{Left: glyph.ID(2 * i), Right: 1}] = &gtab.PairAdjust{First: &gtab.GposValueRecord{XAdvance: 5}}
			}
		case "pairSets":
			for i := 0; i < 2100; i++ {
				l[glyph.Pair{Left: 4, Right: glyph.ID(i)}] = &gtab.PairAdjust{First: fullVR(i), Second: fullVR(i + 1)}
			}
			l[glyph.Pair{Left: 8, Right: 1}] = &gtab.PairAdjust{First: fullVR(1), Second: fullVR(2)}
		default:
			return 0, nil, bad
		}
		return lt, l, nil
	case "gpos2_2":
		l := &gtab.Gpos2_2{Cov: covSet(spread(2)), Class1: smallClassDef(), Class2: smallClassDef()}
		k := 3
		switch big {
		case "coverage":
			l.Cov = covSet(spread(bigN))
		case "classDef1":
			l.Class1 = bigClassDef()
		case "classDef2":
			l.Class2 = bigClassDef()
		case "classMatrix":
			k = 100
		default:
			return 0, nil, bad
		}
		for i := 0; i < k; i++ {
			row := make([]*gtab.PairAdjust, k)
			for j := range row {
				row[j] = &gtab.PairAdjust{First: &gtab.GposValueRecord{XPlacement: 1, XAdvance: funit.Int16(1 + i)},
					Second: &gtab.GposValueRecord{XPlacement: 2, XAdvance: funit.Int16(1 + j)}}
			}
			l.Adjust = append(l.Adjust, row)
		}
		return lt, l, nil
	case "gpos3_1":
		n := 4100
		if big == "coverage" {
			n = bigN
		} else if big != "anchors" {
			return 0, nil, bad
		}
		rec := make([]gtab.EntryExitRecord, n)
		for i := range rec {
			if big == "anchors" {
				rec[i] = gtab.EntryExitRecord{Entry: anch(true, i%100), Exit: anch(true, i%90)}
			}
		}
		return lt, &gtab.Gpos3_1{Cov: covTable(spread(n)), Records: rec}, nil
	case "gpos4_1", "gpos6_1":
		nm, nb := 2, 2
		switch big {
		case "markCoverage":
			nm = bigN
		case "baseCoverage":
			nb = bigN
		case "markArray":
			nm = 6600
		case "baseArray":
			nb = 8200
		default:
			return 0, nil, bad
		}
		marks := make([]markarray.Record, nm)
		for i := range marks {
			marks[i] = markarray.Record{Class: 0, Table: anch(true, i%100)}
		}
		arr := make([][]anchor.Table, nb)
		for i := range arr {
			arr[i] = []anchor.Table{anch(big == "baseArray" || nb == 2, i%100)}
		}
		if ctx == "gpos4_1" {
			return lt, &gtab.Gpos4_1{MarkCov: covTable(spread(nm)), BaseCov: covTable(spread(nb)), MarkArray: marks, BaseArray: arr}, nil
		}
		return lt, &gtab.Gpos6_1{Mark1Cov: covTable(spread(nm)), Mark2Cov: covTable(spread(nb)), Mark1Array: marks, Mark2Array: arr}, nil
	}
	return 0, nil, bad
}

// markBase: 12 + markCov(4+2) + baseCov(4+2n) + markArray(2+4+6) + baseArray(2 + 2n + 6n) = 36 + 10n
func markBase(s int, mkmk bool) gtab.Subtable {
	n := (s - 36) / 10
	if (s-36)%10 != 0 || n < 1 || 2+8*n > 65535 {
		return nil
	}
	marks := []markarray.Record{{Class: 0, Table: anch(true, 1)}}
	arr := make([][]anchor.Table, n)
	for i := range arr {
		arr[i] = []anchor.Table{anch(true, i%90)}
	}
	if mkmk {
		return &gtab.Gpos6_1{Mark1Cov: covTable([]glyph.ID{1}), Mark2Cov: covTable(spread(n)), Mark1Array: marks, Mark2Array: arr}
	}
	return &gtab.Gpos4_1{MarkCov: covTable([]glyph.ID{1}), BaseCov: covTable(spread(n)), MarkArray: marks, BaseArray: arr}
}

// realiseNear returns a realiser of lookup type t and the smallest size >= s it can make.
func realiseNear(rng *rand.Rand, gpos bool, t, s int) (string, int, error) {
	var cand []int
	for i, r := range realisers {
		if r.gpos == gpos && r.ltype == t {
			cand = append(cand, i)
		}
	}
	rng.Shuffle(len(cand), func(a, b int) { cand[a], cand[b] = cand[b], cand[a] })
	for d := 0; d < 60; d += 2 {
		for _, c := range cand {
			if realisers[c].make(s+d) != nil {
				return realisers[c].name, s + d, nil
			}
		}
	}
	return "", 0, fmt.Errorf("lookup type %d (gpos=%v) cannot make about %d bytes", t, gpos, s)
}

// ---- scalar leaves ------------------------------------------------------------------------

// buildLeaf builds a small subtable of format sh.T whose leaf sh.Field (middle record) has the value sh.Val.
func buildLeaf(sh Shape, gpos bool) (int, gtab.Subtable, error) {
	used := false
	lv := func(name string, base int) int {
		if name == sh.Field {
			used = true
			return sh.Val
		}
		if sh.Oth == 0 {
			return 0
		}
		return base
	}
	// other records: always non-zero
	g3 := covTable([]glyph.ID{10, 13, 16})
	gid := func(name string, base int) glyph.ID { return glyph.ID(uint16(lv(name, base))) }
	u := func(name string, base int) uint16 { return uint16(lv(name, base)) }
	fu := func(name string, base int) funit.Int16 { return funit.Int16(lv(name, base)) }
	vrec := func(pre string) *gtab.GposValueRecord {
		return &gtab.GposValueRecord{XPlacement: fu(pre+"XPlacement", 11), YPlacement: fu(pre+"YPlacement", -12),
			XAdvance: fu(pre+"XAdvance", 13), YAdvance: fu(pre+"YAdvance", -14),
			XPlacementDevOffs: u(pre+"XPlaDevice", 15), YPlacementDevOffs: u(pre+"YPlaDevice", 16),
			XAdvanceDevOffs: u(pre+"XAdvDevice", 17), YAdvanceDevOffs: u(pre+"YAdvDevice", 18)}
	}
	act := func() []gtab.SeqLookup {
		return []gtab.SeqLookup{{SequenceIndex: 1, LookupListIndex: 1},
			{SequenceIndex: u("sequenceIndex", 2), LookupListIndex: gtab.LookupIndex(u("lookupListIndex", 1))}, {SequenceIndex: 0, LookupListIndex: 0}}
	}
	ctxT := func(base int) int {
		if gpos {
			return base + 2
		}
		return base
	}
	var lt int
	var st gtab.Subtable
	switch sh.T {
	case "gsub1_1":
		lt, st = 1, &gtab.Gsub1_1{Cov: covSet([]glyph.ID{10, 13, 16}), Delta: gid("deltaGlyphID", 5)}
	case "gsub1_2":
		lt, st = 1, &gtab.Gsub1_2{Cov: g3, SubstituteGlyphIDs: []glyph.ID{21, gid("substituteGlyphID", 22), 23}}
	case "gsub2_1":
		lt, st = 2, &gtab.Gsub2_1{Cov: g3, Repl: [][]glyph.ID{{21}, {22, gid("sequenceGlyph", 23), 24}, {25}}}
	case "gsub3_1":
		lt, st = 3, &gtab.Gsub3_1{Cov: g3, Alternates: [][]glyph.ID{{21}, {22, gid("alternateGlyph", 23), 24}, {25}}}
	case "gsub4_1":
		lt, st = 4, &gtab.Gsub4_1{Cov: g3, Repl: [][]gtab.Ligature{{{In: []glyph.ID{30}, Out: 31}},
			{{In: []glyph.ID{32, gid("componentGlyph", 33), 34}, Out: gid("ligatureGlyph", 35)}}, {{In: []glyph.ID{36}, Out: 37}}}}
	case "gsub8_1":
		lt, st = 8, &gtab.Gsub8_1{Input: g3, Backtrack: []coverage.Table{covTable([]glyph.ID{40})},
			SubstituteGlyphIDs: []glyph.ID{21, gid("substituteGlyphID", 22), 23}}
	case "ctx1":
		lt, st = ctxT(5), &gtab.SeqContext1{Cov: covTable([]glyph.ID{10}), Rules: [][]*gtab.SeqRule{{
			{Input: []glyph.ID{41, gid("inputGlyph", 42), 43}, Actions: act()}}}}
	case "ctx2":
		lt, st = ctxT(5), &gtab.SeqContext2{Cov: covTable([]glyph.ID{10}), Input: classdef.Table{10: 1, 11: 2},
			Rules: [][]*gtab.ClassSeqRule{nil, {{Input: []uint16{1, u("inputClass", 2), 1}, Actions: act()}}}}
	case "ctx3":
		lt, st = ctxT(5), &gtab.SeqContext3{Input: []coverage.Set{covSet([]glyph.ID{10}), covSet([]glyph.ID{11, 12})}, Actions: act()}
	case "chain1":
		lt, st = ctxT(6), &gtab.ChainedSeqContext1{Cov: covTable([]glyph.ID{10}), Rules: [][]*gtab.ChainedSeqRule{{
			{Backtrack: []glyph.ID{51, gid("backtrackGlyph", 52), 53}, Input: []glyph.ID{41, gid("inputGlyph", 42), 43},
				Lookahead: []glyph.ID{61, gid("lookaheadGlyph", 62), 63}, Actions: act()}}}}
	case "chain2":
		cd := classdef.Table{10: 1, 11: 2}
		lt, st = ctxT(6), &gtab.ChainedSeqContext2{Cov: covTable([]glyph.ID{10}), Backtrack: cd, Input: classdef.Table{10: 1, 12: 2}, Lookahead: classdef.Table{13: 1},
			Rules: [][]*gtab.ChainedClassSeqRule{nil, {{Backtrack: []uint16{1, u("backtrackClass", 2), 1}, Input: []uint16{1, u("inputClass", 2), 1},
				Lookahead: []uint16{1, u("lookaheadClass", 1), 1}, Actions: act()}}}}
	case "chain3":
		lt, st = ctxT(6), &gtab.ChainedSeqContext3{Backtrack: []coverage.Set{covSet([]glyph.ID{9})}, Input: []coverage.Set{covSet([]glyph.ID{10})},
			Lookahead: []coverage.Set{covSet([]glyph.ID{11})}, Actions: act()}
	case "gpos1_1":
		lt, st = 1, &gtab.Gpos1_1{Cov: g3, Adjust: vrec("")}
	case "gpos1_2":
		lt, st = 1, &gtab.Gpos1_2{Cov: g3, Adjust: []*gtab.GposValueRecord{fullVR(1), vrec(""), fullVR(2)}}
	case "gpos2_1":
		l := gtab.Gpos2_1{}
		l[glyph.Pair{Left: 10, Right: 20}] = &gtab.PairAdjust{First: fullVR(1), Second: fullVR(2)}
		l[glyph.Pair{Left: 13, Right: gid("secondGlyph", 21)}] = &gtab.PairAdjust{First: vrec("v1."), Second: vrec("v2.")}
		l[glyph.Pair{Left: 16, Right: 22}] = &gtab.PairAdjust{First: fullVR(3), Second: fullVR(4)}
		lt, st = 2, l
	case "gpos2_2":
		row := func(i int) []*gtab.PairAdjust {
			return []*gtab.PairAdjust{{First: fullVR(i), Second: fullVR(i + 1)}, {First: fullVR(i + 2), Second: fullVR(i + 3)}}
		}
		rows := [][]*gtab.PairAdjust{row(1), row(5), row(9)}
		rows[1][1] = &gtab.PairAdjust{First: vrec("v1."), Second: vrec("v2.")}
		lt, st = 2, &gtab.Gpos2_2{Cov: covSet([]glyph.ID{10, 13, 16}), Class1: classdef.Table{13: 1, 16: 2}, Class2: classdef.Table{20: 1}, Adjust: rows}
	case "gpos3_1":
		lt, st = 3, &gtab.Gpos3_1{Cov: g3, Records: []gtab.EntryExitRecord{{Entry: anch(true, 1), Exit: anch(true, 2)},
			{Entry: anchor.Table{X: fu("entryX", 31), Y: fu("entryY", -32)}, Exit: anchor.Table{X: fu("exitX", 33), Y: fu("exitY", -34)}},
			{Entry: anch(true, 3), Exit: anch(true, 4)}}}
	case "gpos4_1", "gpos6_1":
		marks := []markarray.Record{{Class: 0, Table: anch(true, 1)},
			{Class: uint16(lv("markClass", 1)), Table: anchor.Table{X: fu("markX", 41), Y: fu("markY", -42)}}, {Class: 1, Table: anch(true, 2)}}
		if sh.Field != "markClass" && sh.Oth == 0 {
			marks[1].Class = 1 // the class is not swept here; keep both classes in use
		}
		arr := [][]anchor.Table{{anch(true, 3), anch(true, 4)}, {anch(true, 5), {X: fu("baseX", 51), Y: fu("baseY", -52)}}, {anch(true, 6), anch(true, 7)}}
		bases := covTable([]glyph.ID{20, 23, 26})
		if sh.T == "gpos4_1" {
			lt, st = 4, &gtab.Gpos4_1{MarkCov: g3, BaseCov: bases, MarkArray: marks, BaseArray: arr}
		} else {
			lt, st = 6, &gtab.Gpos6_1{Mark1Cov: g3, Mark2Cov: bases, Mark1Array: marks, Mark2Array: arr}
		}
	default:
		return 0, nil, fmt.Errorf("no leaf builder for format %s", sh.T)
	}
	if !used && sh.Field != "lookupFlag" && sh.Field != "markFilteringSet" {
		return 0, nil, fmt.Errorf("format %s has no leaf %q", sh.T, sh.Field)
	}
	return lt, st, nil
}
