package main

// Canonical projection of go-sfnt layout structures for comparison "decoded = original".
// Maps are written with sorted keys, nil and empty slices/maps are identified (the
// binary formats cannot tell them apart), pointers are dereferenced (nil pointer = null),
// interface values carry their dynamic type name.  Normal forms: a classdef.Table entry with
// class 0 says nothing (a glyph without entry is in class 0) and is dropped; the members of a
// coverage.Set are its keys (the library tests membership by key), so every value counts as true.

import (
	"crypto/sha256"
	"encoding/hex"
	"fmt"
	"reflect"
	"sort"
	"strings"
)

func canon(v any) string {
	var sb strings.Builder
	canonValue(&sb, reflect.ValueOf(v))
	return sb.String()
}

func digest(s string) string {
	h := sha256.Sum256([]byte(s))
	return fmt.Sprintf("%d:%s", len(s), hex.EncodeToString(h[:12]))
}

func canonValue(sb *strings.Builder, v reflect.Value) {
	if !v.IsValid() {
		sb.WriteString("null")
		return
	}
	switch v.Kind() {
	case reflect.Interface:
		if v.IsNil() {
			sb.WriteString("null")
			return
		}
		e := v.Elem()
		fmt.Fprintf(sb, "{%q:", e.Type().String())
		canonValue(sb, e)
		sb.WriteString("}")
	case reflect.Ptr:
		if v.IsNil() {
			sb.WriteString("null")
			return
		}
		canonValue(sb, v.Elem())
	case reflect.Struct:
		sb.WriteString("{")
		t := v.Type()
		for i := 0; i < v.NumField(); i++ {
			if i > 0 {
				sb.WriteString(",")
			}
			fmt.Fprintf(sb, "%q:", t.Field(i).Name)
			if !t.Field(i).IsExported() {
				sb.WriteString("\"?\"")
				continue
			}
			canonValue(sb, v.Field(i))
		}
		sb.WriteString("}")
	case reflect.Slice, reflect.Array:
		sb.WriteString("[")
		for i := 0; i < v.Len(); i++ {
			if i > 0 {
				sb.WriteString(",")
			}
			canonValue(sb, v.Index(i))
		}
		sb.WriteString("]")
	case reflect.Map:
		type kv struct {
			k string
			v reflect.Value
		}
		var items []kv
		tname := v.Type().String()
		it := v.MapRange()
		for it.Next() {
			if tname == "classdef.Table" && it.Value().Uint() == 0 {
				continue
			}
			var kb strings.Builder
			k := it.Key()
			if s, ok := k.Interface().(fmt.Stringer); ok && k.Kind() != reflect.Struct {
				fmt.Fprintf(&kb, "%q", s.String())
			} else if s, ok := k.Interface().(fmt.Stringer); ok && k.Type().String() == "language.Tag" {
				fmt.Fprintf(&kb, "%q", s.String())
			} else if k.Kind() >= reflect.Int && k.Kind() <= reflect.Uint64 {
				// fixed width so that the string order is the numeric order
				if k.CanInt() {
					fmt.Fprintf(&kb, "\"%012d\"", k.Int())
				} else {
					fmt.Fprintf(&kb, "\"%012d\"", k.Uint())
				}
			} else {
				canonValue(&kb, k)
			}
			val := it.Value()
			if tname == "coverage.Set" {
				val = reflect.ValueOf(true)
			}
			items = append(items, kv{kb.String(), val})
		}
		sort.Slice(items, func(i, j int) bool { return items[i].k < items[j].k })
		sb.WriteString("{")
		for i, it := range items {
			if i > 0 {
				sb.WriteString(",")
			}
			sb.WriteString(it.k)
			sb.WriteString(":")
			canonValue(sb, it.v)
		}
		sb.WriteString("}")
	case reflect.Bool:
		fmt.Fprintf(sb, "%v", v.Bool())
	case reflect.Int, reflect.Int8, reflect.Int16, reflect.Int32, reflect.Int64:
		fmt.Fprintf(sb, "%d", v.Int())
	case reflect.Uint, reflect.Uint8, reflect.Uint16, reflect.Uint32, reflect.Uint64:
		fmt.Fprintf(sb, "%d", v.Uint())
	case reflect.String:
		fmt.Fprintf(sb, "%q", v.String())
	default:
		fmt.Fprintf(sb, "\"<%s>\"", v.Kind())
	}
}

// firstDiff describes where two canonical strings part.
func firstDiff(a, b string) string {
	n := len(a)
	if len(b) < n {
		n = len(b)
	}
	i := 0
	for i < n && a[i] == b[i] {
		i++
	}
	if i == len(a) && i == len(b) {
		return ""
	}
	lo := i - 60
	if lo < 0 {
		lo = 0
	}
	cut := func(s string) string {
		hi := i + 60
		if hi > len(s) {
			hi = len(s)
		}
		return s[lo:hi]
	}
	return fmt.Sprintf("at %d: original ...%s... decoded ...%s...", i, cut(a), cut(b))
}
