package main

import (
	"fmt"
	"math/rand"
	"reflect"
	"sort"
	"strings"
	"sync"

	"seehuhn.de/go/sfnt/name"
	"verif.local/harness/internal/namex"
	"verif.local/harness/internal/vio"
)

// fieldOf maps the name ids of the OpenType "name" chapter to the fields of name.Table.
// (Written from the chapter's list of name ids, not from name/table.go.)
var fieldOf = map[int]string{
	0: "Copyright", 1: "Family", 2: "Subfamily", 3: "Identifier", 4: "FullName", 5: "Version",
	6: "PostScriptName", 7: "Trademark", 8: "Manufacturer", 9: "Designer", 10: "Description",
	11: "VendorURL", 12: "DesignerURL", 13: "License", 14: "LicenseURL",
	16: "TypographicFamily", 17: "TypographicSubfamily", 18: "MacFullName", 19: "SampleText",
	20: "CIDFontName", 21: "WWSFamily", 22: "WWSSubfamily", 23: "LightBackgroundPalette",
	24: "DarkBackgroundPalette", 25: "VariationsPostScriptName",
}

func setName(t *name.Table, id int, val string) {
	if f, ok := fieldOf[id]; ok {
		reflect.ValueOf(t).Elem().FieldByName(f).SetString(val)
		return
	}
	if t.Extra == nil {
		t.Extra = map[name.ID]string{}
	}
	t.Extra[name.ID(id)] = val
}

// project lists the non-empty strings of one platform of an Info.
func project(p int, tt name.Tables, res []Entry) []Entry {
	for tag, t := range tt {
		if t == nil {
			continue
		}
		for id, f := range fieldOf {
			v := reflect.ValueOf(t).Elem().FieldByName(f).String()
			if v != "" {
				res = append(res, Entry{P: p, T: tag, N: id, S: runes(v)})
			}
		}
		for id, v := range t.Extra {
			if v != "" {
				res = append(res, Entry{P: p, T: tag, N: int(id), S: runes(v)})
			}
		}
	}
	return res
}

func sortEntries(e []Entry) {
	sort.Slice(e, func(i, j int) bool {
		if e[i].P != e[j].P {
			return e[i].P < e[j].P
		}
		if e[i].T != e[j].T {
			return e[i].T < e[j].T
		}
		return e[i].N < e[j].N
	})
}

func buildInfo(entries []Entry) *name.Info {
	info := &name.Info{Mac: name.Tables{}, Windows: name.Tables{}}
	for _, e := range entries {
		tt := info.Mac
		if e.P == 3 {
			tt = info.Windows
		}
		t := tt[e.T]
		if t == nil {
			t = &name.Table{}
			tt[e.T] = t
		}
		setName(t, e.N, str(e.S))
	}
	return info
}

// ---------------------------------------------------------------------------
// language table, discovered through the exported decoder: a hand-written table with one
// record per platform/language id tells which BCP 47 tag the library attaches to the id.

type langEntry struct {
	ID  int
	Tag string
}

var (
	langOnce sync.Once
	macLangs []langEntry
	winLangs []langEntry
)

func discoverLangs() {
	langOnce.Do(func() {
		for id := 0; id < 65536; id++ {
			for _, p := range []int{1, 3} {
				enc, payload := 0, []byte{'A'}
				if p == 3 {
					enc, payload = 1, []byte{0, 'A'}
				}
				tbl := namex.BuildName([]namex.RawRec{{Platform: p, Encoding: enc, Language: id, NameID: 1, Payload: payload}}, 0)
				info, err := name.Decode(tbl)
				if err != nil || info == nil {
					continue
				}
				tt := info.Mac
				if p == 3 {
					tt = info.Windows
				}
				for tag := range tt {
					if p == 1 {
						macLangs = append(macLangs, langEntry{id, tag})
					} else {
						winLangs = append(winLangs, langEntry{id, tag})
					}
				}
			}
		}
	})
}

func langRows(l []langEntry) []ev {
	res := []ev{}
	for _, e := range l {
		res = append(res, ev{"id": e.ID, "tag": e.Tag, "sub": strings.Split(e.Tag, "-")})
	}
	return res
}

func emitLangTable(out *vio.Out, id int) {
	discoverLangs()
	out.Emit(ev{"ev": "langtable", "case": id, "mac": langRows(macLangs), "win": langRows(winLangs)})
}

// ---------------------------------------------------------------------------

func entriesJSON(e []Entry) []ev {
	res := []ev{}
	for _, x := range e {
		res = append(res, ev{"p": x.P, "t": x.T, "n": x.N, "s": x.S})
	}
	return res
}

// encodeWalk calls Encode and walks the bytes.
func encodeWalk(info *name.Info) (w namex.NameWalk, data []byte, panicked bool) {
	func() {
		defer func() {
			if r := recover(); r != nil {
				panicked = true
			}
		}()
		data = info.Encode(1)
	}()
	w = namex.WalkName(data)
	return
}

func walkFields(e ev, w namex.NameWalk) {
	recs := [][]int{}
	for _, r := range w.Recs {
		recs = append(recs, []int{r.Platform, r.Encoding, r.Language, r.NameID, r.Length, r.Offset})
	}
	e["walkok"] = w.OK
	e["version"] = w.Version
	e["count"] = w.Count
	e["so"] = w.StorageOffset
	e["hend"] = w.HeaderEnd
	e["total"] = w.Total
	e["recs"] = recs
	e["storage"] = ints(w.Storage)
}

// runNames: reset (the Info), encode (walked bytes), decode (projection of the decoded Info).
func runNames(out *vio.Out, c Case) {
	out.Emit(ev{"ev": "nreset", "case": c.ID, "info": entriesJSON(c.Info)})
	info := buildInfo(c.Info)
	w, data, panicked := encodeWalk(info)
	e := ev{"ev": "nencode", "case": c.ID, "panic": panicked}
	walkFields(e, w)
	out.Emit(e)

	var dec []Entry
	failed := false
	if panicked {
		// Encode refused the table: nothing to decode
		out.Emit(ev{"ev": "ndecode", "case": c.ID, "failed": false, "skipped": true, "dec": []ev{}})
		return
	}
	func() {
		defer func() {
			if r := recover(); r != nil {
				failed = true
			}
		}()
		info2, err := name.Decode(data)
		if err != nil || info2 == nil {
			failed = true
			return
		}
		dec = project(1, info2.Mac, dec)
		dec = project(3, info2.Windows, dec)
	}()
	sortEntries(dec)
	out.Emit(ev{"ev": "ndecode", "case": c.ID, "failed": failed, "skipped": false, "dec": entriesJSON(dec)})
}

// runRaw: bytes the library did not write (one record, platform 1 or 3) through Decode, and the
// decoded string back through Encode.
func runRaw(out *vio.Out, c Case) {
	discoverLangs()
	// language ids 0 (English) and 0x0409 (English, United States) unless the library knows neither
	p, enc, lang := 1, 0, 0
	if len(macLangs) > 0 {
		lang = macLangs[0].ID
	}
	if c.Plat == 3 {
		p, enc, lang = 3, 1, 0x409
		if len(winLangs) > 0 {
			lang = winLangs[0].ID
		}
	}
	tbl := namex.BuildName([]namex.RawRec{{Platform: p, Encoding: enc, Language: lang, NameID: 4, Payload: bytesOf(c.Bytes)}}, 3)
	e := ev{"ev": "nraw", "case": c.ID, "plat": p, "bytes": c.Bytes, "panic": false,
		"found": false, "cps": []int{}, "backfound": false, "back": []int{}}
	func() {
		defer func() {
			if r := recover(); r != nil {
				e["panic"] = true
			}
		}()
		info, err := name.Decode(tbl)
		if err != nil || info == nil {
			return
		}
		var got []Entry
		got = project(1, info.Mac, got)
		got = project(3, info.Windows, got)
		if len(got) != 1 || got[0].N != 4 || got[0].P != p {
			return
		}
		e["found"] = true
		e["cps"] = got[0].S
		w := namex.WalkName(info.Encode(1))
		for _, r := range w.Recs {
			if r.Platform == p && r.NameID == 4 && r.Language == lang && r.Offset+r.Length <= len(w.Storage) {
				e["backfound"] = true
				e["back"] = ints(w.Storage[r.Offset : r.Offset+r.Length])
			}
		}
	}()
	out.Emit(e)
}

// ---------------------------------------------------------------------------
// concretisation of TLC's abstract cases

// AbsEntry is one entry of an abstract case printed by TLC (NameCodec.tla, NameGen).
type AbsEntry struct {
	Plat int    `json:"plat"`
	Lang string `json:"lang"`
	IDC  string `json:"idc"`
	StrC string `json:"strc"`
}
type AbsCase struct {
	Part    string      `json:"part"`
	Entries []AbsEntry  `json:"entries"`
	Units   []int       `json:"units"`
	Glyphs  []string    `json:"glyphs"`
	Mode    string      `json:"mode"`
	Scripts []AbsScript `json:"scripts"`
	Eq      []int       `json:"eq"`
	Init    string      `json:"init"`
	Ops     []HOp       `json:"ops"`
}

// AbsScript is the shape of one script of an abstract ScriptList (NameCodecGen.tla, part "scripts").
type AbsScript struct {
	Def   string   `json:"def"`   // none | empty | feat
	Langs []string `json:"langs"` // empty | feat
}

var macHigh []int // code points of Mac bytes 128..255 (x/text)

func pickLang(rng *rand.Rand, plat int, class string) string {
	discoverLangs()
	l := macLangs
	if plat == 3 {
		l = winLangs
	}
	byID := func(id int) (string, bool) {
		for _, e := range l {
			if e.ID == id {
				return e.Tag, true
			}
		}
		return "", false
	}
	switch class {
	case "m0":
		if t, ok := byID(0); ok {
			return t
		}
	case "w409":
		if t, ok := byID(0x409); ok {
			return t
		}
	case "mhi":
		var hi []langEntry
		for _, e := range l {
			if e.ID >= 128 {
				hi = append(hi, e)
			}
		}
		if len(hi) > 0 {
			return hi[rng.Intn(len(hi))].Tag
		}
	case "wdup":
		cnt := map[string]int{}
		for _, e := range l {
			cnt[e.Tag]++
		}
		var dup []string
		for t, n := range cnt {
			if n > 1 {
				dup = append(dup, t)
			}
		}
		sort.Strings(dup)
		if len(dup) > 0 {
			return dup[rng.Intn(len(dup))]
		}
	}
	return l[rng.Intn(len(l))].Tag
}

func pickID(rng *rand.Rand, class string) int {
	switch class {
	case "id0":
		return 0
	case "id6":
		return 6
	case "id15":
		return 15
	case "id25":
		return 25
	case "id26":
		return 26
	case "id255":
		return 255
	case "id256":
		return 256
	case "id65535":
		return 65535
	case "std":
		for {
			n := 1 + rng.Intn(25)
			if n != 15 {
				return n
			}
		}
	}
	return 257 + rng.Intn(65535-257)
}

var bmpEdges = []int{0x80, 0xFF, 0x100, 0x7FF, 0x800, 0x3042, 0x4E2D, 0xD7FF, 0xE000, 0xF8FF, 0xFFFD, 0xFFFE, 0xFFFF}
var astralEdges = []int{0x10000, 0x10001, 0x1F600, 0x2F800, 0xFFFFF, 0x100000, 0x10FFFF, 0x103FF, 0x10400}

func randCP(rng *rand.Rand, class string) int {
	switch class {
	case "ascii":
		if rng.Intn(40) == 0 {
			return rng.Intn(32) // control characters, NUL included
		}
		return 32 + rng.Intn(95)
	case "mac":
		if rng.Intn(3) == 0 {
			return 32 + rng.Intn(95)
		}
		return macHigh[rng.Intn(128)]
	case "bmp":
		if rng.Intn(3) == 0 {
			return bmpEdges[rng.Intn(len(bmpEdges))]
		}
		for {
			c := rng.Intn(0x10000)
			if c < 0xD800 || c > 0xDFFF {
				return c
			}
		}
	case "astral":
		if rng.Intn(3) == 0 {
			return astralEdges[rng.Intn(len(astralEdges))]
		}
		return 0x10000 + rng.Intn(0x100000)
	}
	return 'x'
}

func unitsOf(cps []int) int {
	n := 0
	for _, c := range cps {
		if c >= 0x10000 {
			n += 2
		} else {
			n++
		}
	}
	return n
}

// payloadBytes is the storage an entry needs (Mac: one byte per rune; Windows: two per UTF-16 unit).
func payloadBytes(plat int, cps []int) int {
	if plat == 1 {
		return len(cps)
	}
	return 2 * unitsOf(cps)
}

// makeString draws a string of the class; budget is the number of storage bytes still free.
func makeString(rng *rand.Rand, plat int, class string, prev []int, budget int) []int {
	var cps []int
	n := 1 + rng.Intn(12)
	switch class {
	case "empty":
		return []int{}
	case "a1":
		cps = []int{randCP(rng, "ascii")}
	case "ascii":
		for i := 0; i < n; i++ {
			cps = append(cps, randCP(rng, "ascii"))
		}
	case "mac":
		cps = append(cps, macHigh[rng.Intn(128)])
		for i := 1; i < n; i++ {
			cps = append(cps, randCP(rng, "mac"))
		}
	case "bmp":
		for i := 0; i < n; i++ {
			cps = append(cps, randCP(rng, "bmp"))
		}
	case "astral":
		for i := 0; i < n; i++ {
			cps = append(cps, randCP(rng, "astral"))
		}
	case "mixed":
		for i := 0; i < n; i++ {
			cps = append(cps, randCP(rng, []string{"ascii", "mac", "bmp", "astral"}[rng.Intn(4)]))
		}
	case "same":
		cps = append(cps, prev...)
	case "prefix":
		if len(prev) > 1 {
			cps = append(cps, prev[:1+rng.Intn(len(prev)-1)]...)
		} else {
			cps = []int{'p'}
		}
	case "suffix":
		if len(prev) > 1 {
			cps = append(cps, prev[1+rng.Intn(len(prev)-1):]...)
		} else {
			cps = []int{'s'}
		}
	case "xshare":
		// the same storage bytes on both platforms: Mac "ABCD" = Windows U+4142 U+4344
		k := 1 + rng.Intn(4)
		for i := 0; i < k; i++ {
			a, b := 0x41+rng.Intn(26), 0x41+rng.Intn(26)
			if plat == 1 {
				cps = append(cps, a, b)
			} else {
				cps = append(cps, a<<8|b)
			}
		}
	case "long":
		// up to the 16-bit length field: 65535 bytes on the Macintosh platform, 32767 units on Windows
		sub := "ascii"
		if plat == 1 {
			sub = "mac"
		} else if rng.Intn(2) == 0 {
			sub = []string{"bmp", "astral"}[rng.Intn(2)]
		}
		limit := budget
		if plat == 3 {
			limit = budget / 2
			if limit > 32767 {
				limit = 32767
			}
		}
		if rng.Intn(16) > 0 && limit > 300 {
			// mostly a few hundred to a few thousand units; the full length now and then
			top := 4000
			if top > limit {
				top = limit
			}
			limit = 300 + rng.Intn(top-300+1)
		}
		for u := 0; ; {
			c := randCP(rng, sub)
			w := 1
			if c >= 0x10000 {
				w = 2
			}
			if u+w > limit {
				break
			}
			cps = append(cps, c)
			u += w
		}
		return cps
	default:
		vio.Fatal("unknown string class " + class)
	}
	if plat == 1 {
		// only strings over the Mac Roman repertoire are in the domain of the Macintosh platform
		ok := map[int]bool{}
		for _, c := range macHigh {
			ok[c] = true
		}
		for i, c := range cps {
			if c >= 128 && !ok[c] {
				cps[i] = macHigh[c%128]
			}
		}
	}
	for payloadBytes(plat, cps) > budget && len(cps) > 0 {
		cps = cps[:len(cps)-1]
	}
	return cps
}

// concretise turns an abstract TLC case into an Info.  Entries are applied in order; a later
// entry for the same (platform, tag, id) replaces the earlier one.  The total storage demand
// (no sharing assumed) stays within the 65535 bytes every name table can address.
func concretise(rng *rand.Rand, a AbsCase) []Entry {
	type key struct {
		p int
		t string
		n int
	}
	m := map[key][]int{}
	var order []key
	budget := 65535
	var prev []int
	langs := map[string]string{}
	for _, e := range a.Entries {
		lk := fmt.Sprint(e.Plat, e.Lang)
		if _, ok := langs[lk]; !ok {
			langs[lk] = pickLang(rng, e.Plat, e.Lang)
		}
		k := key{e.Plat, langs[lk], pickID(rng, e.IDC)}
		if old, ok := m[k]; ok {
			budget += payloadBytes(k.p, old)
		} else {
			order = append(order, k)
		}
		s := makeString(rng, e.Plat, e.StrC, prev, budget)
		budget -= payloadBytes(k.p, s)
		m[k] = s
		prev = s
	}
	res := []Entry{}
	for _, k := range order {
		res = append(res, Entry{P: k.p, T: k.t, N: k.n, S: m[k]})
	}
	return res
}

func genNames(s *sink, tlcCases string) {
	discoverLangs()
	loadMacHigh()
	if len(macLangs) == 0 || len(winLangs) == 0 {
		// name.Decode understands no table the harness writes: the langtable event (rejected by
		// the trace spec) is the verdict, there is no language to build an Info with
		return
	}
	abs := vio.ReadLines[AbsCase](tlcCases)
	for i, a := range abs {
		if a.Part != "names" {
			continue
		}
		rng := vio.Rand(int64(1000 + i))
		s.add(Case{Kind: "names", Info: concretise(rng, a)}, "")
	}

	// equal strings in different slots (NameCodecGen.tla, part "equal"): the ids in Eq carry one
	// string, every other id of the family its own; on one platform or on both and in two Windows
	// languages with the very same strings everywhere
	eqIDs := []int{1, 2, 4, 6, 16, 17, 21, 22}
	for i, a := range abs {
		if a.Part != "equal" {
			continue
		}
		r := vio.Rand(int64(5000 + i))
		shared := makeString(r, 1, "ascii", nil, 40)
		in := map[int]bool{}
		for _, id := range a.Eq {
			in[id] = true
		}
		vals := map[int][]int{}
		for k, id := range eqIDs {
			if in[id] {
				vals[id] = shared
			} else {
				vals[id] = append(append([]int{}, shared...), 'a'+k) // distinct, and the shared string is a prefix
			}
		}
		var e []Entry
		add := func(p int, tag string) {
			for _, id := range eqIDs {
				e = append(e, Entry{P: p, T: tag, N: id, S: vals[id]})
			}
		}
		if a.Mode == "mac" || a.Mode == "both" {
			add(1, pickLang(r, 1, "m0"))
		}
		if a.Mode == "win" || a.Mode == "both" {
			add(3, pickLang(r, 3, "w409"))
		}
		if a.Mode == "both" {
			add(3, pickLang(r, 3, "wr1"))
		}
		s.add(Case{Kind: "names", Info: dedup(e)}, "")
	}

	// harness-made cases
	rng := vio.Rand(77)
	// (1) every supported language of both platforms at once, a few ids each, much sharing
	var all []Entry
	for _, l := range macLangs {
		all = append(all, Entry{P: 1, T: l.Tag, N: 1, S: runes("Fam")}, Entry{P: 1, T: l.Tag, N: 2, S: runes("Regular")},
			Entry{P: 1, T: l.Tag, N: 256 + l.ID, S: makeString(rng, 1, "mac", nil, 40)})
	}
	for _, l := range winLangs {
		all = append(all, Entry{P: 3, T: l.Tag, N: 1, S: runes("Fam")}, Entry{P: 3, T: l.Tag, N: 2, S: runes("Regular")},
			Entry{P: 3, T: l.Tag, N: 17, S: makeString(rng, 3, "mixed", nil, 40)})
	}
	s.add(Case{Kind: "names", Info: dedup(all)}, "")
	// (2) every supported language alone, every name id 0..25 and a few others in turn
	ids := []int{255, 256, 257, 1000, 32767, 32768, 65534, 65535}
	for i := 0; i <= 25; i++ {
		ids = append(ids, i)
	}
	k := 0
	for _, pl := range []struct {
		p int
		l []langEntry
	}{{1, macLangs}, {3, winLangs}} {
		for _, l := range pl.l {
			cl := "mac"
			if pl.p == 3 {
				cl = []string{"ascii", "bmp", "astral", "mixed"}[k%4]
			}
			id := ids[k%len(ids)]
			k++
			s.add(Case{Kind: "names", Info: []Entry{{P: pl.p, T: l.Tag, N: id, S: makeString(rng, pl.p, cl, nil, 100)}}}, "")
		}
	}
	// (3) one language, all ids 0..25 plus extras, distinct strings
	for _, p := range []int{1, 3} {
		var e []Entry
		tag := pickLang(rng, p, "any")
		for _, id := range ids {
			cl := "mac"
			if p == 3 {
				cl = "mixed"
			}
			e = append(e, Entry{P: p, T: tag, N: id, S: makeString(rng, p, cl, nil, 60)})
		}
		s.add(Case{Kind: "names", Info: e}, "")
	}
	// (3b) many name ids at once (the record array must stay below the 16-bit storage offset)
	for _, p := range []int{1, 3} {
		nid := 300
		if vio.Thorough() {
			nid = 1200
		}
		var e []Entry
		tag := pickLang(rng, p, "any")
		for i := 0; i < nid; i++ {
			cl := "mac"
			if p == 3 {
				cl = "mixed"
			}
			e = append(e, Entry{P: p, T: tag, N: rng.Intn(65536), S: makeString(rng, p, cl, nil, 20)[:1]})
		}
		s.add(Case{Kind: "names", Info: dedup(e)}, "")
	}
	// (4) the longest strings the length field can hold
	long3 := makeString(vio.Rand(78), 3, "long", nil, 65535)
	for unitsOf(long3) < 32767 {
		long3 = append(long3, 'z')
	}
	s.add(Case{Kind: "names", Info: []Entry{{P: 3, T: pickLang(rng, 3, "w409"), N: 10, S: long3}}}, "")
	long1 := []int{}
	for len(long1) < 65535 {
		long1 = append(long1, randCP(rng, "mac"))
	}
	s.add(Case{Kind: "names", Info: []Entry{{P: 1, T: pickLang(rng, 1, "m0"), N: 13, S: long1}}}, "")
	// (4b) strings stored behind a long one: offsets close to 65535
	s.add(Case{Kind: "names", Info: []Entry{
		{P: 1, T: pickLang(rng, 1, "m0"), N: 1, S: long1[:60000]},
		{P: 3, T: pickLang(rng, 3, "w409"), N: 1, S: runes("xyz")},
		{P: 3, T: pickLang(rng, 3, "any"), N: 2, S: []int{0x1F600, 0x10FFFF}}}}, "")
	s.add(Case{Kind: "names", Info: []Entry{
		{P: 3, T: pickLang(rng, 3, "w409"), N: 4, S: long3[:len(long3)/2]},
		{P: 1, T: pickLang(rng, 1, "any"), N: 4, S: long1[:30000]},
		{P: 1, T: pickLang(rng, 1, "any"), N: 5, S: runes("abc")}}}, "")
	// (4c) the 16-bit field boundary.  One language per platform, name ids in storage order (the encoder
	// stores the Macintosh strings before the Windows strings and the strings of one language by name id).
	// Strings are random, so no two share storage.  {platform, storage bytes} per string:
	type sz struct{ p, bytes int }
	bound := [][]sz{
		{{1, 30000}, {1, 35535}},                         // second string ends at 65535
		{{1, 30000}, {1, 35536}},                         // ... ends at 65536: starts below, ends at 2^16
		{{1, 30000}, {1, 35537}},                         // ... ends beyond
		{{3, 40000}, {3, 30400}},                         // 20000 + 15200 UTF-16 units
		{{1, 1}, {1, 65535}},                             // the longest string behind one byte
		{{1, 65535}, {1, 1}},                             // one byte at the last offset the field can hold
		{{1, 16000}, {1, 18000}, {1, 11535}, {3, 20000}}, // storage totals 65535, 65536, 65537
		{{1, 16000}, {1, 18000}, {1, 11536}, {3, 20000}},
		{{1, 16000}, {1, 18000}, {1, 11537}, {3, 20000}},
		{{1, 65535}, {3, 65534}},             // both fields at their maximum: ends at 131069
		{{1, 40000}, {1, 40000}, {1, 10}},    // third string would start at 80000: refuse or reorder
		{{1, 40000}, {1, 40000}, {1, 40000}}, // cannot be represented at all: refuse
		{{3, 60000}, {3, 60000}, {1, 5}},
	}
	mtag, wtag := pickLang(rng, 1, "m0"), pickLang(rng, 3, "w409")
	for _, b := range bound {
		var e []Entry
		for i, x := range b {
			var s []int
			if x.p == 1 {
				for len(s) < x.bytes {
					s = append(s, randCP(rng, "mac"))
				}
				e = append(e, Entry{P: 1, T: mtag, N: i + 1, S: s})
			} else {
				for len(s) < x.bytes/2 {
					s = append(s, randCP(rng, "bmp"))
				}
				e = append(e, Entry{P: 3, T: wtag, N: i + 1, S: s})
			}
		}
		s.add(Case{Kind: "names", Info: e}, "")
	}
	// (5) seeded random tables with many languages
	n := 40
	if vio.Thorough() {
		n = 600
	}
	for i := 0; i < n; i++ {
		var e []Entry
		budget := 65535
		nl := 1 + rng.Intn(6)
		var prev []int
		for j := 0; j < nl; j++ {
			p := []int{1, 3}[rng.Intn(2)]
			tag := pickLang(rng, p, "any")
			for q := 1 + rng.Intn(5); q > 0; q-- {
				cls := []string{"a1", "ascii", "mac", "same", "prefix", "suffix", "xshare"}
				if p == 3 {
					cls = append(cls, "bmp", "astral", "mixed", "mixed")
				}
				if rng.Intn(60) == 0 {
					cls = []string{"long"}
				}
				st := makeString(rng, p, cls[rng.Intn(len(cls))], prev, budget)
				budget -= payloadBytes(p, st)
				prev = st
				e = append(e, Entry{P: p, T: tag, N: pickID(rng, []string{"std", "std", "rand", "id0", "id25", "id255", "id256", "id65535"}[rng.Intn(8)]), S: st})
			}
		}
		s.add(Case{Kind: "names", Info: dedup(e)}, "")
	}
}

// dedup keeps the last entry for each (platform, tag, id).
func dedup(e []Entry) []Entry {
	type key struct {
		p int
		t string
		n int
	}
	last := map[key]int{}
	for i, x := range e {
		last[key{x.P, x.T, x.N}] = i
	}
	res := []Entry{}
	for i, x := range e {
		if last[key{x.P, x.T, x.N}] == i {
			res = append(res, x)
		}
	}
	return res
}
