package main

import (
	"bytes"
	"encoding/json"
	"fmt"
	"go/ast"
	"go/parser"
	"go/token"
	"math/rand"
	"os"
	"os/exec"
	"path/filepath"
	"sort"
	"strconv"
	"strings"

	"golang.org/x/text/language"
	"seehuhn.de/go/sfnt/opentype/gtab"
	"verif.local/harness/internal/namex"
	"verif.local/harness/internal/vio"
)

// tagTables extracts the keys of the script and language tag tables of the current tree
// (opentype/gtab/locale.go): the map literals keyed by the script and language tag types.
func tagTables(repo string) (scripts, langs []string) {
	fset := token.NewFileSet()
	f, err := parser.ParseFile(fset, filepath.Join(repo, "opentype", "gtab", "locale.go"), nil, 0)
	if err != nil {
		vio.Fatal(err)
	}
	ast.Inspect(f, func(n ast.Node) bool {
		cl, ok := n.(*ast.CompositeLit)
		if !ok {
			return true
		}
		mt, ok := cl.Type.(*ast.MapType)
		if !ok {
			return true
		}
		key, ok := mt.Key.(*ast.Ident)
		if !ok {
			return true
		}
		var dst *[]string
		switch {
		case strings.Contains(strings.ToLower(key.Name), "script"):
			dst = &scripts
		case strings.Contains(strings.ToLower(key.Name), "lang"):
			dst = &langs
		default:
			return true
		}
		for _, el := range cl.Elts {
			kv, ok := el.(*ast.KeyValueExpr)
			if !ok {
				continue
			}
			lit, ok := kv.Key.(*ast.BasicLit)
			if !ok || lit.Kind != token.STRING {
				continue
			}
			s, err := strconv.Unquote(lit.Value)
			if err == nil && len(s) == 4 {
				*dst = append(*dst, s)
			}
		}
		return false
	})
	sort.Strings(scripts)
	sort.Strings(langs)
	if len(scripts) < 10 || len(langs) < 10 {
		vio.Fatal(fmt.Sprintf("tag tables not found in %s (scripts %d, languages %d)", repo, len(scripts), len(langs)))
	}
	return
}

func tp(gpos bool) gtab.Type {
	if gpos {
		return gtab.TypeGpos
	}
	return gtab.TypeGsub
}

// runTagScript: a hand-written layout table with one script and the given language systems goes
// through gtab.Read and (*gtab.Info).Encode; the emitted ScriptList is walked independently.
func runTagScript(out *vio.Out, c Case) {
	spec := namex.ScriptSpec{Script: c.Script}
	in := []ev{}
	maxF := 0
	for _, l := range c.Langs {
		spec.Langs = append(spec.Langs, namex.LangSpec{Lang: l.Lang, Required: l.Req, Features: l.Feat})
		in = append(in, ev{"lang": ints([]byte(l.Lang)), "req": l.Req, "feat": l.Feat})
		for _, f := range append([]int{l.Req}, l.Feat...) {
			if f != 0xFFFF && f > maxF {
				maxF = f
			}
		}
	}
	tbl := namex.BuildLayout([]namex.ScriptSpec{spec}, maxF+1)
	e := ev{"ev": "tagscript", "case": c.ID, "script": ints([]byte(c.Script)), "in": in,
		"panic": false, "readfail": false, "ntags": 0, "walkfail": false, "out": []ev{}}
	func() {
		defer func() {
			if recover() != nil {
				e["panic"] = true
			}
		}()
		info, err := gtab.Read(bytes.NewReader(tbl), tp(c.Gpos))
		if err != nil || info == nil {
			e["readfail"] = true
			return
		}
		e["ntags"] = len(info.ScriptList)
		data := info.Encode()
		ws, err := namex.WalkScriptList(data)
		if err != nil {
			e["walkfail"] = true
			return
		}
		o := []ev{}
		for _, l := range ws {
			o = append(o, ev{"script": ints(l.Script), "lang": ints(l.Lang), "req": l.Required, "feat": l.Features})
		}
		e["out"] = o
	}()
	out.Emit(e)
}

// baseOf removes the private-use extension: the tag a user of the library would write.
func baseOf(t language.Tag) (language.Tag, bool) {
	s := t.String()
	if i := strings.Index(s, "-x-"); i >= 0 {
		s = s[:i]
	}
	b, err := language.Parse(s)
	return b, err == nil
}

// backOnce maps an extension-less tag to OpenType tags through Encode and reports the pair found in
// the bytes together with the extension-less tag that reading those bytes yields.
func backOnce(base string) []string {
	res := []string{"", "", "", "fail"}
	func() {
		defer func() {
			if recover() != nil {
				res[3] = "panic"
			}
		}()
		tag, err := language.Parse(base)
		if err != nil {
			return
		}
		info := &gtab.Info{
			ScriptList:  gtab.ScriptListInfo{tag: &gtab.Features{Required: 0xFFFF, Optional: []gtab.FeatureIndex{0}}},
			FeatureList: gtab.FeatureListInfo{{Tag: "test"}},
			LookupList:  gtab.LookupList{},
		}
		data := info.Encode()
		ws, err := namex.WalkScriptList(data)
		if err != nil || len(ws) != 1 {
			res[3] = fmt.Sprintf("walk:%d", len(ws))
			return
		}
		res[0], res[1] = string(ws[0].Script), string(ws[0].Lang)
		res[3] = "ok"
		// what does the pair map to in the forward direction?
		tbl := namex.BuildLayout([]namex.ScriptSpec{{Script: res[0], Langs: []namex.LangSpec{{Lang: res[1], Required: 0xFFFF, Features: []int{0}}}}}, 1)
		info2, err := gtab.Read(bytes.NewReader(tbl), gtab.TypeGsub)
		if err == nil && len(info2.ScriptList) == 1 {
			for t := range info2.ScriptList {
				if b, ok := baseOf(t); ok {
					res[2] = b.String()
				}
			}
		}
	}()
	return res
}

// tagBackChild is run in a fresh process: bases on stdin (JSON array), results on stdout.
func tagBackChild(runs string) {
	n, _ := strconv.Atoi(runs)
	var bases []string
	if err := json.NewDecoder(os.Stdin).Decode(&bases); err != nil {
		vio.Fatal(err)
	}
	res := map[string][][]string{}
	for _, b := range bases {
		for i := 0; i < n; i++ {
			res[b] = append(res[b], backOnce(b))
		}
	}
	json.NewEncoder(os.Stdout).Encode(res)
}

// runTagBack: the extension-less tag through Encode, several times in each of three fresh processes.
func runTagBack(out *vio.Out, c Case) {
	emitTagBack(out, c, tagBackMany([]string{c.Base}, c.Runs)[c.Base])
}

func emitTagBack(out *vio.Out, c Case, runs [][]string) {
	rr := []ev{}
	for _, r := range runs {
		rr = append(rr, ev{"script": ints([]byte(r[0])), "lang": ints([]byte(r[1])), "base": r[2], "st": r[3]})
	}
	out.Emit(ev{"ev": "tagback", "case": c.ID, "base": c.Base, "runs": rr})
}

func tagBackMany(bases []string, runs int) map[string][][]string {
	all := map[string][][]string{}
	in, _ := json.Marshal(bases)
	for p := 0; p < 3; p++ {
		cmd := exec.Command(os.Args[0], "tagback-child", strconv.Itoa(runs))
		cmd.Stdin = bytes.NewReader(in)
		cmd.Stderr = os.Stderr
		o, err := cmd.Output()
		if err != nil {
			vio.Fatal(fmt.Errorf("tagback child: %v", err))
		}
		var res map[string][][]string
		if err := json.Unmarshal(o, &res); err != nil {
			vio.Fatal(err)
		}
		for b, r := range res {
			all[b] = append(all[b], r...)
		}
	}
	return all
}

// runTagList: a hand-written ScriptList with one or two scripts, possibly using the freedoms of the
// format (shared Script table, shared LangSys tables, tables not in record order), through gtab.Read,
// (*gtab.Info).Encode (walked) and gtab.Read again.
func runTagList(out *vio.Out, c Case) {
	var specs []namex.ScriptSpec
	in := []ev{}
	maxF := 0
	for _, sc := range c.Scripts {
		spec := namex.ScriptSpec{Script: sc.Script}
		for _, l := range sc.Langs {
			spec.Langs = append(spec.Langs, namex.LangSpec{Lang: l.Lang, Required: l.Req, Features: l.Feat})
			in = append(in, ev{"script": ints([]byte(sc.Script)), "lang": ints([]byte(l.Lang)), "req": l.Req, "feat": l.Feat})
			for _, f := range append([]int{l.Req}, l.Feat...) {
				if f != 0xFFFF && f > maxF {
					maxF = f
				}
			}
		}
		specs = append(specs, spec)
	}
	tbl := namex.BuildLayoutX(specs, maxF+1, namex.LayoutOpts{ShareScript: c.Layout == "sharescript",
		ShareLangSys: c.Layout == "sharelangsys", Reverse: c.Layout == "reversed"})
	walked := func(data []byte) ([]ev, bool) {
		ws, err := namex.WalkScriptList(data)
		if err != nil {
			return []ev{}, false
		}
		o := []ev{}
		for _, l := range ws {
			o = append(o, ev{"script": ints(l.Script), "lang": ints(l.Lang), "req": l.Required, "feat": l.Features})
		}
		return o, true
	}
	// self-check of builder and walker (not a verdict): the walker sees the list the builder was given
	if built, ok := walked(tbl); !ok || len(built) != len(in) {
		vio.Fatal(fmt.Sprintf("taglist case %d: builder/walker disagree (%d of %d language systems)", c.ID, len(built), len(in)))
	}
	e := ev{"ev": "taglist", "case": c.ID, "layout": c.Layout, "in": in,
		"panic": false, "readfail": false, "walkfail": false, "read2fail": false,
		"map1": []ev{}, "out": []ev{}, "map2": []ev{}}
	project := func(info *gtab.Info) []ev {
		res := []ev{}
		for t, f := range info.ScriptList {
			feat := []int{}
			for _, x := range f.Optional {
				feat = append(feat, int(x))
			}
			res = append(res, ev{"tag": t.String(), "req": int(f.Required), "feat": feat})
		}
		sort.Slice(res, func(i, j int) bool { return res[i]["tag"].(string) < res[j]["tag"].(string) })
		return res
	}
	func() {
		defer func() {
			if recover() != nil {
				e["panic"] = true
			}
		}()
		info, err := gtab.Read(bytes.NewReader(tbl), tp(c.Gpos))
		if err != nil || info == nil {
			e["readfail"] = true
			return
		}
		e["map1"] = project(info)
		data := info.Encode()
		o, ok := walked(data)
		if !ok {
			e["walkfail"] = true
			return
		}
		e["out"] = o
		info2, err := gtab.Read(bytes.NewReader(data), tp(c.Gpos))
		if err != nil || info2 == nil {
			e["read2fail"] = true
			return
		}
		e["map2"] = project(info2)
	}()
	out.Emit(e)
}

// concretiseScripts makes an abstract ScriptList concrete: script tags are taken round robin from
// the tree's table, so the sweep visits every script; languages are drawn from the table.
func concretiseScripts(a AbsCase, k int, scripts, langs []string, rng *rand.Rand) Case {
	c := Case{Kind: "taglist", Layout: a.Mode, Gpos: k%2 == 1}
	used := map[string]bool{}
	for i, sh := range a.Scripts {
		sc := scripts[(2*k+i)%len(scripts)]
		for used[sc] {
			sc = scripts[rng.Intn(len(scripts))]
		}
		used[sc] = true
		one := ScriptCase{Script: sc}
		fno := 0
		ls := func(lang, kind string) LangCase {
			if kind == "empty" {
				return LangCase{Lang: lang, Req: 0xFFFF, Feat: []int{}}
			}
			fno++
			if a.Mode == "sharelangsys" {
				// equal content, so that the tables can be shared
				return LangCase{Lang: lang, Req: 1, Feat: []int{0, 2}}
			}
			return LangCase{Lang: lang, Req: []int{0xFFFF, fno, 0}[rng.Intn(3)], Feat: []int{fno, fno + 3}}
		}
		if a.Mode == "sharescript" && i > 0 {
			// the second tag shares the Script table of the first: same language systems
			one.Langs = append([]LangCase{}, c.Scripts[0].Langs...)
			c.Scripts = append(c.Scripts, one)
			continue
		}
		if sh.Def != "none" {
			one.Langs = append(one.Langs, ls("", sh.Def))
		}
		seen := map[string]bool{}
		for _, kind := range sh.Langs {
			l := langs[rng.Intn(len(langs))]
			for seen[l] {
				l = langs[rng.Intn(len(langs))]
			}
			seen[l] = true
			one.Langs = append(one.Langs, ls(l, kind))
		}
		c.Scripts = append(c.Scripts, one)
	}
	return c
}

func genTags(s *sink, repo, tlcCases string) {
	scripts, langs := tagTables(repo)
	rng := vio.Rand(11)
	k := 0
	for _, a := range vio.ReadLines[AbsCase](tlcCases) {
		if a.Part == "scripts" {
			s.add(concretiseScripts(a, k, scripts, langs, vio.Rand(int64(7000+k))), repo)
			k++
		}
	}
	// (1) every script with its default language system and every language of the table, each
	// language system with its own required feature and feature list
	for si, sc := range scripts {
		c := Case{Kind: "tagscript", Script: sc, Gpos: si%2 == 1}
		c.Langs = append(c.Langs, LangCase{Lang: "", Req: 0xFFFF, Feat: []int{0}})
		for li, l := range langs {
			c.Langs = append(c.Langs, LangCase{Lang: l, Req: li + 1, Feat: []int{li + 1, (li * 7) % (len(langs) + 1)}})
		}
		s.add(c, repo)
	}
	// (2) every script alone (default only), every language alone under a random script
	for _, sc := range scripts {
		s.add(Case{Kind: "tagscript", Script: sc, Langs: []LangCase{{Lang: "", Req: 3, Feat: []int{1, 2}}}}, repo)
	}
	for _, l := range langs {
		sc := scripts[rng.Intn(len(scripts))]
		s.add(Case{Kind: "tagscript", Script: sc, Langs: []LangCase{{Lang: l, Req: 0xFFFF, Feat: []int{}}}}, repo)
	}
	// (3) random pairs without a default language system
	n := 200
	if vio.Thorough() {
		n = 5000
	}
	for i := 0; i < n; i++ {
		c := Case{Kind: "tagscript", Script: scripts[rng.Intn(len(scripts))], Gpos: rng.Intn(2) == 0}
		seen := map[string]bool{}
		for k := 1 + rng.Intn(3); k > 0; k-- {
			l := langs[rng.Intn(len(langs))]
			if seen[l] {
				continue
			}
			seen[l] = true
			c.Langs = append(c.Langs, LangCase{Lang: l, Req: rng.Intn(4), Feat: []int{rng.Intn(4)}})
		}
		s.add(c, repo)
	}

	// (4) extension-less tags: the forward image of every (script, default) and (latn|script, language)
	// pair with the private-use part removed, mapped back in fresh processes
	baseSet := map[string]bool{}
	collect := func(sc string, ls []string) {
		spec := namex.ScriptSpec{Script: sc}
		for _, l := range ls {
			spec.Langs = append(spec.Langs, namex.LangSpec{Lang: l, Required: 0xFFFF, Features: []int{0}})
		}
		func() {
			defer func() { recover() }()
			info, err := gtab.Read(bytes.NewReader(namex.BuildLayout([]namex.ScriptSpec{spec}, 1)), gtab.TypeGsub)
			if err != nil {
				return
			}
			for t := range info.ScriptList {
				if b, ok := baseOf(t); ok {
					baseSet[b.String()] = true
				}
			}
		}()
	}
	for _, sc := range scripts {
		collect(sc, []string{""})
	}
	collect("latn", langs)
	if vio.Thorough() {
		for _, sc := range []string{"arab", "cyrl", "deva", "dev2", "hani", "DFLT"} {
			collect(sc, langs)
		}
	}
	var bases []string
	for b := range baseSet {
		bases = append(bases, b)
	}
	sort.Strings(bases)
	runs := 4
	res := tagBackMany(bases, runs)
	for _, b := range bases {
		c := Case{Kind: "tagback", Base: b, Runs: runs}
		c.ID = s.next
		s.next++
		s.cases.Emit(c)
		emitTagBack(s.out, c, res[b])
	}
}
