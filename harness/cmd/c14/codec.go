package main

import (
	"encoding/json"
	"fmt"
	"math/rand"
	"os"

	"golang.org/x/image/font/sfnt"
	"golang.org/x/text/encoding/charmap"
	"seehuhn.de/go/sfnt/mac"
	"seehuhn.de/go/sfnt/name"
	"verif.local/harness/internal/namex"
	"verif.local/harness/internal/vio"
)

// loadMacHigh fills macHigh with the Unicode consortium's Mac OS Roman mapping as shipped in
// golang.org/x/text (bytes 128..255).  Used only to draw strings of the repertoire.
func loadMacHigh() {
	if macHigh != nil {
		return
	}
	for b := 128; b < 256; b++ {
		macHigh = append(macHigh, int(charmap.Macintosh.DecodeByte(byte(b))))
	}
}

// stdGlyphNames asks golang.org/x/image for the 258 standard Macintosh glyph names: a font
// whose format-2 "post" table maps glyph i to index i.
func stdGlyphNames() [][]int {
	post := make([]byte, 32)
	post[1] = 2
	post = append(post, 1, 2)
	for i := 0; i < 258; i++ {
		post = append(post, byte(i>>8), byte(i))
	}
	f, err := sfnt.Parse(namex.BuildFont(258, post, nil))
	if err != nil {
		vio.Fatal(fmt.Errorf("x/image rejects the probe font: %v", err))
	}
	var res [][]int
	for i := 0; i < 258; i++ {
		s, err := f.GlyphName(nil, sfnt.GlyphIndex(i))
		if err != nil {
			vio.Fatal(err)
		}
		res = append(res, ints([]byte(s)))
	}
	return res
}

func printData() {
	loadMacHigh()
	b, _ := json.Marshal(map[string]any{"macHigh": macHigh, "std": stdGlyphNames()})
	os.Stdout.Write(b)
	os.Stdout.Write([]byte("\n"))
}

// runMacAll: every byte through mac.Decode / mac.DecodeOne / mac.Encode, and every rune of the
// repertoire (taken from what Decode produced and from x/text) through mac.Encode / mac.Decode.
func runMacAll(out *vio.Out, c Case) {
	loadMacHigh()
	for b := 0; b < 256; b++ {
		e := ev{"ev": "macbyte", "case": c.ID, "b": b, "panic": false, "cps": []int{}, "one": -1, "back": []int{}}
		func() {
			defer func() {
				if recover() != nil {
					e["panic"] = true
				}
			}()
			s := mac.Decode([]byte{byte(b)})
			e["cps"] = runes(s)
			e["one"] = int(mac.DecodeOne(byte(b)))
			e["back"] = ints(mac.Encode(s))
		}()
		out.Emit(e)
	}
	rep := map[int]bool{}
	for i := 0; i < 128; i++ {
		rep[i] = true
	}
	for _, cp := range macHigh {
		rep[cp] = true
	}
	for b := 128; b < 256; b++ {
		rep[int(mac.DecodeOne(byte(b)))] = true
	}
	for cp := 0; cp < 0x110000; cp++ {
		if !rep[cp] {
			continue
		}
		e := ev{"ev": "macrune", "case": c.ID, "cp": cp, "panic": false, "enc": []int{}, "back": []int{}}
		func() {
			defer func() {
				if recover() != nil {
					e["panic"] = true
				}
			}()
			enc := mac.Encode(string(rune(cp)))
			e["enc"] = ints(enc)
			e["back"] = runes(mac.Decode(enc))
		}()
		out.Emit(e)
	}
}

func runMacStr(out *vio.Out, c Case) {
	e := ev{"ev": "macstr", "case": c.ID, "bytes": c.Bytes, "panic": false, "cps": []int{}, "back": []int{}}
	func() {
		defer func() {
			if recover() != nil {
				e["panic"] = true
			}
		}()
		s := mac.Decode(bytesOf(c.Bytes))
		e["cps"] = runes(s)
		e["back"] = ints(mac.Encode(s))
	}()
	out.Emit(e)
}

func be(units []int) []int {
	res := []int{}
	for _, u := range units {
		res = append(res, u>>8, u&255)
	}
	return res
}

// runCodecHist: a history of codec calls (NameCodec.tla, part "codech").  Every result is kept
// as the API handed it out (the byte slice, the string, the *name.Info) and looked at twice:
// right after the call ("first") and after all later calls of the history ("final").
//
//	ME mac.Encode(string of a runes)      MD mac.Decode(a bytes)
//	NE name.Info.Encode of one Macintosh and one Windows string of a runes each
//	ND name.Decode of a table the harness wrote (two records of a characters); the table bytes
//	   are overwritten afterwards: a decoded Info must not live in its input
func runCodecHist(out *vio.Out, c Case) {
	loadMacHigh()
	discoverLangs()
	rng := rand.New(rand.NewSource(c.RSeed))
	mlang, wlang := 0, 0x409
	mtag, wtag := "en", "en-US"
	if len(macLangs) > 0 {
		mlang, mtag = macLangs[0].ID, macLangs[0].Tag
	}
	for _, l := range winLangs {
		if l.ID == 0x409 {
			wtag = l.Tag
		}
	}
	type kept struct {
		op            string
		arg, arg2     []int
		first, first2 []int
		bytes         []byte
		str           string
		info          *name.Info
	}
	var all []*kept
	bad := false
	for _, o := range c.Ops {
		k := &kept{op: o.Op, arg: []int{}, arg2: []int{}, first: []int{}, first2: []int{}}
		func() {
			defer func() {
				if recover() != nil {
					bad = true
				}
			}()
			macStr := func() []int {
				cps := make([]int, o.A)
				for i := range cps {
					cps[i] = randCP(rng, "mac")
				}
				return cps
			}
			switch o.Op {
			case "ME":
				k.arg = macStr()
				k.bytes = mac.Encode(str(k.arg))
				k.first = ints(k.bytes)
			case "MD":
				for i := 0; i < o.A; i++ {
					k.arg = append(k.arg, rng.Intn(256))
				}
				k.str = mac.Decode(bytesOf(k.arg))
				k.first = runes(k.str)
			case "NE":
				k.arg = macStr()
				for i := 0; i < o.A; i++ {
					k.arg2 = append(k.arg2, randCP(rng, "bmp"))
				}
				info := buildInfo([]Entry{{P: 1, T: mtag, N: 1, S: k.arg}, {P: 3, T: wtag, N: 1, S: k.arg2}})
				k.bytes = info.Encode(1)
				k.first = ints(k.bytes)
			case "ND":
				var units []int
				for i := 0; i < o.A; i++ {
					k.arg = append(k.arg, rng.Intn(256))
					units = append(units, randCP(rng, "bmp"))
				}
				k.arg2 = be(units)
				tbl := namex.BuildName([]namex.RawRec{
					{Platform: 1, Encoding: 0, Language: mlang, NameID: 1, Payload: bytesOf(k.arg)},
					{Platform: 3, Encoding: 1, Language: wlang, NameID: 1, Payload: bytesOf(k.arg2)}}, 0)
				info, err := name.Decode(tbl)
				if err != nil {
					bad = true
					return
				}
				k.info = info
				for i := range tbl {
					tbl[i] = 0x55
				}
				k.first, k.first2 = famOf(info, mtag, wtag)
			default:
				vio.Fatal("unknown codec history op " + o.Op)
			}
		}()
		all = append(all, k)
	}
	calls := []ev{}
	for _, k := range all {
		final, final2 := []int{}, []int{}
		switch k.op {
		case "ME", "NE":
			final = ints(k.bytes)
		case "MD":
			final = runes(k.str)
		case "ND":
			if k.info != nil {
				final, final2 = famOf(k.info, mtag, wtag)
			}
		}
		calls = append(calls, ev{"op": k.op, "arg": k.arg, "arg2": k.arg2, "first": k.first, "first2": k.first2,
			"final": final, "final2": final2})
	}
	out.Emit(ev{"ev": "codechist", "case": c.ID, "failed": bad, "calls": calls})
}

// famOf returns name id 1 of the Macintosh and the Windows table of a decoded Info.
func famOf(info *name.Info, mtag, wtag string) (m, w []int) {
	m, w = []int{}, []int{}
	if t := info.Mac[mtag]; t != nil {
		m = runes(t.Family)
	}
	if t := info.Windows[wtag]; t != nil {
		w = runes(t.Family)
	}
	return
}

func genCodec(s *sink, tlcCases string) {
	loadMacHigh()
	s.add(Case{Kind: "macall"}, "")
	for i, a := range vio.ReadLines[AbsCase](tlcCases) {
		if a.Part == "codechist" {
			s.add(Case{Kind: "codechist", Ops: a.Ops, RSeed: vio.Seed()*7919 + int64(i)}, "")
		}
	}
	// UTF-16 unit sequences enumerated by TLC (surrogate boundaries), as Windows records
	for _, a := range vio.ReadLines[AbsCase](tlcCases) {
		if a.Part != "units" {
			continue
		}
		s.add(Case{Kind: "nraw", Plat: 3, Bytes: be(a.Units)}, "")
	}
	// all 256 bytes in one Macintosh record, and each byte alone
	all := []int{}
	for b := 0; b < 256; b++ {
		all = append(all, b)
		s.add(Case{Kind: "nraw", Plat: 1, Bytes: []int{b}}, "")
	}
	s.add(Case{Kind: "nraw", Plat: 1, Bytes: all}, "")
	s.add(Case{Kind: "macstr", Bytes: all}, "")
	rng := vio.Rand(5)
	n := 300
	if vio.Thorough() {
		n = 5000
	}
	for i := 0; i < n; i++ {
		l := 1 + rng.Intn(40)
		if i%50 == 0 {
			l = 1000 + rng.Intn(3000)
		}
		bs := []int{}
		for j := 0; j < l; j++ {
			bs = append(bs, rng.Intn(256))
		}
		s.add(Case{Kind: "macstr", Bytes: bs}, "")
		s.add(Case{Kind: "nraw", Plat: 1, Bytes: bs}, "")
		// well-formed UTF-16: random scalar values, heavy on the edges
		var units []int
		for j := 0; j < l; j++ {
			var cp int
			switch rng.Intn(4) {
			case 0:
				cp = randCP(rng, "ascii")
			case 1:
				cp = randCP(rng, "astral")
			default:
				cp = randCP(rng, "bmp")
			}
			if cp >= 0x10000 {
				units = append(units, 0xD800+(cp-0x10000)>>10, 0xDC00+(cp-0x10000)&0x3FF)
			} else {
				units = append(units, cp)
			}
		}
		s.add(Case{Kind: "nraw", Plat: 3, Bytes: be(units)}, "")
		// arbitrary units (ill-formed sequences are outside the domain; TLC accepts any reply without panic)
		if i%4 == 0 {
			var raw []int
			for j := 0; j < 1+rng.Intn(6); j++ {
				raw = append(raw, []int{0xD800, 0xDBFF, 0xDC00, 0xDFFF, 0x41, 0xFFFF}[rng.Intn(6)])
			}
			bs := be(raw)
			if rng.Intn(3) == 0 {
				bs = append(bs, 0x41) // odd length
			}
			s.add(Case{Kind: "nraw", Plat: 3, Bytes: bs}, "")
		}
	}
}
