package main

import (
	"bytes"
	"fmt"
	"math/rand"
	"strconv"

	"golang.org/x/image/font/sfnt"
	"seehuhn.de/go/sfnt/post"
	"verif.local/harness/internal/namex"
	"verif.local/harness/internal/vio"
)

func bseqs(names []string) [][]int {
	res := [][]int{}
	for _, n := range names {
		res = append(res, ints([]byte(n)))
	}
	return res
}

// runPost: the list through post.Info.Encode, an independent walk of the bytes, post.Read,
// and (when asked) golang.org/x/image reading a whole font that carries the table.
func runPost(out *vio.Out, c Case) {
	var names []string
	if !c.Nil {
		names = []string{}
		for _, n := range c.Names {
			names = append(names, string(bytesOf(n)))
		}
	}
	postEvent(out, c.ID, names, c.Names, c.Nil, c.XI)
}

// postEvent passes names (the slice as the caller holds it, possibly aliasing storage of the
// library) to Encode and records what is written and read back; want is the value of the list
// kept independently by the harness.  Returns the encoded table.
func postEvent(out *vio.Out, id int, names []string, want [][]int, isNil bool, xi bool) []byte {
	in := want
	if in == nil || isNil {
		in = [][]int{}
	}
	e := ev{"ev": "post", "case": id, "names": in, "nil": isNil, "panic": false}
	var data []byte
	func() {
		defer func() {
			if recover() != nil {
				e["panic"] = true
			}
		}()
		info := &post.Info{ItalicAngle: -9.5, UnderlinePosition: -100, UnderlineThickness: 50, Names: names}
		data = info.Encode()
	}()
	w := namex.WalkPost(data)
	strs := [][]int{}
	for _, s := range w.Strings {
		strs = append(strs, ints(s))
	}
	e["walkok"] = w.OK
	e["ver"] = []int{w.Version[0], w.Version[1]}
	e["total"] = w.Total
	e["ng"] = w.NumGlyphs
	e["index"] = w.Index
	e["strings"] = strs
	e["trailing"] = w.Trailing

	e["readfail"] = false
	e["dec"] = [][]int{}
	func() {
		defer func() {
			if recover() != nil {
				e["readfail"] = true
			}
		}()
		info2, err := post.Read(bytes.NewReader(data))
		if err != nil || info2 == nil {
			e["readfail"] = true
			return
		}
		e["dec"] = bseqs(info2.Names)
	}()

	e["xiused"] = false
	e["xifail"] = false
	e["xi"] = [][]int{}
	if xi && len(in) > 0 && data != nil {
		e["xiused"] = true
		func() {
			defer func() {
				if recover() != nil {
					e["xifail"] = true
				}
			}()
			f, err := sfnt.Parse(namex.BuildFont(len(in), data, nil))
			if err != nil {
				e["xifail"] = true
				return
			}
			var got []string
			var buf sfnt.Buffer
			for i := range in {
				s, err := f.GlyphName(&buf, sfnt.GlyphIndex(i))
				if err != nil {
					e["xifail"] = true
					return
				}
				got = append(got, s)
			}
			e["xi"] = bseqs(got)
		}()
	}
	out.Emit(e)
	return data
}

// runPostHist: a glyph-name list with a history (NameCodec.tla, part "posth").  The list handed to
// Encode is the very slice earlier calls produced: a fresh one, the one post.Read returned, a
// re-slice of it, an append to it.  The harness keeps the expected VALUE of the list separately
// (deep copies) and every Encode is judged like a fresh list would be.
//
//	E  Encode the current list (+ walk, Read back)          R  Read the table written last, continue with the
//	S  re-slice: 1 [:1], 2 [:len-1], 3 [1:len-1], 4 [1:]        slice Read returned (event postread)
//	A  append (full slice expression, never writes into     M  overwrite the first name (skipped while the list
//	   the aliased array): 1 next standard name, 2 custom      aliases the shared slice of a version 1 Read:
//	                                                            the documentation of Read forbids it)
//
// A final Encode (with golang.org/x/image as second reader) ends every history.
func runPostHist(out *vio.Out, c Case) {
	st := std()
	strs := func(a [][]int) []string {
		res := make([]string, len(a))
		for i, n := range a {
			res[i] = string(bytesOf(n))
		}
		return res
	}
	clone := func(a [][]int) [][]int { return append([][]int{}, a...) }
	custom := func(s string) []int { return ints([]byte(s)) }
	var want [][]int
	isNil := false
	switch c.Init {
	case "std":
		want = clone(st)
	case "stdp":
		want = clone(st[:257])
	case "cust":
		want = [][]int{custom("~c1"), custom("~c2.alt")}
	case "mix":
		want = [][]int{st[2], custom("~c1"), st[1]}
	case "nil":
		isNil = true
	default:
		vio.Fatal("unknown init " + c.Init)
	}
	var cur []string
	if !isNil {
		cur = strs(want)
	}
	var last []byte
	var lastWant [][]int
	lastNil := false
	shared := false
	for _, o := range c.Ops {
		switch o.Op {
		case "E":
			last = postEvent(out, c.ID, cur, want, isNil, false)
			lastWant, lastNil = clone(want), isNil
		case "R":
			if last == nil {
				continue
			}
			e := ev{"ev": "postread", "case": c.ID, "names": lastWant, "nil": lastNil, "readfail": false, "dec": [][]int{}}
			if lastNil || lastWant == nil {
				e["names"] = [][]int{}
			}
			var got []string
			func() {
				defer func() {
					if recover() != nil {
						e["readfail"] = true
					}
				}()
				info, err := post.Read(bytes.NewReader(last))
				if err != nil || info == nil {
					e["readfail"] = true
					return
				}
				got = info.Names
				e["dec"] = bseqs(got)
			}()
			out.Emit(e)
			if e["readfail"].(bool) {
				return
			}
			cur, want, isNil = got, clone(lastWant), lastNil
			v := namex.WalkPost(last).Version
			shared = v == [2]int{1, 0}
		case "S":
			if isNil || len(want) < 2 || len(cur) != len(want) {
				continue
			}
			n := len(want)
			lo, hi := 0, n-1
			switch o.A {
			case 1:
				hi = 1
			case 3:
				lo = 1
			case 4:
				lo, hi = 1, n
			}
			cur, want = cur[lo:hi], clone(want[lo:hi])
		case "A":
			if isNil {
				continue
			}
			nm := custom("~app")
			if o.A == 1 {
				nm = st[len(want)%258]
			}
			cur = append(cur[:len(cur):len(cur)], string(bytesOf(nm)))
			want = append(clone(want), nm)
			shared = false
		case "M":
			if isNil || len(want) < 1 || len(cur) != len(want) || shared {
				continue
			}
			cur[0] = "~mut"
			want = clone(want)
			want[0] = custom("~mut")
		default:
			vio.Fatal("unknown history op " + o.Op)
		}
	}
	postEvent(out, c.ID, cur, want, isNil, true)
}

var stdCache [][]int

func std() [][]int {
	if stdCache == nil {
		stdCache = stdGlyphNames()
	}
	return stdCache
}

func customName(rng *rand.Rand, n int) []int {
	res := make([]int, n)
	for i := range res {
		switch rng.Intn(12) {
		case 0:
			res[i] = 128 + rng.Intn(128)
		case 1:
			res[i] = rng.Intn(33)
		default:
			res[i] = int("abcdefghijklmnopqrstuvwxyzABCDEFGHIJKLMNOPQRSTUVWXYZ0123456789._"[rng.Intn(64)])
		}
	}
	return res
}

// fresh returns a custom name that is not a standard name (a leading "~" never occurs there).
func fresh(rng *rand.Rand, k int) []int {
	return append([]int{'~'}, ints([]byte(fmt.Sprintf("g%d.", k)))...)
}

// glyph classes of the abstract cases printed by TLC (NameCodec.tla, PostGen):
//
//	"own"    the standard name whose index equals the glyph's position (if there is one)
//	"other"  a standard name at another position
//	"custom" a new custom name, "dup" the previous custom name again, "empty" the empty name,
//	"max"    a custom name of 255 bytes, "one" a custom name of one byte
func concretisePost(rng *rand.Rand, a AbsCase) Case {
	s := std()
	var names [][]int
	switch a.Mode {
	case "after258":
		names = append(names, s...)
	case "after257":
		names = append(names, s[:257]...)
	case "nil":
		return Case{Kind: "post", Nil: true, XI: false}
	}
	var lastCustom []int
	k := 0
	for _, g := range a.Glyphs {
		pos := len(names)
		var n []int
		switch g {
		case "own":
			if pos < 258 {
				n = s[pos]
			} else {
				n = s[rng.Intn(258)]
			}
		case "other":
			for {
				j := rng.Intn(258)
				if j != pos {
					n = s[j]
					break
				}
			}
		case "custom":
			k++
			n = append(fresh(rng, k), customName(rng, rng.Intn(20))...)
			lastCustom = n
		case "dup":
			if lastCustom == nil {
				k++
				lastCustom = fresh(rng, k)
			}
			n = lastCustom
		case "empty":
			n = []int{}
		case "max":
			k++
			n = append(fresh(rng, k), customName(rng, 255)...)[:255]
			lastCustom = n
		case "one":
			n = []int{int("~#@!"[rng.Intn(4)])}
		default:
			vio.Fatal("unknown glyph class " + g)
		}
		names = append(names, n)
	}
	if names == nil {
		names = [][]int{}
	}
	return Case{Kind: "post", Names: names, XI: true}
}

func genPost(s *sink, tlcCases string) {
	for i, a := range vio.ReadLines[AbsCase](tlcCases) {
		if a.Part == "posthist" {
			s.add(Case{Kind: "posthist", Init: a.Init, Ops: a.Ops}, "")
		}
		if a.Part != "post" {
			continue
		}
		s.add(concretisePost(vio.Rand(int64(2000+i)), a), "")
	}
	st := std()
	rng := vio.Rand(9)
	cp := func(a [][]int) [][]int { return append([][]int(nil), a...) }
	// the standard list, exactly / permuted / truncated / extended / reversed
	s.add(Case{Kind: "post", Names: cp(st), XI: true}, "")
	for i := 0; i < 12; i++ {
		p := cp(st)
		a, b := rng.Intn(258), rng.Intn(258)
		if i == 0 {
			a, b = 0, 257
		}
		if i == 1 {
			a, b = 256, 257
		}
		if a == b {
			b = (a + 1) % 258
		}
		p[a], p[b] = p[b], p[a]
		s.add(Case{Kind: "post", Names: p, XI: true}, "")
	}
	rev := cp(st)
	for i, j := 0, 257; i < j; i, j = i+1, j-1 {
		rev[i], rev[j] = rev[j], rev[i]
	}
	s.add(Case{Kind: "post", Names: rev, XI: true}, "")
	for _, n := range []int{1, 2, 100, 257} {
		s.add(Case{Kind: "post", Names: cp(st[:n]), XI: true}, "")
	}
	s.add(Case{Kind: "post", Names: append(cp(st), st[0]), XI: true}, "")
	s.add(Case{Kind: "post", Names: append(cp(st), fresh(rng, 1)), XI: true}, "")
	one := cp(st)
	one[100] = fresh(rng, 2)
	s.add(Case{Kind: "post", Names: one, XI: true}, "")
	// nil and empty
	s.add(Case{Kind: "post", Nil: true}, "")
	s.add(Case{Kind: "post", Names: [][]int{}}, "")
	// subsets of the standard names in random order mixed with custom names of every length class
	n := 60
	if vio.Thorough() {
		n = 1500
	}
	for i := 0; i < n; i++ {
		l := 1 + rng.Intn(40)
		if i%10 == 0 {
			l = 200 + rng.Intn(400)
		}
		var names [][]int
		for j := 0; j < l; j++ {
			switch rng.Intn(6) {
			case 0, 1, 2:
				names = append(names, st[rng.Intn(258)])
			case 3:
				names = append(names, append(fresh(rng, j), customName(rng, rng.Intn(30))...))
			case 4:
				ln := []int{0, 1, 2, 127, 128, 254, 255}[rng.Intn(7)]
				names = append(names, customName(rng, ln))
			default:
				if j > 0 {
					names = append(names, names[rng.Intn(j)])
				} else {
					names = append(names, st[0])
				}
			}
		}
		s.add(Case{Kind: "post", Names: names, XI: true}, "")
	}
	// 255-byte names, more than 64 KiB of Pascal strings in total (no 16-bit offset in this format)
	{
		var names [][]int
		for j := 0; j < 300; j++ {
			nm := append(ints([]byte("~"+strconv.Itoa(j)+".")), customName(rng, 255)...)[:255]
			names = append(names, nm)
			if j%3 == 0 {
				names = append(names, st[j%258])
			}
		}
		s.add(Case{Kind: "post", Names: names, XI: true}, "")
	}
	// large counts.  At most 65278 strings can be addressed by a format-2 table (indices 258..65535);
	// golang.org/x/image reads indices up to 32767 only and is asked up to 6000 glyphs (linear scan per name).
	type big struct {
		n, custom int
		xi        bool
	}
	// 32509 / 32510 / 32511 custom names: the last index is 32766 / 32767 / 32768 (16-bit sign boundary)
	bigs := []big{{3000, 1500, true}, {5000, 5000, true}, {32509, 32509, false}, {32530, 32510, false}, {32511, 32511, false}}
	if vio.Thorough() {
		bigs = append(bigs, big{20000, 20000, false}, big{40000, 33000, false}, big{65535, 65278, false}, big{65535, 300, false}, big{65278, 65278, false})
	}
	for _, b := range bigs {
		var names [][]int
		for j := 0; j < b.n; j++ {
			if j < b.custom {
				names = append(names, ints([]byte("~"+strconv.FormatInt(int64(j), 36))))
			} else {
				names = append(names, st[j%258])
			}
		}
		rng.Shuffle(len(names), func(i, j int) { names[i], names[j] = names[j], names[i] })
		s.add(Case{Kind: "post", Names: names, XI: b.xi}, "")
	}
}
