// Command vmut enumerates syntactic mutation sites of Go source files and applies one of them.
//
//	vmut list FILE...            one JSON line per site: {"file","id","line","func","kind","old","new"}
//	vmut apply FILE ID           prints the mutated file text on stdout
//
// The mutation operators are the usual small slips: relational operator boundaries (< <= > >=, == !=),
// && / ||, + / -, integer literals +-1, removed "+ 1" / "- 1", break / continue, removed negation,
// ++ / --, removed assignment statement of the form x op= y.  Text is spliced at token positions so that the
// patch touches one token.  The tool is a measuring instrument for the checks of /verif (bin/vmutsweep); it
// decides nothing.
package main

import (
	"encoding/json"
	"fmt"
	"go/ast"
	"go/parser"
	"go/token"
	"os"
	"strconv"
)

type site struct {
	File string `json:"file"`
	ID   int    `json:"id"`
	Line int    `json:"line"`
	Func string `json:"func"`
	Kind string `json:"kind"`
	Old  string `json:"old"`
	New  string `json:"new"`
	off  int
	n    int
}

func sites(path string) ([]site, []byte) {
	src, err := os.ReadFile(path)
	if err != nil {
		panic(err)
	}
	fset := token.NewFileSet()
	f, err := parser.ParseFile(fset, path, src, 0)
	if err != nil {
		panic(err)
	}
	var out []site
	add := func(fn string, pos token.Pos, n int, kind, repl string) {
		p := fset.Position(pos)
		out = append(out, site{File: path, ID: len(out), Line: p.Line, Func: fn, Kind: kind,
			Old: string(src[p.Offset : p.Offset+n]), New: repl, off: p.Offset, n: n})
	}
	swap := map[token.Token][]string{
		token.LSS: {"<="}, token.LEQ: {"<"}, token.GTR: {">="}, token.GEQ: {">"},
		token.EQL: {"!="}, token.NEQ: {"=="}, token.LAND: {"||"}, token.LOR: {"&&"},
		token.ADD: {"-"}, token.SUB: {"+"},
	}
	for _, d := range f.Decls {
		fd, ok := d.(*ast.FuncDecl)
		if !ok || fd.Body == nil {
			continue
		}
		name := fd.Name.Name
		if fd.Recv != nil && len(fd.Recv.List) > 0 {
			switch t := fd.Recv.List[0].Type.(type) {
			case *ast.StarExpr:
				if id, ok := t.X.(*ast.Ident); ok {
					name = id.Name + "." + name
				}
			case *ast.Ident:
				name = t.Name + "." + name
			}
		}
		ast.Inspect(fd.Body, func(n ast.Node) bool {
			switch x := n.(type) {
			case *ast.BinaryExpr:
				for _, r := range swap[x.Op] {
					add(name, x.OpPos, len(x.Op.String()), "binop", r)
				}
				// drop "+ 1" / "- 1"
				if x.Op == token.ADD || x.Op == token.SUB {
					if bl, ok := x.Y.(*ast.BasicLit); ok && bl.Kind == token.INT && bl.Value == "1" {
						add(name, x.OpPos, int(bl.End()-x.OpPos), "drop1", "")
					}
				}
			case *ast.BasicLit:
				if x.Kind == token.INT {
					v, err := strconv.ParseInt(x.Value, 0, 64)
					if err == nil && v >= 0 && v < 1<<31 {
						add(name, x.Pos(), len(x.Value), "lit", strconv.FormatInt(v+1, 10))
						if v > 0 {
							add(name, x.Pos(), len(x.Value), "lit", strconv.FormatInt(v-1, 10))
						}
					}
				}
			case *ast.BranchStmt:
				if x.Label == nil {
					if x.Tok == token.BREAK {
						add(name, x.Pos(), 5, "branch", "continue")
					} else if x.Tok == token.CONTINUE {
						add(name, x.Pos(), 8, "branch", "break")
					}
				}
			case *ast.UnaryExpr:
				if x.Op == token.NOT {
					add(name, x.OpPos, 1, "not", "")
				}
			case *ast.IncDecStmt:
				if x.Tok == token.INC {
					add(name, x.TokPos, 2, "incdec", "--")
				} else {
					add(name, x.TokPos, 2, "incdec", "++")
				}
			case *ast.AssignStmt:
				if x.Tok == token.ADD_ASSIGN {
					add(name, x.TokPos, 2, "assignop", "-=")
				} else if x.Tok == token.SUB_ASSIGN {
					add(name, x.TokPos, 2, "assignop", "+=")
				} else if x.Tok == token.OR_ASSIGN {
					add(name, x.TokPos, 2, "assignop", "=")
				}
			}
			return true
		})
	}
	return out, src
}

func main() {
	if len(os.Args) < 3 {
		fmt.Fprintln(os.Stderr, "usage: vmut list FILE... | vmut apply FILE ID")
		os.Exit(2)
	}
	switch os.Args[1] {
	case "list":
		enc := json.NewEncoder(os.Stdout)
		for _, p := range os.Args[2:] {
			ss, _ := sites(p)
			for _, s := range ss {
				enc.Encode(s)
			}
		}
	case "apply":
		ss, src := sites(os.Args[2])
		id, _ := strconv.Atoi(os.Args[3])
		s := ss[id]
		os.Stdout.Write(src[:s.off])
		os.Stdout.WriteString(s.New)
		os.Stdout.Write(src[s.off+s.n:])
	}
}
