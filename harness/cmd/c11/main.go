// Command c11 drives the real package seehuhn.de/go/sfnt/glyf and records one event per
// API call (DESIGN.md, C11).  The recorded trace is judged by TLC against
// spec/GlyfTrace.tla; this program compares nothing.
//
//	c11 tlc <cases.ndjson> <out.ndjson>   encoded glyph sets printed by TLC from spec/Glyf.tla
//	c11 lib <cases.ndjson> <out.ndjson>   glyph sets built through the library API
//	c11 one <case.json> <out.ndjson>      a single case of either kind (replay)
//
// Case: {"id":n, "src":"tlc", "fmt":0|1, "loca":[bytes], "glyf":[bytes]}
//
//	or {"id":n, "src":"lib", "lib":{n, target, seed, nilevery, compodds}}
package main

import (
	"encoding/json"
	"fmt"
	"math/rand"
	"os"

	"seehuhn.de/go/sfnt/glyf"
	"seehuhn.de/go/sfnt/glyph"
	"verif.local/harness/internal/glyfx"
	"verif.local/harness/internal/vio"
)

// Case is one harness-level case.
type Case struct {
	ID   int            `json:"id"`
	Src  string         `json:"src"`
	Fmt  int            `json:"fmt"`
	Loca []int          `json:"loca"`
	Glyf []int          `json:"glyf"`
	Lib  *glyfx.LibSpec `json:"lib,omitempty"`
	Info map[string]any `json:"info,omitempty"`
}

type ev map[string]any

const maxPerGlyph = 48 // glyphs of a large set that get simple/comps/fix calls

func errText(err error) string {
	if err == nil {
		return ""
	}
	return err.Error()
}

func decodeEvent(out *vio.Out, id int, enc *glyf.Encoded) glyf.Glyphs {
	var gg glyf.Glyphs
	var err error
	p, msg := glyfx.Safe(func() { gg, err = glyf.Decode(enc) })
	ok := !p && err == nil
	e := ev{"case": id, "ev": "decode", "ok": ok, "panic": p, "err": errText(err) + msg, "glyphs": []glyfx.Glyph{}}
	if ok {
		e["glyphs"] = glyfx.ProjectAll(gg)
	}
	out.Emit(e)
	if !ok {
		return nil
	}
	return gg
}

func encodeEvent(out *vio.Out, id int, gg glyf.Glyphs) *glyf.Encoded {
	var enc *glyf.Encoded
	p, msg := glyfx.Safe(func() { enc = gg.Encode() })
	e := ev{"case": id, "ev": "encode", "panic": p, "err": msg, "fmt": -1, "loca": []int{}, "glyf": []int{}}
	if !p && enc != nil {
		e["fmt"] = int(enc.LocaFormat)
		e["loca"] = glyfx.Ints(enc.LocaData)
		e["glyf"] = glyfx.Ints(enc.GlyfData)
	}
	out.Emit(e)
	if p {
		return nil
	}
	return enc
}

func pointsOf(info *glyf.GlyphInfo) [][][]int {
	res := make([][][]int, len(info.Contours))
	for i, c := range info.Contours {
		res[i] = make([][]int, len(c))
		for j, pt := range c {
			on := 0
			if pt.OnCurve {
				on = 1
			}
			res[i][j] = []int{int(pt.X), int(pt.Y), on}
		}
	}
	return res
}

// perGlyph records SimpleGlyph.Decode, Components and FixComponents for glyph i.
func perGlyph(out *vio.Out, id int, gg glyf.Glyphs, i int) {
	g := gg[i]
	if g != nil {
		if sg, isSimple := g.Data.(glyf.SimpleGlyph); isSimple {
			var info *glyf.GlyphInfo
			var err error
			p, msg := glyfx.Safe(func() { info, err = sg.Decode() })
			e := ev{"case": id, "ev": "simple", "i": i, "ok": !p && err == nil && info != nil, "panic": p,
				"err": errText(err) + msg, "contours": [][][]int{}, "instr": []int{}}
			if !p && err == nil && info != nil {
				e["contours"] = pointsOf(info)
				e["instr"] = glyfx.Ints(info.Instructions)
			}
			out.Emit(e)
		}
	}

	var ids []glyph.ID
	p, msg := glyfx.Safe(func() { ids = g.Components() })
	idl := make([]int, len(ids))
	for j, x := range ids {
		idl[j] = int(x)
	}
	out.Emit(ev{"case": id, "ev": "comps", "i": i, "panic": p, "err": msg, "isnil": ids == nil, "ids": idl})

	// a total map on the ids of this glyph (plus a pair that must not matter)
	m := map[glyph.ID]glyph.ID{}
	pairs := [][]int{}
	for _, x := range ids {
		if _, done := m[x]; !done {
			nw := glyph.ID((int(x)*7 + 3 + id + i) % 65536)
			m[x] = nw
			pairs = append(pairs, []int{int(x), int(nw)})
		}
	}
	if _, done := m[60000]; !done {
		m[60000] = 1
		pairs = append(pairs, []int{60000, 1})
	}
	var g2 *glyf.Glyph
	p, msg = glyfx.Safe(func() { g2 = g.FixComponents(m) })
	out.Emit(ev{"case": id, "ev": "fix", "i": i, "panic": p, "err": msg, "map": pairs, "glyph": glyfx.Project(g2)})
}

func sampleGlyphs(n int, rng *rand.Rand) []int {
	if n <= maxPerGlyph {
		res := make([]int, n)
		for i := range res {
			res[i] = i
		}
		return res
	}
	seen := map[int]bool{}
	var res []int
	for _, i := range []int{0, 1, 2, n - 2, n - 1} {
		if !seen[i] {
			seen[i] = true
			res = append(res, i)
		}
	}
	for len(res) < maxPerGlyph {
		i := rng.Intn(n)
		if !seen[i] {
			seen[i] = true
			res = append(res, i)
		}
	}
	return res
}

func runCase(out *vio.Out, c Case) {
	rng := rand.New(rand.NewSource(vio.Seed()*7919 + int64(c.ID)))
	var gg glyf.Glyphs
	switch c.Src {
	case "tlc":
		enc := &glyf.Encoded{GlyfData: glyfx.Bytes(c.Glyf), LocaData: glyfx.Bytes(c.Loca), LocaFormat: int16(c.Fmt)}
		out.Emit(ev{"case": c.ID, "ev": "reset", "fmt": c.Fmt, "loca": glyfx.Ints(enc.LocaData), "glyf": glyfx.Ints(enc.GlyfData)})
		gg = decodeEvent(out, c.ID, enc)
		if gg == nil {
			return
		}
	case "lib":
		if c.Lib == nil {
			vio.Fatal("lib case without parameters")
		}
		gg = glyfx.Build(*c.Lib)
		out.Emit(ev{"case": c.ID, "ev": "resetlib", "glyphs": glyfx.ProjectAll(gg)})
	default:
		vio.Fatal("unknown case source " + c.Src)
	}

	// encode what is in memory, decode it again (round trip)
	enc2 := encodeEvent(out, c.ID, gg)
	if enc2 == nil {
		return
	}
	gg2 := decodeEvent(out, c.ID, enc2)
	if gg2 == nil {
		return
	}
	for _, i := range sampleGlyphs(len(gg2), rng) {
		perGlyph(out, c.ID, gg2, i)
	}
}

func main() {
	if len(os.Args) != 4 {
		fmt.Fprintln(os.Stderr, "usage: c11 tlc|lib|one <cases> <out.ndjson>")
		os.Exit(3)
	}
	out := vio.NewOut(os.Args[3])
	defer out.Close()
	switch os.Args[1] {
	case "tlc", "lib":
		for _, c := range vio.ReadLines[Case](os.Args[2]) {
			if c.Src == "" {
				c.Src = os.Args[1]
			}
			runCase(out, c)
		}
	case "one":
		b, err := os.ReadFile(os.Args[2])
		if err != nil {
			vio.Fatal(err)
		}
		var c Case
		if err := json.Unmarshal(b, &c); err != nil {
			vio.Fatal(err)
		}
		runCase(out, c)
	default:
		vio.Fatal("unknown sub-command " + os.Args[1])
	}
}
