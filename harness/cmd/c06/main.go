// Command c06 binds Shaper.tla to the real lookup engine (gtab.Context.Apply).
//
//	c06 replay <cases.json> <expect.ndjson> <out.ndjson>
//	    R: every line of expect.ndjson is a behaviour of the specification printed by TLC
//	    ({cid, input, defined, out}); the real engine is run on the same tables and input and
//	    its output compared with the expectation (inside the defined region only).
//	c06 record <cases.json> <out.ndjson>
//	    V: run the real engine on the explicit inputs of each case and record the output;
//	    TLC then checks the recorded outputs against the specification.
package main

import (
	"encoding/json"
	"os"
	"time"

	"seehuhn.de/go/sfnt/opentype/gtab"
	"seehuhn.de/go/sfnt/opentype/gtab/testcases"

	"verif.local/harness/internal/shapex"
	"verif.local/harness/internal/vio"
)

type expect struct {
	Cid     int            `json:"cid"`
	Input   []int          `json:"input"`
	Defined bool           `json:"defined"`
	Out     []shapex.Glyph `json:"out"`
}

type result struct {
	Kind    string         `json:"kind"`
	Cid     int            `json:"cid"`
	Family  string         `json:"family,omitempty"`
	Input   []int          `json:"input"`
	Defined bool           `json:"defined"`
	Want    []shapex.Glyph `json:"want,omitempty"`
	Got     []shapex.Glyph `json:"got,omitempty"`
	Msg     string         `json:"msg,omitempty"`
}

func loadCases(path string) map[int]*shapex.Case {
	b, err := os.ReadFile(path)
	if err != nil {
		vio.Fatal(err)
	}
	var cs []*shapex.Case
	if err := json.Unmarshal(b, &cs); err != nil {
		vio.Fatal(err)
	}
	m := map[int]*shapex.Case{}
	for _, c := range cs {
		m[c.ID] = c
	}
	return m
}

// runGuarded runs the engine with a watchdog (a hang is reported, never waited for).
func runGuarded(b *shapex.Built, in []int) (out []shapex.Glyph, msg string, hung bool) {
	type r struct {
		out []shapex.Glyph
		msg string
	}
	ch := make(chan r, 1)
	go func() {
		o, m := shapex.Run(b, in)
		ch <- r{o, m}
	}()
	select {
	case x := <-ch:
		return x.out, x.msg, false
	case <-time.After(20 * time.Second):
		return nil, "no result after 20s", true
	}
}

// liftTests converts the repository's own GSUB test cases (opentype/gtab/testcases, built with the
// lookup DSL) into abstract cases: the specification must reproduce the documented outcomes.
func liftTests(outPath string) {
	fg, err := testcases.NewFontGen()
	if err != nil {
		vio.Fatal(err)
	}
	type lifted struct {
		Case *shapex.Case `json:"case"`
		Name string       `json:"name"`
		Want []int        `json:"want"` // glyph ids the repository's test expects
		Skip string       `json:"skip,omitempty"`
	}
	var res []lifted
	for idx, tc := range testcases.Gsub {
		font, err := fg.GsubTestFont(idx)
		if err != nil {
			res = append(res, lifted{Name: tc.Name, Skip: err.Error()})
			continue
		}
		var in, want []int
		for _, r := range tc.In {
			in = append(in, int(fg.CMap.Lookup(r)))
		}
		for _, r := range tc.Out {
			want = append(want, int(fg.CMap.Lookup(r)))
		}
		c, err := shapex.Lift(idx+1, "repo-test", font.Gsub.LookupList, font.Gdef, []gtab.LookupIndex{0}, false, [][]int{in})
		if err != nil {
			res = append(res, lifted{Name: tc.Name, Skip: err.Error()})
			continue
		}
		res = append(res, lifted{Case: c, Name: tc.Name, Want: want})
	}
	b, _ := json.Marshal(res)
	if err := os.WriteFile(outPath, b, 0o644); err != nil {
		vio.Fatal(err)
	}
}

func main() {
	if len(os.Args) >= 3 && os.Args[1] == "lift-tests" {
		liftTests(os.Args[2])
		return
	}
	if len(os.Args) < 4 {
		vio.Fatal("usage: c06 replay|record|lift-tests ...")
	}
	cases := loadCases(os.Args[2])
	built := map[int]*shapex.Built{}
	get := func(id int) *shapex.Built {
		if b, ok := built[id]; ok {
			return b
		}
		c, ok := cases[id]
		if !ok {
			vio.Fatal("unknown case id")
		}
		b, err := shapex.Build(c)
		if err != nil {
			vio.Fatal(err)
		}
		built[id] = b
		return b
	}
	switch os.Args[1] {
	case "replay":
		exps := vio.ReadLines[expect](os.Args[3])
		out := vio.NewOut(os.Args[4])
		var n, ndef, mism, panics, hangs, lost, shown int
		for _, e := range exps {
			n++
			if e.Defined {
				ndef++
			}
			if e.Out == nil {
				e.Out = []shapex.Glyph{}
			}
			got, msg, hung := runGuarded(get(e.Cid), e.Input)
			res := result{Cid: e.Cid, Family: cases[e.Cid].Family, Input: e.Input, Defined: e.Defined, Want: e.Out, Got: got, Msg: msg}
			switch {
			case hung:
				hangs++
				res.Kind = "hang"
			case msg != "":
				panics++
				res.Kind = "panic"
			case !shapex.Conserved(len(e.Input), got):
				lost++
				res.Kind = "textloss"
			case e.Defined && !shapex.Equal(got, e.Out):
				mism++
				res.Kind = "mismatch"
			default:
				continue
			}
			if shown < 2000 {
				shown++
				out.Emit(res)
			}
			if hung {
				break
			}
		}
		out.Emit(map[string]any{"kind": "summary", "n": n, "defined": ndef, "mismatch": mism, "panic": panics,
			"hang": hangs, "textloss": lost})
		out.Close()
	case "record":
		out := vio.NewOut(os.Args[3])
		ids := make([]int, 0, len(cases))
		for id := range cases {
			ids = append(ids, id)
		}
		for id := 1; id <= len(ids)+1; id++ {
			c, ok := cases[id]
			if !ok {
				continue
			}
			for _, in := range c.Inputs {
				got, msg, hung := runGuarded(get(id), in)
				kind := "ok"
				if hung {
					kind = "hang"
				} else if msg != "" {
					kind = "panic"
				}
				if got == nil {
					got = []shapex.Glyph{}
				}
				out.Emit(result{Kind: kind, Cid: id, Input: in, Got: got, Msg: msg})
			}
		}
		out.Close()
	default:
		vio.Fatal("unknown mode")
	}
}
