// Command c01 drives the real sfnt.Read / (*sfnt.Font).Write through the five-step
// cycle of property C01 and records what it observes; it decides nothing.
//
//	c01 run <cases.ndjson> <trace.ndjson>   run every case, append its events to the trace
//	c01 fresh                               case on stdin; one Write in a fresh process, prints {"sha","len"}
//	c01 corpus <repo> <outdir> <list>       collect candidate byte strings (fuzz corpora, Go fonts, spliced tables)
//	c01 explain <case.json>                 human-readable diff of the bulk fields of one case (diagnostics only)
//
// Events (one JSON object per line):
//
//	reset {case, src, label, cfg}           start of a case; cfg is the TLC-chosen configuration (src = "built")
//	gen   {case, i, f}                      projection (internal/fproj) of generation i (0 = constructed, 1, 2 = read back)
//	file  {case, i, how, sha, len}          bytes number i (1, 2, 3) written "first", "again" (same process) or "fresh" (new process); how = "input" for given bytes
//	after {case, i, f}                      projection of generation i again, after all its writes in this process
//	fail  {case, step, msg}                 a step returned an error or panicked
package main

import (
	"bytes"
	"crypto/sha256"
	"encoding/base64"
	"encoding/hex"
	"encoding/json"
	"fmt"
	"io"
	"os"
	"os/exec"
	"strings"

	"seehuhn.de/go/sfnt"

	"verif.local/harness/internal/fproj"
	"verif.local/harness/internal/vio"
)

// Case is one unit of work.
type Case struct {
	ID    int     `json:"id"`
	Src   string  `json:"src"` // "built", "bytes", "tables"
	Label string  `json:"label"`
	Cfg   Cfg     `json:"cfg"`
	Path  string  `json:"path,omitempty"` // bytes: file holding the input
	B64   string  `json:"b64,omitempty"`  // bytes: the input itself (replay files)
	Tab   *TabCfg `json:"tab,omitempty"`  // tables: abstract table contents chosen by TLC
	Again int     `json:"again"`          // number of repeated writes in this process
	Fresh int     `json:"fresh"`          // number of writes in fresh processes
}

type resetEv struct {
	Ev    string `json:"ev"`
	Case  int    `json:"case"`
	Src   string `json:"src"`
	Label string `json:"label"`
	Cfg   Cfg    `json:"cfg"`
}

type genEv struct {
	Ev   string      `json:"ev"`
	Case int         `json:"case"`
	I    int         `json:"i"`
	F    *fproj.Font `json:"f"`
}

type fileEv struct {
	Ev   string `json:"ev"`
	Case int    `json:"case"`
	I    int    `json:"i"`
	How  string `json:"how"`
	Sha  string `json:"sha"`
	Len  int    `json:"len"`
}

type failEv struct {
	Ev   string `json:"ev"`
	Case int    `json:"case"`
	Step string `json:"step"`
	Msg  string `json:"msg"`
}

func sha(b []byte) string {
	h := sha256.Sum256(b)
	return hex.EncodeToString(h[:])
}

func safeWrite(f *sfnt.Font) (b []byte, err error) {
	defer func() {
		if r := recover(); r != nil {
			err = fmt.Errorf("panic: %v", r)
		}
	}()
	var buf bytes.Buffer
	n, err := f.Write(&buf)
	if err != nil {
		return nil, err
	}
	if n != int64(buf.Len()) {
		return nil, fmt.Errorf("Write reported %d bytes, wrote %d", n, buf.Len())
	}
	return buf.Bytes(), nil
}

func safeRead(b []byte) (f *sfnt.Font, err error) {
	defer func() {
		if r := recover(); r != nil {
			err = fmt.Errorf("panic: %v", r)
		}
	}()
	return sfnt.Read(bytes.NewReader(b))
}

func safeProject(f *sfnt.Font) (p *fproj.Font, err error) {
	defer func() {
		if r := recover(); r != nil {
			err = fmt.Errorf("panic in projection: %v", r)
		}
	}()
	return fproj.Project(f), nil
}

func (c *Case) input() []byte {
	if c.B64 != "" {
		b, err := base64.StdEncoding.DecodeString(c.B64)
		if err != nil {
			vio.Fatal(err)
		}
		return b
	}
	b, err := os.ReadFile(c.Path)
	if err != nil {
		vio.Fatal(err)
	}
	return b
}

// first returns the first font of the case: the constructed one, or nil for byte sources.
func (c *Case) first() *sfnt.Font {
	if c.Src == "built" {
		return Build(c.Cfg, c.ID)
	}
	return nil
}

func (c *Case) bytesIn() []byte {
	if c.Src == "tables" {
		return BuildTables(c)
	}
	return c.input()
}

func freshWrite(c *Case) (string, int, error) {
	exe, err := os.Executable()
	if err != nil {
		return "", 0, err
	}
	cc := *c
	cc.Again, cc.Fresh = 0, 0
	in, _ := json.Marshal(cc)
	cmd := exec.Command(exe, "fresh")
	cmd.Stdin = bytes.NewReader(in)
	var stderr bytes.Buffer
	cmd.Stderr = &stderr
	out, err := cmd.Output()
	if err != nil {
		return "", 0, fmt.Errorf("fresh process: %v: %s", err, stderr.String())
	}
	var r struct {
		Sha string `json:"sha"`
		Len int    `json:"len"`
		Err string `json:"err"`
	}
	if err := json.Unmarshal(out, &r); err != nil {
		return "", 0, fmt.Errorf("fresh process output %q: %v", out, err)
	}
	if r.Err != "" {
		return "", 0, fmt.Errorf("fresh process: %s", r.Err)
	}
	return r.Sha, r.Len, nil
}

// freshMain: build or read the first font of the case and write it once.
func freshMain() {
	data, err := io.ReadAll(os.Stdin)
	if err != nil {
		vio.Fatal(err)
	}
	var c Case
	if err := json.Unmarshal(data, &c); err != nil {
		vio.Fatal(err)
	}
	type res struct {
		Sha string `json:"sha"`
		Len int    `json:"len"`
		Err string `json:"err"`
	}
	var r res
	f := c.first()
	if f == nil {
		f, err = safeRead(c.bytesIn())
		if err != nil {
			r.Err = "read: " + err.Error()
		}
	}
	if f != nil {
		b, err := safeWrite(f)
		if err != nil {
			r.Err = "write: " + err.Error()
		} else {
			r.Sha, r.Len = sha(b), len(b)
		}
	}
	json.NewEncoder(os.Stdout).Encode(r)
}

func clip(s string) string {
	if len(s) > 300 {
		return s[:300]
	}
	return s
}

// runCase performs the cycle g0 -Write-> b1 -Read-> g1 -Write-> b2 -Read-> g2 -Write-> b3.
func runCase(c *Case, out *vio.Out) {
	out.Emit(resetEv{"reset", c.ID, c.Src, c.Label, c.Cfg})
	fail := func(step string, err error) {
		out.Emit(failEv{"fail", c.ID, step, clip(err.Error())})
	}
	gen := func(i int, f *sfnt.Font) bool {
		p, err := safeProject(f)
		if err != nil {
			fail(fmt.Sprintf("project%d", i), err)
			return false
		}
		out.Emit(genEv{"gen", c.ID, i, p})
		return true
	}
	after := func(i int, f *sfnt.Font) bool {
		p, err := safeProject(f)
		if err != nil {
			fail(fmt.Sprintf("project%d", i), err)
			return false
		}
		out.Emit(genEv{"after", c.ID, i, p})
		return true
	}
	// writes font f as bytes number i; repeated writes are logged too
	write := func(i int, f *sfnt.Font, again int) []byte {
		b, err := safeWrite(f)
		if err != nil {
			fail(fmt.Sprintf("write%d", i), err)
			return nil
		}
		out.Emit(fileEv{"file", c.ID, i, "first", sha(b), len(b)})
		for k := 0; k < again; k++ {
			b2, err := safeWrite(f)
			if err != nil {
				fail(fmt.Sprintf("write%d", i), err)
				return nil
			}
			out.Emit(fileEv{"file", c.ID, i, "again", sha(b2), len(b2)})
		}
		return b
	}
	fresh := func(i int) bool {
		for k := 0; k < c.Fresh; k++ {
			s, n, err := freshWrite(c)
			if err != nil {
				fail(fmt.Sprintf("write%d", i), err)
				return false
			}
			out.Emit(fileEv{"file", c.ID, i, "fresh", s, n})
		}
		return true
	}

	var b1 []byte
	if g0 := c.first(); g0 != nil {
		if !gen(0, g0) {
			return
		}
		if b1 = write(1, g0, c.Again); b1 == nil {
			return
		}
		if !after(0, g0) {
			return
		}
		if !fresh(1) {
			return
		}
	} else {
		b1 = c.bytesIn()
		out.Emit(fileEv{"file", c.ID, 1, "input", sha(b1), len(b1)})
	}
	g1, err := safeRead(b1)
	if err != nil {
		fail("read1", err)
		return
	}
	if !gen(1, g1) {
		return
	}
	b2 := write(2, g1, c.Again)
	if b2 == nil {
		return
	}
	if !after(1, g1) {
		return
	}
	if c.Src != "built" && !fresh(2) {
		return
	}
	g2, err := safeRead(b2)
	if err != nil {
		fail("read2", err)
		return
	}
	if !gen(2, g2) {
		return
	}
	write(3, g2, 0)
}

func runMain(casesPath, tracePath string) {
	cases := vio.ReadLines[Case](casesPath)
	out := vio.NewOut(tracePath)
	for i := range cases {
		runCase(&cases[i], out)
	}
	out.Close()
}

// explainMain prints where the bulk fields of the generations of one case differ.
func explainMain(path string) {
	data, err := os.ReadFile(path)
	if err != nil {
		vio.Fatal(err)
	}
	var c Case
	if err := json.Unmarshal(data, &c); err != nil {
		vio.Fatal(err)
	}
	var gens []*sfnt.Font
	var b []byte
	if g0 := c.first(); g0 != nil {
		gens = append(gens, g0)
		b, err = safeWrite(g0)
		if err != nil {
			fmt.Println("write1:", err)
			return
		}
	} else {
		gens = append(gens, nil)
		b = c.bytesIn()
	}
	for i := 1; i <= 2; i++ {
		g, err := safeRead(b)
		if err != nil {
			fmt.Printf("read%d: %v\n", i, err)
			return
		}
		gens = append(gens, g)
		b, err = safeWrite(g)
		if err != nil {
			fmt.Printf("write%d: %v\n", i+1, err)
			return
		}
	}
	for _, pair := range [][2]int{{0, 1}, {1, 2}} {
		a, bb := gens[pair[0]], gens[pair[1]]
		if a == nil || bb == nil {
			continue
		}
		for _, field := range []string{"gsub", "gpos", "gdef", "cmap"} {
			x, y := fproj.Explain(a, field), fproj.Explain(bb, field)
			if x != y {
				k := 0
				for k < len(x) && k < len(y) && x[k] == y[k] {
					k++
				}
				lo := k - 80
				if lo < 0 {
					lo = 0
				}
				fmt.Printf("g%d/g%d %s differ at %d:\n  %s\n  %s\n", pair[0], pair[1], field, k,
					clip(x[lo:]), clip(y[lo:]))
			}
		}
	}
}

// measureMain prints, for every constructed case of a file, the sizes of the tables and of the CFF INDEX
// structures of the first written file (diagnostics: did the builder hit the sizes the configuration asks for?).
func measureMain(path string) {
	for _, c := range vio.ReadLines[Case](path) {
		if c.Src != "built" {
			continue
		}
		f := Build(c.Cfg, c.ID)
		b, err := safeWrite(f)
		if err != nil {
			fmt.Println(c.ID, "write:", err)
			continue
		}
		_, tables, err := splitTables(b)
		if err != nil {
			fmt.Println(c.ID, "split:", err)
			continue
		}
		sizes := map[string]int{}
		for k, v := range tables {
			sizes[strings.TrimSpace(k)] = len(v)
		}
		line := map[string]any{"id": c.ID, "group": c.Cfg.Group, "kind": c.Cfg.Kind, "cffidx": c.Cfg.CffIdx, "idxlen": c.Cfg.IdxLen,
			"big": c.Cfg.Big, "cinstr": c.Cfg.CInstr, "glyfsize": c.Cfg.GlyfSize, "tables": sizes}
		if f.IsCFF() {
			m := measureCFF(f)
			line["index"] = map[string]int{"name": m.name, "topdict": m.topDict, "string": m.str, "gsubr": m.gsubr, "charstrings": m.charStrings}
		}
		out, _ := json.Marshal(line)
		fmt.Println(string(out))
	}
}

func main() {
	if len(os.Args) < 2 {
		vio.Fatal("usage: c01 run|fresh|corpus|explain ...")
	}
	switch os.Args[1] {
	case "run":
		runMain(os.Args[2], os.Args[3])
	case "fresh":
		freshMain()
	case "corpus":
		corpusMain(os.Args[2], os.Args[3], os.Args[4])
	case "explain":
		explainMain(os.Args[2])
	case "measure":
		measureMain(os.Args[2])
	case "c03fonts": // for C03: write every built case and record what an independent reader sees
		c03FontsMain(os.Args[2], os.Args[3])
	default:
		vio.Fatal("unknown sub-command " + strings.Join(os.Args[1:], " "))
	}
}
