package main

import (
	"bufio"
	"bytes"
	"encoding/json"
	"fmt"
	"os"
	"path/filepath"
	"sort"
	"strconv"
	"strings"

	"golang.org/x/image/font/gofont/gobold"
	"golang.org/x/image/font/gofont/gobolditalic"
	"golang.org/x/image/font/gofont/goitalic"
	"golang.org/x/image/font/gofont/gomedium"
	"golang.org/x/image/font/gofont/gomediumitalic"
	"golang.org/x/image/font/gofont/gomono"
	"golang.org/x/image/font/gofont/gomonobold"
	"golang.org/x/image/font/gofont/gomonobolditalic"
	"golang.org/x/image/font/gofont/gomonoitalic"
	"golang.org/x/image/font/gofont/goregular"
	"golang.org/x/image/font/gofont/gosmallcaps"
	"golang.org/x/image/font/gofont/gosmallcapsitalic"

	"seehuhn.de/go/sfnt/cff"
	"seehuhn.de/go/sfnt/header"
	"seehuhn.de/go/sfnt/name"

	"verif.local/harness/internal/vio"
)

// TabCfg is an abstract description, chosen by TLC (FontCycle.tla, source "tables"), of the
// style-carrying tables of a file: which tables exist and what their style fields say.  The
// harness instantiates it by patching the tables of a file written by the library, so that
// the reader is exercised on files the writer itself would never produce.
type TabCfg struct {
	Kind     string `json:"kind"`      // "ttf", "cff"
	Name     bool   `json:"name"`      // name table present
	Fam      string `json:"fam"`       // family key (see families)
	Sub      string `json:"sub"`       // sub-family string in the name table
	NameVer  bool   `json:"name_ver"`  // name table has a parseable version string
	Os2      bool   `json:"os2"`       // OS/2 table present
	Os2V3    bool   `json:"os2_v3"`    // OS/2 table version 3 (fsSelection bits 7..15 undefined)
	Weight   int    `json:"weight"`    //
	Width    int    `json:"width"`     //
	SelItal  bool   `json:"sel_ital"`  // fsSelection bit 0
	SelBold  bool   `json:"sel_bold"`  // fsSelection bit 5
	SelReg   bool   `json:"sel_reg"`   // fsSelection bit 6
	SelObl   bool   `json:"sel_obl"`   // fsSelection bit 9
	HeadBold bool   `json:"head_bold"` // macStyle bit 0
	HeadItal bool   `json:"head_ital"` // macStyle bit 1
	Head     bool   `json:"head"`      // head table present (always for ttf)
	Post     bool   `json:"post"`      // post table present
	Angle    int    `json:"angle"`     // italic angle in the post table and CFF, 2^-16 degree
	CffWt    string `json:"cff_wt"`    // cff: FontInfo.Weight
}

func baseCfg(kind string) Cfg {
	return Cfg{Kind: kind, FDs: 1, Cmap: "4", N: 30, Names: kind == "ttf", Gsub: "liga", Gpos: "pair", Gdef: true, Tags: "x",
		Reg: true, Weight: 400, Width: 5, Fam: "plain", Times: "both", VerHi: 1, VerLo: 0x8000, Strs: "ascii", Upm: 1000,
		Scripts: "simple", THi: 59, TLo: 10144256, Asc: 800, Desc: -200, Gap: 90, Cap: 700, XH: 500, Ulp: -400, Ult: 200}
}

// splitTables returns the scaler type and the tables of an sfnt file.
func splitTables(b []byte) (uint32, map[string][]byte, error) {
	r := bytes.NewReader(b)
	dir, err := header.Read(r)
	if err != nil {
		return 0, nil, err
	}
	tables := map[string][]byte{}
	for tag := range dir.Toc {
		data, err := dir.ReadTableBytes(r, tag)
		if err != nil {
			return 0, nil, err
		}
		tables[tag] = data
	}
	return dir.ScalerType, tables, nil
}

func joinTables(scaler uint32, tables map[string][]byte) []byte {
	var buf bytes.Buffer
	if _, err := header.Write(&buf, scaler, tables); err != nil {
		vio.Fatal(err)
	}
	return buf.Bytes()
}

func baseFile(kind string, id int) []byte {
	f := Build(baseCfg(kind), 1000003)
	b, err := safeWrite(f)
	if err != nil {
		vio.Fatal(fmt.Errorf("cannot write the base font: %v", err))
	}
	return b
}

func put16(b []byte, off int, v int) {
	b[off] = byte(v >> 8)
	b[off+1] = byte(v)
}

// BuildTables instantiates c.Tab.
func BuildTables(c *Case) []byte {
	t := c.Tab
	scaler, tables, err := splitTables(baseFile(t.Kind, c.ID))
	if err != nil {
		vio.Fatal(err)
	}

	if !t.Name {
		delete(tables, "name")
	} else {
		info, err := name.Decode(tables["name"])
		if err != nil {
			vio.Fatal(err)
		}
		nt := info.Windows["en-US"]
		if nt == nil {
			// the library did not hand the names of the base font back: this phase goes on with a table of its own
			// (the loss itself is seen by the configuration cover, which compares the names of every cycle)
			nt = &name.Table{}
			if info.Windows == nil {
				info.Windows = name.Tables{}
			}
			info.Windows["en-US"] = nt
		}
		nt.Family = families[t.Fam]
		nt.Subfamily = t.Sub
		nt.FullName = nt.Family + " " + t.Sub
		if !t.NameVer {
			nt.Version = "release candidate"
		}
		tables["name"] = info.Encode(1)
	}

	if !t.Os2 {
		delete(tables, "OS/2")
	} else {
		d := append([]byte(nil), tables["OS/2"]...)
		if t.Os2V3 {
			put16(d, 0, 3)
		}
		put16(d, 4, t.Weight)
		put16(d, 6, t.Width)
		sel := 0x0080
		if t.SelItal {
			sel |= 0x0001
		}
		if t.SelBold {
			sel |= 0x0020
		}
		if t.SelReg {
			sel |= 0x0040
		}
		if t.SelObl {
			sel |= 0x0200
		}
		put16(d, 62, sel)
		tables["OS/2"] = d
	}

	if !t.Head && t.Kind == "cff" {
		delete(tables, "head")
	} else {
		d := append([]byte(nil), tables["head"]...)
		ms := 0
		if t.HeadBold {
			ms |= 1
		}
		if t.HeadItal {
			ms |= 2
		}
		put16(d, 44, ms)
		tables["head"] = d
	}

	if !t.Post {
		delete(tables, "post")
	} else {
		d := append([]byte(nil), tables["post"]...)
		a := uint32(int32(t.Angle))
		d[4], d[5], d[6], d[7] = byte(a>>24), byte(a>>16), byte(a>>8), byte(a)
		tables["post"] = d
	}

	if t.Kind == "cff" {
		cf, err := cff.Read(bytes.NewReader(tables["CFF "]))
		if err != nil {
			vio.Fatal(err)
		}
		cf.FontInfo.Weight = t.CffWt
		cf.FontInfo.ItalicAngle = float64(t.Angle) / 65536
		var buf bytes.Buffer
		if err := cf.Write(&buf); err != nil {
			vio.Fatal(err)
		}
		tables["CFF "] = buf.Bytes()
	}
	return joinTables(scaler, tables)
}

// ---------------------------------------------------------------------------
// corpus: byte strings that are candidates for "accepted by Read"

// parseFuzzFile returns the []byte arguments of a Go fuzz corpus file.
func parseFuzzFile(path string) [][]byte {
	fd, err := os.Open(path)
	if err != nil {
		return nil
	}
	defer fd.Close()
	sc := bufio.NewScanner(fd)
	sc.Buffer(make([]byte, 1<<20), 1<<26)
	var res [][]byte
	first := true
	for sc.Scan() {
		line := strings.TrimSpace(sc.Text())
		if first {
			first = false
			if !strings.HasPrefix(line, "go test fuzz v1") {
				return nil
			}
			continue
		}
		if strings.HasPrefix(line, "[]byte(") && strings.HasSuffix(line, ")") {
			s, err := strconv.Unquote(line[len("[]byte(") : len(line)-1])
			if err == nil {
				res = append(res, []byte(s))
			}
		}
	}
	return res
}

func fuzzDir(repo, rel string) [][]byte {
	dir := filepath.Join(repo, rel)
	ents, err := os.ReadDir(dir)
	if err != nil {
		return nil
	}
	var names []string
	for _, e := range ents {
		names = append(names, e.Name())
	}
	sort.Strings(names)
	var res [][]byte
	for _, n := range names {
		args := parseFuzzFile(filepath.Join(dir, n))
		if len(args) >= 1 {
			res = append(res, args[0])
		}
	}
	return res
}

// corpusMain writes every candidate that sfnt.Read accepts to outdir and lists the cases.
func corpusMain(repo, outdir, listPath string) {
	type cand struct {
		label string
		data  []byte
	}
	var cands []cand
	for i, b := range fuzzDir(repo, "testdata/fuzz/FuzzFont") {
		cands = append(cands, cand{fmt.Sprintf("fuzz-corpus FuzzFont #%d", i), b})
	}
	gofonts := []struct {
		n string
		b []byte
	}{{"goregular", goregular.TTF}, {"gobold", gobold.TTF}, {"gobolditalic", gobolditalic.TTF}, {"goitalic", goitalic.TTF},
		{"gomedium", gomedium.TTF}, {"gomediumitalic", gomediumitalic.TTF}, {"gomono", gomono.TTF}, {"gomonobold", gomonobold.TTF},
		{"gomonobolditalic", gomonobolditalic.TTF}, {"gomonoitalic", gomonoitalic.TTF}, {"gosmallcaps", gosmallcaps.TTF},
		{"gosmallcapsitalic", gosmallcapsitalic.TTF}}
	for _, g := range gofonts {
		cands = append(cands, cand{"gofont " + g.n, g.b})
	}
	// table-level corpora spliced into a file written by the library
	splice := []struct{ rel, tag, kind string }{
		{"os2/testdata/fuzz/FuzzOS2", "OS/2", "ttf"},
		{"head/testdata/fuzz/FuzzHead", "head", "ttf"},
		{"post/testdata/fuzz/FuzzPost", "post", "ttf"},
		{"name/testdata/fuzz/FuzzNames", "name", "ttf"},
		{"opentype/gdef/testdata/fuzz/FuzzGdef", "GDEF", "ttf"},
		{"cff/testdata/fuzz/FuzzFont", "CFF ", "cff"},
		{"os2/testdata/fuzz/FuzzOS2", "OS/2", "cff"},
		{"name/testdata/fuzz/FuzzNames", "name", "cff"},
	}
	for _, s := range splice {
		scaler, tables, err := splitTables(baseFile(s.kind, 0))
		if err != nil {
			vio.Fatal(err)
		}
		for i, b := range fuzzDir(repo, s.rel) {
			t2 := map[string][]byte{}
			for k, v := range tables {
				t2[k] = v
			}
			t2[s.tag] = b
			if len(b) == 0 {
				continue
			}
			cands = append(cands, cand{fmt.Sprintf("%s base with %s from %s #%d", s.kind, strings.TrimSpace(s.tag), s.rel, i),
				joinTables(scaler, t2)})
		}
	}

	// seeded mutants of files written by the library and of two Go fonts: 1..3 bytes behind
	// the table directory are overwritten; those that the reader still accepts are kept
	nmut, _ := strconv.Atoi(os.Getenv("C01_MUTANTS"))
	if nmut > 0 {
		rng := vio.Rand(4242)
		bases := []cand{
			{"ttf base", baseFile("ttf", 0)}, {"cff base", baseFile("cff", 0)}, {"cid base", baseFile("cid", 0)},
			{"goregular", goregular.TTF}, {"gomonobolditalic", gomonobolditalic.TTF},
		}
		for k := 0; k < nmut; k++ {
			b := bases[k%len(bases)]
			d := append([]byte(nil), b.data...)
			ntab := int(d[4])<<8 | int(d[5])
			lo := 12 + 16*ntab
			if lo >= len(d) {
				continue
			}
			var where []string
			for j := 1 + rng.Intn(3); j > 0; j-- {
				pos := lo + rng.Intn(len(d)-lo)
				switch rng.Intn(3) {
				case 0:
					d[pos] = byte(rng.Intn(256))
				case 1:
					d[pos] ^= 1 << uint(rng.Intn(8))
				default:
					d[pos] = []byte{0, 1, 0x7F, 0x80, 0xFF}[rng.Intn(5)]
				}
				where = append(where, strconv.Itoa(pos))
			}
			cands = append(cands, cand{fmt.Sprintf("mutant of %s at %s", b.label, strings.Join(where, ",")), d})
		}
	}

	if err := os.MkdirAll(outdir, 0o755); err != nil {
		vio.Fatal(err)
	}
	out := vio.NewOut(listPath)
	seen := map[string]bool{}
	accepted, rejected := 0, 0
	for _, c := range cands {
		h := sha(c.data)
		if seen[h] {
			continue
		}
		seen[h] = true
		if _, err := safeRead(c.data); err != nil {
			rejected++
			continue
		}
		p := filepath.Join(outdir, h[:16]+".bin")
		if err := os.WriteFile(p, c.data, 0o644); err != nil {
			vio.Fatal(err)
		}
		accepted++
		out.Emit(Case{ID: accepted, Src: "bytes", Label: c.label, Path: p})
	}
	out.Close()
	json.NewEncoder(os.Stdout).Encode(map[string]int{"candidates": len(cands), "accepted": accepted, "rejected": rejected})
}
