package main

import (
	"bytes"
	"encoding/json"
	"fmt"
	"math/rand"
	"time"

	"golang.org/x/text/language"

	"seehuhn.de/go/geom/matrix"
	"seehuhn.de/go/postscript/cid"
	"seehuhn.de/go/postscript/funit"

	"seehuhn.de/go/sfnt"
	"seehuhn.de/go/sfnt/cff"
	"seehuhn.de/go/sfnt/cmap"
	"seehuhn.de/go/sfnt/glyf"
	"seehuhn.de/go/sfnt/glyph"
	"seehuhn.de/go/sfnt/head"
	"seehuhn.de/go/sfnt/opentype/anchor"
	"seehuhn.de/go/sfnt/opentype/classdef"
	"seehuhn.de/go/sfnt/opentype/coverage"
	"seehuhn.de/go/sfnt/opentype/gdef"
	"seehuhn.de/go/sfnt/opentype/gtab"
	"seehuhn.de/go/sfnt/opentype/markarray"
	"seehuhn.de/go/sfnt/os2"

	"verif.local/harness/internal/fonts"
	"verif.local/harness/internal/vio"
)

// Cfg is one font configuration chosen by TLC (spec/FontCycle.tla, FontCycleGen.cfg).
// Every field is a small enumeration; the harness instantiates the configuration
// with seeded contents.
type Cfg struct {
	Kind     string  `json:"kind"`     // "ttf", "cff", "cid"
	FDs      int     `json:"fds"`      // cid: number of private dictionaries
	Cmap     string  `json:"cmap"`     // "4", "12", "none", "multi" (Unicode, Windows and Mac subtables with different languages, shared and distinct data)
	GlyfSize int     `json:"glyfsize"` // ttf: exact size in bytes of the glyf table (0 = whatever results)
	RawTabs  string  `json:"rawtabs"`  // ttf: cvt/fpgm/prep/gasp: "none", "sep" (separate slices), "shared" (sub-slices of one buffer)
	Comp     int     `json:"comp"`     // ttf: composite nesting depth
	Names    bool    `json:"names"`    // ttf: glyph names
	N        int     `json:"n"`        // number of glyphs
	Gsub     string  `json:"gsub"`     // "none", "liga", "multi"
	Gpos     string  `json:"gpos"`     // "none", "pair", "multi"
	Gdef     bool    `json:"gdef"`     //
	Tags     string  `json:"tags"`     // script list tags: "x" (with -x- extension), "noext", "ambig"
	Reg      bool    `json:"reg"`      //
	Bold     bool    `json:"bold"`     //
	Ital     bool    `json:"ital"`     //
	Obl      bool    `json:"obl"`      //
	Serif    bool    `json:"serif"`    //
	Script   bool    `json:"script"`   //
	Weight   int     `json:"weight"`   //
	Width    int     `json:"width"`    //
	Angle    int     `json:"angle"`    // italic angle in units of 2^-20 degree
	Fam      string  `json:"fam"`      // "plain", "bold", "italic", "semibold"
	Times    string  `json:"times"`    // "c", "m", "both"
	Frac     bool    `json:"frac"`     // sub-precision parts: nanoseconds, time zone, quarter units, fractional CFF widths
	VerHi    int     `json:"ver_hi"`   //
	VerLo    int     `json:"ver_lo"`   //
	Strs     string  `json:"strs"`     // "ascii", "latin1", "bmp", "astral", "empty"
	Upm      int     `json:"upm"`      //
	Scripts  string  `json:"scripts"`  // script lists: "simple", "multi" (several scripts, 0..5 explicit language systems each, shared feature tags)
	THi      int     `json:"t_hi"`     // instant of the creation time: Unix seconds = t_hi * 2^24 + t_lo
	TLo      int     `json:"t_lo"`     //
	Asc      int     `json:"asc"`      //
	Desc     int     `json:"desc"`     //
	Gap      int     `json:"gap"`      //
	Cap      int     `json:"cap"`      //
	XH       int     `json:"xh"`       //
	Ulp      int     `json:"ulp"`      // underline position, quarter units
	Ult      int     `json:"ult"`      // underline thickness, quarter units
	CInstr   string  `json:"cinstr"`   // ttf: instructions of composite glyphs: "off", "nil", "empty", "some", "odd"
	CffIdx   string  `json:"cffidx"`   // cff/cid: INDEX tuned to an exact data length: "off", "name", "string", "charstrings"
	IdxLen   int     `json:"idxlen"`   // that length
	Big      string  `json:"big"`      // a table larger than 1024 bytes: "off", "gdef", "scripts", "features", "lookups", "name"
	HCnt     int     `json:"hcnt"`     // cff/cid: stem hint pairs of one glyph in direction hdir
	OCnt     int     `json:"ocnt"`     // ... and in the other direction
	HDir     string  `json:"hdir"`     // "h" or "v"
	HMask    bool    `json:"hmask"`    // hintmask operators present
	HWidth   bool    `json:"hwidth"`   // the hinted glyph has a width operand (its width differs from the default width)
	CTab     IntList `json:"ctab"`     // class definition table: class of glyph 10+i (0 = not in the table); empty = none
	Cov      IntList `json:"cov"`      // coverage table: the covered glyphs; empty = none
	TRel     string  `json:"trel"`     // modification time relative to creation time: "after", "equal", "before"
	Cpr      string  `json:"cpr"`      // code page ranges: "none", "low", "high", "both"
	Group    string  `json:"group"`    // generation group (informative)
	Vary     string  `json:"vary"`     // "onefactor" generation: the field taken through its domain (informative)
	Perm     int     `json:"perm"`     //
}

// IntList is a list of integers that is never written as JSON null (TLC's Json module has no null).
type IntList []int

// MarshalJSON implements json.Marshaler.
func (l IntList) MarshalJSON() ([]byte, error) {
	if l == nil {
		return []byte("[]"), nil
	}
	return json.Marshal([]int(l))
}

var families = map[string]string{
	"plain":    "Verif Sans",
	"bold":     "Verif Bold",
	"italic":   "Verif Italic",
	"semibold": "Verif Semi Bold",
}

var stringSets = map[string][6]string{
	// description, sample text, copyright, trademark, license, license URL
	"ascii":  {"constructed by the verification harness", "ABC fi fl", "(c) nobody", "none (tm)", "free", "https://example.com/license"},
	"latin1": {"Grüße aus Köln, déjà vu", "ÀÉÎõü ¿¡", "© 2024 Jörg Müller", "Marke®", "Æsop's licence", "https://example.com/lizenz?ä=ö"},
	"bmp":    {"Ελληνικά и русский 中文", "あいう한국어", "版权所有 2024", "商标 ™", "ライセンス", "https://example.com/许可"},
	"astral": {"emoji \U0001F600 and \U0001D11E clef", "\U00010330\U00010331", "(c) \U0001F98A", "\U0001F1E9\U0001F1EA", "free \U0001F193", "https://example.com/\U0001F517"},
	"empty":  {"", "", "", "", "", ""},
}

func minGID(total, k int) glyph.ID {
	if k >= total {
		k = total - 1
	}
	return glyph.ID(k)
}

func scriptTags(kind string) []language.Tag {
	switch kind {
	case "noext":
		// no private-use extension, but the reverse mapping to OpenType tags is unique
		return []language.Tag{language.MustParse("und-Latn"), language.MustParse("de-Latn")}
	case "ambig":
		// several OpenType script tags (beng, bng2) belong to the ISO 15924 code Beng
		return []language.Tag{language.MustParse("und-Beng"), language.MustParse("und-Latn-x-latn")}
	default:
		return []language.Tag{language.MustParse("und-Latn-x-latn"), language.MustParse("de-Latn-x-latn-deu"),
			language.MustParse("und-Zzzz-x-dflt")}
	}
}

// richTags: several scripts with 0..5 explicit language systems each, with or without a default
// language system.  Candidates are written with the private-use extension the reader generates;
// normalTag maps each to the exact form the reader returns, so that the list is in normal form.
var richTags = []string{
	"und-Zzzz-x-dflt",
	"und-Latn-x-latn", "de-Latn-x-latn-deu", "tr-Latn-x-latn-trk", "ro-Latn-x-latn-rom", "nl-Latn-x-latn-nld", "pl-Latn-x-latn-plk",
	"und-Cyrl-x-cyrl", "ru-Cyrl-x-cyrl-rus", "sr-Cyrl-x-cyrl-srb",
	"el-Grek-x-grek-ell", // no default language system for this script
	"ar-Arab-x-arab-ara", "ur-Arab-x-arab-urd", "fa-Arab-x-arab-far", "und-Arab-x-arab",
}

var normalCache = map[string]language.Tag{}

// normalTag returns the tag the library's reader produces for the script/language the candidate encodes to.
func normalTag(cand string) language.Tag {
	if t, ok := normalCache[cand]; ok {
		return t
	}
	t := language.MustParse(cand)
	info := &gtab.Info{
		ScriptList:  gtab.ScriptListInfo{t: {Required: 0xFFFF, Optional: []gtab.FeatureIndex{0}}},
		FeatureList: gtab.FeatureListInfo{{Tag: "test", Lookups: []gtab.LookupIndex{0}}},
		LookupList: gtab.LookupList{{Meta: &gtab.LookupMetaInfo{LookupType: 1},
			Subtables: []gtab.Subtable{&gtab.Gsub1_1{Cov: coverage.Set{1: true}, Delta: 1}}}},
	}
	back, err := gtab.Read(bytes.NewReader(info.Encode()), gtab.TypeGsub)
	if err != nil || len(back.ScriptList) != 1 {
		vio.Fatal(fmt.Sprintf("cannot normalise script-list tag %s: %v", cand, err))
	}
	for k := range back.ScriptList {
		t = k
	}
	normalCache[cand] = t
	return t
}

func scriptList(c Cfg, nFeat int) gtab.ScriptListInfo {
	res := gtab.ScriptListInfo{}
	if c.Scripts == "multi" && c.Tags == "x" {
		for i, cand := range richTags {
			var opt []gtab.FeatureIndex
			for f := 0; f < nFeat; f++ {
				if (f+i)%3 != 1 {
					opt = append(opt, gtab.FeatureIndex(f))
				}
			}
			req := gtab.FeatureIndex(0xFFFF)
			if i%4 == 2 {
				req = gtab.FeatureIndex(i % nFeat) // a required feature
			}
			if i%5 == 4 {
				opt = nil // a language system with a required feature only, or none at all
			}
			res[normalTag(cand)] = &gtab.Features{Required: req, Optional: opt}
		}
		return res
	}
	for i, t := range scriptTags(c.Tags) {
		var opt []gtab.FeatureIndex
		for f := 0; f < nFeat; f++ {
			if (f+i)%3 != 2 {
				opt = append(opt, gtab.FeatureIndex(f))
			}
		}
		if len(opt) == 0 {
			opt = []gtab.FeatureIndex{0}
		}
		res[t] = &gtab.Features{Required: 0xFFFF, Optional: opt}
	}
	return res
}

// distinct returns k distinct glyph ids below total (fewer if total is small), ascending.
func distinct(total int, ids ...int) []glyph.ID {
	seen := map[glyph.ID]bool{}
	var res []glyph.ID
	for _, k := range ids {
		g := minGID(total, k)
		if !seen[g] {
			seen[g] = true
			res = append(res, g)
		}
	}
	return res
}

func covTable(gids []glyph.ID) coverage.Table {
	// coverage indices must be increasing with the glyph id
	sorted := append([]glyph.ID(nil), gids...)
	for i := range sorted {
		for j := i + 1; j < len(sorted); j++ {
			if sorted[j] < sorted[i] {
				sorted[i], sorted[j] = sorted[j], sorted[i]
			}
		}
	}
	t := coverage.Table{}
	for i, g := range sorted {
		t[g] = i
	}
	return t
}

func covSet(gids []glyph.ID) coverage.Set {
	s := coverage.Set{}
	for _, g := range gids {
		s[g] = true
	}
	return s
}

func makeGsub(c Cfg, total int) *gtab.Info {
	if c.Gsub == "none" {
		return nil
	}
	g := func(k int) glyph.ID { return minGID(total, k) }
	info := &gtab.Info{}
	// lookup 0: single substitution 1.1, lookup 1: ligatures 4.1
	firsts := distinct(total, 6, 2)
	lig := &gtab.Gsub4_1{Cov: covTable(firsts)}
	for i := range firsts {
		lig.Repl = append(lig.Repl, []gtab.Ligature{
			{In: []glyph.ID{g(7), g(8)}, Out: g(9 + i)},
			{In: []glyph.ID{g(7)}, Out: g(10 + i)},
		})
	}
	info.LookupList = gtab.LookupList{
		{Meta: &gtab.LookupMetaInfo{LookupType: 1}, Subtables: []gtab.Subtable{
			&gtab.Gsub1_1{Cov: covSet(distinct(total, 2, 3)), Delta: 2}}},
		{Meta: &gtab.LookupMetaInfo{LookupType: 4, LookupFlags: gtab.IgnoreMarks}, Subtables: []gtab.Subtable{lig}},
	}
	info.FeatureList = gtab.FeatureListInfo{
		{Tag: "smcp", Lookups: []gtab.LookupIndex{0}},
		{Tag: "liga", Lookups: []gtab.LookupIndex{1}},
	}
	if c.Gsub == "multi" {
		c12 := distinct(total, 3, 4, 13)
		s12 := &gtab.Gsub1_2{Cov: covTable(c12)}
		for i := range c12 {
			s12.SubstituteGlyphIDs = append(s12.SubstituteGlyphIDs, g(14+i))
		}
		c21 := distinct(total, 9, 10)
		s21 := &gtab.Gsub2_1{Cov: covTable(c21)}
		for i := range c21 {
			s21.Repl = append(s21.Repl, []glyph.ID{g(6), g(7 + i)})
		}
		c31 := distinct(total, 2, 5)
		s31 := &gtab.Gsub3_1{Cov: covTable(c31)}
		for i := range c31 {
			s31.Alternates = append(s31.Alternates, []glyph.ID{g(13 + i), g(15), g(16)})
		}
		c5 := distinct(total, 2, 3)
		s5 := &gtab.SeqContext1{Cov: covTable(c5)}
		for range c5 {
			s5.Rules = append(s5.Rules, []*gtab.SeqRule{
				{Input: []glyph.ID{g(3), g(4)}, Actions: []gtab.SeqLookup{{SequenceIndex: 1, LookupListIndex: 0}}},
				{Input: []glyph.ID{g(5)}, Actions: []gtab.SeqLookup{{SequenceIndex: 0, LookupListIndex: 0}, {SequenceIndex: 1, LookupListIndex: 2}}},
			})
		}
		s6 := &gtab.ChainedSeqContext3{
			Backtrack: []coverage.Set{covSet(distinct(total, 1, 2))},
			Input:     []coverage.Set{covSet(distinct(total, 3, 4)), covSet(distinct(total, 5))},
			Lookahead: []coverage.Set{covSet(distinct(total, 6, 7, 8))},
			Actions:   []gtab.SeqLookup{{SequenceIndex: 0, LookupListIndex: 0}},
		}
		info.LookupList = append(info.LookupList,
			&gtab.LookupTable{Meta: &gtab.LookupMetaInfo{LookupType: 1}, Subtables: []gtab.Subtable{s12}},
			&gtab.LookupTable{Meta: &gtab.LookupMetaInfo{LookupType: 2}, Subtables: []gtab.Subtable{s21}},
			&gtab.LookupTable{Meta: &gtab.LookupMetaInfo{LookupType: 3}, Subtables: []gtab.Subtable{s31}},
			&gtab.LookupTable{Meta: &gtab.LookupMetaInfo{LookupType: 5}, Subtables: []gtab.Subtable{s5}},
			&gtab.LookupTable{Meta: &gtab.LookupMetaInfo{LookupType: 6, LookupFlags: gtab.IgnoreLigatures}, Subtables: []gtab.Subtable{s6}},
		)
		info.FeatureList = append(info.FeatureList,
			&gtab.Feature{Tag: "ccmp", Lookups: []gtab.LookupIndex{2, 3}},
			&gtab.Feature{Tag: "salt", Lookups: []gtab.LookupIndex{4}},
			&gtab.Feature{Tag: "calt", Lookups: []gtab.LookupIndex{5, 6}},
		)
	}
	if c.Scripts == "multi" {
		// several features share a tag; lookups are referenced by several features
		n := gtab.LookupIndex(len(info.LookupList))
		info.FeatureList = append(info.FeatureList,
			&gtab.Feature{Tag: info.FeatureList[0].Tag, Lookups: []gtab.LookupIndex{n - 1}},
			&gtab.Feature{Tag: info.FeatureList[0].Tag, Lookups: []gtab.LookupIndex{0, n - 1}},
			&gtab.Feature{Tag: "locl", Lookups: []gtab.LookupIndex{0}},
			&gtab.Feature{Tag: "locl", Lookups: nil},
		)
	}
	info.ScriptList = scriptList(c, len(info.FeatureList))
	return info
}

func makeGpos(c Cfg, total int) *gtab.Info {
	if c.Gpos == "none" {
		return nil
	}
	g := func(k int) glyph.ID { return minGID(total, k) }
	info := &gtab.Info{}
	pairs := gtab.Gpos2_1{}
	for i, p := range [][2]int{{2, 3}, {2, 4}, {3, 2}, {23, 24}, {24, 13}} {
		pairs[glyph.Pair{Left: g(p[0]), Right: g(p[1])}] = &gtab.PairAdjust{
			First: &gtab.GposValueRecord{XAdvance: funit.Int16(-50 + 17*i)}}
	}
	info.LookupList = gtab.LookupList{
		{Meta: &gtab.LookupMetaInfo{LookupType: 2}, Subtables: []gtab.Subtable{pairs}},
	}
	info.FeatureList = gtab.FeatureListInfo{{Tag: "kern", Lookups: []gtab.LookupIndex{0}}}
	if c.Gpos == "multi" {
		c11 := distinct(total, 26, 27)
		s11 := &gtab.Gpos1_1{Cov: covTable(c11), Adjust: &gtab.GposValueRecord{XPlacement: 10, XAdvance: 20}}
		c12 := distinct(total, 20, 21, 22)
		s12 := &gtab.Gpos1_2{Cov: covTable(c12)}
		for i := range c12 {
			s12.Adjust = append(s12.Adjust, &gtab.GposValueRecord{YPlacement: funit.Int16(5 + i), XAdvance: funit.Int16(-3 * (i + 1))})
		}
		marks := distinct(total, 11, 12)
		bases := distinct(total, 2, 13, 17)
		s41 := &gtab.Gpos4_1{MarkCov: covTable(marks), BaseCov: covTable(bases)}
		for i := range marks {
			s41.MarkArray = append(s41.MarkArray, markarray.Record{Class: uint16(i % 2), Table: anchor.Table{X: funit.Int16(100 + i), Y: 500}})
		}
		ncls := 1
		if len(marks) > 1 {
			ncls = 2
		}
		for i := range bases {
			var row []anchor.Table
			for k := 0; k < ncls; k++ {
				row = append(row, anchor.Table{X: funit.Int16(250 + 10*i + k), Y: funit.Int16(700 - k)})
			}
			s41.BaseArray = append(s41.BaseArray, row)
		}
		info.LookupList = append(info.LookupList,
			&gtab.LookupTable{Meta: &gtab.LookupMetaInfo{LookupType: 1}, Subtables: []gtab.Subtable{s11, s12}},
			&gtab.LookupTable{Meta: &gtab.LookupMetaInfo{LookupType: 4}, Subtables: []gtab.Subtable{s41}},
		)
		info.FeatureList = append(info.FeatureList,
			&gtab.Feature{Tag: "cpsp", Lookups: []gtab.LookupIndex{1}},
			&gtab.Feature{Tag: "mark", Lookups: []gtab.LookupIndex{2}},
		)
	}
	if c.Scripts == "multi" {
		// several features share a tag; lookups are referenced by several features
		n := gtab.LookupIndex(len(info.LookupList))
		info.FeatureList = append(info.FeatureList,
			&gtab.Feature{Tag: info.FeatureList[0].Tag, Lookups: []gtab.LookupIndex{n - 1}},
			&gtab.Feature{Tag: info.FeatureList[0].Tag, Lookups: []gtab.LookupIndex{0, n - 1}},
			&gtab.Feature{Tag: "locl", Lookups: []gtab.LookupIndex{0}},
			&gtab.Feature{Tag: "locl", Lookups: nil},
		)
	}
	info.ScriptList = scriptList(c, len(info.FeatureList))
	return info
}

func makeGdef(c Cfg, total int) *gdef.Table {
	if !c.Gdef {
		return nil
	}
	gc := classdef.Table{}
	for i := 1; i < total && i < 40; i++ {
		switch {
		case fonts.IsMarkGlyph(i):
			gc[glyph.ID(i)] = gdef.GlyphClassMark
		case i == 9 || i == 10:
			gc[glyph.ID(i)] = gdef.GlyphClassLigature
		default:
			gc[glyph.ID(i)] = gdef.GlyphClassBase
		}
	}
	if len(gc) == 0 {
		gc[0] = gdef.GlyphClassBase
	}
	t := &gdef.Table{GlyphClass: gc}
	if total > 12 && c.Gsub == "multi" {
		t.MarkAttachClass = classdef.Table{11: 1, 12: 2}
		t.MarkGlyphSets = []coverage.Set{{11: true}, {11: true, 12: true}}
	}
	return t
}

// Build instantiates a configuration.  The result depends only on (cfg, id, VERIF_SEED).
func Build(c Cfg, id int) *sfnt.Font {
	rng := rand.New(rand.NewSource(vio.Seed()*7919 + int64(id)*104729 + 17))
	n := c.N
	if c.Kind == "ttf" && n+c.Comp > 65535 {
		n = 65535 - c.Comp // the composite glyphs are appended to the n simple ones
	}
	if c.Kind == "ttf" && c.Names && n > 60000 {
		n = 60000 // post format 2 indexes custom glyph names with 16 bits: at most 65536 - 258 of them
	}
	if c.Kind == "cff" && n > 64000 {
		n = 64000 // glyph names of a simple CFF font are string ids: at most 65000 - 391 distinct names
	}
	o := fonts.Opts{Kind: c.Kind, N: n, Composites: c.Comp, Cmap: c.Cmap, Names: c.Names, FDs: c.FDs,
		FracWidths: c.Frac && c.Kind != "ttf"}
	if c.Cmap == "multi" {
		o.Cmap = "4"
	}
	f := fonts.Make(rng, o)
	total := f.NumGlyphs()
	if c.Cmap == "multi" {
		f.CMapTable = multiCmap(total)
	}
	if out, ok := f.Outlines.(*glyf.Outlines); ok {
		compositeInstr(rng, out, n, c.CInstr)
		padGlyf(rng, out, c.GlyfSize)
		rawTables(out, c.RawTabs)
	}
	if out, ok := f.Outlines.(*cff.Outlines); ok && out.ROS != nil && 2*n+1 > 65535 {
		for i := range out.GIDToCID { // CIDs are 16-bit values in the charset
			out.GIDToCID[i] = cid.CID(i)
		}
	}

	f.FamilyName = families[c.Fam]
	f.Width = os2.Width(c.Width)
	f.Weight = os2.Weight(c.Weight)
	f.IsRegular, f.IsBold, f.IsItalic, f.IsOblique = c.Reg, c.Bold, c.Ital, c.Obl
	f.IsSerif, f.IsScript = c.Serif, c.Script
	f.ItalicAngle = float64(c.Angle) / (1 << 20)
	f.Version = head.Version(uint32(c.VerHi)<<16 | uint32(c.VerLo))

	zone := time.UTC
	ns := 0
	if c.Frac {
		zone = time.FixedZone("verif", 5*3600+1800)
		ns = 123456789 + 100000000*rng.Intn(8)
	}
	created := time.Unix(int64(c.THi)<<24+int64(c.TLo), int64(ns)).In(zone)
	day := time.Duration(86401+rng.Intn(1000)) * time.Second
	modified := created.Add(day)
	switch c.TRel {
	case "equal":
		modified = created
	case "before":
		modified = created.Add(-day)
	}
	f.CreationTime, f.ModificationTime = time.Time{}, time.Time{}
	if c.Times == "c" || c.Times == "both" {
		f.CreationTime = created
	}
	if c.Times == "m" || c.Times == "both" {
		f.ModificationTime = modified
	}

	ss, ok := stringSets[c.Strs]
	if !ok {
		panic("unknown string set " + c.Strs)
	}
	f.Description, f.SampleText, f.Copyright, f.Trademark, f.License, f.LicenseURL = ss[0], ss[1], ss[2], ss[3], ss[4], ss[5]
	f.PermUse = os2.Permissions(c.Perm)
	f.CodePageRange = 0
	if c.Cpr == "low" || c.Cpr == "both" || c.Cpr == "" {
		f.CodePageRange |= os2.CodePageRange(1)<<os2.CP1252 | os2.CodePageRange(uint64(rng.Intn(2)))<<os2.CP1251
	}
	if c.Cpr == "high" || c.Cpr == "both" || c.Cpr == "" {
		f.CodePageRange |= os2.CodePageRange(1)<<os2.CP437 | os2.CodePageRange(uint64(rng.Intn(2)))<<os2.CP852
	}

	f.UnitsPerEm = uint16(c.Upm)
	q := 1 / float64(c.Upm)
	f.FontMatrix = matrix.Matrix{q, 0, 0, q, 0, 0}

	f.Ascent, f.Descent, f.LineGap = funit.Int16(c.Asc), funit.Int16(c.Desc), funit.Int16(c.Gap)
	f.CapHeight, f.XHeight = funit.Int16(c.Cap), funit.Int16(c.XH)
	f.UnderlinePosition = funit.Float64(float64(c.Ulp) / 4)
	f.UnderlineThickness = funit.Float64(float64(c.Ult) / 4)

	f.Gsub = makeGsub(c, total)
	f.Gpos = makeGpos(c, total)
	f.Gdef = makeGdef(c, total)
	stemHints(f, c)
	classTables(f, c, total)
	coverageTables(f, c, total)
	bigLayout(c, f.Gsub, total, true)
	bigLayout(c, f.Gpos, total, false)
	switch c.Big {
	case "gdef":
		f.Gdef = bigGdef(total)
	case "name":
		bigNames(f)
	}
	tuneCFF(f, c.CffIdx, c.IdxLen, c.Group == "index")
	return f
}

func (c Cfg) String() string {
	return fmt.Sprintf("%s n=%d cmap=%s comp=%d gsub=%s gpos=%s gdef=%v tags=%s fam=%s w=%d/%d flags=%v%v%v%v angle=%d",
		c.Kind, c.N, c.Cmap, c.Comp, c.Gsub, c.Gpos, c.Gdef, c.Tags, c.Fam, c.Weight, c.Width, c.Reg, c.Bold, c.Ital, c.Obl, c.Angle)
}

// multiCmap builds a cmap table with Unicode (0,3), (0,4), Windows (3,1), (3,10) and three
// Macintosh (1,0) subtables that differ in their language; (0,3)/(3,1) and (0,4)/(3,10) share
// their data, the Macintosh subtables are distinct.
func multiCmap(total int) cmap.Table {
	m4 := cmap.Format4{}
	m12 := cmap.Format12{}
	for i := 1; i < total; i++ {
		if c := fonts.CodeOf(i, false); c > 0 && c < 0x10000 {
			m4[uint16(c)] = glyph.ID(i)
		}
		if c := fonts.CodeOf(i, true); c > 0 {
			m12[uint32(c)] = glyph.ID(i)
		}
	}
	if len(m4) == 0 {
		m4[0x20] = 0
	}
	if len(m12) == 0 {
		m12[0x20] = 0
	}
	bmp, full := m4.Encode(0), m12.Encode(0)
	return cmap.Table{
		{PlatformID: 0, EncodingID: 3}:               bmp,
		{PlatformID: 0, EncodingID: 4}:               full,
		{PlatformID: 3, EncodingID: 1}:               bmp,
		{PlatformID: 3, EncodingID: 10}:              full,
		{PlatformID: 1, EncodingID: 0, Language: 0}:  bmp,
		{PlatformID: 1, EncodingID: 0, Language: 5}:  m4.Encode(5),
		{PlatformID: 1, EncodingID: 0, Language: 12}: m4.Encode(12),
		{PlatformID: 1, EncodingID: 0, Language: 3}:  m4.Encode(3),
	}
}

// padGlyf gives simple glyphs TrueType instructions so that the encoded glyf table has exactly
// size bytes (glyph records are padded to even lengths; size must be even).
func padGlyf(rng *rand.Rand, out *glyf.Outlines, size int) {
	if size <= 0 {
		return
	}
	cur := len(out.Glyphs.Encode().GlyfData)
	need := size - cur
	if need < 0 || need%2 != 0 {
		vio.Fatal(fmt.Sprintf("cannot pad a glyf table of %d bytes to %d", cur, size))
	}
	maxInstr := 0
	for i := 0; need > 0 && i < len(out.Glyphs); i++ {
		g := out.Glyphs[i]
		if g == nil {
			continue
		}
		if _, ok := g.Data.(glyf.SimpleGlyph); !ok {
			continue
		}
		old := len(out.Glyphs.Encode().GlyfData)
		l := need
		if l > 60000 {
			l = 60000
		}
		for try := 0; try < 4; try++ { // the replaced outline has another length: correct for it
			instr := make([]byte, l)
			for k := range instr {
				instr[k] = byte(1 + (k*7+i)%250)
			}
			out.Glyphs[i] = fonts.SimpleTT(fonts.RandContours(rand.New(rand.NewSource(int64(i)))), instr)
			got := len(out.Glyphs.Encode().GlyfData) - old
			want := need
			if want > 60000 {
				want = 60000
			}
			if got == want || l+want-got < 0 || l+want-got > 65535 {
				break
			}
			l += want - got
		}
		if l > maxInstr {
			maxInstr = l
		}
		need = size - len(out.Glyphs.Encode().GlyfData)
	}
	if got := len(out.Glyphs.Encode().GlyfData); got != size {
		vio.Fatal(fmt.Sprintf("padded glyf table has %d bytes, wanted %d", got, size))
	}
	out.Maxp.MaxSizeOfInstructions = uint16(maxInstr)
	_ = rng
}

// rawTables installs the raw TrueType tables with lengths 6, 5, 8, 7 (2, 1, 0, 3 mod 4): as separate
// slices, or as consecutive sub-slices of one buffer, which is what a reader that slices one file
// buffer produces.  A writer must not modify them.
func rawTables(out *glyf.Outlines, how string) {
	if how == "" || how == "none" {
		return
	}
	names := []string{"cvt ", "fpgm", "gasp", "prep"}
	lens := []int{6, 5, 8, 7}
	buf := make([]byte, 0, 64)
	for i := range names {
		for k := 0; k < lens[i]; k++ {
			buf = append(buf, byte(0x11*(i+1)+k))
		}
	}
	buf = append(buf, 0xEE, 0xEE, 0xEE, 0xEE)
	out.Tables = map[string][]byte{}
	pos := 0
	for i, n := range names {
		part := buf[pos : pos+lens[i]]
		if how == "sep" {
			part = append([]byte(nil), part...)
		}
		out.Tables[n] = part
		pos += lens[i]
	}
}
