package main

import (
	"bytes"
	"fmt"
	"math/rand"
	"strings"

	"golang.org/x/text/language"

	"seehuhn.de/go/postscript/funit"

	"seehuhn.de/go/sfnt"
	"seehuhn.de/go/sfnt/cff"
	"seehuhn.de/go/sfnt/glyf"
	"seehuhn.de/go/sfnt/glyph"
	"seehuhn.de/go/sfnt/opentype/classdef"
	"seehuhn.de/go/sfnt/opentype/coverage"
	"seehuhn.de/go/sfnt/opentype/gdef"
	"seehuhn.de/go/sfnt/opentype/gtab"

	"verif.local/harness/internal/fonts"
	"verif.local/harness/internal/vio"
)

// ---------------------------------------------------------------------------
// composite glyphs with and without instructions

// compositeInstr gives every composite glyph the instruction variant how ("nil": no instructions,
// "empty": present with length 0, "some": 8 bytes, "odd": 7 bytes) and replaces the glyph two
// before the end of the simple glyphs by a composite, so that glyphs follow a composite.
func compositeInstr(rng *rand.Rand, out *glyf.Outlines, nSimple int, how string) {
	if how == "" || how == "off" {
		return
	}
	if k := nSimple - 2; k >= 2 && out.Glyphs[0] != nil {
		out.Glyphs[k] = fonts.CompositeTT(rng, []glyph.ID{0}, funit.Rect16{LLx: -300, LLy: -300, URx: 1200, URy: 1200})
	}
	var instr []byte
	switch how {
	case "empty":
		instr = []byte{}
	case "some":
		instr = []byte{0xB0, 0x01, 0xB0, 0x02, 0x60, 0x21, 0x2F, 0x2F}
	case "odd":
		instr = []byte{0xB0, 0x01, 0xB0, 0x02, 0x60, 0x21, 0x2F}
	}
	for i, g := range out.Glyphs {
		if g == nil {
			continue
		}
		cg, ok := g.Data.(glyf.CompositeGlyph)
		if !ok || len(cg.Components) == 0 {
			continue
		}
		comps := append([]glyf.GlyphComponent(nil), cg.Components...)
		last := len(comps) - 1
		if instr != nil {
			comps[last].Flags |= glyf.FlagWeHaveInstructions
			cg.Instructions = append([]byte{}, instr...)
		} else {
			comps[last].Flags &^= glyf.FlagWeHaveInstructions
			cg.Instructions = nil
		}
		cg.Components = comps
		out.Glyphs[i] = &glyf.Glyph{Rect16: g.Rect16, Data: cg}
	}
}

// ---------------------------------------------------------------------------
// CFF: INDEX structures with data of an exact length

type cffSizes struct {
	name, topDict, str, gsubr, charStrings int // data lengths of the INDEX structures (-1: not found)
}

// indexAt returns the data length of the INDEX at pos and the position behind it.
func indexAt(d []byte, pos int) (dataLen, end int, err error) {
	if pos+2 > len(d) {
		return 0, 0, fmt.Errorf("INDEX at %d beyond the table", pos)
	}
	count := int(d[pos])<<8 | int(d[pos+1])
	if count == 0 {
		return 0, pos + 2, nil
	}
	offSize := int(d[pos+2])
	if offSize < 1 || offSize > 4 {
		return 0, 0, fmt.Errorf("INDEX at %d has offSize %d", pos, offSize)
	}
	p := pos + 3 + count*offSize
	if p+offSize > len(d) {
		return 0, 0, fmt.Errorf("INDEX at %d truncated", pos)
	}
	last := 0
	for k := 0; k < offSize; k++ {
		last = last<<8 | int(d[p+k])
	}
	return last - 1, p + offSize + last - 1, nil
}

// dictInt returns the last integer operand before operator op (two-byte operators: 12<<8|b) in a DICT.
func dictInt(d []byte, op int) (int, bool) {
	var stack []int
	for i := 0; i < len(d); {
		b := int(d[i])
		switch {
		case b <= 21:
			o := b
			i++
			if b == 12 && i < len(d) {
				o = 12<<8 | int(d[i])
				i++
			}
			if o == op && len(stack) > 0 {
				return stack[len(stack)-1], true
			}
			stack = stack[:0]
		case b == 28 && i+2 < len(d):
			stack = append(stack, int(int16(uint16(d[i+1])<<8|uint16(d[i+2]))))
			i += 3
		case b == 29 && i+4 < len(d):
			stack = append(stack, int(int32(uint32(d[i+1])<<24|uint32(d[i+2])<<16|uint32(d[i+3])<<8|uint32(d[i+4]))))
			i += 5
		case b == 30:
			i++
			for i < len(d) {
				x := d[i]
				i++
				if x&0x0F == 0x0F || x>>4 == 0x0F {
					break
				}
			}
			stack = append(stack, 0)
		case b >= 32 && b <= 246:
			stack = append(stack, b-139)
			i++
		case b >= 247 && b <= 250 && i+1 < len(d):
			stack = append(stack, (b-247)*256+int(d[i+1])+108)
			i += 2
		case b >= 251 && b <= 254 && i+1 < len(d):
			stack = append(stack, -(b-251)*256-int(d[i+1])-108)
			i += 2
		default:
			return 0, false
		}
	}
	return 0, false
}

// measureCFF encodes the CFF table of f with the library and walks its INDEX structures.
func measureCFF(f *sfnt.Font) cffSizes {
	var buf bytes.Buffer
	if err := f.AsCFF().Write(&buf); err != nil {
		return cffSizes{-1, -1, -1, -1, -1} // the cycle itself will report the failing Write
	}
	d := buf.Bytes()
	var s cffSizes
	if len(d) < 4 {
		return cffSizes{-1, -1, -1, -1, -1}
	}
	// A walk that fails (the encoder under test may be broken) leaves the remaining sizes at -1.
	s = cffSizes{-1, -1, -1, -1, -1}
	pos := int(d[2])
	var err error
	var end int
	if s.name, end, err = indexAt(d, pos); err != nil {
		return s
	}
	if s.topDict, end, err = indexAt(d, end); err != nil || end > len(d) || s.topDict < 0 || end-s.topDict < 0 {
		s.topDict = -1
		return s
	}
	td := d[end-s.topDict : end]
	if s.str, end, err = indexAt(d, end); err != nil {
		s.str = -1
	} else if s.gsubr, _, err = indexAt(d, end); err != nil {
		s.gsubr = -1
	}
	// The CharStrings INDEX is measured from the layout, not from its own last offset: its data ends where the
	// next structure named in the Top DICT (or in a Font DICT) begins.  This stays right when the offsets of the
	// INDEX itself are what is broken.
	s.charStrings = -1
	csOff, ok := dictInt(td, 17)
	if !ok || csOff <= 0 || csOff+3 > len(d) {
		return s
	}
	ends := []int{len(d)}
	for _, op := range []int{15, 16, 18, 12<<8 | 36, 12<<8 | 37} {
		if off, ok := dictInt(td, op); ok {
			ends = append(ends, off)
		}
	}
	if fdOff, ok := dictInt(td, 12<<8|36); ok && fdOff > 0 && fdOff+3 <= len(d) {
		count := int(d[fdOff])<<8 | int(d[fdOff+1])
		offSize := int(d[fdOff+2])
		if count > 0 && offSize >= 1 && offSize <= 4 && fdOff+3+(count+1)*offSize <= len(d) {
			rd := func(i int) int {
				v := 0
				for k := 0; k < offSize; k++ {
					v = v<<8 | int(d[fdOff+3+i*offSize+k])
				}
				return v
			}
			base := fdOff + 3 + (count+1)*offSize - 1
			for i := 0; i < count; i++ {
				a, b := base+rd(i), base+rd(i+1)
				if a >= 0 && a <= b && b <= len(d) {
					if off, ok := dictInt(d[a:b], 18); ok {
						ends = append(ends, off)
					}
				}
			}
		}
	}
	count := int(d[csOff])<<8 | int(d[csOff+1])
	offSize := int(d[csOff+2])
	start := csOff + 3 + (count+1)*offSize
	end = len(d)
	for _, e := range ends {
		if e > csOff && e < end {
			end = e
		}
	}
	if count > 0 && end >= start {
		s.charStrings = end - start
	}
	return s
}

// tuneCFF changes string lengths or outlines of f so that the chosen INDEX of the encoded CFF
// table has exactly want bytes of data.  Nothing is done when the INDEX is already larger.
func tuneCFF(f *sfnt.Font, which string, want int, strict bool) {
	out, ok := f.Outlines.(*cff.Outlines)
	if !ok || which == "" || which == "off" || want <= 0 {
		return
	}
	switch which {
	case "name":
		have := measureCFF(f).name
		if have < 0 || have > want {
			return
		}
		// every added character is one more byte; the result is not re-measured with the library's own encoder,
		// which may be what is wrong at exactly this length
		f.FamilyName += strings.Repeat("x", want-have)
	case "string":
		have := measureCFF(f).str
		if have < 0 || have > want {
			return
		}
		k := want - have
		if k > 60000 {
			vio.Fatal("String INDEX target out of reach")
		}
		a := k
		if a > 30000 {
			a = 30000
		}
		f.Copyright += strings.Repeat("c", a)
		f.Trademark += strings.Repeat("t", k-a)
		// measured once more a few bytes short of the target (an empty string that becomes non-empty may cost more
		// than its characters) -- at a length that is not itself next to an offset-size switch -- then completed;
		// not re-measured at the target itself
		short := 1
		for (want-short+1)%256 <= 1 {
			short++
		}
		if k > short {
			f.Copyright = f.Copyright[:len(f.Copyright)-short]
			if got := measureCFF(f).str; got >= 0 && got < want-short && want-short-got < 100 {
				f.Copyright += strings.Repeat("c", want-short-got)
			} else if got > want-short && got-(want-short) < len(f.Copyright) {
				f.Copyright = f.Copyright[:len(f.Copyright)-(got-(want-short))]
			}
			f.Copyright += strings.Repeat("c", short)
		}
	case "charstrings":
		cur := measureCFF(f).charStrings
		if cur < 0 || cur > want {
			return
		}
		type pen struct {
			g    *cff.Glyph
			x, y float64
			k    int
		}
		// one pen (a new sub-path) on the last glyph; further glyphs get one only when much is missing
		var pens []*pen
		addPen := func(g *cff.Glyph) *pen {
			g.MoveTo(10, 10)
			p := &pen{g: g, x: 10, y: 10}
			pens = append(pens, p)
			return p
		}
		lastGlyph := out.Glyphs[len(out.Glyphs)-1]
		addPen(lastGlyph)
		if after := measureCFF(f).charStrings; after < 0 || after > want {
			lastGlyph.Cmds = lastGlyph.Cmds[:len(lastGlyph.Cmds)-1]
			return
		}
		if want-cur > 2000 {
			for _, g := range out.Glyphs[:len(out.Glyphs)-1] {
				addPen(g)
			}
		}
		step := func(p *pen, dx, dy float64) {
			if p.k%2 == 1 {
				dx, dy = -dx, -dy
			}
			p.k++
			p.x += dx
			p.y += dy
			p.g.LineTo(p.x, p.y)
		}
		undo := func(p *pen, dx, dy float64) {
			p.k--
			if p.k%2 == 1 {
				dx, dy = -dx, -dy
			}
			p.x -= dx
			p.y -= dy
			p.g.Cmds = p.g.Cmds[:len(p.g.Cmds)-1]
		}
		cur = measureCFF(f).charStrings
		for want-cur > 300 {
			m := (want - cur - 100) / 3
			per := m/len(pens) + 1
			if per > 5000 {
				per = 5000
			}
			for _, p := range pens {
				for i := 0; i < per && m > 0; i++ {
					step(p, 5, 7)
					m--
				}
			}
			next := measureCFF(f).charStrings
			if next <= cur {
				return
			}
			cur = next
		}
		cands := [][2]float64{{5, 7}, {5, 0}, {0, 7}, {200, 7}, {200, 0}, {0, 300}, {200, 300}, {2000, 7}, {2000, 0}, {2000, 3000}}
		p := pens[0]
		for it := 0; cur != want && it < 1000; it++ {
			accepted := false
			for _, c := range cands {
				step(p, c[0], c[1])
				next := measureCFF(f).charStrings
				if next > cur && next <= want && want-next != 1 {
					cur = next
					accepted = true
					break
				}
				undo(p, c[0], c[1])
			}
			if !accepted {
				break
			}
		}
		if cur != want && strict { // the dedicated cover group must hit its sizes; random combinations may miss
			vio.Fatal(fmt.Sprintf("CharStrings INDEX has %d bytes, wanted %d", cur, want))
		}
	default:
		vio.Fatal("unknown INDEX " + which)
	}
}

// ---------------------------------------------------------------------------
// tables larger than the 1024-byte window of parser.Parser

var manyScripts = []string{"Arab-arab", "Armn-armn", "Beng-beng", "Beng-bng2", "Cyrl-cyrl", "Deva-deva", "Deva-dev2", "Geor-geor",
	"Grek-grek", "Gujr-gujr", "Guru-guru", "Hang-hang", "Hani-hani", "Hebr-hebr", "Kana-kana", "Khmr-khmr", "Knda-knda",
	"Latn-latn", "Mlym-mlym", "Mong-mong", "Mymr-mymr", "Orya-orya", "Sinh-sinh", "Taml-taml", "Telu-telu", "Thaa-thaa",
	"Thai-thai", "Tibt-tibt", "Ethi-ethi", "Cher-cher", "Cans-cans", "Ogam-ogam", "Runr-runr", "Syrc-syrc", "Copt-copt",
	"Goth-goth", "Brai-brai", "Bopo-bopo", "Tfng-tfng", "Bali-bali", "Java-java", "Cham-cham", "Lana-lana", "Sund-sund",
	"Glag-glag", "Hano-hano", "Buhd-buhd", "Tagb-tagb", "Limb-limb", "Tale-tale", "Bugi-bugi", "Sylo-sylo"}

// tryNormalTag is normalTag without the fatal exit.
func tryNormalTag(cand string) (t language.Tag, ok bool) {
	defer func() {
		if recover() != nil {
			ok = false
		}
	}()
	t, err := language.Parse(cand)
	if err != nil {
		return t, false
	}
	if n, have := normalCache[cand]; have {
		return n, true
	}
	info := &gtab.Info{
		ScriptList:  gtab.ScriptListInfo{t: {Required: 0xFFFF, Optional: []gtab.FeatureIndex{0}}},
		FeatureList: gtab.FeatureListInfo{{Tag: "test", Lookups: []gtab.LookupIndex{0}}},
		LookupList: gtab.LookupList{{Meta: &gtab.LookupMetaInfo{LookupType: 1},
			Subtables: []gtab.Subtable{&gtab.Gsub1_1{Cov: coverage.Set{1: true}, Delta: 1}}}},
	}
	back, err := gtab.Read(bytes.NewReader(info.Encode()), gtab.TypeGsub)
	if err != nil || len(back.ScriptList) != 1 {
		return t, false
	}
	for k := range back.ScriptList {
		t = k
	}
	// the tag must be a fixed point of the normalisation
	info.ScriptList = gtab.ScriptListInfo{t: {Required: 0xFFFF, Optional: []gtab.FeatureIndex{0}}}
	back, err = gtab.Read(bytes.NewReader(info.Encode()), gtab.TypeGsub)
	if err != nil || len(back.ScriptList) != 1 {
		return t, false
	}
	for k := range back.ScriptList {
		if k != t {
			return t, false
		}
	}
	normalCache[cand] = t
	return t, true
}

// bigLayout enlarges one list of a GSUB (isGsub) or GPOS table beyond 1024 bytes.
func bigLayout(c Cfg, info *gtab.Info, total int, isGsub bool) {
	if info == nil {
		return
	}
	g := func(k int) glyph.ID { return minGID(total, k) }
	switch c.Big {
	case "scripts":
		if c.Tags != "x" {
			return // tags without extension would denote the same script as one of the tags added here
		}
		nf := len(info.FeatureList)
		i := 0
		for _, sc := range manyScripts {
			parts := strings.Split(sc, "-")
			t, ok := tryNormalTag("und-" + parts[0] + "-x-" + parts[1])
			if !ok {
				continue
			}
			var opt []gtab.FeatureIndex
			for f := 0; f < nf && f < 6; f++ {
				if (f+i)%4 != 3 {
					opt = append(opt, gtab.FeatureIndex(f))
				}
			}
			info.ScriptList[t] = &gtab.Features{Required: 0xFFFF, Optional: opt}
			// two explicit language systems per script
			for j, lang := range []string{"de-" + parts[0] + "-x-" + parts[1] + "-deu", "tr-" + parts[0] + "-x-" + parts[1] + "-trk"} {
				if lt, ok := tryNormalTag(lang); ok && i%3 != j {
					info.ScriptList[lt] = &gtab.Features{Required: 0xFFFF, Optional: opt[:min(len(opt), len(opt)/2+j)]}
				}
			}
			i++
		}
	case "features":
		nl := len(info.LookupList)
		first := len(info.FeatureList)
		for k := 1; k <= 99; k++ {
			info.FeatureList = append(info.FeatureList,
				&gtab.Feature{Tag: fmt.Sprintf("cv%02d", k), Lookups: []gtab.LookupIndex{gtab.LookupIndex(k % nl)}})
		}
		for k := 1; k <= 20; k++ {
			info.FeatureList = append(info.FeatureList,
				&gtab.Feature{Tag: fmt.Sprintf("ss%02d", k), Lookups: []gtab.LookupIndex{gtab.LookupIndex(k % nl), gtab.LookupIndex((k + 1) % nl)}})
		}
		for k := 0; k < 60; k++ {
			info.FeatureList = append(info.FeatureList, &gtab.Feature{Tag: "aalt", Lookups: []gtab.LookupIndex{gtab.LookupIndex(k % nl)}})
		}
		for _, ls := range info.ScriptList {
			for k := first; k < len(info.FeatureList); k += 2 {
				ls.Optional = append(ls.Optional, gtab.FeatureIndex(k))
			}
		}
	case "lookups":
		if isGsub {
			var firsts []glyph.ID
			for k := 1; k < total && len(firsts) < 60; k += 2 {
				firsts = append(firsts, glyph.ID(k))
			}
			lig := &gtab.Gsub4_1{Cov: covTable(firsts)}
			for i := range firsts {
				var ll []gtab.Ligature
				for j := 0; j < 5; j++ {
					ll = append(ll, gtab.Ligature{In: []glyph.ID{g(2 + i + j), g(3 + j), g(5 + i)}[:3-j%2], Out: g(20 + i + j)})
				}
				lig.Repl = append(lig.Repl, ll)
			}
			info.LookupList = append(info.LookupList,
				&gtab.LookupTable{Meta: &gtab.LookupMetaInfo{LookupType: 4}, Subtables: []gtab.Subtable{lig}})
			for k := 0; k < 150; k++ {
				info.LookupList = append(info.LookupList, &gtab.LookupTable{Meta: &gtab.LookupMetaInfo{LookupType: 1},
					Subtables: []gtab.Subtable{&gtab.Gsub1_1{Cov: covSet(distinct(total, 2+k%20, 3+k%7)), Delta: glyph.ID(1 + k%5)}}})
			}
		} else {
			pairs := gtab.Gpos2_1{}
			for k := 0; k < 400; k++ {
				pairs[glyph.Pair{Left: g(1 + k%40), Right: g(1 + k/40*3 + k%3)}] = &gtab.PairAdjust{
					First: &gtab.GposValueRecord{XAdvance: funit.Int16(-100 + k)}}
			}
			info.LookupList = append(info.LookupList,
				&gtab.LookupTable{Meta: &gtab.LookupMetaInfo{LookupType: 2}, Subtables: []gtab.Subtable{pairs}})
			for k := 0; k < 150; k++ {
				info.LookupList = append(info.LookupList, &gtab.LookupTable{Meta: &gtab.LookupMetaInfo{LookupType: 1},
					Subtables: []gtab.Subtable{&gtab.Gpos1_1{Cov: covTable(distinct(total, 2+k%20, 3+k%7)),
						Adjust: &gtab.GposValueRecord{XAdvance: funit.Int16(1 + k)}}}})
			}
		}
		last := gtab.LookupIndex(len(info.LookupList) - 1)
		info.FeatureList = append(info.FeatureList, &gtab.Feature{Tag: "dlig", Lookups: []gtab.LookupIndex{last, last - 150}})
		for _, ls := range info.ScriptList {
			ls.Optional = append(ls.Optional, gtab.FeatureIndex(len(info.FeatureList)-1))
		}
	}
}

// bigGdef classifies every glyph (no two neighbours alike, so that nothing can be merged into
// ranges) and adds mark attachment classes and mark glyph sets behind the large class table.
func bigGdef(total int) *gdef.Table {
	gc := classdef.Table{}
	ma := classdef.Table{}
	sets := []coverage.Set{{}, {}, {}}
	for i := 1; i < total && i < 4000; i++ { // the offsets inside GDEF are 16-bit: stay well below 64 kB
		cls := uint16(1 + i%4)
		gc[glyph.ID(i)] = cls
		if cls == gdef.GlyphClassMark {
			ma[glyph.ID(i)] = uint16(1 + (i/4)%3)
			sets[(i/4)%3][glyph.ID(i)] = true
		}
	}
	if len(gc) == 0 {
		gc[0] = gdef.GlyphClassBase
	}
	t := &gdef.Table{GlyphClass: gc}
	if len(ma) > 0 {
		t.MarkAttachClass = ma
		for _, s := range sets {
			if len(s) > 0 {
				t.MarkGlyphSets = append(t.MarkGlyphSets, s)
			}
		}
	}
	return t
}

// bigNames makes the name table larger than 1 kB.
func bigNames(f *sfnt.Font) {
	f.Description += " " + strings.Repeat("A long description, sentence after sentence. ", 40)
	f.SampleText += " " + strings.Repeat("The quick brown fox jumps over the lazy dog. ", 16)
	f.License += " " + strings.Repeat("Permission is hereby granted, free of charge. ", 30)
}

// ---------------------------------------------------------------------------
// CFF stem hints at the limits of the operand stack

// stemHints replaces one glyph of a CFF font by a square with c.HCnt stem pairs in direction c.HDir and
// c.OCnt pairs in the other direction.  With c.HWidth its width differs from all other widths (which are made
// equal, so that they are the default width and only this glyph carries a width operand); without, all widths
// are equal.  With c.HMask the glyph starts with a hintmask and has a second one between its sub-paths.
func stemHints(f *sfnt.Font, c Cfg) {
	out, ok := f.Outlines.(*cff.Outlines)
	if !ok || c.HCnt == 0 {
		return
	}
	k := 2
	if k >= len(out.Glyphs) {
		k = len(out.Glyphs) - 1
	}
	for _, g := range out.Glyphs {
		g.Width = 600
	}
	g := cff.NewGlyph(out.Glyphs[k].Name, 600)
	if c.HWidth {
		g.Width = 777
	}
	stems := func(n int) []float64 {
		var s []float64
		for i := 0; i < n; i++ {
			s = append(s, float64(20*i), float64(20*i+8))
		}
		return s
	}
	if c.HDir == "v" {
		g.VStem, g.HStem = stems(c.HCnt), stems(c.OCnt)
	} else {
		g.HStem, g.VStem = stems(c.HCnt), stems(c.OCnt)
	}
	mask := func(seed int) cff.GlyphOp {
		n := c.HCnt + c.OCnt
		op := cff.GlyphOp{Op: cff.OpHintMask}
		for i := 0; i < (n+7)/8; i++ {
			b := byte(0xFF)
			if i%2 == seed%2 {
				b = 0xA5
			}
			if i == (n+7)/8-1 && n%8 != 0 {
				b &= byte(0xFF) << (8 - n%8) // only bits that denote stems
			}
			op.Args = append(op.Args, float64(b))
		}
		return op
	}
	if c.HMask {
		g.Cmds = append(g.Cmds, mask(0))
	}
	g.MoveTo(0, 0)
	g.LineTo(500, 0)
	g.LineTo(500, 500)
	g.LineTo(0, 500)
	if c.HMask {
		g.Cmds = append(g.Cmds, mask(1))
	}
	g.MoveTo(100, 100)
	g.LineTo(100, 400)
	g.LineTo(400, 400)
	out.Glyphs[k] = g
}

// ---------------------------------------------------------------------------
// class definition and coverage tables, enumerated structurally

// classTables uses the class definition table c.CTab (class of glyph 10+i) everywhere a class definition table
// occurs: GDEF glyph classes and mark attachment classes, a class-based context and a class-based chained context
// substitution, a class-based pair adjustment.  The tables replace GDEF and are added to GSUB and GPOS.
func classTables(f *sfnt.Font, c Cfg, total int) {
	if len(c.CTab) == 0 {
		return
	}
	if total < 10+len(c.CTab) {
		vio.Fatal("class tables need at least 10+span glyphs")
	}
	ct := func() classdef.Table {
		t := classdef.Table{}
		for i, cl := range c.CTab {
			if cl != 0 {
				t[glyph.ID(10+i)] = uint16(cl)
			}
		}
		return t
	}
	ncls := ct().NumClasses()
	var covered []glyph.ID
	for i := range c.CTab {
		covered = append(covered, glyph.ID(10+i))
	}
	f.Gdef = &gdef.Table{GlyphClass: ct(), MarkAttachClass: ct(),
		MarkGlyphSets: []coverage.Set{{glyph.ID(10): true, glyph.ID(12): true}}}

	single := &gtab.LookupTable{Meta: &gtab.LookupMetaInfo{LookupType: 1},
		Subtables: []gtab.Subtable{&gtab.Gsub1_1{Cov: covSet(covered), Delta: 1}}}
	ctx := &gtab.SeqContext2{Cov: covTable(covered), Input: ct()}
	cctx := &gtab.ChainedSeqContext2{Cov: covTable(covered), Backtrack: ct(), Input: ct(), Lookahead: ct()}
	for cl := 0; cl < ncls; cl++ {
		ctx.Rules = append(ctx.Rules, []*gtab.ClassSeqRule{
			{Input: []uint16{uint16((cl + 1) % ncls)}, Actions: []gtab.SeqLookup{{SequenceIndex: 0, LookupListIndex: 0}}},
			{Input: []uint16{uint16(cl), 0}, Actions: []gtab.SeqLookup{{SequenceIndex: 1, LookupListIndex: 0}}},
		})
		cctx.Rules = append(cctx.Rules, []*gtab.ChainedClassSeqRule{
			{Backtrack: []uint16{uint16(cl)}, Input: []uint16{uint16((cl + 1) % ncls)}, Lookahead: []uint16{0, uint16(ncls - 1)},
				Actions: []gtab.SeqLookup{{SequenceIndex: 0, LookupListIndex: 0}}},
		})
	}
	f.Gsub = &gtab.Info{
		ScriptList:  gtab.ScriptListInfo{normalTag("und-Latn-x-latn"): {Required: 0xFFFF, Optional: []gtab.FeatureIndex{0}}},
		FeatureList: gtab.FeatureListInfo{{Tag: "calt", Lookups: []gtab.LookupIndex{1, 2}}},
		LookupList: gtab.LookupList{single,
			{Meta: &gtab.LookupMetaInfo{LookupType: 5}, Subtables: []gtab.Subtable{ctx}},
			{Meta: &gtab.LookupMetaInfo{LookupType: 6}, Subtables: []gtab.Subtable{cctx}}},
	}

	pair := &gtab.Gpos2_2{Cov: covSet(covered), Class1: ct(), Class2: ct()}
	for a := 0; a < ncls; a++ {
		var row []*gtab.PairAdjust
		for b := 0; b < ncls; b++ {
			row = append(row, &gtab.PairAdjust{First: &gtab.GposValueRecord{XAdvance: funit.Int16(-10*a - b - 1)}})
		}
		pair.Adjust = append(pair.Adjust, row)
	}
	f.Gpos = &gtab.Info{
		ScriptList:  gtab.ScriptListInfo{normalTag("und-Latn-x-latn"): {Required: 0xFFFF, Optional: []gtab.FeatureIndex{0}}},
		FeatureList: gtab.FeatureListInfo{{Tag: "kern", Lookups: []gtab.LookupIndex{0}}},
		LookupList:  gtab.LookupList{{Meta: &gtab.LookupMetaInfo{LookupType: 2}, Subtables: []gtab.Subtable{pair}}},
	}
}

// coverageTables uses the coverage table c.Cov (glyph ids) everywhere a coverage table occurs on its own:
// single substitutions of both formats, a coverage-based context substitution, a single adjustment, a mark
// glyph set.
func coverageTables(f *sfnt.Font, c Cfg, total int) {
	if len(c.Cov) == 0 {
		return
	}
	var gids []glyph.ID
	for _, g := range c.Cov {
		if g >= total {
			vio.Fatal("coverage tables need at least 8 glyphs")
		}
		gids = append(gids, glyph.ID(g))
	}
	s12 := &gtab.Gsub1_2{Cov: covTable(gids)}
	for i := range gids {
		s12.SubstituteGlyphIDs = append(s12.SubstituteGlyphIDs, glyph.ID(8+i))
	}
	ctx := &gtab.SeqContext3{Input: []coverage.Set{covSet(gids), covSet(gids[:1]), covSet(gids[len(gids)-1:])},
		Actions: []gtab.SeqLookup{{SequenceIndex: 0, LookupListIndex: 0}}}
	f.Gsub = &gtab.Info{
		ScriptList:  gtab.ScriptListInfo{normalTag("und-Latn-x-latn"): {Required: 0xFFFF, Optional: []gtab.FeatureIndex{0}}},
		FeatureList: gtab.FeatureListInfo{{Tag: "calt", Lookups: []gtab.LookupIndex{0, 1, 2}}},
		LookupList: gtab.LookupList{
			{Meta: &gtab.LookupMetaInfo{LookupType: 1}, Subtables: []gtab.Subtable{&gtab.Gsub1_1{Cov: covSet(gids), Delta: 3}}},
			{Meta: &gtab.LookupMetaInfo{LookupType: 1}, Subtables: []gtab.Subtable{s12}},
			{Meta: &gtab.LookupMetaInfo{LookupType: 5}, Subtables: []gtab.Subtable{ctx}}},
	}
	f.Gpos = &gtab.Info{
		ScriptList:  gtab.ScriptListInfo{normalTag("und-Latn-x-latn"): {Required: 0xFFFF, Optional: []gtab.FeatureIndex{0}}},
		FeatureList: gtab.FeatureListInfo{{Tag: "cpsp", Lookups: []gtab.LookupIndex{0}}},
		LookupList: gtab.LookupList{{Meta: &gtab.LookupMetaInfo{LookupType: 1}, Subtables: []gtab.Subtable{
			&gtab.Gpos1_1{Cov: covTable(gids), Adjust: &gtab.GposValueRecord{XAdvance: 12}}}}},
	}
	gc := classdef.Table{}
	for _, g := range gids {
		gc[g] = gdef.GlyphClassMark
	}
	f.Gdef = &gdef.Table{GlyphClass: gc, MarkGlyphSets: []coverage.Set{covSet(gids), covSet(gids[:1])}}
}
