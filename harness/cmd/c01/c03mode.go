package main

// "c03fonts" mode (added for C03, which shares C01's font configurations): every built case of the
// cases file is realised with Build and handed to the recorder of C03 (harness/internal/c03rec): the
// font is written with Font.Write, the produced bytes are described by the independent directory
// walker and read by golang.org/x/image/font/sfnt next to what the font value says.  Nothing of C01's
// own cycle runs here and nothing is decided: the events are judged by spec/ContainerTrace.tla.

import (
	"fmt"

	"verif.local/harness/internal/c03rec"
	"verif.local/harness/internal/vio"
)

func c03FontsMain(casesPath, outPath string) {
	out := vio.NewOut(outPath)
	defer out.Close()
	for _, c := range vio.ReadLines[Case](casesPath) {
		if c.Src != "built" {
			continue
		}
		name := fmt.Sprintf("cover:%s/%s %s glyfsize=%d cinstr=%s cffidx=%s/%d big=%s upm=%d", c.Cfg.Group, c.Cfg.Vary, c.Cfg,
			c.Cfg.GlyfSize, c.Cfg.CInstr, c.Cfg.CffIdx, c.Cfg.IdxLen, c.Cfg.Big, c.Cfg.Upm)
		c03rec.RecordFont(out, c.ID, name, Build(c.Cfg, c.ID))
	}
}
