package main

import (
	"bytes"
	"fmt"
	"os"
	"path/filepath"

	"golang.org/x/text/language"

	"seehuhn.de/go/geom/matrix"

	"seehuhn.de/go/sfnt"
	"seehuhn.de/go/sfnt/cff"
	"seehuhn.de/go/sfnt/cmap"
	"seehuhn.de/go/sfnt/glyf"
	"seehuhn.de/go/sfnt/glyph"
	"seehuhn.de/go/sfnt/opentype/classdef"
	"seehuhn.de/go/sfnt/opentype/coverage"
	"seehuhn.de/go/sfnt/opentype/gtab"
	"seehuhn.de/go/sfnt/opentype/gtab/builder"
	"seehuhn.de/go/sfnt/post"

	"verif.local/harness/internal/fonts"
	"verif.local/harness/internal/vio"
)

// fontSpec names one shared font of the campaign.
type fontSpec struct {
	ID    string
	Desc  string
	build func() (*sfnt.Font, error)
}

// macRomanNames returns the slice post.Read hands out for a version-1 "post" table:
// the package-level table post.macRoman itself (not a copy).
func macRomanNames() []string {
	tab := make([]byte, 32)
	tab[1] = 1 // version 0x00010000
	info, err := post.Read(bytes.NewReader(tab))
	if err != nil {
		fatal(fmt.Errorf("post.Read of a version 1 table: %v", err))
	}
	return info.Names
}

// bytesDir (C16_BYTES) holds the files of the read-back fonts, written by `c16 fonts`.  A process
// that finds the file only reads it: it does not encode anything before its first case (cold
// cases: no package-level state of the writers has been touched).
func roundTripID(id string, mk func() (*sfnt.Font, error)) func() (*sfnt.Font, error) {
	return func() (*sfnt.Font, error) {
		dir := os.Getenv("C16_BYTES")
		var path string
		if dir != "" {
			path = filepath.Join(dir, id+".bin")
			if data, err := os.ReadFile(path); err == nil {
				return sfnt.Read(bytes.NewReader(data))
			}
		}
		f, err := mk()
		if err != nil {
			return nil, err
		}
		var buf bytes.Buffer
		if _, err := f.Write(&buf); err != nil {
			return nil, err
		}
		if path != "" {
			if err := os.WriteFile(path, buf.Bytes(), 0o644); err != nil {
				return nil, err
			}
		}
		return sfnt.Read(bytes.NewReader(buf.Bytes()))
	}
}

// The lookups of the "rich" fonts, in the notation of the builder package: every GSUB type 1-6
// and GPOS type 1-4 in every format the notation reaches, contextual and chained rules with two
// backtrack and two lookahead glyphs.  GPOS 7 and 8 reuse the contextual subtables.
const richGsub = `
	GSUB1: C->D, c->d
	GSUB1: a->e, b->e, g->e
	GSUB2: d -> "ab", h -> "gg"
	GSUB3: e -> [ "gh" ]
	GSUB4: f i -> fi, f l -> fl
	GSUB4: -marks T o -> V
	GSUB5:
		"abc" -> 0@2, "abd" -> 1@0 1@1 ||
		class :x: = [a-d]
		class :y: = [e g h]
		/a b/ :x: :y: -> 1@0, :x: :: :y: -> 1@2 ||
		[a b] [c d] [e g] -> 0@1
	GSUB6:
		A B | C | D T -> 0@0, B A | c | V o -> 0@0 ||
		inputclass :in: = [C c]
		backtrackclass :bt: = [A B]
		lookaheadclass :la: = [D T V]
		/C c/ :bt: :bt: | :in: | :la: :la: -> 0@0 ||
		[A] [A B] | [C c] | [D T] [V o] -> 0@0
`

const richGpos = `
	GPOS1: [A-C] -> y+10 ||
		D -> dx-1, T -> dx+1, V -> x+1, o -> y+1
	GPOS2: A V -> dx-100, o o -> dx+100, "AT" -> dx-80
	GPOS2: T e -> y+100 dx-50 & y-100
	GPOS2:
		/A T V o/
		first V o, A T;
		second e o, V T;
		_, _, _,
		_, dx-50 & y-10, dx+10,
		_, dx-10 & y+10, dx-30
	GPOS3:
		A: 1,1 to 2,2; B: 1,0 to 0,1 ||
		T: 1,1 to 2,2; V: 1,1 to 2,2
	GPOS4:
		mark acutecomb: 0@100,100;
		mark gravecomb: 1@200,100;
		base A: @400,1000 @500,1000;
		base B: @500,1000 @600,900;
		base o: @500,1000 @500,-1000;
`

// richFont adds the lookups above (and a GDEF table with mark glyph sets) to a constructed font
// with glyph names.
func richFont(kind string, seed int64) (*sfnt.Font, error) {
	f := fonts.Make(vio.Rand(seed), fonts.Opts{Kind: kind, N: 30, Cmap: "4", Names: true, Gdef: true})
	gsub, err := builder.Parse(f, richGsub)
	if err != nil {
		return nil, fmt.Errorf("rich GSUB: %v", err)
	}
	gpos, err := builder.Parse(f, richGpos)
	if err != nil {
		return nil, fmt.Errorf("rich GPOS: %v", err)
	}
	// GPOS 7 (contextual) and 8 (chained contextual) positioning: the same rule structures,
	// with nested actions that point to the single-adjustment lookup 0
	ctx, err := builder.Parse(f, `
	GSUB5:
		"AV" -> 0@0, "To" -> 0@0 0@1 ||
		class :x: = [A B]
		class :y: = [T V]
		/A B/ :x: :y: -> 0@0 ||
		[A B] [T V] -> 0@1
	GSUB6:
		A B | C | D T -> 0@0, B A | D | V o -> 0@0 ||
		inputclass :in: = [C D]
		backtrackclass :bt: = [A B]
		lookaheadclass :la: = [D T V]
		/C D/ :bt: :bt: | :in: | :la: :la: -> 0@0 ||
		[A] [A B] | [C D] | [D T] [V o] -> 0@0
	`)
	if err != nil {
		return nil, fmt.Errorf("rich GPOS 7/8: %v", err)
	}
	for i, l := range ctx {
		l.Meta.LookupType = uint16(7 + i)
		gpos = append(gpos, l)
	}
	all := func(ll gtab.LookupList) []gtab.LookupIndex {
		var res []gtab.LookupIndex
		for i := range ll {
			res = append(res, gtab.LookupIndex(i))
		}
		return res
	}
	script := language.MustParse("und-Latn-x-latn") // round-trips through the script list (und-Zyyy does not)
	// lookups 0 and 1 of GSUB are only used as nested lookups
	f.Gsub = &gtab.Info{
		ScriptList:  gtab.ScriptListInfo{script: {Required: 0xFFFF, Optional: []gtab.FeatureIndex{0, 1}}},
		FeatureList: gtab.FeatureListInfo{{Tag: "calt", Lookups: all(gsub)[2:]}, {Tag: "smcp", Lookups: all(gsub)[:2]}},
		LookupList:  gsub,
	}
	f.Gpos = &gtab.Info{
		ScriptList:  gtab.ScriptListInfo{script: {Required: 0xFFFF, Optional: []gtab.FeatureIndex{0, 1}}},
		FeatureList: gtab.FeatureListInfo{{Tag: "kern", Lookups: all(gpos)[1:]}, {Tag: "zzzz", Lookups: all(gpos)[:1]}},
		LookupList:  gpos,
	}
	if f.Gdef != nil {
		f.Gdef.MarkGlyphSets = []coverage.Set{{11: true}, {11: true, 12: true}}
		f.Gdef.MarkAttachClass = classdef.Table{11: 1, 12: 2}
		gsub[5].Meta.LookupFlags |= gtab.UseMarkFilteringSet
		gsub[5].Meta.LookupFlags &^= gtab.IgnoreMarks
		gsub[5].Meta.MarkFilteringSet = 1
	}
	return f, nil
}

// cid3Font is a CID-keyed font whose glyphs are assigned to the private dictionaries block-wise
// (16 glyphs each), so that the FDSelect structure is written in format 3 (ranges) and the
// read-back font carries the closure cff.readFDSelect installs; every dictionary has its own
// font matrix, so that a wrong dictionary shows in widths and boxes.
func cid3Font() (*sfnt.Font, error) {
	f := fonts.Make(vio.Rand(78), fonts.Opts{Kind: "cid", N: 48, Cmap: "4", FDs: 3, FracWidths: true})
	o := f.Outlines.(*cff.Outlines)
	o.FDSelect = func(g glyph.ID) int { return int(g) / 16 % 3 }
	for i := range o.FontMatrices {
		s := 1 + 0.5*float64(i)
		o.FontMatrices[i] = matrix.Matrix{s, 0, 0, s, 0, 0}
	}
	return f, nil
}

// fontSet lists the fonts of a tier.  Constructed fonts ("mk"), the same fonts after one
// write/read cycle ("rt": the representation sfnt.Read produces), Go Regular as read by the
// library, and a TrueType font whose "post" table has version 1, so that Outlines.Names is
// the shared package-level table post.macRoman.
func fontSet(thorough bool) []fontSpec {
	var res []fontSpec
	corpus := fonts.Corpus(thorough)
	for i, o := range corpus {
		i, o := i, o
		mk := func() (*sfnt.Font, error) { return fonts.Make(vio.Rand(int64(100+i)), o), nil }
		res = append(res, fontSpec{ID: fmt.Sprintf("mk%d", i), Desc: "constructed " + o.String(), build: mk})
		if thorough || i < 3 {
			id := fmt.Sprintf("rt%d", i)
			res = append(res, fontSpec{ID: id, Desc: "read back " + o.String(), build: roundTripID(id, mk)})
		}
	}
	lk := func() (*sfnt.Font, error) { return richFont("ttf", 79) }
	res = append(res, fontSpec{ID: "lk", Desc: "constructed TrueType, glyph names (post 2), GDEF mark sets, GSUB 1-6 / GPOS 1-4,7,8 in all formats", build: lk})
	res = append(res, fontSpec{ID: "lkrt", Desc: "read back TrueType with GSUB 1-6 / GPOS 1-4,7,8 in all formats", build: roundTripID("lkrt", lk)})
	res = append(res, fontSpec{ID: "cid3", Desc: "constructed CID-keyed CFF, 3 private dicts assigned block-wise, own font matrices", build: cid3Font})
	res = append(res, fontSpec{ID: "cid3rt", Desc: "read back CID-keyed CFF with FDSelect format 3 (closure installed by the reader)",
		build: roundTripID("cid3rt", cid3Font)})
	deg := func() (*sfnt.Font, error) {
		f, err := richFont("ttf", 79)
		if err == nil {
			degenerate(f, false)
		}
		return f, err
	}
	deg2 := func() (*sfnt.Font, error) {
		f, err := richFont("ttf", 79)
		if err == nil {
			degenerate(f, true)
		}
		return f, err
	}
	res = append(res, fontSpec{ID: "deg2", Desc: "the degenerate TrueType font, coverage indices in descending glyph order (the encoders refuse it: Write panics, alone and concurrently)", build: deg2})
	res = append(res, fontSpec{ID: "deg", Desc: "the rich TrueType font with degenerate values: explicit class 0 / false entries in every class and coverage map, alternates descending with a duplicate, ligature sets reversed, empty-not-nil slices, unsorted duplicate feature lookups, empty tables", build: deg})
	if thorough {
		degc := func() (*sfnt.Font, error) {
			f, err := richFont("cff", 80)
			if err == nil {
				degenerate(f, false)
			}
			return f, err
		}
		res = append(res, fontSpec{ID: "degc", Desc: "the rich CFF font with degenerate values in the layout tables", build: degc})
		lkc := func() (*sfnt.Font, error) { return richFont("cff", 80) }
		res = append(res, fontSpec{ID: "lkc", Desc: "constructed CFF with GSUB 1-6 / GPOS 1-4,7,8 in all formats", build: lkc})
		res = append(res, fontSpec{ID: "lkcrt", Desc: "read back CFF with GSUB 1-6 / GPOS 1-4,7,8 in all formats", build: roundTripID("lkcrt", lkc)})
	}
	// optional data missing in the font value: operations must not fill it in behind the caller's back
	res = append(res, fontSpec{ID: "cffnn", Desc: "constructed simple CFF font in which glyphs 2 and 4 have an empty name",
		build: func() (*sfnt.Font, error) {
			f := fonts.Make(vio.Rand(311), fonts.Opts{Kind: "cff", N: 7, Cmap: "4", Names: true})
			o := f.Outlines.(*cff.Outlines)
			for _, i := range []int{2, 4} {
				if i < len(o.Glyphs) {
					o.Glyphs[i].Name = ""
				}
			}
			return f, nil
		}})
	res = append(res, fontSpec{ID: "ttfsn", Desc: "constructed TrueType font whose names list is shorter than the glyph count and has an empty entry",
		build: func() (*sfnt.Font, error) {
			f := fonts.Make(vio.Rand(312), fonts.Opts{Kind: "ttf", N: 9, Cmap: "4", Names: true})
			o := f.Outlines.(*glyf.Outlines)
			if len(o.Names) > 5 {
				o.Names = append([]string(nil), o.Names[:5]...)
				o.Names[3] = ""
			}
			return f, nil
		}})
	res = append(res, fontSpec{ID: "lken", Desc: "the rich TrueType font (GSUB 1-6) with a full-length names list in which the glyphs no character reaches, and every third other glyph, have an empty name",
		build: func() (*sfnt.Font, error) {
			f, err := richFont("ttf", 80)
			if err != nil {
				return nil, err
			}
			o := f.Outlines.(*glyf.Outlines)
			mapped := map[glyph.ID]bool{}
			if best, err := f.CMapTable.GetBest(); err == nil {
				lo, hi := best.CodeRange()
				for r := lo; r <= hi && r < lo+70000; r++ {
					if g := best.Lookup(r); g != 0 {
						mapped[g] = true
					}
				}
			}
			for i := 1; i < len(o.Names); i++ {
				if !mapped[glyph.ID(i)] || i%3 == 0 {
					o.Names[i] = ""
				}
			}
			return f, nil
		}})
	res = append(res, fontSpec{ID: "lkeg", Desc: "the rich TrueType font (GSUB 1-6) whose character map reaches the odd glyphs only; exactly the glyphs no character reaches have an empty name (names for them can only come from GSUB rules)",
		build: func() (*sfnt.Font, error) {
			f, err := richFont("ttf", 80)
			if err != nil {
				return nil, err
			}
			o := f.Outlines.(*glyf.Outlines)
			m := cmap.Format4{}
			mapped := map[glyph.ID]bool{}
			if best, err := f.CMapTable.GetBest(); err == nil {
				lo, hi := best.CodeRange()
				for r := lo; r <= hi && r < 0xFFFF; r++ {
					if g := best.Lookup(r); g != 0 && g%2 == 1 {
						m[uint16(r)] = g
						mapped[g] = true
					}
				}
			}
			f.InstallCMap(m)
			for i := 1; i < len(o.Names); i++ {
				if !mapped[glyph.ID(i)] {
					o.Names[i] = ""
				}
			}
			return f, nil
		}})
	res = append(res, fontSpec{ID: "goregular", Desc: "Go Regular (golang.org/x/image) read by sfnt.Read",
		build: fonts.GoRegular})
	res = append(res, fontSpec{ID: "macroman", Desc: "258-glyph TrueType font with post version 1: Names is post.macRoman",
		build: roundTripID("macroman", func() (*sfnt.Font, error) {
			mr := macRomanNames()
			f := fonts.Make(vio.Rand(77), fonts.Opts{Kind: "ttf", N: len(mr), Cmap: "4", Names: true})
			o := f.Outlines.(*glyf.Outlines)
			if len(o.Glyphs) != len(mr) {
				return nil, fmt.Errorf("macroman: %d glyphs, %d names", len(o.Glyphs), len(mr))
			}
			o.Names = append([]string(nil), mr...)
			// whether the result really aliases post.macRoman is reported by `c16 fonts`
			return f, nil
		})})
	// every slice with spare capacity, neighbouring slices cut from one array (spare.go)
	withSpare := func(mk func() (*sfnt.Font, error)) func() (*sfnt.Font, error) {
		return func() (*sfnt.Font, error) {
			f, err := mk()
			if err == nil {
				spareCapacity(f)
			}
			return f, err
		}
	}
	byID := map[string]fontSpec{}
	for _, fs := range res {
		byID[fs.ID] = fs
	}
	spared := []string{"deg", "lkrt", "rt1", "cid3rt"}
	if thorough {
		spared = append(spared, "degc", "lkcrt", "rt0", "rt2", "rt4", "rt7", "goregular")
	}
	for _, id := range spared {
		if fs, ok := byID[id]; ok {
			res = append(res, fontSpec{ID: id + "sp", Desc: "every slice with spare capacity and a sentinel, neighbouring slices cut from one array: " + fs.Desc,
				build: withSpare(fs.build)})
		}
	}
	// read from a file with non-canonical ignored fields (cmap language fields, padding)
	nc := func(id string, mk func() (*sfnt.Font, error)) fontSpec {
		return fontSpec{ID: id + "nc", Desc: "read from a file whose cmap language fields and padding bytes are non-zero: " + byID[id].Desc,
			build: func() (*sfnt.Font, error) {
				f, err := mk()
				if err != nil {
					return nil, err
				}
				var buf bytes.Buffer
				if _, err := f.Write(&buf); err != nil {
					return nil, err
				}
				data, n, err := nonCanonical(buf.Bytes())
				if err != nil || n == 0 {
					return nil, fmt.Errorf("nonCanonical: %d fields patched, %v", n, err)
				}
				return sfnt.Read(bytes.NewReader(data))
			}}
	}
	res = append(res, nc("mk0", byID["mk0"].build))
	if thorough {
		res = append(res, nc("mk1", byID["mk1"].build), nc("cid3", byID["cid3"].build), nc("lk", byID["lk"].build))
	}
	res = append(res, catalogFonts()...)
	return res
}

func findFont(id string) fontSpec {
	for _, fs := range fontSet(vio.Thorough()) {
		if fs.ID == id {
			return fs
		}
	}
	// replay of a case recorded in the other tier
	for _, fs := range fontSet(true) {
		if fs.ID == id {
			return fs
		}
	}
	fatal("unknown font " + id)
	panic("unreachable")
}
