package main

import (
	"bytes"
	"fmt"

	"seehuhn.de/go/sfnt"
	"seehuhn.de/go/sfnt/glyf"
	"seehuhn.de/go/sfnt/post"

	"verif.local/harness/internal/fonts"
	"verif.local/harness/internal/vio"
)

// fontSpec names one shared font of the campaign.
type fontSpec struct {
	ID    string
	Desc  string
	build func() (*sfnt.Font, error)
}

// macRomanNames returns the slice post.Read hands out for a version-1 "post" table:
// the package-level table post.macRoman itself (not a copy).
func macRomanNames() []string {
	tab := make([]byte, 32)
	tab[1] = 1 // version 0x00010000
	info, err := post.Read(bytes.NewReader(tab))
	if err != nil {
		fatal(fmt.Errorf("post.Read of a version 1 table: %v", err))
	}
	return info.Names
}

func roundTrip(f *sfnt.Font) (*sfnt.Font, error) {
	var buf bytes.Buffer
	if _, err := f.Write(&buf); err != nil {
		return nil, err
	}
	return sfnt.Read(bytes.NewReader(buf.Bytes()))
}

// fontSet lists the fonts of a tier.  Constructed fonts ("mk"), the same fonts after one
// write/read cycle ("rt": the representation sfnt.Read produces), Go Regular as read by the
// library, and a TrueType font whose "post" table has version 1, so that Outlines.Names is
// the shared package-level table post.macRoman.
func fontSet(thorough bool) []fontSpec {
	var res []fontSpec
	corpus := fonts.Corpus(thorough)
	for i, o := range corpus {
		i, o := i, o
		mk := func() (*sfnt.Font, error) { return fonts.Make(vio.Rand(int64(100+i)), o), nil }
		res = append(res, fontSpec{ID: fmt.Sprintf("mk%d", i), Desc: "constructed " + o.String(), build: mk})
		if thorough || i < 3 {
			res = append(res, fontSpec{ID: fmt.Sprintf("rt%d", i), Desc: "read back " + o.String(),
				build: func() (*sfnt.Font, error) {
					f, _ := mk()
					return roundTrip(f)
				}})
		}
	}
	res = append(res, fontSpec{ID: "goregular", Desc: "Go Regular (golang.org/x/image) read by sfnt.Read",
		build: fonts.GoRegular})
	res = append(res, fontSpec{ID: "macroman", Desc: "258-glyph TrueType font with post version 1: Names is post.macRoman",
		build: func() (*sfnt.Font, error) {
			mr := macRomanNames()
			f := fonts.Make(vio.Rand(77), fonts.Opts{Kind: "ttf", N: len(mr), Cmap: "4", Names: true})
			o := f.Outlines.(*glyf.Outlines)
			if len(o.Glyphs) != len(mr) {
				return nil, fmt.Errorf("macroman: %d glyphs, %d names", len(o.Glyphs), len(mr))
			}
			o.Names = append([]string(nil), mr...)
			// whether the result really aliases post.macRoman is reported by `c16 fonts`
			return roundTrip(f)
		}})
	return res
}

func findFont(id string) fontSpec {
	for _, fs := range fontSet(vio.Thorough()) {
		if fs.ID == id {
			return fs
		}
	}
	// replay of a case recorded in the other tier
	for _, fs := range fontSet(true) {
		if fs.ID == id {
			return fs
		}
	}
	fatal("unknown font " + id)
	panic("unreachable")
}
