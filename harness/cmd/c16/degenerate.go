package main

import (
	"encoding/json"
	"fmt"
	"os"
	"reflect"

	"golang.org/x/text/language"

	"seehuhn.de/go/postscript/funit"

	"seehuhn.de/go/sfnt"
	"seehuhn.de/go/sfnt/cff"
	"seehuhn.de/go/sfnt/glyf"
	"seehuhn.de/go/sfnt/glyph"
	"seehuhn.de/go/sfnt/opentype/coverage"
	"seehuhn.de/go/sfnt/opentype/gtab"

	"verif.local/harness/internal/fonts"
	"verif.local/harness/internal/shapex"
	"verif.local/harness/internal/vio"
)

// Degenerate-but-representable values.  The property is about every font value a program can
// build, not only about what sfnt.Read produces: explicit zero entries in map-typed tables (an
// explicit class 0 in a class definition, an explicit false in a coverage set), slices whose
// order is semantically free or meaningful but unusual (alternates in descending order, with a
// duplicate; ligature sets with the short ligature first), empty-but-not-nil slices, unsorted and
// duplicate lookup indices in a feature, empty mark glyph sets, empty raw tables.

var glyphIDType = reflect.TypeOf(glyph.ID(0))

// zeroEntries adds an explicit zero-valued entry for the unused glyph to every map from glyph
// IDs to classes (uint16) or to membership (bool) reachable from v through exported fields.
func zeroEntries(v reflect.Value, unused glyph.ID, count *int, depth int) {
	if depth > 40 {
		return
	}
	switch v.Kind() {
	case reflect.Pointer, reflect.Interface:
		if !v.IsNil() {
			zeroEntries(v.Elem(), unused, count, depth+1)
		}
	case reflect.Struct:
		for i := 0; i < v.NumField(); i++ {
			if v.Type().Field(i).IsExported() {
				zeroEntries(v.Field(i), unused, count, depth+1)
			}
		}
	case reflect.Slice, reflect.Array:
		for i := 0; i < v.Len(); i++ {
			zeroEntries(v.Index(i), unused, count, depth+1)
		}
	case reflect.Map:
		if v.IsNil() {
			return
		}
		t := v.Type()
		if t.Key() == glyphIDType && (t.Elem().Kind() == reflect.Uint16 || t.Elem().Kind() == reflect.Bool) {
			k := reflect.ValueOf(unused)
			if !v.MapIndex(k).IsValid() {
				v.SetMapIndex(k, reflect.Zero(t.Elem()))
				*count++
			}
			return
		}
		it := v.MapRange()
		for it.Next() {
			zeroEntries(it.Value(), unused, count, depth+1)
		}
	}
}

var coverageTableType = reflect.TypeOf(coverage.Table(nil))

// permuteCoverage: a subtable with a coverage table (glyph -> index) and exactly one array indexed by
// the coverage index.  The indices are renumbered in descending glyph order and the array is
// reversed with them: the same mapping, but "coverage order" is not glyph order any more (an
// encoder has to bring both into glyph order -- on its own copies).
func permuteCoverage(v reflect.Value) bool {
	if v.Kind() == reflect.Pointer {
		if v.IsNil() {
			return false
		}
		v = v.Elem()
	}
	if v.Kind() != reflect.Struct {
		return false
	}
	cov := v.FieldByName("Cov")
	if !cov.IsValid() || cov.Type() != coverageTableType || cov.Len() < 2 {
		return false
	}
	var arr reflect.Value
	count := 0
	for i := 0; i < v.NumField(); i++ {
		fld := v.Field(i)
		if fld.Kind() == reflect.Slice && fld.Len() == cov.Len() && v.Type().Field(i).IsExported() {
			arr = fld
			count++
		}
	}
	if count != 1 {
		return false
	}
	tbl := cov.Interface().(coverage.Table)
	k := len(tbl)
	for gid, idx := range tbl {
		if idx < 0 || idx >= k {
			return false
		}
		tbl[gid] = k - 1 - idx
	}
	swap := reflect.Swapper(arr.Interface())
	for a, b := 0, k-1; a < b; a, b = a+1, b-1 {
		swap(a, b)
	}
	return true
}

// degenerate rewrites the layout tables and outlines of a rich font into degenerate forms.
// It returns the number of values changed (reported by `c16 fonts`).
func degenerate(f *sfnt.Font, permute bool) int {
	n := 0
	unused := glyph.ID(f.NumGlyphs() - 2) // (not the last one: single substitutions add a delta)
	for _, root := range []any{f.Gdef, f.Gsub, f.Gpos} {
		zeroEntries(reflect.ValueOf(root), unused, &n, 0)
	}
	if f.Gdef != nil {
		f.Gdef.MarkGlyphSets = append(f.Gdef.MarkGlyphSets, coverage.Set{}, coverage.Set{11: true, unused: false})
		n += 2
	}
	for _, info := range []*gtab.Info{f.Gsub, f.Gpos} {
		if info == nil {
			continue
		}
		for _, l := range info.LookupList {
			for _, st := range l.Subtables {
				if permute && permuteCoverage(reflect.ValueOf(st)) {
					n++
				}
				switch st := st.(type) {
				case *gtab.Gsub3_1:
					for i, alt := range st.Alternates {
						// descending order, the last one listed twice
						for a, b := 0, len(alt)-1; a < b; a, b = a+1, b-1 {
							alt[a], alt[b] = alt[b], alt[a]
						}
						if len(alt) > 0 {
							st.Alternates[i] = append(alt, alt[0])
						}
						n++
					}
				case *gtab.Gsub4_1:
					for _, ligs := range st.Repl {
						for a, b := 0, len(ligs)-1; a < b; a, b = a+1, b-1 {
							ligs[a], ligs[b] = ligs[b], ligs[a]
						}
						n++
					}
				case *gtab.Gsub2_1:
					for i := range st.Repl {
						if len(st.Repl[i]) > 1 {
							st.Repl[i] = append(make([]glyph.ID, 0, 8), st.Repl[i]...) // spare capacity
							n++
						}
					}
				case *gtab.ChainedSeqContext1:
					for _, rules := range st.Rules {
						for _, r := range rules {
							if r.Lookahead == nil {
								r.Lookahead = []glyph.ID{} // empty, not nil
								n++
							}
						}
					}
				case gtab.Gpos2_1:
					k := glyph.Pair{Left: unused, Right: unused}
					if _, ok := st[k]; !ok {
						st[k] = &gtab.PairAdjust{} // both value records nil
						n++
					}
				}
			}
		}
		// lookup indices of a feature unsorted and listed twice; an optional feature listed twice
		for _, feat := range info.FeatureList {
			if len(feat.Lookups) >= 2 {
				ll := feat.Lookups
				ll[0], ll[len(ll)-1] = ll[len(ll)-1], ll[0]
				feat.Lookups = append(ll, ll[0])
				n++
			}
		}
		for _, feats := range info.ScriptList {
			if len(feats.Optional) > 0 {
				feats.Optional = append(feats.Optional, feats.Optional[0])
				n++
			}
		}
	}
	if o, ok := f.Outlines.(*glyf.Outlines); ok {
		o.Tables["cvt "] = []byte{}        // present and empty
		o.Tables["fpgm"] = nil             // listed and absent
		o.Tables["prep"] = []byte{0xB0, 0} // odd length (padding)
		o.Widths = append(make([]funit.Int16, 0, len(o.Widths)+7), o.Widths...)
		n += 4
		if len(o.Names) > 20 {
			// a duplicate and two missing names: MakeGlyphNames has to infer names from cmap and GSUB
			o.Names[5] = o.Names[4]
			o.Names[9], o.Names[19] = "", ""
			n += 3
		}
	}
	if o, ok := f.Outlines.(*cff.Outlines); ok && len(o.Glyphs) > 20 {
		o.Glyphs[5].Name = o.Glyphs[4].Name
		o.Glyphs[9].Name, o.Glyphs[19].Name = "", ""
		n += 3
	}
	return n
}

// catalogFonts builds one small TrueType font per catalogue case of lib/shaper_cat.py (file named
// by C16_CATALOG): the lookup lists of the malformed and ctxnest families -- rules with 70 nested
// actions, out-of-range sequence and lookup indices, self reference, classes outside their
// tables -- through shapex.Build.  Glyphs 1..6 of the catalogue alphabet are " ABCDf".
func catalogFonts() []fontSpec {
	path := os.Getenv("C16_CATALOG")
	if path == "" {
		return nil
	}
	data, err := os.ReadFile(path)
	if err != nil {
		fatal(err)
	}
	var cases []shapex.Case
	if err := json.Unmarshal(data, &cases); err != nil {
		fatal(fmt.Errorf("catalogue: %v", err))
	}
	var res []fontSpec
	for i := range cases {
		c := &cases[i]
		res = append(res, fontSpec{ID: fmt.Sprintf("cat%d", c.ID),
			Desc: fmt.Sprintf("catalogue lookup list %q (%d lookups) in an 8-glyph TrueType font", c.Family, len(c.LL)),
			build: func() (*sfnt.Font, error) {
				b, err := shapex.Build(c)
				if err != nil {
					return nil, fmt.Errorf("catalogue case %d: %v", c.ID, err)
				}
				f := fonts.Make(vio.Rand(81), fonts.Opts{Kind: "ttf", N: 8, Cmap: "4", Names: true})
				var order []gtab.LookupIndex
				for _, o := range c.Order {
					order = append(order, gtab.LookupIndex(o-1))
				}
				gpos := len(c.LL) > 0 && c.LL[0].Gpos
				tag := "calt"
				if gpos {
					tag = "kern"
				}
				info := &gtab.Info{
					ScriptList:  gtab.ScriptListInfo{language.MustParse("und-Latn-x-latn"): {Required: 0xFFFF, Optional: []gtab.FeatureIndex{0}}},
					FeatureList: gtab.FeatureListInfo{{Tag: tag, Lookups: order}},
					LookupList:  b.LL,
				}
				if gpos {
					f.Gpos = info
				} else {
					f.Gsub = info
				}
				f.Gdef = b.Gdef
				return f, nil
			}})
	}
	return res
}
