package main

import (
	"errors"
	"fmt"
	"io"
	"os"
	"slices"
	"sort"
	"strconv"
	"strings"
	"sync"
	"time"

	"seehuhn.de/go/sfnt"
	"seehuhn.de/go/sfnt/glyf"
	"seehuhn.de/go/sfnt/glyph"
	"seehuhn.de/go/sfnt/opentype/gtab"

	"verif.local/harness/internal/fprint"
	"verif.local/harness/internal/vio"
)

// The shared locations of spec/SharedFontOps.tla, measured on the real font.
var sharedNames = []string{"scalars", "outl", "cmap", "gdef", "gsub", "gpos", "pkg"}

// pkgTables is what the packages hand out at package level.
var pkgTables []any

func init() {
	pkgTables = []any{macRomanNames(), gtab.GsubDefaultFeatures, gtab.GposDefaultFeatures}
}

// measure returns the shape fingerprint (contents and identities, incl. unexported
// fields, maps, spare slice capacity) of every shared location, in the order of
// sharedNames, and the number of values visited.
func measure(f *sfnt.Font) ([]string, int) {
	s, _, n := measure2(f)
	return s, n
}

// measure2 also returns the content-only fingerprints (no identities: equal for two
// instances of the same font value).
func measure2(f *sfnt.Font) ([]string, []string, int) {
	scalars := *f // the plain fields: everything but the five references
	scalars.Outlines, scalars.CMapTable, scalars.Gdef, scalars.Gsub, scalars.Gpos = nil, nil, nil, nil, nil
	parts := [][]any{{scalars}, {f.Outlines}, {f.CMapTable}, {f.Gdef}, {f.Gsub}, {f.Gpos}, pkgTables}
	res := make([]string, len(parts))
	cont := make([]string, len(parts))
	nodes := 0
	for i, p := range parts {
		fp := fprint.Of(p...)
		res[i] = fp.Shape
		cont[i] = fp.Content
		nodes += fp.Nodes
	}
	return res, cont, nodes
}

type fontInfo struct {
	ID     string   `json:"id"`
	Desc   string   `json:"desc"`
	Ops    []string `json:"ops"`
	Glyphs int      `json:"glyphs"`
	Nodes  int      `json:"nodes"` // values covered by one fingerprint
	PkgVia bool     `json:"pkg_alias"`
	Probes int      `json:"probes"`        // deliberate hidden writes tried on the harness's copy
	Seen   int      `json:"probes_seen"`   // ... noticed by the fingerprint of exactly that location
	Missed []string `json:"probes_missed"` //
}

func cmdFonts(out string) {
	var res []fontInfo
	for _, fs := range fontSet(vio.Thorough()) {
		f, err := fs.build()
		if err != nil {
			fatal(fmt.Errorf("font %s: %v", fs.ID, err))
		}
		_, nodes := measure(f)
		tried, seen, missed := sensitivity(f)
		res = append(res, fontInfo{ID: fs.ID, Desc: fs.Desc, Ops: applicable(f), Glyphs: f.NumGlyphs(), Nodes: nodes,
			PkgVia: aliasesMacRoman(f), Probes: tried, Seen: seen, Missed: missed})
	}
	writeJSON(out, res)
}

func envInt(name string, def int) int {
	if v, err := strconv.Atoi(os.Getenv(name)); err == nil && v > 0 {
		return v
	}
	return def
}

func cmdRun(fontID, casesPath, outPath string) {
	fs := findFont(fontID)
	f, err := fs.build()
	if err != nil {
		fatal(fmt.Errorf("font %s: %v", fs.ID, err))
	}
	var cases []Case
	if casesPath != "-" {
		for _, c := range vio.ReadLines[Case](casesPath) {
			if c.Font == fontID || c.Font == "" {
				cases = append(cases, c)
			}
		}
	}
	out := vio.NewOut(outPath)
	defer out.Close()

	runCases := func(emit func(map[string]any), cold bool) {
		for _, c := range cases {
			rep := c.Repeat
			if rep < 1 {
				rep = 1
			}
			for r := 0; r < rep; r++ {
				g := f
				if c.Fresh || cold {
					// a new instance of the same font value, never used before: nothing is warmed up
					// (lazily built indexes would be built by the first concurrent calls)
					if g, err = fs.build(); err != nil {
						fatal(err)
					}
				}
				runCase(g, fontID, c, cold, emit)
			}
		}
	}

	// Cold process (C16_COLD): the concurrent cases are the first thing this process does with the
	// library (apart from reading the font), so that package-level state that is built lazily is
	// built by concurrent calls.  The sequential phase follows; the events are written in the usual
	// order (reset, seq, cases) and the cases are marked cold.
	cold := os.Getenv("C16_COLD") != ""
	var held []map[string]any
	if cold {
		runCases(func(e map[string]any) { held = append(held, e) }, true)
	}

	fp0, content0, nodes := measure2(f)
	ops := allOps()
	out.Emit(map[string]any{"ev": "reset", "font": fontID, "locs": sharedNames, "fp": fp0, "content": content0, "ops": ops,
		"applicable": applicable(f), "nodes": nodes})

	// V1: the operations alone, with the footprint measured around each (C16_SEQOPS=cases: only
	// the operations that occur in the cases of this process)
	seqOps := ops
	if os.Getenv("C16_SEQOPS") == "cases" {
		used := map[string]bool{}
		for _, c := range cases {
			for _, p := range c.Prog {
				for _, name := range p {
					used[name] = true
				}
			}
		}
		seqOps = nil
		for _, name := range ops {
			if used[name] {
				seqOps = append(seqOps, name)
			}
		}
	}
	reps := envInt("C16_REPS", 2)
	for r := 0; r < reps; r++ {
		for _, name := range seqOps {
			op := findOp(name)
			before, _ := measure(f)
			d := call(op, f)
			after, _ := measure(f)
			out.Emit(map[string]any{"ev": "seq", "font": fontID, "op": name, "before": before, "after": after, "digest": d})
		}
	}

	// V2: TLC-generated schedules with real goroutines.  The process has a past by then: calls that FAILED
	// (on another instance of the font, see failedPast) precede every other case.
	if !cold {
		if pf, err := fs.build(); err == nil {
			pastFont = pf
		}
	}
	if cold {
		for _, e := range held {
			out.Emit(e)
		}
	} else {
		runCases(func(e map[string]any) { out.Emit(e) }, false)
	}
}

// runCase replays one schedule: "S g" releases the next call of goroutine g, "F g" waits
// until that call has returned.  Calls between their S and their F run in parallel.
func runCase(f *sfnt.Font, fontID string, c Case, cold bool, emit func(map[string]any)) {
	n := len(c.Prog)
	type ev struct {
		start bool
		g     int
	}
	var sched []ev
	for _, e := range c.Sched {
		if len(e) != 2 {
			fatal("bad schedule entry")
		}
		kind, _ := e[0].(string)
		gf, _ := e[1].(float64)
		g := int(gf)
		if g < 1 || g > n || (kind != "S" && kind != "F") {
			fatal(fmt.Sprintf("bad schedule entry %v", e))
		}
		sched = append(sched, ev{kind == "S", g})
	}
	progs := make([][]*operation, n)
	for g, p := range c.Prog {
		for _, name := range p {
			op := findOp(name)
			if op == nil {
				fatal(fmt.Sprintf("case %d: unknown operation %q", c.ID, name))
			}
			progs[g] = append(progs[g], op)
		}
	}
	if !cold && c.ID%2 == 0 {
		failedPast()
	}
	before, content, _ := measure2(f)
	emit(map[string]any{"ev": "case", "font": fontID, "id": c.ID, "n": n, "prog": c.Prog, "sched": c.Sched,
		"fresh": c.Fresh || cold, "cold": cold, "inst_fp": before, "inst_content": content})

	start := make([]chan struct{}, n)
	done := make([]chan struct{}, n)
	digests := make([][]string, n)
	var wg sync.WaitGroup
	for g := 0; g < n; g++ {
		start[g] = make(chan struct{}, len(progs[g]))
		done[g] = make(chan struct{}, len(progs[g]))
		digests[g] = make([]string, len(progs[g]))
		wg.Add(1)
		go worker(f, progs[g], start[g], done[g], digests[g], &wg, time.Duration(c.LoopMS)*time.Millisecond)
	}
	for _, e := range sched {
		if e.start {
			start[e.g-1] <- struct{}{}
		} else {
			<-done[e.g-1]
		}
	}
	wg.Wait()

	for g := 0; g < n; g++ {
		for i, d := range digests[g] {
			emit(map[string]any{"ev": "conc", "font": fontID, "id": c.ID, "g": g + 1, "i": i + 1, "op": c.Prog[g][i], "digest": d})
		}
	}
	after, _ := measure(f)
	emit(map[string]any{"ev": "end", "font": fontID, "id": c.ID, "before": before, "after": after})
}

// pastFont is a second instance of the font of this process, used only by failedPast.
var pastFont *sfnt.Font

type refusingWriter struct{ left int }

func (w *refusingWriter) Write(p []byte) (int, error) {
	if len(p) > w.left {
		n := w.left
		w.left = 0
		return n, errors.New("refused")
	}
	w.left -= len(p)
	return len(p), nil
}

// failedPast gives the process a past of calls that failed: every output form of a subset that cannot be
// written (no .notdef glyph; no glyphs at all) and of the font itself into a writer that refuses the data
// half-way.  None of this involves the font value the goroutines of a case share, so it cannot change what
// their calls return; whatever a failed call leaves behind inside the library (a scratch buffer handed back
// twice, a half-initialised cache) is then met by concurrent calls.
func failedPast() {
	f := pastFont
	if f == nil {
		return
	}
	try := func(fn func()) {
		defer func() { recover() }()
		fn()
	}
	subs := [][]glyph.ID{{}}
	if f.NumGlyphs() > 1 {
		subs = append(subs, []glyph.ID{1}, []glyph.ID{1, 1})
	}
	for r := 0; r < 6; r++ {
		for _, gl := range subs {
			try(func() {
				sub := f.Subset(gl)
				sub.Write(io.Discard)
				if sub.IsCFF() {
					sub.WriteOpenTypeCFFPDF(io.Discard)
					sub.AsCFF().Write(io.Discard)
				} else {
					sub.WriteTrueTypePDF(io.Discard)
				}
			})
		}
		try(func() { f.Write(&refusingWriter{left: 100 + 300*r}) })
		if f.IsCFF() {
			try(func() { f.WriteOpenTypeCFFPDF(&refusingWriter{left: 50 + 200*r}) })
			try(func() { f.AsCFF().Write(&refusingWriter{left: 40 + 100*r}) })
		}
	}
}

// worker is one goroutine of a case: it performs its calls in order, each when released.
//
// With loop > 0 the call is repeated back to back for that long (at most 400 times), so that the
// goroutines of a case really execute inside the library at the same time; every repetition must
// return the same value, otherwise the digest reported is "mixed:" followed by all digests seen.
func worker(f *sfnt.Font, prog []*operation, start, done chan struct{}, digests []string, wg *sync.WaitGroup, loop time.Duration) {
	defer wg.Done()
	for i, op := range prog {
		<-start
		d := call(op, f)
		if loop > 0 {
			var others []string
			t0 := time.Now()
			for n := 0; n < 400 && time.Since(t0) < loop; n++ {
				if d2 := call(op, f); d2 != d && !slices.Contains(others, d2) {
					others = append(others, d2)
				}
			}
			if len(others) > 0 {
				sort.Strings(others)
				d = "mixed:" + d + "," + strings.Join(others, ",")
			}
		}
		digests[i] = d
		done <- struct{}{}
	}
}

// cmdAlone runs one operation n more times alone and reports the digests seen (triage:
// is a digest that a concurrent call returned one the call can also return alone?).
func cmdAlone(fontID, opName string, n int, outPath string) {
	fs := findFont(fontID)
	f, err := fs.build()
	if err != nil {
		fatal(err)
	}
	op := findOp(opName)
	if op == nil {
		fatal("unknown operation: " + opName)
	}
	seen := map[string]int{}
	for i := 0; i < n; i++ {
		seen[call(op, f)]++
	}
	writeJSON(outPath, seen)
}

func aliasesMacRoman(f *sfnt.Font) bool {
	mr := macRomanNames()
	o, ok := f.Outlines.(*glyf.Outlines)
	if !ok || len(mr) == 0 || len(o.Names) == 0 {
		return false
	}
	return &o.Names[0] == &mr[0]
}

// probe is one deliberate hidden write used to show that the fingerprints see it.
type probe struct {
	name string
	loc  string
	do   func(f *sfnt.Font) (undo func(), ok bool)
}

// sensitivity applies, one at a time, the kinds of hidden writes the property worries about
// to the harness's own copy of the font and reports which of them the fingerprint of the
// named location notices (all must be noticed, and nothing else may change).
func sensitivity(f *sfnt.Font) (tried, seen int, missed []string) {
	probes := []probe{
		{"scalar field", "scalars", func(f *sfnt.Font) (func(), bool) {
			f.Ascent++
			return func() { f.Ascent-- }, true
		}},
		{"unexported field of a struct (time.Time)", "scalars", func(f *sfnt.Font) (func(), bool) {
			old := f.CreationTime
			f.CreationTime = old.Add(1)
			return func() { f.CreationTime = old }, true
		}},
		{"byte inside a cmap subtable", "cmap", func(f *sfnt.Font) (func(), bool) {
			for _, v := range f.CMapTable {
				if len(v) > 0 {
					v[len(v)-1] ^= 1
					return func() { v[len(v)-1] ^= 1 }, true
				}
			}
			return nil, false
		}},
		{"cmap entry replaced by an equal copy", "cmap", func(f *sfnt.Font) (func(), bool) {
			for k, v := range f.CMapTable {
				if len(v) > 0 {
					f.CMapTable[k] = append([]byte(nil), v...)
					return func() { f.CMapTable[k] = v }, true
				}
			}
			return nil, false
		}},
		{"glyph data byte / width", "outl", func(f *sfnt.Font) (func(), bool) {
			switch o := f.Outlines.(type) {
			case *glyf.Outlines:
				if len(o.Widths) == 0 {
					return nil, false
				}
				o.Widths[len(o.Widths)-1]++
				return func() { o.Widths[len(o.Widths)-1]-- }, true
			default:
				return nil, false
			}
		}},
		{"spare capacity of a slice", "outl", func(f *sfnt.Font) (func(), bool) {
			o, ok := f.Outlines.(*glyf.Outlines)
			if !ok || cap(o.Widths) == len(o.Widths) {
				return nil, false
			}
			w := o.Widths[:len(o.Widths)+1]
			w[len(w)-1]++
			return func() { w[len(w)-1]-- }, true
		}},
		{"lookup list reordered in place", "gsub", func(f *sfnt.Font) (func(), bool) {
			if f.Gsub == nil || len(f.Gsub.LookupList) < 2 {
				return nil, false
			}
			ll := f.Gsub.LookupList
			ll[0], ll[1] = ll[1], ll[0]
			return func() { ll[0], ll[1] = ll[1], ll[0] }, true
		}},
		{"map entry added to a coverage/pair table", "gpos", func(f *sfnt.Font) (func(), bool) {
			if f.Gpos == nil {
				return nil, false
			}
			for _, l := range f.Gpos.LookupList {
				for _, st := range l.Subtables {
					if m, ok := st.(gtab.Gpos2_1); ok {
						k := glyph.Pair{Left: 9, Right: 9}
						if _, has := m[k]; has {
							continue
						}
						m[k] = &gtab.PairAdjust{}
						return func() { delete(m, k) }, true
					}
				}
			}
			return nil, false
		}},
		{"package-level feature map", "pkg", func(f *sfnt.Font) (func(), bool) {
			gtab.GsubDefaultFeatures["zzzz"] = true
			return func() { delete(gtab.GsubDefaultFeatures, "zzzz") }, true
		}},
		{"package-level name table post.macRoman", "pkg", func(f *sfnt.Font) (func(), bool) {
			mr := macRomanNames()
			if len(mr) == 0 {
				return nil, false
			}
			old := mr[len(mr)-1]
			mr[len(mr)-1] = old + "x"
			return func() { mr[len(mr)-1] = old }, true
		}},
	}
	base, _ := measure(f)
	for _, p := range probes {
		undo, ok := p.do(f)
		if !ok {
			continue
		}
		tried++
		now, _ := measure(f)
		undo()
		good := true
		for i, name := range sharedNames {
			changed := now[i] != base[i]
			if name == p.loc && !changed {
				good = false
			}
			// specificity; the outlines may alias the package-level name table
			if name != p.loc && changed && !(p.loc == "pkg" && name == "outl") {
				good = false
			}
		}
		back, _ := measure(f)
		for i := range back {
			if back[i] != base[i] {
				good = false
			}
		}
		if good {
			seen++
		} else {
			missed = append(missed, p.name)
		}
	}
	return
}
