package main

import (
	"bytes"
	"fmt"
	"time"

	"golang.org/x/text/language"

	"seehuhn.de/go/sfnt"
	"seehuhn.de/go/sfnt/cff"
	"seehuhn.de/go/sfnt/glyf"
	"seehuhn.de/go/sfnt/glyph"
	"seehuhn.de/go/sfnt/opentype/gtab"
	"seehuhn.de/go/sfnt/opentype/gtab/builder"

	"verif.local/harness/internal/fprint"
)

// An operation of the property's quantifier.  The names are those of spec/SharedFontOps.tla.
// run returns the value(s) the call returned; they are digested by content.
type operation struct {
	name string
	ok   func(f *sfnt.Font) bool // applicable to this font
	run  func(f *sfnt.Font) []any
}

func isGlyf(f *sfnt.Font) bool { _, ok := f.Outlines.(*glyf.Outlines); return ok }
func isCFF(f *sfnt.Font) bool  { _, ok := f.Outlines.(*cff.Outlines); return ok }
func any1(*sfnt.Font) bool     { return true }

func errStr(err error) string {
	if err == nil {
		return ""
	}
	return "error: " + err.Error()
}

// the glyphs asked for in Subset: .notdef and every other glyph among the first 24
func subsetGlyphs(f *sfnt.Font) []glyph.ID {
	res := []glyph.ID{0}
	for i := 2; i < f.NumGlyphs() && i < 24; i += 2 {
		res = append(res, glyph.ID(i))
	}
	return res
}

var layoutTexts = []string{"ABC fi fl", "AB BA AC fifl", "Hello, World! 0123", "ffi AVATAR To.", "ABCDT BAcVo abc abd abe ooTe",
	// over the glyphs 1..6 = " ABCDf" of the catalogue fonts
	" A A  AAA   A AA", "A  A CA DB fA A ", "  AA  A"}

// a glyph sequence for gtab.Context.Apply
func applySeq(f *sfnt.Font, variant int) []glyph.Info {
	n := f.NumGlyphs()
	// (glyphs 2..5 = A..D, 23 T, 24 V, 25 o, 13..16 = a..d in the constructed fonts)
	base := [][]int{{2, 3, 6, 7, 6, 8, 2, 4, 3, 2, 11, 5}, {2, 3, 4, 5, 23, 3, 2, 15, 24, 25, 13, 14, 15, 13, 14, 16}, {36, 37, 73, 76, 73, 79, 3, 36, 57},
		{1, 2, 1, 2, 2, 1, 1, 1, 2, 2, 2, 1, 4, 1, 5, 2, 3, 6, 1, 2}, {1, 1, 2}}[variant%5]
	var seq []glyph.Info
	for _, g := range base {
		if g < n {
			seq = append(seq, glyph.Info{GID: glyph.ID(g), Text: []rune{rune(0x40 + g)}})
		}
	}
	return seq
}

func allLookups(ll gtab.LookupList) []gtab.LookupIndex {
	res := make([]gtab.LookupIndex, len(ll))
	for i := range res {
		res[i] = gtab.LookupIndex(i)
	}
	return res
}

// Every operation is a named function so that race reports name it in their stacks.
func opWrite(f *sfnt.Font) []any {
	var buf bytes.Buffer
	n, err := f.Write(&buf)
	return []any{n, errStr(err), buf.Bytes()}
}

func opWriteTrueTypePDF(f *sfnt.Font) []any {
	// without caller-supplied tables (those are patched in the caller's buffer by contract)
	var buf bytes.Buffer
	n, err := f.WriteTrueTypePDF(&buf)
	return []any{n, errStr(err), buf.Bytes()}
}

func opWriteOpenTypeCFFPDF(f *sfnt.Font) []any {
	var buf bytes.Buffer
	err := f.WriteOpenTypeCFFPDF(&buf)
	return []any{errStr(err), buf.Bytes()}
}

func opAsCFFWrite(f *sfnt.Font) []any {
	var buf bytes.Buffer
	err := f.AsCFF().Write(&buf)
	return []any{errStr(err), buf.Bytes()}
}

func opSubset(f *sfnt.Font) []any {
	sub := f.Subset(subsetGlyphs(f))
	// the subset shares glyph objects with the font: what is written for it must not depend on what was
	// written for the font (or for other subsets) before, in this process
	var buf bytes.Buffer
	_, err := sub.Write(&buf)
	res := []any{sub, buf.Bytes(), fmt.Sprint(err)}
	if sub.IsCFF() {
		var b2 bytes.Buffer
		err2 := sub.AsCFF().Write(&b2)
		res = append(res, b2.Bytes(), fmt.Sprint(err2))
	}
	return res
}

func opClone(f *sfnt.Font) []any { return []any{f.Clone()} }

func opFontBBox(f *sfnt.Font) []any { return []any{f.FontBBox(), f.FontBBoxPDF()} }

func opWidths(f *sfnt.Font) []any { return []any{f.Widths()} }

func opWidthsPDF(f *sfnt.Font) []any { return []any{f.WidthsPDF()} }

func opWidthsMapPDF(f *sfnt.Font) []any { return []any{f.WidthsMapPDF()} }

// scanStart picks where a per-glyph query loop starts (the loop wraps around): concurrent calls ask
// for different glyphs at the same time, the returned value does not depend on it.  (The clock is
// used because it involves no synchronisation between goroutines.)
func scanStart(n int) int {
	if n <= 0 {
		return 0
	}
	return int(time.Now().UnixNano()>>4) % n
}

func opGlyphWidths(f *sfnt.Font) []any {
	n := f.NumGlyphs()
	a, b := make([]float64, n), make([]float64, n)
	s := scanStart(n)
	for k := 0; k < n; k++ {
		i := (s + k) % n
		a[i] = f.GlyphWidth(glyph.ID(i))
		b[i] = f.GlyphWidthPDF(glyph.ID(i))
	}
	return []any{a, b, f.IsFixedPitch()}
}

func opGlyphBBoxes(f *sfnt.Font) []any { return []any{f.GlyphBBoxes()} }

func opGlyphBBox(f *sfnt.Font) []any {
	n := f.NumGlyphs()
	res := make([]any, n)
	s := scanStart(n)
	for k := 0; k < n; k++ {
		i := (s + k) % n
		res[i] = f.GlyphBBox(glyph.ID(i))
	}
	return res
}

func opGlyphBBoxPDF(f *sfnt.Font) []any {
	n := f.NumGlyphs()
	res := make([]any, n)
	s := scanStart(n)
	for k := 0; k < n; k++ {
		i := (s + k) % n
		res[i] = f.Outlines.GlyphBBoxPDF(f.FontMatrix, glyph.ID(i))
	}
	return res
}

func opMakeGlyphNames(f *sfnt.Font) []any { return []any{f.MakeGlyphNames()} }

func opGetFontInfo(f *sfnt.Font) []any { return []any{f.GetFontInfo()} }

func opNames(f *sfnt.Font) []any {
	res := []any{f.FullName(), f.Subfamily(), f.PostScriptName(), f.BuiltinEncoding(), f.NumGlyphs(), f.IsGlyf(), f.IsCFF()}
	for i := 0; i < f.NumGlyphs(); i++ {
		res = append(res, f.GlyphName(glyph.ID(i)))
	}
	return res
}

func okLayout(f *sfnt.Font) bool { return f.CMapTable != nil }

// layoutLangs: the language argument of NewLayouter over the script families (Latin, Arabic-script
// languages, Hebrew, Indic, CJK, Cyrillic, Greek, Thai, undetermined, a script subtag that
// contradicts the language); every layouter is made with nil feature maps, i.e. with the
// package-level defaults gtab.GsubDefaultFeatures / GposDefaultFeatures the API hands out (they are
// part of the fingerprinted location pkg), and once with maps of the caller's own.
var layoutLangs = []language.Tag{
	language.English, language.Arabic, language.MustParse("ur"), language.MustParse("fa-Arab"),
	language.Hebrew, language.Hindi, language.MustParse("zh-Hant"), language.Japanese, language.Russian,
	language.Greek, language.Thai, language.Turkish, language.Und, language.MustParse("ar-Latn"),
	language.MustParse("en-Arab"),
}

func opLayout(f *sfnt.Font) []any {
	var res []any
	for i, lang := range layoutLangs {
		l, err := f.NewLayouter(lang, nil, nil)
		if err != nil {
			return append(res, errStr(err))
		}
		texts := layoutTexts
		if i > 0 {
			texts = []string{layoutTexts[0], layoutTexts[4], "\u0628\u0633\u0645 \u05e9\u05dc\u05d5\u05dd"}
		}
		for _, t := range texts {
			seq := l.Layout(t)
			res = append(res, append([]glyph.Info(nil), seq...)) // the slice is owned by the layouter
		}
	}
	// the caller's own feature maps
	own1 := map[string]bool{"liga": true, "calt": true, "smcp": true}
	own2 := map[string]bool{"kern": true}
	for _, lang := range []language.Tag{language.English, language.Arabic} {
		l, err := f.NewLayouter(lang, own1, own2)
		if err != nil {
			return append(res, errStr(err))
		}
		res = append(res, append([]glyph.Info(nil), l.Layout(layoutTexts[4])...))
	}
	return append(res, len(own1), len(own2))
}

func okGsubApply(f *sfnt.Font) bool { return f.Gsub != nil }

func opGsubApply(f *sfnt.Font) []any {
	ctx := gtab.NewContext(f.Gsub.LookupList, f.Gdef, allLookups(f.Gsub.LookupList))
	var res []any
	for v := 0; v < 5; v++ {
		out := ctx.Apply(applySeq(f, v))
		res = append(res, append([]glyph.Info(nil), out...))
	}
	return res
}

func okGposApply(f *sfnt.Font) bool { return f.Gpos != nil }

func opGposApply(f *sfnt.Font) []any {
	ctx := gtab.NewContext(f.Gpos.LookupList, f.Gdef, allLookups(f.Gpos.LookupList))
	var res []any
	for v := 0; v < 5; v++ {
		out := ctx.Apply(applySeq(f, v))
		res = append(res, append([]glyph.Info(nil), out...))
	}
	return res
}

func okExplainGsub(f *sfnt.Font) bool { return f.Gsub != nil }

func opExplainGsub(f *sfnt.Font) []any {
	return []any{builder.ExplainGsub(f)}
}

func okExplainGpos(f *sfnt.Font) bool { return f.Gpos != nil }

func opExplainGpos(f *sfnt.Font) []any {
	return []any{builder.ExplainGpos(f)}
}

var operations = []operation{
	{"Write", any1, opWrite},
	{"WriteTrueTypePDF", isGlyf, opWriteTrueTypePDF},
	{"WriteOpenTypeCFFPDF", isCFF, opWriteOpenTypeCFFPDF},
	{"AsCFFWrite", isCFF, opAsCFFWrite},
	{"Subset", any1, opSubset},
	{"Clone", any1, opClone},
	{"FontBBox", any1, opFontBBox},
	{"Widths", any1, opWidths},
	{"WidthsPDF", any1, opWidthsPDF},
	{"WidthsMapPDF", any1, opWidthsMapPDF},
	{"GlyphWidths", any1, opGlyphWidths},
	{"GlyphBBoxes", any1, opGlyphBBoxes},
	{"GlyphBBox", any1, opGlyphBBox},
	{"GlyphBBoxPDF", any1, opGlyphBBoxPDF},
	{"MakeGlyphNames", any1, opMakeGlyphNames},
	{"GetFontInfo", any1, opGetFontInfo},
	{"Names", any1, opNames},
	{"Layout", okLayout, opLayout},
	{"GsubApply", okGsubApply, opGsubApply},
	{"GposApply", okGposApply, opGposApply},
	{"ExplainGsub", okExplainGsub, opExplainGsub},
	{"ExplainGpos", okExplainGpos, opExplainGpos},
}

func findOp(name string) *operation {
	for i := range operations {
		if operations[i].name == name {
			return &operations[i]
		}
	}
	return nil
}

func applicable(f *sfnt.Font) []string {
	var res []string
	for _, op := range operations {
		if op.ok(f) {
			res = append(res, op.name)
		}
	}
	return res
}

func allOps() []string {
	var res []string
	for _, op := range operations {
		res = append(res, op.name)
	}
	return res
}

// NA is the digest of a call that is not applicable to the font (WriteOpenTypeCFFPDF on a
// TrueType font, ExplainGsub without a GSUB table, ...): TLC chooses the programs from the
// whole operation table, the harness does not touch the library for such a call.
const NA = "n/a"

// call runs one operation and digests what it returned.  A panic is a result like any
// other (the property compares with the same call run alone).
func call(op *operation, f *sfnt.Font) (digest string) {
	if !op.ok(f) {
		return NA
	}
	defer func() {
		if r := recover(); r != nil {
			digest = "panic:" + fprint.Content(fmt.Sprint(r))
		}
	}()
	return fprint.Content(op.run(f)...)
}
