package main

import (
	"bytes"
	"encoding/binary"
	"fmt"
	"reflect"

	"seehuhn.de/go/sfnt"
)

// Spare capacity, systematically.  Every slice reachable from the font value (through exported
// fields, pointers, interfaces, maps and slices) is replaced by an equal slice with len < cap and a
// sentinel in the spare part; slices which are neighbours in the data model (several slice fields
// of the same type in one struct: Backtrack/Input/Lookahead, parallel arrays) are cut from ONE
// backing array, one after the other (the first field in second place), so that an append to one
// of them overwrites a neighbour.  The
// font value is equal to the original one for every reader; an `append(shared, ...)` anywhere in
// the library is now a write into memory that belongs to the font, and the fingerprints (which
// cover s[:cap(s)]) see it although no length changes.
type sparer struct {
	slices int // slices given spare capacity
	joined int // groups of neighbouring slices cut from one array
	seen   map[uintptr]bool
}

func spareCapacity(f *sfnt.Font) (slices, joined int) {
	s := &sparer{seen: map[uintptr]bool{}}
	s.walk(reflect.ValueOf(f).Elem(), 0)
	return s.slices, s.joined
}

func sentinel(dst, first reflect.Value) {
	switch dst.Kind() {
	case reflect.Int, reflect.Int8, reflect.Int16, reflect.Int32, reflect.Int64:
		dst.SetInt(0x55)
	case reflect.Uint, reflect.Uint8, reflect.Uint16, reflect.Uint32, reflect.Uint64:
		dst.SetUint(0x55)
	case reflect.Float32, reflect.Float64:
		dst.SetFloat(5555.5)
	case reflect.String:
		dst.SetString("\x55sentinel")
	default:
		if first.IsValid() {
			dst.Set(first) // a second reference to the first element
		}
	}
}

// grow returns a copy of the slice v (already processed elements) inside an array with `extra`
// spare elements.
func (s *sparer) grow(v reflect.Value, extra int) reflect.Value {
	n := v.Len()
	nv := reflect.MakeSlice(v.Type(), n+extra, n+extra)
	reflect.Copy(nv, v)
	var first reflect.Value
	if n > 0 {
		first = v.Index(0)
	}
	for i := n; i < n+extra; i++ {
		sentinel(nv.Index(i), first)
	}
	s.slices++
	return nv.Slice(0, n)
}

// walk processes a settable value in place.
func (s *sparer) walk(v reflect.Value, depth int) {
	if depth > 60 || !v.IsValid() {
		return
	}
	switch v.Kind() {
	case reflect.Pointer:
		if v.IsNil() || s.seen[v.Pointer()] {
			return
		}
		s.seen[v.Pointer()] = true
		s.walk(v.Elem(), depth+1)
	case reflect.Interface:
		if v.IsNil() {
			return
		}
		e := v.Elem()
		if e.Kind() == reflect.Pointer {
			s.walk(e, depth+1)
			return
		}
		if e.Kind() == reflect.Func || !v.CanSet() {
			return
		}
		// a value (struct, map, slice) stored in an interface: process a settable copy, store it back
		c := reflect.New(e.Type()).Elem()
		c.Set(e)
		s.walk(c, depth+1)
		v.Set(c)
	case reflect.Struct:
		t := v.Type()
		var fields []int
		for i := 0; i < v.NumField(); i++ {
			if !t.Field(i).IsExported() || !v.Field(i).CanSet() {
				continue
			}
			fld := v.Field(i)
			if fld.Kind() == reflect.Slice {
				// elements first
				for k := 0; k < fld.Len(); k++ {
					s.walk(fld.Index(k), depth+1)
				}
				if !fld.IsNil() {
					fields = append(fields, i)
				}
				continue
			}
			s.walk(fld, depth+1)
		}
		// neighbouring slices of one type: one backing array
		done := map[int]bool{}
		for _, i := range fields {
			if done[i] {
				continue
			}
			group := []int{i}
			for _, j := range fields {
				if j > i && !done[j] && v.Field(j).Type() == v.Field(i).Type() {
					group = append(group, j)
				}
			}
			if len(group) == 1 {
				v.Field(i).Set(s.grow(v.Field(i), 2))
				done[i] = true
				continue
			}
			// in the array the first field comes second: [Input | Backtrack | Lookahead | spare], so that
			// an append to the first field runs over a neighbour with other contents
			group[0], group[1] = group[1], group[0]
			total := 0
			for _, j := range group {
				total += v.Field(j).Len()
			}
			arr := reflect.MakeSlice(v.Field(i).Type(), total+2, total+2)
			off := 0
			var first reflect.Value
			for _, j := range group {
				n := v.Field(j).Len()
				reflect.Copy(arr.Slice(off, off+n), v.Field(j))
				if n > 0 && !first.IsValid() {
					first = v.Field(j).Index(0)
				}
				off += n
			}
			for k := total; k < total+2; k++ {
				sentinel(arr.Index(k), first)
			}
			off = 0
			for _, j := range group {
				n := v.Field(j).Len()
				v.Field(j).Set(arr.Slice(off, off+n)) // cap reaches over the following slices
				off += n
				done[j] = true
				s.slices++
			}
			s.joined++
		}
	case reflect.Slice:
		if v.IsNil() {
			return
		}
		for k := 0; k < v.Len(); k++ {
			s.walk(v.Index(k), depth+1)
		}
		if v.CanSet() {
			v.Set(s.grow(v, 2))
		}
	case reflect.Array:
		for k := 0; k < v.Len(); k++ {
			s.walk(v.Index(k), depth+1)
		}
	case reflect.Map:
		if v.IsNil() {
			return
		}
		et := v.Type().Elem()
		switch et.Kind() {
		case reflect.Pointer:
			it := v.MapRange()
			for it.Next() {
				s.walk(it.Value(), depth+1)
			}
		case reflect.Slice, reflect.Struct, reflect.Interface, reflect.Map:
			keys := v.MapKeys()
			for _, k := range keys {
				c := reflect.New(et).Elem()
				c.Set(v.MapIndex(k))
				s.walk(c, depth+1)
				v.SetMapIndex(k, c)
			}
		}
	}
}

// nonCanonical patches the bytes of a font file in the fields a reader ignores: the language field
// of every cmap subtable of format 0, 2, 4 or 6 on a platform other than Macintosh (the library
// keeps the subtable bytes and forces the key's language to 0) and the padding between tables.
// The checksums are left alone (sfnt.Read does not verify them).
func nonCanonical(data []byte) ([]byte, int, error) {
	data = bytes.Clone(data)
	if len(data) < 12 {
		return nil, 0, fmt.Errorf("short file")
	}
	numTables := int(binary.BigEndian.Uint16(data[4:]))
	patched := 0
	type rec struct{ off, length uint32 }
	var recs []rec
	for i := 0; i < numTables; i++ {
		r := data[12+16*i:]
		tag := string(r[:4])
		off, length := binary.BigEndian.Uint32(r[8:]), binary.BigEndian.Uint32(r[12:])
		if uint64(off)+uint64(length) > uint64(len(data)) {
			return nil, 0, fmt.Errorf("table %q outside the file", tag)
		}
		recs = append(recs, rec{off, length})
		if tag != "cmap" {
			continue
		}
		tab := data[off : off+length]
		n := int(binary.BigEndian.Uint16(tab[2:]))
		seen := map[uint32]bool{}
		for k := 0; k < n; k++ {
			e := tab[4+8*k:]
			platform := binary.BigEndian.Uint16(e)
			so := binary.BigEndian.Uint32(e[4:])
			if platform == 1 || seen[so] || int(so)+6 > len(tab) {
				continue
			}
			seen[so] = true
			if format := binary.BigEndian.Uint16(tab[so:]); format <= 6 {
				binary.BigEndian.PutUint16(tab[so+4:], 7)
				patched++
			}
		}
	}
	for _, r := range recs {
		for p := r.off + r.length; p%4 != 0 && int(p) < len(data); p++ {
			data[p] = 0xFF
			patched++
		}
	}
	return data, patched, nil
}
