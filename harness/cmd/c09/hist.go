package main

// Call histories (spec/CmapHist.tla) and selection with ties (spec/CmapSel.tla).
//
// A history is executed with the real values retained: every result is recorded when it is
// handed out, again after all later calls, and -- decoded subtables -- once more after the
// bytes they were decoded from have been overwritten.  Nothing is compared here.

import (
	"fmt"
	"math/rand"
	"sort"

	"seehuhn.de/go/sfnt/cmap"
	"seehuhn.de/go/sfnt/glyph"
	"verif.local/harness/internal/cmapx"
)

// HOp is one call of a history.
type HOp struct {
	Op string `json:"op"`
	A  int    `json:"a"`
}

// Fixed holds the spec-encoded inputs of the decode calls (printed by TLC).
type Fixed struct {
	F4a  []int `json:"f4a"`
	F4b  []int `json:"f4b"`
	F6a  []int `json:"f6a"`
	F6b  []int `json:"f6b"`
	F0a  []int `json:"f0a"`
	F0b  []int `json:"f0b"`
	F12a []int `json:"f12a"`
	F12b []int `json:"f12b"`
	FTab []int `json:"ftab"`
}

type hE struct {
	Ev   string `json:"ev"`
	Case int    `json:"case"`
	I    int    `json:"i"`
	Op   string `json:"op"`
	Fmt  int    `json:"fmt"`
	Lang int    `json:"lang"`
	IC   []int  `json:"ic"`
	IG   []int  `json:"ig"`
	IC2  []int  `json:"ic2"`
	IG2  []int  `json:"ig2"`
	W1   []int  `json:"w1"`
	N1   int    `json:"n1"`
	W2   []int  `json:"w2"`
	N2   int    `json:"n2"`
	Pan  string `json:"pan"`
}

type hG struct {
	Ev   string `json:"ev"`
	Case int    `json:"case"`
	I    int    `json:"i"`
	Op   string `json:"op"`
	Fmt  int    `json:"fmt"`
	Pid  int    `json:"pid"`
	Eid  int    `json:"eid"`
	Lang int    `json:"lang"`
	W    []int  `json:"w"`
	WA   []int  `json:"wa"`
	Ok1  int    `json:"ok1"`
	C1   []int  `json:"c1"`
	G1   []int  `json:"g1"`
	Ok2  int    `json:"ok2"`
	C2   []int  `json:"c2"`
	G2   []int  `json:"g2"`
	Ok3  int    `json:"ok3"`
	C3   []int  `json:"c3"`
	G3   []int  `json:"g3"`
}

type hT struct {
	Ev    string  `json:"ev"`
	Case  int     `json:"case"`
	I     int     `json:"i"`
	Keys  [][]int `json:"keys"`
	Subs  [][]int `json:"subs"`
	Subs2 [][]int `json:"subs2"`
	TB1   []int   `json:"tb1"`
	TB2   []int   `json:"tb2"`
	Pan   string  `json:"pan"`
}

type hD struct {
	Ev   string  `json:"ev"`
	Case int     `json:"case"`
	I    int     `json:"i"`
	TB   []int   `json:"tb"`
	TBA  []int   `json:"tba"`
	Ok1  int     `json:"ok1"`
	DK1  [][]int `json:"dk1"`
	DB1  [][]int `json:"db1"`
	Ok2  int     `json:"ok2"`
	DK2  [][]int `json:"dk2"`
	DB2  [][]int `json:"db2"`
}

// kept is one retained result together with what is needed to look at it again.
type kept struct {
	op    string
	bytes []byte        // encoders, Table.Encode: the slice the library returned
	sub   cmap.Subtable // Table.Get
	table cmap.Table    // cmap.Decode
	in    []byte        // decode calls: the bytes handed to the library (owned by the harness)
	m4    cmap.Format4
	m12   cmap.Format12
	m0    *cmap.Format0
	tin   cmap.Table // Table.Encode: the table handed in
	lang  int
	fmt   int
	extra []int32
	ev    any
}

func pairs4(m cmap.Format4) (cs, gs []int) {
	cs, gs = []int{}, []int{}
	for c := range m {
		cs = append(cs, int(c))
	}
	sort.Ints(cs)
	for _, c := range cs {
		gs = append(gs, int(m[uint16(c)]))
	}
	return
}

func pairs12(m cmap.Format12) (cs, gs []int) {
	cs, gs = []int{}, []int{}
	for c := range m {
		cs = append(cs, int(c))
	}
	sort.Ints(cs)
	for _, c := range cs {
		gs = append(gs, int(m[uint32(c)]))
	}
	return
}

func pairs0(m *cmap.Format0) (cs, gs []int) {
	cs, gs = []int{}, []int{}
	for c, g := range m.Data {
		if g != 0 {
			cs = append(cs, c)
			gs = append(gs, int(g))
		}
	}
	return
}

func words(b []byte) []int {
	w, _ := cmapx.Words(b)
	return w
}

func clone(b []byte) []byte { return append([]byte{}, b...) }

func lookAt(st cmap.Subtable, extra []int32) (ok int, cs, gs []int) {
	cs, gs = []int{}, []int{}
	if st == nil {
		return 0, cs, gs
	}
	defer func() {
		if r := recover(); r != nil {
			ok, cs, gs = 0, []int{}, []int{}
		}
	}()
	_, wide := st.(cmap.Format12)
	cs, gs = cmapx.Sweep(func(r rune) int { return int(st.Lookup(r)) }, false, extra, wide)
	return 1, cs, gs
}

func tableKeysSubs(t cmap.Table) (keys, subs [][]int) {
	keys, subs = [][]int{}, [][]int{}
	for _, k := range sortedKeys(t) {
		keys = append(keys, []int{int(k.PlatformID), int(k.EncodingID), int(k.Language), 0})
		subs = append(subs, words(t[k]))
	}
	return
}

// histEvents executes one history.
func histEvents(c *Case) []any {
	fx := c.FX
	var ks []*kept
	lastEnc := func() *kept {
		for i := len(ks) - 1; i >= 0; i-- {
			if ks[i].bytes != nil && ks[i].op != "TE" {
				return ks[i]
			}
		}
		return nil
	}
	lastTE := func() *kept {
		for i := len(ks) - 1; i >= 0; i-- {
			if ks[i].op == "TE" && ks[i].bytes != nil {
				return ks[i]
			}
		}
		return nil
	}
	pc := []int{0x41, 0x80, 0x20AC, 0x1F600, 0x1F601}
	for cc := 0x10000; cc < 0x10040; cc++ {
		pc = append(pc, cc) // every code point a history maps beyond plane 0 is queried
	}
	probes := cmapx.Probes(pc, rand.New(rand.NewSource(int64(c.ID)+1)))
	for i, op := range c.Ops {
		k := &kept{op: op.Op, extra: probes}
		switch op.Op {
		case "E4", "E12", "E0":
			e := &hE{Ev: "hE", Case: c.ID, I: i, Op: op.Op}
			func() {
				defer func() {
					if r := recover(); r != nil {
						e.Pan = fmt.Sprint(r)
					}
				}()
				switch op.Op {
				case "E4":
					m := cmap.Format4{}
					switch op.A {
					case 0, 1:
						m[0x41], m[0x42], m[0x43] = 1, 2, 5
						k.lang = 5 * op.A
					case 2:
						for cc := 0x20; cc < 0x7F; cc++ {
							m[uint16(cc)] = glyph.ID(3*cc%251 + 1)
						}
					case 3:
						m[0x20AC] = 11
						k.lang = 65535
					}
					k.m4, k.fmt = m, 4
					e.IC, e.IG = pairs4(m)
					k.bytes = m.Encode(uint16(k.lang))
				case "E12":
					m := cmap.Format12{}
					switch op.A {
					case 0, 1:
						m[0x41], m[0x1F600] = 1, 9
						k.lang = 5 * op.A
					case 2:
						for cc := 0x10000; cc < 0x10040; cc++ {
							m[uint32(cc)] = glyph.ID(7*cc%61 + 1)
						}
					}
					k.m12, k.fmt = m, 12
					e.IC, e.IG = pairs12(m)
					k.bytes = m.Encode(uint16(k.lang))
				case "E0":
					m := &cmap.Format0{}
					if op.A == 0 {
						for cc := 0x20; cc < 0x7F; cc++ {
							m.Data[cc] = byte(cc%7 + 1)
						}
					} else {
						for cc := 0x80; cc < 0x90; cc++ {
							m.Data[cc] = byte(cc - 0x7F)
						}
						k.lang = 3
					}
					k.m0, k.fmt = m, 0
					e.IC, e.IG = pairs0(m)
					k.bytes = m.Encode(uint16(k.lang))
				}
			}()
			e.Fmt, e.Lang = k.fmt, k.lang
			if e.IC == nil {
				e.IC, e.IG = []int{}, []int{}
			}
			e.W1, e.N1 = words(k.bytes), len(k.bytes)
			k.ev = e
		case "G4", "G6", "G0", "G12", "GL":
			g := &hG{Ev: "hG", Case: c.ID, I: i, Op: op.Op}
			key := cmap.Key{PlatformID: 3, EncodingID: 1}
			var src []int
			switch op.Op {
			case "G4":
				src = fx.F4a
				if op.A == 1 {
					src, key = fx.F4b, cmap.Key{PlatformID: 1}
				}
			case "G6":
				src = fx.F6a
				if op.A == 1 {
					src, key = fx.F6b, cmap.Key{PlatformID: 1}
				}
			case "G0":
				src, key = fx.F0a, cmap.Key{PlatformID: 1}
				if op.A == 1 {
					src, key = fx.F0b, cmap.Key{PlatformID: 3, EncodingID: 1}
				}
			case "G12":
				src, key = fx.F12a, cmap.Key{PlatformID: 3, EncodingID: 10}
				if op.A == 1 {
					src = fx.F12b
				}
			case "GL":
				src = fx.F4a
				if le := lastEnc(); le != nil {
					// the bytes of an earlier result as they are NOW, in storage of the harness
					src = words(le.bytes)
					if le.fmt == 12 {
						key = cmap.Key{PlatformID: 3, EncodingID: 10}
					}
				}
			}
			k.in = cmapx.Bytes(src)
			g.W = words(k.in)
			if len(g.W) > 0 {
				g.Fmt = g.W[0]
			}
			g.Pid, g.Eid, g.Lang = int(key.PlatformID), int(key.EncodingID), int(key.Language)
			func() {
				defer func() { recover() }()
				// a decoded subtable belongs to the caller: the first result is scribbled on (entries added,
				// changed and deleted), the subtable is then asked for again from the same table and bytes
				tbl := cmap.Table{key: k.in}
				if first, err := tbl.Get(key); err == nil {
					scribble(first)
				}
				st, err := tbl.Get(key)
				if err == nil {
					k.sub = st
				}
			}()
			g.Ok1, g.C1, g.G1 = lookAt(k.sub, probes)
			k.ev = g
		case "TE":
			t := &hT{Ev: "hT", Case: c.ID, I: i}
			tin := cmap.Table{}
			if op.A == 0 {
				tin[cmap.Key{PlatformID: 3, EncodingID: 1}] = cmapx.Bytes(fx.F4a)
			}
			for j, r := range ks {
				if r.bytes != nil && r.op != "TE" {
					// the slices the library handed out, as the caller holds them
					tin[cmap.Key{PlatformID: 1, EncodingID: uint16(j + 1), Language: uint16(r.lang)}] = r.bytes
				}
			}
			if len(tin) == 0 {
				tin[cmap.Key{PlatformID: 0, EncodingID: 3}] = cmapx.Bytes(fx.F6a)
			}
			k.tin = tin
			t.Keys, t.Subs = tableKeysSubs(tin)
			func() {
				defer func() {
					if r := recover(); r != nil {
						t.Pan = fmt.Sprint(r)
					}
				}()
				k.bytes = tin.Encode()
			}()
			t.TB1 = cmapx.Ints(k.bytes)
			k.ev = t
		case "TD":
			d := &hD{Ev: "hD", Case: c.ID, I: i}
			if te := lastTE(); te != nil && op.A == 0 {
				k.in = te.bytes // a view of an earlier result: not touched by the harness
			} else {
				k.in = cmapx.FromInts(fx.FTab)
			}
			d.TB = cmapx.Ints(k.in)
			func() {
				defer func() { recover() }()
				tt, err := cmap.Decode(k.in)
				if err == nil {
					k.table = tt
				}
			}()
			if k.table != nil {
				d.Ok1 = 1
				d.DK1, d.DB1 = dump(k.table)
			} else {
				d.DK1, d.DB1 = [][]int{}, [][]int{}
			}
			k.ev = d
		}
		ks = append(ks, k)
	}
	// all calls are done: look at every retained value again
	var evs []any
	for _, k := range ks {
		switch e := k.ev.(type) {
		case *hE:
			e.W2, e.N2 = words(k.bytes), len(k.bytes)
			switch k.fmt {
			case 4:
				e.IC2, e.IG2 = pairs4(k.m4)
			case 12:
				e.IC2, e.IG2 = pairs12(k.m12)
			case 0:
				e.IC2, e.IG2 = pairs0(k.m0)
			}
			if e.IC2 == nil {
				e.IC2, e.IG2 = []int{}, []int{}
			}
		case *hG:
			e.WA = words(k.in)
			e.Ok2, e.C2, e.G2 = lookAt(k.sub, k.extra)
		case *hT:
			e.TB2 = cmapx.Ints(k.bytes)
			_, e.Subs2 = tableKeysSubs(k.tin)
		case *hD:
			e.TBA = cmapx.Ints(k.in)
			if k.table != nil {
				e.Ok2 = 1
				e.DK2, e.DB2 = dump(k.table)
			} else {
				e.DK2, e.DB2 = [][]int{}, [][]int{}
			}
		}
	}
	// a decoded subtable must not live in the bytes it was decoded from
	for _, k := range ks {
		if e, ok := k.ev.(*hG); ok {
			for i := range k.in {
				k.in[i] = 0xAA
			}
			e.Ok3, e.C3, e.G3 = lookAt(k.sub, k.extra)
		}
	}
	for _, k := range ks {
		evs = append(evs, k.ev)
	}
	return evs
}

// ---------------------------------------------------------------- selection with ties

type selEv struct {
	Ev      string  `json:"ev"`
	Case    int     `json:"case"`
	Keys    [][]int `json:"keys"`
	Procs   int     `json:"procs"`
	Calls   int     `json:"calls"`
	Gets    [][]any `json:"gets"`
	NoLang  [][]any `json:"nolang"`
	Best    []int   `json:"best"`
	Dok     int     `json:"dok"`
	DGets   [][]any `json:"dgets"`
	DNoLang [][]any `json:"dnolang"`
	DBest   []int   `json:"dbest"`
}

const selCalls = 64
const selErr = 9999

func answer(st cmap.Subtable, err error) int {
	if err != nil || st == nil {
		return selErr
	}
	return int(st.Lookup(0x41))
}

func distinct(f func() int) []int {
	seen := map[int]bool{}
	for i := 0; i < selCalls; i++ {
		v := func() (v int) {
			defer func() {
				if r := recover(); r != nil {
					v = selErr + 1
				}
			}()
			return f()
		}()
		seen[v] = true
	}
	res := []int{}
	for v := range seen {
		res = append(res, v)
	}
	sort.Ints(res)
	return res
}

var selPool = [][3]int{{1, 0, 0}, {1, 0, 2}, {1, 0, 7}, {1, 1, 0}, {1, 1, 4}, {3, 1, 0}, {3, 10, 0}, {0, 3, 0}, {1, 0, 3}}
var selPairs = [][2]int{{1, 0}, {1, 1}, {3, 1}, {3, 10}, {0, 3}}

func observe(t cmap.Table) (gets, nolang [][]any, best []int) {
	gets, nolang = [][]any{}, [][]any{}
	for _, k := range selPool {
		key := cmap.Key{PlatformID: uint16(k[0]), EncodingID: uint16(k[1]), Language: uint16(k[2])}
		gets = append(gets, []any{k[0], k[1], k[2], distinct(func() int { return answer(t.Get(key)) })})
	}
	for _, pe := range selPairs {
		p, e := uint16(pe[0]), uint16(pe[1])
		nolang = append(nolang, []any{pe[0], pe[1], distinct(func() int { return answer(t.GetNoLang(p, e)) })})
	}
	best = distinct(func() int { return answer(t.GetBest()) })
	return
}

// selEvents builds the table in the given insertion order and asks every selection call selCalls times.
func selEvents(c *Case) []any {
	e := selEv{Ev: "sel", Case: c.ID, Keys: c.Keys, Procs: 1, Calls: selCalls,
		DGets: [][]any{}, DNoLang: [][]any{}, DBest: []int{}}
	t := cmap.Table{}
	for j, k := range c.Keys {
		t[cmap.Key{PlatformID: uint16(k[0]), EncodingID: uint16(k[1]), Language: uint16(k[2])}] = cmapx.Bytes(c.Subs[j])
	}
	e.Gets, e.NoLang, e.Best = observe(t)
	func() {
		defer func() { recover() }()
		d, err := cmap.Decode(t.Encode())
		if err != nil {
			return
		}
		e.Dok = 1
		e.DGets, e.DNoLang, e.DBest = observe(d)
	}()
	return []any{e}
}

// scribble changes a decoded subtable the way a caller who owns it may: the map types of the package
// (Format4, Format12 and whatever else is a map) get every entry changed, one added and one deleted.
func scribble(st cmap.Subtable) {
	switch m := st.(type) {
	case cmap.Format4:
		first := true
		for k := range m {
			if first {
				delete(m, k)
				first = false
				continue
			}
			m[k] += 1000
		}
		m[0x3039] = 777
	case cmap.Format12:
		first := true
		for k := range m {
			if first {
				delete(m, k)
				first = false
				continue
			}
			m[k] += 1000
		}
		m[0x13039] = 777
	}
}
