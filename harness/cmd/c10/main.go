// Command c10 drives (*sfnt.Font).Subset and (*cff.Outlines).Subset of the real library on
// the abstract fonts of spec/Subset.tla and records, per case, the events that
// spec/SubsetTrace.tla judges:
//
//	reset    the case constants (abstract font F, glyph list)
//	orig     projection of the concrete font built from F (must be F itself: harness self-check)
//	subset   projection of font.Subset(list) (or ok=false with the panic message)
//	osubset  projection of outlines.Subset(list) for CFF outlines
//	reread   projection of Read(Write(subset))
//
// No expectation is computed here; all verdicts are TLC's.
//
//	c10 run  cases.ndjson trace.ndjson     all cases (cases with equal fonts should be adjacent)
//	c10 one  case.json    trace.ndjson     one case
package main

import (
	"bufio"
	"encoding/json"
	"fmt"
	"hash/fnv"
	"os"
	"runtime"
	"sync"

	"seehuhn.de/go/sfnt"
	"seehuhn.de/go/sfnt/cff"
	"seehuhn.de/go/sfnt/glyph"

	"verif.local/harness/internal/subx"
	"verif.local/harness/internal/vio"
)

type caseT struct {
	ID   int             `json:"id"`
	F    json.RawMessage `json:"f"`
	List []int           `json:"list"`
	Pad  *subx.Pad       `json:"pad,omitempty"` // concrete-only padding (size-boundary sweeps)
}

// sizes measured on the written subsets (by subx.Measure, not by the library), per kind
var (
	sizesMu sync.Mutex
	sizes   = map[string]map[int]int{}
)

func noteSizes(file []byte) {
	if file == nil {
		return
	}
	m := subx.Measure(file)
	if os.Getenv("C10_SIZES") != "" { // diagnostic: every measured size
		fmt.Fprintln(os.Stderr, "sizes", m)
	}
	sizesMu.Lock()
	defer sizesMu.Unlock()
	for k, v := range m {
		near := false
		for _, b := range []int{0xFF, 0xFFFF, 0x10000, 0x20000} {
			if v >= b-8 && v <= b+8 {
				near = true
			}
		}
		if near {
			if sizes[k] == nil {
				sizes[k] = map[int]int{}
			}
			sizes[k][v]++
		}
	}
}

type evReset struct {
	Case int             `json:"case"`
	Ev   string          `json:"ev"`
	F    json.RawMessage `json:"f"`
	List []int           `json:"list"`
}

type evProj struct {
	Case int        `json:"case"`
	Ev   string     `json:"ev"`
	St   string     `json:"st"`
	P    *subx.Proj `json:"p"`
	Msg  string     `json:"msg"`
}

func project(f *sfnt.Font, id *subx.Ident) (p *subx.Proj, msg string) {
	defer func() {
		if r := recover(); r != nil {
			p, msg = subx.Empty(), "result cannot be inspected: "+fmt.Sprint(r)
		}
	}()
	return subx.Project(f, id), ""
}

func glyphList(list []int) []glyph.ID {
	res := make([]glyph.ID, len(list))
	for i, g := range list {
		res[i] = glyph.ID(g)
	}
	return res
}

func doSubset(f *sfnt.Font, list []int) (res *sfnt.Font, msg string) {
	defer func() {
		if r := recover(); r != nil {
			res, msg = nil, "Subset panicked: "+fmt.Sprint(r)
		}
	}()
	// the font has a past: other subsets were taken from the same font object before (they must not have changed it)
	if n := f.NumGlyphs(); n > 1 {
		func() {
			defer func() { recover() }()
			f.Subset([]glyph.ID{0, glyph.ID(n - 1)})
			rev := make([]glyph.ID, 0, n)
			rev = append(rev, 0)
			for g := n - 1; g >= 1; g-- {
				rev = append(rev, glyph.ID(g))
			}
			f.Subset(rev)
		}()
	}
	// the glyph list belongs to the caller, who re-uses it as soon as Subset has returned
	gl := glyphList(list)
	res = f.Subset(gl)
	scribbleList(gl)
	return res, ""
}

// scribbleList overwrites a glyph list that was handed to Subset (reversed, then set to one value).
func scribbleList(gl []glyph.ID) {
	for i, j := 0, len(gl)-1; i < j; i, j = i+1, j-1 {
		gl[i], gl[j] = gl[j], gl[i]
	}
	for i := range gl {
		gl[i] = gl[0]
	}
}

func doOutlinesSubset(o *cff.Outlines, list []int, id *subx.Ident) (p *subx.Proj, msg string) {
	defer func() {
		if r := recover(); r != nil {
			p, msg = subx.Empty(), "Outlines.Subset panicked: "+fmt.Sprint(r)
		}
	}()
	gl := glyphList(list)
	sub := o.Subset(gl)
	scribbleList(gl)
	p = subx.Empty()
	p.OK = true
	subx.ProjectCFF(p, sub, id)
	return p, ""
}

type built struct {
	origMsg string // non-empty: the library cannot project the original font
	key     string
	F       *subx.Font
	font    *sfnt.Font
	id      *subx.Ident
}

// runCase returns the events of one case as ndjson lines.
func runCase(c *caseT, b *built, first bool) [][]byte {
	var out [][]byte
	emit := func(v any) {
		d, err := json.Marshal(v)
		if err != nil {
			vio.Fatal(err)
		}
		out = append(out, d)
	}
	emit(evReset{Case: c.ID, Ev: "reset", F: c.F, List: c.List})

	if b.origMsg != "" {
		// the library cannot inspect the font built from valid parts: recorded, the case is not judged
		emit(evProj{Case: c.ID, Ev: "orig", St: "uninspectable", P: subx.Empty(), Msg: b.origMsg})
		return out
	}
	if first { // once per concrete font: the harness built what the model says
		p0, msg := project(b.font, b.id)
		if !p0.OK {
			b.origMsg = msg
			emit(evProj{Case: c.ID, Ev: "orig", St: "uninspectable", P: p0, Msg: msg})
			return out
		}
		emit(evProj{Case: c.ID, Ev: "orig", St: "ok", P: p0, Msg: msg})
	}

	sub, msg := doSubset(b.font, c.List)
	if sub == nil {
		emit(evProj{Case: c.ID, Ev: "subset", St: "panic", P: subx.Empty(), Msg: msg})
	} else {
		p, msg := project(sub, b.id)
		emit(evProj{Case: c.ID, Ev: "subset", St: "ok", P: p, Msg: msg})
	}

	if o, ok := b.font.Outlines.(*cff.Outlines); ok {
		p, msg := doOutlinesSubset(o, c.List, b.id)
		emit(evProj{Case: c.ID, Ev: "osubset", St: "ok", P: p, Msg: msg})
	}

	if sub == nil {
		emit(evProj{Case: c.ID, Ev: "reread", St: "skipped", P: subx.Empty(), Msg: ""})
	} else {
		g, st, msg, file := subx.WriteReadBytes(sub)
		noteSizes(file)
		if g == nil {
			emit(evProj{Case: c.ID, Ev: "reread", St: st, P: subx.Empty(), Msg: msg})
		} else {
			p, msg := project(g, b.id)
			emit(evProj{Case: c.ID, Ev: "reread", St: st, P: p, Msg: msg})
		}
	}
	return out
}

// glyfLen returns the size of the glyf table of font.Subset(list), measured on the written file.
func glyfLen(font *sfnt.Font, list []int) int {
	sub, _ := doSubset(font, list)
	if sub == nil {
		return -1
	}
	_, _, _, file := subx.WriteReadBytes(sub)
	if file == nil {
		return -1
	}
	if v, ok := subx.Measure(file)["glyf"]; ok {
		return v
	}
	return -1
}

func build(raw json.RawMessage, pad *subx.Pad, list []int) *built {
	F := &subx.Font{}
	if err := json.Unmarshal(raw, F); err != nil {
		vio.Fatal(fmt.Errorf("bad abstract font: %v", err))
	}
	canon, _ := json.Marshal(F) // the same realisation however the case file is formatted
	h := fnv.New32a()
	h.Write(canon)
	salt := h.Sum32() ^ uint32(vio.Seed()*2654435761)
	if pad != nil && pad.GlyfTotal > 0 && F.Kind == "ttf" {
		// grow the listed simple glyphs (even numbers of instruction bytes, at most 65000 each)
		// until the glyf table of the subset has exactly the requested size, if that is possible
		p2 := *pad
		p2.Instr = nil
		f0, _ := subx.Build(F, salt, &p2)
		need := pad.GlyfTotal - glyfLen(f0, list)
		for _, g := range list {
			if need <= 0 || need%2 != 0 {
				break
			}
			if len(F.Comp[g]) > 0 || F.Out[g] == -3 {
				continue
			}
			x := need
			if x > 65000 {
				x = 65000
			}
			p2.Instr = append(p2.Instr, []int{g, x})
			need -= x
		}
		pad = &p2
	}
	font, id := subx.Build(F, salt, pad)
	// identify outlines also in the form they take after Write + Read of the unsubsetted font
	if g, st, _ := subx.WriteRead(font); st == "ok" {
		subx.Learn(id, F, g)
	}
	return &built{key: string(raw), F: F, font: font, id: id}
}

func main() {
	if len(os.Args) != 4 || (os.Args[1] != "run" && os.Args[1] != "one") {
		fmt.Fprintln(os.Stderr, "usage: c10 run|one cases trace")
		os.Exit(3)
	}
	var cases []caseT
	if os.Args[1] == "one" {
		data, err := os.ReadFile(os.Args[2])
		if err != nil {
			vio.Fatal(err)
		}
		var c caseT
		if err := json.Unmarshal(data, &c); err != nil {
			vio.Fatal(err)
		}
		cases = []caseT{c}
	} else {
		cases = vio.ReadLines[caseT](os.Args[2])
	}

	// groups of adjacent cases with the same font share one concrete font (so the same
	// font object is subsetted many times) and are handled by one goroutine
	type group struct{ from, to int }
	var groups []group
	for i := range cases {
		if i > 0 && string(cases[i].F) == string(cases[i-1].F) && cases[i].Pad == nil && cases[i-1].Pad == nil {
			groups[len(groups)-1].to = i + 1
		} else {
			groups = append(groups, group{i, i + 1})
		}
	}
	results := make([][][]byte, len(cases))
	var wg sync.WaitGroup
	work := make(chan group)
	nw := runtime.NumCPU()
	if nw > 8 {
		nw = 8
	}
	for w := 0; w < nw; w++ {
		wg.Add(1)
		go func() {
			defer wg.Done()
			for g := range work {
				b := build(cases[g.from].F, cases[g.from].Pad, cases[g.from].List)
				for i := g.from; i < g.to; i++ {
					results[i] = runCase(&cases[i], b, i == g.from)
				}
			}
		}()
	}
	for _, g := range groups {
		work <- g
	}
	close(work)
	wg.Wait()

	n := 0
	f, err := os.Create(os.Args[3])
	if err != nil {
		vio.Fatal(err)
	}
	w := bufio.NewWriterSize(f, 1<<20)
	for _, evs := range results {
		for _, e := range evs {
			w.Write(e)
			w.WriteByte('\n')
			n++
		}
	}
	if err := w.Flush(); err != nil {
		vio.Fatal(err)
	}
	f.Close()
	sz, _ := json.Marshal(sizes)
	fmt.Printf("{\"cases\":%d,\"events\":%d,\"fonts\":%d,\"sizes\":%s}\n", len(cases), n, len(groups), sz)
}
