// Command c02 is the conformance harness of property C02 (decoders are total on untrusted
// bytes).  It never judges an outcome: it executes the fault plan that TLC generated from
// spec/DecoderPlan.tla on the real decoders of go-sfnt, in killable worker processes, and
// records what happened; spec/DecoderTrace.tla decides.
//
//	c02 seeds  <dir>                                   build the seeds: <dir>/seeds.ndjson, <dir>/<id>.bin
//	c02 run    <dir> <plan.ndjson> <trace> <diag>      execute every cell of the plan (parallel workers)
//	c02 one    <dir> <mutants.ndjson> <trace>          each listed mutant alone in a fresh process
//	c02 guards <cases.ndjson> <trace>                  scaled-up replay of the Guards.tla cases
//	c02 bytes  <dir> <mutants.ndjson> <outdir>         write the bytes of each listed mutant to <outdir>/<k>.bin
//	c02 worker <dir>                                   (internal) task loop on stdin/stdout
package main

import (
	"bufio"
	"bytes"
	"encoding/json"
	"fmt"
	"io"
	"os"
	"os/exec"
	"path/filepath"
	"runtime"
	"runtime/debug"
	"sort"
	"strconv"
	"strings"
	"sync"
	"sync/atomic"
	"syscall"
	"time"

	"verif.local/harness/internal/mutate"
	"verif.local/harness/internal/vio"
)

// ---------------------------------------------------------------------------- events

// MutEvent is the record of one mutant (trace event "mut").
type MutEvent struct {
	Ev       string       `json:"ev"`
	Seed     int          `json:"seed"`
	Kind     string       `json:"kind"`
	V        int          `json:"v"`
	Idx      int          `json:"idx"`
	Dec      string       `json:"dec"`
	MutLen   int          `json:"mutlen"`
	Outcome  string       `json:"outcome"` // value | error | panic | timeout
	AllocKiB int64        `json:"allocKiB"`
	Site     string       `json:"site"`
	Msg      string       `json:"msg"`
	NAcc     int          `json:"nacc"`
	BadAcc   []mutate.Acc `json:"badacc"`
}

// CellEvent summarises one cell of the plan (trace event "cell").
type CellEvent struct {
	Ev       string `json:"ev"`
	Seed     int    `json:"seed"`
	Kind     string `json:"kind"`
	V        int    `json:"v"`
	N        int    `json:"n"`
	NValue   int    `json:"nvalue"`
	NError   int    `json:"nerror"`
	NPanic   int    `json:"npanic"`
	NTimeout int    `json:"ntimeout"`
	NAccBad  int    `json:"naccbad"`  // mutants with a panicking accessor
	NOver    int    `json:"nover"`    // mutants the harness logged because of their allocation
	NAcc     int    `json:"nacc"`     // accessor calls that returned normally
	WorstKiB int64  `json:"worstKiB"` // the (alloc, length) pair with the largest alloc - 64*len
	WorstLen int    `json:"worstLen"`
	Logged   int    `json:"logged"` // individual "mut" events of this cell with something reportable
}

// DiagEvent records a panic of an operation outside the property's list (never a verdict).
type DiagEvent struct {
	Seed int    `json:"seed"`
	Kind string `json:"kind"`
	V    int    `json:"v"`
	Idx  int    `json:"idx"`
	Dec  string `json:"dec"`
	mutate.Acc
}

// Task is one unit of work for a worker.
type Task struct {
	Cell    int    `json:"cell"`
	Seed    int    `json:"seed"`
	Kind    string `json:"kind"`
	V       int    `json:"v"`
	From    int    `json:"from"`
	To      int    `json:"to"`
	Careful bool   `json:"careful"`
}

// TaskResult is a worker's answer.
type TaskResult struct {
	Done     bool        `json:"done"`
	Next     int         `json:"next"` // first index not executed
	NValue   int         `json:"nvalue"`
	NError   int         `json:"nerror"`
	NPanic   int         `json:"npanic"`
	NTimeout int         `json:"ntimeout"`
	NAccBad  int         `json:"naccbad"`
	NOver    int         `json:"nover"`
	NAcc     int         `json:"nacc"`
	WorstKiB int64       `json:"worstKiB"`
	WorstLen int         `json:"worstLen"`
	Bad      []MutEvent  `json:"bad"`
	Good     *MutEvent   `json:"good"`
	Diag     []DiagEvent `json:"diag"`
	At       int         `json:"at"` // careful mode progress line
	IsAt     bool        `json:"isat"`
}

const maxLoggedPerTask = 40

// overBudget is only a *logging filter* (which mutants get an individual event); the contract
// itself is evaluated by TLC on the logged numbers and on the worst pair of every cell.
func overBudget(kib int64, n int) bool { return kib*16 > int64(n)+16*budgetKiB() }

var budgetCache int64

// budgetKiB is BudgetKiB of spec/Decoder.tla, handed over by checks/C02.py.
func budgetKiB() int64 {
	if budgetCache == 0 {
		budgetCache = 16384
		if v, err := strconv.ParseInt(os.Getenv("C02_BUDGET_KIB"), 10, 64); err == nil && v > 0 {
			budgetCache = v
		}
	}
	return budgetCache
}

func worse(aKiB int64, aLen int, bKiB int64, bLen int) bool {
	return aKiB*16-int64(aLen) > bKiB*16-int64(bLen)
}

// ---------------------------------------------------------------------------- seeds

func loadSeeds(dir string) map[int]*mutate.Seed {
	res := map[int]*mutate.Seed{}
	for _, s := range vio.ReadLines[mutate.Seed](filepath.Join(dir, "seeds.ndjson")) {
		s := s
		d, err := os.ReadFile(filepath.Join(dir, strconv.Itoa(s.ID)+".bin"))
		if err != nil {
			vio.Fatal(err)
		}
		if len(d) != s.Len {
			vio.Fatal(fmt.Errorf("seed %d: length mismatch", s.ID))
		}
		s.Data = d
		res[s.ID] = &s
	}
	return res
}

func cmdSeeds(dir string) {
	lim := mutate.Limits{Thorough: vio.Thorough()}
	if v := os.Getenv("C02_MAXMLEN"); v != "" {
		lim.MaxMLen, _ = strconv.Atoi(v)
	}
	if v := os.Getenv("C02_BIGMLEN"); v != "" {
		lim.BigMLen, _ = strconv.Atoi(v)
	}
	seeds, err := mutate.BuildSeeds(lim)
	if err != nil {
		vio.Fatal(err)
	}
	out := vio.NewOut(filepath.Join(dir, "seeds.ndjson"))
	for _, s := range seeds {
		if err := os.WriteFile(filepath.Join(dir, strconv.Itoa(s.ID)+".bin"), s.Data, 0o644); err != nil {
			vio.Fatal(err)
		}
		out.Emit(s)
	}
	out.Close()
}

// ---------------------------------------------------------------------------- worker

var (
	curIdx   atomic.Int64
	curStart atomic.Int64 // unix nanos, 0 = idle
	curStage atomic.Value
)

func timeoutMS() int64 {
	if v, err := strconv.ParseInt(os.Getenv("C02_TIMEOUT_MS"), 10, 64); err == nil && v > 0 {
		return v
	}
	return 10000
}

func runMutant(s *mutate.Seed, m mutate.Mutant) (MutEvent, []mutate.Acc) {
	data, err := mutate.Apply(s, m)
	if err != nil {
		vio.Fatal(err)
	}
	r := mutate.Run(s.Dec, data)
	ev := MutEvent{Ev: "mut", Seed: m.Seed, Kind: m.Kind, V: m.V, Idx: m.Idx, Dec: s.Dec, MutLen: len(data),
		Outcome: r.Outcome, AllocKiB: r.AllocKiB, Site: r.Site, Msg: r.Msg, NAcc: r.NAccOK, BadAcc: r.BadAcc}
	if ev.BadAcc == nil {
		ev.BadAcc = []mutate.Acc{}
	}
	if r.Outcome != "panic" {
		ev.Msg = ""
		if overBudget(ev.AllocKiB, ev.MutLen) && os.Getenv("C02_ALLOCSITE") != "" {
			// isolated replays: name the allocation site (profiling re-run; a label, not a verdict)
			ev.Site = mutate.AllocSite(func() { mutate.Run(s.Dec, data) })
		}
	}
	return ev, r.Diag
}

func cmdWorker(dir string) {
	if lim := os.Getenv("C02_AS_LIMIT_MB"); lim != "" {
		if mb, err := strconv.ParseUint(lim, 10, 64); err == nil && mb > 0 {
			rl := syscall.Rlimit{Cur: mb << 20, Max: mb << 20}
			syscall.Setrlimit(syscall.RLIMIT_AS, &rl)
		}
	}
	debug.SetMaxStack(256 << 20)
	seeds := loadSeeds(dir)
	out := bufio.NewWriterSize(os.Stdout, 1<<20)
	enc := json.NewEncoder(out)
	var outMu sync.Mutex
	var cur *TaskResult
	var curTask Task
	var seedOf *mutate.Seed
	curStage.Store("")
	mutate.Stage = func(n string) { curStage.Store(n) }

	// watchdog: a mutant that runs longer than the limit is reported as a hang, with the stack
	// of the decoding goroutine, and the worker exits (the master continues after the mutant).
	limit := timeoutMS() * int64(time.Millisecond)
	go func() {
		for {
			time.Sleep(50 * time.Millisecond)
			st := curStart.Load()
			if st == 0 || time.Now().UnixNano()-st < limit {
				continue
			}
			outMu.Lock()
			idx := int(curIdx.Load())
			buf := make([]byte, 1<<20)
			buf = buf[:runtime.Stack(buf, true)]
			site := mutate.SiteOfStack(mainGoroutine(string(buf)))
			stage, _ := curStage.Load().(string)
			ev := MutEvent{Ev: "mut", Seed: curTask.Seed, Kind: curTask.Kind, V: curTask.V, Idx: idx, Dec: seedOf.Dec,
				MutLen: -1, Outcome: "timeout", Site: site, Msg: "no return within " + strconv.FormatInt(timeoutMS(), 10) + " ms in stage " + stage,
				BadAcc: []mutate.Acc{}}
			if stage != "decode" {
				// the decoder returned; an accessor (or diagnostic operation) hangs
				ev.Outcome = "value"
				oc := "timeout"
				if stage == "Font.Layout" || stage == "gtab.Apply" || stage == "cmap.Lookup(-1)" {
					oc = "diag-timeout"
				}
				ev.BadAcc = []mutate.Acc{{Name: stage, Outcome: oc, Site: site, Msg: ev.Msg}}
				ev.Msg = ""
				ev.Site = ""
			}
			cur.Bad = append(cur.Bad, ev)
			if stage == "decode" {
				cur.NTimeout++
			} else {
				cur.NValue++ // accessor hangs are logged but are not part of the contract
			}
			cur.Next = idx + 1
			cur.Done = true
			enc.Encode(cur)
			out.Flush()
			os.Exit(3)
		}
	}()

	in := bufio.NewScanner(os.Stdin)
	in.Buffer(make([]byte, 1<<16), 1<<20)
	for in.Scan() {
		var t Task
		if err := json.Unmarshal(in.Bytes(), &t); err != nil {
			vio.Fatal(err)
		}
		s := seeds[t.Seed]
		if s == nil {
			vio.Fatal(fmt.Errorf("unknown seed %d", t.Seed))
		}
		outMu.Lock()
		curTask, seedOf = t, s
		cur = &TaskResult{Next: t.From, WorstKiB: 0, WorstLen: 1 << 30}
		outMu.Unlock()
		for idx := t.From; idx < t.To; idx++ {
			if t.Careful {
				outMu.Lock()
				enc.Encode(TaskResult{IsAt: true, At: idx})
				out.Flush()
				outMu.Unlock()
			}
			m := mutate.Mutant{Seed: t.Seed, Kind: t.Kind, V: t.V, Idx: idx}
			curIdx.Store(int64(idx))
			curStart.Store(time.Now().UnixNano())
			ev, diag := runMutant(s, m)
			curStart.Store(0)
			outMu.Lock()
			switch ev.Outcome {
			case "value":
				cur.NValue++
			case "error":
				cur.NError++
			case "panic":
				cur.NPanic++
			}
			cur.NAcc += ev.NAcc
			if cur.WorstLen == 1<<30 || worse(ev.AllocKiB, ev.MutLen, cur.WorstKiB, cur.WorstLen) {
				cur.WorstKiB, cur.WorstLen = ev.AllocKiB, ev.MutLen
			}
			bad := ev.Outcome == "panic" || len(ev.BadAcc) > 0
			if len(ev.BadAcc) > 0 {
				cur.NAccBad++
			}
			if overBudget(ev.AllocKiB, ev.MutLen) {
				cur.NOver++
				bad = true
			}
			if bad {
				if len(cur.Bad) < maxLoggedPerTask {
					cur.Bad = append(cur.Bad, ev)
				}
			} else if cur.Good == nil {
				e := ev
				cur.Good = &e
			}
			for _, d := range diag {
				if len(cur.Diag) < 8 {
					cur.Diag = append(cur.Diag, DiagEvent{Seed: t.Seed, Kind: t.Kind, V: t.V, Idx: idx, Dec: s.Dec, Acc: d})
				}
			}
			cur.Next = idx + 1
			outMu.Unlock()
		}
		outMu.Lock()
		cur.Done = true
		enc.Encode(cur)
		out.Flush()
		outMu.Unlock()
	}
}

// mainGoroutine cuts the dump down to the goroutine that executes mutate.Run.
func mainGoroutine(dump string) string {
	for _, g := range strings.Split(dump, "\n\n") {
		if strings.Contains(g, "mutate.Run") {
			return g
		}
	}
	return dump
}

// ---------------------------------------------------------------------------- master

type workerProc struct {
	cmd    *exec.Cmd
	in     io.WriteCloser
	out    *bufio.Scanner
	stderr *bytes.Buffer
}

func startWorker(dir string) *workerProc {
	exe, err := os.Executable()
	if err != nil {
		vio.Fatal(err)
	}
	cmd := exec.Command(exe, "worker", dir)
	in, _ := cmd.StdinPipe()
	outp, _ := cmd.StdoutPipe()
	w := &workerProc{cmd: cmd, in: in, stderr: &bytes.Buffer{}}
	cmd.Stderr = &limitedWriter{w: w.stderr, max: 1 << 20}
	if err := cmd.Start(); err != nil {
		vio.Fatal(err)
	}
	w.out = bufio.NewScanner(outp)
	w.out.Buffer(make([]byte, 1<<20), 1<<28)
	return w
}

type limitedWriter struct {
	w   *bytes.Buffer
	max int
}

func (l *limitedWriter) Write(p []byte) (int, error) {
	if l.w.Len() < l.max {
		l.w.Write(p)
	}
	return len(p), nil
}

func (w *workerProc) stop() {
	w.in.Close()
	w.cmd.Process.Kill()
	w.cmd.Wait()
}

// exec1 sends a task and reads the answer.  ok=false: the worker died without an answer;
// lastAt is the last mutant announced in careful mode (-1 if none).
func (w *workerProc) exec1(t Task, hardLimit time.Duration) (res TaskResult, ok bool, lastAt int) {
	b, _ := json.Marshal(t)
	lastAt = -1
	if _, err := w.in.Write(append(b, '\n')); err != nil {
		return res, false, lastAt
	}
	timer := time.AfterFunc(hardLimit, func() { w.cmd.Process.Kill() })
	defer timer.Stop()
	for w.out.Scan() {
		var r TaskResult
		if err := json.Unmarshal(w.out.Bytes(), &r); err != nil {
			vio.Fatal(fmt.Errorf("bad worker output: %v", err))
		}
		if r.IsAt {
			lastAt = r.At
			continue
		}
		return r, true, lastAt
	}
	return res, false, lastAt
}

type cellAgg struct {
	cell CellEvent
	bad  []MutEvent
	good *MutEvent
	mu   sync.Mutex
}

func (c *cellAgg) merge(r TaskResult) {
	c.mu.Lock()
	defer c.mu.Unlock()
	c.cell.NValue += r.NValue
	c.cell.NError += r.NError
	c.cell.NPanic += r.NPanic
	c.cell.NTimeout += r.NTimeout
	c.cell.NAccBad += r.NAccBad
	c.cell.NOver += r.NOver
	c.cell.NAcc += r.NAcc
	if r.WorstLen != 1<<30 && (c.cell.WorstLen < 0 || worse(r.WorstKiB, r.WorstLen, c.cell.WorstKiB, c.cell.WorstLen)) {
		c.cell.WorstKiB, c.cell.WorstLen = r.WorstKiB, r.WorstLen
	}
	c.bad = append(c.bad, r.Bad...)
	if c.good == nil && r.Good != nil {
		c.good = r.Good
	}
}

type planCell struct {
	Seed int    `json:"seed"`
	Kind string `json:"kind"`
	V    int    `json:"v"`
	N    int    `json:"n"`
}

func cmdRun(dir, planPath, tracePath, diagPath string) {
	seeds := loadSeeds(dir)
	plan := vio.ReadLines[planCell](planPath)
	aggs := make([]*cellAgg, len(plan))
	var tasks []Task
	for i, c := range plan {
		s := seeds[c.Seed]
		if s == nil {
			vio.Fatal(fmt.Errorf("plan names unknown seed %d", c.Seed))
		}
		aggs[i] = &cellAgg{cell: CellEvent{Ev: "cell", Seed: c.Seed, Kind: c.Kind, V: c.V, N: c.N, WorstLen: -1}}
		chunk := 3000000 / (s.Len + 300)
		if s.Dec == "sfnt" || s.Dec == "cff" || s.Dec == "glyf" {
			chunk /= 8
		}
		if chunk < 4 {
			chunk = 4
		}
		if chunk > 4096 {
			chunk = 4096
		}
		for from := 0; from < c.N; from += chunk {
			to := from + chunk
			if to > c.N {
				to = c.N
			}
			tasks = append(tasks, Task{Cell: i, Seed: c.Seed, Kind: c.Kind, V: c.V, From: from, To: to})
		}
	}
	// big tasks first would help balance; keep plan order but interleave by handing out from a channel
	ch := make(chan Task, len(tasks))
	for _, t := range tasks {
		ch <- t
	}
	close(ch)
	nw := runtime.NumCPU()
	if v, err := strconv.Atoi(os.Getenv("C02_PROCS")); err == nil && v > 0 {
		nw = v
	}
	var diagMu sync.Mutex
	var diags []DiagEvent
	var respawns, fatals atomic.Int64
	hard := time.Duration(timeoutMS())*time.Millisecond*3 + 120*time.Second
	var wg sync.WaitGroup
	for k := 0; k < nw; k++ {
		wg.Add(1)
		go func() {
			defer wg.Done()
			w := startWorker(dir)
			defer func() { w.stop() }()
			for t := range ch {
				agg := aggs[t.Cell]
				for t.From < t.To {
					r, ok, _ := w.exec1(t, hard)
					if ok {
						agg.merge(r)
						diagMu.Lock()
						diags = append(diags, r.Diag...)
						diagMu.Unlock()
						if r.Next >= t.To {
							break
						}
						// the watchdog fired inside the worker: continue after the hanging mutant
						t.From = r.Next
						w.stop()
						w = startWorker(dir)
						respawns.Add(1)
						continue
					}
					// the worker died (fatal error, out of memory, killed): find the mutant in careful mode
					fatals.Add(1)
					w.stop()
					w = startWorker(dir)
					ct := t
					ct.Careful = true
					r2, ok2, lastAt := w.exec1(ct, hard)
					if ok2 {
						// did not die again: take the careful answer
						agg.merge(r2)
						if r2.Next >= t.To {
							break
						}
						t.From = r2.Next
						w.stop()
						w = startWorker(dir)
						continue
					}
					if lastAt < 0 {
						vio.Fatal(fmt.Errorf("worker dies before the first mutant of task %+v:\n%s", t, tail(w.stderr.String(), 2000)))
					}
					// everything before lastAt was executed (results lost with the worker): redo [From,lastAt)
					// without the culprit, then record the culprit
					dump := w.stderr.String()
					w.stop()
					w = startWorker(dir)
					if lastAt > t.From {
						pre := t
						pre.To = lastAt
						rp, okp, _ := w.exec1(pre, hard)
						if !okp || rp.Next < lastAt {
							vio.Fatal(fmt.Errorf("task %+v is not reproducible", pre))
						}
						agg.merge(rp)
					}
					s := seeds[t.Seed]
					first := dump
					if i := strings.Index(first, "\n"); i > 0 {
						first = first[:i]
					}
					ev := MutEvent{Ev: "mut", Seed: t.Seed, Kind: t.Kind, V: t.V, Idx: lastAt, Dec: s.Dec, MutLen: -1,
						Outcome: "panic", Site: mutate.SiteOfStack(dump), Msg: "process died: " + tail(first, 150), BadAcc: []mutate.Acc{}}
					agg.merge(TaskResult{NPanic: 1, Bad: []MutEvent{ev}, WorstLen: 1 << 30})
					t.From = lastAt + 1
				}
			}
		}()
	}
	wg.Wait()

	out := vio.NewOut(tracePath)
	out.Emit(map[string]any{"ev": "plan", "cells": len(plan)})
	for _, a := range aggs {
		sort.Slice(a.bad, func(i, j int) bool { return a.bad[i].Idx < a.bad[j].Idx })
		if len(a.bad) > 200 {
			a.bad = a.bad[:200]
		}
		a.cell.Logged = len(a.bad)
		if a.good != nil {
			out.Emit(a.good)
		}
		for _, b := range a.bad {
			out.Emit(b)
		}
		if a.cell.WorstLen < 0 {
			a.cell.WorstLen, a.cell.WorstKiB = 0, 0
		}
		out.Emit(a.cell)
	}
	out.Close()
	dout := vio.NewOut(diagPath)
	for _, d := range diags {
		dout.Emit(d)
	}
	dout.Close()
	fmt.Printf("{\"workers\":%d,\"tasks\":%d,\"respawns\":%d,\"fatals\":%d}\n", nw, len(tasks), respawns.Load(), fatals.Load())
}

func tail(s string, n int) string {
	if len(s) > n {
		return s[:n]
	}
	return s
}

// ---------------------------------------------------------------------------- isolation

// cmdOne executes each listed mutant alone in a fresh worker process (twice for a hang) and
// records one "mut" event per mutant.
func cmdOne(dir, listPath, tracePath string) {
	seeds := loadSeeds(dir)
	list := vio.ReadLines[mutate.Mutant](listPath)
	out := vio.NewOut(tracePath)
	out.Emit(map[string]any{"ev": "replay", "cells": 0})
	hard := time.Duration(timeoutMS())*time.Millisecond*3 + 120*time.Second
	for _, m := range list {
		s := seeds[m.Seed]
		if s == nil {
			vio.Fatal(fmt.Errorf("unknown seed %d", m.Seed))
		}
		var ev *MutEvent
		for attempt := 0; attempt < 2; attempt++ {
			w := startWorker(dir)
			t := Task{Seed: m.Seed, Kind: m.Kind, V: m.V, From: m.Idx, To: m.Idx + 1, Careful: true}
			r, ok, lastAt := w.exec1(t, hard)
			dump := w.stderr.String()
			w.stop()
			var e MutEvent
			switch {
			case ok && len(r.Bad) > 0:
				e = r.Bad[0]
			case ok && r.Good != nil:
				e = *r.Good
			case !ok && lastAt == m.Idx:
				first := dump
				if i := strings.Index(first, "\n"); i > 0 {
					first = first[:i]
				}
				e = MutEvent{Ev: "mut", Seed: m.Seed, Kind: m.Kind, V: m.V, Idx: m.Idx, Dec: s.Dec, MutLen: -1, Outcome: "panic",
					Site: mutate.SiteOfStack(dump), Msg: "process died: " + tail(first, 150), BadAcc: []mutate.Acc{}}
			default:
				vio.Fatal(fmt.Errorf("isolated run of %+v produced no record:\n%s", m, tail(dump, 1500)))
			}
			hang := e.Outcome == "timeout"
			for _, a := range e.BadAcc {
				hang = hang || a.Outcome == "timeout"
			}
			if ev == nil {
				ev = &e
			} else if !hang {
				ev = &e // a hang must reproduce twice; the second run returned
			}
			if !hang {
				break
			}
		}
		out.Emit(ev)
	}
	out.Close()
}

// cmdBytes writes the bytes of the listed mutants (for replay files).
func cmdBytes(dir, listPath, outDir string) {
	seeds := loadSeeds(dir)
	for k, m := range vio.ReadLines[mutate.Mutant](listPath) {
		s := seeds[m.Seed]
		if s == nil {
			vio.Fatal(fmt.Errorf("unknown seed %d", m.Seed))
		}
		data, err := mutate.Apply(s, m)
		if err != nil {
			vio.Fatal(err)
		}
		if err := os.WriteFile(filepath.Join(outDir, strconv.Itoa(k)+".bin"), data, 0o644); err != nil {
			vio.Fatal(err)
		}
	}
}

func main() {
	if len(os.Args) < 2 {
		vio.Fatal("usage: c02 seeds|run|one|guards|worker ...")
	}
	a := os.Args[2:]
	switch os.Args[1] {
	case "seeds":
		cmdSeeds(a[0])
	case "worker":
		cmdWorker(a[0])
	case "run":
		cmdRun(a[0], a[1], a[2], a[3])
	case "one":
		cmdOne(a[0], a[1], a[2])
	case "guards":
		cmdGuards(a[0], a[1])
	case "bytes":
		cmdBytes(a[0], a[1], a[2])
	default:
		vio.Fatal("unknown sub-command " + os.Args[1])
	}
}
