package main

import (
	"encoding/base64"
	"encoding/binary"
	"fmt"
	"sort"
	"strconv"
	"time"

	"verif.local/harness/internal/mutate"
	"verif.local/harness/internal/vio"
)

// GuardCase is one state of spec/Guards.tla printed by TLC.
type GuardCase struct {
	Guard  string         `json:"guard"`
	X      map[string]any `json:"x"`
	Accept bool           `json:"accept"`
	Hole   bool           `json:"hole"`
}

// GuardEvent is the record of one replayed guard case (trace event "guard").
type GuardEvent struct {
	Ev       string       `json:"ev"`
	ID       int          `json:"id"`
	Guard    string       `json:"guard"`
	Variant  int          `json:"variant"`
	Pred     string       `json:"pred"` // hole | accept | reject  (what the model says)
	Dec      string       `json:"dec"`
	InLen    int          `json:"inlen"`
	Outcome  string       `json:"outcome"`
	AllocKiB int64        `json:"allocKiB"`
	Site     string       `json:"site"`
	Msg      string       `json:"msg"`
	NAcc     int          `json:"nacc"`
	BadAcc   []mutate.Acc `json:"badacc"`
	Data     string       `json:"data"` // base64 of the input, for reportable events only
}

func (c *GuardCase) i(name string) int {
	switch v := c.X[name].(type) {
	case float64:
		return int(v)
	case bool:
		if v {
			return 1
		}
		return 0
	}
	vio.Fatal(fmt.Errorf("guard case %s lacks field %s", c.Guard, name))
	return 0
}

type buf struct{ b []byte }

func (w *buf) u16(v ...int) {
	for _, x := range v {
		w.b = append(w.b, byte(x>>8), byte(x))
	}
}
func (w *buf) u32(v ...uint32) {
	for _, x := range v {
		w.b = append(w.b, byte(x>>24), byte(x>>16), byte(x>>8), byte(x))
	}
}
func put16(b []byte, off int, v int) {
	if off >= 0 && off+1 < len(b) {
		binary.BigEndian.PutUint16(b[off:], uint16(v))
	}
}
func put32(b []byte, off int, v uint32) {
	for k := 0; k < 4; k++ {
		if off+k >= 0 && off+k < len(b) {
			b[off+k] = byte(v >> (24 - 8*k))
		}
	}
}

// top maps a value of an m-valued model word to 32 bits: the upper quarter of the model range
// stands for values just below 2^32 (where unsigned sums wrap), the rest is scaled by unit.
func top(v, m int, unit uint32) uint32 {
	if v >= m-m/4 {
		return uint32(0) - uint32(m-v)*unit
	}
	return uint32(v) * unit
}

// concretise builds the real inputs (decoder name, bytes) for a model state.  Guards whose
// model is not replayed (cmap4seg, cmap12, cover) return nothing.
func concretise(c *GuardCase) (dec string, inputs [][]byte) {
	switch c.Guard {
	case "simple":
		nc, e1, e2, nf := c.i("nc"), c.i("e1"), c.i("e2"), c.i("nf")
		for _, k := range []int{1, 40} {
			g := &buf{}
			g.u16(nc, 0, 0, 0, 0)
			if nc >= 1 {
				g.u16((e1+1)*k - 1)
			}
			if nc >= 2 {
				g.u16((e2+1)*k - 1)
			}
			g.u16(0)
			for j := 0; j < nf*k; j++ {
				g.b = append(g.b, 0x31)
			}
			if len(g.b)%2 == 1 {
				g.b = append(g.b, 0)
			}
			loca := &buf{}
			loca.u16(0, len(g.b)/2)
			inputs = append(inputs, mutate.JoinGlyf(0, loca.b, g.b))
		}
		return "glyf", inputs

	case "loca":
		loca := &buf{}
		loca.u16(c.i("x0"), c.i("x1"), c.i("x2"))
		return "glyf", [][]byte{mutate.JoinGlyf(0, loca.b, make([]byte, c.i("G")))}

	case "gpos5":
		return "GPOS", [][]byte{gpos5Table(c.i("lig"), c.i("mcc"), c.i("comp"))}

	case "cffpriv":
		return "cff", [][]byte{cffWithPrivate(c.i("size"), c.i("offs"), c.i("S"))}

	case "index":
		// header, then the Name INDEX with two objects; S counts the bytes after the 10-byte prefix
		b := []byte{1, 0, 4, 1, 0, 2, 1}
		for _, n := range []string{"a0", "a1", "a2"} {
			v := c.i(n)
			if v >= 1 {
				v += 10
			}
			b = append(b, byte(v))
		}
		b = append(b, make([]byte, c.i("S"))...)
		return "cff", [][]byte{b}

	case "cmap":
		L, nt, o, ln := c.i("L"), c.i("nt"), c.i("o"), c.i("len")
		b := make([]byte, L)
		put16(b, 2, nt)
		if nt == 1 {
			put16(b, 4, 3)
			put16(b, 6, 1)
			put32(b, 8, top(o, 32, 1))
			if o < 24 {
				switch c.X["f"] {
				case "s":
					put16(b, o, 4)
					put16(b, o+2, int(top(ln, 32, 1)&0xFFFF))
				case "l":
					put16(b, o, 12)
					put32(b, o+4, top(ln, 32, 1))
				case "v":
					put16(b, o, 14)
					put32(b, o+2, top(ln, 32, 1))
				}
			}
		}
		return "cmap", [][]byte{b}

	case "cmap4":
		lin, sx2 := c.i("Lin"), c.i("sx2")
		sub := make([]byte, lin)
		put16(sub, 0, 4)
		put16(sub, 2, lin)
		put16(sub, 6, sx2)
		t := &buf{}
		t.u16(0, 1, 3, 1)
		t.u32(12)
		return "cmap", [][]byte{append(t.b, sub...)}

	case "dir":
		f := c.i("F") * 44
		b := make([]byte, f)
		put32(b, 0, 0x00010000)
		put16(b, 4, 2)
		copy(b[12:], "aaaa")
		put32(b, 20, top(c.i("o1"), 16, 44))
		put32(b, 24, top(c.i("l1"), 16, 44))
		if f >= 44 {
			copy(b[28:], "bbbb")
		}
		put32(b, 36, top(c.i("o2"), 16, 44))
		put32(b, 40, top(c.i("l2"), 16, 44))
		return "header", [][]byte{b}

	case "sum32":
		a, b := c.i("a"), c.i("b")
		scale := func(v int) int32 {
			if v == 7 {
				return 0x7FFFFFFF
			}
			return int32(int64(v) << 28)
		}
		if c.X["kind"] == "priv" {
			// a = offset, b = size; small positive offsets are real positions of the Private DICT
			return "cff", [][]byte{cffPrivateRaw(scale(b), scale(a), c.i("S")), cffPrivateRaw(scale(b), int32(42), c.i("S"))}
		}
		if a < 1 || a > 5 {
			return "", nil // the Private DICT must really be at its offset for Subrs to be looked at
		}
		return "cff", [][]byte{mutate.CFFWithSubrsOffset(scale(b))}

	case "fixedtab":
		n := map[string]int{"charset0": 229, "charset1": 166, "charset2": 87, "enc0": 256, "enc1": 256, "sid": 391,
			"stack": 48, "postmac": 258, "nest": 10}[c.X["tab"].(string)] + c.i("d")
		switch tab := c.X["tab"].(string); tab {
		case "charset0", "charset1", "charset2":
			return "cff", [][]byte{mutate.CFFPredef(n, int(tab[7]-'0'), c.i("enc"))}
		case "enc0", "enc1":
			// n glyphs need a custom charset (the predefined ones are shorter): one range of standard SIDs
			return "cff", [][]byte{mutate.CFFCharset(n, 0, int(tab[3]-'0'), []byte{2, 0, 1, byte((n - 2) >> 8), byte(n - 2)})}
		case "sid":
			return "cff", [][]byte{mutate.CFFCharset(2, 0, c.i("enc"), []byte{0, byte(n >> 8), byte(n)})}
		case "stack":
			cs := make([]byte, 0, n+1)
			for k := 0; k < n; k++ {
				cs = append(cs, mutate.T2Num(1)...)
			}
			return "cff", [][]byte{mutate.CFFWithCharstrings([][]byte{append(cs, 14)}, nil, nil)}
		case "nest":
			// subr k calls subr k+1, the last one returns: n nested calls below the glyph
			var subrs [][]byte
			for k := 0; k < n; k++ {
				if k == n-1 {
					subrs = append(subrs, []byte{11})
				} else {
					subrs = append(subrs, append(mutate.T2Num(k+1-107), 10, 11))
				}
			}
			return "cff", [][]byte{mutate.CFFWithCharstrings([][]byte{append(mutate.T2Num(-107), 10, 14)}, nil, subrs)}
		case "postmac":
			t := &buf{}
			t.u16(2, 0, 0, 0, 0xFF9C, 50, 0, 0, 0, 0, 0, 0, 0, 0, 0, 0) // version 2.0 header, 32 bytes
			t.u16(1, n)
			t.b = append(t.b, 1, 'a')
			return "post", [][]byte{t.b}
		}
		return "", nil

	case "t2fan":
		// depth levels of local subroutines; level i calls level i+1 fan times, the last one returns at once
		// (subroutine numbers are stored minus the bias 107)
		depth, fan := c.i("depth"), c.i("fan")
		calls := func(k int) []byte {
			var b []byte
			for j := 0; j < fan; j++ {
				b = append(append(b, mutate.T2Num(k-107)...), 10)
			}
			return b
		}
		var subrs [][]byte
		for i := 0; i+1 < depth; i++ {
			subrs = append(subrs, append(calls(i+1), 11))
		}
		subrs = append(subrs, []byte{11})
		return "cff", [][]byte{mutate.CFFWithCharstrings([][]byte{append(calls(0), 14)}, nil, subrs)}

	case "t2op":
		var cs []byte
		for k := 1; k <= c.i("d"); k++ {
			cs = append(cs, mutate.T2Num(k%9+1)...)
		}
		cs = append(cs, mutate.T2Num(c.i("a"))...)
		cs = append(cs, mutate.T2Num(c.i("b"))...)
		if op := c.i("op"); op >= 1200 {
			cs = append(cs, 12, byte(op-1200))
		} else {
			cs = append(cs, byte(op))
			if op == 19 || op == 20 {
				cs = append(cs, 0xAA, 0x55, 0xAA, 0x55)
			}
		}
		cs = append(cs, 14)
		// subr 0 returns, subr 1 calls itself (the nesting limit must stop it)
		subrs := [][]byte{{11}, append(mutate.T2Num(-106), 10, 11)}
		gsubrs := [][]byte{{11}, append(mutate.T2Num(-106), 29, 11)}
		return "cff", [][]byte{mutate.CFFWithCharstrings([][]byte{cs}, gsubrs, subrs)}

	case "prodcap":
		c1, c2, avail := c.i("c1")*4681, c.i("c2")*4681, c.i("avail")
		if c.X["kind"] == "grow" {
			// GPOS 5: markClassCount (subtable header) x componentCount (LigatureAttach), table kept short
			t := gpos5Table(1, 1, 1)
			put16(t, 56+6, c1)
			ligArr := 56 + 18 + 4 + 2 + 12
			put16(t, ligArr+4, c2)
			return "GPOS", [][]byte{append(t, make([]byte, 2*avail)...)}
		}
		// GPOS 4: markClassCount x baseCount (clipped to the size of the base coverage)
		t := &buf{}
		t.u16(1, 0, 10, 30, 44)
		t.u16(1)
		t.b = append(t.b, "DFLT"...)
		t.u16(8, 4, 0, 0, 0xFFFF, 1, 0)
		t.u16(1)
		t.b = append(t.b, "mark"...)
		t.u16(8, 0, 1, 0)
		t.u16(1, 4)
		t.u16(4, 0, 1, 8)
		t.u16(1, 12, 18, c1, 28, 40)
		t.u16(1, 1, 11)
		end := 100 + c2 - 1
		if c2 == 0 {
			end = 100
		}
		t.u16(2, 1, 100, end, 0)
		t.u16(1, 0, 6, 1, 5, 5)
		t.u16(c2)
		return "GPOS", [][]byte{append(t.b, make([]byte, 2*avail)...)}

	case "t2store":
		var cs []byte
		if c.i("prior") == 1 {
			cs = append(cs, mutate.T2Num(1)[0], mutate.T2Num(0)[0], 12, 20)
		}
		m := mutate.T2Num(c.i("m"))
		if c.X["o"] == "put" {
			cs = append(append(cs, mutate.T2Num(7)...), m...)
			cs = append(cs, 12, 20)
		} else {
			cs = append(append(cs, m...), 12, 21, 12, 18)
		}
		cs = append(cs, 14)
		return "cff", [][]byte{mutate.CFFWithCharstrings([][]byte{cs}, nil, nil)}

	case "t2stack":
		var cs []byte
		for k := 1; k <= c.i("depth"); k++ {
			cs = append(cs, mutate.T2Num(k)...)
		}
		cs = append(cs, mutate.T2Num(c.i("n"))...)
		if c.X["o"] == "index" {
			cs = append(cs, 12, 29)
		} else {
			cs = append(append(cs, mutate.T2Num(c.i("j"))...), 12, 30)
		}
		cs = append(cs, 14)
		return "cff", [][]byte{mutate.CFFWithCharstrings([][]byte{cs}, nil, nil)}

	case "sum":
		k, pct := c.i("k"), c.i("pct")
		t := &buf{}
		switch c.X["kind"] {
		case "cmap12":
			sz := uint32(65536 * pct / 100)
			t.u16(0, 1, 3, 10)
			t.u32(12)
			t.u16(12, 0)
			t.u32(uint32(16+12*k), 0, uint32(k))
			for i := uint32(0); i < uint32(k); i++ {
				t.u32(0x10000+i*sz, 0x10000+(i+1)*sz-1, 1)
			}
			return "cmap", [][]byte{t.b}
		case "cover":
			sz := 65536 * pct / 100
			t.u16(2, k)
			pos := 0
			for i := 0; i < k; i++ {
				start := i * sz
				if k*pct > 100 {
					start = i // overlapping: only the disjointness test stands between k ranges and k*sz entries
				}
				end := start + sz - 1
				if end > 65535 {
					end = 65535
				}
				t.u16(start, end, pos&0xFFFF)
				pos += end - start + 1
			}
			return "coverage", [][]byte{t.b}
		case "name":
			ln := 65534 * pct / 100 &^ 1
			t.u16(0, k, 6+12*k)
			for i := 0; i < k; i++ {
				t.u16(3, 1, 0x409, 1+i, ln, 0)
			}
			for i := 0; i < ln/2; i++ {
				t.u16('A')
			}
			return "name", [][]byte{t.b}
		case "kern":
			np := 100 * pct
			t.u16(0, k)
			for i := 0; i < k; i++ {
				t.u16(0, 14, 1, np, 0, 0, 0)
			}
			for i := 0; i < np+3*k; i++ {
				t.u16(2+i%7, 3+i%11, i%50-25)
			}
			return "kern", [][]byte{t.b}
		}
		return "", nil

	case "cdrev":
		// format 2: pairs of (the whole glyph space in class 1, a reversed range that assigns nothing)
		n := c.i("pairs")
		t := &buf{}
		t.u16(2, 2*n)
		for i := 0; i < n; i++ {
			t.u16(1, 65534, 1)
			t.u16(65535, 0, 1)
		}
		return "classdef", [][]byte{t.b}

	case "classdef":
		start, count := c.i("start")*8192, c.i("count")*8192
		if count > 65535 {
			count = 65535
		}
		t := &buf{}
		t.u16(1, start, count)
		t.b = append(t.b, make([]byte, 2*count)...)
		return "classdef", [][]byte{t.b}
	}
	return "", nil
}

// gpos5Table lays out a GPOS table with one mark-to-ligature subtable after the OpenType
// specification: lig ligatures, mcc mark classes, comp components per ligature.
func gpos5Table(lig, mcc, comp int) []byte {
	t := &buf{}
	t.u16(1, 0, 10, 30, 44)
	t.u16(1)
	t.b = append(t.b, "DFLT"...)
	t.u16(8, 4, 0, 0, 0xFFFF, 1, 0)
	t.u16(1)
	t.b = append(t.b, "mark"...)
	t.u16(8, 0, 1, 0)
	t.u16(1, 4)
	t.u16(5, 0, 1, 8)
	// subtable at 56
	ligCov := 18
	markArr := ligCov + 4 + 2*lig
	ligArr := markArr + 12
	t.u16(1, 12, ligCov, mcc, markArr, ligArr)
	t.u16(1, 1, 11)
	t.u16(1, lig)
	for i := 0; i < lig; i++ {
		t.u16(20 + i)
	}
	t.u16(1, 0, 6, 1, 5, 5)
	attach := 2 + 2*comp*mcc + 6
	t.u16(lig)
	for i := 0; i < lig; i++ {
		t.u16(2 + 2*lig + i*attach)
	}
	for i := 0; i < lig; i++ {
		t.u16(comp)
		for k := 0; k < comp*mcc; k++ {
			t.u16(2 + 2*comp*mcc)
		}
		t.u16(1, 100, 700)
	}
	return t.b
}

// cffWithPrivate is a minimal one-glyph CFF font whose Top DICT carries the Private operands
// (size, offset) derived from the model state; S pads the file.
func cffWithPrivate(size, offs, s int) []byte {
	const priv = 42
	fileLen := priv + 4*s
	realOffs := int32(offs)
	if offs >= 1 {
		realOffs = int32(priv + offs - 1)
	}
	realSize := int32(size)
	switch {
	case size > s:
		realSize = int32(fileLen + (size-s)<<25)
	case size >= 0:
		realSize = int32(4 * size)
	}
	num := func(v int32) []byte { return []byte{29, byte(v >> 24), byte(v >> 16), byte(v >> 8), byte(v)} }
	top := append(num(36), 17)
	top = append(top, num(realSize)...)
	top = append(top, num(realOffs)...)
	top = append(top, 18)
	b := []byte{1, 0, 4, 1}
	b = append(b, 0, 1, 1, 1, 2, 'A')
	b = append(b, 0, 1, 1, 1, byte(1+len(top)))
	b = append(b, top...)
	b = append(b, 0, 0, 0, 0)
	b = append(b, 0, 1, 1, 1, 2, 14)
	if len(b) != priv {
		vio.Fatal(fmt.Errorf("cff assembler: layout %d", len(b)))
	}
	return append(b, make([]byte, 4*s)...)
}

// cffPrivateRaw is cffWithPrivate with the Private operands given as they are.
func cffPrivateRaw(size, offs int32, s int) []byte {
	const priv = 42
	num := func(v int32) []byte { return []byte{29, byte(v >> 24), byte(v >> 16), byte(v >> 8), byte(v)} }
	top := append(num(36), 17)
	top = append(top, num(size)...)
	top = append(top, num(offs)...)
	top = append(top, 18)
	b := []byte{1, 0, 4, 1}
	b = append(b, 0, 1, 1, 1, 2, 'A')
	b = append(b, 0, 1, 1, 1, byte(1+len(top)))
	b = append(b, top...)
	b = append(b, 0, 0, 0, 0)
	b = append(b, 0, 1, 1, 1, 2, 14)
	if len(b) != priv {
		vio.Fatal(fmt.Errorf("cff assembler: layout %d", len(b)))
	}
	return append(b, make([]byte, 4*s)...)
}

func cmdGuards(casesPath, tracePath string) {
	cases := vio.ReadLines[GuardCase](casesPath)
	out := vio.NewOut(tracePath)
	out.Emit(map[string]any{"ev": "replay", "cells": 0})
	siteCache := map[string]string{}
	// cases that may run into the watchdog come last, cheapest first: a call that never returns keeps its
	// goroutine busy and would disturb the allocation measurements of whatever runs after it
	order := make([]int, len(cases))
	for i := range order {
		order[i] = i
	}
	cost := func(c *GuardCase) int {
		switch c.Guard {
		case "t2fan":
			return 1 + c.i("depth")*100 + c.i("fan")
		case "cdrev":
			return 2000 + c.i("pairs")
		}
		return 0
	}
	sort.SliceStable(order, func(a, b int) bool { return cost(&cases[order[a]]) < cost(&cases[order[b]]) })
	failed := map[string]int{} // guard -> replayed states that broke the contract so far
	for _, id := range order {
		c := cases[id]
		if failed[c.Guard] >= 12 {
			// a dozen witnesses are enough: every further state of this guard would cost the same (allocations of
			// hundreds of MiB, watchdog periods) without telling more
			continue
		}
		dec, inputs := concretise(&c)
		pred := "reject"
		if c.Hole {
			pred = "hole"
		} else if c.Accept {
			pred = "accept"
		}
		for v, in := range inputs {
			// a watchdog like the one of the fault plan: a call that does not return is an outcome ("timeout"), its
			// goroutine cannot be stopped and keeps running until the process ends
			var r *mutate.Result
			done := make(chan *mutate.Result, 1)
			go func(in []byte) { done <- mutate.Run(dec, in) }(in)
			select {
			case r = <-done:
			case <-time.After(time.Duration(timeoutMS()) * time.Millisecond):
				r = &mutate.Result{Outcome: "timeout", Msg: "no return within " + strconv.FormatInt(timeoutMS(), 10) + " ms"}
			}
			ev := GuardEvent{Ev: "guard", ID: id, Guard: c.Guard, Variant: v, Pred: pred, Dec: dec, InLen: len(in), Outcome: r.Outcome,
				AllocKiB: r.AllocKiB, Site: r.Site, Msg: r.Msg, NAcc: r.NAccOK, BadAcc: r.BadAcc}
			if ev.BadAcc == nil {
				ev.BadAcc = []mutate.Acc{}
			}
			if r.Outcome != "panic" {
				ev.Msg = ""
			}
			if overBudget(r.AllocKiB, len(in)) {
				// name the allocation site once per guard (profiling run; a label, not a verdict)
				if _, ok := siteCache[c.Guard]; !ok {
					siteCache[c.Guard] = mutate.AllocSite(func() { mutate.Run(dec, in) })
				}
				ev.Site = siteCache[c.Guard]
			}
			if r.Outcome == "panic" || r.Outcome == "timeout" || len(r.BadAcc) > 0 || overBudget(r.AllocKiB, len(in)) {
				failed[c.Guard]++
			}
			if (r.Outcome == "panic" || r.Outcome == "timeout" || len(r.BadAcc) > 0 || overBudget(r.AllocKiB, len(in))) && len(in) <= 1<<20 {
				ev.Data = base64.StdEncoding.EncodeToString(in)
			}
			out.Emit(ev)
		}
	}
	out.Close()
}
