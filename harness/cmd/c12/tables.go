package main

import (
	"bytes"
	"math"
	"time"

	"seehuhn.de/go/postscript/funit"

	"seehuhn.de/go/sfnt/head"
	"seehuhn.de/go/sfnt/hmtx"
	"seehuhn.de/go/sfnt/maxp"
	"seehuhn.de/go/sfnt/os2"
	"seehuhn.de/go/sfnt/post"

	mx "verif.local/harness/internal/metricsx"
	"verif.local/harness/internal/vio"
)

func i16s(v []int) []funit.Int16 {
	res := make([]funit.Int16, len(v))
	for i, x := range v {
		res[i] = funit.Int16(x)
	}
	return res
}

func ints16(v []funit.Int16) []int {
	res := make([]int, len(v))
	for i, x := range v {
		res[i] = int(x)
	}
	return res
}

func rects(b [][4]int) []funit.Rect16 {
	res := make([]funit.Rect16, len(b))
	for i, x := range b {
		res[i] = funit.Rect16{LLx: funit.Int16(x[0]), LLy: funit.Int16(x[1]), URx: funit.Int16(x[2]), URy: funit.Int16(x[3])}
	}
	return res
}

func rectInts(r funit.Rect16) [4]int {
	return [4]int{int(r.LLx), int(r.LLy), int(r.URx), int(r.URy)}
}

// angleOf converts a caret slope to the angle convention of hmtx.Info (radians, 0 = vertical);
// trusted trigonometry, the specification only sees (rise, run) pairs.
func angleOf(rise, run int) float64 {
	return math.Atan2(float64(rise), float64(run)) - math.Pi/2
}

// reSlope encodes an angle with the library once more and reads the slope words.
func reSlope(angle float64) (int, int) {
	hh, _ := (&hmtx.Info{CaretAngle: angle}).Encode()
	w := mx.Words(hh)
	if len(w) < 11 {
		return 0, 0
	}
	return mx.S16(w[9]), mx.S16(w[10])
}

func doHmtx(c *Case, out *vio.Out) {
	guard(c, out, func() {
		info := &hmtx.Info{
			Widths:      i16s(c.W),
			Ascent:      funit.Int16(c.S.Asc),
			Descent:     funit.Int16(c.S.Desc),
			LineGap:     funit.Int16(c.S.Gap),
			CaretAngle:  angleOf(c.S.Rise, c.S.Run),
			CaretOffset: funit.Int16(c.S.Coff),
		}
		switch c.Mode {
		case "given":
			info.LSB = i16s(c.LSB)
			info.GlyphExtents = rects(c.Box)
		case "derived":
			info.GlyphExtents = rects(c.Box)
		case "nobox":
			info.LSB = i16s(c.LSB)
		default:
			vio.Fatal("bad hmtx mode")
		}
		hheaData, hmtxData := info.Encode()
		// call history: the result handed out must not change when the encoder is used again
		snapA, snapB := append([]byte(nil), hheaData...), append([]byte(nil), hmtxData...)
		other := &hmtx.Info{Widths: make([]funit.Int16, len(info.Widths)+1), LSB: make([]funit.Int16, len(info.Widths)+1),
			Ascent: ^info.Ascent, Descent: ^info.Descent, LineGap: ^info.LineGap, CaretAngle: 0.3, CaretOffset: ^info.CaretOffset}
		for i := range other.Widths {
			other.Widths[i], other.LSB[i] = funit.Int16(7000+i), funit.Int16(-900-i)
		}
		other.Encode()
		intact := bytes.Equal(snapA, hheaData) && bytes.Equal(snapB, hmtxData)
		in := ev{"mode": c.Mode, "w": c.W, "lsb": c.LSB, "box": c.Box, "asc": c.S.Asc, "desc": c.S.Desc,
			"gap": c.S.Gap, "coff": c.S.Coff, "rise": c.S.Rise, "run": c.S.Run}
		e := ev{"ev": "hmtx", "case": c.ID, "in": in, "hhea": mx.Words(hheaData), "hm": mx.Words(hmtxData),
			"hmbytes": len(hmtxData), "intact": intact}
		dec, err := hmtx.Decode(hheaData, hmtxData)
		o := ev{"w": []int{}, "lsb": []int{}, "asc": 0, "desc": 0, "gap": 0, "coff": 0, "rise": 0, "run": 0}
		if err == nil {
			r2, n2 := reSlope(dec.CaretAngle)
			// the decoded vectors belong to the caller: growing one of them (a glyph is added) must not reach
			// into the other, whatever storage the decoder gave them
			w0 := ints16(dec.Widths)
			if len(dec.LSB) > 0 {
				_ = append(dec.LSB, 0x5A5A, 0x5A5A)
			}
			if len(dec.Widths) > 0 {
				_ = append(dec.Widths, 0x6B6B, 0x6B6B)
			}
			w0 = ints16(dec.Widths)
			o = ev{"w": w0, "lsb": ints16(dec.LSB), "asc": int(dec.Ascent), "desc": int(dec.Descent),
				"gap": int(dec.LineGap), "coff": int(dec.CaretOffset), "rise": r2, "run": n2}
		}
		e["ok"] = err == nil
		e["out"] = o
		// reference encodings of the same vectors with a non-minimal numberOfHMetrics (words
		// computed by TLC): the hhea of the library with the count patched, the given hmtx words
		alts := []ev{}
		for _, a := range c.Alt {
			hh := append([]byte(nil), hheaData...)
			if len(hh) >= 36 {
				hh[34], hh[35] = byte(a.K>>8), byte(a.K)
			}
			hm := make([]byte, 0, 2*len(a.HM))
			for _, w := range a.HM {
				hm = append(hm, byte(w>>8), byte(w))
			}
			d2, err2 := hmtx.Decode(hh, hm)
			ae := ev{"k": a.K, "hm": a.HM, "ok": err2 == nil, "w": []int{}, "lsb": []int{}}
			if err2 == nil {
				ae["w"], ae["lsb"] = ints16(d2.Widths), ints16(d2.LSB)
			}
			alts = append(alts, ae)
		}
		e["alt"] = alts
		out.Emit(e)
	})
}

func runsOf(r [][2]int) []mx.Run {
	res := make([]mx.Run, len(r))
	for i, x := range r {
		res[i] = mx.Run{x[0], x[1]}
	}
	return res
}

func doRuns(c *Case, out *vio.Out) {
	guard(c, out, func() {
		ws := mx.Expand(runsOf(c.WR))
		ls := mx.Expand(runsOf(c.LR))
		info := &hmtx.Info{Widths: i16s(ws), LSB: i16s(ls)}
		hheaData, hmtxData := info.Encode()
		hw := mx.Words(hheaData)
		n := len(ws)
		k := 0
		if len(hw) >= 18 {
			k = hw[17]
		}
		// walk the table: k long records, then n-k bearings
		hm := mx.Words(hmtxData)
		var aw, lsb []int
		wellFormed := k >= 1 && k <= n && len(hmtxData) == 4*k+2*(n-k)
		if wellFormed {
			for i := 0; i < k; i++ {
				aw = append(aw, hm[2*i])
				lsb = append(lsb, mx.S16(hm[2*i+1]))
			}
			for j := 0; j < n-k; j++ {
				lsb = append(lsb, mx.S16(hm[2*k+j]))
			}
		}
		e := ev{"ev": "runs", "case": c.ID, "in": ev{"wr": c.WR, "lr": c.LR}, "n": n, "k": k,
			"hmbytes": len(hmtxData), "shape": wellFormed, "rw": mx.RLE(aw), "rl": mx.RLE(lsb)}
		if len(hw) >= 18 {
			e["advmax"] = hw[5]
		} else {
			e["advmax"] = -1
		}
		dec, err := hmtx.Decode(hheaData, hmtxData)
		e["ok"] = err == nil
		if err == nil {
			if len(dec.Widths) > 0 {
				_ = append(dec.Widths, 0x6B6B, 0x6B6B) // see above
			}
			e["dw"] = mx.RLE(ints16(dec.Widths))
			e["dl"] = mx.RLE(ints16(dec.LSB))
			// the decoded value is EDITED and encoded again: the run of equal widths at the end gets one new width
			// (other than the width in front of it), a run of length one its own new width; whatever the decoder
			// remembered about the layout of the file must not survive the edit
			ed := ints16(dec.Widths)
			if m := len(ed); m > 0 {
				j := m - 1
				for j > 0 && ed[j-1] == ed[m-1] {
					j--
				}
				if j == 0 && m > 1 {
					j = m - 1 // all equal: only the last one changes
				}
				nw := (ed[m-1] + 3) % 32000
				for i := j; i < m; i++ {
					ed[i] = nw
				}
				for i := j; i < m; i++ {
					dec.Widths[i] = funit.Int16(nw)
				}
			}
			e["ew"] = mx.RLE(ed)
			hh2, hm2 := dec.Encode()
			if d3, err3 := hmtx.Decode(hh2, hm2); err3 == nil {
				e["edw"] = mx.RLE(ints16(d3.Widths))
			} else {
				e["edw"] = []mx.Run{}
			}
		} else {
			e["dw"] = []mx.Run{}
			e["dl"] = []mx.Run{}
			e["ew"] = []mx.Run{}
			e["edw"] = []mx.Run{{-1, 1}}
		}
		out.Emit(e)
	})
}

func timeOf(zero bool, limbs []int, nanos int) time.Time {
	if zero {
		return time.Time{}
	}
	return time.Unix(mx.FromLimbs(limbs), int64(nanos)).UTC()
}

func timeOut(t time.Time) (bool, []int) {
	if t.IsZero() {
		return true, []int{0, 0, 0, 0}
	}
	return false, mx.Limbs(t.Unix())
}

func doHead(c *Case, out *vio.Out) {
	guard(c, out, func() {
		// sub-second parts must not matter ("timestamps to the second")
		nanos := (c.ID * 7919) % 1000000000
		info := &head.Info{
			FontRevision: head.Version(uint32(c.Rev[0])<<16 | uint32(c.Rev[1])),
			HasYBaseAt0:  c.YBase, HasXBaseAt0: c.XBase, IsNonlinear: c.Nonlin,
			UnitsPerEm: uint16(c.Upm),
			Created:    timeOf(c.CZero, c.C, nanos),
			Modified:   timeOf(c.MZero, c.M, 999999999-nanos),
			FontBBox:   rects([][4]int{c.BBox})[0],
			IsBold:     c.Bold, IsItalic: c.Italic, HasShadow: c.Shadow, IsCondensed: c.Cond, IsExtended: c.Ext,
			LowestRecPPEM: uint16(c.PPEM), LocaFormat: int16(c.Loca),
		}
		data := info.Encode()
		snap := append([]byte(nil), data...)
		(&head.Info{FontRevision: ^info.FontRevision, HasYBaseAt0: !c.YBase, HasXBaseAt0: !c.XBase, IsNonlinear: !c.Nonlin,
			UnitsPerEm: ^info.UnitsPerEm, Created: time.Unix(86400*365*40, 0), Modified: time.Unix(86400*365*41, 0),
			FontBBox: funit.Rect16{LLx: 11, LLy: 12, URx: 13, URy: 14}, IsBold: !c.Bold, IsItalic: !c.Italic, HasShadow: !c.Shadow,
			IsCondensed: !c.Cond, IsExtended: !c.Ext, LowestRecPPEM: ^info.LowestRecPPEM, LocaFormat: 1 - info.LocaFormat}).Encode()
		intact := bytes.Equal(snap, data)
		in := ev{"ybase": c.YBase, "xbase": c.XBase, "nonlin": c.Nonlin, "bold": c.Bold, "italic": c.Italic,
			"shadow": c.Shadow, "cond": c.Cond, "ext": c.Ext, "rev": c.Rev, "upm": c.Upm,
			"czero": c.CZero, "c": zeroIf(c.CZero, c.C), "mzero": c.MZero, "m": zeroIf(c.MZero, c.M),
			"bbox": c.BBox, "ppem": c.PPEM, "loca": c.Loca}
		e := ev{"ev": "head", "case": c.ID, "in": in, "raw": mx.Words(data), "bytes": len(data), "intact": intact}
		dec, err := head.Read(bytes.NewReader(data))
		e["ok"] = err == nil
		if err == nil {
			cz, cl := timeOut(dec.Created)
			mz, ml := timeOut(dec.Modified)
			e["out"] = ev{"ybase": dec.HasYBaseAt0, "xbase": dec.HasXBaseAt0, "nonlin": dec.IsNonlinear,
				"bold": dec.IsBold, "italic": dec.IsItalic, "shadow": dec.HasShadow, "cond": dec.IsCondensed,
				"ext": dec.IsExtended, "rev": [2]int{int(dec.FontRevision >> 16), int(dec.FontRevision & 0xFFFF)},
				"upm": int(dec.UnitsPerEm), "czero": cz, "c": cl, "mzero": mz, "m": ml,
				"bbox": rectInts(dec.FontBBox), "ppem": int(dec.LowestRecPPEM), "loca": int(dec.LocaFormat)}
		} else {
			e["out"] = in
			e["ok"] = false
		}
		out.Emit(e)
	})
}

func zeroIf(zero bool, l []int) []int {
	if zero || len(l) != 4 {
		return []int{0, 0, 0, 0}
	}
	return l
}

var permNames = map[os2.Permissions]string{os2.PermInstall: "install", os2.PermEdit: "edit",
	os2.PermView: "view", os2.PermRestricted: "restricted"}

func permOf(s string) os2.Permissions {
	for k, v := range permNames {
		if v == s {
			return k
		}
	}
	vio.Fatal("bad permission " + s)
	return 0
}

func cpBits(r os2.CodePageRange) []int {
	res := []int{}
	for i := 0; i < 64; i++ {
		if r&(1<<uint(i)) != 0 {
			res = append(res, i)
		}
	}
	return res
}

func doOS2(c *Case, out *vio.Out) {
	guard(c, out, func() {
		var cp os2.CodePageRange
		for _, b := range c.CP {
			cp.Set(os2.CodePage(b))
		}
		info := &os2.Info{
			WeightClass: os2.WeightNormal, WidthClass: os2.WidthNormal,
			IsBold: c.Bold, IsItalic: c.Italic, IsRegular: c.Regular, IsOblique: c.Oblique,
			FirstCharIndex: uint16(c.First), LastCharIndex: uint16(c.Last),
			Ascent: funit.Int16(c.Asc), Descent: funit.Int16(c.Desc), LineGap: funit.Int16(c.Gap),
			WinAscent: 900, WinDescent: 300, CapHeight: 700, XHeight: 500,
			AvgGlyphWidth: funit.Int16(c.Avg),
			CodePageRange: cp,
			PermUse:       permOf(c.Perm), PermNoSubsetting: c.NoSub, PermOnlyBitmap: c.Bmp,
		}
		data := info.Encode()
		snap := append([]byte(nil), data...)
		(&os2.Info{WeightClass: 900, WidthClass: 1, IsBold: !c.Bold, IsItalic: !c.Italic, IsOblique: !c.Oblique,
			FirstCharIndex: ^info.FirstCharIndex, LastCharIndex: ^info.LastCharIndex, Ascent: ^info.Ascent, Descent: ^info.Descent,
			LineGap: ^info.LineGap, AvgGlyphWidth: ^info.AvgGlyphWidth, CodePageRange: ^cp, PermUse: os2.PermEdit,
			PermNoSubsetting: !c.NoSub, PermOnlyBitmap: !c.Bmp}).Encode()
		intact := bytes.Equal(snap, data)
		cpIn := c.CP
		if cpIn == nil {
			cpIn = []int{}
		}
		in := ev{"bold": c.Bold, "italic": c.Italic, "regular": c.Regular, "oblique": c.Oblique, "nosub": c.NoSub,
			"bmp": c.Bmp, "perm": c.Perm, "cp": cpIn, "avg": c.Avg, "first": c.First, "last": c.Last,
			"asc": c.Asc, "desc": c.Desc, "gap": c.Gap}
		e := ev{"ev": "os2", "case": c.ID, "in": in, "raw": mx.Words(data), "bytes": len(data), "intact": intact}
		dec, err := os2.Read(bytes.NewReader(data))
		e["ok"] = err == nil
		if err == nil {
			pn, ok := permNames[dec.PermUse]
			if !ok {
				pn = "unknown"
			}
			e["out"] = ev{"bold": dec.IsBold, "italic": dec.IsItalic, "regular": dec.IsRegular, "oblique": dec.IsOblique,
				"nosub": dec.PermNoSubsetting, "bmp": dec.PermOnlyBitmap, "perm": pn, "cp": cpBits(dec.CodePageRange),
				"avg": int(dec.AvgGlyphWidth), "first": int(dec.FirstCharIndex), "last": int(dec.LastCharIndex),
				"asc": int(dec.Ascent), "desc": int(dec.Descent), "gap": int(dec.LineGap)}
		} else {
			e["out"] = in
		}
		out.Emit(e)
	})
}

func doPost(c *Case, out *vio.Out) {
	guard(c, out, func() {
		angle := float64(mx.S16(c.AHi)) + float64(c.ALo)/65536 // exact in float64
		info := &post.Info{ItalicAngle: angle, UnderlinePosition: funit.Int16(c.UPos),
			UnderlineThickness: funit.Int16(c.UThick), IsFixedPitch: c.Fixed}
		data := info.Encode()
		snap := append([]byte(nil), data...)
		(&post.Info{ItalicAngle: -angle - 3.25, UnderlinePosition: ^info.UnderlinePosition,
			UnderlineThickness: ^info.UnderlineThickness, IsFixedPitch: !c.Fixed}).Encode()
		intact := bytes.Equal(snap, data)
		in := ev{"ahi": c.AHi, "alo": c.ALo, "upos": c.UPos, "uthick": c.UThick, "fixed": c.Fixed}
		e := ev{"ev": "post", "case": c.ID, "in": in, "raw": mx.Words(data), "bytes": len(data), "intact": intact}
		dec, err := post.Read(bytes.NewReader(data))
		e["ok"] = err == nil
		e["exact"] = true
		if err == nil {
			x := dec.ItalicAngle * 65536
			fl := math.Floor(x)
			e["exact"] = x == fl
			u := int64(fl) & 0xFFFFFFFF
			e["out"] = ev{"ahi": int(u >> 16), "alo": int(u & 0xFFFF), "upos": int(dec.UnderlinePosition),
				"uthick": int(dec.UnderlineThickness), "fixed": dec.IsFixedPitch}
		} else {
			e["out"] = in
		}
		out.Emit(e)
	})
}

var maxpNames = []string{"MaxPoints", "MaxContours", "MaxCompositePoints", "MaxCompositeContours", "MaxZones",
	"MaxTwilightPoints", "MaxStorage", "MaxFunctionDefs", "MaxInstructionDefs", "MaxStackElements",
	"MaxSizeOfInstructions", "MaxComponentElements", "MaxComponentDepth"}

func maxpRecord(t *maxp.TTFInfo) ev {
	if t == nil {
		t = &maxp.TTFInfo{}
	}
	return ev{"MaxPoints": int(t.MaxPoints), "MaxContours": int(t.MaxContours),
		"MaxCompositePoints": int(t.MaxCompositePoints), "MaxCompositeContours": int(t.MaxCompositeContours),
		"MaxZones": int(t.MaxZones), "MaxTwilightPoints": int(t.MaxTwilightPoints), "MaxStorage": int(t.MaxStorage),
		"MaxFunctionDefs": int(t.MaxFunctionDefs), "MaxInstructionDefs": int(t.MaxInstructionDefs),
		"MaxStackElements": int(t.MaxStackElements), "MaxSizeOfInstructions": int(t.MaxSizeOfInstructions),
		"MaxComponentElements": int(t.MaxComponentElements), "MaxComponentDepth": int(t.MaxComponentDepth)}
}

func doMaxp(c *Case, out *vio.Out) {
	guard(c, out, func() {
		info := &maxp.Info{NumGlyphs: c.N}
		if c.TTF {
			t := make([]uint16, 13)
			for i := range t {
				if i < len(c.T) {
					t[i] = uint16(c.T[i])
				}
			}
			// the case lists the maxima in the order of the OpenType field list; they are
			// assigned by name here and logged by name, TLC maps names back to offsets
			info.TTF = &maxp.TTFInfo{MaxPoints: t[0], MaxContours: t[1], MaxCompositePoints: t[2],
				MaxCompositeContours: t[3], MaxZones: t[4], MaxTwilightPoints: t[5], MaxStorage: t[6],
				MaxFunctionDefs: t[7], MaxInstructionDefs: t[8], MaxStackElements: t[9],
				MaxSizeOfInstructions: t[10], MaxComponentElements: t[11], MaxComponentDepth: t[12]}
		}
		data := info.Encode()
		snap := append([]byte(nil), data...)
		(&maxp.Info{NumGlyphs: 65536 - c.N, TTF: info.TTF}).Encode()
		if info.TTF != nil {
			(&maxp.Info{NumGlyphs: 77, TTF: &maxp.TTFInfo{MaxPoints: 4242, MaxZones: 7, MaxComponentDepth: 99}}).Encode()
		}
		intact := bytes.Equal(snap, data)
		in := ev{"n": c.N, "ttf": c.TTF, "t": maxpRecord(info.TTF)}
		e := ev{"ev": "maxp", "case": c.ID, "in": in, "raw": mx.Words(data), "bytes": len(data), "intact": intact}
		dec, err := maxp.Read(bytes.NewReader(data))
		e["ok"] = err == nil
		if err == nil {
			e["out"] = ev{"n": dec.NumGlyphs, "ttf": dec.TTF != nil, "t": maxpRecord(dec.TTF)}
		} else {
			e["out"] = in
		}
		out.Emit(e)
	})
}
