package main

import (
	"bytes"
	"math"
	"math/rand"
	"sort"
	"strings"

	"golang.org/x/image/font"
	xsfnt "golang.org/x/image/font/sfnt"
	"golang.org/x/image/math/fixed"

	"seehuhn.de/go/geom/matrix"
	"seehuhn.de/go/postscript/funit"

	"seehuhn.de/go/sfnt"
	"seehuhn.de/go/sfnt/cff"
	"seehuhn.de/go/sfnt/cmap"
	"seehuhn.de/go/sfnt/glyf"
	"seehuhn.de/go/sfnt/glyph"
	"seehuhn.de/go/sfnt/os2"

	"verif.local/harness/internal/fonts"
	mx "verif.local/harness/internal/metricsx"
	"verif.local/harness/internal/vio"
)

// FontCase describes one constructed font (everything needed to build it again).
type FontCase struct {
	Opts   fonts.Opts `json:"opts"`
	RSeed  int64      `json:"rseed"`
	Upm    int        `json:"upm"`
	WMode  string     `json:"wmode"`  // rand | mono | monozero | tail | zero | wide
	Matrix string     `json:"matrix"` // top: FontMatrix = 1/upm; fd: (CID) FontMatrix = identity, per-FD matrices = 1/upm
	Angle  [2]int     `json:"angle"`  // italic angle, 16.16
	FMu    [6]int     `json:"fmu"`    // general affine font matrix in units of 1e-6 (all zero: 1/upm scaling)
	Geo    string     `json:"geo"`    // "": as made; degen: degenerate glyphs determine the extremes; degenonly: nothing else has contours
	CMap   string     `json:"cmap"`   // "": Opts.Cmap; 12single | 12two | 12astral1 | 12astral | 4single | 12bmp
	Style  *StyleIn   `json:"style"`  // nil: as made (regular); else the style flags of the font value, set independently
	Shift  [2]int     `json:"shift"`  // all outlines are translated by this vector (no composites then)
	Frac   int        `json:"frac"`   // cff/cid: 1, 2 = every outline coordinate gets a fraction (eighths, both sides of one half)
}

// StyleIn are the style inputs of a font value, enumerated independently of each other.
type StyleIn struct {
	Italic  bool `json:"italic"`
	Oblique bool `json:"oblique"`
	Bold    bool `json:"bold"`
	Regular bool `json:"regular"`
	Weight  int  `json:"weight"`
}

// classes of font matrices, in units of 1e-6
var (
	none         = [6]int{}
	fmTranslate  = [6]int{1000, 0, 0, 1000, 50000, -20000}
	fmShear      = [6]int{1000, 0, 200, 1000, 0, 0}
	fmShearY     = [6]int{1000, 200, 0, 1000, 0, 0} // b != 0, c = 0: the other half of the skew term a - bc/d
	fmAniso      = [6]int{2000, 0, 0, 1000, 0, 0}
	fmFlipY      = [6]int{1000, 0, 0, -1000, 0, 7000}
	fmFlipXShift = [6]int{-1000, 0, 0, 1000, 30000, 0}
	fmRotate     = [6]int{1000, 150, -150, 1000, 12000, 3000}
	fmClasses    = [][6]int{fmTranslate, fmShear, fmShearY, fmAniso, fmFlipY, fmFlipXShift, fmRotate}
)

func fontCases(n int) []*FontCase {
	rng := vio.Rand(1201)
	var res []*FontCase
	corpus := fonts.Corpus(true)
	upms := []int{1000, 1000, 2048, 1000, 64, 16384, 1000, 2000}
	wmodes := []string{"rand", "rand", "mono", "monozero", "tail", "rand", "wide", "zero", "tail", "nearmono",
		"drift", "driftdown", "driftperm", "jitter", "frac", "frachi", "monofrac"}
	shifts := [][2]int{{0, 0}, {0, 0}, {900, 1100}, {-2500, -1900}, {0, 1500}, {1300, 0}}
	angles := [][2]int{{0, 0}, {0, 0}, {65524, 0}, {65523, 32768}, {9, 1}}
	for i := 0; len(res) < n; i++ {
		var o fonts.Opts
		if i < len(corpus) {
			o = corpus[i]
			if o.N > 100 && !vio.Thorough() {
				o.N = 60
			}
		} else {
			o = fonts.Opts{Kind: []string{"ttf", "cff", "cid"}[rng.Intn(3)], N: 1 + rng.Intn(40),
				Cmap:  []string{"4", "4", "12", "none"}[rng.Intn(4)],
				Names: rng.Intn(2) == 0, FDs: 1 + rng.Intn(4), FracWidths: rng.Intn(3) == 0}
			if o.Kind == "ttf" {
				o.Composites = rng.Intn(3)
			}
			if rng.Intn(12) == 0 {
				o.N = 1 + rng.Intn(3)
			}
			if vio.Thorough() && rng.Intn(40) == 0 {
				o.N = 300 + rng.Intn(900)
			}
		}
		fc := &FontCase{Opts: o, RSeed: rng.Int63(), Upm: upms[rng.Intn(len(upms))], WMode: wmodes[rng.Intn(len(wmodes))],
			Matrix: "top", Angle: angles[rng.Intn(len(angles))]}
		if o.Kind == "cid" && i%2 == 1 {
			fc.Matrix = "fd"
		}
		if i >= len(corpus) && rng.Intn(5) == 0 {
			fc.FMu = fmClasses[rng.Intn(len(fmClasses))]
			fc.Upm = 1000
		}
		if o.Kind != "ttf" && i%3 == 0 {
			fc.Frac = 1 + (i/3)%2
		}
		fixed := []struct {
			kind, wmode string
			n           int
			fmu         [6]int
			fd          bool
		}{{"cff", "drift", 10, none, false}, {"cid", "driftperm", 9, none, false}, {"cff", "driftperm", 6, none, false},
			{"cid", "driftdown", 12, none, true}, {"cff", "jitter", 8, none, false}, {"ttf", "drift", 9, none, false},
			{"cff", "nearmono", 7, none, false}, {"cff", "monozero", 9, none, false},
			// fractional advance widths on both sides of one half
			{"cff", "frac", 11, none, false}, {"cid", "frac", 9, none, true}, {"cff", "frachi", 4, none, false},
			{"cid", "frachi", 7, none, false}, {"cff", "monofrac", 5, none, false}, {"cff", "frachi", 23, none, false},
			// float widths within half a unit which truncate to different hmtx integers (603.0, 602.6)
			// ... and different float widths which coincide there (600, 600.4, 600.8)
			{"cff", "driftdown", 2, none, false}, {"cid", "driftdown", 3, none, false}, {"cff", "drift", 3, none, false},
			// one font of every outline kind for every class of font matrix
			{"ttf", "rand", 8, fmTranslate, false}, {"cff", "rand", 8, fmTranslate, false}, {"cid", "rand", 8, fmTranslate, true},
			{"ttf", "rand", 7, fmShear, false}, {"cff", "mono", 7, fmShear, false}, {"cid", "rand", 7, fmShear, false},
			{"ttf", "rand", 7, fmShearY, false}, {"cff", "rand", 7, fmShearY, false}, {"cid", "rand", 7, fmShearY, true},
			{"ttf", "rand", 6, fmAniso, false}, {"cff", "rand", 6, fmAniso, false}, {"cid", "rand", 6, fmAniso, true},
			{"ttf", "rand", 6, fmFlipY, false}, {"cff", "rand", 6, fmFlipXShift, false}, {"cid", "rand", 6, fmFlipY, false},
			{"ttf", "rand", 5, fmRotate, false}, {"cff", "rand", 5, fmRotate, false}, {"cid", "rand", 5, fmRotate, true}}
		extra := extraCases()
		if i < len(corpus) {
			fc.Upm, fc.WMode = 1000, "rand"
		} else if k := i - len(corpus) - len(fixed); k >= 0 && k < len(extra) {
			x := extra[k]
			x.RSeed, x.Upm, x.WMode, x.Matrix = fc.RSeed, 1000, "rand", "top"
			if x.Angle == [2]int{} && k%3 == 1 {
				x.Angle = fc.Angle
			}
			fc = &x
		} else if k := i - len(corpus); k < len(fixed) {
			// width patterns every run must contain (fixed-pitch test on fractional widths)
			fc.Opts.Kind, fc.Opts.N, fc.Opts.Composites, fc.WMode = fixed[k].kind, fixed[k].n, 0, fixed[k].wmode
			fc.FMu = fixed[k].fmu
			if fc.FMu != none {
				fc.Upm = 1000
			}
			fc.Matrix = "top"
			if fixed[k].fd && fixed[k].kind == "cid" {
				fc.Matrix = "fd"
			}
		} else if sh := shifts[rng.Intn(len(shifts))]; sh != [2]int{0, 0} {
			fc.Shift = sh
			fc.Opts.Composites = 0
		}
		res = append(res, fc)
	}
	return res
}

// extraCases are fonts every run contains: degenerate glyph geometry at the extremes of the union,
// character maps with one mapping / astral codes only, and style flags enumerated independently.
func extraCases() []FontCase {
	var res []FontCase
	for _, k := range []string{"ttf", "cff", "cid"} {
		res = append(res,
			FontCase{Opts: fonts.Opts{Kind: k, N: 9, Cmap: "4", FDs: 2}, Geo: "degen"},
			FontCase{Opts: fonts.Opts{Kind: k, N: 7, Cmap: "4", FDs: 1}, Geo: "degenonly"})
	}
	for i, cm := range []string{"12single", "12two", "12astral1", "12astral", "4single", "12bmp", "12single", "12two"} {
		res = append(res, FontCase{Opts: fonts.Opts{Kind: []string{"cff", "ttf", "cid"}[i%3], N: 6, Cmap: "none", FDs: 1}, CMap: cm})
	}
	// style inputs: IsItalic x angle sign x IsOblique x IsBold x IsRegular x weight, covered pairwise
	angles := [][2]int{{0, 0}, {65524, 0}, {9, 1}}
	weights := []int{400, 700, 650, 300}
	k := 0
	for it := 0; it < 2; it++ {
		for ob := 0; ob < 2; ob++ {
			for bo := 0; bo < 2; bo++ {
				for rg := 0; rg < 2; rg++ {
					res = append(res, FontCase{
						Opts:  fonts.Opts{Kind: []string{"cff", "ttf", "cid"}[k%3], N: 4, Cmap: "4", FDs: 1},
						Angle: angles[(k+it)%3],
						Style: &StyleIn{Italic: it == 1, Oblique: ob == 1, Bold: bo == 1, Regular: rg == 1, Weight: weights[(k/2+bo)%4]}})
					k++
				}
			}
		}
	}
	return res
}

// build constructs the font of a case; wq = the advance widths in units of 1/20 as the harness chose them.
func (fc *FontCase) build() (f *sfnt.Font, wq []int, codes []int) {
	rng := rand.New(rand.NewSource(fc.RSeed))
	f = fonts.Make(rng, fc.Opts)
	n := f.NumGlyphs()
	q := 1 / float64(fc.Upm)
	f.UnitsPerEm = uint16(fc.Upm)
	f.FontMatrix = matrix.Matrix{q, 0, 0, q, 0, 0}
	f.ItalicAngle = float64(mx.S16(fc.Angle[0])) + float64(fc.Angle[1])/65536
	M := f.FontMatrix
	if fc.FMu != none {
		for k := range M {
			M[k] = float64(fc.FMu[k]) / 1e6
		}
		f.FontMatrix = M
	}
	if o, ok := f.Outlines.(*cff.Outlines); ok && o.IsCIDKeyed() && fc.Matrix == "fd" {
		f.FontMatrix = matrix.Identity
		for i := range o.FontMatrices {
			o.FontMatrices[i] = M
		}
	}

	if st := fc.Style; st != nil {
		// enumerated independently: may contradict each other and the angle (then only judged on
		// what the property states, not on how Write resolves the contradiction)
		f.IsItalic, f.IsOblique, f.IsBold, f.IsRegular = st.Italic, st.Oblique, st.Bold, st.Regular
		f.Weight = os2.Weight(st.Weight)
	} else {
		// style flags consistent by construction
		f.IsItalic = f.ItalicAngle != 0
		f.IsRegular = !f.IsBold && !f.IsItalic && !f.IsOblique
	}
	if fc.Geo != "" && n >= 6 {
		fc.degenerate(f)
	}

	// translated outlines: every glyph box ends up on one side of the origin
	if fc.Shift != [2]int{0, 0} {
		dx, dy := fc.Shift[0], fc.Shift[1]
		switch o := f.Outlines.(type) {
		case *cff.Outlines:
			for _, g := range o.Glyphs {
				for _, cmd := range g.Cmds {
					if cmd.Op == cff.OpMoveTo || cmd.Op == cff.OpLineTo || cmd.Op == cff.OpCurveTo {
						for k := range cmd.Args {
							if k%2 == 0 {
								cmd.Args[k] += float64(dx)
							} else {
								cmd.Args[k] += float64(dy)
							}
						}
					}
				}
			}
		case *glyf.Outlines:
			for i, g := range o.Glyphs {
				if g == nil {
					continue
				}
				if _, simple := g.Data.(glyf.SimpleGlyph); !simple {
					continue
				}
				cc := fonts.RandContours(rng)
				for _, c := range cc {
					for k := range c {
						c[k].X += funit.Int16(dx)
						c[k].Y += funit.Int16(dy)
					}
				}
				o.Glyphs[i] = fonts.SimpleTT(cc, nil)
			}
		}
	}

	// fractional outline coordinates (CFF stores 16.16 numbers): eighths on both sides of one half, so
	// that rounding to nearest, truncating and rounding outward all give different boxes
	if o, ok := f.Outlines.(*cff.Outlines); ok && fc.Frac > 0 {
		fr := []float64{0.25, 0.625, 0.5, 0.875, 0.125, 0.75, 0.375}
		for gi, g := range o.Glyphs {
			for ci, cmd := range g.Cmds {
				if cmd.Op == cff.OpMoveTo || cmd.Op == cff.OpLineTo || cmd.Op == cff.OpCurveTo {
					for k := range cmd.Args {
						d := fr[(gi*3+ci*5+k+fc.Frac)%len(fr)]
						if (gi+ci+k+fc.Frac)%2 == 0 {
							d = -d
						}
						cmd.Args[k] += d
					}
				}
			}
		}
	}

	// advance widths
	wq = make([]int, n)
	get := func(i int) float64 {
		switch o := f.Outlines.(type) {
		case *cff.Outlines:
			return o.Glyphs[i].Width
		case *glyf.Outlines:
			return float64(o.Widths[i])
		}
		return 0
	}
	set := func(i int, w float64) {
		switch o := f.Outlines.(type) {
		case *cff.Outlines:
			o.Glyphs[i].Width = w
		case *glyf.Outlines:
			o.Widths[i] = funit.Int16(math.Floor(w))
		}
	}
	tail := 1 + rng.Intn(n)
	for i := 0; i < n; i++ {
		switch fc.WMode {
		case "mono":
			set(i, 600)
		case "monozero":
			if i > 0 && rng.Intn(4) == 0 {
				set(i, 0)
			} else {
				set(i, 600)
			}
		case "tail":
			if i >= n-tail {
				set(i, 512)
			}
		case "zero":
			set(i, 0)
		case "drift": // creeping in steps below half a unit, spanning a unit or more overall
			set(i, 600+0.4*float64(min(i, 7)))
		case "driftdown":
			set(i, 603-0.4*float64(min(i, 7)))
		case "driftperm": // the same multiset of widths in another glyph order
			set(i, 600+0.4*float64((i*5+3)%8))
		case "frac": // fractions on both sides of one half
			set(i, float64(300+rng.Intn(500))+[]float64{0, 0.25, 0.5, 0.75, 0.05, 0.95}[rng.Intn(6)])
		case "frachi": // every width has a fraction of one half or more
			set(i, float64(300+rng.Intn(500))+[]float64{0.5, 0.75, 0.6, 0.95}[rng.Intn(4)])
		case "monofrac":
			set(i, 999.5)
		case "jitter": // all within half a unit: either answer of the fixed-pitch test is accepted
			set(i, 600+0.05*float64(rng.Intn(9)))
		case "nearmono":
			set(i, float64(600+rng.Intn(2)*(1+rng.Intn(40))))
		case "wide":
			if rng.Intn(3) == 0 {
				set(i, float64(1000+rng.Intn(3000)))
			}
		}
		wq[i] = int(math.Round(20 * get(i)))
	}

	// the codes the builder maps (fonts.Make, Cmap option)
	codes = []int{}
	seen := map[int]bool{}
	if fc.CMap != "" && n >= 3 {
		m12 := cmap.Format12{}
		switch fc.CMap {
		case "12single":
			m12[0x41] = 1
		case "12two":
			m12[0x41], m12[0x42] = 1, 2
		case "12astral1":
			m12[0x1F600] = 1
		case "12astral":
			for i := 1; i < n; i++ {
				m12[uint32(0x10000+97*i)] = glyph.ID(i)
			}
		case "12bmp":
			for i := 1; i < n; i++ {
				m12[uint32(0x3000+5*i)] = glyph.ID(i)
			}
		case "4single":
			f.InstallCMap(cmap.Format4{0x263A: 2})
			return f, wq, []int{0x263A}
		}
		f.InstallCMap(m12)
		for c := range m12 {
			codes = append(codes, int(c))
		}
		sort.Ints(codes)
		return f, wq, codes
	}
	for i := 1; i < n; i++ {
		var c rune
		switch fc.Opts.Cmap {
		case "4":
			c = fonts.CodeOf(i, false)
			if c >= 0x10000 {
				c = 0
			}
		case "12":
			c = fonts.CodeOf(i, true)
		}
		if c > 0 && !seen[int(c)] {
			seen[int(c)] = true
			codes = append(codes, int(c))
		}
	}
	return f, wq, codes
}

// degenerate replaces glyphs 2..4 by a lone point, a horizontal and a vertical stroke, each of which alone
// determines an extreme of the union of the glyph boxes; glyph 0 becomes blank; with "degenonly" every
// other glyph is blank as well, apart from one small ordinary glyph.
func (fc *FontCase) degenerate(f *sfnt.Font) {
	shapes := map[int][][2]int{
		2: {{-3000, -2800}},                  // lone point: xMin and yMin of the font
		3: {{100, 3100}, {900, 3100}},        // horizontal stroke (zero height): yMax
		4: {{3200, -50}, {3200, 650}},        // vertical stroke (zero width): xMax
		5: {{10, 20}, {300, 20}, {150, 400}}, // an ordinary triangle
	}
	n := f.NumGlyphs()
	for i := 0; i < n; i++ {
		pts, special := shapes[i]
		blank := i == 0 || (fc.Geo == "degenonly" && !special)
		if !special && !blank {
			continue
		}
		switch o := f.Outlines.(type) {
		case *cff.Outlines:
			g := o.Glyphs[i]
			g.Cmds, g.HStem, g.VStem = nil, nil, nil
			for k, p := range pts {
				if k == 0 {
					g.MoveTo(float64(p[0]), float64(p[1]))
				} else {
					g.LineTo(float64(p[0]), float64(p[1]))
				}
			}
		case *glyf.Outlines:
			if len(pts) == 0 {
				o.Glyphs[i] = nil
				continue
			}
			c := make([]glyf.Point, len(pts))
			for k, p := range pts {
				c[k] = glyf.Point{X: funit.Int16(p[0]), Y: funit.Int16(p[1]), OnCurve: true}
			}
			o.Glyphs[i] = fonts.SimpleTT([][]glyf.Point{c}, nil)
		}
	}
}

func sign(x float64) int {
	switch {
	case x > 0:
		return 1
	case x < 0:
		return -1
	}
	return 0
}

func box4(r funit.Rect16) [4]int { return [4]int{int(r.LLx), int(r.LLy), int(r.URx), int(r.URy)} }

// outlineBoxes computes, from the outline data alone, the number of points of every glyph and
// the boxes of its on-curve points and of all its points.  npts = -1: composite, not judged.
func outlineBoxes(f *sfnt.Font) (npts []int, on, onin, all [][4]int, onpts [][][2]int, integral bool) {
	n := f.NumGlyphs()
	integral = true
	onpts = make([][][2]int, n)
	for i := range onpts {
		onpts[i] = [][2]int{}
	}
	npts = make([]int, n)
	on = make([][4]int, n)
	onin = make([][4]int, n)
	all = make([][4]int, n)
	for i := 0; i < n; i++ {
		var pts []mx.Pt
		switch o := f.Outlines.(type) {
		case *cff.Outlines:
			for _, cmd := range o.Glyphs[i].Cmds {
				switch cmd.Op {
				case cff.OpMoveTo, cff.OpLineTo:
					pts = append(pts, mx.Pt{X: cmd.Args[0], Y: cmd.Args[1], On: true})
				case cff.OpCurveTo:
					pts = append(pts, mx.Pt{X: cmd.Args[0], Y: cmd.Args[1]}, mx.Pt{X: cmd.Args[2], Y: cmd.Args[3]},
						mx.Pt{X: cmd.Args[4], Y: cmd.Args[5], On: true})
				}
			}
		case *glyf.Outlines:
			g := o.Glyphs[i]
			if g == nil {
				break
			}
			switch d := g.Data.(type) {
			case glyf.SimpleGlyph:
				p, err := mx.SimplePoints(d.Encoded, int(d.NumContours))
				if err != nil {
					npts[i] = -1
					continue
				}
				pts = p
			default:
				npts[i] = -1
				continue
			}
		}
		for _, p := range pts {
			if p.X != math.Floor(p.X) || p.Y != math.Floor(p.Y) {
				integral = false
			}
			if p.On {
				onpts[i] = append(onpts[i], [2]int{int(p.X), int(p.Y)})
			}
		}
		b := mx.BoxesOf(pts)
		npts[i] = b.N
		if b.N > 0 {
			on[i], onin[i], all[i] = b.On, b.OnIn, b.All
		}
	}
	return
}

// rationalMatrix writes a matrix as integers over a common denominator.
func rationalMatrix(M matrix.Matrix) (N [6]int, D int, ok bool) {
	ok = true
	for k, x := range M {
		r := math.Round(x * 1e6)
		if math.Abs(x*1e6-r) > 1e-7 || math.Abs(r) > 1e6 {
			ok = false
		}
		N[k] = int(r)
	}
	if ok {
		return N, 1000000, true
	}
	if M[0] > 0 && M[1] == 0 && M[2] == 0 && M[3] == M[0] && M[4] == 0 && M[5] == 0 {
		u := math.Round(1 / M[0])
		if u >= 1 && u <= 65535 && 1/u == M[0] {
			return [6]int{1, 0, 0, 1, 0, 0}, int(u), true
		}
	}
	return [6]int{}, 1, false
}

// declared collects the tables with derived fields as the written file declares them.
func declared(e ev) ev {
	intw := true // integer advance widths in the font value that was written
	for _, x := range e["wq"].([]int) {
		if x%20 != 0 {
			intw = false
		}
	}
	return ev{"hhea": e["hhea"], "hm": e["hm"], "head": e["head"], "os2": e["os2"], "maxp": e["maxp"], "post": e["post"],
		"st": e["st"], "intw": intw}
}

func milli(r [4]float64) [4]int {
	return [4]int{mx.Clamp(r[0] * 1000), mx.Clamp(r[1] * 1000), mx.Clamp(r[2] * 1000), mx.Clamp(r[3] * 1000)}
}

// describe records the queries of f, writes it, and walks the file.
func describe(c *Case, stage string, f *sfnt.Font, wq, codes []int) (e ev, file []byte) {
	n := f.NumGlyphs()
	fk := c.Font.Opts.Kind
	e = ev{"ev": "font", "case": c.ID, "stage": stage, "fkind": fk, "n": n, "upm": c.Font.Upm, "wq": wq, "codes": codes,
		"matrix": c.Font.Matrix, "wmode": c.Font.WMode}
	wlo := make([]int, n)
	whi := make([]int, n)
	for i, x := range wq {
		wlo[i] = int(math.Floor(float64(x) / 20))
		whi[i] = int(math.Ceil(float64(x) / 20))
	}
	e["wlo"], e["whi"] = wlo, whi
	var onpts [][][2]int
	var integral bool
	e["npts"], e["on"], e["onin"], e["all"], onpts, integral = outlineBoxes(f)

	// the font matrix in effect for every glyph (per-FD matrix first, then the font matrix), as
	// integers over a common denominator: decimal matrices over 10^6, plain 1/upm scaling over upm
	fmN, fmD, fmKnown := [6]int{}, 1, true
	for i := 0; i < n && fmKnown; i++ {
		M := f.FontMatrix
		if o, ok := f.Outlines.(*cff.Outlines); ok && o.IsCIDKeyed() {
			M = o.FontMatrices[o.FDSelect(glyph.ID(i))].Mul(f.FontMatrix)
		}
		N, D, ok := rationalMatrix(M)
		if !ok || (i > 0 && (N != fmN || D != fmD)) {
			fmKnown = false
		}
		fmN, fmD = N, D
	}
	sheared := fmN[1] != 0 || fmN[2] != 0
	if !integral && fmD == 1000000 && fmN != [6]int{fmN[0], 0, 0, fmN[0], 0, 0} {
		fmKnown = false // general matrices are judged on integer coordinates only
	}
	if !sheared || !fmKnown {
		for i := range onpts {
			onpts[i] = [][2]int{}
		}
	}
	if !fmKnown {
		fmN, fmD = [6]int{}, 1
	}
	e["fm_known"], e["fmN"], e["fmD"], e["onpts"] = fmKnown, fmN, fmD, onpts

	// the font's own queries
	qbox := make([][4]int, n)
	qboxpdf := make([][4]int, n)
	qgwq := make([]int, n)
	qgwpdf := make([]int, n)
	for i := 0; i < n; i++ {
		gid := glyph.ID(i)
		qbox[i] = box4(f.GlyphBBox(gid))
		r := f.Outlines.GlyphBBoxPDF(f.FontMatrix, gid)
		qboxpdf[i] = milli([4]float64{r.LLx, r.LLy, r.URx, r.URy})
		qgwq[i] = mx.Clamp(20 * f.GlyphWidth(gid))
		qgwpdf[i] = mx.Clamp(f.GlyphWidthPDF(gid) * 1000)
	}
	qboxes := make([][4]int, 0, n)
	for _, r := range f.GlyphBBoxes() {
		qboxes = append(qboxes, box4(r))
	}
	qwq := []int{}
	for _, w := range f.Widths() {
		qwq = append(qwq, mx.Clamp(20*w))
	}
	qwpdf := []int{}
	for _, w := range f.WidthsPDF() {
		qwpdf = append(qwpdf, mx.Clamp(w*1e6))
	}
	fb := f.FontBBoxPDF()
	e["q_box"], e["q_boxes"], e["q_fbox"] = qbox, qboxes, box4(f.FontBBox())
	e["q_wq"], e["q_gwq"], e["q_wpdf"], e["q_gwpdf"] = qwq, qgwq, qwpdf, qgwpdf
	e["q_boxpdf"], e["q_fboxpdf"] = qboxpdf, milli([4]float64{fb.LLx, fb.LLy, fb.URx, fb.URy})
	e["q_fixed"] = f.IsFixedPitch()
	// WidthsMapPDF (simple CFF fonts only): widths by glyph name, glyph space units
	qwmap := make([]int, n)
	hasMap := false
	if m := f.WidthsMapPDF(); m != nil {
		hasMap = true
		for i := 0; i < n; i++ {
			w, ok := m[f.GlyphName(glyph.ID(i))]
			if !ok {
				w = -1e9
			}
			qwmap[i] = mx.Clamp(w * 1000)
		}
	}
	e["has_wmap"], e["q_wmap"] = hasMap, qwmap

	// scalar fields of the font value (inputs of the writer)
	ang := math.Floor(f.ItalicAngle * 65536)
	au := int64(ang) & 0xFFFFFFFF
	cz, cl := timeOut(f.CreationTime)
	mz, ml := timeOut(f.ModificationTime)
	e["f"] = ev{"asc": int(f.Ascent), "desc": int(f.Descent), "gap": int(f.LineGap),
		"ahi": int(au >> 16), "alo": int(au & 0xFFFF), "aexact": ang == f.ItalicAngle*65536,
		"asign": sign(f.ItalicAngle), "steep": math.Abs(f.ItalicAngle) < 90,
		"upos": mx.Clamp(math.Round(float64(f.UnderlinePosition))), "uthick": mx.Clamp(math.Round(float64(f.UnderlineThickness))),
		"czero": cz, "c": cl, "mzero": mz, "m": ml}

	// write and walk the file
	var buf bytes.Buffer
	_, err := f.Write(&buf)
	e["wrote"] = err == nil
	file = buf.Bytes()
	// identical calls give identical files
	same := true
	for k := 0; k < 3 && err == nil; k++ {
		var b2 bytes.Buffer
		if _, err2 := f.Write(&b2); err2 != nil || !bytes.Equal(b2.Bytes(), file) {
			same = false
		}
	}
	e["rewrite_same"] = same
	// the style inputs of the font value, and the story sfnt.Read tells about the written file
	sub := f.Subfamily()
	st := ev{"i_italic": f.IsItalic, "i_oblique": f.IsOblique, "i_bold": f.IsBold, "i_regular": f.IsRegular,
		"weight": int(f.Weight), "name_italic": strings.Contains(sub, "Italic"), "name_bold": strings.Contains(sub, "Bold"),
		"read_ok": false, "r_italic": false, "r_oblique": false, "r_bold": false, "r_regular": false, "r_weight": 0, "r_upm": 0}
	if err == nil {
		if g, rerr := sfnt.Read(bytes.NewReader(file)); rerr == nil {
			st["read_ok"], st["r_italic"], st["r_oblique"], st["r_bold"], st["r_regular"] = true, g.IsItalic, g.IsOblique, g.IsBold, g.IsRegular
			st["r_weight"], st["r_upm"] = int(g.Weight), int(g.UnitsPerEm)
		}
	}
	e["st"] = st
	tabs := map[string][]byte{}
	if err == nil {
		t, perr := mx.ParseSFNT(file)
		if perr == nil {
			tabs = t
		}
	}
	words := func(name string, max int) []int {
		w := mx.Words(tabs[name])
		if max > 0 && len(w) > max {
			w = w[:max]
		}
		return w
	}
	e["hhea"], e["hm"], e["head"] = words("hhea", 0), words("hmtx", 0), words("head", 0)
	e["os2"], e["post"], e["maxp"] = words("OS/2", 48), words("post", 16), words("maxp", 0)
	// the character codes of the cmap actually written (own walker)
	fcodes, fok := []int{}, false
	if ct, has := tabs["cmap"]; has {
		if cc, ok := mx.CmapCodes(ct); ok {
			fcodes, fok = cc, true
		}
	}
	e["has_cmap"], e["fcodes_ok"], e["fcodes"] = tabs["cmap"] != nil, fok, fcodes
	fileBox := [][4]int{}
	fileEmpty := []bool{}
	locaN := -1 // number of glyphs the loca table of the file has room for
	if fk == "ttf" && len(tabs["head"]) >= 54 {
		loca := mx.S16(mx.Words(tabs["head"])[25])
		if loca == 0 {
			locaN = len(tabs["loca"])/2 - 1
		} else {
			locaN = len(tabs["loca"])/4 - 1
		}
		ents, werr := mx.WalkGlyf(tabs["glyf"], tabs["loca"], loca, n)
		if werr == nil {
			for _, en := range ents {
				fileBox = append(fileBox, en.Box)
				fileEmpty = append(fileEmpty, en.Empty)
			}
		}
	}
	e["fileBox"], e["fileEmpty"], e["locaN"] = fileBox, fileEmpty, locaN
	// what this file declares; the re-read stage carries the declaration of the first file ("prev")
	e["prev"] = declared(e)

	// second observation stream: golang.org/x/image/font/sfnt on the written file
	xadv := []int{}
	xb := [4]int{}
	xok := false
	xasc, xdesc, xupm, xn := 0, 0, 0, 0
	if err == nil {
		func() {
			defer func() { recover() }()
			xf, perr := xsfnt.Parse(file)
			if perr != nil {
				return
			}
			var b xsfnt.Buffer
			ppem := fixed.Int26_6(xf.UnitsPerEm())
			xupm, xn = int(xf.UnitsPerEm()), xf.NumGlyphs()
			for i := 0; i < xn; i++ {
				a, aerr := xf.GlyphAdvance(&b, xsfnt.GlyphIndex(i), ppem, font.HintingNone)
				if aerr != nil {
					return
				}
				xadv = append(xadv, int(a))
			}
			r, berr := xf.Bounds(&b, ppem, font.HintingNone)
			m, merr := xf.Metrics(&b, ppem, font.HintingNone)
			if berr != nil || merr != nil {
				return
			}
			xb = [4]int{int(r.Min.X), -int(r.Max.Y), int(r.Max.X), -int(r.Min.Y)}
			xasc, xdesc = int(m.Ascent), -int(m.Descent)
			xok = true
		}()
	}
	if !xok {
		xadv = []int{}
	}
	e["x_ok"], e["x_n"], e["x_upm"], e["x_adv"], e["x_bbox"], e["x_asc"], e["x_desc"] = xok, xn, xupm, xadv, xb, xasc, xdesc
	return e, file
}

func doFont(c *Case, out *vio.Out) {
	var file []byte
	var codes []int
	var first ev
	guard(c, out, func() {
		f, wq, cs := c.Font.build()
		codes = cs
		var e ev
		e, file = describe(c, "built", f, wq, codes)
		first = declared(e)
		out.Emit(e)
	})
	if file == nil {
		return
	}
	guard(c, out, func() {
		f1, err := sfnt.Read(bytes.NewReader(file))
		if err != nil {
			out.Emit(ev{"ev": "readfail", "case": c.ID, "msg": err.Error()})
			return
		}
		// the advance widths the file records, walked independently
		tabs, perr := mx.ParseSFNT(file)
		if perr != nil {
			out.Emit(ev{"ev": "readfail", "case": c.ID, "msg": perr.Error()})
			return
		}
		hh, hm := mx.Words(tabs["hhea"]), mx.Words(tabs["hmtx"])
		n := f1.NumGlyphs()
		wq := make([]int, n)
		if len(hh) >= 18 {
			k := hh[17]
			for i := 0; i < n; i++ {
				j := i
				if j >= k {
					j = k - 1
				}
				if j >= 0 && 2*j < len(hm) {
					wq[i] = 20 * hm[2*j]
				}
			}
		}
		e, _ := describe(c, "reread", f1, wq, codes)
		e["prev"] = first
		out.Emit(e)
	})
}
