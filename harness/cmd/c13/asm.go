package main

// asm.go assembles CFF files that use freedoms of the format which cff.Font.Write never uses:
// a predefined charset (0 ISOAdobe, 1 Expert, 2 ExpertSubset) and a predefined encoding
// (0 Standard, 1 Expert).  Everything else is minimal: one-byte charstrings ("endchar"), empty
// String and Subr INDEXes, a Private DICT holding only BlueShift 7 (its default).  All DICT
// integers use the five-byte form, so the layout does not depend on the values.

// Asm selects the predefined charset and encoding of an assembled file.
type Asm struct {
	On      bool `json:"on"`
	Charset int  `json:"charset"`
	Enc     int  `json:"enc"`
}

func int5(v int) []byte {
	return []byte{29, byte(v >> 24), byte(v >> 16), byte(v >> 8), byte(v)}
}

func index2(items [][]byte) []byte {
	if len(items) == 0 {
		return []byte{0, 0}
	}
	res := []byte{byte(len(items) >> 8), byte(len(items)), 2}
	pos := 1
	for i := 0; i <= len(items); i++ {
		res = append(res, byte(pos>>8), byte(pos))
		if i < len(items) {
			pos += len(items[i])
		}
	}
	for _, it := range items {
		res = append(res, it...)
	}
	return res
}

func assemble(c *Case) []byte {
	name := index2([][]byte{[]byte(expand(c.FontName))})
	cs := make([][]byte, c.N)
	for i := range cs {
		cs[i] = []byte{14} // endchar
	}
	charStrings := index2(cs)
	private := []byte{146, 12, 10} // 7 BlueShift
	const topLen = 6 + 6 + 6 + 11
	csOff := 4 + len(name) + (3 + 2*2 + topLen) + 2 + 2
	privOff := csOff + len(charStrings)
	var top []byte
	top = append(append(top, int5(c.Asm.Charset)...), 15)
	top = append(append(top, int5(c.Asm.Enc)...), 16)
	top = append(append(top, int5(csOff)...), 17)
	top = append(append(append(top, int5(len(private))...), int5(privOff)...), 18)
	res := []byte{1, 0, 4, 4}
	res = append(res, name...)
	res = append(res, index2([][]byte{top})...)
	res = append(res, 0, 0) // String INDEX
	res = append(res, 0, 0) // Global Subr INDEX
	res = append(res, charStrings...)
	res = append(res, private...)
	return res
}
