// Command c07 records executions of the real shaping engine for the safety properties of C07
// (no panic, termination, text conservation, bounded length, history independence).
// The recorded events are judged by spec/ShaperSafetyTrace.tla.
//
//	c07 history <cases.json> <hist.ndjson> <out.ndjson>
//	    for every case: fresh-object results for every pool input, then every TLC-generated
//	    history (sequence of (object, input index)) on reused objects (one gtab.Context, one
//	    sfnt.Layouter per history)
//	c07 mutants <cases.json> <out.ndjson> [maxWords]
//	    encode every case with (*gtab.Info).Encode, corrupt single 16-bit words with boundary
//	    values, and for every mutant gtab.Read accepts run the same safety protocol
package main

import (
	"bytes"
	"fmt"
	"hash/fnv"
	"os"
	"runtime"
	"strconv"
	"strings"
	"time"

	"golang.org/x/text/language"

	"seehuhn.de/go/sfnt"
	"seehuhn.de/go/sfnt/cmap"
	"seehuhn.de/go/sfnt/glyph"
	"seehuhn.de/go/sfnt/opentype/gdef"
	"seehuhn.de/go/sfnt/opentype/gtab"

	"encoding/json"

	"verif.local/harness/internal/fonts"
	"verif.local/harness/internal/shapex"
	"verif.local/harness/internal/vio"
)

type histLine struct {
	H [][2]int `json:"h"` // (object: 1 = ctx, 2 = layouter; pool index 1-based)
}

type ev map[string]any

// outcome of one call
type outcome struct {
	out    []shapex.Glyph
	ok     bool // no panic
	unimpl bool // the documented "not implemented" panic of GposValueRecord.Apply
	hung   bool
	site   string
	msg    string
}

func digest(out []shapex.Glyph) string {
	h := fnv.New64a()
	b, _ := json.Marshal(out)
	h.Write(b)
	return strconv.FormatUint(h.Sum64(), 36)
}

// guarded runs f with recover and a watchdog.
func guarded(f func() []glyph.Info) (res outcome) {
	type r struct {
		o outcome
	}
	ch := make(chan outcome, 1)
	go func() {
		var o outcome
		defer func() {
			if x := recover(); x != nil {
				o.ok = false
				o.msg = fmt.Sprint(x)
				o.unimpl = o.msg == "not implemented"
				o.site = panicSite()
				o.out = nil
			}
			ch <- o
		}()
		out := f()
		o.out = shapex.Project(out)
		o.ok = true
	}()
	select {
	case o := <-ch:
		return o
	case <-time.After(20 * time.Second):
		return outcome{hung: true, msg: "no result after 20s"}
	}
}

// panicSite returns file:line of the innermost go-sfnt frame of the panicking goroutine.
func panicSite() string {
	pc := make([]uintptr, 40)
	n := runtime.Callers(3, pc)
	frames := runtime.CallersFrames(pc[:n])
	for {
		fr, more := frames.Next()
		if strings.Contains(fr.Function, "seehuhn.de/go/sfnt") {
			f := fr.File
			if i := strings.Index(f, "/opentype/"); i >= 0 {
				f = f[i+1:]
			} else if i := strings.LastIndex(f, "/"); i >= 0 {
				f = f[i+1:]
			}
			return fmt.Sprintf("%s:%d", f, fr.Line)
		}
		if !more {
			return ""
		}
	}
}

func conservedRunes(in []rune, out []shapex.Glyph) bool {
	cnt := map[int]int{}
	for _, r := range in {
		cnt[int(r)]++
	}
	for _, g := range out {
		for _, t := range g.T {
			cnt[t]--
		}
	}
	for _, v := range cnt {
		if v != 0 {
			return false
		}
	}
	return true
}

// subject bundles the real tables of a case with the font used for the Layouter.
type subject struct {
	b    *shapex.Built
	font *sfnt.Font
	// fontM has the same lookups behind a script list with several language systems of ONE script that
	// select different features; a request that matches none of them exactly must still get the same
	// language system from every new Layouter (the choice must not depend on map iteration order)
	fontM *sfnt.Font
	maxR  int
}

func maxRepl(ll gtab.LookupList) int {
	r := 1
	for _, l := range ll {
		for _, st := range l.Subtables {
			if m, ok := st.(*gtab.Gsub2_1); ok {
				for _, x := range m.Repl {
					if len(x) > r {
						r = len(x)
					}
				}
			}
		}
	}
	return r
}

func makeFont(ll gtab.LookupList, gd *gdef.Table, order []gtab.LookupIndex, gpos, multi bool) *sfnt.Font {
	f := fonts.Make(vio.Rand(5), fonts.Opts{Kind: "ttf", N: 8, Cmap: "none"})
	m := cmap.Format4{}
	for g := 1; g <= 7; g++ {
		m[uint16('a'+g)] = glyph.ID(g)
	}
	f.InstallCMap(m)
	f.Gdef = gd
	// FindLookups returns lookup indices in ascending order without duplicates
	seen := map[gtab.LookupIndex]bool{}
	var lk []gtab.LookupIndex
	for _, o := range order {
		if !seen[o] && int(o) < len(ll) {
			seen[o] = true
			lk = append(lk, o)
		}
	}
	info := &gtab.Info{
		ScriptList:  gtab.ScriptListInfo{language.MustParse("und-Zyyy"): {Required: 0xFFFF, Optional: []gtab.FeatureIndex{0}}},
		FeatureList: gtab.FeatureListInfo{{Tag: "test", Lookups: lk}},
		LookupList:  ll,
	}
	if multi {
		var first []gtab.LookupIndex
		if len(lk) > 0 {
			first = lk[:1]
		}
		info.FeatureList = gtab.FeatureListInfo{{Tag: "test", Lookups: lk}, {Tag: "test", Lookups: nil}, {Tag: "test", Lookups: first}}
		info.ScriptList = gtab.ScriptListInfo{
			language.MustParse("und-Latn"): {Required: 0xFFFF, Optional: []gtab.FeatureIndex{0}},
			language.MustParse("tr-Latn"):  {Required: 0xFFFF, Optional: []gtab.FeatureIndex{1}},
			language.MustParse("de-Latn"):  {Required: 0xFFFF, Optional: []gtab.FeatureIndex{2}},
			language.MustParse("ro-Latn"):  {Required: 0xFFFF, Optional: []gtab.FeatureIndex{1}},
			language.MustParse("nl-Latn"):  {Required: 0xFFFF, Optional: []gtab.FeatureIndex{2}},
		}
	}
	if gpos {
		f.Gpos = info
	} else {
		f.Gsub = info
	}
	return f
}

func text(in []int) string {
	var sb strings.Builder
	for _, g := range in {
		sb.WriteRune(rune('a' + g))
	}
	return sb.String()
}

func (s *subject) newCtx() *gtab.Context { return gtab.NewContext(s.b.LL, s.b.Gdef, s.b.Order) }

func (s *subject) newLay() *sfnt.Layouter {
	feat := map[string]bool{"test": true}
	l, err := s.font.NewLayouter(language.MustParse("und-Zyyy"), feat, feat)
	if err != nil {
		vio.Fatal(err)
	}
	return l
}

func (s *subject) newLayM() *sfnt.Layouter {
	feat := map[string]bool{"test": true}
	l, err := s.fontM.NewLayouter(language.MustParse("fr"), feat, feat)
	if err != nil {
		vio.Fatal(err)
	}
	return l
}

func (s *subject) callCtx(c *gtab.Context, in []int) outcome {
	return guarded(func() []glyph.Info { return c.Apply(shapex.MkSeq(in)) })
}

func (s *subject) callLay(l *sfnt.Layouter, in []int) outcome {
	return guarded(func() []glyph.Info {
		out := l.Layout(text(in))
		return append([]glyph.Info(nil), out...) // the result is only valid until the next call
	})
}

func fill(e ev, o outcome, in []int, lay bool) {
	e["n"] = len(in)
	e["outlen"] = len(o.out)
	e["ok"] = o.ok || o.unimpl
	e["unimpl"] = o.unimpl
	e["hung"] = o.hung
	cons := true
	if o.ok {
		if lay {
			cons = conservedRunes([]rune(text(in)), o.out)
		} else {
			cons = shapex.Conserved(len(in), o.out)
		}
	}
	e["cons"] = cons
	e["dig"] = digest(o.out)
	// non-vacuity evidence: did the call rewrite anything (glyph ids or positions)?
	chg := len(o.out) != len(in)
	for i := 0; !chg && i < len(in); i++ {
		chg = o.out[i].G != in[i] || o.out[i].X != 0 || o.out[i].Y != 0
	}
	e["chg"] = chg && o.ok
	e["site"] = o.site
	e["msg"] = o.msg
}

// protocol records the fresh results and all histories for one subject.
func protocol(out *vio.Out, s *subject, id int, tag string, pool [][]int, hists []histLine, withLay bool) (bad bool) {
	out.Emit(ev{"ev": "reset", "case": id, "tag": tag, "R": s.maxR, "passes": len(s.b.Order), "nin": len(pool)})
	good := make([][3]bool, len(pool)+1) // per input: usable with ctx / lay
	for i, in := range pool {
		o := s.callCtx(s.newCtx(), in)
		e := ev{"ev": "fresh", "case": id, "obj": 1, "i": i + 1}
		fill(e, o, in, false)
		out.Emit(e)
		good[i+1][1] = o.ok
		if o.hung {
			// the runaway goroutine cannot be stopped: end the recording here
			out.Close()
			os.Exit(0)
		}
		if !o.ok && !o.unimpl {
			bad = true
		}
		if withLay {
			o := s.callLay(s.newLay(), in)
			e := ev{"ev": "fresh", "case": id, "obj": 2, "i": i + 1}
			fill(e, o, in, true)
			out.Emit(e)
			good[i+1][2] = o.ok
			if o.hung {
				out.Close()
				os.Exit(0)
			}
			if !o.ok && !o.unimpl {
				bad = true
			}
		}
	}
	if withLay && s.fontM != nil {
		// object kind 3: every call on a NEW Layouter of the font with several language systems
		for i, in := range pool {
			if i >= 2 {
				break
			}
			for rep := 0; rep < 6; rep++ {
				o := s.callLay(s.newLayM(), in)
				kind := "apply"
				if rep == 0 {
					kind = "fresh"
				}
				e := ev{"ev": kind, "case": id, "obj": 3, "i": i + 1}
				fill(e, o, in, true)
				out.Emit(e)
				if o.hung {
					out.Close()
					os.Exit(0)
				}
				if !o.ok {
					break
				}
			}
		}
	}
	for k, h := range hists {
		out.Emit(ev{"ev": "hist", "case": id, "k": k + 1})
		c := s.newCtx()
		var l *sfnt.Layouter
		if withLay {
			l = s.newLay()
		}
		for _, step := range h.H {
			obj, i := step[0], step[1]
			if i > len(pool) || (obj == 2 && !withLay) {
				continue
			}
			// an object that panicked is in an unspecified state: inputs whose fresh call
			// panicked are not replayed on reused objects
			if !good[i][obj] {
				continue
			}
			var o outcome
			if obj == 1 {
				o = s.callCtx(c, pool[i-1])
			} else {
				o = s.callLay(l, pool[i-1])
			}
			e := ev{"ev": "apply", "case": id, "obj": obj, "i": i}
			fill(e, o, pool[i-1], obj == 2)
			out.Emit(e)
			if o.hung {
				out.Close()
				os.Exit(0)
			}
			if !o.ok {
				bad = true
				break
			}
		}
	}
	return bad
}

func loadCases(path string) []*shapex.Case {
	b, err := os.ReadFile(path)
	if err != nil {
		vio.Fatal(err)
	}
	var cs []*shapex.Case
	if err := json.Unmarshal(b, &cs); err != nil {
		vio.Fatal(err)
	}
	return cs
}

func isGpos(c *shapex.Case) bool {
	for _, l := range c.LL {
		if l.Gpos {
			return true
		}
	}
	return false
}

// structuralWords returns the word indices of the lookup list of an encoded GSUB/GPOS table: the list
// header, every lookup header with its subtable offsets and the first 8 words of every subtable
// (format, coverage offsets, counts).  It only walks what is inside the data.
func structuralWords(data []byte) []int {
	var res []int
	u16 := func(off int) (int, bool) {
		if off < 0 || off+2 > len(data) {
			return 0, false
		}
		return int(data[off])<<8 | int(data[off+1]), true
	}
	add := func(off int) {
		if off >= 0 && off+2 <= len(data) && off%2 == 0 {
			res = append(res, off/2)
		}
	}
	ll, ok := u16(8)
	if !ok {
		return nil
	}
	add(8)
	n, ok := u16(ll)
	if !ok {
		return res
	}
	add(ll)
	for i := 0; i < n && i < 64; i++ {
		add(ll + 2 + 2*i)
		lo, ok := u16(ll + 2 + 2*i)
		if !ok {
			break
		}
		lt := ll + lo
		for k := 0; k < 3; k++ {
			add(lt + 2*k)
		}
		ns, ok := u16(lt + 4)
		if !ok {
			continue
		}
		for j := 0; j < ns && j < 16; j++ {
			add(lt + 6 + 2*j)
			so, ok := u16(lt + 6 + 2*j)
			if !ok {
				break
			}
			for k := 0; k < 8; k++ {
				add(lt + so + 2*k)
			}
		}
		add(lt + 6 + 2*ns) // mark filtering set, if present
	}
	seen := map[int]bool{}
	out := res[:0]
	for _, w := range res {
		if !seen[w] {
			seen[w] = true
			out = append(out, w)
		}
	}
	return out
}

func main() {
	if len(os.Args) < 4 {
		vio.Fatal("usage: c07 history|mutants ...")
	}
	cases := loadCases(os.Args[2])
	switch os.Args[1] {
	case "history":
		hists := vio.ReadLines[histLine](os.Args[3])
		out := vio.NewOut(os.Args[4])
		for _, c := range cases {
			b, err := shapex.Build(c)
			if err != nil {
				vio.Fatal(err)
			}
			s := &subject{b: b, maxR: maxRepl(b.LL)}
			s.font = makeFont(b.LL, b.Gdef, b.Order, isGpos(c), false)
			s.fontM = makeFont(b.LL, b.Gdef, b.Order, isGpos(c), true)
			protocol(out, s, c.ID, "built", c.Inputs, hists, true)
		}
		out.Close()
	case "mutants":
		out := vio.NewOut(os.Args[3])
		maxWords := 400
		if len(os.Args) > 4 {
			maxWords, _ = strconv.Atoi(os.Args[4])
		}
		hists := []histLine{}
		for _, c := range cases {
			// every ordered pair of pool inputs on a reused context
			_ = c
			break
		}
		vals := []int{0, 1, 2, 3, 0x7FFF, 0x8000, 0xFFFE, 0xFFFF}
		nmut, nacc, nlive, nskip := 0, 0, 0, 0
		for _, c := range cases {
			b, err := shapex.Build(c)
			if err != nil {
				vio.Fatal(err)
			}
			tp := gtab.Type(gtab.TypeGsub)
			if isGpos(c) {
				tp = gtab.TypeGpos
			}
			// a script and a feature list are needed: the reader returns an empty table without them
			info := &gtab.Info{
				ScriptList:  gtab.ScriptListInfo{language.MustParse("und-Zyyy"): {Required: 0xFFFF, Optional: []gtab.FeatureIndex{0}}},
				FeatureList: gtab.FeatureListInfo{{Tag: "test", Lookups: []gtab.LookupIndex{0}}},
				LookupList:  b.LL,
			}
			var data []byte
			func() {
				defer func() {
					if recover() != nil {
						data = nil
					}
				}()
				data = info.Encode()
			}()
			if data == nil {
				continue
			}
			// non-vacuity: the unmutated encoding must read back with all its lookups
			if back, err := gtab.Read(bytes.NewReader(data), tp); err != nil || len(back.LookupList) != len(b.LL) {
				// lookups that mix subtable types exist in memory only; they are not reader-deliverable
				nskip++
				continue
			}
			pool := c.Inputs
			if len(pool) > 8 {
				pool = pool[:8]
			}
			hists = hists[:0]
			for i := 1; i <= len(pool); i++ {
				for j := 1; j <= len(pool); j++ {
					hists = append(hists, histLine{H: [][2]int{{1, i}, {1, j}}})
				}
			}
			words := len(data) / 2
			step := 1
			if words > maxWords {
				step = (words + maxWords - 1) / maxWords
			}
			rng := vio.Rand(int64(c.ID))
			// the structural words (lookup list, lookup headers, subtable offsets and the head of every
			// subtable) are always mutated; the rest of the table is sampled with the given density
			wl := structuralWords(data)
			inList := map[int]bool{}
			for _, w := range wl {
				inList[w] = true
			}
			for w := rng.Intn(step); w < words; w += step {
				if !inList[w] {
					wl = append(wl, w)
					inList[w] = true
				}
			}
			cmut := 0 // per-case counter: the id of a mutant does not depend on the other cases of the run
			for _, w := range wl {
				orig := int(data[2*w])<<8 | int(data[2*w+1])
				for _, v := range append(vals, orig+1, orig-1, len(data), len(data)-2*w) {
					v &= 0xFFFF
					if v == orig {
						continue
					}
					mut := append([]byte(nil), data...)
					mut[2*w], mut[2*w+1] = byte(v>>8), byte(v)
					nmut++
					cmut++
					var got *gtab.Info
					var rerr error
					ro := guarded(func() []glyph.Info {
						got, rerr = gtab.Read(bytes.NewReader(mut), tp)
						return nil
					})
					id := c.ID*100000 + cmut%100000
					if !ro.ok || ro.hung {
						// a panicking reader is C02's subject; recorded for completeness
						out.Emit(ev{"ev": "readpanic", "case": id, "off": 2 * w, "val": v, "site": ro.site, "msg": ro.msg})
						continue
					}
					if rerr != nil || got == nil {
						continue
					}
					nacc++
					if len(got.LookupList) > 0 {
						nlive++
					}
					s := &subject{b: &shapex.Built{LL: got.LookupList, Gdef: b.Gdef, Order: b.Order}, maxR: maxRepl(got.LookupList)}
					protocol(out, s, id, fmt.Sprintf("case %d word %d := %d", c.ID, w, v), pool, hists, false)
				}
			}
		}
		out.Emit(ev{"ev": "mutsummary", "mutants": nmut, "accepted": nacc, "live": nlive, "skipped": nskip})
		out.Close()
	case "words":
		// development aid: the encoded table and its structural words
		for _, c := range cases {
			b, err := shapex.Build(c)
			if err != nil {
				vio.Fatal(err)
			}
			data := (&gtab.Info{
				ScriptList:  gtab.ScriptListInfo{language.MustParse("und-Zyyy"): {Required: 0xFFFF, Optional: []gtab.FeatureIndex{0}}},
				FeatureList: gtab.FeatureListInfo{{Tag: "test", Lookups: []gtab.LookupIndex{0}}},
				LookupList:  b.LL,
			}).Encode()
			fmt.Printf("case %d: % x\n  structural words %v\n", c.ID, data, structuralWords(data))
		}
	default:
		vio.Fatal("unknown mode")
	}
}
