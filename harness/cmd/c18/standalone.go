package main

// Stand-alone readers: every public reader of one table / one stream is run on the byte stream its
// own writer produced (taken from the corpus font as written by Font.Write, the CFF stream from
// (*cff.Font).Write), cut at every k and, for readers that take an io.Reader, failing from k on.

import (
	"bytes"
	"fmt"
	"io"
	"strings"

	"seehuhn.de/go/postscript/funit"

	"seehuhn.de/go/sfnt"
	"seehuhn.de/go/sfnt/cff"
	"seehuhn.de/go/sfnt/cmap"
	"seehuhn.de/go/sfnt/glyf"
	"seehuhn.de/go/sfnt/glyph"
	"seehuhn.de/go/sfnt/head"
	"seehuhn.de/go/sfnt/header"
	"seehuhn.de/go/sfnt/hmtx"
	"seehuhn.de/go/sfnt/kern"
	"seehuhn.de/go/sfnt/maxp"
	"seehuhn.de/go/sfnt/name"
	"seehuhn.de/go/sfnt/opentype/gdef"
	"seehuhn.de/go/sfnt/opentype/gtab"
	"seehuhn.de/go/sfnt/os2"
	"seehuhn.de/go/sfnt/parser"
	"seehuhn.de/go/sfnt/post"

	"verif.local/harness/internal/sfntwalk"
	"verif.local/harness/internal/vio"
)

// failSeeker serves data[:k] and then reports an error (not EOF); it knows the full size.
type failSeeker struct {
	data  []byte
	k     int
	pos   int64
	nacc  int
	nfail int
}

func (s *failSeeker) Size() int64 { return int64(len(s.data)) }

func (s *failSeeker) Seek(off int64, whence int) (int64, error) {
	switch whence {
	case io.SeekCurrent:
		off += s.pos
	case io.SeekEnd:
		off += int64(len(s.data))
	}
	if off < 0 {
		return 0, fmt.Errorf("negative seek")
	}
	s.pos = off
	return off, nil
}

func (s *failSeeker) Read(p []byte) (int, error) {
	s.nacc++
	if len(p) == 0 {
		return 0, nil
	}
	if s.pos >= int64(len(s.data)) {
		return 0, io.EOF
	}
	if s.pos >= int64(s.k) {
		s.nfail++
		return 0, errFault
	}
	n := copy(p, s.data[s.pos:s.k])
	s.pos += int64(n)
	return n, nil
}

// ReadAt makes the same source usable for header.Read.
func (s *failSeeker) ReadAt(p []byte, off int64) (int, error) {
	s.nacc++
	if len(p) > 0 && int(off)+len(p) > s.k && s.k < len(s.data) {
		s.nfail++
		n := 0
		if int(off) < s.k {
			n = copy(p, s.data[off:s.k])
		}
		return n, errFault
	}
	return bytes.NewReader(s.data).ReadAt(p, off)
}

// saInput is what a stand-alone reader gets: the (cut) stream and intact companions.
type saInput struct {
	data []byte               // the stream, cut to k bytes in mode trunc
	src  parser.ReadSeekSizer // the same as a reader (cut or failing)
	tabs map[string][]byte    // the intact tables of the font
}

type saReader struct {
	name      string
	viaReader bool // the reader takes an io.Reader / ReadSeekSizer: the failing source applies
	stream    func(f *sfnt.Font, tabs map[string][]byte) []byte
	read      func(in *saInput) error
}

func table(tag string) func(*sfnt.Font, map[string][]byte) []byte {
	return func(_ *sfnt.Font, tabs map[string][]byte) []byte { return tabs[tag] }
}

func locaFormat(tabs map[string][]byte) int16 {
	h := tabs["head"]
	return int16(h[50])<<8 | int16(h[51])
}

var saReaders = []*saReader{
	{name: "cff.Read", viaReader: true,
		stream: func(f *sfnt.Font, _ map[string][]byte) []byte {
			if !f.IsCFF() {
				return nil
			}
			var buf bytes.Buffer
			if err := f.AsCFF().Write(&buf); err != nil {
				vio.Fatal(err)
			}
			return buf.Bytes()
		},
		read: func(in *saInput) error { _, err := cff.Read(in.src); return err }},
	{name: "header.Read+ReadTableBytes", viaReader: true,
		stream: func(_ *sfnt.Font, tabs map[string][]byte) []byte { return tabs["\x00file"] },
		read: func(in *saInput) error {
			r := in.src.(io.ReaderAt)
			info, err := header.Read(r)
			if err != nil {
				return err
			}
			for name := range info.Toc {
				if _, err := info.ReadTableBytes(r, name); err != nil {
					return err
				}
			}
			return nil
		}},
	{name: "cmap.Decode", stream: table("cmap"),
		read: func(in *saInput) error { _, err := cmap.Decode(in.data); return err }},
	{name: "glyf.Decode(glyf cut)", stream: table("glyf"),
		read: func(in *saInput) error {
			_, err := glyf.Decode(&glyf.Encoded{GlyfData: in.data, LocaData: in.tabs["loca"], LocaFormat: locaFormat(in.tabs)})
			return err
		}},
	{name: "glyf.Decode(loca cut)", stream: table("loca"),
		read: func(in *saInput) error {
			_, err := glyf.Decode(&glyf.Encoded{GlyfData: in.tabs["glyf"], LocaData: in.data, LocaFormat: locaFormat(in.tabs)})
			return err
		}},
	{name: "gtab.Read(GSUB)", viaReader: true, stream: table("GSUB"),
		read: func(in *saInput) error { _, err := gtab.Read(in.src, gtab.TypeGsub); return err }},
	{name: "gtab.Read(GPOS)", viaReader: true, stream: table("GPOS"),
		read: func(in *saInput) error { _, err := gtab.Read(in.src, gtab.TypeGpos); return err }},
	gtabV11("GSUB", gtab.TypeGsub, false), gtabV11("GPOS", gtab.TypeGpos, false),
	gtabV11("GSUB", gtab.TypeGsub, true), gtabV11("GPOS", gtab.TypeGpos, true),
	{name: "gdef.Read", viaReader: true, stream: table("GDEF"),
		read: func(in *saInput) error { _, err := gdef.Read(in.src); return err }},
	{name: "name.Decode", stream: table("name"),
		read: func(in *saInput) error { _, err := name.Decode(in.data); return err }},
	{name: "post.Read", viaReader: true, stream: table("post"),
		read: func(in *saInput) error { _, err := post.Read(in.src); return err }},
	{name: "os2.Read", viaReader: true, stream: table("OS/2"),
		read: func(in *saInput) error { _, err := os2.Read(in.src); return err }},
	os2Version(0), os2Version(1), os2Version(2), os2Version(3), os2Version(4), os2Version(5),
	{name: "head.Read", viaReader: true, stream: table("head"),
		read: func(in *saInput) error { _, err := head.Read(in.src); return err }},
	{name: "maxp.Read", viaReader: true, stream: table("maxp"),
		read: func(in *saInput) error { _, err := maxp.Read(in.src); return err }},
	{name: "hmtx.Decode(hmtx cut)", stream: table("hmtx"),
		read: func(in *saInput) error { _, err := hmtx.Decode(in.tabs["hhea"], in.data); return err }},
	{name: "hmtx.Decode(hhea cut)", stream: table("hhea"),
		read: func(in *saInput) error { _, err := hmtx.Decode(in.data, in.tabs["hmtx"]); return err }},
	{name: "kern.Read", viaReader: true,
		stream: func(f *sfnt.Font, _ map[string][]byte) []byte {
			info := kern.Info{}
			n := f.NumGlyphs()
			for i := 1; i < n && i < 12; i++ {
				info[glyph.Pair{Left: glyph.ID(i), Right: glyph.ID((i * 3) % n)}] = funit.Int16(-10 * i)
			}
			if len(info) == 0 {
				return nil
			}
			return info.Encode()
		},
		read: func(in *saInput) error { _, err := kern.Read(in.src); return err }},
}

// gtabV11: a GSUB/GPOS table of version 1.1 (the writer only emits 1.0): the header has a fourth, 4-byte
// offset (featureVariationsOffset, null here), so it is 14 bytes long.  empty: no lists at all (the three
// list offsets are null: a complete, legal table of 14 bytes); otherwise the font's own table with the
// longer header (list offsets moved by 4).
func gtabV11(tag string, tp gtab.Type, empty bool) *saReader {
	name := fmt.Sprintf("gtab.Read(%s)[version=1.1]", tag)
	if empty {
		name = fmt.Sprintf("gtab.Read(%s)[version=1.1,empty]", tag)
	}
	return &saReader{name: name, viaReader: true,
		stream: func(_ *sfnt.Font, tabs map[string][]byte) []byte {
			if empty {
				return []byte{0, 1, 0, 1, 0, 0, 0, 0, 0, 0, 0, 0, 0, 0}
			}
			t := tabs[tag]
			if len(t) < 10 || t[0] != 0 || t[1] != 1 || t[2] != 0 || t[3] != 0 {
				return nil
			}
			out := append([]byte{}, t[:10]...)
			out[3] = 1
			for i := 4; i < 10; i += 2 {
				if off := int(out[i])<<8 | int(out[i+1]); off != 0 {
					off += 4
					out[i], out[i+1] = byte(off>>8), byte(off)
				}
			}
			out = append(out, 0, 0, 0, 0)
			return append(out, t[10:]...)
		},
		read: func(in *saInput) error { _, err := gtab.Read(in.src, tp); return err }}
}

// os2Version: the OS/2 table of the font with its version word set to v (the writer only emits one
// version; which lengths are complete depends on the version the stream declares).
func os2Version(v int) *saReader {
	return &saReader{name: fmt.Sprintf("os2.Read[version=%d]", v), viaReader: true,
		stream: func(_ *sfnt.Font, tabs map[string][]byte) []byte {
			t := append([]byte{}, tabs["OS/2"]...)
			if len(t) < 96 {
				return nil
			}
			t[0], t[1] = 0, byte(v)
			return t
		},
		read: func(in *saInput) error { _, err := os2.Read(in.src); return err }}
}

func saByName(op string) *saReader {
	for _, r := range saReaders {
		if "sa:"+r.name == op {
			return r
		}
	}
	vio.Fatal("unknown stand-alone reader " + op)
	return nil
}

func isStandalone(op string) bool { return strings.HasPrefix(op, "sa:") }

// saTables returns the intact tables of corpus font fi as written by Font.Write.
func saTables(f *sfnt.Font) map[string][]byte {
	file := intact(f, "Write")
	tabs := map[string][]byte{"\x00file": file}
	d := sfntwalk.Walk(file)
	for _, t := range d.Tables(file) {
		tabs[t.Tag] = t.Data
	}
	return tabs
}

// runStandalone executes one faulted stand-alone read and appends its summary event.
func runStandalone(r *saReader, data []byte, tabs map[string][]byte, g *Group, k int, out *[]ev) {
	in := &saInput{tabs: tabs}
	var fs *failSeeker
	switch g.Mode {
	case "trunc":
		in.data = data[:k:k]
		in.src = bytes.NewReader(in.data)
		if k%2 == 1 {
			// the way header.Info.TableReader hands a table over: a section whose Size() is the length the
			// directory announces, on top of a file that ends early
			in.src = io.NewSectionReader(bytes.NewReader(in.data), 0, int64(len(data)))
		}
	case "failat":
		fs = &failSeeker{data: data, k: k}
		in.data, in.src = data, fs
	default:
		panic("unknown mode " + g.Mode)
	}
	var err error
	pmsg := ""
	func() {
		defer func() {
			if x := recover(); x != nil {
				pmsg = fmt.Sprint(x)
			}
		}()
		err = r.read(in)
	}()
	nacc, nfail := 0, 0
	if fs != nil {
		nacc, nfail = fs.nacc, fs.nfail
	}
	*out = append(*out, ev{"ev": "r", "g": g.ID, "mode": g.Mode, "k": k, "err": err != nil, "nacc": nacc, "nfail": nfail,
		"panic": pmsg != "", "msg": pmsg})
}
