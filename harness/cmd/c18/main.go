// Command c18 injects I/O faults at every byte position (DESIGN.md, C18) and records one short
// event per run; the recorded runs are judged by spec/IOFaultTrace.tla.
//
//	c18 all <out-dir>                 every corpus font x operation x mode x k in 0..len(file)
//	c18 one <case.json> <out.ndjson>  a single run (replay): summary and per-call events
//
// Files read by sfnt.Read: the output of Font.Write for every corpus font (every k); the same
// tables re-assembled by an independent writer with each table in turn physically last, and with
// an unknown table of length = 0..3 (mod 4) last; the Go fonts shipped with golang.org/x/image
// (last table "prep", copied undecoded).  For the variants and the big files k runs over windows
// around every table boundary and the file end in the quick tier.
//
// Operations: Write, WriteTrueTypePDF, WriteOpenTypeCFFPDF, (*cff.Font).Write via AsCFF (destination
// modes exact | atomic | short) and sfnt.Read (source modes trunc | strunc | failat | sfail).
package main

import (
	"bytes"
	"encoding/json"
	"errors"
	"fmt"
	"io"
	"os"
	"path/filepath"
	"runtime"
	"sort"
	"strings"
	"sync"

	"golang.org/x/image/font/gofont/gobold"
	"golang.org/x/image/font/gofont/goitalic"
	"golang.org/x/image/font/gofont/gomono"
	"golang.org/x/image/font/gofont/goregular"

	"seehuhn.de/go/sfnt"
	"seehuhn.de/go/sfnt/glyf"

	"verif.local/harness/internal/fonts"
	"verif.local/harness/internal/sfntwalk"
	"verif.local/harness/internal/vio"
)

var errFault = errors.New("injected I/O fault")

// ---- fault-injecting destination -------------------------------------------------------------

type call struct {
	M, A int
	Fail bool
}

// dest accepts k bytes in total and then fails.  Modes: exact (accepts up to byte k), atomic (the
// block or nothing), short (part of what fits, io.ErrShortWrite), eager (the call that consumes the
// k-th byte reports the failure, with its full count when it ends exactly at k), once / eonce (exact /
// eager, but only one call fails; afterwards the destination works again).
type dest struct {
	k, acc int
	mode   string
	calls  int
	failed bool
	healed bool
	log    *[]call
}

func (d *dest) Write(p []byte) (int, error) {
	d.calls++
	room := d.k - d.acc
	m := len(p)
	a, fail := m, false
	var err error
	eager := d.mode == "eager" || d.mode == "eonce"
	switch {
	case d.healed:
	case eager:
		if m > 0 && m >= room {
			fail, err = true, errFault
			if room < m {
				a = room
			}
		}
	case m > room:
		fail = true
		switch d.mode {
		case "exact", "once":
			a, err = room, errFault
		case "atomic":
			a, err = 0, errFault
		default: // short write: part of what would fit
			a, err = room/2, io.ErrShortWrite
		}
	}
	d.acc += a
	if fail {
		d.failed = true
		if d.mode == "once" || d.mode == "eonce" {
			d.healed = true
		}
	}
	if d.log != nil {
		*d.log = append(*d.log, call{m, a, fail})
	}
	return a, err
}

// ---- fault-injecting sources -----------------------------------------------------------------

type acc struct {
	Off, Len int
	Fail     bool
}

// failAt is an io.ReaderAt that fails for every access touching an offset >= k.
type failAt struct {
	data  []byte
	k     int
	nacc  int
	nfail int
	log   *[]acc
}

func (r *failAt) ReadAt(p []byte, off int64) (int, error) {
	r.nacc++
	if len(p) > 0 && int(off)+len(p) > r.k && r.k < len(r.data) {
		r.nfail++
		if r.log != nil {
			*r.log = append(*r.log, acc{int(off), len(p), true})
		}
		n := 0
		if int(off) < r.k {
			n = copy(p, r.data[off:r.k])
		}
		return n, errFault
	}
	if r.log != nil {
		*r.log = append(*r.log, acc{int(off), len(p), false})
	}
	return bytes.NewReader(r.data).ReadAt(p, off)
}

// truncAt is the file cut to k bytes, as an io.ReaderAt that counts the accesses hitting the end
// (used for the access-by-access traces; the summary runs hand a *bytes.Reader to sfnt.Read, as
// callers do: it also has a Size method).
type truncAt struct {
	r     *bytes.Reader
	nacc  int
	nfail int
	log   *[]acc
}

func (r *truncAt) ReadAt(p []byte, off int64) (int, error) {
	r.nacc++
	n, err := r.r.ReadAt(p, off)
	if err != nil {
		r.nfail++
	}
	if r.log != nil {
		*r.log = append(*r.log, acc{int(off), len(p), err != nil})
	}
	return n, err
}

// stream is a plain io.Reader (no ReadAt) over data[:k]; at k it reports EOF (cut) or an error.
type stream struct {
	data  []byte
	k     int
	pos   int
	fail  bool
	nacc  int
	nfail int
}

func (s *stream) Read(p []byte) (int, error) {
	s.nacc++
	if s.pos >= s.k {
		if s.fail && s.k < len(s.data) {
			s.nfail++
			return 0, errFault
		}
		return 0, io.EOF
	}
	n := copy(p, s.data[s.pos:s.k])
	s.pos += n
	return n, nil
}

// ---- runs ------------------------------------------------------------------------------------

// Group is one (font, operation, mode): all k are enumerated inside it.
type Group struct {
	ID       int    `json:"id"`
	FI       int    `json:"fi"` // index into fonts.Corpus(Thorough)
	Thorough bool   `json:"thorough"`
	Name     string `json:"name"`
	Op       string `json:"op"`
	Mode     string `json:"mode"`
	Total    int    `json:"total"`
	DataEnd  int    `json:"dataEnd"`
	Variant  string `json:"variant"` // Read: "" | last:<tag> | elast:<tag>:<r> | unk:<r> | go:<name>
	KSel     string `json:"ksel"`    // all | win
	Opt      []int  `json:"opt"`     // stand-alone readers: positions at which the stream may legitimately end
}

// Case is one run (replay file).
type Case struct {
	Group
	K int `json:"k"`
}

// extraTable tells which corpus font additionally carries a table that sfnt.Read never looks at
// (physically the last one): a cut inside it loses table data that no decoder will miss.
func extraTable(fi int, o fonts.Opts) bool { return fi == 3 && o.Kind == "ttf" }

func filler(n, seed int) []byte {
	data := make([]byte, n)
	for i := range data {
		data[i] = byte(200 + seed + i)
	}
	return data
}

func makeFont(fi int, thorough bool) *sfnt.Font {
	o := fonts.Corpus(thorough)[fi]
	f := fonts.Make(vio.Rand(int64(7000+fi)), o)
	if o.Kind == "ttf" {
		// tables the reader copies without decoding them, lengths = 2, 3, 0, 1 (mod 4)
		t := f.Outlines.(*glyf.Outlines).Tables
		t["prep"], t["fpgm"], t["cvt "], t["gasp"] = filler(38, 1), filler(39, 2), filler(40, 3), filler(37, 4)
	}
	if extraTable(fi, o) {
		f.Outlines.(*glyf.Outlines).Tables["zzzz"] = filler(37, 0)
	}
	return f
}

var goFonts = map[string][]byte{"regular": goregular.TTF, "mono": gomono.TTF, "bold": gobold.TTF, "italic": goitalic.TTF}

// buildFile returns the bytes sfnt.Read is given in group g (before any fault).
func buildFile(g *Group) []byte {
	if strings.HasPrefix(g.Variant, "go:") {
		return goFonts[g.Variant[3:]]
	}
	base := intact(makeFont(g.FI, g.Thorough), "Write")
	if g.Variant == "" {
		return base
	}
	d := sfntwalk.Walk(base)
	tabs := d.Tables(base)
	switch {
	case strings.HasPrefix(g.Variant, "last:"):
		tag := g.Variant[5:]
		var res []sfntwalk.Table
		var last *sfntwalk.Table
		for i := range tabs {
			if tabs[i].Tag == tag {
				last = &tabs[i]
			} else {
				res = append(res, tabs[i])
			}
		}
		if last == nil {
			vio.Fatal("no table " + tag + " in " + g.Name)
		}
		return sfntwalk.Assemble(d.Scaler, append(res, *last), true)
	case strings.HasPrefix(g.Variant, "elast:"):
		// <tag> physically last, with an EMPTY table directly in front of it: both share one offset; the empty
		// table's tag sorts before (r = 0) or after (r = 1) every other tag
		tag, r := g.Variant[6:10], int(g.Variant[11]-'0')
		var res []sfntwalk.Table
		var last *sfntwalk.Table
		for i := range tabs {
			if tabs[i].Tag == tag {
				last = &tabs[i]
			} else {
				res = append(res, tabs[i])
			}
		}
		if last == nil {
			vio.Fatal("no table " + tag + " in " + g.Name)
		}
		res = append(res, sfntwalk.Table{Tag: []string{"....", "zzzy"}[r], Data: []byte{}})
		return sfntwalk.Assemble(d.Scaler, append(res, *last), true)
	case strings.HasPrefix(g.Variant, "unk:"):
		r := int(g.Variant[4] - '0')
		tabs = append(tabs, sfntwalk.Table{Tag: "zzzx", Data: filler(36+r, r)})
		return sfntwalk.Assemble(d.Scaler, tabs, r < 2) // r >= 2: the final padding is missing (legal)
	}
	vio.Fatal("unknown variant " + g.Variant)
	return nil
}

// writeOp runs one writing operation; hasn tells whether the operation reports a byte count.
func writeOp(f *sfnt.Font, op string, w io.Writer) (n int64, hasn bool, err error) {
	switch op {
	case "Write":
		n, err = f.Write(w)
		return n, true, err
	case "WriteTrueTypePDF":
		n, err = f.WriteTrueTypePDF(w)
		return n, true, err
	case "WriteOpenTypeCFFPDF":
		return 0, false, f.WriteOpenTypeCFFPDF(w)
	case "cffWrite":
		return 0, false, f.AsCFF().Write(w)
	}
	panic("unknown op " + op)
}

type ev map[string]any

// runWrite executes one faulted write and appends its events.
func runWrite(f *sfnt.Font, g *Group, k int, detail bool, out *[]ev) {
	d := &dest{k: k, mode: g.Mode}
	var log []call
	if detail {
		d.log = &log
	}
	var n int64
	var hasn bool
	var err error
	pmsg := ""
	func() {
		defer func() {
			if x := recover(); x != nil {
				pmsg = fmt.Sprint(x)
			}
		}()
		n, hasn, err = writeOp(f, g.Op, d)
	}()
	if n < 0 || n > 1<<30 {
		n = -1
	}
	if !detail {
		*out = append(*out, ev{"ev": "w", "g": g.ID, "mode": g.Mode, "k": k, "hasn": hasn, "n": int(n), "err": err != nil,
			"acc": d.acc, "calls": d.calls, "dfail": d.failed, "panic": pmsg != "", "msg": pmsg})
		return
	}
	*out = append(*out, ev{"ev": "wb", "g": g.ID, "mode": g.Mode, "k": k})
	for _, c := range log {
		*out = append(*out, ev{"ev": "wc", "g": g.ID, "k": k, "m": c.M, "a": c.A, "fail": c.Fail})
	}
	*out = append(*out, ev{"ev": "wr", "g": g.ID, "k": k, "hasn": hasn, "n": int(n), "err": err != nil, "panic": pmsg != "", "msg": pmsg})
}

// runRead executes one faulted sfnt.Read and appends its events.
func runRead(file []byte, g *Group, k int, detail bool, out *[]ev) {
	var src io.Reader
	var log []acc
	var lp *[]acc
	if detail {
		lp = &log
	}
	var fa *failAt
	var ta *truncAt
	var st *stream
	switch g.Mode {
	case "trunc":
		if !detail {
			src = bytes.NewReader(file[:k]) // has ReadAt and Size, like the readers callers pass
			break
		}
		ta = &truncAt{r: bytes.NewReader(file[:k]), log: lp}
		src = struct {
			io.Reader
			io.ReaderAt
		}{nil, ta}
	case "failat":
		fa = &failAt{data: file, k: k, log: lp}
		src = struct {
			io.Reader
			io.ReaderAt
		}{nil, fa}
	case "strunc":
		st = &stream{data: file, k: k}
		src = st
	case "sfail":
		st = &stream{data: file, k: k, fail: true}
		src = st
	default:
		panic("unknown mode " + g.Mode)
	}
	var err error
	pmsg := ""
	func() {
		defer func() {
			if x := recover(); x != nil {
				pmsg = fmt.Sprint(x)
			}
		}()
		_, err = sfnt.Read(src)
	}()
	nacc, nfail := 0, 0
	switch {
	case fa != nil:
		nacc, nfail = fa.nacc, fa.nfail
	case ta != nil:
		nacc, nfail = ta.nacc, ta.nfail
	case st != nil:
		nacc, nfail = st.nacc, st.nfail
	}
	if !detail {
		*out = append(*out, ev{"ev": "r", "g": g.ID, "mode": g.Mode, "k": k, "err": err != nil, "nacc": nacc, "nfail": nfail,
			"panic": pmsg != "", "msg": pmsg})
		return
	}
	*out = append(*out, ev{"ev": "rb", "g": g.ID, "mode": g.Mode, "k": k})
	for _, a := range log {
		*out = append(*out, ev{"ev": "ra", "g": g.ID, "k": k, "off": a.Off, "len": a.Len, "fail": a.Fail})
	}
	*out = append(*out, ev{"ev": "rr", "g": g.ID, "k": k, "err": err != nil, "panic": pmsg != "", "msg": pmsg})
}

func isRead(op string) bool { return op == "Read" || isStandalone(op) }

// detailed tells for which k a per-call trace is recorded as well.
func detailed(g *Group, k int) bool {
	if isRead(g.Op) && (g.Mode == "strunc" || g.Mode == "sfail") {
		return false
	}
	return k < 16 || k > g.Total-16 || k%53 == 0 || (isRead(g.Op) && k >= g.DataEnd-4)
}

// faultPoints lists the k of a group: all of 0..total, or windows around every table boundary.
func faultPoints(g *Group, file []byte) []int {
	if g.KSel == "calls" {
		// write groups of big fonts: windows around the boundaries of the destination's Write calls
		var log []call
		d := &dest{k: g.Total + 1, mode: "exact", log: &log}
		if _, _, err := writeOp(makeFont(g.FI, g.Thorough), g.Op, d); err != nil {
			vio.Fatal(err)
		}
		sel := map[int]bool{}
		pos := 0
		for _, c := range append([]call{{}}, log...) {
			pos += c.M
			for k := pos - 2; k <= pos+2; k++ {
				if k >= 0 && k <= g.Total {
					sel[k] = true
				}
			}
		}
		res := make([]int, 0, len(sel))
		for k := range sel {
			res = append(res, k)
		}
		sort.Ints(res)
		return res
	}
	if g.KSel != "win" {
		res := make([]int, g.Total+1)
		for k := range res {
			res[k] = k
		}
		return res
	}
	marks := []int{0, 12, g.Total, g.DataEnd}
	d := sfntwalk.Walk(file)
	marks = append(marks, 12+16*d.NumTables)
	for _, r := range d.Recs {
		end := int(r.Off + r.Len)
		marks = append(marks, int(r.Off), end, (end+3)&^3)
	}
	sel := map[int]bool{}
	for _, m := range marks {
		for k := m - 6; k <= m+6; k++ {
			if k >= 0 && k <= g.Total {
				sel[k] = true
			}
		}
	}
	for k := g.Total - 16; k <= g.Total; k++ {
		if k >= 0 {
			sel[k] = true
		}
	}
	res := make([]int, 0, len(sel))
	for k := range sel {
		res = append(res, k)
	}
	sort.Ints(res)
	return res
}

func resetEvent(g *Group) ev {
	return ev{"ev": "reset", "g": g.ID, "font": g.Name, "variant": g.Variant, "op": g.Op, "mode": g.Mode, "total": g.Total,
		"dataEnd": g.DataEnd, "opt": append([]int{}, g.Opt...)}
}

// intact runs the operation without a fault and returns the bytes produced.
func intact(f *sfnt.Font, op string) []byte {
	var buf bytes.Buffer
	wop := op
	if isRead(op) {
		wop = "Write"
	}
	n, hasn, err := writeOp(f, wop, &buf)
	if err != nil {
		vio.Fatal(fmt.Errorf("%s without fault failed: %v", op, err))
	}
	if hasn && int(n) != buf.Len() {
		vio.Fatal(fmt.Errorf("%s without fault reports %d of %d bytes", op, n, buf.Len()))
	}
	return buf.Bytes()
}

var rmodes = []string{"trunc", "strunc", "failat", "sfail"}

func groups(thorough bool) []*Group {
	var res []*Group
	wmodes := []string{"exact", "atomic", "short", "eager", "once", "eonce"}
	addRead := func(fi int, name, variant, ksel string) {
		for _, m := range rmodes {
			res = append(res, &Group{ID: len(res) + 1, FI: fi, Thorough: thorough, Name: name, Op: "Read", Mode: m,
				Variant: variant, KSel: ksel})
		}
	}
	for fi, o := range fonts.Corpus(thorough) {
		ops := []string{"Write", "Read"}
		if o.Kind == "ttf" {
			ops = append(ops, "WriteTrueTypePDF")
		} else {
			ops = append(ops, "WriteOpenTypeCFFPDF", "cffWrite")
		}
		for _, op := range ops {
			modes := wmodes
			if isRead(op) {
				modes = []string{"trunc", "strunc", "failat", "sfail"}
			}
			for _, m := range modes {
				name := o.String()
				if extraTable(fi, o) {
					name += "+zzzz"
				}
				g := &Group{ID: len(res) + 1, FI: fi, Thorough: thorough, Name: name, Op: op, Mode: m, KSel: "all"}
				if !isRead(op) && o.N >= 300 && (m == "eager" || m == "once" || m == "eonce") {
					g.KSel = "calls" // big fonts: the new modes around every call boundary only
				}
				res = append(res, g)
			}
		}
		// the same tables with every table in turn physically last, and with an unknown last table
		name := o.String()
		base := intact(makeFont(fi, thorough), "Write")
		ksel := "win"
		if thorough && fi < 4 {
			ksel = "all"
		}
		for _, t := range sfntwalk.Walk(base).Tables(base) {
			addRead(fi, name, "last:"+t.Tag, ksel)
			if len(t.Data) > 0 {
				addRead(fi, name, "elast:"+t.Tag+":1", "win")
				if t.Tag == "prep" || t.Tag == "gasp" || t.Tag == "glyf" || t.Tag == "CFF " {
					addRead(fi, name, "elast:"+t.Tag+":0", "win")
				}
			}
		}
		for r := 0; r < 4; r++ {
			addRead(fi, name, fmt.Sprintf("unk:%d", r), ksel)
		}
		// every public stand-alone reader on the stream its own writer produced
		f := makeFont(fi, thorough)
		tabs := saTables(f)
		for _, r := range saReaders {
			if len(r.stream(f, tabs)) == 0 {
				continue
			}
			modes := []string{"trunc"}
			if r.viaReader {
				modes = append(modes, "failat")
			}
			for _, m := range modes {
				res = append(res, &Group{ID: len(res) + 1, FI: fi, Thorough: thorough, Name: name, Op: "sa:" + r.name, Mode: m, KSel: "all"})
			}
		}
	}
	// fonts not written by this library: the physically last table is "prep", copied undecoded
	gof := []string{"regular", "mono"}
	if thorough {
		gof = []string{"regular", "mono", "bold", "italic"}
	}
	for i, name := range gof {
		ksel := "win"
		if thorough && i == 0 {
			ksel = "all"
		}
		addRead(-1, "go"+name, "go:"+name, ksel)
	}
	return res
}

// measure fills Total and DataEnd from a fault-free run (twice: the output must be reproducible).
func measure(g *Group) []byte {
	var a []byte
	if isStandalone(g.Op) {
		f := makeFont(g.FI, g.Thorough)
		r := saByName(g.Op)
		tabs := saTables(f)
		a = r.stream(f, tabs)
		g.Total = len(a)
		g.DataEnd, g.Opt = demanded(g.Op, a)
		if g.Op == "sa:glyf.Decode(loca cut)" {
			size := 2
			if locaFormat(tabs) != 0 {
				size = 4
			}
			for k := size; k < len(a); k += size {
				g.Opt = append(g.Opt, k)
			}
		}
		var evs []ev
		gg := *g
		gg.Mode = "trunc"
		runStandalone(r, a, tabs, &gg, len(a), &evs)
		if evs[0]["err"].(bool) || evs[0]["panic"].(bool) {
			vio.Fatal(fmt.Errorf("%s cannot read the intact stream of %s: %v", g.Op, g.Name, evs[0]["msg"]))
		}
		return a
	}
	if isRead(g.Op) {
		a = buildFile(g)
	} else {
		a = intact(makeFont(g.FI, g.Thorough), g.Op)
		b := intact(makeFont(g.FI, g.Thorough), g.Op)
		if len(a) != len(b) {
			vio.Fatal(fmt.Errorf("%s of %s is not reproducible: %d vs %d bytes", g.Op, g.Name, len(a), len(b)))
		}
	}
	g.Total = len(a)
	if isRead(g.Op) {
		d := sfntwalk.Walk(a)
		if !d.OK {
			vio.Fatal("walker cannot read the directory of " + g.Name)
		}
		g.DataEnd = d.DataEnd()
		if _, err := sfnt.Read(bytes.NewReader(a)); err != nil {
			vio.Fatal(fmt.Errorf("corpus font %s (%s) cannot be read back: %v", g.Name, g.Variant, err))
		}
	}
	return a
}

const blockSize = 256

type block struct {
	g     *Group
	tabs  map[string][]byte // stand-alone readers: the intact tables
	file  []byte
	ks    []int
	out   []byte
	lines int
}

func runBlock(b *block, f *sfnt.Font) {
	var evs []ev
	for _, k := range b.ks {
		if isStandalone(b.g.Op) {
			runStandalone(saByName(b.g.Op), b.file, b.tabs, b.g, k, &evs)
			continue
		}
		for _, det := range []bool{false, true} {
			if det && !detailed(b.g, k) {
				continue
			}
			if isRead(b.g.Op) {
				runRead(b.file, b.g, k, det, &evs)
			} else {
				runWrite(f, b.g, k, det, &evs)
			}
		}
	}
	var buf bytes.Buffer
	for _, e := range evs {
		j, err := json.Marshal(e)
		if err != nil {
			vio.Fatal(err)
		}
		buf.Write(j)
		buf.WriteByte('\n')
	}
	b.out, b.lines = buf.Bytes(), len(evs)
}

var tabsByFont = map[int]map[string][]byte{}

// tabCache returns the intact tables for stand-alone groups (nil otherwise).
func tabCache(g *Group) map[string][]byte {
	if !isStandalone(g.Op) {
		return nil
	}
	if t, ok := tabsByFont[g.FI]; ok {
		return t
	}
	t := saTables(makeFont(g.FI, g.Thorough))
	tabsByFont[g.FI] = t
	return t
}

// demanded returns the extent of a stream inside which a cut must be rejected, and the positions
// inside it at which the format nevertheless allows the stream to end (spec/IOFault.tla, opt).
func demanded(op string, data []byte) (int, []int) {
	if strings.HasPrefix(op, "sa:os2.Read") {
		// OS/2: 68 bytes are the core every version starts with; the reader documents that it takes a
		// table ending there whatever version it declares (short Apple tables).  Versions 0 and 1 are
		// decoded up to byte 78 only (the version 1 code page field is not decoded; what follows byte 78
		// of such a stream is not looked at); a stream that declares version 2..5 is complete only at
		// 96 bytes (the additional version 5 fields are not decoded).
		version := int(data[0])<<8 | int(data[1])
		end := 96
		if version < 2 {
			end = 78
		}
		if end > len(data) {
			end = len(data)
		}
		return end, []int{68}
	}
	switch op {
	case "sa:glyf.Decode(loca cut)":
		// a loca table has no length field of its own: after every whole entry it is a complete table
		// of a font with fewer glyphs (glyf.Decode is not told the glyph count); a cut inside an entry
		// is not.  An entry has 2 bytes (short format, head.indexToLocFormat = 0) or 4.
		return len(data), nil // the optional ends are filled in by locaEnds (needs the head table)
	case "sa:header.Read+ReadTableBytes":
		return sfntwalk.Walk(data).DataEnd(), nil
	}
	return len(data), nil
}

func all(dir string) {
	thorough := vio.Thorough()
	gs := groups(thorough)
	var blocks []*block
	for _, g := range gs {
		file := measure(g)
		ks := faultPoints(g, file)
		for lo := 0; lo < len(ks); lo += blockSize {
			hi := lo + blockSize
			if hi > len(ks) {
				hi = len(ks)
			}
			blocks = append(blocks, &block{g: g, file: file, tabs: tabCache(g), ks: ks[lo:hi]})
		}
	}
	// workers: each builds its own font values (nothing is shared between goroutines)
	nw := runtime.NumCPU()
	if nw > 16 {
		nw = 16
	}
	var wg sync.WaitGroup
	next := make(chan *block, len(blocks))
	for _, b := range blocks {
		next <- b
	}
	close(next)
	for w := 0; w < nw; w++ {
		wg.Add(1)
		go func() {
			defer wg.Done()
			cache := map[int]*sfnt.Font{}
			for b := range next {
				f := cache[b.g.FI]
				if f == nil && !isRead(b.g.Op) {
					f = makeFont(b.g.FI, b.g.Thorough)
					cache[b.g.FI] = f
				}
				runBlock(b, f)
			}
		}()
	}
	wg.Wait()
	// pack the blocks into trace files of bounded size; every file starts with the reset of its group
	const maxLines = 60000
	part, lines, runs := 0, 0, 0
	var cur *os.File
	var curG *Group
	open := func() {
		if cur != nil {
			cur.Close()
		}
		part++
		var err error
		cur, err = os.Create(filepath.Join(dir, fmt.Sprintf("part-%03d.ndjson", part)))
		if err != nil {
			vio.Fatal(err)
		}
		lines, curG = 0, nil
	}
	open()
	for _, b := range blocks {
		if lines+b.lines > maxLines {
			open()
		}
		if curG != b.g {
			j, _ := json.Marshal(resetEvent(b.g))
			cur.Write(append(j, '\n'))
			lines++
			curG = b.g
		}
		cur.Write(b.out)
		lines += b.lines
		runs += len(b.ks)
	}
	cur.Close()
	gj := vio.NewOut(filepath.Join(dir, "groups.ndjson"))
	for _, g := range gs {
		gj.Emit(g)
	}
	gj.Close()
	fmt.Printf("{\"groups\":%d,\"parts\":%d,\"runs\":%d}\n", len(gs), part, runs)
}

func one(casePath, outPath string) {
	b, err := os.ReadFile(casePath)
	if err != nil {
		vio.Fatal(err)
	}
	var c Case
	if err := json.Unmarshal(b, &c); err != nil {
		vio.Fatal(err)
	}
	g := c.Group
	file := measure(&g)
	var f *sfnt.Font
	if !isRead(g.Op) {
		f = makeFont(g.FI, g.Thorough)
	}
	var evs []ev
	evs = append(evs, resetEvent(&g))
	if isStandalone(g.Op) {
		runStandalone(saByName(g.Op), file, tabCache(&g), &g, c.K, &evs)
	}
	for _, det := range []bool{false, true} {
		if isStandalone(g.Op) || det && isRead(g.Op) && (g.Mode == "strunc" || g.Mode == "sfail") {
			continue
		}
		if isRead(g.Op) {
			runRead(file, &g, c.K, det, &evs)
		} else {
			runWrite(f, &g, c.K, det, &evs)
		}
	}
	out := vio.NewOut(outPath)
	for _, e := range evs {
		out.Emit(e)
	}
	out.Close()
}

func main() {
	if len(os.Args) < 3 {
		vio.Fatal("usage: c18 all <dir> | one <case.json> <out.ndjson>")
	}
	switch os.Args[1] {
	case "all":
		all(os.Args[2])
	case "one":
		one(os.Args[2], os.Args[3])
	default:
		vio.Fatal("unknown mode " + os.Args[1])
	}
}
