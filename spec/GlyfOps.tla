------------------------------ MODULE GlyfOps ------------------------------
(***************************************************************************)
(* C11.  The "glyf" and "loca" tables as functions, written from the       *)
(* OpenType specification (chapters "glyf - Glyph Data" and "loca - Index  *)
(* to Location"), not from the Go code.  Pure operators, no state: they    *)
(* are used by Glyf.tla (model checking, generation of encoded glyph sets  *)
(* with their decoded meaning) and by GlyfTrace.tla (judging recorded      *)
(* executions of package seehuhn.de/go/sfnt/glyf).                         *)
(*                                                                         *)
(* Bytes are integers 0..255, tables are sequences of bytes, positions     *)
(* inside a table are 0-based byte offsets (p), TLA+ indices are p+1.      *)
(***************************************************************************)
EXTENDS Integers, Sequences, SequencesExt

Bit(f, m)   == (f \div m) % 2 = 1            \* m is the mask (a power of two)
IsInt16(v)  == v >= -32768 /\ v <= 32767
U16(x)      == <<(x \div 256) % 256, x % 256>>
I16(x)      == U16(IF x < 0 THEN x + 65536 ELSE x)
U32(x)      == <<(x \div 16777216) % 256, (x \div 65536) % 256, (x \div 256) % 256, x % 256>>
RdU16(b, p) == b[p + 1] * 256 + b[p + 2]
RdI16(b, p) == LET u == RdU16(b, p) IN IF u >= 32768 THEN u - 65536 ELSE u
\* a big-endian 32-bit word, byte by byte: b0 * 2^24 + b1 * 2^16 + b2 * 2^8 + b3   (b0 < 128 here)
RdU32(b, p) == b[p + 1] * 16777216 + b[p + 2] * 65536 + b[p + 3] * 256 + b[p + 4]
Concat(ss)  == FoldLeft(LAMBDA a, s : a \o s, <<>>, ss)
Zeros(n)    == [i \in 1..n |-> 0]
PadTo(r, m) == r \o Zeros((m - (Len(r) % m)) % m)

---------------------------------------------------------------------------
(* loca.  n+1 offsets for n glyphs; glyph i occupies glyf[off[i], off[i+1]).*)
(* Short version (indexToLocFormat = 0): Offset16 entries holding the      *)
(* offset divided by 2.  Long version (1): Offset32 entries.               *)

ShortMax == 65535

\* the layout function: record sizes -> offsets
LocaOffsets(sizes) == FoldLeft(LAMBDA acc, s : Append(acc, acc[Len(acc)] + s), <<0>>, sizes)

\* the short version can represent a vector of offsets iff all are even and offset/2 fits 16 bits
CanShort(offs) == \A i \in 1..Len(offs) : offs[i] % 2 = 0 /\ offs[i] \div 2 <= ShortMax
FormatValid(fmt, offs) == fmt = 1 \/ (fmt = 0 /\ CanShort(offs))

\* what a writer that stores 16 (32) bits per entry puts into the table
LocaBytes(fmt, offs) ==
  IF fmt = 0
    THEN [j \in 1..(2 * Len(offs)) |->
            LET e == offs[(j + 1) \div 2] \div 2 IN IF j % 2 = 1 THEN (e \div 256) % 256 ELSE e % 256]
    ELSE [j \in 1..(4 * Len(offs)) |-> U32(offs[(j + 3) \div 4])[((j - 1) % 4) + 1]]

BadLoca == [ok |-> FALSE, offs |-> <<>>]
ParseLoca(fmt, loca) ==
  IF fmt \notin {0, 1} THEN BadLoca
  ELSE LET w == IF fmt = 0 THEN 2 ELSE 4
           n == Len(loca) \div w
       IN IF Len(loca) % w # 0 \/ n < 2 THEN BadLoca       \* numGlyphs + 1 entries, numGlyphs >= 1
          ELSE IF fmt = 0
            THEN [ok |-> TRUE, offs |-> [i \in 1..n |-> 2 * RdU16(loca, 2 * (i - 1))]]
            ELSE IF \E i \in 1..n : loca[4 * (i - 1) + 1] >= 128 THEN BadLoca   \* beyond TLC integers
            ELSE [ok |-> TRUE, offs |-> [i \in 1..n |-> RdU32(loca, 4 * (i - 1))]]

Monotone(offs)     == \A i \in 1..(Len(offs) - 1) : offs[i] <= offs[i + 1]
AllEven(offs)      == \A i \in 1..Len(offs) : offs[i] % 2 = 0
Inside(offs, glen) == \A i \in 1..Len(offs) : offs[i] >= 0 /\ offs[i] <= glen
OffsetsOK(offs, glen) == Monotone(offs) /\ AllEven(offs) /\ Inside(offs, glen)

---------------------------------------------------------------------------
(* Simple glyph description (after the 10-byte glyph header):              *)
(*   uint16 endPtsOfContours[numberOfContours]                             *)
(*   uint16 instructionLength; uint8 instructions[instructionLength]       *)
(*   uint8  flags[variable]; xCoordinates[variable]; yCoordinates[variable]*)
(* Flag bits: 0x01 ON_CURVE_POINT, 0x02 X_SHORT_VECTOR, 0x04 Y_SHORT_VECTOR,*)
(* 0x08 REPEAT_FLAG (next byte = number of ADDITIONAL times the flag is    *)
(* repeated), 0x10 X_IS_SAME_OR_POSITIVE_X_SHORT_VECTOR, 0x20 the same for *)
(* y, 0x40 OVERLAP_SIMPLE, 0x80 reserved.                                  *)

BadFlags == [ok |-> FALSE, flags |-> <<>>, next |-> 0]
RECURSIVE ExpandFlags(_, _, _, _)
\* b: bytes, p: offset of the next flag byte, need: logical flags still missing, acc: flags so far
ExpandFlags(b, p, need, acc) ==
  IF need = 0 THEN [ok |-> TRUE, flags |-> acc, next |-> p]
  ELSE IF p >= Len(b) THEN BadFlags
  ELSE LET f == b[p + 1] IN
       IF Bit(f, 8)
         THEN IF p + 1 >= Len(b) THEN BadFlags
              ELSE LET c == b[p + 2] + 1 IN
                   IF c > need THEN BadFlags             \* a run beyond the last point
                   ELSE ExpandFlags(b, p + 2, need - c, acc \o [i \in 1..c |-> f])
         ELSE ExpandFlags(b, p + 1, need - 1, Append(acc, f))

\* coordinates of one axis.  sb = *_SHORT_VECTOR mask, mb = *_IS_SAME_OR_POSITIVE_* mask.
\*   short vector:  one byte magnitude, sign positive iff mb is set
\*   not short, mb set:   the coordinate is the same as the previous one (no bytes)
\*   not short, mb clear: signed 16-bit delta
\* Coordinates are relative to the previous point; the first one is relative to (0,0).
\* (the values are collected in chunks of 256 so that glyphs with 65536 points stay cheap for TLC)
DecodeCoords(b, start, flags, sb, mb) ==
  LET Push(a, v, nx) ==
        IF Len(a.chunk) >= 255
          THEN [ok |-> IsInt16(v), next |-> nx, cur |-> v, chunk |-> <<>>, done |-> a.done \o Append(a.chunk, v)]
          ELSE [ok |-> IsInt16(v), next |-> nx, cur |-> v, chunk |-> Append(a.chunk, v), done |-> a.done]
      r == FoldLeft(LAMBDA a, f :
             IF ~a.ok THEN a
             ELSE IF Bit(f, sb)
               THEN IF a.next >= Len(b) THEN [a EXCEPT !.ok = FALSE]
                    ELSE LET d == b[a.next + 1]
                         IN Push(a, IF Bit(f, mb) THEN a.cur + d ELSE a.cur - d, a.next + 1)
               ELSE IF Bit(f, mb) THEN Push(a, a.cur, a.next)
               ELSE IF a.next + 1 >= Len(b) THEN [a EXCEPT !.ok = FALSE]
                    ELSE Push(a, a.cur + RdI16(b, a.next), a.next + 2),
             [ok |-> TRUE, next |-> start, cur |-> 0, chunk |-> <<>>, done |-> <<>>], flags)
  IN [ok |-> r.ok, next |-> r.next, cur |-> r.cur, vals |-> r.done \o r.chunk]

\* points of contour c are points endPts[c-1]+1 .. endPts[c] (0-based point numbers)
Contours(ends, pts) ==
  [c \in 1..Len(ends) |-> SubSeq(pts, IF c = 1 THEN 1 ELSE ends[c - 1] + 2, ends[c] + 1)]

BadSimple == [ok |-> FALSE, used |-> 0, ends |-> <<>>, instr |-> <<>>, pts |-> <<>>]
\* nc = numberOfContours >= 0, b = the bytes after the glyph header (possibly with padding).
\* used = length of the description proper; b[used+1..] is padding.
\* A point is <<x, y, on>> with on in {0,1}.
DecodeSimple(nc, b) ==
  IF nc = 0 /\ Len(b) < 2
    THEN \* "If a glyph has zero contours, no additional glyph data beyond the header is required."
         [ok |-> TRUE, used |-> 0, ends |-> <<>>, instr |-> <<>>, pts |-> <<>>]
  ELSE IF Len(b) < 2 * nc + 2 THEN BadSimple
  ELSE LET ends == [i \in 1..nc |-> RdU16(b, 2 * (i - 1))]
           np   == IF nc = 0 THEN 0 ELSE ends[nc] + 1
           il   == RdU16(b, 2 * nc)
           p1   == 2 * nc + 2 + il
       IN IF p1 > Len(b) \/ (\E i \in 1..(nc - 1) : ends[i] >= ends[i + 1]) THEN BadSimple
          ELSE LET fl == ExpandFlags(b, p1, np, <<>>) IN
               IF ~fl.ok THEN BadSimple
               ELSE LET xs == DecodeCoords(b, fl.next, fl.flags, 2, 16) IN
                    IF ~xs.ok THEN BadSimple
                    ELSE LET ys == DecodeCoords(b, xs.next, fl.flags, 4, 32) IN
                         IF ~ys.ok THEN BadSimple
                         ELSE [ok |-> TRUE, used |-> ys.next, ends |-> ends,
                               instr |-> SubSeq(b, 2 * nc + 3, p1),
                               pts |-> [i \in 1..np |-> <<xs.vals[i], ys.vals[i],
                                                          IF Bit(fl.flags[i], 1) THEN 1 ELSE 0>>]]

---------------------------------------------------------------------------
(* Composite glyph description: component records                          *)
(*   uint16 flags; uint16 glyphIndex; argument1, argument2 (two int8/uint8 *)
(*   or, with ARG_1_AND_2_ARE_WORDS 0x0001, two 16-bit values); then       *)
(*   WE_HAVE_A_SCALE 0x0008: one F2DOT14; WE_HAVE_AN_X_AND_Y_SCALE 0x0040: *)
(*   two; WE_HAVE_A_TWO_BY_TWO 0x0080: four.  MORE_COMPONENTS 0x0020 chains*)
(*   records.  WE_HAVE_INSTRUCTIONS 0x0100: after the last component a     *)
(*   uint16 count and that many instruction bytes follow.                  *)

ArgLen(f) == IF Bit(f, 1) THEN 4 ELSE 2
TrLen(f)  == IF Bit(f, 8) THEN 2 ELSE IF Bit(f, 64) THEN 4 ELSE IF Bit(f, 128) THEN 8 ELSE 0

BadComps == [ok |-> FALSE, comps |-> <<>>, next |-> 0, last |-> 0]
RECURSIVE ParseComps(_, _, _)
ParseComps(b, p, acc) ==
  IF p + 4 > Len(b) THEN BadComps
  ELSE LET f == RdU16(b, p)
           g == RdU16(b, p + 2)
           n == ArgLen(f) + TrLen(f)
       IN IF p + 4 + n > Len(b) THEN BadComps
          ELSE LET acc2 == Append(acc, [flags |-> f, gid |-> g, data |-> SubSeq(b, p + 5, p + 4 + n)])
               IN IF Bit(f, 32) THEN ParseComps(b, p + 4 + n, acc2)
                  ELSE [ok |-> TRUE, comps |-> acc2, next |-> p + 4 + n, last |-> f]

(* Which record's WE_HAVE_INSTRUCTIONS bit counts?  The pseudo-code of the specification tests  *)
(* the flags of the LAST record; the bit's description ("following the last component are        *)
(* instructions") does not say where the bit is to be found, and readers exist that accept it on *)
(* ANY record.  Both readings are admitted when they differ (two-readings rule): the primary     *)
(* result follows the last record, (althas, altinstr) is the other reading, present when an      *)
(* earlier record carries the bit, the last does not, and a well-formed instruction block        *)
(* follows the last component.                                                                   *)
BadComposite == [ok |-> FALSE, used |-> 0, comps |-> <<>>, hasinstr |-> FALSE, instr |-> <<>>,
                 althas |-> FALSE, altinstr |-> <<>>]
DecodeComposite(b) ==
  LET c == ParseComps(b, 0, <<>>) IN
  IF ~c.ok THEN BadComposite
  ELSE IF Bit(c.last, 256)
    THEN IF c.next + 2 > Len(b) THEN BadComposite
         ELSE LET n == RdU16(b, c.next) IN
              IF c.next + 2 + n > Len(b) THEN BadComposite
              ELSE [ok |-> TRUE, used |-> c.next + 2 + n, comps |-> c.comps, hasinstr |-> TRUE,
                    instr |-> SubSeq(b, c.next + 3, c.next + 2 + n), althas |-> FALSE, altinstr |-> <<>>]
    ELSE LET early == \E j \in 1..Len(c.comps) : Bit(c.comps[j].flags, 256)
             n     == IF c.next + 2 <= Len(b) THEN RdU16(b, c.next) ELSE 0
             alt   == early /\ c.next + 2 <= Len(b) /\ c.next + 2 + n <= Len(b)
         IN [ok |-> TRUE, used |-> c.next, comps |-> c.comps, hasinstr |-> FALSE, instr |-> <<>>,
             althas |-> alt, altinstr |-> IF alt THEN SubSeq(b, c.next + 3, c.next + 2 + n) ELSE <<>>]

---------------------------------------------------------------------------
(* A glyph record = the bytes between two loca offsets.  Empty record =    *)
(* glyph without outline.  Otherwise: int16 numberOfContours (>= 0 simple, *)
(* < 0 composite), int16 xMin, yMin, xMax, yMax, description, padding.     *)
(*                                                                         *)
(* The decoded value has the fields of the in-memory glyph of the library  *)
(* (k, nc, bbox, body, comps, instr, hasinstr) plus the decoder's view     *)
(* (ok, full = all bytes after the header, used, ends, pts, sinstr).       *)

NilGlyph == [k |-> "nil", nc |-> 0, bbox |-> <<0, 0, 0, 0>>, body |-> <<>>, comps |-> <<>>,
             instr |-> <<>>, hasinstr |-> FALSE]
Value(d) == [k |-> d.k, nc |-> d.nc, bbox |-> d.bbox, body |-> d.body, comps |-> d.comps,
             instr |-> d.instr, hasinstr |-> d.hasinstr]

DecodeGlyph(r) ==
  LET base == [ok |-> TRUE, k |-> "nil", nc |-> 0, bbox |-> <<0, 0, 0, 0>>, body |-> <<>>, comps |-> <<>>,
               instr |-> <<>>, hasinstr |-> FALSE, full |-> <<>>, used |-> 0, ends |-> <<>>,
               pts |-> <<>>, sinstr |-> <<>>, althas |-> FALSE, altinstr |-> <<>>]
  IN IF Len(r) = 0 THEN base
     ELSE IF Len(r) < 10 THEN [base EXCEPT !.ok = FALSE]
     ELSE LET nc   == RdI16(r, 0)
              bbox == <<RdI16(r, 2), RdI16(r, 4), RdI16(r, 6), RdI16(r, 8)>>
              b    == SubSeq(r, 11, Len(r))
          IN IF nc >= 0
               THEN LET s == DecodeSimple(nc, b) IN
                    [base EXCEPT !.ok = s.ok, !.k = "s", !.nc = nc, !.bbox = bbox,
                                 !.body = SubSeq(b, 1, s.used), !.full = b, !.used = s.used,
                                 !.ends = s.ends, !.pts = s.pts, !.sinstr = s.instr]
               ELSE LET c == DecodeComposite(b) IN
                    [base EXCEPT !.ok = c.ok, !.k = "c", !.nc = -1, !.bbox = bbox, !.full = b,
                                 !.used = c.used, !.comps = c.comps, !.instr = c.instr,
                                 !.hasinstr = c.hasinstr, !.althas = c.althas, !.altinstr = c.altinstr]

\* An in-memory glyph g (fields of Value) is a faithful image of the decoded record d.  The
\* library may keep padding bytes in the body of a simple glyph (the property does not forbid it),
\* so the body must lie between the description proper and all bytes of the record.
Represents(g, d) ==
  /\ g.k = d.k
  /\ d.k # "nil" => g.bbox = d.bbox
  /\ d.k = "s" => /\ g.nc = d.nc
                  /\ Len(g.body) >= d.used /\ Len(g.body) <= Len(d.full)
                  /\ g.body = SubSeq(d.full, 1, Len(g.body))
  /\ d.k = "c" => /\ g.comps = d.comps
                  /\ \/ g.instr = d.instr /\ (d.hasinstr => g.hasinstr)
                     \/ d.althas /\ g.hasinstr /\ g.instr = d.altinstr

\* The one ambiguity of the format: a zero-contour glyph consisting of the header only, followed
\* by two zero bytes of padding, reads as a zero-contour glyph with instructionLength = 0.  Both
\* have the same meaning (no contours, no instructions); equality of glyph sets is taken modulo it.
Canon(g) == IF g.k = "s" /\ g.nc = 0 /\ Len(g.body) < 2 THEN [g EXCEPT !.body = <<0, 0>>] ELSE g
CanonSet(s) == [i \in 1..Len(s) |-> Canon(s[i])]

\* all glyph records of an encoded pair of tables
BadSet == [ok |-> FALSE, offs |-> <<>>, d |-> <<>>]
DecodeSet(fmt, loca, glyf) ==
  LET p == ParseLoca(fmt, loca) IN
  IF ~p.ok THEN BadSet
  ELSE IF ~(Monotone(p.offs) /\ Inside(p.offs, Len(glyf))) THEN BadSet
  ELSE LET d == [i \in 1..(Len(p.offs) - 1) |-> DecodeGlyph(SubSeq(glyf, p.offs[i] + 1, p.offs[i + 1]))]
       IN [ok |-> \A i \in 1..Len(d) : d[i].ok, offs |-> p.offs, d |-> d]

---------------------------------------------------------------------------
(* Encoding of in-memory glyph values (a writer has no choice here except  *)
(* the amount of padding and the loca version).                            *)
Header(nc, bbox) == I16(nc) \o I16(bbox[1]) \o I16(bbox[2]) \o I16(bbox[3]) \o I16(bbox[4])
CompBytes(comps) ==
  Concat([i \in 1..Len(comps) |-> U16(comps[i].flags) \o U16(comps[i].gid) \o comps[i].data])
EncodeValue(g) ==
  IF g.k = "nil" THEN <<>>
  ELSE IF g.k = "s" THEN Header(g.nc, g.bbox) \o g.body
  ELSE Header(-1, g.bbox) \o CompBytes(g.comps)
         \o (IF g.hasinstr THEN U16(Len(g.instr)) \o g.instr ELSE <<>>)

\* the same with another negative numberOfContours in the header of a composite glyph
\* ("if negative, this is a composite glyph -- the value -1 should be used")
EncodeValueH(g, hnc) ==
  IF g.k = "c" THEN LET e == EncodeValue(g) IN I16(hnc) \o SubSeq(e, 3, Len(e)) ELSE EncodeValue(g)

\* component list and its rewriting
ComponentIds(g) == [j \in 1..Len(g.comps) |-> g.comps[j].gid]
MapId(m, id) ==     \* m: sequence of <<old, new>> pairs; the first matching pair counts
  LET hit == {j \in 1..Len(m) : m[j][1] = id} IN
  IF hit = {} THEN -1 ELSE m[CHOOSE j \in hit : \A h \in hit : j <= h][2]
FixValue(g, m) ==
  IF g.k # "c" THEN g
  ELSE [g EXCEPT !.comps = [j \in 1..Len(g.comps) |-> [g.comps[j] EXCEPT !.gid = MapId(m, g.comps[j].gid)]]]
=============================================================================
