\* thorough: wider windows, the 256-byte mark, one more private DICT size
CONSTANTS
  Thr = {108, 256, 1132, 32768, 65536}
  JBack = 6
  J3Back = 16
  Far = {400, 5000}
  PdBases = {9, 104, 105}
  PdRest = {104}
  FdBases = {0, 79}
  MaxFD = 3
  MaxIter = 6
INIT Init
NEXT Next
INVARIANT Terminates
INVARIANT Consistent
INVARIANT HeaderFits
PROPERTY Monotone
CHECK_DEADLOCK FALSE
