CONSTANTS
  Sizes = {10, 100, 30000, 40000, 65000, 66000}
  MaxLookups = 3
  MaxSubs = 2
  MfsChoices = {FALSE}
  ScriptSizes = {20}
  FeatSizes = {14}
  EmitCases = TRUE
  Types = {0}
  ExtType = 7
  Recognised = {0}
  Fix28 = FALSE
INIT Init
NEXT Next
INVARIANT CodeInvChunks
INVARIANT CodeInvTotal
INVARIANT CodeInvLookupOffsets
INVARIANT CodeInvExt
INVARIANT CodeInvRetyped
INVARIANT CodeInvOtherSubOffsets
INVARIANT CodeInvNoPanic
INVARIANT DemandNoNeedlessRefusal
INVARIANT Emit
CHECK_DEADLOCK FALSE
