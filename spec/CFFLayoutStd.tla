--------------------------- MODULE CFFLayoutStd ---------------------------
(***************************************************************************)
(* Data appendices of Adobe Technical Note #5176 (The Compact Font Format   *)
(* Specification): A standard strings, B predefined encodings, C predefined *)
(* charsets.  Generated once by a transcription script; plain data.         *)
(* StdStr[sid+1] is the string with SID sid (0..390); StdEnc[c+1] and       *)
(* ExpEnc[c+1] are the SIDs at code c (0 = .notdef) of the Standard and     *)
(* Expert encodings; the charsets list the SID of glyph i at index i+1.     *)
(***************************************************************************)
EXTENDS Integers
NStd == 391
StdStr == <<
  ".notdef", "space", "exclam", "quotedbl", "numbersign", "dollar", "percent", "ampersand",
  "quoteright", "parenleft", "parenright", "asterisk", "plus", "comma", "hyphen", "period",
  "slash", "zero", "one", "two", "three", "four", "five", "six", "seven", "eight", "nine", "colon",
  "semicolon", "less", "equal", "greater", "question", "at", "A", "B", "C", "D", "E", "F", "G",
  "H", "I", "J", "K", "L", "M", "N", "O", "P", "Q", "R", "S", "T", "U", "V", "W", "X", "Y", "Z",
  "bracketleft", "backslash", "bracketright", "asciicircum", "underscore", "quoteleft", "a", "b",
  "c", "d", "e", "f", "g", "h", "i", "j", "k", "l", "m", "n", "o", "p", "q", "r", "s", "t", "u",
  "v", "w", "x", "y", "z", "braceleft", "bar", "braceright", "asciitilde", "exclamdown", "cent",
  "sterling", "fraction", "yen", "florin", "section", "currency", "quotesingle", "quotedblleft",
  "guillemotleft", "guilsinglleft", "guilsinglright", "fi", "fl", "endash", "dagger", "daggerdbl",
  "periodcentered", "paragraph", "bullet", "quotesinglbase", "quotedblbase", "quotedblright",
  "guillemotright", "ellipsis", "perthousand", "questiondown", "grave", "acute", "circumflex",
  "tilde", "macron", "breve", "dotaccent", "dieresis", "ring", "cedilla", "hungarumlaut", "ogonek",
  "caron", "emdash", "AE", "ordfeminine", "Lslash", "Oslash", "OE", "ordmasculine", "ae",
  "dotlessi", "lslash", "oslash", "oe", "germandbls", "onesuperior", "logicalnot", "mu",
  "trademark", "Eth", "onehalf", "plusminus", "Thorn", "onequarter", "divide", "brokenbar",
  "degree", "thorn", "threequarters", "twosuperior", "registered", "minus", "eth", "multiply",
  "threesuperior", "copyright", "Aacute", "Acircumflex", "Adieresis", "Agrave", "Aring", "Atilde",
  "Ccedilla", "Eacute", "Ecircumflex", "Edieresis", "Egrave", "Iacute", "Icircumflex", "Idieresis",
  "Igrave", "Ntilde", "Oacute", "Ocircumflex", "Odieresis", "Ograve", "Otilde", "Scaron", "Uacute",
  "Ucircumflex", "Udieresis", "Ugrave", "Yacute", "Ydieresis", "Zcaron", "aacute", "acircumflex",
  "adieresis", "agrave", "aring", "atilde", "ccedilla", "eacute", "ecircumflex", "edieresis",
  "egrave", "iacute", "icircumflex", "idieresis", "igrave", "ntilde", "oacute", "ocircumflex",
  "odieresis", "ograve", "otilde", "scaron", "uacute", "ucircumflex", "udieresis", "ugrave",
  "yacute", "ydieresis", "zcaron", "exclamsmall", "Hungarumlautsmall", "dollaroldstyle",
  "dollarsuperior", "ampersandsmall", "Acutesmall", "parenleftsuperior", "parenrightsuperior",
  "twodotenleader", "onedotenleader", "zerooldstyle", "oneoldstyle", "twooldstyle",
  "threeoldstyle", "fouroldstyle", "fiveoldstyle", "sixoldstyle", "sevenoldstyle", "eightoldstyle",
  "nineoldstyle", "commasuperior", "threequartersemdash", "periodsuperior", "questionsmall",
  "asuperior", "bsuperior", "centsuperior", "dsuperior", "esuperior", "isuperior", "lsuperior",
  "msuperior", "nsuperior", "osuperior", "rsuperior", "ssuperior", "tsuperior", "ff", "ffi", "ffl",
  "parenleftinferior", "parenrightinferior", "Circumflexsmall", "hyphensuperior", "Gravesmall",
  "Asmall", "Bsmall", "Csmall", "Dsmall", "Esmall", "Fsmall", "Gsmall", "Hsmall", "Ismall",
  "Jsmall", "Ksmall", "Lsmall", "Msmall", "Nsmall", "Osmall", "Psmall", "Qsmall", "Rsmall",
  "Ssmall", "Tsmall", "Usmall", "Vsmall", "Wsmall", "Xsmall", "Ysmall", "Zsmall", "colonmonetary",
  "onefitted", "rupiah", "Tildesmall", "exclamdownsmall", "centoldstyle", "Lslashsmall",
  "Scaronsmall", "Zcaronsmall", "Dieresissmall", "Brevesmall", "Caronsmall", "Dotaccentsmall",
  "Macronsmall", "figuredash", "hypheninferior", "Ogoneksmall", "Ringsmall", "Cedillasmall",
  "questiondownsmall", "oneeighth", "threeeighths", "fiveeighths", "seveneighths", "onethird",
  "twothirds", "zerosuperior", "foursuperior", "fivesuperior", "sixsuperior", "sevensuperior",
  "eightsuperior", "ninesuperior", "zeroinferior", "oneinferior", "twoinferior", "threeinferior",
  "fourinferior", "fiveinferior", "sixinferior", "seveninferior", "eightinferior", "nineinferior",
  "centinferior", "dollarinferior", "periodinferior", "commainferior", "Agravesmall",
  "Aacutesmall", "Acircumflexsmall", "Atildesmall", "Adieresissmall", "Aringsmall", "AEsmall",
  "Ccedillasmall", "Egravesmall", "Eacutesmall", "Ecircumflexsmall", "Edieresissmall",
  "Igravesmall", "Iacutesmall", "Icircumflexsmall", "Idieresissmall", "Ethsmall", "Ntildesmall",
  "Ogravesmall", "Oacutesmall", "Ocircumflexsmall", "Otildesmall", "Odieresissmall", "OEsmall",
  "Oslashsmall", "Ugravesmall", "Uacutesmall", "Ucircumflexsmall", "Udieresissmall", "Yacutesmall",
  "Thornsmall", "Ydieresissmall", "001.000", "001.001", "001.002", "001.003", "Black", "Bold",
  "Book", "Light", "Medium", "Regular", "Roman", "Semibold"
>>
StdEnc == <<
  0, 0, 0, 0, 0, 0, 0, 0, 0, 0, 0, 0, 0, 0, 0, 0, 0, 0, 0, 0, 0, 0, 0, 0, 0, 0, 0, 0, 0, 0, 0, 0,
  1, 2, 3, 4, 5, 6, 7, 8, 9, 10, 11, 12, 13, 14, 15, 16, 17, 18, 19, 20, 21, 22, 23, 24, 25, 26,
  27, 28, 29, 30, 31, 32, 33, 34, 35, 36, 37, 38, 39, 40, 41, 42, 43, 44, 45, 46, 47, 48, 49, 50,
  51, 52, 53, 54, 55, 56, 57, 58, 59, 60, 61, 62, 63, 64, 65, 66, 67, 68, 69, 70, 71, 72, 73, 74,
  75, 76, 77, 78, 79, 80, 81, 82, 83, 84, 85, 86, 87, 88, 89, 90, 91, 92, 93, 94, 95, 0, 0, 0, 0,
  0, 0, 0, 0, 0, 0, 0, 0, 0, 0, 0, 0, 0, 0, 0, 0, 0, 0, 0, 0, 0, 0, 0, 0, 0, 0, 0, 0, 0, 0, 96, 97,
  98, 99, 100, 101, 102, 103, 104, 105, 106, 107, 108, 109, 110, 0, 111, 112, 113, 114, 0, 115,
  116, 117, 118, 119, 120, 121, 122, 0, 123, 0, 124, 125, 126, 127, 128, 129, 130, 131, 0, 132,
  133, 0, 134, 135, 136, 137, 0, 0, 0, 0, 0, 0, 0, 0, 0, 0, 0, 0, 0, 0, 0, 0, 138, 0, 139, 0, 0, 0,
  0, 140, 141, 142, 143, 0, 0, 0, 0, 0, 144, 0, 0, 0, 145, 0, 0, 146, 147, 148, 149, 0, 0, 0, 0
>>
ExpEnc == <<
  0, 0, 0, 0, 0, 0, 0, 0, 0, 0, 0, 0, 0, 0, 0, 0, 0, 0, 0, 0, 0, 0, 0, 0, 0, 0, 0, 0, 0, 0, 0, 0,
  1, 229, 230, 0, 231, 232, 233, 234, 235, 236, 237, 238, 13, 14, 15, 99, 239, 240, 241, 242, 243,
  244, 245, 246, 247, 248, 27, 28, 249, 250, 251, 252, 0, 253, 254, 255, 256, 257, 0, 0, 0, 258, 0,
  0, 259, 260, 261, 262, 0, 0, 263, 264, 265, 0, 266, 109, 110, 267, 268, 269, 0, 270, 271, 272,
  273, 274, 275, 276, 277, 278, 279, 280, 281, 282, 283, 284, 285, 286, 287, 288, 289, 290, 291,
  292, 293, 294, 295, 296, 297, 298, 299, 300, 301, 302, 303, 0, 0, 0, 0, 0, 0, 0, 0, 0, 0, 0, 0,
  0, 0, 0, 0, 0, 0, 0, 0, 0, 0, 0, 0, 0, 0, 0, 0, 0, 0, 0, 0, 0, 0, 304, 305, 306, 0, 0, 307, 308,
  309, 310, 311, 0, 312, 0, 0, 313, 0, 0, 314, 315, 0, 0, 316, 317, 318, 0, 0, 0, 158, 155, 163,
  319, 320, 321, 322, 323, 324, 325, 0, 0, 326, 150, 164, 169, 327, 328, 329, 330, 331, 332, 333,
  334, 335, 336, 337, 338, 339, 340, 341, 342, 343, 344, 345, 346, 347, 348, 349, 350, 351, 352,
  353, 354, 355, 356, 357, 358, 359, 360, 361, 362, 363, 364, 365, 366, 367, 368, 369, 370, 371,
  372, 373, 374, 375, 376, 377, 378
>>
ExpertCharset == <<
  0, 1, 229, 230, 231, 232, 233, 234, 235, 236, 237, 238, 13, 14, 15, 99, 239, 240, 241, 242, 243,
  244, 245, 246, 247, 248, 27, 28, 249, 250, 251, 252, 253, 254, 255, 256, 257, 258, 259, 260, 261,
  262, 263, 264, 265, 266, 109, 110, 267, 268, 269, 270, 271, 272, 273, 274, 275, 276, 277, 278,
  279, 280, 281, 282, 283, 284, 285, 286, 287, 288, 289, 290, 291, 292, 293, 294, 295, 296, 297,
  298, 299, 300, 301, 302, 303, 304, 305, 306, 307, 308, 309, 310, 311, 312, 313, 314, 315, 316,
  317, 318, 158, 155, 163, 319, 320, 321, 322, 323, 324, 325, 326, 150, 164, 169, 327, 328, 329,
  330, 331, 332, 333, 334, 335, 336, 337, 338, 339, 340, 341, 342, 343, 344, 345, 346, 347, 348,
  349, 350, 351, 352, 353, 354, 355, 356, 357, 358, 359, 360, 361, 362, 363, 364, 365, 366, 367,
  368, 369, 370, 371, 372, 373, 374, 375, 376, 377, 378
>>
ExpertSubsetCharset == <<
  0, 1, 231, 232, 235, 236, 237, 238, 13, 14, 15, 99, 239, 240, 241, 242, 243, 244, 245, 246, 247,
  248, 27, 28, 249, 250, 251, 253, 254, 255, 256, 257, 258, 259, 260, 261, 262, 263, 264, 265, 266,
  109, 110, 267, 268, 269, 270, 272, 300, 301, 302, 305, 314, 315, 158, 155, 163, 320, 321, 322,
  323, 324, 325, 326, 150, 164, 169, 327, 328, 329, 330, 331, 332, 333, 334, 335, 336, 337, 338,
  339, 340, 341, 342, 343, 344, 345, 346
>>

(* Default values of DICT operators: TN5176 Table 9 (Top DICT), Table 10 (CIDFont extensions),   *)
(* Table 23 (Private DICT).  <<operator (12 x numbered 1200 + x), name, default as <<m, e>> = m * 10^e>>. *)
(* Array-valued defaults (FontMatrix, FontBBox) are listed by their distinct element values.   *)
DictDefaults == <<
  <<1201, "isFixedPitch", <<0, 0>> >>, <<1202, "ItalicAngle", <<0, 0>> >>,
  <<1203, "UnderlinePosition", <<-100, 0>> >>, <<1204, "UnderlineThickness", <<50, 0>> >>,
  <<1205, "PaintType", <<0, 0>> >>, <<1206, "CharstringType", <<2, 0>> >>,
  <<1207, "FontMatrix", <<1, -3>> >>, <<1207, "FontMatrix (off-diagonal)", <<0, 0>> >>,
  <<5, "FontBBox", <<0, 0>> >>, <<1208, "StrokeWidth", <<0, 0>> >>,
  <<15, "charset", <<0, 0>> >>, <<16, "Encoding", <<0, 0>> >>,
  <<1231, "CIDFontVersion", <<0, 0>> >>, <<1232, "CIDFontRevision", <<0, 0>> >>,
  <<1233, "CIDFontType", <<0, 0>> >>, <<1234, "CIDCount", <<8720, 0>> >>,
  <<1209, "BlueScale", <<39625, -6>> >>, <<1210, "BlueShift", <<7, 0>> >>, <<1211, "BlueFuzz", <<1, 0>> >>,
  <<1214, "ForceBold", <<0, 0>> >>, <<1217, "LanguageGroup", <<0, 0>> >>,
  <<1218, "ExpansionFactor", <<6, -2>> >>, <<1219, "initialRandomSeed", <<0, 0>> >>,
  <<20, "defaultWidthX", <<0, 0>> >>, <<21, "nominalWidthX", <<0, 0>> >>
>>
=============================================================================
