\* generation (R binding): glyph sets over the palette, every padding and loca version
CONSTANTS
  Kind = "set"
  Salt = 1
  MaxRuns = 0
  MaxComps = 0
  MaxGlyphs = 2
  MaxSteps = 0
  FinishFull = TRUE
  With256 = FALSE
  Targets = {}
  SharedBuf = FALSE
INIT Init
NEXT Next
INVARIANT EncodeDecode
INVARIANT PointsMeaning
INVARIANT LocaInv
INVARIANT Emit
CHECK_DEADLOCK FALSE
