---------------------------- MODULE NameCodecOps ----------------------------
(***************************************************************************)
(* C14.  The codecs and byte layouts behind the "name" and "post" tables   *)
(* and the script/language tag mapping, as constant operators.  Written    *)
(* from the OpenType chapters "name" (naming table: records, string        *)
(* storage, platform/encoding/language ids), "post" (formats 1, 2, 3;      *)
(* Pascal strings; glyphNameIndex), "Layout common table formats"          *)
(* (ScriptList / Script / LangSys), the Unicode standard (UTF-16, D91) and *)
(* the Unicode consortium's Mac OS Roman table (NameCodecData).            *)
(*                                                                         *)
(* Used by NameCodec.tla (the model TLC checks) and by NameCodecTrace.tla  *)
(* (the judge of recorded executions of the Go code).                      *)
(*                                                                         *)
(* Strings are sequences of Unicode code points; encoded forms are         *)
(* sequences of bytes.  No operator here recurses over its argument, so    *)
(* 65535-element sequences are fine.                                       *)
(***************************************************************************)
EXTENDS Integers, Sequences, FiniteSets, SequencesExt, NameCodecData


---------------------------------------------------------------------------
(* UTF-16 (Unicode 15, section 3.9, D91) *)

IsHigh(u)   == u >= 55296 /\ u <= 56319            \* D800..DBFF
IsLow(u)    == u >= 56320 /\ u <= 57343            \* DC00..DFFF
IsSur(u)    == u >= 55296 /\ u <= 57343
IsScalar(c) == c >= 0 /\ c <= 1114111 /\ ~IsSur(c)
ScalarString(s) == \A i \in DOMAIN s : IsScalar(s[i])

EncCP(c) == IF c < 65536 THEN <<c>>
            ELSE <<55296 + ((c - 65536) \div 1024), 56320 + ((c - 65536) % 1024)>>

\* encoder, for short strings (the fold copies its accumulator)
U16Enc(cps) == FoldLeft(LAMBDA acc, c : acc \o EncCP(c), <<>>, cps)

\* number of code units a string needs
Units(cps) == FoldLeft(LAMBDA acc, c : acc + (IF c < 65536 THEN 1 ELSE 2), 0, cps)

\* A low surrogate directly after a high surrogate is the second half of a pair (a high
\* surrogate is never a second half, so the one in front always opens a code point).
Trail(u, i) == i > 1 /\ IsLow(u[i]) /\ IsHigh(u[i - 1])

CPAt(u, i) == IF IsHigh(u[i]) /\ i < Len(u) /\ IsLow(u[i + 1])
                THEN 65536 + (u[i] - 55296) * 1024 + (u[i + 1] - 56320)
                ELSE IF IsSur(u[i]) THEN 65533           \* unpaired: U+FFFD
                ELSE u[i]

\* decoder, total: unpaired surrogates become U+FFFD
U16Dec(u) == LET st == SelectSeq([i \in 1..Len(u) |-> i], LAMBDA i : ~Trail(u, i))
             IN  [k \in 1..Len(st) |-> CPAt(u, st[k])]

\* the domain on which the two invert each other
WellFormed16(u) == \A i \in 1..Len(u) :
                      IsSur(u[i]) => \/ IsHigh(u[i]) /\ i < Len(u) /\ IsLow(u[i + 1])
                                     \/ Trail(u, i)

\* big-endian serialisation of 16-bit units
BE(u)   == [i \in 1..(2 * Len(u)) |-> IF i % 2 = 1 THEN u[(i + 1) \div 2] \div 256
                                                   ELSE u[i \div 2] % 256]
UnBE(b) == [i \in 1..(Len(b) \div 2) |-> b[2 * i - 1] * 256 + b[2 * i]]

---------------------------------------------------------------------------
(* Mac OS Roman: a bijection between the 256 bytes and 256 code points *)

MacDecByte(b) == IF b < 128 THEN b ELSE MacRomanHigh[b - 127]
MacDec(bs)    == [i \in 1..Len(bs) |-> MacDecByte(bs[i])]
MacRepertoire == (0..127) \cup Range(MacRomanHigh)
MacEncCP(c)   == IF c < 128 THEN c ELSE 127 + (CHOOSE i \in 1..128 : MacRomanHigh[i] = c)
MacEnc(cps)   == [i \in 1..Len(cps) |-> MacEncCP(cps[i])]
MacRepresentable(cps) == \A i \in 1..Len(cps) : cps[i] \in MacRepertoire

---------------------------------------------------------------------------
(* "name" table: what the bytes of a record mean.  Platform 1 / encoding 0 is  *)
(* Macintosh Roman, platform 3 / encoding 1 is Windows Unicode BMP, UTF-16BE.  *)

Understood(p, e) == (p = 1 /\ e = 0) \/ (p = 3 /\ e = 1)

Representable(p, cps) == IF p = 1 THEN MacRepresentable(cps) ELSE ScalarString(cps)

\* spec-level encoder of one string (short strings)
Payload(p, cps) == IF p = 1 THEN MacEnc(cps) ELSE BE(U16Enc(cps))

\* spec-level decoder of one record's bytes
DecodeBytes(p, bytes) == IF p = 1 THEN MacDec(bytes) ELSE U16Dec(UnBE(bytes))

\* "these bytes are the encoding of cps": the codecs are injective on their domains, so this
\* is the same as bytes = Payload(p, cps) (checked by TLC, NameCodec.tla CodecLaws) but does
\* not need the quadratic fold.
DecodesTo(p, e, bytes, cps) ==
  IF p = 1 /\ e = 0 THEN MacDec(bytes) = cps
  ELSE IF p = 3 /\ e = 1
    THEN /\ Len(bytes) % 2 = 0
         /\ WellFormed16(UnBE(bytes))
         /\ U16Dec(UnBE(bytes)) = cps
  ELSE FALSE

---------------------------------------------------------------------------
(* "post" table.  std is the list of standard names (258 in reality, a short  *)
(* list in the model).  A format-2 table is (index, strs): glyph i has the    *)
(* standard name index[i] if index[i] < Len(std), else the Pascal string      *)
(* number index[i] - Len(std).                                                *)

PostIndexOK(std, index, strs) ==
  \A i \in 1..Len(index) : index[i] >= 0 /\ index[i] - Len(std) < Len(strs) /\ index[i] <= 65535

PostNames(std, index, strs) ==
  [i \in 1..Len(index) |-> IF index[i] < Len(std) THEN std[index[i] + 1]
                                                  ELSE strs[index[i] - Len(std) + 1]]

\* size of the Pascal-string area
PascalSize(strs) == FoldLeft(LAMBDA acc, s : acc + 1 + Len(s), 0, strs)

\* what a post table of the given version says about glyph names: a list, or "none"
PostMeaning(std, ver, index, strs) ==
  CASE ver = <<1, 0>> -> std
    [] ver = <<2, 0>> -> PostNames(std, index, strs)
    [] ver = <<3, 0>> -> <<>>
    [] OTHER -> <<>>
=============================================================================
