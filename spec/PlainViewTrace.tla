--------------------------- MODULE PlainViewTrace ---------------------------
(***************************************************************************)
(* C17, observable specification.  A recorded execution of the real        *)
(* parser.Parser (one event per exported call, harness/cmd/c17) must be a  *)
(* behaviour of a plain random-access view of the file: one variable, the  *)
(* cursor.  This module states exactly the property and nothing about the  *)
(* window cache (that is ByteView.tla, which TLC checks to refine this).   *)
(*                                                                         *)
(* Many cases are concatenated; a "reset" event starts a new case.         *)
(* Acceptance: the high-water mark of consumed lines (TLCSet register 1)   *)
(* must reach Len(Trace) (POSTCONDITION Accepted, -workers 1).             *)
(***************************************************************************)
EXTENDS Integers, Sequences, TLC, Json, SequencesExt

Trace == ndJsonDeserialize("trace.ndjson")

VARIABLES l,     \* next line of the trace
          file,  \* the bytes of the current case
          cur    \* cursor of the plain view
vars == <<l, file, cur>>

E == Trace[l]
Init == l = 1 /\ file = <<>> /\ cur = 0 /\ TLCSet(1, 0)
Consume == l' = l + 1 /\ TLCSet(1, l)
Is(ev) == l <= Len(Trace) /\ E.ev = ev

Fits(n) == cur + n <= Len(file)
Sum(s) == FoldLeft(LAMBDA a, b : (a * 31 + b) % 65521, 0, s)
BE(s)  == FoldLeft(LAMBDA a, b : a * 256 + b, 0, s)

\* the bytes logged with event E are File[a+1 .. a+n]
DataIs(a, n) ==
  /\ E.len = n
  /\ IF E.full
       THEN E.data = SubSeq(file, a + 1, a + n)
       ELSE /\ n > 16
            /\ E.head = SubSeq(file, a + 1, a + 8)
            /\ E.tail = SubSeq(file, a + n - 7, a + n)
            /\ E.sum = Sum(SubSeq(file, a + 1, a + n))

Reset == /\ Is("reset")
         /\ file' = E.file /\ cur' = 0
         /\ E.pos = 0 /\ E.size = Len(E.file)
         /\ Consume

Seek == /\ Is("seek")
        /\ E.ok /\ cur' = E.p /\ E.pos = E.p
        /\ UNCHANGED file /\ Consume

Discard == /\ Is("discard")
           /\ E.ok /\ cur' = cur + E.n /\ E.pos = cur'
           /\ UNCHANGED file /\ Consume

Size == Is("size") /\ E.v = Len(file) /\ E.pos = cur /\ UNCHANGED <<file, cur>> /\ Consume

\* ReadBytes(n), n <= 1024.  A read fails iff it would pass the end of the input; it then
\* yields the unexpected-EOF class, no data and an unchanged position.  A zero-length read
\* cannot pass the end (the code lets it succeed also beyond EOF; the property does not say).
ReadBytes ==
  /\ Is("readbytes")
  /\ IF E.n > 0 /\ ~Fits(E.n)
       THEN /\ ~E.ok /\ E.err = "ueof" /\ E.len = 0 /\ cur' = cur
       ELSE /\ E.ok /\ E.err = "" /\ DataIs(cur, E.n) /\ cur' = cur + E.n
  /\ E.pos = cur' /\ UNCHANGED file /\ Consume

\* ReadUint8/16/32, ReadInt16: big-endian value of the next n bytes (logged as 16-bit halves)
Fixed ==
  /\ Is("fixed")
  /\ E.n = (CASE E.kind = "u8" -> 1 [] E.kind = "u16" -> 2 [] E.kind = "i16" -> 2 [] E.kind = "u32" -> 4)
  /\ IF ~Fits(E.n)
       THEN /\ ~E.ok /\ E.err = "ueof" /\ E.hi = 0 /\ E.lo = 0 /\ cur' = cur
       ELSE LET b == SubSeq(file, cur + 1, cur + E.n) IN
            /\ E.ok /\ E.err = ""
            /\ CASE E.kind = "u8"  -> E.lo = b[1] /\ E.hi = 0
                 [] E.kind = "u16" -> E.lo = BE(b) /\ E.hi = 0
                 [] E.kind = "i16" -> E.lo = (IF BE(b) >= 32768 THEN BE(b) - 65536 ELSE BE(b)) /\ E.hi = 0
                 [] E.kind = "u32" -> E.hi = BE(SubSeq(b, 1, 2)) /\ E.lo = BE(SubSeq(b, 3, 4))
            /\ cur' = cur + E.n
  /\ E.pos = cur' /\ UNCHANGED file /\ Consume

\* ReadUint16Slice: a count followed by that many values.  On failure the position is
\* somewhere between the start and the end of the input (the property fixes no more).
U16Slice ==
  /\ Is("u16slice")
  /\ IF ~Fits(2)
       THEN /\ ~E.ok /\ E.err = "ueof" /\ E.vals = <<>> /\ cur' = cur
       ELSE LET n == BE(SubSeq(file, cur + 1, cur + 2)) IN
            IF Fits(2 + 2 * n)
              THEN /\ E.ok /\ E.err = ""
                   /\ Len(E.vals) = n
                   /\ \A i \in 1..n : E.vals[i] = BE(SubSeq(file, cur + 2 * i + 1, cur + 2 * i + 2))
                   /\ cur' = cur + 2 + 2 * n
              ELSE /\ ~E.ok /\ E.err = "ueof" /\ E.vals = <<>>
                   /\ cur' = E.pos /\ E.pos >= cur /\ E.pos <= Len(file)
  /\ E.pos = cur' /\ UNCHANGED file /\ Consume

\* Read(buf), len(buf) = m: error iff fewer than m bytes were read; the bytes reported are
\* the bytes at the cursor and the position advances by exactly the count reported.
Read ==
  /\ Is("read")
  /\ E.total >= 0
  /\ IF E.m = 0 \/ Fits(E.m)
       THEN /\ E.ok /\ E.err = "" /\ E.total = E.m /\ DataIs(cur, E.m)
       ELSE /\ ~E.ok /\ E.err = "ueof" /\ E.total < E.m
            /\ E.total > 0 => cur + E.total <= Len(file)
            /\ DataIs(cur, E.total)
  /\ cur' = cur + E.total /\ E.pos = cur' /\ UNCHANGED file /\ Consume

Next == Reset \/ Seek \/ Discard \/ Size \/ ReadBytes \/ Fixed \/ U16Slice \/ Read
Spec == Init /\ [][Next]_vars

Accepted == IF TLCGet(1) = Len(Trace) THEN TRUE
            ELSE PrintT(<<"REJECTED_AT_LINE", TLCGet(1) + 1>>) /\ FALSE
=============================================================================
