SPECIFICATION Spec
CONSTANT Strict = FALSE
POSTCONDITION Accepted
CHECK_DEADLOCK FALSE
