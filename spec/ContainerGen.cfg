\* C03 generation: every explored map is printed as a CASE (replayed into header.Write).
CONSTANTS
  UseTags = {1, 3, 4, 5, 6}
  MaxLen = 3
  HeadLens = {54}
  UseNil = TRUE
  Scalers = {"ttf", "otto", "true"}
  Limit = 5
  Orders = {"recommended"}
SPECIFICATION Spec
INVARIANT InvWellFormed
INVARIANT InvRoundTrip
INVARIANT Emit
CHECK_DEADLOCK FALSE
