------------------------------ MODULE CmapGen ------------------------------
(***************************************************************************)
(* C09, generation (R).  TLC enumerates run/gap structures: a sequence of  *)
(* blocks <<gap, len, kind, base>> placed from an anchor code (start       *)
(* anchored at 0, 32, 125; end anchored at 0xFFFE, 0xFFFF; for format 12   *)
(* also across the end of the BMP and at 0x10FFFF).  kind says how glyph   *)
(* ids run inside the block (delta-consistent, permuted, with absent or    *)
(* explicit zero entries, constant, wrapping through 65535 -> 0), base     *)
(* whether the block continues the idDelta of the previous block.          *)
(*                                                                         *)
(* For every structure TLC computes the map (ic, ig = what is handed to    *)
(* cmap.Format4 / cmap.Format12) and spec-encoded subtables for the        *)
(* library DEcoder: tw (format 4: reference segmentation, explicit glyph   *)
(* arrays with idDelta 0 / 3 / 65535, one wide array, arrays stored in     *)
(* reverse segment order, equal arrays stored once; format 12: maximal     *)
(* or single-code groups), t6 (format 6), t0 (format 0, when all codes and *)
(* glyphs are below 256).  The record is printed as one CASE line.         *)
(***************************************************************************)
EXTENDS Cmap, Json

CONSTANTS MaxBlocks, Gaps, Lens, Kinds, Bases, Fmts,
          AllVars,     \* TRUE: every (language, variant) per structure; FALSE: one, derived from the structure
          FewAnchors   \* TRUE: only the anchors 0 / 0xFFFF (format 4) and the BMP edge (format 12)
VARIABLES fmt, anchor, nb, blocks, rec, done
vars == <<fmt, anchor, nb, blocks, rec, done>>

Anchors4  == IF FewAnchors THEN {<<"s", 0>>, <<"e", 65535>>}
             ELSE {<<"s", 0>>, <<"s", 32>>, <<"s", 125>>, <<"e", 65534>>, <<"e", 65535>>}
Anchors12 == IF FewAnchors THEN {<<"s", 65534>>}
             ELSE {<<"s", 0>>, <<"s", 65534>>, <<"s", 128512>>, <<"e", 1114111>>}
Langs  == <<0, 5, 65535>>
Vars4  == <<"ref", "arr0", "arr3", "arrM", "wide0", "wide5", "rev0", "rev3", "share0">>
Vars12 == <<"ref", "single">>
KindIx(k) == CASE k = "delta" -> 0 [] k = "perm" -> 1 [] k = "zeroA" -> 2 [] k = "zeroE" -> 3
               [] k = "const" -> 4 [] k = "wrap" -> 5

\* relative start of every block (first block at 0) and the extent
RelStarts(bs) ==
  FoldLeft(LAMBDA acc, i : Append(acc, IF i = 1 THEN 0 ELSE Last(acc) + bs[i - 1][2] + bs[i][1]),
           <<>>, RangeSeq(1, Len(bs)))
Extent(bs) == Last(RelStarts(bs)) + Last(bs)[2] - 1
AbsStart(a, bs, i) ==
  IF a[1] = "s" THEN a[2] + bs[1][1] + RelStarts(bs)[i]
  ELSE a[2] - bs[1][1] - Extent(bs) + RelStarts(bs)[i]

\* the entries of the map: <<code, glyph>>, explicit zeros included (kind zeroE)
Entries(f, a, bs) ==
  LET step(acc, i) ==      \* acc = <<previous idDelta, entries>>
        LET b  == bs[i]
            s  == AbsStart(a, bs, i)
            g0 == IF b[3] = "wrap" THEN 65534
                  ELSE IF b[4] = "same" THEN (s + acc[1]) % Mod
                  ELSE 16 * i + 1
            val(j) == CASE b[3] = "delta" -> (g0 + j) % Mod
                        [] b[3] = "perm"  -> (g0 + (b[2] - 1 - j)) % Mod
                        [] b[3] = "zeroA" -> IF j % 2 = 1 THEN 0 ELSE (g0 + j) % Mod
                        [] b[3] = "zeroE" -> IF j % 2 = 1 THEN 0 ELSE (g0 + j) % Mod
                        [] b[3] = "const" -> g0
                        [] b[3] = "wrap"  -> (65534 + j) % Mod
            keep(j) == \/ val(j) # 0
                       \/ b[3] = "zeroE" /\ j % 2 = 1 /\ ~(f = 12 /\ val(j - 1) = 65535)
            es == SelectSeq([j \in 1..b[2] |-> <<s + j - 1, val(j - 1), keep(j - 1)>>], LAMBDA e : e[3])
        IN <<(g0 + Mod - (s % Mod)) % Mod, acc[2] \o [k \in 1..Len(es) |-> <<es[k][1], es[k][2]>>]>>
  IN FoldLeft(step, <<1, <<>>>>, RangeSeq(1, Len(bs)))[2]

Hash(bs, m) == FoldLeft(LAMBDA a, b : a + b[1] + 3 * b[2] + 7 * KindIx(b[3]) + (IF b[4] = "same" THEN 11 ELSE 0),
                        Len(bs), bs) % m

Table4(p, var, lang) ==
  LET d == CASE var \in {"arr3", "rev3"} -> 3 [] var = "arrM" -> 65535 [] var = "wide5" -> 5 [] OTHER -> 0
      dd == IF CanDelta(p, d) THEN d ELSE 0
  IN CASE var = "ref" -> Build4(RefSegs(p), lang)
       [] var \in {"arr0", "arr3", "arrM"} -> Build4(ArrSegs(p, dd), lang)
       [] var \in {"rev0", "rev3"} -> Build4L(ArrSegs(p, dd), lang, "rev")
       [] var = "share0" -> Build4L(ArrSegs(p, dd), lang, "share")
       [] OTHER -> Build4(WideSegs(p, dd), lang)

Record(f, a, bs, lang, var) ==
  LET es == Entries(f, a, bs)
      p  == NonZero(es)
      mac == f = 4 /\ p # <<>> /\ \A i \in 1..Len(p) : p[i][1] < 256 /\ p[i][2] < 256
  IN [fmt |-> f, amode |-> a[1], anchor |-> a[2], blocks |-> bs, lang |-> lang, var |-> var,
      ic |-> [i \in 1..Len(es) |-> es[i][1]], ig |-> [i \in 1..Len(es) |-> es[i][2]],
      tw |-> IF f = 4 THEN Table4(p, var, lang)
             ELSE IF var = "ref" THEN Enc12(p, lang) ELSE Enc12Single(p, lang),
      t6 |-> IF f = 4 THEN Enc6(p, lang) ELSE <<>>,
      t0 |-> IF mac THEN Enc0(p, lang) ELSE <<>>,
      mac |-> mac]

Init == /\ fmt \in Fmts
        /\ anchor \in (IF fmt = 4 THEN Anchors4 ELSE Anchors12)
        /\ nb \in 1..MaxBlocks
        /\ blocks = <<>> /\ rec = <<>> /\ done = FALSE

\* one field of the next block per step (keeps the fan-out small for -simulate)
Open == blocks # <<>> /\ Len(Last(blocks)) < 4
AddField == /\ ~done
            /\ (Open \/ Len(blocks) < nb)
            /\ LET k == IF Open THEN Len(Last(blocks)) + 1 ELSE 1
                   dom == CASE k = 1 -> Gaps [] k = 2 -> Lens [] k = 3 -> Kinds [] OTHER -> Bases
               IN \E v \in dom :
                    blocks' = IF Open THEN [blocks EXCEPT ![Len(blocks)] = Append(@, v)]
                              ELSE Append(blocks, <<v>>)
            /\ UNCHANGED <<fmt, anchor, nb, rec, done>>

Finish == /\ ~done /\ Len(blocks) = nb /\ Len(Last(blocks)) = 4
          /\ LET vs == IF fmt = 4 THEN Vars4 ELSE Vars12 IN
             \E li \in (IF AllVars THEN 1..Len(Langs) ELSE {1 + Hash(blocks, Len(Langs))}) :
             \E vi \in (IF AllVars THEN 1..Len(vs) ELSE {1 + (Hash(blocks, 7 * Len(vs)) % Len(vs))}) :
               rec' = Record(fmt, anchor, blocks, Langs[li], vs[vi])
          /\ done' = TRUE
          /\ UNCHANGED <<fmt, anchor, nb, blocks>>

Next == AddField \/ Finish
Spec == Init /\ [][Next]_vars

\* properties of the generator itself (checked on every emitted record)
GenOK == done =>
  LET p == NonZero(ZipP(rec.ic, rec.ig)) IN
  /\ IsMap(ZipP(rec.ic, rec.ig), IF fmt = 4 THEN MaxCode ELSE 1114111)
  /\ IF fmt = 4
       THEN /\ WF4(rec.tw, rec.lang) /\ Agree4(rec.tw, p)
            /\ WF6(rec.t6, rec.lang) /\ Pairs6(rec.t6) = p
            /\ rec.mac => WF0(rec.t0, rec.lang) /\ Pairs0(rec.t0) = p
       ELSE WF12(rec.tw, rec.lang) /\ Agree12(rec.tw, p)

Emit == done => PrintT(<<"CASE", ToJson(rec)>>)
=============================================================================
