----------------------------- MODULE CmapRawGen -----------------------------
(***************************************************************************)
(* C09, the directory level with RAW subtable bodies.  cmap.Table maps keys *)
(* to raw bytes, so it can hold every format number (0, 2, 4, 6, 8, 10, 12, *)
(* 13, 14) and bodies of either length parity (format 14 is legitimately    *)
(* odd: 10 + 11 records + ... ; the others are opaque bytes with a correct  *)
(* format word, length field and language field).  TLC enumerates, for a    *)
(* pool of four keys, every assignment key -> (absent | body) and two       *)
(* storage orders, encodes the table with the reference encoder TableEnc    *)
(* and checks on the model: the directory is well formed, decodes to        *)
(* exactly the key -> bytes map put in, equal bodies share an offset, and   *)
(* the stored subtables TILE the table (each starts where the previous      *)
(* ends: offsets are the running sum of the emitted lengths).  Each         *)
(* configuration is a CASE: the harness builds the same cmap.Table with the *)
(* real package (Table.Encode, then cmap.Decode) and feeds the spec-encoded *)
(* bytes to cmap.Decode.                                                    *)
(***************************************************************************)
EXTENDS Cmap, Json

VARIABLES sel, rec, done
vars == <<sel, rec, done>>

Pool == << <<0, 5, 0>>, <<1, 0, 2>>, <<3, 1, 0>>, <<3, 10, 0>> >>
\* <<format, length in bytes>>
Bodies == << <<14, 29>>, <<14, 30>>, <<14, 11>>, <<2, 14>>, <<4, 24>>, <<6, 11>>, <<6, 12>>,
             <<8, 16>>, <<10, 21>>, <<12, 16>>, <<13, 28>>, <<0, 262>> >>

Filler(k, f) == [i \in 1..k |-> (7 * i + f) % 251]
RawBody(f, n, lang) ==
  IF f \in {0, 2, 4, 6} THEN <<0, f, n \div 256, n % 256, lang \div 256, lang % 256>> \o Filler(n - 6, f)
  ELSE IF f = 14 THEN <<0, 14, 0, 0, n \div 256, n % 256>> \o Filler(n - 6, f)
  ELSE <<0, f, 0, 0, 0, 0, n \div 256, n % 256, 0, 0, lang \div 256, lang % 256>> \o Filler(n - 12, f)

\* format 14 has no language field: it cannot sit under a key with a language
Allowed(k, b) == IF b = 0 \/ Pool[k][3] = 0 THEN TRUE ELSE Bodies[b][1] # 14

Present == SelectSeq(RangeSeq(1, Len(Pool)), LAMBDA i : sel[i] # 0)
Distinct(s) == FoldLeft(LAMBDA acc, y : IF \E i \in 1..Len(acc) : acc[i] = y THEN acc ELSE Append(acc, y), <<>>, s)

Record(order) ==
  LET ks   == Present
      subs == [j \in 1..Len(ks) |-> RawBody(Bodies[sel[ks[j]]][1], Bodies[sel[ks[j]]][2], Pool[ks[j]][3])]
      recs == [j \in 1..Len(ks) |-> <<Pool[ks[j]][1], Pool[ks[j]][2], subs[j]>>]
      d    == Distinct(subs)
  IN [kind |-> "rawtable", keys |-> [j \in 1..Len(ks) |-> Pool[ks[j]]], subs |-> subs, order |-> order,
      tb |-> TableEnc(recs, IF order = "fwd" THEN d ELSE Reverse(d))]

Init == sel = <<>> /\ rec = <<>> /\ done = FALSE
Choose == /\ ~done /\ Len(sel) < Len(Pool)
          /\ \E b \in 0..Len(Bodies) : Allowed(Len(sel) + 1, b) /\ sel' = Append(sel, b)
          /\ UNCHANGED <<rec, done>>
Finish == /\ ~done /\ Len(sel) = Len(Pool) /\ Present # <<>>
          /\ \E o \in {"fwd", "rev"} : rec' = Record(o)
          /\ done' = TRUE /\ UNCHANGED sel
Next == Choose \/ Finish
Spec == Init /\ [][Next]_vars

\* the distinct subtables, in offset order, tile the table after the header
Tiled(b) ==
  LET t    == TableDec(b)
      offs == SortSeq(Distinct([j \in 1..Len(t) |-> t[j][5]]), LAMBDA x, y : x < y)
  IN /\ offs # <<>> => offs[1] = 4 + 8 * NumTables(b)
     /\ \A i \in 1..Len(offs) - 1 : offs[i + 1] = offs[i] + SubLen(b, offs[i])
     /\ offs # <<>> => Last(offs) + SubLen(b, Last(offs)) = Len(b)

RawOK == done =>
  LET b == rec.tb
      n == Len(rec.keys)
      t == TableDec(b)
  IN /\ WFTable(b) /\ NumTables(b) = n
     /\ \A j \in 1..n : <<t[j][1], t[j][2], t[j][3]>> = rec.keys[j] /\ t[j][4] = rec.subs[j]
     /\ \A i, j \in 1..n : (t[i][5] = t[j][5]) <=> (rec.subs[i] = rec.subs[j])
     /\ Tiled(b)

Emit == done => PrintT(<<"CASE", ToJson(rec)>>)
=============================================================================
