\* C18 quick tier: layouts of 1..3 tables with lengths 0..5, every k, every mode, every classification of the tables (decoded / raw copy / skipped)
CONSTANTS
  MaxTables = 3
  MaxLen = 5
  WModes = {"exact", "atomic", "short"}
  RModes = {"trunc", "failat", "strunc", "sfail"}
  Chunk = 3
  Probe = TRUE
  SMaxLen = 7
SPECIFICATION Spec
INVARIANT WErrIffShort
INVARIANT WCountAccepted
INVARIANT WSuccessTotal
INVARIANT WExactAccepts
INVARIANT ErrIffHit
INVARIANT RTruncRejected
INVARIANT RStreamFail
INVARIANT RIntactOK
INVARIANT RFailNeeded
INVARIANT SCutRejected
INVARIANT SCutOptional
INVARIANT SFailRejected
INVARIANT SIntactOK
INVARIANT Bounds
CHECK_DEADLOCK FALSE
