--------------------------- MODULE ContainerFonts ---------------------------
(***************************************************************************)
(* C03, whole-font stream: the product of the scalars an independent       *)
(* reader reports about a written font.  TLC enumerates the selected font  *)
(* descriptions (one initial state each) and prints them as CASEs; the     *)
(* harness (c03 genfonts) builds each font value, writes it with           *)
(* Font.Write and the trace is judged by ContainerTrace.tla (container     *)
(* clauses + agreement of golang.org/x/image with the written font value). *)
(*                                                                         *)
(* Dimensions:                                                             *)
(*   kind   outline kind: TrueType, simple CFF, CID-keyed CFF              *)
(*   upem   units per em: both ends of the legal range 16..16384, their    *)
(*          neighbours and the two common values                           *)
(*   ng     glyph count around the 8-bit boundary, minimal and large       *)
(*   adv    advance widths: "cycle" = 0, 1, 32767, other, ...; "max" = all *)
(*          32767; "zero" = all 0                                          *)
(*   cm     character map: "low" (U+0020.. only), "bmp" (also U+FFFF),     *)
(*          "astral" (also U+FFFF, U+1F600, U+10FFFF; 32-bit subtable)     *)
(*   nm     glyph names: absent, short, long (63 characters)               *)
(*   cm     ... or "none": no character map at all (CMapTable = nil)       *)
(*   wd     TrueType only, the optional Widths slice of the font value at  *)
(*          the edge of what Font.Write accepts: one entry per glyph,      *)
(*          nil, empty, too short, too long (missing entries count as 0,   *)
(*          surplus entries are ignored: Font.Widths)                      *)
(* Every description carries req, the tables the written file must contain *)
(* (ContainerOps!RequiredNames): a font file without one of them is not a  *)
(* well-formed font, whatever the container looks like.                    *)
(* Pairs = FALSE selects a Latin-square style subset (|Upems| x |Kinds|    *)
(* fonts) rotated by Shift (derived from VERIF_SEED); Pairs = TRUE takes   *)
(* every (upem, ng, kind) combination.  The ASSUME makes TLC itself verify *)
(* that every value of every dimension occurs in every run.                *)
(***************************************************************************)
EXTENDS ContainerOps, TLC, Json

CONSTANTS Shift, Pairs

Kinds  == <<"ttf", "cff", "cid">>
Upems  == <<16, 17, 1000, 2048, 16383, 16384>>
Counts == <<1, 2, 255, 256, 257, 1000>>
Advs   == <<"cycle", "max", "zero">>
Cmaps  == <<"low", "bmp", "astral", "none">>
Wds    == <<"exact", "nil", "long", "empty", "short">>
Names  == <<"absent", "short", "long">>

Desc(iu, ig, ik) ==
  [kind |-> Kinds[ik + 1], upem |-> Upems[iu + 1], ng |-> Counts[ig + 1],
   adv  |-> Advs[((iu + ig + Shift) % 3) + 1],
   cm   |-> Cmaps[((iu + ik + Shift) % 4) + 1],
   nm   |-> Names[((iu + 2 * ik + ig) % 3) + 1],
   wd   |-> IF ik = 0 THEN Wds[((iu + Shift + (IF Pairs THEN ig ELSE 0)) % 5) + 1] ELSE "exact",
   req  |-> SetToSortSeq(RequiredNames(IF ik = 0 THEN "ttf" ELSE "cff", ((iu + ik + Shift) % 4) # 3),
                         LAMBDA a, b : TagLess(TagOf(a), TagOf(b)))]

Selected ==
  IF Pairs THEN {Desc(iu, ig, ik) : iu \in 0..5, ig \in 0..5, ik \in 0..2}
           ELSE {Desc(iu, (iu + ik + Shift) % 6, ik) : iu \in 0..5, ik \in 0..2}

Vals(s) == {s[i] : i \in 1..Len(s)}
Covers ==
  /\ {d.kind : d \in Selected} = Vals(Kinds)
  /\ {d.upem : d \in Selected} = Vals(Upems)
  /\ {d.ng   : d \in Selected} = Vals(Counts)
  /\ {d.adv  : d \in Selected} = Vals(Advs)
  /\ {d.cm   : d \in Selected} = Vals(Cmaps)
  /\ {d.nm   : d \in {e \in Selected : e.kind = "ttf"}} = Vals(Names)   \* names are observable for TrueType
  /\ {d.wd   : d \in {e \in Selected : e.kind = "ttf"}} = Vals(Wds)
  /\ \A d \in Selected : ("cmap" \in Vals(d.req)) = (d.cm # "none")
  /\ \A u \in Vals(Upems) : {d.kind : d \in {e \in Selected : e.upem = u}} = Vals(Kinds)
ASSUME Covers

VARIABLE d
Init == d \in Selected
Next == UNCHANGED d
Spec == Init /\ [][Next]_d

\* what the written font value says and an independent reader must report
InRange == d.upem \in 16..16384 /\ d.ng \in 1..65535
Emit == PrintT(<<"CASE", ToJson(d)>>)
=============================================================================
