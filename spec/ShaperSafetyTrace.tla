-------------------------- MODULE ShaperSafetyTrace --------------------------
(***************************************************************************)
(* C07, trace validation.  Recorded executions of the real gtab.Context /  *)
(* sfnt.Layouter (harness/cmd/c07) must be behaviours of ShaperSafety:     *)
(* "fresh" events define the function, "apply" events on reused objects    *)
(* must agree with it, and every call must satisfy the safety predicate.   *)
(***************************************************************************)
EXTENDS Integers, Sequences, TLC, Json, SequencesExt

Trace == ndJsonDeserialize("trace.ndjson")

VARIABLES l, memo, R, passes
vars == <<l, memo, R, passes>>

S == INSTANCE ShaperSafety WITH NIn <- 1, MaxHist <- 0, Results <- {}, hist <- <<>>

E == Trace[l]
Init == l = 1 /\ memo = <<>> /\ R = 1 /\ passes = 0 /\ TLCSet(1, 0)
Consume == l' = l + 1 /\ TLCSet(1, l)
Is(ev) == l <= Len(Trace) /\ E.ev = ev

Reset == /\ Is("reset")
         /\ memo' = <<>> /\ R' = E.R /\ passes' = E.passes
         /\ Consume

\* a fresh object: defines the function at (object, input)
Fresh == /\ Is("fresh")
         /\ S!Safe(E, R, passes)
         /\ memo' = (<<E.obj, E.i>> :> E.dig) @@ memo
         /\ UNCHANGED <<R, passes>> /\ Consume

\* start of a new history on new reused objects
Hist == Is("hist") /\ UNCHANGED <<memo, R, passes>> /\ Consume

\* a call on a reused object: same result as the fresh object, and safe
Apply == /\ Is("apply")
         /\ S!Safe(E, R, passes)
         /\ <<E.obj, E.i>> \in DOMAIN memo
         /\ E.dig = memo[<<E.obj, E.i>>]
         /\ UNCHANGED <<memo, R, passes>> /\ Consume

Summary == Is("mutsummary") /\ UNCHANGED <<memo, R, passes>> /\ Consume

\* "readpanic" events (a panicking reader) have no action: they are rejected here as well

Next == Reset \/ Fresh \/ Hist \/ Apply \/ Summary
Spec == Init /\ [][Next]_vars

Accepted == IF TLCGet(1) = Len(Trace) THEN TRUE
            ELSE PrintT(<<"REJECTED_AT_LINE", TLCGet(1) + 1>>) /\ FALSE
=============================================================================
