CONSTANTS
  Part = "codech"
  Keys <- MCKeys
  MacStrs <- MCMacStrs
  WinStrs <- MCWinStrs
  PStd <- MCPStd
  PNames <- MCPNames
  PMaxLen = 4
  CUnits <- MCUnits
  CCps <- MCCps
  MaxOps = 4
  AllowSharedMutation = FALSE
  CMaxOps = 2
  AllowScratchReuse = FALSE
  FieldMax = 7
  DecWraps = FALSE
  Pairs <- MCPairs
  BaseOf <- MCBaseOf
INIT Init
NEXT Next
CHECK_DEADLOCK FALSE
INVARIANT ResultsStable
INVARIANT CodecHistEmit
