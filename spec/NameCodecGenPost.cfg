CONSTANTS
  Part = "post"
  MaxE = 0
  MaxUnits = 0
  MaxGlyphs = 3
INIT Init
NEXT Next
INVARIANT Emit
CHECK_DEADLOCK FALSE
