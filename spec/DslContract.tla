---------------------------- MODULE DslContract ----------------------------
(***************************************************************************)
(* C19, observable contract of one call of builder.Parse, exactly as the   *)
(* property states it: the call terminates with either lookups or an error *)
(* that carries a line number; it never panics, never hangs and leaves no  *)
(* goroutine running -- whatever the goroutine scheduling.                 *)
(*                                                                         *)
(* An observation is what can be seen from outside once the system is      *)
(* quiescent (nothing can move any more):                                  *)
(*   returned  the call came back (FALSE = the caller is blocked for ever) *)
(*   panicked  it came back by a panic                                     *)
(*   ok        it returned lookups (otherwise an error)                    *)
(*   line      the line number carried by the error (0 = none)             *)
(*   nlines    number of lines of the input (lines are numbered from 1)    *)
(*   leaked    helper goroutines that still exist                          *)
(* The line of an error is the line of the token at which the error is    *)
(* detected (the first token not accepted, named in the message), lines    *)
(* numbered from 1, an end-of-line token belonging to the line it ends:    *)
(* LineLaw in DslConc.tla, ErrLaw in DslLang.tla section 4.  GoodOutcome   *)
(* only bounds it (what can be said without knowing the token).            *)
(* DslConc.tla proves (TLC) that every quiescent state of the design has a *)
(* good observation; DslTrace.tla applies the same predicate to the        *)
(* observations recorded from the real code.                               *)
(***************************************************************************)
EXTENDS Integers

\* what holds for EVERY return of Parse, also for a refusal before any text is looked at
CleanOutcome(o) ==
  /\ o.returned
  /\ ~o.panicked
  /\ o.leaked = 0

GoodOutcome(o) ==
  /\ CleanOutcome(o)
  /\ o.ok \/ (o.line >= 1 /\ o.line <= o.nlines)
=============================================================================
