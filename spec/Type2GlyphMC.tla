---------------------------- MODULE Type2GlyphMC ----------------------------
(* Constant definitions for the configurations of Type2Glyph.tla. *)
EXTENDS Type2Glyph

Q == 262144     \* 2^18
Plans == {<<0, 0>>, <<1, 0>>, <<0, 1>>, <<2, 3>>, <<23, 24>>, <<24, 24>>, <<25, 0>>, <<47, 1>>, <<48, 48>>,
          <<96, 0>>, <<0, 96>>, <<1, 47>>}
LRuns == {1, 23, 24, 25, 47, 48, 49}
CRuns == {1, 7, 8, 9, 11, 12, 13, 24}

\* ---- integers
CoarseD  == {0, 1, -1, 5, -7, 107, -107, 108, -108, 1131, -1131, 1132, -1132, 3000, -3000, 20000, -32000, 32000}
CoarseSD == {-21, -20, 0, 1, 20, 50, 107, 108, 500}
CoarseW  == {<<500>>, <<500, 500, 500, 600>>, <<500, 600, 700, 800, 900>>, <<0, 1000, 1000>>,
             <<600, 500, 600, 250, 1200>>, <<300, 300, 3000>>, <<-250>>, <<0>>, <<0, 0, 500>>, <<-250, 500>>}

\* ---- fractional values on a grid four times finer than 16.16
FineD  == {0, Q, -Q, 1, -1, 2, -2, 3, Q + 1, Q \div 2, -(Q \div 4) - 1, 107 * Q, -107 * Q - 2, 108 * Q + 2,
           -1131 * Q - 3, 100 * Q + 87381, 7 * Q + 6, -9 * Q + 5}
FineSD == {-21 * Q, 0, 1, Q + 1, 20 * Q + 2, 3 * Q + 87381, 9 * Q + 3, 2 * Q + 5}
FineW  == {<<500 * Q + Q \div 2>>, <<500 * Q + Q \div 2, 500 * Q + Q \div 2, 500 * Q + Q \div 2, 300 * Q + Q \div 4>>,
           <<500 * Q, 600 * Q, 700 * Q + Q \div 2>>, <<250 * Q + 1, 250 * Q + 1, 600 * Q>>,
           <<400 * Q + Q \div 4, 500 * Q + 3 * (Q \div 4), 500 * Q + 3 * (Q \div 4), 910 * Q>>,
           <<500 * Q, 500 * Q, 600 * Q>>, <<-(250 * Q) - Q \div 2>>, <<0>>, <<-(250 * Q) - Q \div 2, 0, 500 * Q>>}

\* ---- the systematic stack-limit sweep (enumerated, fonts of two glyphs: .notdef + one sweep)
\* <<nh, nv, wide>>: delta number `wide` of the 2(nh + nv) stem deltas (hstems first) is 40000
WidePlans  == {<<1, 0, 2>>, <<1, 1, 4>>, <<12, 0, 1>>, <<23, 0, 46>>, <<24, 0, 2>>, <<24, 0, 47>>, <<24, 0, 48>>, <<0, 24, 48>>,
               <<12, 12, 24>>, <<12, 12, 48>>, <<25, 0, 50>>, <<25, 0, 48>>, <<48, 0, 96>>, <<48, 0, 49>>}
SweepPlans0 == {<<0, 0>>, <<1, 1>>, <<23, 0>>, <<24, 0>>, <<25, 0>>, <<0, 24>>, <<24, 24>>, <<47, 1>>, <<48, 0>>, <<49, 0>>}
SweepPlans == SweepPlans0 \cup WidePlans
SweepW     == {<<500, 600>>, <<500, 500>>}     \* with / without a width operand on the first operator
SweepAs    == {5, 300}
SweepBs    == {7}
NoRuns     == {1}
FineSweepAs == {5 * Q + 1, 60 * Q}
FineSweepBs == {7 * Q + 2}
FineSweepW  == {<<500 * Q, 600 * Q>>, <<500 * Q, 500 * Q>>}
SweepInit  == Init /\ ng = 2

\* ---- width sweep (enumerated): fonts of 1..3 glyphs without outlines, every assignment of boundary
\* widths (zero, negative, negative fractional, fractional, plain) to the glyphs
W5          == {0, -(250 * Q) - Q \div 2, -(250 * Q), 500 * Q, 500 * Q + Q \div 2}
WidthSweepW == {<<a, b, c>> : a \in W5, b \in W5, c \in W5}
WidthPlans  == {<<0, 0>>, <<1, 0>>}
WidthSD     == {20 * Q}

AllSweeps   == {"count", "delta", "value"}
DeltaOnly   == {"delta"}
\* ---- the number-range sweep on quarter units (GUnit = 4): exact in 16.16 and small enough for 32-bit integers
QuarterD    == {0, 4, -4, 1, -3}
QuarterSD   == {8}
QuarterW    == {<<2000, 2400>>, <<2000, 2000>>}
ValueOnly   == {"value"}
AllPos      == 1..48
SomePos     == {1, 2, 5, 6, 23, 24, 41, 42, 43, 44, 45, 47, 48}

\* ---- width-selection sweep (enumerated, integers): every width sequence of 1..4 glyphs over values
\* around 0 and +-107, so that the selection rule lands on each of its special values
WS5         == {-1000, -107, 0, 107, 500}
WidthSelW   == {<<a>> : a \in WS5} \cup {<<a, b>> : a \in WS5, b \in WS5}
               \cup {<<a, b, c>> : a \in WS5, b \in WS5, c \in WS5}
               \cup {<<a, b, c, d>> : a \in WS5, b \in WS5, c \in WS5, d \in WS5}
NoStems     == {<<0, 0>>}
WidthSelInit == Init /\ ng = Len(wp)

\* ---- exhaustive configuration
TinyD     == {0, 3}
TinySD    == {2}
TinyW     == {<<5, 7>>}
TinyPlans == {<<0, 0>>, <<1, 1>>}
TinyRuns  == {2}
=============================================================================
