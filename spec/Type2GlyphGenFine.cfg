\* C04 GlyphGen, fractional coordinates in units of 2^-18, simulation
CONSTANTS
  GUnit = 262144
  MaxG = 524288000
  D <- FineD
  SD <- FineSD
  WPats <- FineW
  StemPlans <- Plans
  MaxGlyphs = 8
  MaxSteps = 12
  LineRuns <- LRuns
  CurveRuns <- CRuns
  FarJumps = TRUE
  SweepOnly = FALSE
  SweepA <- FineSweepAs
  SweepB <- FineSweepBs
  SweepKinds <- AllSweeps
  ValuePos <- AllPos
  Sim = TRUE
INIT Init
NEXT Next
INVARIANT CoordsOK
INVARIANT MasksOK
INVARIANT MoveFirst
INVARIANT StemsOK
INVARIANT Emit
CHECK_DEADLOCK FALSE
