------------------------------- MODULE Glyf -------------------------------
(***************************************************************************)
(* C11.  TrueType glyph data: a glyph set is encoded to glyf/loca and      *)
(* decoded again.  The format functions are in GlyfOps.tla; this module is *)
(* the state machine around them:                                          *)
(*                                                                         *)
(*   building phase (ph = "build"): a SHAPE is assembled step by step      *)
(*       kind "simple": AddRun      one run of equal simple-glyph flags    *)
(*       kind "comp"  : AddComp     one component record                   *)
(*       kind "set"   : AddGlyph    one glyph of a palette + padding       *)
(*     Finish* encodes the shape with the SPEC's encoder (every flag form, *)
(*     repeat form, argument/transform size, padding 0..3, either loca     *)
(*     version) and moves to ph = "run".                                   *)
(*   API phase (ph = "run"), one action per call of package glyf:          *)
(*       Decode       glyf.Decode          enc -> gs                       *)
(*       Encode       Glyphs.Encode        gs -> enc (padding multiple and *)
(*                                         loca version are writer choices)*)
(*       Fix          Glyph.FixComponents  gs[i] rewritten by an id map    *)
(*                                                                         *)
(* TLC checks (Glyf.cfg, exhaustively over the palette sets; and in every  *)
(* generation run over the generated shapes):                              *)
(*   EncodeDecode  Decode(SpecEncode(shape)) = shape (validates operators) *)
(*   LocaInv       offsets non-decreasing, even, inside glyf, parse back   *)
(*                 from the announced version                              *)
(*   RoundTrip     Decode(Encode(gs)) = gs for every writer choice         *)
(*   FixInv        FixComponents changes exactly the glyphIndex fields     *)
(*   LocaLayout    (kind "loca") the layout function at the 64K/128K       *)
(*                 boundaries, real sizes                                  *)
(* In generation configurations the invariant Emit prints one CASE line    *)
(* per finished shape: the spec's bytes, which the harness feeds to the    *)
(* real decoder.                                                           *)
(***************************************************************************)
EXTENDS GlyfOps, FiniteSets, TLC, Json

CONSTANTS Kind,        \* "simple" | "comp" | "set" | "big" | "loca"
          Salt,        \* derived from VERIF_SEED: selects coordinate values, ids, argument bytes
          MaxRuns,     \* simple: number of flag runs
          MaxComps,    \* comp: number of components
          MaxGlyphs,   \* set: number of glyphs
          MaxSteps,    \* API calls after the build phase (0 = generation only)
          FinishFull,  \* TRUE: every Finish choice; FALSE: one choice per shape, selected by Salt
          With256,     \* simple: include the 256-point run (repeat count 255)
          Targets,     \* big: total glyf sizes to hit exactly; max: which maxima of the format (see MaxGlyph)
          SharedBuf    \* TRUE: Encode models a writer that assembles glyf in ONE buffer shared by all its
                       \* results (a deliberately wrong design: HistInv must fail, checked in GlyfSharedBuf.cfg)

VARIABLES ph,      \* "build" | "run"
          acc,     \* the shape under construction (runs / components / glyph values / sizes)
          cur,     \* simple: current point <<x, y>>
          pads,    \* set: padding of each glyph
          shape,   \* the finished shape as glyph values (what Decode must return)
          enc,     \* [fmt, loca, glyf]: the encoded tables
          gs,      \* the in-memory glyph set (sequence of glyph values)
          have,    \* gs is defined
          prev,    \* glyph set before the last Encode (ghost, for RoundTrip)
          ghost,   \* offsets the last writer intended (ghost, for LocaInv)
          last,    \* last API call
          steps,   \* number of API calls
          hs       \* history: [res  |-> results of all Fix calls so far, each [i, m, src, g];
                   \*           pgs  |-> gs before the last call (ghost), pres |-> res before the last call (ghost);
                   \*           ops  |-> the calls made so far (what the harness replays)]

vars == <<ph, acc, cur, pads, shape, enc, gs, have, prev, ghost, last, steps, hs>>
view == <<ph, acc, cur, pads, shape, enc, gs, have, prev, ghost, last, steps, hs.res, hs.pgs, hs.pres,
          hs.encs, hs.pencs>>

NoEnc == [fmt |-> -1, loca |-> <<>>, glyf |-> <<>>]
Pick(s, k) == s[((Salt + k) % Len(s)) + 1]
Iota(n) == [i \in 1..n |-> i]
Min2(a, b) == IF a < b THEN a ELSE b
Max2(a, b) == IF a > b THEN a ELSE b

---------------------------------------------------------------------------
(* Spec-level encoder of a glyph set given record bytes                    *)
EncodeRecs(recs, fmt) ==
  LET offs == LocaOffsets([i \in 1..Len(recs) |-> Len(recs[i])])
  IN [fmt |-> fmt, loca |-> LocaBytes(fmt, offs), glyf |-> Concat(recs)]
OffsOf(recs) == LocaOffsets([i \in 1..Len(recs) |-> Len(recs[i])])

\* paddings 0..3 that keep the record length even (loca offsets are even in both versions here)
PadChoices(len) == {p \in 0..3 : (len + p) % 2 = 0}
\* a zero-contour glyph that consists of the header only cannot be told from one followed by
\* instructionLength = 0 once two zero bytes of padding follow: that form is generated as such
PadChoicesFor(g) == IF g.k = "nil" \/ (g.k = "s" /\ g.nc = 0 /\ g.body = <<>>) THEN {0}
                    ELSE PadChoices(Len(EncodeValue(g)))

---------------------------------------------------------------------------
(* kind "simple": shapes of simple glyphs.  A run = [f, n, rep, dx, dy]:   *)
(* n points with the same flag byte f (bits 0x01,0x02,0x04,0x10,0x20),     *)
(* written as one flag byte + repeat count (rep) or as n flag bytes.       *)
(* dx/dy: magnitude (short vector), 0 (same) or signed delta (long).       *)
BaseFlags == {f \in 0..63 : ~Bit(f, 8)}
\* <<n, repeat form, all deltas zero>>: the last two are the legal-but-unusual "short vector of 0" and
\* "long delta of 0" encodings for every flag byte
RunKinds  == {<<1, FALSE, FALSE>>, <<1, TRUE, FALSE>>, <<2, FALSE, FALSE>>, <<2, TRUE, FALSE>>, <<3, TRUE, FALSE>>,
              <<1, FALSE, TRUE>>, <<2, TRUE, TRUE>>}
               \cup (IF With256 THEN {<<256, TRUE, FALSE>>} ELSE {})
ShortVals == <<0, 1, 255, 100, 17, 254, 3>>
LongVals  == <<300, -300, 256, -256, 1000, -1, 0, 255, -255, -1000, 32767, -32767, 5, -4000>>

\* values for the n points of a run, kept inside int16 (the format's coordinate type)
GenDeltas(f, sb, mb, n, start, key) ==
  FoldLeft(LAMBDA a, i :
      IF Bit(f, sb)
        THEN LET m == Pick(ShortVals, key + 3 * i)
                 v == IF Bit(f, mb) THEN a.end + m ELSE a.end - m
             IN IF IsInt16(v) THEN [ds |-> Append(a.ds, m), end |-> v]
                ELSE [ds |-> Append(a.ds, 0), end |-> a.end]
      ELSE IF Bit(f, mb) THEN [ds |-> Append(a.ds, 0), end |-> a.end]
      ELSE LET c == Pick(LongVals, key + 5 * i)
               d == IF IsInt16(a.end + c) THEN c ELSE IF IsInt16(a.end - c) THEN -c ELSE 0
           IN [ds |-> Append(a.ds, d), end |-> a.end + d],
    [ds |-> <<>>, end |-> start], Iota(n))

NumPts(runs) == FoldLeft(LAMBDA a, r : a + r.n, 0, runs)

AddRun(f, k) ==
  /\ ph = "build" /\ Kind = "simple" /\ Len(acc) < MaxRuns
  /\ LET key == 31 * Len(acc) + f
         zs  == [ds |-> [i \in 1..k[1] |-> 0], end |-> 0]
         gx  == IF k[3] THEN [zs EXCEPT !.end = cur[1]] ELSE GenDeltas(f, 2, 16, k[1], cur[1], key)
         gy  == IF k[3] THEN [zs EXCEPT !.end = cur[2]] ELSE GenDeltas(f, 4, 32, k[1], cur[2], key + 7)
     IN /\ acc' = Append(acc, [f |-> f, n |-> k[1], rep |-> k[2], dx |-> gx.ds, dy |-> gy.ds])
        /\ cur' = <<gx.end, gy.end>>
  /\ UNCHANGED <<ph, pads, shape, enc, gs, have, prev, ghost, last, steps, hs>>

\* the meaning of a run list: absolute points <<x, y, on>>
Delta(f, sb, mb, d) == IF Bit(f, sb) THEN (IF Bit(f, mb) THEN d ELSE -d) ELSE IF Bit(f, mb) THEN 0 ELSE d
RunPoints(runs) ==
  FoldLeft(LAMBDA a, r :
      FoldLeft(LAMBDA q, i :
          LET x == q.x + Delta(r.f, 2, 16, r.dx[i])
              y == q.y + Delta(r.f, 4, 32, r.dy[i])
          IN [x |-> x, y |-> y, pts |-> Append(q.pts, <<x, y, IF Bit(r.f, 1) THEN 1 ELSE 0>>)],
        a, Iota(r.n)),
    [x |-> 0, y |-> 0, pts |-> <<>>], runs).pts

\* the bytes of a run list
RunFlagBytes(r, extra) == IF r.rep THEN <<r.f + 8 + extra, r.n - 1>> ELSE [i \in 1..r.n |-> r.f + extra]
RunCoordBytes(r, sb, mb, d) ==
  Concat([i \in 1..r.n |-> IF Bit(r.f, sb) THEN <<d[i]>> ELSE IF Bit(r.f, mb) THEN <<>> ELSE I16(d[i])])
\* ov = 64: OVERLAP_SIMPLE set in the flag byte(s) of the first run
SimpleBody(ends, instr, runs, ov) ==
  Concat([i \in 1..Len(ends) |-> U16(ends[i])]) \o U16(Len(instr)) \o instr
    \o Concat([i \in 1..Len(runs) |-> RunFlagBytes(runs[i], IF i = 1 THEN ov ELSE 0)])
    \o Concat([i \in 1..Len(runs) |-> RunCoordBytes(runs[i], 2, 16, runs[i].dx)])
    \o Concat([i \in 1..Len(runs) |-> RunCoordBytes(runs[i], 4, 32, runs[i].dy)])

BBoxOf(pts) ==
  IF Len(pts) = 0 THEN <<0, 0, 0, 0>>
  ELSE FoldLeft(LAMBDA b, p : <<Min2(b[1], p[1]), Min2(b[2], p[2]), Max2(b[3], p[1]), Max2(b[4], p[2])>>,
                <<pts[1][1], pts[1][2], pts[1][1], pts[1][2]>>, pts)

\* the header box is data of its own ("preserved bit for bit"): the true box, the same with its corners exchanged
\* (xMin > xMax, yMin > yMax), the extreme corners the wrong way round, and all zero
BoxChoices(pts) ==
  LET b == BBoxOf(pts) IN {b, <<b[3], b[4], b[1], b[2]>>, <<32767, -32768, -32768, 32767>>, <<b[1], b[4], b[3], b[2]>>}

Splits(np) == {<<np - 1>>}
                \cup (IF np >= 2 THEN {<<0, np - 1>>, <<np - 2, np - 1>>} ELSE {})
                \cup (IF np >= 3 /\ np <= 6 THEN {[i \in 1..np |-> i - 1]} ELSE {})
InstrChoices == {<<>>, <<176, 1, 45>>}

SimpleValue(nc, bbox, body) == [k |-> "s", nc |-> nc, bbox |-> bbox, body |-> body, comps |-> <<>>,
                                instr |-> <<>>, hasinstr |-> FALSE]

\* finish: the single glyph, optionally preceded by an empty glyph, is the glyph set.
\* hnc: numberOfContours written for a composite glyph; trail: bytes between description and padding
FinishH(g, pad, fmt, lead, hnc, trail) ==
  LET vals == IF lead THEN <<NilGlyph, g>> ELSE <<g>>
      rec  == EncodeValueH(g, hnc) \o trail \o Zeros(pad)
      recs == IF lead THEN <<<<>>, rec>> ELSE <<rec>>
  IN /\ ph' = "run"
     /\ shape' = vals
     /\ enc' = EncodeRecs(recs, fmt)
     /\ ghost' = OffsOf(recs)
     /\ UNCHANGED <<acc, cur, pads, gs, have, prev, last, steps, hs>>

Finish(g, pad, fmt, lead) == FinishH(g, pad, fmt, lead, -1, <<>>)

\* one deterministic choice out of a finite set, selected by Salt and a key
PickSet(S, key) == LET q == SetToSeq(S) IN q[((Salt + key) % Len(q)) + 1]
Alts(S, key) == IF FinishFull THEN S ELSE {PickSet(S, key)}

FinishSimple ==
  /\ ph = "build" /\ Kind = "simple" /\ Len(acc) >= 1
  /\ LET np  == NumPts(acc)
         pts == RunPoints(acc)
         ov  == IF (Salt + np + Len(acc)) % 3 = 0 THEN 64 ELSE 0
     IN \E ends \in Alts(Splits(np), np), ins \in Alts(InstrChoices, np + 1), box \in Alts(BoxChoices(pts), np + 2 * Len(acc)) :
          LET body == SimpleBody(ends, ins, acc, ov)
              g    == SimpleValue(Len(ends), box, body)
          IN \E pad \in Alts(PadChoices(10 + Len(body)), Len(body)), fmt \in Alts({0, 1}, np + Len(acc)) :
               Finish(g, pad, fmt, (Salt + Len(body)) % 2 = 0)

\* zero contours: no data at all, or instructionLength (+ instructions) only
FinishZero ==
  /\ ph = "build" /\ Kind = "simple" /\ acc = <<>>
  /\ \E body \in {<<>>, <<0, 0>>, <<0, 3, 176, 1, 45>>}, fmt \in {0, 1}, lead \in BOOLEAN :
       \E pad \in PadChoicesFor(SimpleValue(0, <<0, 0, 0, 0>>, body)) :
         Finish(SimpleValue(0, <<0, 0, 0, 0>>, body), pad, fmt, lead)

---------------------------------------------------------------------------
(* kind "comp": composite glyphs.  A component = [flags, gid, data].       *)
GidVals   == <<0, 1, 258, 65535, 4660, 7, 513>>
ExtraBits == <<0, 2, 6, 512, 1026, 2050, 4098, 1536>>   \* XY_VALUES, ROUND, USE_MY_METRICS, OVERLAP, (UN)SCALED

\* one component record: argument size, transform size and WE_HAVE_INSTRUCTIONS are enumerated
\* independently for every record; the other bits, the id and the argument bytes vary with Salt
AddComp(aw, tr, wi) ==
  /\ ph = "build" /\ Kind = "comp" /\ Len(acc) < MaxComps
  /\ LET key   == 17 * Len(acc) + 5 * aw + tr + 3 * wi
         flags == aw + tr + 256 * wi + Pick(ExtraBits, key)
         n     == ArgLen(flags) + TrLen(flags)
     IN acc' = Append(acc, [flags |-> flags, gid |-> Pick(GidVals, key),
                            data |-> [j \in 1..n |-> (Salt * 7 + key * 13 + j * 29) % 256]])
  /\ UNCHANGED <<ph, cur, pads, shape, enc, gs, have, prev, ghost, last, steps, hs>>

\* The value of a component list (MORE_COMPONENTS added): instructions follow iff the LAST record
\* carries WE_HAVE_INSTRUCTIONS (primary reading); ins: "empty" | "some" says which.
CompValue(comps, ins) ==
  LET n  == Len(comps)
      hi == Bit(comps[n].flags, 256)
      cs == [i \in 1..n |-> [comps[i] EXCEPT !.flags = comps[i].flags + (IF i < n THEN 32 ELSE 0)]]
  IN [k |-> "c", nc |-> -1, bbox |-> IF (Salt + n) % 3 = 0 THEN <<300 + n, 400, -10, -20>> ELSE <<-10, -20, 300 + n, 400>>, body |-> <<>>, comps |-> cs,
      instr |-> IF hi /\ ins = "some" THEN <<64, 1, 2, 3, 4>> ELSE <<>>, hasinstr |-> hi]

HeaderNcs == {-1, -2, -3, -128, -32768}
\* bytes after the last record when only an EARLIER record carries the bit (the two readings differ)
Trails == {<<>>, <<0, 0>>, <<0, 3, 9, 8, 7>>}
FinishComp ==
  /\ ph = "build" /\ Kind = "comp" /\ Len(acc) >= 1
  /\ LET n     == Len(acc)
         hi    == Bit(acc[n].flags, 256)
         early == \E j \in 1..(n - 1) : Bit(acc[j].flags, 256)
     IN \E ins \in (IF hi THEN Alts({"empty", "some"}, n) ELSE {"none"}),
           trail \in (IF ~hi /\ early THEN Alts(Trails, n + 1) ELSE {<<>>}),
           hnc \in (IF n = 1 /\ FinishFull THEN HeaderNcs ELSE {PickSet(HeaderNcs, acc[1].flags + acc[n].gid + n)}) :
          LET g == CompValue(acc, ins) IN
          \E pad \in Alts(PadChoices(Len(EncodeValue(g)) + Len(trail)), acc[1].flags) :
            FinishH(g, pad, PickSet({0, 1}, acc[1].gid + n), (Salt + n) % 2 = 0, hnc, trail)

---------------------------------------------------------------------------
(* kind "set": glyph sets over a palette                                   *)
PRun(f, n, rep, dx, dy) == [f |-> f, n |-> n, rep |-> rep, dx |-> dx, dy |-> dy]
PSimple(ends, ins, runs) ==
  SimpleValue(Len(ends), BBoxOf(RunPoints(runs)), SimpleBody(ends, ins, runs, 0))
PComp(flags, gid, data) == [flags |-> flags, gid |-> gid, data |-> data]

Palette == <<
  NilGlyph,
  SimpleValue(0, <<0, 0, 0, 0>>, <<>>),                               \* zero contours, header only
  SimpleValue(0, <<0, 0, 0, 0>>, <<0, 2, 176, 0>>),                   \* zero contours, instructions
  PSimple(<<0>>, <<>>, <<PRun(49, 1, FALSE, <<0>>, <<0>>)>>),         \* one point at the origin
  PSimple(<<1, 3>>, <<176, 5>>,                                       \* two contours, repeat, mixed forms
          <<PRun(1 + 2 + 16, 2, TRUE, <<10, 200>>, <<-300, 700>>), PRun(4 + 32, 2, FALSE, <<-1000, 5>>, <<7, 255>>)>>),
  PSimple(<<0, 1, 2, 3, 5>>, <<>>,                                    \* "many" contours
          <<PRun(1 + 2 + 4, 6, TRUE, <<1, 2, 3, 4, 5, 6>>, <<6, 5, 4, 3, 2, 1>>)>>),
  CompValue(<<PComp(2, 3, <<5, 250>>)>>, "none"),
  CompValue(<<PComp(1 + 2 + 8 + 256, 4, <<0, 100, 255, 156, 64, 0>>), PComp(2 + 64 + 256, 258, <<1, 2, 64, 0, 32, 0>>)>>, "some"),
  CompValue(<<PComp(128, 1, <<3, 4, 64, 0, 0, 0, 0, 0, 64, 0>>), PComp(1, 65535, <<0, 1, 0, 2>>), PComp(2 + 512 + 256, 4, <<9, 9>>)>>, "empty")
>>

AddGlyph(p, pad) ==
  /\ ph = "build" /\ Kind = "set" /\ Len(acc) < MaxGlyphs
  /\ pad \in PadChoicesFor(Palette[p])
  /\ acc' = Append(acc, Palette[p])
  /\ pads' = Append(pads, pad)
  /\ UNCHANGED <<ph, cur, shape, enc, gs, have, prev, ghost, last, steps, hs>>

FinishSet ==
  /\ ph = "build" /\ Kind = "set" /\ Len(acc) >= 1
  /\ \E fmt \in {0, 1} :
       LET recs == [i \in 1..Len(acc) |-> EncodeValue(acc[i]) \o Zeros(pads[i])] IN
       /\ ph' = "run" /\ shape' = acc /\ enc' = EncodeRecs(recs, fmt) /\ ghost' = OffsOf(recs)
       /\ UNCHANGED <<acc, cur, pads, gs, have, prev, last, steps, hs>>

---------------------------------------------------------------------------
(* kind "big": glyph sets whose glyf table has exactly a given size        *)
(* (around the limits of the short loca version: 2 * 0xFFFF = 131070).     *)
(* A filler is a one-point glyph carrying instructions.                    *)
Filler(len, seed) ==     \* record of exactly len bytes, len >= 16
  LET il   == IF len % 2 = 0 /\ seed % 2 = 0 THEN len - 16 ELSE len - 15      \* 0 or 1 byte of padding
      body == U16(0) \o U16(il) \o [i \in 1..il |-> (i * (seed + 3)) % 256] \o <<49>>
  IN [g |-> SimpleValue(1, <<0, 0, 0, 0>>, body), pad |-> len - 15 - il]

RECURSIVE Fillers(_, _)
Fillers(rem, seed) ==
  IF rem = 0 THEN <<>>
  ELSE IF rem > 60020 THEN <<Filler(60000, seed)>> \o Fillers(rem - 60000, seed + 1)
  ELSE <<Filler(rem, seed)>>

BigPrefixes == {<<>>, <<5>>, <<1, 8, 2>>}     \* palette indices
BigInit ==
  \E t \in Targets, fmt \in {0, 1}, pre \in BigPrefixes :
    LET pv   == [i \in 1..Len(pre) |-> Palette[pre[i]]]
        pr   == [i \in 1..Len(pre) |-> PadTo(EncodeValue(pv[i]), 2)]
        plen == FoldLeft(LAMBDA a, r : a + Len(r), 0, pr)
        fs   == Fillers(t - plen, Salt)
        recs == pr \o [i \in 1..Len(fs) |-> EncodeValue(fs[i].g) \o Zeros(fs[i].pad)]
    IN /\ fmt = 0 => t <= 2 * ShortMax
       /\ shape = pv \o [i \in 1..Len(fs) |-> fs[i].g]
       /\ enc = EncodeRecs(recs, fmt)
       /\ ghost = OffsOf(recs)

---------------------------------------------------------------------------
(* kind "max": the count maxima of the format, encoded compactly.  Targets selects:               *)
(*   65535, 65536  simple glyph with that many points (last endPtsOfContours 0xFFFE / 0xFFFF):     *)
(*                 256 points per flag + repeat-count pair, all deltas zero (first pair as x-short  *)
(*                 vectors of magnitude 0, the others "same")                                       *)
(*   32767         simple glyph with numberOfContours 32767, one point each                         *)
(*   1             simple glyph with instructionLength 0xFFFF                                       *)
(*   2             composite glyph with 600 component records                                       *)
RepeatPairs(f, n) ==      \* n logical flags f as (flag + REPEAT, count) pairs of at most 256
  Concat([j \in 1..((n + 255) \div 256) |-> <<f + 8, (IF j * 256 <= n THEN 256 ELSE n - (j - 1) * 256) - 1>>])
MaxPoints(np, ends) ==
  LET first == IF np >= 256 THEN 256 ELSE np
      body  == Concat([i \in 1..Len(ends) |-> U16(ends[i])]) \o U16(0)
                 \o <<1 + 2 + 16 + 32 + 8, first - 1>> \o RepeatPairs(1 + 16 + 32, np - first)
                 \o Zeros(first)
  IN SimpleValue(Len(ends), <<0, 0, 0, 0>>, body)
MaxGlyph(code) ==
  IF code \in {65535, 65536} THEN MaxPoints(code, <<Salt % 100, code - 1>>)
  ELSE IF code = 32767 THEN MaxPoints(32767, [i \in 1..32767 |-> i - 1])
  ELSE IF code = 1 THEN SimpleValue(1, <<0, 0, 0, 0>>,
                          U16(0) \o U16(65535) \o [i \in 1..65535 |-> (i * ((Salt % 50) + 3)) % 256] \o <<49>>)
  ELSE [k |-> "c", nc |-> -1, bbox |-> <<0, -1, 1, 2>>, body |-> <<>>, instr |-> <<>>, hasinstr |-> FALSE,
        comps |-> [i \in 1..600 |-> [flags |-> 2 + (IF i < 600 THEN 32 ELSE 0), gid |-> (i * 109 + Salt) % 65536,
                                      data |-> <<i % 256, (i * 7) % 256>>]]]
MaxInit ==
  \E code \in Targets :
    LET g    == MaxGlyph(code)
        recs == <<PadTo(EncodeValue(g), 2)>>
    IN /\ shape = <<g>>
       /\ enc = EncodeRecs(recs, (Salt + code) % 2)
       /\ ghost = OffsOf(recs)

---------------------------------------------------------------------------
(* kind "loca": the layout function on size vectors with real sizes        *)
LocaSizes == {0, 2, 12, 65522, 65534, 65536, 131058, 131070, 131072, 16777204, 16777216}   \* ... 2^16, 2^17, 2^24
AddSize(s) ==
  /\ ph = "build" /\ Kind = "loca" /\ Len(acc) < MaxGlyphs
  /\ acc' = Append(acc, s)
  /\ UNCHANGED <<ph, cur, pads, shape, enc, gs, have, prev, ghost, last, steps, hs>>

LocaLayout ==
  (Kind = "loca" /\ Len(acc) >= 1) =>
    LET offs  == LocaOffsets(acc)
        total == FoldLeft(LAMBDA a, s : a + s, 0, acc)
    IN /\ Len(offs) = Len(acc) + 1 /\ offs[1] = 0 /\ offs[Len(offs)] = total
       /\ \A i \in 1..Len(acc) : offs[i + 1] - offs[i] = acc[i]
       /\ OffsetsOK(offs, total)
       /\ CanShort(offs) <=> total <= 131070
       /\ \A fmt \in {0, 1} :
            LET p == ParseLoca(fmt, LocaBytes(fmt, offs)) IN
            /\ p.ok
            /\ FormatValid(fmt, offs) => p.offs = offs            \* the announced version reads back
            /\ ~FormatValid(fmt, offs) => p.offs # offs           \* 16 bits cannot hold it

-------------------------------------------------------------------------------------------------------------------------------------------------
(* API phase.  The in-memory glyph set gs is a VALUE: no call except Decode and Put replaces   *)
(* it, and the results of earlier calls are values too.  Every call records the state before   *)
(* it (hs.pgs, hs.pres) so that History below can say so.                                      *)
Called3(op, res2, encs2) == hs' = [res |-> res2, pgs |-> gs, pres |-> hs.res, ops |-> Append(hs.ops, op),
                                   encs |-> encs2, pencs |-> hs.encs]
Called(op, res2) == Called3(op, res2, hs.encs)
\* Handing out an Encode result: it is a value of its own.  With SharedBuf the glyf bytes of all earlier
\* results live in the writer's one buffer and are overwritten (unless the buffer had to grow).
Clobber(encs, new) ==
  [k \in 1..Len(encs) |-> [encs[k] EXCEPT !.glyf = IF Len(new) <= Len(@) THEN new \o SubSeq(@, Len(new) + 1, Len(@))
                                                   ELSE @]]
HandOut(e, src) == Append(IF SharedBuf THEN Clobber(hs.encs, e.glyf) ELSE hs.encs,
                          [fmt |-> e.fmt, loca |-> e.loca, glyf |-> e.glyf, src |-> src])
Op(name, i, m, k) == [op |-> name, i |-> i, m |-> m, k |-> k]

Decode ==
  /\ ph = "run" /\ steps < MaxSteps /\ enc.fmt >= 0
  /\ Kind = "ops" => (~have \/ last = "encode")
  /\ LET d == DecodeSet(enc.fmt, enc.loca, enc.glyf) IN
     /\ d.ok
     /\ gs' = [i \in 1..Len(d.d) |-> Value(d.d[i])]
     /\ have' = TRUE
  /\ last' = "decode" /\ steps' = steps + 1
  /\ Called(Op("decode", 0, <<>>, 0), hs.res)
  /\ UNCHANGED <<ph, acc, cur, pads, shape, enc, prev, ghost>>

\* a writer may pad every record to a multiple m of 2 and may use the long version at will
Encode(m, fmt) ==
  /\ ph = "run" /\ steps < MaxSteps /\ have /\ Len(hs.encs) < (IF Kind = "ops" THEN 3 ELSE 2)
  /\ Kind = "ops" => (m = 2 /\ fmt = 1)          \* the replayed call has no parameters
  /\ LET recs == [i \in 1..Len(gs) |-> PadTo(EncodeValue(gs[i]), m)]
         offs == OffsOf(recs)
     IN /\ FormatValid(fmt, offs)
        /\ enc' = EncodeRecs(recs, fmt)
        /\ ghost' = offs
        /\ Called3(Op("encode", 0, <<>>, 0), hs.res, HandOut(EncodeRecs(recs, fmt), gs))
  /\ prev' = gs
  /\ last' = "encode" /\ steps' = steps + 1
  /\ UNCHANGED <<ph, acc, cur, pads, shape, gs, have>>

\* Encode of ANOTHER glyph set (the glyphs in reverse order) while earlier results are still held
EncodeRev ==
  /\ ph = "run" /\ steps < MaxSteps /\ have /\ Len(hs.encs) < 3 /\ Len(hs.encs) >= 1 /\ Kind = "ops"
  /\ LET src  == Reverse(gs)
         recs == [i \in 1..Len(src) |-> PadTo(EncodeValue(src[i]), 2)]
     IN Called3(Op("encrev", 0, <<>>, 0), hs.res, HandOut(EncodeRecs(recs, 1), src))
  /\ last' = "encrev" /\ steps' = steps + 1
  /\ UNCHANGED <<ph, acc, cur, pads, shape, enc, gs, have, prev, ghost>>

FixMaps == {<< <<3, 9>>, <<4, 4>>, <<258, 0>>, <<1, 65535>>, <<65535, 2>> >>,
            << <<3, 4>>, <<4, 3>>, <<258, 258>>, <<1, 1>>, <<65535, 65534>> >>}
\* FixComponents(gs[i], m): a NEW glyph; gs and the earlier results stay what they are
Fix(i, m) ==
  /\ ph = "run" /\ steps < MaxSteps /\ have /\ Len(hs.res) < 3
  /\ i \in 1..Len(gs) /\ gs[i].k = "c"
  /\ Called(Op("fix", i, m, 0), Append(hs.res, [i |-> i, m |-> m, src |-> gs[i], g |-> FixValue(gs[i], m)]))
  /\ last' = "fix" /\ steps' = steps + 1
  /\ UNCHANGED <<ph, acc, cur, pads, shape, enc, gs, have, prev, ghost>>

\* the caller stores the latest result in the glyph set (as subsetting does)
Put ==
  /\ ph = "run" /\ steps < MaxSteps /\ have /\ Len(hs.res) >= 1 /\ last # "put"
  /\ LET r == hs.res[Len(hs.res)] IN
     /\ r.i <= Len(gs)
     /\ gs' = [gs EXCEPT ![r.i] = r.g]
     /\ Called(Op("put", r.i, <<>>, Len(hs.res)), hs.res)
  /\ last' = "put" /\ steps' = steps + 1
  /\ UNCHANGED <<ph, acc, cur, pads, shape, enc, have, prev, ghost>>

\* Components(gs[i]): an observation
Comps(i) ==
  /\ ph = "run" /\ steps < MaxSteps /\ have /\ Kind = "ops"
  /\ i \in 1..Len(gs) /\ gs[i].k = "c"
  /\ Called(Op("comps", i, <<>>, 0), hs.res)
  /\ last' = "comps" /\ steps' = steps + 1
  /\ UNCHANGED <<ph, acc, cur, pads, shape, enc, gs, have, prev, ghost>>

(* kind "ops": call histories on a few fixed glyph sets with composite glyphs                   *)
OpsSets == {<<8>>, <<5, 9>>, <<7, 1, 8>>}       \* palette indices
OpsInit ==
  \E set \in OpsSets :
    LET pv   == [i \in 1..Len(set) |-> Palette[set[i]]]
        recs == [i \in 1..Len(set) |-> PadTo(EncodeValue(pv[i]), 2)]
    IN /\ shape = pv
       /\ enc = EncodeRecs(recs, (Salt + Len(set)) % 2)
       /\ ghost = OffsOf(recs)

---------------------------------------------------------------------------
Init ==
  /\ acc = <<>> /\ cur = <<0, 0>> /\ pads = <<>>
  /\ gs = <<>> /\ have = FALSE /\ prev = <<>> /\ last = "new" /\ steps = 0
  /\ hs = [res |-> <<>>, pgs |-> <<>>, pres |-> <<>>, ops |-> <<>>, encs |-> <<>>, pencs |-> <<>>]
  /\ IF Kind = "big" THEN ph = "run" /\ BigInit
     ELSE IF Kind = "max" THEN ph = "run" /\ MaxInit
     ELSE IF Kind = "ops" THEN ph = "run" /\ OpsInit
     ELSE ph = "build" /\ shape = <<>> /\ enc = NoEnc /\ ghost = <<>>

Next ==
  \/ \E f \in BaseFlags, k \in RunKinds : AddRun(f, k)
  \/ FinishSimple \/ FinishZero
  \/ \E aw \in {0, 1}, tr \in {0, 8, 64, 128}, wi \in {0, 1} : AddComp(aw, tr, wi)
  \/ FinishComp
  \/ \E p \in 1..Len(Palette), pad \in 0..3 : AddGlyph(p, pad)
  \/ FinishSet
  \/ \E s \in LocaSizes : AddSize(s)
  \/ Decode
  \/ \E m \in {2, 4}, fmt \in {0, 1} : Encode(m, fmt)
  \/ \E i \in 1..3, m \in FixMaps : Fix(i, m)
  \/ EncodeRev
  \/ Put
  \/ \E i \in 1..3 : Comps(i)

Spec == Init /\ [][Next]_vars

-----
(* Invariants                                                              *)

\* the spec's decoder inverts the spec's encoder on every generated shape
EncodeDecode ==
  (ph = "run" /\ enc.fmt >= 0 /\ steps = 0) =>
    LET d == DecodeSet(enc.fmt, enc.loca, enc.glyf) IN
    /\ d.ok
    /\ [i \in 1..Len(d.d) |-> Value(d.d[i])] = shape
    /\ \A i \in 1..Len(d.d) : d.d[i].k # "nil" => d.d[i].used + 10 = Len(EncodeValue(shape[i]))

\* simple glyphs of "simple" shapes: the decoded points are the run list's meaning
PointsMeaning ==
  (ph = "run" /\ Kind = "simple" /\ steps = 0 /\ Len(acc) >= 1) =>
    LET g == shape[Len(shape)]
        s == DecodeSimple(g.nc, g.body)
    IN s.ok /\ s.pts = RunPoints(acc) /\ s.used = Len(g.body)
       /\ Len(s.pts) = NumPts(acc)
       /\ FoldLeft(LAMBDA a, c : a + Len(c), 0, Contours(s.ends, s.pts)) = Len(s.pts)

LocaInv ==
  enc.fmt >= 0 =>
    LET p == ParseLoca(enc.fmt, enc.loca) IN
    /\ p.ok /\ p.offs = ghost
    /\ OffsetsOK(p.offs, Len(enc.glyf))
    /\ FormatValid(enc.fmt, p.offs)
    /\ p.offs[Len(p.offs)] = Len(enc.glyf)

\* empty glyphs stay empty, everything else is preserved bit for bit
\* (up to the one ambiguity of the format, see CanonSet in GlyfOps: found by TLC with a writer
\* that pads to multiples of 4)
RoundTrip ==
  /\ (last = "decode" /\ prev # <<>>) => CanonSet(gs) = CanonSet(prev)
  /\ (last = "decode" /\ prev = <<>>) => gs = shape

\* FixComponents, stated on the whole state: every result so far is the source glyph with the
\* ids rewritten exactly and all other bytes of the record identical; the call leaves the glyph
\* set it was applied to, and every earlier result, unchanged (so do Components and Encode).
ResultOK(r) ==
  LET b  == r.src
      a  == r.g
      eb == EncodeValue(b)
      ea == EncodeValue(a)
  IN IF b.k # "c" THEN a = b
     ELSE /\ ComponentIds(a) = [j \in 1..Len(b.comps) |-> MapId(r.m, b.comps[j].gid)]
          /\ Len(ea) = Len(eb)
          /\ \A j \in 1..Len(b.comps) : a.comps[j].flags = b.comps[j].flags /\ a.comps[j].data = b.comps[j].data
          /\ a.instr = b.instr /\ a.hasinstr = b.hasinstr /\ a.bbox = b.bbox
          /\ Cardinality({q \in 1..Len(ea) : ea[q] # eb[q]}) <= 2 * Len(b.comps)
FixInv ==
  /\ \A k \in 1..Len(hs.res) : ResultOK(hs.res[k])
  /\ last \in {"fix", "comps", "encode", "encrev"} => gs = hs.pgs               \* source unchanged
  /\ last # "new" => SubSeq(hs.res, 1, Len(hs.pres)) = hs.pres                   \* earlier results unchanged
  /\ last = "fix" => hs.res[Len(hs.res)].src = gs[hs.res[Len(hs.res)].i]

\* Encode results are values: every result handed out is unchanged by every later call and still
\* decodes to the glyph set it was made from
HistInv ==
  /\ last # "new" => SubSeq(hs.encs, 1, Len(hs.pencs)) = hs.pencs
  /\ \A k \in 1..Len(hs.encs) :
       LET e == hs.encs[k]
           d == DecodeSet(e.fmt, e.loca, e.glyf)
       IN d.ok /\ CanonSet([i \in 1..Len(d.d) |-> Value(d.d[i])]) = CanonSet(e.src)

\* generation: one CASE line per finished shape
Info == [kind |-> Kind, glyphs |-> Len(shape), runs |-> IF Kind = "simple" THEN Len(acc) ELSE 0,
         pts |-> IF Kind = "simple" THEN NumPts(acc) ELSE 0,
         ks |-> [i \in 1..Len(shape) |-> shape[i].k], ncs |-> [i \in 1..Len(shape) |-> shape[i].nc]]
Emit == (ph = "run" /\ steps = 0 /\ Kind # "ops") =>
          PrintT(<<"CASE", ToJson([fmt |-> enc.fmt, loca |-> enc.loca, glyf |-> enc.glyf, info |-> Info])>>)
\* kind "ops": the initial tables and the complete call history (Decode first, then MaxSteps - 1 calls)
OpsTables == EncodeRecs([i \in 1..Len(shape) |-> PadTo(EncodeValue(shape[i]), 2)], (Salt + Len(shape)) % 2)
EmitOps == (Kind = "ops" /\ steps = MaxSteps) =>
          PrintT(<<"CASE", ToJson([fmt |-> OpsTables.fmt, loca |-> OpsTables.loca, glyf |-> OpsTables.glyf,
                                   ops |-> hs.ops, info |-> Info])>>)
=============================================================================
