CONSTANTS
  MaxTok = 1
  MaxStr = 1
  MaxRunes = 3
  MaxPeek = 1
  RuneKinds = {"p", "b"}
  DecMode = "tight"
  LineMode = "tracked"
  WithComments = FALSE
  CommentMode = "eofsafe"
  Pres = {"ok"}
  SpawnMode = "afterchecks"
SPECIFICATION Spec
INVARIANT TypeOK
INVARIANT SinkGood
CHECK_DEADLOCK TRUE
