CONSTANTS
  MaxTok = 2
  MaxStr = 1
  MaxRunes = 3
  MaxPeek = 1
  RuneKinds = {"p", "e", "b"}
  DecMode = "buffered"
  LineMode = "tracked"
  WithComments = FALSE
  CommentMode = "eofsafe"
  Pres = {"ok"}
  SpawnMode = "afterchecks"
SPECIFICATION Spec
INVARIANT TypeOK
INVARIANT SinkGood
INVARIANT NoOrphan
INVARIANT BufferSuffices
INVARIANT ResultOK
INVARIANT LineLaw
INVARIANT Emit
CHECK_DEADLOCK TRUE
