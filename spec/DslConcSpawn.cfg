CONSTANTS
  MaxTok = 1
  MaxStr = 1
  MaxRunes = 3
  MaxPeek = 1
  RuneKinds = {"p", "b"}
  DecMode = "buffered"
  LineMode = "tracked"
  WithComments = FALSE
  CommentMode = "eofsafe"
  Pres = {"ok", "nocmap"}
  SpawnMode = "first"
SPECIFICATION Spec
INVARIANT TypeOK
INVARIANT SinkGood
CHECK_DEADLOCK TRUE
