\* C04 GlyphGen, exhaustive on tiny constants: the generated descriptions are well formed
CONSTANTS
  GUnit = 1
  MaxG = 8
  D <- TinyD
  SD <- TinySD
  WPats <- TinyW
  StemPlans <- TinyPlans
  MaxGlyphs = 1
  MaxSteps = 2
  LineRuns <- TinyRuns
  CurveRuns <- TinyRuns
  FarJumps = TRUE
  SweepOnly = FALSE
  SweepA <- SweepAs
  SweepB <- SweepBs
  SweepKinds <- AllSweeps
  ValuePos <- AllPos
  Sim = FALSE
INIT Init
NEXT Next
INVARIANT CoordsOK
INVARIANT MasksOK
INVARIANT MoveFirst
INVARIANT StemsOK
CHECK_DEADLOCK FALSE
