\* C05/C04: exhaustive model checking of the Type 2 machine in generation mode.  Every operator
\* (one "feature" per family of behaviours on top of the base vocabulary), all operand vectors
\* over a two-value boundary set, programs of up to MaxOps stack-clearing operators.
CONSTANTS
  Unit = 1
  MaxV = 32000
  MaxPos = 1000000
  Vals <- TwoVals
  SVals <- TinySVals
  Sizes <- TinySizes
  DWs <- OneVal
  NWs <- OneVal
  MaskBytes <- OneVal
  GenOps <- AllGenOps
  MaxOps = 2
  MaxArgs = 3
  MaxArith = 1
  MaxCalls = 1
  Sim = FALSE
  Feats <- ExFeats
  Excluded <- NoExcl
  Faults <- NoFaults
  NGs <- OneGlyph
INIT Init
NEXT Next
VIEW View
INVARIANT FreshMachine
INVARIANT StackOK
INVARIANT DepthOK
INVARIANT StatusOK
INVARIANT WidthOK
INVARIANT StageOK
INVARIANT PathOK
INVARIANT ReplayAgrees
INVARIANT FaultIsError
PROPERTY StageMono
PROPERTY WidthOnce
PROPERTY MovedMono
CHECK_DEADLOCK FALSE
