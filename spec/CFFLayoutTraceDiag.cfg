SPECIFICATION Spec
CONSTANT Diag = TRUE
POSTCONDITION Accepted
CHECK_DEADLOCK FALSE
