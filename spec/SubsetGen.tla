----------------------------- MODULE SubsetGen -----------------------------
(***************************************************************************)
(* C10 -- the subsetter as a state machine over the abstract font of        *)
(* Subset.tla, the font families that are enumerated exhaustively, and the  *)
(* design-level checks TLC performs on them:                                *)
(*                                                                         *)
(*   Append(g)  append a glyph that a retained composite refers to, or the  *)
(*              output of a GSUB rule whose inputs are all retained         *)
(*              (subset.go getNewGid / the component loop), in any order;   *)
(*   Finish     stop once the mandatory closure is reached.                 *)
(*                                                                         *)
(* Invariants: every reachable glyph set stays inside MaxSet; a state with  *)
(* no enabled Append has exactly MaxSet (the closure does not depend on the *)
(* order in which extras are found); every finished run yields a result     *)
(* that the relation accepts (satisfiable), whose content in old glyph ids  *)
(* is the restriction of the font to the retained set (deterministic up to  *)
(* the order of the extras), and typical wrong results are rejected.        *)
(* Emit prints one CASE per (font, list): the cases replayed into the code. *)
(***************************************************************************)
EXTENDS Subset, Json

CONSTANT Fonts
VARIABLES font, list, glyphs, pc
vars == <<font, list, glyphs, pc>>

Lists(n) ==
  { <<0>> \o s : s \in UNION { { t \in [1..k -> 1..(n - 1)] : Inj(t) } : k \in 0..(n - 1) } }

(***************************************************************************)
(* Font families.                                                           *)
(***************************************************************************)
StdCmap(n) == [i \in 1..(n - 1) |-> <<65 + i, i>>] \o (IF n >= 2 THEN << <<97, 1>> >> ELSE << >>)

Base(kind, n) ==
  [ kind |-> kind, n |-> n,
    out  |-> [i \in 1..n |-> i - 1],
    w    |-> [i \in 1..n |-> 300 + 10 * (i - 1)],
    name |-> [i \in 1..n |-> IF kind = "cid" THEN -1 ELSE i - 1],
    cid  |-> [i \in 1..n |-> IF kind = "cid" THEN (IF i = 1 THEN 0 ELSE 2 * i + 1) ELSE -1],
    fd   |-> [i \in 1..n |-> IF kind = "ttf" THEN -1 ELSE 0],
    comp |-> [i \in 1..n |-> << >>],
    nameset |-> "plain", cmapcfg |-> "4", cmap |-> StdCmap(n),
    hasenc |-> FALSE, enc |-> << >>,
    gsub |-> "none", ligs |-> << >>, ligsplit |-> 0, subs |-> << >>, subs2 |-> << >>,
    gpos |-> FALSE, pairs |-> << >>, pairs2 |-> << >> ]

\* TrueType: glyph 1 is an empty glyph (no outline, like "space") unless it is a composite
WithComp(F, c) ==
  [F EXCEPT !.comp = c,
            !.out = [i \in 1..F.n |-> IF i = 2 /\ c[2] = << >> THEN -3 ELSE i - 1]]

\* component lists of glyph g: none, one component, or two (in decreasing order); lo = 0 lets
\* glyph 0 take part, lo = 1 keeps .notdef simple and unreferenced
CompOptions(n, g, lo) ==
  LET O == (lo..(n - 1)) \ {g}
  IN  IF g < lo THEN {<< >>}
      ELSE {<< >>} \cup { <<a>> : a \in O } \cup { <<a, b>> : <<a, b>> \in { p \in O \X O : p[1] > p[2] } }

RECURSIVE CompSeqs(_, _, _)
CompSeqs(n, k, lo) ==    \* all choices for glyphs 0..k-1
  IF k = 0 THEN { << >> }
  ELSE { Append(c, o) : c \in CompSeqs(n, k - 1, lo), o \in CompOptions(n, k - 1, lo) }

\* T: all acyclic component graphs with at most maxc composite glyphs
FamT(n, maxc, lo) ==
  { F \in { WithComp(Base("ttf", n), c) :
             c \in { d \in CompSeqs(n, n, lo) : Cardinality({ i \in 1..n : d[i] # << >> }) <= maxc } } :
      Acyclic(F) }

Rules2(n) == { <<a, b, c>> : a \in 1..(n - 1), b \in 1..(n - 1), c \in 1..(n - 1) }
FirstRules(n) ==
  { <<1, 2, 3>>, <<1, 1, 2>>, <<1, 2, 1>>, <<1, 2>> } \cup (IF n >= 5 THEN { <<1, 2, 3, 4>> } ELSE {})
SecondRules(n) == Rules2(n) \cup { <<3, 1>>, <<2, 2>> } \cup (IF n >= 5 THEN { <<3, 1, 2, 4>> } ELSE {})

SubOptions ==   \* <<gsub lookup order, single substitutions>>
  << <<"l", << >> >>, <<"sl", << <<1, 2>> >> >>, <<"ls", << <<2, 3>> >> >>, <<"sl", << <<3, 2>>, <<2, 1>> >> >> >>

\* L: ligature rules (one or two, the second arbitrary) x single substitutions (options sos)
FamL(n, kinds, sos) ==
  { [Base(k, n) EXCEPT !.gsub = so[1], !.subs = so[2], !.ligs = lg] :
      k \in kinds,
      so \in { SubOptions[i] : i \in sos },
      lg \in { <<r>> : r \in FirstRules(n) } \cup
             { <<r, q>> : <<r, q>> \in { p \in FirstRules(n) \X SecondRules(n) : p[1] # p[2] } } }
  \cup { [Base("ttf", n) EXCEPT !.gsub = "s", !.subs = << <<1, 2>> >>],
         [Base("ttf", n) EXCEPT !.gsub = "s", !.subs = << <<3, 2>>, <<2, 1>> >>],     \* a coverage table with two glyphs
         [Base("cff", n) EXCEPT !.gsub = "ls", !.subs = << <<1, 2>>, <<2, 3>> >>, !.ligs = << <<2, 1, 3>>, <<1, 2, 3>> >>],
         [Base("cff", n) EXCEPT !.gsub = "sl", !.subs = << <<1, 2>> >>] }

PairU(n) == { <<a, b, 10 * a + b + 1>> : a \in 1..(n - 1), b \in 1..(n - 1) }
CompLast(F) == WithComp(F, [i \in 1..F.n |-> IF i = F.n THEN <<1>> ELSE << >>])

\* P: kerning pairs (all sets of at most two pairs, and one large set), with a composite that creates extras
FamP(n) ==
  { [CompLast(Base("ttf", n)) EXCEPT !.gpos = TRUE, !.pairs = SetToSeq(ps)] :
      ps \in { s \in SUBSET PairU(n) : Cardinality(s) <= 2 } \cup { PairU(n) } }
  \cup { [Base("cff", n) EXCEPT !.gpos = TRUE, !.pairs = SetToSeq(PairU(n)),
                                 !.gsub = "l", !.ligs = << <<1, 2>> >>] }

CmapOf(codes, f) ==    \* f : 1..3 -> 0..n-1, 0 = not mapped
  SelectSeq([i \in 1..3 |-> <<codes[i], f[i]>>], LAMBDA e : e[2] # 0)

\* C: all character maps on three codes (consecutive, so that dropping or moving a glyph breaks and re-forms
\* runs of the encoded subtable; or scattered up to the astral planes), in format 4, format 12 and both,
\* with a composite that creates extras
FamC(n) ==
  { [CompLast(Base("ttf", n)) EXCEPT !.cmapcfg = cfg[1], !.cmap = CmapOf(cfg[2], f)] :
      cfg \in { <<"4", <<66, 67, 68>> >>, <<"12", <<66, 67, 68>> >>,            \* a run of consecutive codes
               <<"4|12", <<66, 128512, 128513>> >>,    \* a format 12 subtable with the astral codes only
               <<"4+12", <<66, 8364, 128512>> >> },
      f \in [1..3 -> 0..(n - 1)] }
  \cup { [CompLast(Base("ttf", n)) EXCEPT !.cmapcfg = "none", !.cmap = << >>] }
  \cup { [Base(k, n) EXCEPT !.cmapcfg = "4+12", !.cmap = CmapOf(<<66, 8364, 128512>>, f),
                            !.gsub = "l", !.ligs = << <<1, 1, 2>> >>] :
           k \in {"cff", "cid"}, f \in { <<1, 2, 3>>, <<2, 2, 1>> } }

\* D: CID-keyed CFF, all assignments of glyphs to three font dictionaries
FamD(n) ==
  { [Base("cid", n) EXCEPT !.fd = f, !.cmapcfg = "12"] : f \in [1..n -> 0..2] }

\* E: simple CFF, all built-in encodings on three codes; a one-glyph ligature creates extras
FamE(n) ==
  { [Base("cff", n) EXCEPT !.hasenc = TRUE, !.enc = CmapOf(<<40, 41, 200>>, f), !.gsub = g[1], !.ligs = g[2]] :
      f \in [1..3 -> 0..(n - 1)], g \in { <<"none", << >> >>, <<"l", << <<1, 2>> >> >> } }
  \cup { Base("cff", n) }

\* N: simple CFF fonts whose glyphs carry StandardEncoding ("A", "B", "C": codes 65, 66, 67) or
\* ExpertEncoding names ("zerooldstyle", ...: codes 48, 49, 50) with all built-in encodings on those three
\* codes: the predefined encoding itself, sub-encodings that leave a standard-named glyph unencoded,
\* permutations, and a super-set with a further code.  A writer that takes such an encoding for the
\* predefined one (or a reader that rebuilds it from the names) changes what the codes mean.
FamN(n) ==
  { [Base("cff", n) EXCEPT !.nameset = ns[1], !.hasenc = TRUE, !.enc = CmapOf(ns[2], f) \o x] :
      ns \in { <<"std", <<65, 66, 67>> >>, <<"expert", <<48, 49, 50>> >> },
      f \in [1..3 -> 0..(n - 1)], x \in { << >> } }
  \cup { [Base("cff", n) EXCEPT !.nameset = "std", !.hasenc = TRUE, !.enc = << <<65, 1>>, <<66, 2>>, <<200, 3>> >>],
         [Base("ttf", n) EXCEPT !.nameset = "std"], [Base("ttf", n) EXCEPT !.nameset = "expert"] }

\* M: composites x GSUB (a ligature output that is a composite, a component that is a rule input)
MixComps(n) ==
  { [i \in 1..n |-> IF i = 4 THEN <<1>> ELSE << >>],
    [i \in 1..n |-> IF i = 4 THEN <<2, 1>> ELSE << >>],
    [i \in 1..n |-> IF i = 4 THEN <<2>> ELSE IF i = 3 THEN <<1>> ELSE << >>] }
FamM(n) ==
  { [WithComp(Base("ttf", n), c) EXCEPT !.gsub = so[1], !.subs = so[2], !.ligs = <<r>>,
                                         !.gpos = TRUE, !.pairs = << <<1, 2, 13>>, <<3, 1, 32>> >>] :
      c \in MixComps(n), r \in Rules2(n) \cup { <<1, 3>>, <<2, 3>>, <<3, 2>> },
      so \in { <<"l", << >> >>, <<"sl", << <<1, 2>> >> >> } }

\* S: lookups of two subtables that overlap on their keys (the first subtable wins, before and after
\* subsetting), and rules that involve glyph 0: .notdef is always retained as new glyph 0, so the coverage
\* tables of the subset start at 0 and, the retained glyphs being renumbered 0, 1, 2, ..., consist of long
\* runs (range format).  Dense(F) gives every glyph a pair, a ligature and a single substitution.
Dense(F) ==
  [F EXCEPT !.gsub = "ls", !.gpos = TRUE,
            !.ligs  = [i \in 1..F.n |-> <<i - 1, i - 1, i - 1>>],
            !.subs  = [i \in 1..F.n |-> <<i - 1, i - 1>>],
            !.pairs = [i \in 1..F.n |-> <<i - 1, i % F.n, 40 + i>>]]
FamS(n) ==
  { [B EXCEPT !.gpos = TRUE, !.pairs = << <<1, 2, 10>>, <<2, 3, 11>> >>,
                             !.pairs2 = << <<1, 2, 20>>, <<3, 1, 21>>, <<2, 3, 22>>, <<0, 1, 23>> >>,
              !.gsub = g[1], !.subs = g[2], !.subs2 = g[3], !.ligs = g[4], !.ligsplit = g[5]] :
      B \in { CompLast(Base("ttf", n)), Base("cff", n) },
      g \in { <<"s",  << <<1, 2>> >>, << <<1, 3>>, <<0, 2>> >>, << >>, 0>>,
              <<"sl", << <<2, 1>>, <<3, 2>> >>, << <<2, 3>>, <<1, 2>> >>, << <<2, 1, 3>> >>, 1>>,
              <<"l",  << >>, << >>, << <<1, 2, 3>>, <<1, 2, 2>>, <<0, 1, 2>>, <<1, 3>> >>, 1>>,
              <<"ls", << <<0, 1>> >>, << >>, << <<1, 2, 3>>, <<2, 2>>, <<1, 2, 1>>, <<2, 1>> >>, 2>> } }
  \cup { Dense(Base("ttf", n)), Dense(Base("cff", n)), Dense(CompLast(Base("ttf", n))) }
  \cup { [Base("ttf", n) EXCEPT !.out = [i \in 1..n |-> IF i <= 2 THEN -3 ELSE i - 1]] }   \* blank .notdef and space

\* The families are instantiated in small MC modules (SubsetMC.tla, or generated by checks/C10.py):
\* TLC evaluates every zero-arity constant definition at start-up, so they must not all live here.
FamQ(n) == FamS(n) \cup FamN(n) \cup FamT(n, 3, 1) \cup FamL(n, {"ttf"}, {3}) \cup FamP(n) \cup FamC(n) \cup FamD(n) \cup FamE(n) \cup FamM(n)

(***************************************************************************)
(* The subsetter.                                                           *)
(***************************************************************************)
S == ToSet(glyphs)
NeededByComp(g) == g \notin S /\ \E h \in S : g \in Comps(font, h)
NeededByRule(g) == g \notin S /\ \E r \in LigRules(font) \cup SubRules(font) : RuleIn(r) \subseteq S /\ RuleOut(r) = g
Needed(g) == NeededByComp(g) \/ NeededByRule(g)

\* the glyph list is chosen step by step (every duplicate-free list that starts with glyph 0)
Init ==
  /\ font \in Fonts
  /\ list = <<0>>
  /\ glyphs = << >>
  /\ pc = "listing"

ListAdd(g) ==
  /\ pc = "listing" /\ g \notin ToSet(list)
  /\ list' = Append(list, g)
  /\ UNCHANGED <<font, glyphs, pc>>

ListDone ==
  /\ pc = "listing"
  /\ glyphs' = list /\ pc' = "closing"
  /\ UNCHANGED <<font, list>>

AppendGlyph(g) ==
  /\ pc = "closing" /\ Needed(g)
  /\ glyphs' = Append(glyphs, g)
  /\ UNCHANGED <<font, list, pc>>

Finish ==
  /\ pc = "closing"
  /\ CompStep(font, S) = S
  /\ MinSet(font, list) \subseteq S
  /\ pc' = "done"
  /\ UNCHANGED <<font, list, glyphs>>

Next == ListDone \/ Finish \/ \E g \in Gids(font) : ListAdd(g) \/ AppendGlyph(g)
Spec == Init /\ [][Next]_vars

(***************************************************************************)
(* What TLC checks.                                                         *)
(***************************************************************************)
TypeOK ==
  /\ (pc = "listing" /\ list = <<0>>) => WellFormed(font)      \* the font never changes
  /\ GoodList(font, list)
  /\ (pc = "closing" /\ glyphs = list) => list \in Lists(font.n)
  /\ pc \in {"listing", "closing", "done"}
  /\ pc # "listing" => Inj(glyphs) /\ SubSeq(glyphs, 1, Len(list)) = list

InMax == pc # "listing" => S \subseteq MaxSet(font, list) /\ MinSet(font, list) \subseteq MaxSet(font, list)

\* the closure does not depend on the order in which the extras are found, and a run can always finish
Saturated == (pc = "closing" /\ \A g \in Gids(font) : ~Needed(g)) =>
                 /\ S = MaxSet(font, list)
                 /\ CompStep(font, S) = S

Result == Build(font, glyphs)

\* satisfiable: the result of every finished run is accepted, also after Write + Read
DoneAccepted == pc = "done" =>
  /\ Failed(font, list, Result) = {}
  /\ FailedReread(font, Result, "ok", Result) = {}

\* deterministic up to the order of extras: in old glyph ids the result is the font restricted to S
DoneCanonical == pc = "done" => Canon(font, Result) = CanonOf(font, S)

\* the relation is not vacuous: typical wrong results are rejected
Mutants(F, B) ==
  LET N == Len(B.glyphs) IN
  (IF \E k \in 1..Len(B.cmaps) : B.cmaps[k] # << >>
     THEN { [B EXCEPT !.cmaps = [k \in 1..Len(B.cmaps) |-> << >>]] } ELSE {})
  \cup (IF B.ligs # << >> THEN { [B EXCEPT !.ligs = << >>] } ELSE {})
  \cup { [B EXCEPT !.glyphs[N].out = 77] }
  \cup { [B EXCEPT !.glyphs[N].pd = B.glyphs[N].pd + 1] }
  \cup (IF N >= 2 THEN { [B EXCEPT !.glyphs[1].w = B.glyphs[2].w] } ELSE {})
  \cup { [B EXCEPT !.glyphs[i].comps[1] = (B.glyphs[i].comps[1] + 1) % N] :
           i \in { j \in 1..N : B.glyphs[j].comps # << >> /\ N >= 2 } }
  \cup (IF \E k \in 1..Len(B.pairs) : glyphs[B.pairs[k][2] + 1] # B.pairs[k][2] \/ glyphs[B.pairs[k][3] + 1] # B.pairs[k][3]
          THEN { [B EXCEPT !.pairs = [k \in 1..Len(B.pairs) |->
                    <<"kern", glyphs[B.pairs[k][2] + 1], glyphs[B.pairs[k][3] + 1], B.pairs[k][4]>>]] }   \* not re-keyed
          ELSE {})
  \cup (IF \E k \in 1..Len(B.enc) : glyphs[B.enc[k][2] + 1] # B.enc[k][2]
          THEN { [B EXCEPT !.enc = [k \in 1..Len(B.enc) |-> <<B.enc[k][1], glyphs[B.enc[k][2] + 1]>>]] }
          ELSE {})
  \cup { [B EXCEPT !.ligs[k][1] = "smcp"] : k \in 1..Len(B.ligs) }

DoneDiscriminates == pc = "done" => \A M \in Mutants(font, Result) : Failed(font, list, M) # {}

\* stopping at the bare list is rejected when the list is not closed
NoClosureRejected ==
  (pc = "closing" /\ glyphs = list /\ MinSet(font, list) # ToSet(list) /\ CompStep(font, S) = S)
     => "closure" \in Failed(font, list, Build(font, list))

Emit == (pc = "closing" /\ glyphs = list) =>
  PrintT(<<"CASE", ToJson([f |-> font, list |-> list])>>)
=============================================================================
