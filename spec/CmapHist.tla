------------------------------ MODULE CmapHist ------------------------------
(***************************************************************************)
(* C09, results with a history (object model).  The cmap package hands out *)
(* values: Format0/4/12.Encode and Table.Encode return byte slices,         *)
(* Table.Get returns a decoded Subtable, cmap.Decode returns a Table whose *)
(* subtables are views of the bytes it was given.  The property speaks of   *)
(* "the encoded subtable" and "the decoded mapping" as values; a caller who *)
(* keeps two of them (two subtables in one cmap.Table, one map encoded for  *)
(* two languages) must find both unchanged.  This machine states that:      *)
(*                                                                         *)
(*   ops    the calls so far, [op, a] (a = argument shape)                  *)
(*   outs   per call, where its result lives, [k, of]:                      *)
(*            "own"   storage of its own                                    *)
(*            "buf"   a package-level scratch buffer (the design this       *)
(*                    machine rules out): the buffer holds the result of    *)
(*                    the LAST call that used it                            *)
(*            "view"  a view of the result of call `of` (cmap.Decode of an  *)
(*                    earlier Table.Encode result); of = 0: a view of       *)
(*                    bytes owned by the caller                             *)
(*   buf    the call whose result the scratch buffer holds now (0 = none)   *)
(*                                                                         *)
(* ResultsStable: no result handed out ever changes (as long as the caller  *)
(* leaves the bytes alone that a Table returned by cmap.Decode views).      *)
(* TLC enumerates ALL histories of MaxOps calls; each is printed as a CASE  *)
(* and executed by harness/cmd/c09 with the real slices and maps retained;  *)
(* CmapTrace.tla judges the recorded values (correct when handed out,       *)
(* unchanged after all later calls, inputs untouched, decoded subtables      *)
(* independent of the bytes they were decoded from).                        *)
(* CmapHistReuse.cfg (AllowScratchReuse = TRUE) must violate ResultsStable. *)
(*                                                                         *)
(* The initial state prints the spec-encoded subtables / table the decode   *)
(* calls are fed with (non-minimal format 4 with idDelta, format 6, 0, 12). *)
(***************************************************************************)
EXTENDS Cmap, Json

CONSTANTS MaxOps, AllowScratchReuse
VARIABLES ops, outs, buf
vars == <<ops, outs, buf>>

\* op, number of argument shapes
Shapes == { <<"E4", 4>>, <<"E12", 3>>, <<"E0", 2>>, <<"G4", 2>>, <<"G6", 2>>, <<"G0", 2>>, <<"G12", 2>>,
            <<"GL", 1>>, <<"TE", 2>>, <<"TD", 2>> }
Encoders == {"E4", "E12", "E0"}

Init == ops = <<>> /\ outs = <<>> /\ buf = 0

LastTE == LET s == {i \in 1..Len(ops) : ops[i].op = "TE"} IN IF s = {} THEN 0 ELSE CHOOSE i \in s : \A j \in s : j <= i

Call ==
  /\ Len(ops) < MaxOps
  /\ \E s \in Shapes : \E a \in 0..s[2] - 1 :
       LET me    == Len(ops) + 1
           inbuf == AllowScratchReuse /\ s[1] = "E4"
           where == IF s[1] = "TD" THEN [k |-> "view", of |-> IF a = 0 THEN LastTE ELSE 0]
                    ELSE IF inbuf THEN [k |-> "buf", of |-> 0] ELSE [k |-> "own", of |-> 0]
       IN /\ ops'  = Append(ops, [op |-> s[1], a |-> a])
          /\ outs' = Append(outs, where)
          /\ buf'  = IF inbuf THEN me ELSE buf
Next == Call
Spec == Init /\ [][Next]_vars

\* the value a retained result has NOW (i = unchanged, anything else = changed)
RECURSIVE ValueNow(_)
ValueNow(i) ==
  IF outs[i].k = "own" THEN i
  ELSE IF outs[i].k = "buf" THEN buf
  ELSE IF outs[i].of = 0 THEN i                                  \* view of caller-owned bytes
  ELSE IF ValueNow(outs[i].of) = outs[i].of THEN i ELSE 0        \* view of an earlier result
ResultsStable == \A i \in 1..Len(outs) : ValueNow(i) = i

\* ---- the fixed inputs of the decode calls, encoded by the specification
MapA  == << <<65, 1>>, <<66, 2>>, <<67, 5>> >>
MapB  == << <<32, 9>>, <<33, 4>>, <<34, 8>>, <<40, 6>>, <<8364, 11>> >>
MapM  == << <<65, 1>>, <<128, 2>>, <<129, 7>>, <<200, 3>> >>           \* Mac Roman codes
Map12 == << <<65, 1>>, <<66, 2>>, <<128512, 9>>, <<128513, 10>> >>
Fixed ==
  LET f4a == Build4(ArrSegs(MapB, 3), 0)
      f6a == Enc6(MapA, 0)
  IN [kind |-> "fixed",
      f4a |-> f4a,                              f4b |-> Build4(WideSegs(MapM, 5), 0),
      f6a |-> f6a,                              f6b |-> Enc6(MapM, 0),
      f0a |-> Enc0(MapM, 0),                    f0b |-> Enc0(MapA, 0),
      f12a |-> Enc12(Map12, 0),                 f12b |-> Enc12Single(Map12, 0),
      ftab |-> TableEnc(<< <<0, 3, WordsToBytes(f6a)>>, <<1, 0, WordsToBytes(f6a)>>, <<3, 1, WordsToBytes(f4a)>> >>,
                        << WordsToBytes(f4a), WordsToBytes(f6a) >>)]
FixedOK == LET f == Fixed IN
  /\ WF4(f.f4a, 0) /\ Pairs4(f.f4a) = MapB /\ WF4(f.f4b, 0) /\ Pairs4(f.f4b) = MapM
  /\ WF6(f.f6a, 0) /\ Pairs6(f.f6a) = MapA /\ WF6(f.f6b, 0) /\ Pairs6(f.f6b) = MapM
  /\ WF0(f.f0a, 0) /\ Pairs0(f.f0a) = MapM /\ WF0(f.f0b, 0) /\ Pairs0(f.f0b) = MapA
  /\ WF12(f.f12a, 0) /\ Pairs12(f.f12a) = Map12 /\ WF12(f.f12b, 0) /\ Pairs12(f.f12b) = Map12
  /\ WFTable(f.ftab) /\ NumTables(f.ftab) = 3

EmitFixed == ops = <<>> => FixedOK /\ PrintT(<<"CASE", ToJson(Fixed)>>)
Emit == Len(ops) = MaxOps => PrintT(<<"CASE", ToJson([kind |-> "hist", ops |-> ops])>>)
=============================================================================
