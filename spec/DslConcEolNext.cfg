CONSTANTS
  MaxTok = 2
  MaxStr = 1
  MaxRunes = 2
  MaxPeek = 1
  RuneKinds = {"p"}
  DecMode = "buffered"
  LineMode = "eolnext"
  WithComments = FALSE
  CommentMode = "eofsafe"
  Pres = {"ok"}
  SpawnMode = "afterchecks"
SPECIFICATION Spec
INVARIANT TypeOK
INVARIANT ResultOK
INVARIANT LineLaw
CHECK_DEADLOCK TRUE
