CONSTANTS
  MaxCode = 65535
SPECIFICATION Spec
POSTCONDITION Accepted
CHECK_DEADLOCK FALSE
