CONSTANTS
  Mode = "find"
  Gen = FALSE
  CmapMenu <- XKCmapMenu
  WidthMenu <- XLWidthMenu
  MarkMenu <- NoPairs
  PlanMenu <- XFPlanMenu
  GsubMenu <- GFGsubMenu
  GposMenu <- XLGposMenu
  FeatTagsG <- XFFeatTags
  FeatTagsP <- XLFeatTagsP
  LkMenu <- XFLkMenu
  ReqMenu <- XFReqMenu
  OptMenu <- XFOptMenu
  TagPool <- XFTagPool
  ReqPool <- XFReqPool
  SwMenuG <- XFSwMenu
  SwMenuP <- XLSwMenuP
  FlagMenu <- NoFlags
  PairsMenu <- NoPairs
  Chars <- XLChars
  Words <- NoWords
  MaxStr = 0
  MaxCalls = 2
INIT Init
NEXT Next
INVARIANT SelectionOK
INVARIANT Conserved
INVARIANT WidthsOK
INVARIANT Composition
INVARIANT Stable
INVARIANT KernOK
INVARIANT KernExact
INVARIANT Emit
CHECK_DEADLOCK FALSE
