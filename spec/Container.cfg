\* C03 quick tier: every map over five tags (absent / nil / lengths 0..3, three head lengths),
\* three scaler types, two physical orders.  checks/C03.py derives the other configurations.
CONSTANTS
  UseTags = {1, 3, 4, 5, 6}
  MaxLen = 3
  HeadLens = {12, 54, 57}
  UseNil = TRUE
  Scalers = {"ttf", "otto", "true"}
  Limit = 4
  Orders = {"recommended", "revtag"}
SPECIFICATION Spec
INVARIANT InvHeader
INVARIANT InvCount
INVARIANT InvSearchFields
INVARIANT InvSorted
INVARIANT InvExtent
INVARIANT InvNoOverlap
INVARIANT InvChecksums
INVARIANT InvFileSum
INVARIANT InvWellFormed
INVARIANT InvLength
INVARIANT InvPadZero
INVARIANT InvRoundTrip
INVARIANT InvAgree
CHECK_DEADLOCK FALSE
