CONSTANTS
  Part = "name"
  Keys <- MCKeys
  MacStrs <- MCMacStrs
  WinStrs <- MCWinStrs
  PStd <- MCPStd
  PNames <- MCPNames
  PMaxLen = 4
  CUnits <- MCUnits
  CCps <- MCCps
  MaxOps = 4
  AllowSharedMutation = FALSE
  CMaxOps = 2
  AllowScratchReuse = FALSE
  FieldMax = 7
  DecWraps = FALSE
  Pairs <- MCPairs
  BaseOf <- MCBaseOf
INIT Init
NEXT Next
CHECK_DEADLOCK FALSE
INVARIANT RecordsInside
INVARIANT RecordsFaithful
INVARIANT StorageTight
INVARIANT NameRoundTrip
INVARIANT FieldsFit
INVARIANT NoPanic
INVARIANT RefusalJustified
