\* every value of every dimension once (exhaustive)
CONSTANTS
  Mode = "ofat"
  Pads = {}
  BigNs = {}
  PermA = 23
  PermB = 13
INIT Init
NEXT Next
INVARIANT Emit
CHECK_DEADLOCK FALSE
