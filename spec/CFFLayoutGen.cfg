\* every value of every dimension once (exhaustive)
CONSTANTS
  Mode = "ofat"
  Pads = {}
  BigNs = {}
INIT Init
NEXT Next
INVARIANT Emit
CHECK_DEADLOCK FALSE
