SPECIFICATION Spec
CHECK_DEADLOCK FALSE
INVARIANT BugAccepted
CONSTANTS
  MinN = 1
  MinRules = 0
  MaxN = 2
  PoolSel = "tiny"
  Codes = {}
  MaxRules = 1
  RuleTypes = {4}
  LigLens = {1, 2}
  Kinds = {"cff"}
  CmapFormats = {"4"}
  LigFirst = 0
  TextSel = "none"
  Flags = FALSE
  Quiet = TRUE
