SPECIFICATION Spec
CHECK_DEADLOCK FALSE
INVARIANT BugAccepted
CONSTANTS
  MaxN = 2
  PoolSel = "tiny"
  Codes = {}
  MaxRules = 1
  RuleTypes = {4}
  LigLens = {1, 2}
  Kinds = {"cff"}
  CmapFormats = {"4"}
  LigFirst = -1
  TextSel = "none"
  Flags = FALSE
  Quiet = TRUE
