------------------------------ MODULE NamesLaw ------------------------------
(***************************************************************************)
(* C20.  The law of glyph-name completion, as predicates over              *)
(*                                                                         *)
(*      problem P = (n, given names, character texts, GSUB rules)          *)
(*      result  r = a sequence of names                                    *)
(*                                                                         *)
(* written from the property text and the Adobe Glyph List Specification   *)
(* (glyph name = base name [ "." suffix ], ligature = components joined by *)
(* "_", "uniXXXX"/"uXXXX" forms), NOT from names.go.  Nothing here fixes   *)
(* the spelling of a variant suffix or of a placeholder, the order in      *)
(* which glyphs are served, or which of two duplicates keeps its name.     *)
(*                                                                         *)
(* A name is a byte string: a sequence of 0..255 (Go strings are byte      *)
(* strings; TLC strings are atomic).  Glyph ids are 0..n-1, the name of    *)
(* glyph g in a sequence s is s[g+1].  <<>> = "no name".                   *)
(*                                                                         *)
(* P.given  : sequence of n names as found in the font                     *)
(* P.texts  : sequence of n sets of texts; a text is a sequence of code    *)
(*            points the glyph stands for (cmap: one text of length 1 per  *)
(*            code mapped to the glyph; MakeSimple: the glyphText entry)   *)
(* P.rules  : sequence of [t |-> 1|3|4, src |-> <<glyphs>>, dst |-> glyph] *)
(*            t=1 single, t=3 alternate (src has one glyph), t=4 ligature  *)
(*            (src = all components, first one is the coverage glyph)      *)
(***************************************************************************)
EXTENDS Integers, Sequences, FiniteSets, SequencesExt

NOTDEF == <<46, 110, 111, 116, 100, 101, 102>>      \* ".notdef"
Dot == 46
Underscore == 95

Glyphs(P) == 0 .. P.n - 1
Nm(s, g) == s[g + 1]

---------------------------------------------------------------------------
(* Byte-string helpers *)
BytePrefix(p, s) == Len(p) <= Len(s) /\ SubSeq(s, 1, Len(p)) = p

\* AGL specification, section 2: "base.suffix" -- s is a variant name of base
IsVariantOf(s, base) == /\ base # <<>>
                        /\ Len(s) >= Len(base) + 2
                        /\ BytePrefix(base \o <<Dot>>, s)

\* AGL specification: a ligature name is the component names joined by underscores
Join2(a, b) == IF a = <<>> THEN b ELSE a \o <<Underscore>> \o b
Join(parts) == FoldLeft(Join2, <<>>, parts)

IsLetter(b) == (b >= 65 /\ b <= 90) \/ (b >= 97 /\ b <= 122)
IsDigit(b)  == b >= 48 /\ b <= 57

\* A name every reading accepts as a valid glyph name: AGL specification section 2
\* (letters, digits, period, underscore; not starting with a digit or period; ".notdef"),
\* at most 31 bytes (Type 1 limit; the newer 63 is the laxer reading).
ValidName(s) ==
  \/ s = NOTDEF
  \/ /\ Len(s) >= 1 /\ Len(s) <= 31
     /\ \A k \in 1..Len(s) : IsLetter(s[k]) \/ IsDigit(s[k]) \/ s[k] = Dot \/ s[k] = Underscore
     /\ ~IsDigit(s[1]) /\ s[1] # Dot

---------------------------------------------------------------------------
(* Adobe glyph list, restricted to the code points the check uses.         *)
(* AGLNames(c) = every spelling some reading of "the Adobe-glyph-list name *)
(* of c" permits: glyphlist.txt / aglfn.txt entries, the decomposed form   *)
(* AGLFN recommends for compatibility ligatures, and uniXXXX / uXXXX.      *)
(* A code point that is not on the list creates no demand; its uni/u name  *)
(* is still recognised as a name that comes from the character map.        *)
HexDigit(d) == IF d < 10 THEN 48 + d ELSE 55 + d
Hex4(c) == << HexDigit((c \div 4096) % 16), HexDigit((c \div 256) % 16),
              HexDigit((c \div 16) % 16), HexDigit(c % 16) >>
HexUp(c)   == IF c < 65536 THEN Hex4(c)
              ELSE IF c < 1048576 THEN <<HexDigit(c \div 65536)>> \o Hex4(c % 65536)
              ELSE <<HexDigit(c \div 1048576), HexDigit((c \div 65536) % 16)>> \o Hex4(c % 65536)
UniName(c) == <<117, 110, 105>> \o Hex4(c)          \* "uni" XXXX   (BMP only)
UName(c)   == <<117>> \o HexUp(c)                   \* "u" XXXX[XX]

Listed(c) ==
  CASE c = 32    -> { <<115, 112, 97, 99, 101>> }                                  \* space
    [] c = 65    -> { <<65>> }                                                     \* A
    [] c = 66    -> { <<66>> }                                                     \* B
    [] c = 102   -> { <<102>> }                                                    \* f
    [] c = 105   -> { <<105>> }                                                    \* i
    [] c = 106   -> { <<106>> }                                                    \* j
    [] c = 160   -> { <<110, 98, 115, 112, 97, 99, 101>>,                          \* nbspace
                      <<110, 111, 110, 98, 114, 101, 97, 107, 105, 110, 103,
                        115, 112, 97, 99, 101>> }                                  \* nonbreakingspace
    [] c = 171   -> { <<103, 117, 105, 108, 108, 101, 109, 111, 116, 108, 101, 102, 116>> }   \* guillemotleft
    [] c = 187   -> { <<103, 117, 105, 108, 108, 101, 109, 111, 116, 114, 105, 103, 104, 116>> }   \* guillemotright
    [] c = 307   -> { <<105, 106>>, <<105, 95, 106>> }                             \* ij, i_j   (U+0133)
    [] c = 64257 -> { <<102, 105>>, <<102, 95, 105>> }                             \* fi, f_i   (U+FB01)
    [] OTHER     -> {}

AGLNames(c) == Listed(c) \cup (IF c < 65536 THEN {UniName(c), UName(c)} ELSE {UName(c)})

\* names of a text = component names joined by "_"
AGLText(t) == FoldLeft(LAMBDA acc, c : {Join2(a, s) : a \in acc, s \in AGLNames(c)}, {<<>>}, t)
                 \ {<<>>}

\* only a text all of whose code points are on the glyph list creates a demand
Demanded(t) == t # <<>> /\ \A k \in 1..Len(t) : Listed(t[k]) # {}

---------------------------------------------------------------------------
(* The clauses.  Each yields the set of <<clause, glyph>> pairs that fail. *)

\* "every existing unique name kept": demanded only of a name that is valid, occurs exactly
\* once among the given names (glyph 0 included) and is not the reserved ".notdef".
MustKeep(P, g) ==
  /\ g >= 1
  /\ ValidName(Nm(P.given, g)) /\ Nm(P.given, g) # NOTDEF
  /\ \A h \in Glyphs(P) \ {g} : Nm(P.given, h) # Nm(P.given, g)

\* the glyph has no claim to a name of its own and did not keep one: its name is inferred
Needs(P, r, g) == /\ g >= 1 /\ ~MustKeep(P, g)
                  /\ ~(Nm(P.given, g) # <<>> /\ Nm(r, g) = Nm(P.given, g))

Cand(P, g) == UNION {AGLText(t) : t \in Nm(P.texts, g)}

\* the name is a glyph-list name of one of the glyph's texts, or a variant of one
FromText(P, r, g) == \E b \in Cand(P, g) : Nm(r, g) = b \/ IsVariantOf(Nm(r, g), b)

\* every text of the glyph that has glyph-list names has one of them taken by another glyph
AllTaken(P, r, g) ==
  \A t \in Nm(P.texts, g) :
     ~Demanded(t) \/ \E s \in AGLText(t), h \in Glyphs(P) \ {g} : Nm(r, h) = s

\* Names a source glyph may have contributed to a derived name: the name it ends up with, the
\* name it was given, ".notdef" for glyph 0, a glyph-list name of its texts.  (The property
\* does not say at which moment of the inference a rule is read.)
SrcAlt(P, r, s) == ({Nm(r, s), Nm(P.given, s)} \cup (IF s = 0 THEN {NOTDEF} ELSE {}) \cup Cand(P, s))
                      \ {<<>>}
SrcChoices(P, r, rule) ==
  FoldLeft(LAMBDA acc, s : {Append(a, x) : a \in acc, x \in SrcAlt(P, r, s)}, {<<>>}, rule.src)

\* the name is derived from rule: a variant of the source's name (single / alternate), or the
\* joined component names or a variant of that (ligature)
DerivedBy(P, r, g, rule) ==
  /\ rule.dst = g
  /\ \E sn \in SrcChoices(P, r, rule) :
        IF rule.t = 4
          THEN Nm(r, g) = Join(sn) \/ IsVariantOf(Nm(r, g), Join(sn))
          ELSE IsVariantOf(Nm(r, g), sn[1])

FromRules(P, r, g) == \E k \in 1..Len(P.rules) : DerivedBy(P, r, g, P.rules[k])

\* a rule producing g all of whose sources have names from the start, whatever the order of
\* inference: glyph 0 (always ".notdef") or glyphs whose given name must be kept
FirmRule(P, g) ==
  \E k \in 1..Len(P.rules) :
     /\ P.rules[k].dst = g
     /\ \A j \in 1..Len(P.rules[k].src) :
          LET s == P.rules[k].src[j] IN s # g /\ (s = 0 \/ MustKeep(P, s))

Fails(P, r) ==
  IF Len(r) # P.n THEN {<<"length", -1>>}
  ELSE
       {<<"empty", g>>  : g \in {g \in Glyphs(P) : Nm(r, g) = <<>>}}
  \cup {<<"duplicate", g>> : g \in {g \in Glyphs(P) : Nm(r, g) # <<>> /\ \E h \in 0..g-1 : Nm(r, h) = Nm(r, g)}}
  \cup (IF Nm(r, 0) # NOTDEF THEN {<<"notdef", 0>>} ELSE {})
  \cup {<<"kept", g>>   : g \in {g \in Glyphs(P) : MustKeep(P, g) /\ Nm(r, g) # Nm(P.given, g)}}
  \* inferred from the character map ... before falling back to a placeholder
  \cup {<<"cmap", g>>   : g \in {g \in Glyphs(P) :
            /\ Needs(P, r, g) /\ (\E t \in Nm(P.texts, g) : Demanded(t))
            /\ ~FromText(P, r, g) /\ ~AllTaken(P, r, g) /\ ~FromRules(P, r, g)}}
  \* ... or from substitution rules before falling back to a placeholder
  \cup {<<"gsub", g>>   : g \in {g \in Glyphs(P) :
            /\ Needs(P, r, g) /\ FirmRule(P, g)
            /\ ~FromText(P, r, g) /\ ~FromRules(P, r, g)}}

Law(P, r) == Fails(P, r) = {}

\* A names list that is shorter than the glyph count (TrueType) can be read as "these glyphs
\* have names" or as "the font has no usable names": both readings are accepted.
Pad(names, n) == [k \in 1..n |-> IF k <= Len(names) THEN names[k] ELSE <<>>]
NoNames(n)    == [k \in 1..n |-> <<>>]
Readings(names, n) == IF Len(names) = n THEN <<names>> ELSE <<NoNames(n), Pad(names, n)>>

\* failures under the most favourable reading (first reading wins ties)
FailsAny(P0, names, r) ==
  LET rd == Readings(names, P0.n)
      f(k) == Fails([P0 EXCEPT !.given = rd[k]], r)
  IN IF \E k \in 1..Len(rd) : f(k) = {} THEN {} ELSE f(1)

---------------------------------------------------------------------------
(* PostScript names (PLRM 3.2.2): printable ASCII without white space and  *)
(* without the delimiters ( ) < > [ ] { } / %                              *)
PSDelims == {40, 41, 60, 62, 91, 93, 123, 125, 47, 37}
PSSafe(s) == \A k \in 1..Len(s) : s[k] >= 33 /\ s[k] <= 126 /\ s[k] \notin PSDelims
=============================================================================
