CONSTANTS
  Sizes = {100}
  MaxLookups = 1
  MaxSubs = 1
  MfsChoices = {FALSE}
  ScriptSizes = {20, 30000, 66000}
  FeatSizes = {14, 40000, 66000}
  EmitCases = TRUE
  Types = {0}
  ExtType = 7
  Recognised = {0}
  Fix28 = FALSE
INIT Init
NEXT Next
INVARIANT CodeInvChunks
INVARIANT CodeInvTotal
INVARIANT CodeInvLookupOffsets
INVARIANT CodeInvExt
INVARIANT CodeInvRetyped
INVARIANT CodeInvOtherSubOffsets
INVARIANT CodeInvNoPanic
INVARIANT DemandNoNeedlessRefusal
INVARIANT Emit
CHECK_DEADLOCK FALSE
