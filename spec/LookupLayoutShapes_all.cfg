CONSTANTS
  Mode = "all"
  Kinds = {"gsub1_1", "gsub1_2", "gsub2_1", "gsub3_1", "gsub4_1", "gsub8_1", "ctx1", "ctx2", "ctx3", "chain1", "chain2", "chain3", "gpos1_1", "gpos1_2", "gpos2_1", "gpos2_2", "gpos3_1", "gpos4_1", "gpos6_1", "ctx2z", "chain2z", "gpos2_2z"}
  Ns = {0, 1, 2, 5}
  Ms = {0, 1, 2, 4}
  Cs = {0, 1, 2, 3}
  Vs = {0, 1, 2, 3}
  Fs = {0, 1, 2}
INIT Init
NEXT Next
INVARIANT Emit
CHECK_DEADLOCK FALSE
