---------------------------- MODULE ByteViewInd ----------------------------
(***************************************************************************)
(* C17, unbounded part.  The cursor/window arithmetic of parser.Parser     *)
(* (ReadBytes, SeekPos, Discard) for EVERY buffer size B >= 1 (1024 in the *)
(* code), every file length and every call history, as an inductive       *)
(* invariant checked symbolically by Apalache:                            *)
(*     Init => IndInv          IndInv /\ Next => IndInv'                   *)
(* File contents are position coded, so "the window holds File[from ..     *)
(* from+used)" is carried by the integers alone; what the exhaustive TLC   *)
(* model (ByteView.tla, B=4) checks on explicit byte sequences is here     *)
(* reduced to linear integer arithmetic and proved for all B.              *)
(***************************************************************************)
EXTENDS Integers

CONSTANT
  \* @type: Int;
  B

VARIABLES
  \* @type: Int;
  L,
  \* @type: Int;
  from,
  \* @type: Int;
  pos,
  \* @type: Int;
  used,
  \* @type: Int;
  rpos,
  \* @type: Int;
  cur,
  \* @type: Str;
  pc,
  \* @type: Int;
  n,
  \* reply of the last completed ReadBytes: offset the data was taken from, length, ok
  \* @type: Int;
  rat,
  \* @type: Int;
  rn,
  \* @type: Bool;
  rok,
  \* ghost: the plain cursor right after the last completed ReadBytes
  \* @type: Int;
  rcur

ConstInit == B \in 1..4096

Init == /\ L \in 0..100000
        /\ from = 0 /\ pos = 0 /\ used = 0 /\ rpos = 0 /\ cur = 0
        /\ pc = "idle" /\ n = 0 /\ rat = 0 /\ rn = 0 /\ rok = TRUE /\ rcur = 0

Seek(p) ==
  /\ pc = "idle" /\ p >= 0
  /\ IF p >= from /\ p <= from + used
       THEN pos' = p - from /\ UNCHANGED <<from, used, rpos>>
       ELSE rpos' = p /\ from' = p /\ pos' = 0 /\ used' = 0
  /\ cur' = p
  /\ UNCHANGED <<L, pc, n, rat, rn, rok, rcur>>

RBCall(k) ==
  /\ pc = "idle" /\ k >= 0 /\ k <= B
  /\ pc' = "rb" /\ n' = k
  /\ UNCHANGED <<L, from, pos, used, rpos, cur, rat, rn, rok, rcur>>

\* one iteration of the fill loop: compact, then one underlying Read of any legal size, or EOF
RBIter ==
  /\ pc = "rb" /\ pos + n > used
  /\ IF L - rpos <= 0
       THEN /\ from' = from + pos /\ pos' = 0 /\ used' = used - pos /\ rpos' = rpos
            /\ pc' = "idle" /\ rat' = cur /\ rn' = n /\ rok' = FALSE /\ rcur' = cur
            /\ UNCHANGED <<L, cur, n>>
       ELSE \E l \in 1..B :
            /\ l <= B - (used - pos) /\ l <= L - rpos
            /\ from' = from + pos /\ pos' = 0 /\ used' = used - pos + l /\ rpos' = rpos + l
            /\ UNCHANGED <<L, cur, pc, n, rat, rn, rok, rcur>>

RBReturn ==
  /\ pc = "rb" /\ pos + n <= used
  /\ rat' = from + pos /\ rn' = n /\ rok' = TRUE      \* the bytes buf[pos:pos+n] = File[from+pos ..)
  /\ pos' = pos + n /\ cur' = cur + n /\ rcur' = cur + n
  /\ pc' = "idle"
  /\ UNCHANGED <<L, from, used, rpos, n>>

Next == \/ \E p \in 0..200000 : Seek(p)
        \/ \E k \in 0..4096 : RBCall(k)
        \/ RBIter \/ RBReturn

(* the inductive invariant *)
IndInv ==
  /\ B >= 1 /\ L >= 0
  /\ 0 <= pos /\ pos <= used /\ used <= B
  /\ from >= 0
  /\ rpos = from + used                       \* the underlying reader is positioned at the window end
  /\ used = 0 \/ from + used <= L             \* the window holds file bytes only
  /\ from + pos = cur                         \* Pos() is the plain cursor
  /\ pc \in {"idle", "rb"}
  /\ pc = "rb" => (n >= 0 /\ n <= B)
  \* the property: a completed read returned the bytes at the cursor it was issued at, and it
  \* failed if and only if it would pass the end of the input (zero-length reads always succeed)
  /\ rn >= 0
  /\ rok => (rcur = rat + rn /\ (rn > 0 => rat + rn <= L))
  /\ ~rok => (rcur = rat /\ rn > 0 /\ rat + rn > L)

IndInit == /\ L \in 0..100000 /\ from \in 0..200000 /\ pos \in 0..4096 /\ used \in 0..4096
           /\ rpos \in 0..300000 /\ cur \in 0..300000 /\ n \in 0..4096 /\ rat \in 0..300000 /\ rn \in 0..4096 /\ rcur \in 0..400000
           /\ pc \in {"idle", "rb"} /\ rok \in BOOLEAN
           /\ IndInv
=============================================================================
