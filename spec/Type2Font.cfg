\* C05: exhaustive model checking of FONTS of two glyphs whose charstrings write and read the
\* transient array (and leave widths, hints, pen position behind): every charstring starts on
\* the fresh machine (FreshMachine) and its meaning is that of its own text (ReplayAgrees).
CONSTANTS
  Unit = 1
  MaxV = 32000
  MaxPos = 1000000
  Vals <- TwoVals
  SVals <- TinySVals
  Sizes <- TinySizes
  DWs <- OneVal
  NWs <- OneVal
  MaskBytes <- OneVal
  GenOps <- AllGenOps
  MaxOps = 1
  MaxArgs = 1
  MaxArith = 1
  MaxCalls = 0
  Sim = FALSE
  Feats <- StorageFeats
  Excluded <- NoExcl
  Faults <- NoFaults
  NGs <- TwoGlyphs
INIT Init
NEXT Next
VIEW View
INVARIANT FreshMachine
INVARIANT StackOK
INVARIANT DepthOK
INVARIANT StatusOK
INVARIANT WidthOK
INVARIANT StageOK
INVARIANT PathOK
INVARIANT ReplayAgrees
INVARIANT FaultIsError
PROPERTY StageMono
PROPERTY WidthOnce
PROPERTY MovedMono
CHECK_DEADLOCK FALSE
