\* C04 GlyphGen, number-range sweep on quarter units: one coordinate delta of magnitude 32767.x .. 64000 with
\* every fractional part (0, 1/4, 1/2, 3/4), of either sign, as a move, a line, two lines, the first or the last
\* delta of a curve (enumerated).  Quarters are exact in 16.16 and fit TLC's 32-bit integers.
CONSTANTS
  GUnit = 4
  MaxG = 128000
  D <- QuarterD
  SD <- QuarterSD
  WPats <- QuarterW
  StemPlans <- NoStems
  MaxGlyphs = 2
  MaxSteps = 1
  LineRuns <- NoRuns
  CurveRuns <- NoRuns
  FarJumps = FALSE
  SweepOnly = TRUE
  SweepA <- SweepAs
  SweepB <- SweepBs
  SweepKinds <- DeltaOnly
  ValuePos <- AllPos
  Sim = FALSE
INIT SweepInit
NEXT Next
INVARIANT CoordsOK
INVARIANT MasksOK
INVARIANT MoveFirst
INVARIANT StemsOK
INVARIANT Emit
CHECK_DEADLOCK FALSE
